import Pyrealb.Model.Basic
