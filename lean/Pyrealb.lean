import Pyrealb.Model.Basic
import Pyrealb.Model.OneOf
import Pyrealb.Lemmas.OneOfRev
import Pyrealb.Lemmas.OneOfBridge
