import Pyrealb.Driver.Proto
import Pyrealb.Driver.OneOf
/-! Line-protocol driver: one JSON object per input line, one JSON object per output line.
    `{"op": <name>, ...}` is dispatched to the handler of the executable model. -/
open Lean Pyrealb.Driver

def allOps : List (String × Handler) :=
  OneOfOps.ops

def handle (line : String) : String :=
  match Json.parse line with
  | .error e => (Json.mkObj [("driver_error", Json.str s!"parse: {e}")]).compress
  | .ok j =>
    match getStr j "op" with
    | .error e => (Json.mkObj [("driver_error", Json.str e)]).compress
    | .ok op =>
      match allOps.lookup op with
      | none => (Json.mkObj [("driver_error", Json.str s!"unknown op {op}")]).compress
      | some h =>
        match h j with
        | .ok r => r.compress
        | .error e => (Json.mkObj [("driver_error", Json.str e)]).compress

partial def loop (hin : IO.FS.Stream) (hout : IO.FS.Stream) : IO Unit := do
  let line ← hin.getLine
  if line.isEmpty then return ()
  let t := line.trimAscii.toString
  if t.isEmpty then loop hin hout else
  hout.putStrLn (handle t)
  loop hin hout

def main : IO Unit := do
  let hin ← IO.getStdin
  let hout ← IO.getStdout
  loop hin hout
  hout.flush
