import Pyrealb.Model.OneOf
import Pyrealb.Lemmas.OneOfBridge
/-! # C20 — oneOf never repeats within a cycle or back to back; choice and mix are faithful

Property theorems only. The model (`Model/OneOf`) mirrors `utils.oneOf/choice/mix`; the random source is
universally quantified: *every* list `ps` of shuffle outcomes (each a permutation of `range n`) is covered,
for every `n ≥ 2` and histories of every length. -/
namespace Pyrealb.C20
open Pyrealb.OneOf

/-- adjacent elements differ -/
abbrev NoRep := Rev.NoRep
/-- every aligned block of `n` outputs is a permutation of `range n` -/
abbrev BlockPerm := Rev.BlockPerm

/-- the calls never fail and `out` is the list of returned indices -/
def Returns (mem : Option (List Nat)) (ps : List (List Nat)) (out : List Nat) : Prop :=
  runPy mem ps = out.map some

/-- **C20.a** no alternative is returned twice in a row, also across block boundaries -/
def no_repeat : Prop :=
  ∀ (n : Nat) (ps : List (List Nat)), 2 ≤ n → (∀ p ∈ ps, p.Perm (List.range n)) →
    ∃ out, Returns none ps out ∧ NoRep out

/-- **C20.b** each alternative exactly once in every consecutive block of `n` calls -/
def block_perm : Prop :=
  ∀ (n : Nat) (ps : List (List Nat)), 2 ≤ n → (∀ p ∈ ps, p.Perm (List.range n)) →
    ∃ out, Returns none ps out ∧ BlockPerm n out

theorem no_repeat_holds : no_repeat := by
  intro n ps hn hps
  refine ⟨Rev.run none (ps.map List.reverse), runPy_eq hn ps hps, ?_⟩
  apply Rev.oneOf_no_repeat hn
  intro p hp
  obtain ⟨q, hq, rfl⟩ := List.mem_map.mp hp
  exact isPerm_reverse (hps q hq)

theorem block_perm_holds : block_perm := by
  intro n ps hn hps
  refine ⟨Rev.run none (ps.map List.reverse), runPy_eq hn ps hps, ?_⟩
  apply Rev.oneOf_block_perm hn
  intro p hp
  obtain ⟨q, hq, rfl⟩ := List.mem_map.mp hp
  exact isPerm_reverse (hps q hq)

/-! ### distinct keys do not interact -/

def Res.idx : Res → Option Nat
  | .ret i _ => i
  | .err => none

/-- the indices returned to the calls that carry key `k`, in an arbitrary interleaved history -/
def outputsFor {κ} [DecidableEq κ] (k : κ) (d : Dict κ) (calls : List (Call κ)) : List (Option Nat) :=
  ((calls.zip (runAll d calls)).filter (fun x => x.1.key = k)).map (fun x => Res.idx x.2)

theorem dget_dset_same {κ} [DecidableEq κ] (d : Dict κ) (k : κ) (v : List Nat) :
    dget (dset d k v) k = some v := by
  induction d with
  | nil => simp [dset, dget]
  | cons kv r ih =>
    obtain ⟨k', v'⟩ := kv
    by_cases h : k' = k
    · simp [dset, dget, h]
    · simp [dset, dget, h, ih]

theorem dget_dset_other {κ} [DecidableEq κ] (d : Dict κ) (k k' : κ) (v : List Nat) (hk : k ≠ k') :
    dget (dset d k v) k' = dget d k' := by
  induction d with
  | nil => simp [dset, dget, hk]
  | cons kv r ih =>
    obtain ⟨k'', v''⟩ := kv
    by_cases h : k'' = k
    · subst h; simp [dset, dget, hk]
    · by_cases h2 : k'' = k'
      · subst h2; simp [dset, dget, h]
      · simp [dset, dget, h, h2, ih]

/-- **C20.c** calls with different alternative lists have independent histories: what the calls on key `k`
    return inside any interleaving with other keys is what they return alone. -/
def keys_independent : Prop :=
  ∀ (κ : Type) [DecidableEq κ] (k : κ) (d : Dict κ) (calls : List (Call κ)),
    (∀ c ∈ calls, 2 ≤ c.alts.length) →
    outputsFor k d calls = runPy (dget d k) ((calls.filter (fun c => c.key = k)).map (·.perm))

theorem keys_independent_holds : keys_independent := by
  intro κ _ k d calls
  induction calls generalizing d with
  | nil => intro _; simp [outputsFor, runAll, runPy]
  | cons c cs ih =>
    intro hl
    have hc : 2 ≤ c.alts.length := hl c (by simp)
    have hcs : ∀ c' ∈ cs, 2 ≤ c'.alts.length := fun c' h => hl c' (by simp [h])
    have h0 : c.alts.length ≠ 0 := by omega
    have h1 : c.alts.length ≠ 1 := by omega
    by_cases hk : c.key = k
    · cases hs : stepPy (dget d k) c.perm with
      | none =>
        have ho : oneOf d c = (.err, d) := by simp [oneOf, h0, h1, hk, hs]
        simp only [outputsFor, runAll, ho, List.zip_cons_cons, List.filter_cons, hk, decide_true,
          if_true, List.map_cons, runPy, hs, Res.idx]
        congr 1
        exact ih d hcs
      | some im =>
        obtain ⟨i, m⟩ := im
        have ho : oneOf d c = (.ret (some i) (calledOf c.alts i), dset d c.key m) := by
          simp [oneOf, h0, h1, hk, hs]
        simp only [outputsFor, runAll, ho, List.zip_cons_cons, List.filter_cons, hk, decide_true,
          if_true, List.map_cons, runPy, hs, Res.idx]
        congr 1
        have := ih (dset d k m) hcs
        rw [dget_dset_same] at this
        exact this
    · have hd : dget (oneOf d c).2 k = dget d k := by
        unfold oneOf
        simp only [h0, h1, if_false]
        cases stepPy (dget d c.key) c.perm with
        | none => rfl
        | some im => exact dget_dset_other d c.key k im.2 hk
      simp only [outputsFor, runAll, List.zip_cons_cons, List.filter_cons, hk, decide_false]
      have := ih (oneOf d c).2 hcs
      rw [hd] at this
      simpa [outputsFor] using this

/-! ### choice, mix, callables -/

/-- **C20.d** `choice` returns one of its arguments (for every outcome `r` of `random.choice`) -/
def choice_mem : Prop :=
  ∀ (alts : List Alt) (r : Nat), alts ≠ [] → r < alts.length →
    ∃ i, i < alts.length ∧ choice alts r = .ret (some i) (calledOf alts i)

theorem choice_mem_holds : choice_mem := by
  intro alts r hne hr
  have h0 : alts.length ≠ 0 := by
    intro h; exact hne (List.length_eq_zero_iff.mp h)
  by_cases h1 : alts.length = 1
  · exact ⟨0, by omega, by simp [choice, h1]⟩
  · exact ⟨r, hr, by simp [choice, h0, h1, hr]⟩

/-- **C20.e** `mix` returns a permutation of its arguments (whatever `random.shuffle` does, as long as it
    permutes), and calls exactly the callables, each once. -/
def mix_perm : Prop :=
  ∀ (alts : List Alt) (perm : List Nat), perm.Perm (List.range alts.length) →
    (mix alts perm).1.Perm (List.range alts.length) ∧
    (mix alts perm).2.Perm ((List.range alts.length).filter (fun i => alts[i]? = some Alt.fn))

theorem mix_perm_holds : mix_perm := by
  intro alts perm hp
  exact ⟨hp, hp.filter _⟩

/-- **C20.f** a callable alternative is called exactly once if selected and never otherwise -/
def callable_once : Prop :=
  ∀ (κ : Type) [DecidableEq κ] (d : Dict κ) (c : Call κ) (i : Option Nat) (called : List Nat),
    (oneOf d c).1 = .ret i called →
      (∀ j, i = some j → c.alts[j]? = some Alt.fn → called = [j]) ∧
      (∀ j, i = some j → c.alts[j]? ≠ some Alt.fn → called = []) ∧
      (i = none → called = [])

theorem callable_once_holds : callable_once := by
  intro κ _ d c i called h
  have key : ∀ (j : Nat), Res.ret i called = Res.ret (some j) (calledOf c.alts j) →
      (∀ j, i = some j → c.alts[j]? = some Alt.fn → called = [j]) ∧
      (∀ j, i = some j → c.alts[j]? ≠ some Alt.fn → called = []) ∧
      (i = none → called = []) := by
    intro j hj
    cases hj
    refine ⟨?_, ?_, by simp⟩ <;> intro j' hj' <;> cases hj' <;> intro hf <;> simp [calledOf, hf]
  by_cases h0 : c.alts.length = 0
  · simp only [oneOf, h0, if_true] at h
    cases h; simp
  · by_cases h1 : c.alts.length = 1
    · simp only [oneOf, h0, h1, if_true, if_false] at h
      exact key 0 h.symm
    · simp only [oneOf, h0, h1, if_false] at h
      cases hs : stepPy (dget d c.key) c.perm with
      | none => rw [hs] at h; cases h
      | some im => rw [hs] at h; exact key im.1 h.symm

/-! ### non-vacuity: concrete instances of the hypotheses, and the model run on them -/

example : ([2, 0, 1] : List Nat).Perm (List.range 3) := by decide
example : runPy none [[2, 0, 1], [0, 1, 2], [0, 2, 1], [0, 1, 2], [0, 1, 2], [1, 2, 0], [0, 1, 2]]
    = [some 1, some 0, some 2, some 1, some 2, some 0, some 1] := by decide
-- the swap at a block junction: the offered outcome ends with the index just returned
example : runPy (some [2]) [[0, 1, 2], [0, 1, 2], [0, 1, 2]] = [some 2, some 0, some 1] := by decide

end Pyrealb.C20
