import Pyrealb.Lemmas.ClauseEnOrder
import Pyrealb.Model.ClauseEnSurf
/-! # C04 — English clause transformations build the right verb group and word order

Property theorems only.  The model (`Model/ClauseEn`, both notations) mirrors affixHopping / passivate / processInt /
tag_question / move_object; `Lemmas/ClauseEn*` prove that the model equals a declarative linearisation (`realize_lin`)
and compare the verb group with the prescribed one on every verb class, tense and flag combination.

Quantification: `sp : Spec` is ANY clause specification (any noun phrases and pronouns, any number of prepositional
complements, any preposition), the verb is any lemma (`VLemma.other` stands for every verb the code does not name),
`ty : Typ` any combination of neg/pas/perf/prog/contr/exc × 6 modalities × 14 interrogatives, `nt` both notations.
`out.main` is the clause proper (everything but the tag of a tag question). -/
namespace Pyrealb.C04
open Pyrealb Pyrealb.ClauseEn

/-! ## the verb group -/

/-- **C04.a** modal-or-will, have, be (progressive), be (passive), main verb last — or `do` + main verb -/
def verb_group_order : Prop :=
  ∀ (nt : Notation) (sp : Spec) (ty : Typ) (out : Out), realize nt sp ty = .ok out →
    (vgroupLF out.main).map (·.1) = (specLF sp.verb sp.t ty).map (·.1)

/-- main verb `do`, negated, no auxiliary: "The cat does not." — the main verb is lost -/
theorem verb_group_order_refuted : ¬ verb_group_order := by
  intro h
  have := h .phrase ⟨.np ⟨1, .s, .n⟩, .do_, .p, none, []⟩ { neg := true } _ rfl
  revert this
  decide

/-- outside the four irregular families (`Irregular`: do+neg, have+neg with `have` first or alone, modal main verb
    questioned) the verb group is the prescribed one — lemma AND form of every element -/
theorem verb_group_order_partial :
    ∀ (nt : Notation) (sp : Spec) (ty : Typ) (out : Out), Irregular sp.verb sp.t ty = false →
      realize nt sp ty = .ok out → vgroupLF out.main = specLF sp.verb sp.t ty := by
  intro nt sp ty out hreg h
  rw [main_vgroupLF nt sp ty out h]
  unfold vgroupLF specLF
  rw [(vgroup_words sp.verb sp.t ty).mp hreg]

/-- **C04.b** only the first element is finite, and it carries the tense of the clause -/
def only_first_finite : Prop :=
  ∀ (nt : Notation) (sp : Spec) (ty : Typ) (out : Out), realize nt sp ty = .ok out →
    firstFiniteOnly sp.t (vgroupLF out.main) = true

theorem only_first_finite_holds : only_first_finite := by
  intro nt sp ty out h
  rw [main_vgroupLF nt sp ty out h]
  exact first_finite_only sp.verb sp.t ty

/-- **C04.b'** every other element carries the affix of its predecessor (b after a modal or `do`, pp after `have`,
    pr after progressive `be`, pp after passive `be`) -/
def affix_chain : Prop :=
  ∀ (nt : Notation) (sp : Spec) (ty : Typ) (out : Out), realize nt sp ty = .ok out →
    vgroupLF out.main = specLF sp.verb sp.t ty

/-- main verb `have`, perfect, negated: "The cat does not have had." -/
theorem affix_chain_refuted : ¬ affix_chain := by
  intro h
  have := h .dep ⟨.np ⟨1, .s, .n⟩, .have, .p, none, []⟩ { neg := true, perf := true } _ rfl
  revert this
  decide

theorem affix_chain_partial :
    ∀ (nt : Notation) (sp : Spec) (ty : Typ) (out : Out), Irregular sp.verb sp.t ty = false →
      realize nt sp ty = .ok out → vgroupLF out.main = specLF sp.verb sp.t ty :=
  verb_group_order_partial

/-- **C04.c** do-support exactly when a lexical verb (not be, have, modal) without auxiliary is negated or questioned
    (subject questions and tags do not count) -/
def do_support_iff : Prop :=
  ∀ (nt : Notation) (sp : Spec) (ty : Typ) (out : Out), realize nt sp ty = .ok out →
    usesDo (vgroupLF out.main) = doSupport sp.verb sp.t ty

/-- main verb `have`, negated: "The cat does not have." (do-support for a non-lexical verb) -/
theorem do_support_iff_refuted : ¬ do_support_iff := by
  intro h
  have := h .phrase ⟨.np ⟨1, .s, .n⟩, .have, .p, none, []⟩ { neg := true } _ rfl
  revert this
  decide

/-- the side condition `Irregular = false` is exact: do-support is right there and wrong everywhere else -/
theorem do_support_iff_partial :
    ∀ (nt : Notation) (sp : Spec) (ty : Typ) (out : Out), realize nt sp ty = .ok out →
      (Irregular sp.verb sp.t ty = false ↔ usesDo (vgroupLF out.main) = doSupport sp.verb sp.t ty) := by
  intro nt sp ty out h
  rw [main_vgroupLF nt sp ty out h]
  exact usesDo_words sp.verb sp.t ty

/-- **C04.d** `not` directly after the first element of the verb group (`cannot` for can + present), nowhere else,
    and no `not` without `neg` -/
def not_after_first : Prop :=
  ∀ (nt : Notation) (sp : Spec) (ty : Typ) (out : Out), realize nt sp ty = .ok out →
    notPlaced ty.neg (wordsOf out.main) = true

theorem not_after_first_holds : not_after_first := by
  intro nt sp ty out h
  rw [main_words nt sp ty out h, notPlaced_map_resolve]
  exact words_notPlaced sp.verb sp.t ty

/-! non-vacuity: a clause on which every hypothesis above is met and the verb group has four elements -/
example : ∃ out, realize .phrase ⟨.np ⟨1, .s, .n⟩, .other, .c, some (.np ⟨2, .p, .n⟩), [(s "in", ⟨3, .s, .n⟩)]⟩
      { neg := true, perf := true, pas := true, contr := true } = .ok out ∧
    vgroupLF out.main = [(.will, .ps), (.have, .b), (.be, .pp), (.other, .pp)] := ⟨_, rfl, by decide⟩
example : Irregular .other .c { neg := true, perf := true, pas := true, contr := true } = false := by decide

/-! ## interrogatives -/

/-- the subject of the clause: the promoted object in a passive (`it` when there is none to promote) -/
def subjTok (sp : Spec) (pas : Bool) : ArgTok := (midPh sp pas).subj

/-- **C04.e** interrogatives (other than subject questions and tags) realize, and put first the question word (none
    for yes/no), then the first element of the verb group, then the subject, then the rest of the verb group -/
def interrogative_fronting : Prop :=
  ∀ (nt : Notation) (sp : Spec) (ty : Typ) (i : ClauseEn.Int), ty.int = some i → i.fronting = true →
    ∃ out, realize nt sp ty = .ok out ∧
      Fronted i ((clauseWords sp ty).map (Tok.resolve out.agr)) (subjTok sp ty.pas) out.main

/-- dependency notation, passive without object, yes/no question: "It is slept by the cat?" — `move_object` finds the
    `*pre*(it)` it has just added instead of the auxiliary -/
theorem interrogative_fronting_refuted : ¬ interrogative_fronting := by
  intro h
  obtain ⟨out, hout, hf⟩ :=
    h .dep ⟨.np ⟨1, .s, .n⟩, .other, .p, none, []⟩ { pas := true, int := some .yon } .yon rfl rfl
  have e : realize .dep ⟨.np ⟨1, .s, .n⟩, .other, .p, none, []⟩ { pas := true, int := some .yon } = .ok _ := rfl
  rw [e] at hout
  injection hout with hout
  subst hout
  have := Fronted_yon_head _ _ _ hf (by decide)
  revert this
  decide

/-- the constituent notation inverts for every specification, verb, tense and flag combination -/
theorem interrogative_fronting_partial_phrase :
    ∀ (sp : Spec) (ty : Typ) (i : ClauseEn.Int), ty.int = some i → i.fronting = true →
      ∃ out, realize .phrase sp ty = .ok out ∧
        Fronted i ((clauseWords sp ty).map (Tok.resolve out.agr)) (subjTok sp ty.pas) out.main := by
  intro sp ty i hi hf
  have hq : ty.questioned = true := by rw [questioned_eq ty i hi]; exact hf
  have hv := hasV_of_questioned sp ty hq
  have hl : lin .phrase sp ty = some (linPh (midPh sp ty.pas) ty.int (clauseWords sp ty)) := rfl
  have := realize_lin .phrase sp ty
  rw [hl] at this
  obtain ⟨out, hout, hmain⟩ := this
  refine ⟨out, hout, ?_⟩
  rw [hmain, hi]
  exact Fronted_map _ _ _ _ _ (linPh_fronted _ i _ hv hf)

/-- the dependency notation inverts unless the clause is a passive without object (since `preposition_list` is shared
    with the dependency notation, prepositional questions no longer raise) -/
theorem interrogative_fronting_partial_dep :
    ∀ (sp : Spec) (ty : Typ) (i : ClauseEn.Int), ty.int = some i → i.fronting = true →
      ¬ (ty.pas = true ∧ sp.obj = none) →
      ∃ out, realize .dep sp ty = .ok out ∧
        Fronted i ((clauseWords sp ty).map (Tok.resolve out.agr)) (subjTok sp ty.pas) out.main := by
  intro sp ty i hi hf hnd
  have hq : ty.questioned = true := by rw [questioned_eq ty i hi]; exact hf
  have hc := dep_front_cond sp.verb sp.t ty hq
  change 2 ≤ (clauseWords sp ty).length ∨ headAlone (clauseWords sp ty) = true at hc
  have key : ∀ sj obj ql, ∃ L, linDepPlain sj obj ql (some i) (clauseWords sp ty) = some L := by
    intro sj obj ql
    cases i <;> simp [linDepPlain]
  -- the linearisation exists and is the plain one
  have hplain : ∃ sj obj ql L, sj = subjTok sp ty.pas ∧ linDep sp ty (clauseWords sp ty) = some L ∧
      linDepPlain sj obj ql (some i) (clauseWords sp ty) = some L := by
    unfold linDep subjTok midPh
    by_cases hp : ty.pas = true
    · simp only [hp, if_true]
      cases ho : sp.obj with
      | none => exact absurd ⟨hp, ho⟩ hnd
      | some o =>
        cases o with
        | np a =>
          obtain ⟨L, hL⟩ := key (.np a) none (ppArgs sp ++ [byArg sp])
          exact ⟨_, _, _, L, rfl, by rw [hi]; exact hL, hL⟩
        | pro a =>
          obtain ⟨L, hL⟩ := key (.proNom a) none (ppArgs sp ++ [byArg sp])
          exact ⟨_, _, _, L, rfl, by rw [hi]; exact hL, hL⟩
    · have hp' : ty.pas = false := by simpa using hp
      simp only [hp', Bool.false_eq_true, if_false]
      obtain ⟨L, hL⟩ := key (argTokOfSubj sp.subj) (sp.obj.map argTokOfObj) (ppArgs sp)
      exact ⟨_, _, _, L, rfl, by rw [hi]; exact hL, hL⟩
  obtain ⟨sj, obj, ql, L, hsj, hlin, hL⟩ := hplain
  have := realize_lin .dep sp ty
  have hl : lin .dep sp ty = some L := hlin
  rw [hl] at this
  obtain ⟨out, hout, hmain⟩ := this
  refine ⟨out, hout, ?_⟩
  rw [hmain, ← hsj]
  exact Fronted_map _ _ _ _ _ (linDepPlain_fronted sj obj ql i _ L hc hf hL)

/-! ## agreement -/

/-- person and number of the subject of the clause: of the promoted object in a passive, of `it` when there is none -/
def subjAgr (sp : Spec) (pas : Bool) : Agr :=
  if pas then (match sp.obj with | some o => agrOfArg o | none => ⟨.p3, .s⟩) else agrOfArg sp.subj

/-- **C04.i** the finite element agrees with the (possibly passive) subject.  `out.agr` is the person/number record
    every `shared` verb token of the output was resolved with.  Subject questions are left out: their subject is the
    question word. -/
def agreement_with_passive_subject : Prop :=
  ∀ (nt : Notation) (sp : Spec) (ty : Typ) (out : Out), realize nt sp ty = .ok out →
    ty.int ≠ some .wos → ty.int ≠ some .was → out.agr = subjAgr sp ty.pas

/-- dependency notation, passive without object, plural subject: "It are slept by the cats." -/
theorem agreement_with_passive_subject_refuted : ¬ agreement_with_passive_subject := by
  intro h
  have := h .dep ⟨.np ⟨1, .p, .n⟩, .other, .p, none, []⟩ { pas := true } _ rfl (by decide) (by decide)
  revert this
  decide

/-- also the constituent notation fails, when a pronoun object is promoted: "It is eaten by the cat." for
    `S(NP, VP(V, Pro("me").pe(1)))` -/
example : ¬ (∀ (sp : Spec) (ty : Typ) (out : Out), realize .phrase sp ty = .ok out →
    ty.int ≠ some .wos → ty.int ≠ some .was → out.agr = subjAgr sp ty.pas) := by
  intro h
  have := h ⟨.np ⟨1, .s, .n⟩, .other, .p, some (.pro ⟨.p1, .s, .n⟩), []⟩ { pas := true } _ rfl (by decide) (by decide)
  revert this
  decide

theorem agreement_with_passive_subject_partial_phrase :
    ∀ (sp : Spec) (ty : Typ) (out : Out), (∀ a, sp.obj ≠ some (.pro a)) → realize .phrase sp ty = .ok out →
      ty.int ≠ some .wos → ty.int ≠ some .was → out.agr = subjAgr sp ty.pas := by
  intro sp ty out hobj h h1 h2
  obtain ⟨out', hout', _, hagr⟩ := phrase_nf sp ty
  · have e : realizePhraseW sp ty (clauseWords sp ty) = realize .phrase sp ty := rfl
    rw [e, h] at hout'
    injection hout' with e'
    subst e'
    have hp : (midPh sp ty.pas).pending = none := by
      unfold midPh
      cases ty.pas <;> simp
      cases ho : sp.obj with
      | none => rfl
      | some o => cases o with
        | np a => rfl
        | pro a => exact absurd ho (hobj a)
    rw [hagr hp]
    unfold agrPlain subjAgr midPh
    cases hi : ty.int with
    | none => cases ty.pas <;> simp <;> (cases ho : sp.obj with | none => rfl | some o => cases o with | np a => rfl | pro a => exact absurd ho (hobj a))
    | some i =>
      cases i <;> simp_all <;> cases ty.pas <;> simp <;>
        (cases ho : sp.obj with | none => rfl | some o => cases o with | np a => rfl | pro a => exact absurd ho (hobj a))

theorem agreement_with_passive_subject_partial_dep :
    ∀ (sp : Spec) (ty : Typ) (out : Out), ¬ (ty.pas = true ∧ sp.obj = none) → realize .dep sp ty = .ok out →
      ty.int ≠ some .wos → ty.int ≠ some .was → out.agr = subjAgr sp ty.pas := by
  intro sp ty out hnd h h1 h2
  have := dep_nf sp ty
  cases hL : linDep sp ty (clauseWords sp ty) with
  | none =>
    simp only [hL] at this
    have e : realizeDep sp ty = realize .dep sp ty := rfl
    rw [e, h] at this
    cases this
  | some L =>
    simp only [hL] at this
    obtain ⟨out', hout', _, hagr⟩ := this
    have e : realizeDep sp ty = realize .dep sp ty := rfl
    rw [e, h] at hout'
    injection hout' with e'
    subst e'
    rw [hagr]
    unfold agrDep subjAgr agrDepPlain
    cases hp : ty.pas
    · cases hi : ty.int with
      | none => simp
      | some i => cases i <;> simp_all
    · simp
      cases ho : sp.obj with
      | none => exact absurd ⟨hp, ho⟩ hnd
      | some o =>
        cases o <;> simp [agrOfArg] <;>
        (cases hi : ty.int with
         | none => rfl
         | some i => cases i <;> simp_all)

/-! ## the questioned constituent -/

/-- the same clause without its interrogative flag -/
def declarative (ty : Typ) : Typ := { ty with int := none }

/-- **C04.f** the questioned constituent is dropped: compared with the same clause without `int`, a subject question
    loses its first argument (the subject), a direct-object question loses the direct object (the promoted subject in a
    passive), a prepositional question loses the first prepositional complement whose preposition fits the question
    (`preposition_list`) and nothing when none fits.  `argsOf` lists the noun phrases and pronouns of a token list in
    order, `ppsOf` its prepositional complements. -/
def questioned_constituent_dropped : Prop :=
  ∀ (nt : Notation) (sp : Spec) (ty : Typ) (out out0 : Out) (i : ClauseEn.Int), ty.int = some i →
    realize nt sp ty = .ok out → realize nt sp (declarative ty) = .ok out0 →
    ((i = .wos ∨ i = .was) → argsOf out.main = (argsOf out0.main).drop 1) ∧
    ((i = .wod ∨ i = .wad) → sp.obj.isSome = true →
        argsOf out.main = removeAt (argsOf out0.main) (if ty.pas then 0 else 1)) ∧
    (i.isPPq = true → ppsOf out.main = (questionPPDep i (ppsOf out0.main)).2)

/-- `wod` on a passive keeps the promoted object: "Who is the mouse eaten by the cat?" -/
theorem questioned_constituent_dropped_refuted : ¬ questioned_constituent_dropped := by
  intro h
  have := (h .phrase ⟨.np ⟨1, .s, .n⟩, .other, .p, some (.np ⟨2, .s, .n⟩), []⟩ { pas := true, int := some .wod } _ _ .wod
    rfl rfl rfl).2.1 (Or.inl rfl) rfl
  revert this
  decide

/-- a second way the clause fails, in the constituent notation only: `Phrase.processInt` looks at the FIRST prepositional
    phrase only — "Where does the cat eat with the spoon in the house?" keeps the place -/
example : ¬ (∀ (sp : Spec) (ty : Typ) (out out0 : Out) (i : ClauseEn.Int), ty.int = some i →
    realize .phrase sp ty = .ok out → realize .phrase sp (declarative ty) = .ok out0 →
    i.isPPq = true → ppsOf out.main = (questionPPDep i (ppsOf out0.main)).2) := by
  intro h
  have := h ⟨.np ⟨1, .s, .n⟩, .other, .p, none, [(s "with", ⟨2, .s, .n⟩), (s "in", ⟨3, .s, .n⟩)]⟩ { int := some .whe }
    _ _ .whe rfl rfl rfl rfl
  revert this
  decide

theorem args_phrase (sp : Spec) (ty : Typ) (out : Out) (h : realize .phrase sp ty = .ok out) :
    argsOf out.main = argsOf (linPh (midPh sp ty.pas) ty.int (clauseWords sp ty)) ∧
    ppsOf out.main = ppsOf (linPh (midPh sp ty.pas) ty.int (clauseWords sp ty)) := by
  obtain ⟨L, hL, hmain⟩ := ok_lin .phrase sp ty out h
  rw [hmain, argsOf_map_resolve, ppsOf_map_resolve]
  simp only [lin] at hL
  injection hL with hL; rw [hL]; exact ⟨rfl, rfl⟩

/-- constituent notation: everything but the direct-object question of a passive, and prepositional questions whose
    first prepositional phrase does not fit while a later one does -/
theorem questioned_constituent_dropped_partial_phrase :
    ∀ (sp : Spec) (ty : Typ) (out out0 : Out) (i : ClauseEn.Int), ty.int = some i →
      realize .phrase sp ty = .ok out → realize .phrase sp (declarative ty) = .ok out0 →
      ((i = .wos ∨ i = .was) → argsOf out.main = (argsOf out0.main).drop 1) ∧
      ((i = .wod ∨ i = .wad) → sp.obj.isSome = true → ty.pas = false → argsOf out.main = removeAt (argsOf out0.main) 1) ∧
      (i.isPPq = true →
        (questionPPPh i (midPh sp ty.pas).pl).2 = (questionPPDep i (midPh sp ty.pas).pl).2 →
        ppsOf out.main = (questionPPDep i (ppsOf out0.main)).2) := by
  intro sp ty out out0 i hi h h0
  obtain ⟨a, b⟩ := args_phrase sp ty out h
  obtain ⟨a0, b0⟩ := args_phrase sp (declarative ty) out0 h0
  rw [argsOf_linPh _ _ _ (clauseWords_all sp ty)] at a
  rw [argsOf_linPh _ _ _ (clauseWords_all sp (declarative ty))] at a0
  rw [ppsOf_linPh _ _ _ (clauseWords_all sp ty)] at b
  rw [ppsOf_linPh _ _ _ (clauseWords_all sp (declarative ty))] at b0
  have hp : (declarative ty).pas = ty.pas := rfl
  have hi0 : (declarative ty).int = none := rfl
  rw [hp, hi0] at a0 b0
  simp only [ppsAfter] at a0 b0
  rw [hi] at a b
  rw [a, a0, b, b0]
  refine ⟨?_, ?_, ?_⟩
  · rintro (rfl | rfl) <;> simp [fullArgs]
  · rintro (rfl | rfl) ho hpas <;>
    · obtain ⟨o, ho'⟩ := Option.isSome_iff_exists.mp ho
      simp [fullArgs, midPh, hpas, ho', removeAt]
  · intro hq heq
    cases i <;> simp [Int.isPPq] at hq <;> simpa [ppsAfter] using heq

def depArgs (sp : Spec) (ty : Typ) : List ArgTok :=
  if ty.pas then
    match sp.obj with
    | some (.np a) => argsPlain (.np a) none (ppArgs sp ++ [byArg sp]) ty.int
    | some (.pro a) => argsPlain (.proNom a) none (ppArgs sp ++ [byArg sp]) ty.int
    | none => argsDummy (ppArgs sp) [byArg sp] ty.int
  else argsPlain (argTokOfSubj sp.subj) (sp.obj.map argTokOfObj) (ppArgs sp) ty.int

/-- the prepositional dependents of the dependency clause, in the order of the dependency notation (by-phrase last) -/
def depPPs (sp : Spec) (pas : Bool) : List (Str × ArgTok) :=
  if pas then ppArgs sp ++ [byArg sp] else ppArgs sp

theorem args_dep (sp : Spec) (ty : Typ) (out : Out) (h : realize .dep sp ty = .ok out) :
    argsOf out.main = depArgs sp ty ∧ ppsOf out.main = ppsAfter questionPPDep ty.int (depPPs sp ty.pas) := by
  obtain ⟨L, hL, hmain⟩ := ok_lin .dep sp ty out h
  rw [hmain, argsOf_map_resolve, ppsOf_map_resolve]
  have hw := clauseWords_all sp ty
  simp only [lin, linDep] at hL
  unfold depArgs depPPs
  cases hp : ty.pas
  · simp only [hp, Bool.false_eq_true, if_false] at hL ⊢
    exact ⟨argsOf_linDepPlain _ _ _ _ _ _ hw hL, ppsOf_linDepPlain _ _ _ _ _ _ hw hL⟩
  · simp only [hp, if_true] at hL ⊢
    cases ho : sp.obj with
    | none =>
      simp only [ho] at hL ⊢
      exact ⟨argsOf_linDepDummy _ _ _ _ _ hw hL, ppsOf_linDepDummy _ _ _ _ _ hw hL⟩
    | some o =>
      cases o with
      | np a => simp only [ho] at hL ⊢; exact ⟨argsOf_linDepPlain _ _ _ _ _ _ hw hL, ppsOf_linDepPlain _ _ _ _ _ _ hw hL⟩
      | pro a => simp only [ho] at hL ⊢; exact ⟨argsOf_linDepPlain _ _ _ _ _ _ hw hL, ppsOf_linDepPlain _ _ _ _ _ _ hw hL⟩

/-- dependency notation: everything but subject questions of an objectless passive and direct-object questions of a
    passive; prepositional questions drop the first fitting prepositional dependent, for every clause -/
theorem questioned_constituent_dropped_partial_dep :
    ∀ (sp : Spec) (ty : Typ) (out out0 : Out) (i : ClauseEn.Int), ty.int = some i →
      realize .dep sp ty = .ok out → realize .dep sp (declarative ty) = .ok out0 →
      ((i = .wos ∨ i = .was) → ¬ (ty.pas = true ∧ sp.obj = none) → argsOf out.main = (argsOf out0.main).drop 1) ∧
      ((i = .wod ∨ i = .wad) → sp.obj.isSome = true → ty.pas = false → argsOf out.main = removeAt (argsOf out0.main) 1) ∧
      (i.isPPq = true → ppsOf out.main = (questionPPDep i (ppsOf out0.main)).2) := by
  intro sp ty out out0 i hi h h0
  obtain ⟨a, b⟩ := args_dep sp ty out h
  obtain ⟨a0, b0⟩ := args_dep sp (declarative ty) out0 h0
  have hp : (declarative ty).pas = ty.pas := rfl
  have hi0 : (declarative ty).int = none := rfl
  rw [a, a0, b, b0]
  unfold depArgs
  rw [hp, hi0, hi]
  refine ⟨?_, ?_, ?_⟩
  · rintro (rfl | rfl) hnd <;>
    · cases hpas : ty.pas
      · simp [argsPlain, fullArgs]
      · cases ho : sp.obj with
        | none => exact absurd ⟨hpas, ho⟩ hnd
        | some o => cases o <;> simp [argsPlain, fullArgs]
  · rintro (rfl | rfl) ho hpas <;>
    · obtain ⟨o, ho'⟩ := Option.isSome_iff_exists.mp ho
      simp [hpas, argsPlain, fullArgs, ho', removeAt]
  · intro hq
    cases i <;> simp [Int.isPPq] at hq <;> simp [ppsAfter]

/-! ## the passive -/

/-- the object once promoted to subject -/
def promote : Arg → ArgTok
  | .np a => .np a
  | .pro a => .proNom a

/-- the demoted subject: the subject argument itself, or its tonic pronoun -/
def DemotedOf (subj : Arg) (D : ArgTok) : Prop := D = argTokOfSubj subj ∨ D = demote (argTokOfSubj subj)

/-- **C04.g** the passive promotes the object to subject and demotes the subject to a by-phrase: `by` immediately
    followed by the demoted subject, after the promoted object (which is not there in a subject question).
    Prepositional questions, which may question the by-phrase itself, are left out. -/
def passive_swap : Prop :=
  ∀ (nt : Notation) (sp : Spec) (ty : Typ) (out : Out) (o : Arg), ty.pas = true → sp.obj = some o →
    (∀ i, ty.int = some i → i.isPPq = false) → realize nt sp ty = .ok out →
    ∃ l1 l3 D, out.main = l1 ++ .prep (s "by") :: .arg D :: l3 ∧ DemotedOf sp.subj D ∧
      (ty.int ≠ some .wos → ty.int ≠ some .was → Tok.arg (promote o) ∈ l1)

theorem passive_swap_holds : passive_swap := by
  intro nt sp ty out o hpas hobj hi h
  obtain ⟨L, hL, hmain⟩ := ok_lin nt sp ty out h
  have key : ∃ X l3 D, L = X ++ .prep (s "by") :: .arg D :: l3 ∧ DemotedOf sp.subj D ∧
      (ty.int ≠ some .wos → ty.int ≠ some .was → Tok.arg (promote o) ∈ X) := by
    cases nt with
    | phrase =>
      simp only [lin] at hL
      · injection hL with hL
        obtain ⟨X, hX, hmem⟩ := linPh_pps_last (midPh sp ty.pas) ty.int (clauseWords sp ty) hi
        have hm : (midPh sp ty.pas).pl = (s "by", demote (argTokOfSubj sp.subj)) :: ppArgs sp ∧
            (midPh sp ty.pas).subj = promote o := by
          unfold midPh; rw [hpas, hobj]; cases o <;> exact ⟨rfl, rfl⟩
        rw [hm.1] at hX
        rw [hm.2] at hmem
        exact ⟨X, ppToks (ppArgs sp), _, by rw [← hL, hX]; rfl, Or.inr rfl, hmem⟩
    | dep =>
      simp only [lin, linDep, hpas, if_true, hobj] at hL
      have hplain : linDepPlain (promote o) none (ppArgs sp ++ [byArg sp]) ty.int (clauseWords sp ty) = some L := by
        cases o <;> exact hL
      obtain ⟨X, hX, hmem⟩ := linDepPlain_pps_last _ _ _ _ _ _ hi hplain
      refine ⟨X ++ ppToks (ppArgs sp), [], argTokOfSubj sp.subj, ?_, Or.inl rfl, ?_⟩
      · rw [hX, ppToks_append]; simp [ppToks, byArg]
      · intro h1 h2; exact List.mem_append_left _ (hmem h1 h2)
  obtain ⟨X, l3, D, hLX, hD, hmem⟩ := key
  refine ⟨X.map (Tok.resolve out.agr), l3.map (Tok.resolve out.agr), D, ?_, hD, ?_⟩
  · rw [hmain, hLX]; simp [Tok.resolve]
  · intro h1 h2
    exact List.mem_map.mpr ⟨_, hmem h1 h2, rfl⟩

/-- non-vacuity: "Was the mouse not eaten by the cat in the house?" -/
example : ∃ out, realize .phrase ⟨.np ⟨1, .s, .n⟩, .other, .ps, some (.np ⟨2, .s, .n⟩), [(s "in", ⟨3, .s, .n⟩)]⟩
      { pas := true, neg := true, int := some .yon } = .ok out ∧
    out.main = [.verb .be .ps (.fixed ⟨.p3, .s⟩), .arg (.np ⟨2, .s, .n⟩), .not_, .verb .other .pp (.fixed Agr.dflt),
      .prep (s "by"), .arg (.np ⟨1, .s, .n⟩), .prep (s "in"), .arg (.np ⟨3, .s, .n⟩)] := ⟨_, rfl, by decide⟩

/-! ## contraction -/

/-- the words that occur in the keys of the lifted table -/
def contrLeft : List Str := (genContrTable.map (fun kv => kv.1.takeWhile (· != '+'))).eraseDups
def contrRight : List Str := (genContrTable.map (fun kv => (kv.1.dropWhile (· != '+')).drop 1)).eraseDups

/-- **C04.h** contraction = exactly `contractionEnTable` (lifted from ConstituentEn.doElision on every run): for every
    pair of words of the table's vocabulary, the contraction pass rewrites the pair iff `w1+w2` is a key, and then to
    the table's value followed by an emptied token; `cannot` becomes `can't`; and the keys are pairwise distinct -/
def contraction_exact_tbl : Prop :=
  (∀ w1 ∈ contrLeft, ∀ w2 ∈ contrRight,
      contract genContrTable [w1, w2] =
        (match lookup (w1 ++ s "+" ++ w2) genContrTable with
         | some c => [c, []]
         | none => [w1, w2])) ∧
  (∀ kv ∈ genContrTable, contract genContrTable [kv.1.takeWhile (· != '+'), (kv.1.dropWhile (· != '+')).drop 1] = [kv.2, []]) ∧
  (genContrTable.map (·.1)).Nodup ∧
  contract genContrTable [s "cannot", s "eat"] = [s "can't", s "eat"]

set_option maxRecDepth 100000 in
theorem contraction_exact_tbl_holds : contraction_exact_tbl := by
  unfold contraction_exact_tbl
  decide +kernel

end Pyrealb.C04
