import Pyrealb.Model.Elision
namespace Pyrealb.C06
open Pyrealb Pyrealb.Elision
theorem stub_holds : settled .fr [] = true := by decide
end Pyrealb.C06
