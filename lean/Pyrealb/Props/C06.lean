import Pyrealb.Model.ElisionSpec
import Pyrealb.Lemmas.ElisionTotal
import Pyrealb.Lemmas.ElisionEn
import Pyrealb.Lemmas.ElisionTree
/-! # C06 — elision, contraction, euphony, a/an on every realized text

Property theorems only. The model (`Model/Elision`) mirrors `ConstituentFr.doElision` / `ConstituentEn.doElision`
on token lists; the tables and regex alternatives are regenerated from the source (`Gen/ElisionTables`), so the
finite facts used below (`Lemmas/ElisionFacts`) are re-proved against the current repository.

`Settled ℓ toks` is the declarative statement of the property on adjacent tokens (`Model/Elision.pairOKFr`,
`pairOKEn`): French F1 no elidable word unelided before a vowel / mute h (lexicon `h` flag as `isElidableFr` reads
it) · F2 an elided form only before a vowel / mute h · F3 no key of the contraction table survives · F3' à/de never
before the article le/les, whatever the capitals · F4 ma/ta/sa/ce/beau/… singular take the prevocalic form ·
F5 cet/bel/fol/mol/nouvel/vieil only there; English: the determiner is `an` iff `anRule` selects the next word.

Each clause: full statement first (`def`), then `_holds`, or `_refuted` (concrete witness, replayed on the real
code by harness/props/C06.py) with `_partial` (the weakest side conditions found, `Model/ElisionSpec`). -/
namespace Pyrealb.C06
open Pyrealb Pyrealb.Elision Pyrealb.Gen.Elision

/-- every adjacent pair is settled (a pair whose left neighbour is `lier`-ed is exempt in French) -/
def Settled (ℓ : Lang) (toks : List Tok) : Prop := settled ℓ toks = true
/-- the input carries no stale elided / prevocalic-only form (fresh terminals, settled sub-lists) -/
def BwdOK (toks : List Tok) : Prop := bwdFromFr false toks = true
/-- the side conditions T2, T4, T5 of `Model/ElisionSpec.tameWinFr` hold on every window of the input (T1, T3 are
    no longer needed since /repo commits 534aec1, 5847d2f) -/
def Tame (toks : List Tok) : Prop := tameFromFr false toks = true

instance (ℓ : Lang) (toks : List Tok) : Decidable (Settled ℓ toks) := by unfold Settled; infer_instance
instance (toks : List Tok) : Decidable (BwdOK toks) := by unfold BwdOK; infer_instance
instance (toks : List Tok) : Decidable (Tame toks) := by unfold Tame; infer_instance
instance (toks : List Tok) : Decidable (TokWF toks) := by unfold TokWF; infer_instance

/-- a French test token -/
def tk (x : String) (ct : String := "N") (sg : Bool := true) (h : HFlag := .mute) : Tok :=
  ⟨some x.toList, ct.toList, false, sg, h, h, true⟩
/-- an English test token -/
def tke (x : String) (ct : String := "N") : Tok :=
  ⟨some x.toList, ct.toList, false, true, .mute, .mute, false⟩

/-! ## C06.0 the lifted tables are those the property names -/

/-- the elidable words, the euphony pairs, the vowel class and à/de+le/les → au/aux/du/des, as the property text
    lists them -/
def tables_match_property : Prop :=
  elidableFr = [['l','a'], ['l','e'], ['j','e'], ['m','e'], ['t','e'], ['s','e'], ['d','e'], ['n','e'], ['q','u','e'],
                ['p','u','i','s','q','u','e'], ['l','o','r','s','q','u','e'], ['j','u','s','q','u','e'],
                ['q','u','o','i','q','u','e']] ∧
  euphonieFrTable.map (·.1) = [['m','a'], ['t','a'], ['s','a'], ['c','e'], ['b','e','a','u'], ['f','o','u'], ['m','o','u'],
                ['n','o','u','v','e','a','u'], ['v','i','e','u','x']] ∧
  euphonicFr = euphonieFrTable.map (·.1) ∧
  prevocalicOnly = [['c','e','t'], ['b','e','l'], ['f','o','l'], ['m','o','l'], ['n','o','u','v','e','l'], ['v','i','e','i','l']] ∧
  vowelsFr = ['a','e','i','o','u','y','à','â','é','è','ê','ë','î','ï','ô','ö','ù','ü','œ','æ'] ∧
  contrFr ['à'] ['l','e'] = some ['a','u'] ∧ contrFr ['à'] ['l','e','s'] = some ['a','u','x'] ∧
  contrFr ['d','e'] ['l','e'] = some ['d','u'] ∧ contrFr ['d','e'] ['l','e','s'] = some ['d','e','s']

theorem tables_match_property_holds : tables_match_property := fact_tables_match_property

/-! ## C06.a the pass never raises -/

def elision_total : Prop :=
  ∀ (ℓ : Lang) (contr : Bool) (toks : List Tok), TokWF toks → ∃ out, doElision ℓ contr toks = .ok out

/-- holds since /repo commit 5847d2f (`euphonieFrTable[w1.lower()]`; `Ce arbre` raised KeyError before): the only
    dict subscript left is covered by `fact_euph_total` (every word of `euphonieFrRE` is a key of the table) -/
theorem elision_total_holds : elision_total := by
  intro ℓ contr toks hwf
  cases ℓ with
  | fr =>
    obtain ⟨out, ho, _⟩ := goFr_total toks.length toks false (Nat.le_refl _) hwf
    exact ⟨out, ho⟩
  | en =>
    -- the English loop has no raising branch once every realization is a string
    have hs : ∀ t ∈ toks, t.real.isSome = true := by
      intro t ht
      have := hwf t ht
      simp only [tokWF, Bool.and_eq_true] at this
      exact this.1.1
    suffices h : ∀ (n : Nat) (l : List Tok), l.length ≤ n → (∀ t ∈ l, t.real.isSome = true) →
        ∃ out, goEn contr l = .ok out from h toks.length toks (Nat.le_refl _) hs
    intro n
    induction n with
    | zero =>
      intro l hl _
      have : l = [] := List.length_eq_zero_iff.mp (Nat.le_zero.mp hl)
      subst this; exact ⟨[], rfl⟩
    | succ n ih =>
      intro l hl hs
      match l, hl, hs with
      | [], _, _ => exact ⟨[], rfl⟩
      | [t], _, _ => exact ⟨[t], rfl⟩
      | t1 :: t2 :: rest, hl, hs =>
        obtain ⟨l1, h1⟩ := ih (t2 :: rest) (by simp at hl ⊢; omega) (fun t ht => hs t (List.mem_cons_of_mem _ ht))
        obtain ⟨l2, h2⟩ := ih rest (by simp at hl ⊢; omega)
          (fun t ht => hs t (List.mem_cons_of_mem _ (List.mem_cons_of_mem _ ht)))
        have s1 := hs t1 (by simp)
        have s2 := hs t2 (by simp)
        cases r1 : t1.real with
        | none => simp [r1] at s1
        | some x1 =>
        cases r2 : t2.real with
        | none => simp [r2] at s2
        | some x2 =>
        have : ∃ a, stepEn contr t1 t2 = .ok a := by
          unfold stepEn
          simp only [r1, r2]
          cases view .en t1 with
          | none => exact ⟨_, rfl⟩
          | some v1 => cases view .en t2 with
            | none => exact ⟨_, rfl⟩
            | some v2 => exact ⟨_, rfl⟩
        obtain ⟨a, ha⟩ := this
        cases a with
        | keep => exact ⟨t1 :: l1, by simp [goEn, ha, h1]⟩
        | one a => exact ⟨a :: l1, by simp [goEn, ha, h1]⟩
        | two a b => exact ⟨a :: b :: l2, by simp [goEn, ha, h2]⟩

/-! ## C06.b one French pass settles every adjacent pair -/

def elision_pass_settles : Prop :=
  ∀ (toks out : List Tok), TokWF toks → BwdOK toks → doElision .fr false toks = .ok out → Settled .fr out

/-- `PP(P("de").cap(True), NP(D("le"), N("chat")))`: `contractionFrTable` is consulted with the words as written,
    a capitalised preposition is not contracted: `De le chat` -/
theorem elision_pass_settles_refuted : ¬ elision_pass_settles := by
  intro h
  have := h [tk "De" "P", tk "le" "D", tk "chat"] [tk "De" "P", tk "le" "D", tk "chat"]
    (by decide) (by decide) (by decide)
  revert this
  decide

/-- the witnesses of before /repo commits 5847d2f / 534aec1 are now handled (test): capitalised `Ce`, and the pair
    after an elided word is contracted or elided by the look-ahead -/
example : doElision .fr false [tk "Ce" "D", tk "arbre"] = .ok [tk "Cet" "D", tk "arbre"] ∧
    doElision .fr false [tk "jusque" "P", tk "à" "P", tk "le" "D", tk "matin"] =
      .ok [tk "jusqu'" "P", tk "au" "P", tk "" "D", tk "matin"] ∧
    doElision .fr false [tk "que" "C", tk "à" "P", tk "le" "D", tk "arbre"] =
      .ok [tk "qu'" "C", tk "à" "P", tk "l'" "D", tk "arbre"] ∧
    Tame [tk "jusque" "P", tk "à" "P", tk "le" "D", tk "matin"] := by decide

theorem elision_pass_settles_partial :
    ∀ (toks : List Tok), TokWF toks → BwdOK toks → Tame toks →
      ∃ out, doElision .fr false toks = .ok out ∧ Settled .fr out := by
  intro toks hwf hb ht
  obtain ⟨out, ho, hs, _⟩ := goFr_settles toks.length toks false (Nat.le_refl _) hwf hb ht
  exact ⟨out, ho, hs⟩

/-- non-vacuity: elision, euphony, contraction, look-ahead, aspirated h, punctuation and tags attached, `lier` -/
example : TokWF [tk "de" "P", tk "le" "D", tk "<b>arbre</b>,", tk "que" "C", tk "le" "D", tk "héros" "N" true .aspire,
                 tk "à" "P", tk "le" "D", tk "beau" "A", tk "(homme)"] ∧
    BwdOK [tk "de" "P", tk "le" "D", tk "<b>arbre</b>,", tk "que" "C", tk "le" "D", tk "héros" "N" true .aspire,
           tk "à" "P", tk "le" "D", tk "beau" "A", tk "(homme)"] ∧
    Tame [tk "de" "P", tk "le" "D", tk "<b>arbre</b>,", tk "que" "C", tk "le" "D", tk "héros" "N" true .aspire,
          tk "à" "P", tk "le" "D", tk "beau" "A", tk "(homme)"] ∧
    doElision .fr false [tk "de" "P", tk "le" "D", tk "<b>arbre</b>,", tk "que" "C", tk "le" "D",
          tk "héros" "N" true .aspire, tk "à" "P", tk "le" "D", tk "beau" "A", tk "(homme)"] =
      .ok [tk "du" "P", tk "" "D", tk "<b>arbre</b>,", tk "que" "C", tk "le" "D", tk "héros" "N" true .aspire,
           tk "au" "P", tk "" "D", tk "bel" "A", tk "(homme)"] := by decide

/-- words of the other language are left alone and ask nothing (since /repo commit ab31145): an English `a`, `le`
    inside a French list is neither elided nor contracted; a French article is still elided before an English word -/
example : doElision .fr false [tke "le" "D", tk "arbre", tk "de" "P", tke "le" "D", tk "le" "D", tke "apple"] =
      .ok [tke "le" "D", tk "arbre", tk "de" "P", tke "le" "D", tk "l'" "D", tke "apple"] ∧
    settled .fr [tke "le" "D", tk "arbre", tk "de" "P", tke "le" "D", tk "l'" "D", tke "apple"] = true := by decide

/-! ## C06.c the text (empty realizations dropped) is settled -/

def text_settled : Prop :=
  ∀ (toks out : List Tok), TokWF toks → BwdOK toks → doElision .fr false toks = .ok out →
    Settled .fr (dropEmpty out)

/-- `PP(P("de"),NP(D("un").n("p"),N("ami")))`: `de+des -> de`, the article is emptied, `de ami` is never re-examined -/
theorem text_settled_refuted : ¬ text_settled := by
  intro h
  have := h [tk "de" "P", tk "des" "D" false, tk "ami"] [tk "de" "P", tk "" "D" false, tk "ami"]
    (by decide) (by decide) (by decide)
  revert this
  decide

theorem text_settled_partial :
    ∀ (toks : List Tok), TokWF toks → BwdOK toks → Tame toks →
      ∃ out, doElision .fr false toks = .ok out ∧ ((∀ t ∈ out, t.real ≠ some []) → Settled .fr (dropEmpty out)) := by
  intro toks hwf hb ht
  obtain ⟨out, ho, hs⟩ := elision_pass_settles_partial toks hwf hb ht
  refine ⟨out, ho, ?_⟩
  intro hne
  have : dropEmpty out = out := by
    simp only [dropEmpty, List.filter_eq_self]
    intro t ht'
    simpa using hne t ht'
  rw [this]; exact hs

/-! ## C06.d a second pass changes nothing -/

def elision_idempotent : Prop :=
  ∀ (toks out : List Tok), TokWF toks → BwdOK toks → doElision .fr false toks = .ok out →
    doElision .fr false out = .ok out

/-- a quoted multi-word second token, `PP(P("de"), Q("des amis"))`: `de+des -> de` removes only the first word of the
    token, the second pass elides `de` before `amis` (user-quoted text: a witness of the model-level clause only, not
    a finding about the library's own words) -/
theorem elision_idempotent_refuted : ¬ elision_idempotent := by
  intro h
  have := h [tk "de" "P", tk "des amis" "Q"] [tk "de" "P", tk "amis" "Q"] (by decide) (by decide) (by decide)
  revert this
  decide

/-- a settled list is a fixed point -/
theorem settled_fixpoint :
    ∀ (toks : List Tok), TokWF toks → Settled .fr toks → doElision .fr false toks = .ok toks := by
  intro toks hwf hs
  exact goFr_fix toks.length toks false (Nat.le_refl _) hwf hs

theorem elision_idempotent_partial :
    ∀ (toks : List Tok), TokWF toks → BwdOK toks → Tame toks →
      ∃ out, doElision .fr false toks = .ok out ∧ doElision .fr false out = .ok out := by
  intro toks hwf hb ht
  obtain ⟨out, ho, hs, _⟩ := goFr_settles toks.length toks false (Nat.le_refl _) hwf hb ht
  obtain ⟨out', ho', hwf'⟩ := goFr_total toks.length toks false (Nat.le_refl _) hwf
  have : out' = out := by
    have := ho'.symm.trans ho
    cases this; rfl
  subst this
  exact ⟨out', ho, settled_fixpoint out' hwf' hs⟩

/-! ## C06.e English: `an` exactly before the words selected by the documented rule -/

def an_iff_rule : Prop :=
  ∀ (contr : Bool) (toks out : List Tok), TokWF toks → bwdFromEn toks = true →
    doElision .en contr toks = .ok out → Settled .en out

/-- `NP(D("a"),D("a"),N("apple"))` → `an a apple`: after `a -> an` the next pair is skipped -/
theorem an_iff_rule_refuted : ¬ an_iff_rule := by
  intro h
  have := h false [tke "a" "D", tke "a" "D", tke "apple"] [tke "an" "D", tke "a" "D", tke "apple"]
    (by decide) (by decide) (by decide)
  revert this
  decide

theorem an_iff_rule_partial :
    ∀ (contr : Bool) (toks : List Tok), TokWF toks → bwdFromEn toks = true → tameFromEn contr toks = true →
      ∃ out, doElision .en contr toks = .ok out ∧ Settled .en out := by
  intro contr toks hwf hb ht
  have hs : ∀ t ∈ toks, t.real.isSome = true := by
    intro t h
    have := hwf t h
    simp only [tokWF, Bool.and_eq_true] at this
    exact this.1.1
  obtain ⟨out, ho, hset, _⟩ := goEn_settles contr toks.length toks (Nat.le_refl _) hs hb ht
  exact ⟨out, ho, hset⟩

/-- the rule itself, on the documented examples (test) -/
example : anRule "hour".toList = true ∧ anRule "honest".toList = true ∧ anRule "user".toList = false ∧
    anRule "European".toList = false ∧ anRule "one".toList = false ∧ anRule "uncle".toList = true ∧
    anRule "FBI".toList = true ∧ anRule "hotel".toList = false ∧ anRule "apple".toList = true := by decide

/-- non-vacuity (English): a/an with tags and punctuation, contraction -/
example : tameFromEn true [tke "I" "Pro", tke "am" "V", tke "a" "D", tke "<b>honest</b>" "A", tke "man,", tke "a" "D", tke "user"] = true ∧
    doElision .en true [tke "I" "Pro", tke "am" "V", tke "a" "D", tke "<b>honest</b>" "A", tke "man,", tke "a" "D", tke "user"] =
      .ok [tke "I'm" "Pro", tke "" "V", tke "an" "D", tke "<b>honest</b>" "A", tke "man,", tke "a" "D", tke "user"] := by decide

/-! ## C06.f the tree: however the two adjacent words came together

`Real place format t out ins lvs` (`Model/ElisionTree`) is the abstract realization fold
`real(node) = format (doElisionFr (place (concat (map real children))))` for ANY tree, ANY leaf tokens and ANY
functions `place`, `format`; `ins` are the inputs of all the `doElision` calls of the fold, `lvs` the leaves. -/

/-- full strength: whatever the tree, if `place` never separates an elided token from the word that licenses it
    (`PlaceOK`), `format` only adds material that `sepWordREC` skips (`FormatOK`) and the leaves are fresh
    well-formed terminals, the realized token list is settled -/
def tree_settled : Prop :=
  ∀ (place format : Nat → List Tok → List Tok) (t : Tree) (out : List Tok) (ins lvs : List (List Tok))
    (cats : List (Nat × List Tok)),
    PlaceOK place → FormatOK format → Real place format t out ins lvs cats → (∀ ts ∈ lvs, InvOut ts) →
    Settled .fr out

/-- a flat `PP(P("de").cap(True), D("le"), N("chat"))`: one node, three fresh leaves -/
theorem tree_settled_refuted : ¬ tree_settled := by
  intro h
  let idf : Nat → List Tok → List Tok := fun _ l => l
  have hall : RealAll idf idf [.leaf [tk "De" "P"], .leaf [tk "le" "D"], .leaf [tk "chat"]]
      ([tk "De" "P"] ++ ([tk "le" "D"] ++ ([tk "chat"] ++ [])))
      ([] ++ ([] ++ ([] ++ [])))
      ([[tk "De" "P"]] ++ ([[tk "le" "D"]] ++ ([[tk "chat"]] ++ []))) ([] ++ ([] ++ ([] ++ []))) :=
    .cons _ _ _ _ _ _ _ _ _ _ (.leaf _) (.cons _ _ _ _ _ _ _ _ _ _ (.leaf _) (.cons _ _ _ _ _ _ _ _ _ _ (.leaf _) .nil))
  have hreal := Real.node (place := idf) (format := idf) 0 _ _
    [tk "De" "P", tk "le" "D", tk "chat"] _ _ _ hall (by decide)
  have := h idf idf _ _ _ _ _ placeOK_id formatOK_id hreal (by
    intro ts hts
    simp only [List.append_nil, List.cons_append, List.nil_append, List.mem_cons, List.not_mem_nil, or_false] at hts
    rcases hts with rfl | rfl | rfl <;> exact invOut_single _ (by decide) (by decide))
  revert this
  decide

theorem tree_settled_partial :
    ∀ (place format : Nat → List Tok → List Tok) (t : Tree) (out : List Tok) (ins lvs : List (List Tok))
      (cats : List (Nat × List Tok)),
      PlaceOK place → FormatOK format → Real place format t out ins lvs cats → (∀ ts ∈ lvs, InvOut ts) →
      (∀ inp ∈ ins, NodeTame inp) → Settled .fr out := by
  intro place format t out ins lvs cats hp hf hr hl ht
  exact (fold_inv place format hp hf t out ins lvs cats hr hl ht).2.1

/-- non-vacuity: `PP(P("de"), NP(D("le"), N("arbre")))` — the article is elided in the inner node, the outer node
    sees `de l' arbre` (an elided form in its input, licensed: `BwdOK`) and leaves it -/
example : ∃ out ins lvs cats,
    Real (fun _ l => l) (fun _ l => l)
      (.node 1 [.leaf [tk "de" "P"], .node 0 [.leaf [tk "le" "D"], .leaf [tk "arbre"]]]) out ins lvs cats ∧
    (∀ inp ∈ ins, NodeTame inp) ∧ (∀ ts ∈ lvs, InvOut ts) ∧
    out = [tk "de" "P", tk "l'" "D", tk "arbre"] := by
  let idf : Nat → List Tok → List Tok := fun _ l => l
  have inner : Real idf idf (.node 0 [.leaf [tk "le" "D"], .leaf [tk "arbre"]]) [tk "l'" "D", tk "arbre"]
      (([tk "le" "D"] ++ ([tk "arbre"] ++ [])) :: ([] ++ ([] ++ []))) ([[tk "le" "D"]] ++ ([[tk "arbre"]] ++ []))
      ((0, [tk "le" "D"] ++ ([tk "arbre"] ++ [])) :: ([] ++ ([] ++ []))) :=
    Real.node (place := idf) (format := idf) 0 _ _ [tk "l'" "D", tk "arbre"] _ _ _
      (.cons _ _ _ _ _ _ _ _ _ _ (.leaf _) (.cons _ _ _ _ _ _ _ _ _ _ (.leaf _) .nil)) (by decide)
  have outer := Real.node (place := idf) (format := idf) 1 _ _ [tk "de" "P", tk "l'" "D", tk "arbre"] _ _ _
    (.cons _ _ _ _ _ _ _ _ _ _ (.leaf [tk "de" "P"]) (.cons _ _ _ _ _ _ _ _ _ _ inner .nil)) (by decide)
  refine ⟨_, _, _, _, outer, ?_, ?_, rfl⟩
  · intro inp hi
    simp only [List.append_nil, List.cons_append, List.nil_append, List.mem_cons, List.not_mem_nil, or_false] at hi
    rcases hi with rfl | rfl <;> (unfold NodeTame; decide)
  · intro ts hts
    simp only [List.append_nil, List.cons_append, List.nil_append, List.mem_cons, List.not_mem_nil, or_false] at hts
    rcases hts with rfl | rfl | rfl <;> exact invOut_single _ (by decide) (by decide)

end Pyrealb.C06
