import Pyrealb.Lemmas.HeapClone
import Pyrealb.Lemmas.HeapCloneOps
import Pyrealb.Lemmas.HeapAgreeOps
/-! # C13 — clones and separate expressions are independent; arguments are not captured

Property theorems on the store model of C11 (`Model/Heap*`) extended with `clone` and caller-owned argument objects
(`Model/HeapClone`).  Realization itself is not modelled: "realizes to the same text" rests on `clone_same_abs` and on
the assumption A_realize (realization is a function of the abstraction and writes only inside the connected tree of its
receiver), monitored by the dynamic oracle of harness/props/C13.py.

* `clone_iso`, `clone_disjoint`, `clone_same_abs` — hold, for every store and every closed region.
* `op_frame` — holds: every modelled operation writes only inside a closed set that contains its receiver (its
  connected tree); link runs are those of the fragment (`planLocal`, checked on every state by the correspondence).
* `caller_unchanged`, `no_capture` — hold (the operations read the caller's object and keep values).
* `interleaving_independent` — holds: by induction over any interleaved history on two separate trees, each tree ends with
  the abstraction it has after its own operations alone.  It rests on the frame (`op_frame`) and on read-locality
  (`Lemmas/HeapAgree*`: the link plan of a node and every operation depend only on the content of the connected tree;
  the record a link run creates for a CP/coord is named after the node, so no renaming is needed).
  `interleaving_independent_partial` (no step on one side changes anything of the other side) is kept. -/
namespace Pyrealb.C13
open Pyrealb Pyrealb.Heap

/-! ## clone -/

/-- **C13.a** the cloned region is isomorphic to the region of the receiver: node by node the same fields with the
    references renamed by `ρ`, the same sharing of records (`σ`, `τ` injective) with the same contents, and the copy is
    itself closed under the references -/
def clone_iso : Prop :=
  ∀ (h : Heap) (C : List Nat), Closed h C →
    (∀ x ∈ C,
      (cloneRegion h C).node ((cloneMaps h C).ρ x) = mapNode (cloneMaps h C) (h.node x) ∧
      (cloneRegion h C).peng ((cloneMaps h C).ρ x) = (h.peng x).map (cloneMaps h C).σ ∧
      (cloneRegion h C).taux ((cloneMaps h C).ρ x) = (h.taux x).map (cloneMaps h C).τ ∧
      (cloneRegion h C).cod ((cloneMaps h C).ρ x) = (h.cod x).map (cloneMaps h C).ρ ∧
      (cloneRegion h C).subject ((cloneMaps h C).ρ x) = (h.subject x).map (Option.map (cloneMaps h C).ρ)) ∧
    (∀ x ∈ C, ∀ r, h.peng x = some r → (cloneRegion h C).prec ((cloneMaps h C).σ r) = h.prec r) ∧
    (∀ x ∈ C, ∀ r, h.taux x = some r → (cloneRegion h C).trec ((cloneMaps h C).τ r) = h.trec r) ∧
    (∀ x ∈ C, ∀ y ∈ C, (cloneMaps h C).ρ x = (cloneMaps h C).ρ y → x = y) ∧
    (∀ x ∈ C, ∀ y ∈ C, ∀ r s, h.peng x = some r → h.peng y = some s →
        ((cloneMaps h C).σ r = (cloneMaps h C).σ s ↔ r = s)) ∧
    Closed (cloneRegion h C) (C.map (cloneMaps h C).ρ)

theorem clone_iso_holds : clone_iso := by
  intro h C cl
  refine ⟨fun x hx => clone_new h C hx, ?_, ?_, fun x hx y hy => rho_inj h C hx hy, ?_, ?_⟩
  · intro x hx r hr; exact clone_prec_new h C (mem_recsOf.mpr ⟨x, hx, hr⟩)
  · intro x hx r hr; exact clone_trec_new h C (mem_recsOf.mpr ⟨x, hx, hr⟩)
  · intro x hx y hy r s hr hs
    exact ⟨sigma_inj h C (mem_recsOf.mpr ⟨x, hx, hr⟩) (mem_recsOf.mpr ⟨y, hy, hs⟩), fun e => by rw [e]⟩
  · intro z hz
    obtain ⟨x, hx, rfl⟩ := List.mem_map.mp hz
    refine ⟨rho_lt h C hx, ?_⟩
    rw [nbrs_clone h C hx]
    intro w hw
    obtain ⟨y, hy, rfl⟩ := List.mem_map.mp hw
    exact List.mem_map.mpr ⟨y, (cl x hx).2 y hy, rfl⟩

/-- **C13.b** the copy is disjoint from everything that existed: the old nodes and records are untouched, the copies are
    fresh nodes that reference only copies and point only to fresh records -/
def clone_disjoint : Prop :=
  ∀ (h : Heap) (C : List Nat), Closed h C →
    (∀ i, i < h.n → (cloneRegion h C).node i = h.node i ∧ (cloneRegion h C).peng i = h.peng i ∧
        (cloneRegion h C).taux i = h.taux i ∧ (cloneRegion h C).cod i = h.cod i ∧
        (cloneRegion h C).subject i = h.subject i) ∧
    (∀ r, r < ownRec h.nRec ∨ r % 2 = 1 → (cloneRegion h C).prec r = h.prec r) ∧
    (∀ r, r < h.nTRec → (cloneRegion h C).trec r = h.trec r) ∧
    (∀ x ∈ C, h.n ≤ (cloneMaps h C).ρ x ∧ ∀ y ∈ nbrs (cloneRegion h C) ((cloneMaps h C).ρ x), h.n ≤ y) ∧
    (∀ x ∈ C, ∀ r, (cloneRegion h C).peng ((cloneMaps h C).ρ x) = some r → ownRec h.nRec ≤ r ∧ r % 2 = 0) ∧
    (∀ x ∈ C, ∀ r, (cloneRegion h C).taux ((cloneMaps h C).ρ x) = some r → h.nTRec ≤ r)

theorem clone_disjoint_holds : clone_disjoint := by
  intro h C _
  refine ⟨fun i hi => clone_old h C hi, fun r hr => clone_prec_old h C hr, fun r hr => clone_trec_old h C hr, ?_, ?_, ?_⟩
  · intro x hx
    refine ⟨rho_fresh h C x, ?_⟩
    rw [nbrs_clone h C hx]
    intro y hy
    obtain ⟨z, _, rfl⟩ := List.mem_map.mp hy
    exact rho_fresh h C z
  · intro x hx r hr
    rw [(clone_new h C hx).2.1] at hr
    cases hq : h.peng x with
    | none => simp [hq] at hr
    | some s => simp [hq] at hr; subst hr; exact sigma_fresh h C s
  · intro x hx r hr
    rw [(clone_new h C hx).2.2.1] at hr
    cases hq : h.taux x with
    | none => simp [hq] at hr
    | some s => simp [hq] at hr; subst hr; exact tau_fresh h C s

/-- **C13.c** isomorphic regions have the same abstraction (tree, own props, partition of the nodes by shared record,
    record contents, back references — all relative to the region): what "a clone realizes to the same text" rests on -/
def clone_same_abs : Prop :=
  ∀ (h : Heap) (C : List Nat), Closed h C →
    absRegion (cloneRegion h C) (C.map (cloneMaps h C).ρ) = absRegion h C

theorem clone_same_abs_holds : clone_same_abs := by
  intro h C cl
  unfold absRegion
  rw [List.map_map]
  apply List.map_congr_left
  intro x hx
  exact absNode_clone h C cl hx

/-- `clone` of the model copies exactly the connected tree of its receiver -/
theorem clone_region (h : Heap) (x : Nat) (h' : Heap) (x' : Nat) (hc : clone h x = .ok (h', x')) :
    ∃ C, closure h x = some C ∧ Closed h C ∧ x ∈ C ∧ h' = cloneRegion h C ∧ x' = (cloneMaps h C).ρ x := by
  unfold clone at hc
  cases hq : closure h x with
  | none => simp [hq] at hc
  | some C =>
    simp only [hq, R.ok.injEq, Prod.mk.injEq] at hc
    obtain ⟨cl, hx, _, _⟩ := closure_spec h x C hq
    exact ⟨C, rfl, cl, hx, hc.1.symm, hc.2.symm⟩

/-! ## frames -/

/-- the operations on existing nodes -/
inductive LOp where
  | opt (x : Nat) (name : Str) (val : Val)          -- an option method
  | setProp (x : Nat) (k : Str) (v : Val)
  | typ (x : Nat) (arg : Typ.Arg)
  | add (p e : Nat) (pos : Option Int)              -- `p.add(e, pos)` for a node `e`
  | relink (p : Nat)                                -- `p.linkProperties()`

def LOp.nodes : LOp → List Nat
  | .opt x _ _ => [x]
  | .setProp x _ _ => [x]
  | .typ x _ => [x]
  | .add p e _ => [p, e]
  | .relink p => [p]

def runLOp (h : Heap) : LOp → R Heap
  | .opt x name val => opt h x name val
  | .setProp x k v => .ok (h.setProp x k v)
  | .typ x arg => .ok (typOp h x arg)
  | .add p e pos =>
    if (h.kind p).isPhrase then phraseAdd1 h p e pos
    else if (h.kind p).isDep then depAdd h p pos (.item (.node e))
    else if pos.isSome then .crash .typeError
    else .ok h.warn
  | .relink p => linkR h p

/-- `runLOp` is what the history interpreter `runOp` does for these operations -/
theorem runOp_add_node (h : Heap) (p e : Nat) (pos : Option Int) (hp : p < h.n) (he : e < h.n) :
    runOp h (.add p (.item (.node e)) pos) = runLOp h (.add p e pos) := by
  have h1 : ¬ p ≥ h.n := by omega
  have h2 : ¬ e ≥ h.n := by omega
  simp [runOp, runLOp, argHandles, h1, h2, phraseAdd]

/-- **C13.d** every modelled operation writes only inside a closed set of nodes containing its receiver (and the added
    child): nodes outside keep all their fields and pointers, records that no node of the set pointed to keep their
    content, the nodes of the set point afterwards to records they pointed to before or to fresh ones, and the set is
    still closed -/
def op_frame : Prop :=
  ∀ (h : Heap) (D : List Nat) (o : LOp) (h' : Heap), Closed h D → (∀ y ∈ o.nodes, y ∈ D) → runLOp h o = .ok h' →
    Frame D h h' ∧ Closed h' D

theorem op_frame_holds : op_frame := by
  intro h D o h' cl hn hr
  cases o with
  | opt x name val =>
    have hx : x ∈ D := hn x (by simp [LOp.nodes])
    simp only [runLOp, opt] at hr
    cases hf : optSpecs.find? (fun sp => sp.name == name) with
    | none => simp [hf] at hr
    | some sp => simp only [hf, R.ok.injEq] at hr; subst hr; exact optRun_good D sp val _ h x cl hx
  | setProp x k v =>
    simp only [runLOp, R.ok.injEq] at hr; subst hr
    exact setProp_good D h x k v cl (hn x (by simp [LOp.nodes]))
  | typ x arg =>
    simp only [runLOp, R.ok.injEq] at hr; subst hr
    exact typOp_good D h x arg cl (hn x (by simp [LOp.nodes]))
  | add p e pos =>
    have hp : p ∈ D := hn p (by simp [LOp.nodes])
    have he : e ∈ D := hn e (by simp [LOp.nodes])
    simp only [runLOp] at hr
    split at hr
    · exact phraseAdd1_good D h h' p e pos cl hp he hr
    · split at hr
      · exact depAddNode_good D h h' p e pos cl hp he hr
      · split at hr
        · simp at hr
        · simp only [R.ok.injEq] at hr; subst hr; exact warn_good D h 1 cl
  | relink p => exact linkR_good D h h' p cl (hn p (by simp [LOp.nodes])) hr

/-! ## caller-owned argument objects -/

/-- **C13.e** no operation of the library writes an object of the caller -/
def caller_unchanged : Prop :=
  ∀ (w w' : World) (o : COp), o.isLibrary = true → runCOp w o = .ok w' → w'.cells = w.cells

theorem caller_unchanged_holds : caller_unchanged := by
  intro w w' o hl hr
  cases o with
  | op o1 =>
    simp only [runCOp] at hr
    cases h1 : runOp w.heap o1 <;> rw [h1] at hr <;> simp at hr
    subst hr; rfl
  | clone x =>
    simp only [runCOp] at hr
    split at hr
    · simp at hr
    · cases h1 : Heap.clone w.heap x <;> rw [h1] at hr <;> simp at hr
      subst hr; rfl
  | typC x a =>
    simp only [runCOp] at hr
    split at hr
    · rename_i d _
      cases h1 : runOp w.heap (.typ x (.dict d)) <;> rw [h1] at hr <;> simp at hr
      subst hr; rfl
    · simp at hr
  | mkPC k lang a =>
    simp only [runCOp] at hr
    split at hr
    · rename_i l _
      cases h1 : runOp w.heap (.mkP k lang [.list l]) <;> rw [h1] at hr <;> simp at hr
      subst hr; rfl
    · simp at hr
  | addC p a pos =>
    simp only [runCOp] at hr
    split at hr
    · rename_i l _
      cases h1 : runOp w.heap (.add p (.list l) pos) <;> rw [h1] at hr <;> simp at hr
      subst hr; rfl
    · simp at hr
  | newCell c => simp [COp.isLibrary] at hl
  | mutCell a c => simp [COp.isLibrary] at hl

/-- **C13.f** the store keeps no reference to an object of the caller: whatever the caller does to its objects
    afterwards leaves the store as it is, and what an operation does depends on the content of its argument at the time
    of the call only -/
def no_capture : Prop :=
  (∀ (w w' : World) (a : Nat) (c : Cell), runCOp w (.mutCell a c) = .ok w' → w'.heap = w.heap) ∧
  (∀ (w : World) (cs : List Cell) (x a : Nat), cs[a]? = w.cells[a]? →
      (match runCOp w (.typC x a), runCOp { w with cells := cs } (.typC x a) with
       | .ok w1, .ok w2 => w1.heap = w2.heap
       | .crash c1, .crash c2 => c1 = c2
       | .outside, .outside => True
       | _, _ => False))

theorem no_capture_holds : no_capture := by
  refine ⟨?_, ?_⟩
  · intro w w' a c hr
    simp only [runCOp] at hr
    split at hr
    · simp only [R.ok.injEq] at hr; subst hr; rfl
    · simp at hr
  · intro w cs x a hc
    simp only [runCOp, hc]
    cases w.cells[a]? with
    | none => simp
    | some cell =>
      cases cell with
      | list l => simp
      | dict d =>
        simp only
        cases runOp w.heap (.typ x (.dict d)) <;> simp

/-! ## interleavings on two separate trees -/

/-- two sets of nodes with nothing in common: no node, no record that both point to, and no record of one side that
    is the record a link run would create for a node of the other side -/
structure Sep (h : Heap) (A B : List Nat) : Prop where
  nodes : ∀ x ∈ A, ¬ x ∈ B
  recs : ∀ r, RecOf h A r → ¬ RecOf h B r
  trecs : ∀ r, TRecOf h A r → ¬ TRecOf h B r
  freshA : ∀ r, RecOf h A r → ∀ y ∈ B, r ≠ freshRec y
  freshB : ∀ r, RecOf h B r → ∀ y ∈ A, r ≠ freshRec y

theorem Sep.symm {h : Heap} {A B : List Nat} (s : Sep h A B) : Sep h B A :=
  ⟨fun x hx hA => s.nodes x hA hx, fun r hB hA => s.recs r hA hB, fun r hB hA => s.trecs r hA hB, s.freshB, s.freshA⟩

/-- the part of the store that belongs to the nodes `A` is the same in `h` and `h'` -/
structure RegionEq (A : List Nat) (h h' : Heap) : Prop where
  node : ∀ x ∈ A, h'.node x = h.node x
  peng : ∀ x ∈ A, h'.peng x = h.peng x
  taux : ∀ x ∈ A, h'.taux x = h.taux x
  cod : ∀ x ∈ A, h'.cod x = h.cod x
  subject : ∀ x ∈ A, h'.subject x = h.subject x
  prec : ∀ r, RecOf h A r → h'.prec r = h.prec r
  trec : ∀ r, TRecOf h A r → h'.trec r = h.trec r

/-- what a frame on `B` means for a separate set `A` -/
theorem regionEq_of_frame {h h' : Heap} {A B : List Nat} (sep : Sep h A B) (f : Frame B h h') : RegionEq A h h' where
  node x hx := f.node x (sep.nodes x hx)
  peng x hx := f.peng x (sep.nodes x hx)
  taux x hx := f.taux x (sep.nodes x hx)
  cod x hx := f.cod x (sep.nodes x hx)
  subject x hx := f.subject x (sep.nodes x hx)
  prec r hr := f.prec r (sep.recs r hr) (sep.freshA r hr)
  trec r hr := f.trec r (sep.trecs r hr)

theorem recOf_regionEq {h h' : Heap} {A : List Nat} (e : RegionEq A h h') (r : Nat) : RecOf h' A r ↔ RecOf h A r := by
  constructor
  · rintro ⟨x, hx, hr⟩; exact ⟨x, hx, by rw [← e.peng x hx]; exact hr⟩
  · rintro ⟨x, hx, hr⟩; exact ⟨x, hx, by rw [e.peng x hx]; exact hr⟩

theorem trecOf_regionEq {h h' : Heap} {A : List Nat} (e : RegionEq A h h') (r : Nat) : TRecOf h' A r ↔ TRecOf h A r := by
  constructor
  · rintro ⟨x, hx, hr⟩; exact ⟨x, hx, by rw [← e.taux x hx]; exact hr⟩
  · rintro ⟨x, hx, hr⟩; exact ⟨x, hx, by rw [e.taux x hx]; exact hr⟩

/-- after a step framed by `B` the two sets are still separate, and `A` is still closed -/
theorem sep_after {h h' : Heap} {A B : List Nat} (sep : Sep h A B) (clA : Closed h A) (f : Frame B h h') :
    Sep h' A B ∧ Closed h' A := by
  have e := regionEq_of_frame sep f
  refine ⟨⟨sep.nodes, ?_, ?_, ?_, ?_⟩, ?_⟩
  · intro r hr hB
    have hrA := (recOf_regionEq e r).mp hr
    rcases f.recOf r hB with q | ⟨y, hy, rfl⟩
    · exact sep.recs r hrA q
    · exact sep.freshA _ hrA y hy rfl
  · intro r hr hB
    exact sep.trecs r ((trecOf_regionEq e r).mp hr) (f.trecOf r hB)
  · intro r hr
    exact sep.freshA r ((recOf_regionEq e r).mp hr)
  · intro r hr y hy
    rcases f.recOf r hr with q | ⟨z, hz, rfl⟩
    · exact sep.freshB r q y hy
    · intro e2
      have : z = y := by simp only [freshRec] at e2; omega
      exact sep.nodes y hy (this ▸ hz)
  · intro x hx
    obtain ⟨h1, h2⟩ := clA x hx
    refine ⟨by rw [f.n]; exact h1, ?_⟩
    rw [nbrs_congr h h' x (by rw [e.node x hx]) (by rw [e.node x hx]) (by rw [e.node x hx]) (e.cod x hx) (e.subject x hx)]
    exact h2

def onSide (S : List Nat) (o : LOp) : Prop := ∀ y ∈ o.nodes, y ∈ S

/-- along a history, every step on one side leaves the other side exactly as it was -/
def Stepwise (A B : List Nat) : Heap → List LOp → Prop
  | _, [] => True
  | h, o :: os =>
    ∀ h1, runLOp h o = .ok h1 →
      (onSide B o → RegionEq A h h1) ∧ (onSide A o → RegionEq B h h1) ∧ Stepwise A B h1 os

def runLOps : Heap → List LOp → R Heap
  | h, [] => .ok h
  | h, o :: os =>
    match runLOp h o with
    | .ok h1 => runLOps h1 os
    | .crash c => .crash c
    | .outside => .outside

/-- the abstraction of the side `A` (relative to `A` itself) after a history -/
def absAfter (h : Heap) (A : List Nat) (ops : List LOp) : Option (List AbsNode) :=
  match runLOps h ops with
  | .ok h' => some (absRegion h' A)
  | _ => none

instance (S : List Nat) (o : LOp) : Decidable (onSide S o) := by unfold onSide; exact inferInstance

/-- **C13.g** an interleaved history on two separate trees leaves each of them with the abstraction it has after its
    own operations alone (the "alone" run starts from the same store and simply does not perform the other side's
    operations) -/
def interleaving_independent : Prop :=
  ∀ (h : Heap) (A B : List Nat) (ops : List LOp) (h' : Heap), Closed h A → Closed h B → Sep h A B →
    (∀ o ∈ ops, onSide A o ∨ onSide B o) → runLOps h ops = .ok h' →
    absAfter h A (ops.filter (fun o => decide (onSide A o))) = some (absRegion h' A) ∧
    absAfter h B (ops.filter (fun o => decide (onSide B o))) = some (absRegion h' B)

/-- **C13.g partial** for EVERY interleaved history of operations on two separate trees (options, typ, add of a node of
    the same tree, re-linking — in any order, of any length): no step on one side changes anything of the other side
    (its nodes, their pointers, the contents of the records they share) -/
theorem interleaving_independent_partial (A B : List Nat) : ∀ (ops : List LOp) (h : Heap), Closed h A → Closed h B →
    Sep h A B → (∀ o ∈ ops, onSide A o ∨ onSide B o) → Stepwise A B h ops := by
  intro ops
  induction ops with
  | nil => intro h _ _ _ _; trivial
  | cons o os ih =>
    intro h clA clB sep hs h1 hr
    have hso := hs o List.mem_cons_self
    have hrest : ∀ o' ∈ os, onSide A o' ∨ onSide B o' := fun o' ho' => hs o' (List.mem_cons_of_mem _ ho')
    refine ⟨fun hB => ?_, fun hA => ?_, ?_⟩
    · exact regionEq_of_frame sep (op_frame_holds h B o h1 clB hB hr).1
    · exact regionEq_of_frame sep.symm (op_frame_holds h A o h1 clA hA hr).1
    · rcases hso with hA | hB
      · obtain ⟨f, clA1⟩ := op_frame_holds h A o h1 clA hA hr
        obtain ⟨sep1, clB1⟩ := sep_after sep.symm clB f
        exact ih h1 clA1 clB1 sep1.symm hrest
      · obtain ⟨f, clB1⟩ := op_frame_holds h B o h1 clB hB hr
        obtain ⟨sep1, clA1⟩ := sep_after sep clA f
        exact ih h1 clA1 clB1 sep1 hrest

/-- read-locality of every operation: on stores that agree on a closed set containing its receiver, an operation has the
    same outcome and leads to stores that agree on the set again -/
theorem runLOp_agree (h g : Heap) (A : List Nat) (o : LOp) (h' : Heap) (cl : Closed h A) (ag : Agree A h g)
    (hs : onSide A o) (hr : runLOp h o = .ok h') : ∃ g', runLOp g o = .ok g' ∧ Agree A h' g' := by
  cases o with
  | opt x name val =>
    have hx : x ∈ A := hs x (by simp [LOp.nodes])
    simp only [runLOp, opt] at hr ⊢
    cases hf : optSpecs.find? (fun sp => sp.name == name) with
    | none => simp [hf] at hr
    | some sp =>
      simp only [hf, R.ok.injEq] at hr ⊢
      subst hr
      rw [ag.n]
      exact ⟨_, rfl, agree_optRun sp val _ h g x cl ag hx⟩
  | setProp x k v =>
    simp only [runLOp, R.ok.injEq] at hr ⊢; subst hr
    exact ⟨_, rfl, agree_setProp ag (hs x (by simp [LOp.nodes])) k v⟩
  | typ x arg =>
    simp only [runLOp, R.ok.injEq] at hr ⊢; subst hr
    exact ⟨_, rfl, agree_typOp ag (hs x (by simp [LOp.nodes])) arg⟩
  | add p e pos =>
    have hp : p ∈ A := hs p (by simp [LOp.nodes])
    have he : e ∈ A := hs e (by simp [LOp.nodes])
    simp only [runLOp, kind_ag cl ag hp] at hr ⊢
    split at hr
    · rename_i hc; simp only [hc, if_true]; exact agree_phraseAdd1 cl ag hp he pos h' hr
    · rename_i hc
      simp only [hc, Bool.false_eq_true, if_false]
      split at hr
      · rename_i hc2; simp only [hc2, if_true]; exact agree_depAddNode cl ag hp he pos h' hr
      · rename_i hc2
        simp only [hc2, Bool.false_eq_true, if_false]
        split at hr
        · simp at hr
        · rename_i hc3
          simp only [hc3, Bool.false_eq_true, if_false, R.ok.injEq] at hr ⊢
          subst hr
          exact ⟨_, rfl, agree_warn ag 1⟩
  | relink p => exact agree_linkR cl ag (hs p (by simp [LOp.nodes])) h' hr

/-- stores that agree on `A` give `A` the same abstraction -/
theorem absRegion_agree {A : List Nat} {h g : Heap} (ag : Agree A h g) : absRegion g A = absRegion h A := by
  unfold absRegion
  apply List.map_congr_left
  intro x hx
  have fp : ∀ r, firstWith g.peng A r = firstWith h.peng A r := by
    intro r
    unfold firstWith
    have := findIdx_map (L := A) (f := id) (p := fun y => h.peng y == some r) (p' := fun y => g.peng y == some r)
      (fun y hy => by simp [ag.peng y hy])
    simpa using this
  have ft : ∀ r, firstWith g.taux A r = firstWith h.taux A r := by
    intro r
    unfold firstWith
    have := findIdx_map (L := A) (f := id) (p := fun y => h.taux y == some r) (p' := fun y => g.taux y == some r)
      (fun y hy => by simp [ag.taux y hy])
    simpa using this
  unfold absNode
  rw [ag.node x hx, ag.cod x hx, ag.subject x hx, ag.peng x hx, ag.taux x hx]
  have e1 : (h.peng x).map g.prec = (h.peng x).map h.prec := by
    cases hq : h.peng x with
    | none => rfl
    | some r => simp only [Option.map_some]; rw [ag.prec r ⟨x, hx, hq⟩]
  have e2 : (h.taux x).map g.trec = (h.taux x).map h.trec := by
    cases hq : h.taux x with
    | none => rfl
    | some r => simp only [Option.map_some]; rw [ag.trec r ⟨x, hx, hq⟩]
  have e3 : (h.peng x).map (firstWith g.peng A) = (h.peng x).map (firstWith h.peng A) := by
    cases h.peng x <;> simp [fp]
  have e4 : (h.taux x).map (firstWith g.taux A) = (h.taux x).map (firstWith h.taux A) := by
    cases h.taux x <;> simp [ft]
  rw [e1, e2, e3, e4]

/-- the other side of a frame: stores related by a step on `B` agree on `A` -/
theorem agree_after_other {A B : List Nat} {h h1 t : Heap} (sep : Sep h A B) (f : Frame B h h1) (ag : Agree A h t) :
    Agree A h1 t := by
  have e := regionEq_of_frame sep f
  refine ⟨ag.n.trans f.n.symm, fun x hx => (ag.node x hx).trans (e.node x hx).symm,
    fun x hx => (ag.peng x hx).trans (e.peng x hx).symm, fun x hx => (ag.taux x hx).trans (e.taux x hx).symm,
    fun x hx => (ag.cod x hx).trans (e.cod x hx).symm, fun x hx => (ag.subject x hx).trans (e.subject x hx).symm, ?_, ?_⟩
  · intro r hr
    have hr0 := (recOf_regionEq e r).mp hr
    rw [ag.prec r hr0, e.prec r hr0]
  · intro r hr
    have hr0 := (trecOf_regionEq e r).mp hr
    rw [ag.trec r hr0, e.trec r hr0]

/-- one side of the theorem: the run of the `A`-operations alone, started in a store `t` that agrees with `h` on `A`,
    succeeds and ends in a store that agrees on `A` with the end of the interleaved run -/
theorem alone_agrees (A B : List Nat) : ∀ (ops : List LOp) (h t h' : Heap), Closed h A → Closed h B → Sep h A B →
    Agree A h t → (∀ o ∈ ops, onSide A o ∨ onSide B o) → runLOps h ops = .ok h' →
    ∃ t', runLOps t (ops.filter (fun o => decide (onSide A o))) = .ok t' ∧ Agree A h' t' := by
  intro ops
  induction ops with
  | nil =>
    intro h t h' _ _ _ ag _ hr
    simp only [runLOps, R.ok.injEq] at hr; subst hr
    exact ⟨t, rfl, ag⟩
  | cons o os ih =>
    intro h t h' clA clB sep ag hs hr
    simp only [runLOps] at hr
    cases h1r : runLOp h o with
    | crash c => rw [h1r] at hr; simp at hr
    | outside => rw [h1r] at hr; simp at hr
    | ok h1 =>
      rw [h1r] at hr
      have hrest : ∀ o' ∈ os, onSide A o' ∨ onSide B o' := fun o' ho' => hs o' (List.mem_cons_of_mem _ ho')
      by_cases hA : onSide A o
      · -- a step on `A`: both runs perform it
        obtain ⟨t1, ht1, ag1⟩ := runLOp_agree h t A o h1 clA ag hA h1r
        obtain ⟨f, clA1⟩ := op_frame_holds h A o h1 clA hA h1r
        obtain ⟨sep1, clB1⟩ := sep_after sep.symm clB f
        obtain ⟨t', ht', ag'⟩ := ih h1 t1 h' clA1 clB1 sep1.symm ag1 hrest hr
        refine ⟨t', ?_, ag'⟩
        simp only [List.filter_cons, hA, decide_true, if_true, runLOps, ht1]
        exact ht'
      · -- a step on `B`: the alone run does nothing
        have hB : onSide B o := (hs o List.mem_cons_self).resolve_left hA
        obtain ⟨f, clB1⟩ := op_frame_holds h B o h1 clB hB h1r
        obtain ⟨sep1, clA1⟩ := sep_after sep clA f
        obtain ⟨t', ht', ag'⟩ := ih h1 t h' clA1 clB1 sep1 (agree_after_other sep f ag) hrest hr
        refine ⟨t', ?_, ag'⟩
        simp only [List.filter_cons, hA, decide_false, Bool.false_eq_true, if_false]
        exact ht'

/-- **C13.g** an interleaved history on two separate trees leaves each of them with the abstraction (tree, own props,
    partition by shared record, record contents) it has after its own operations ALONE -/
theorem interleaving_independent_holds : interleaving_independent := by
  intro h A B ops h' clA clB sep hs hr
  constructor
  · obtain ⟨t', ht', ag'⟩ := alone_agrees A B ops h h h' clA clB sep (Agree.refl A h) hs hr
    simp only [absAfter, ht', absRegion_agree ag']
  · obtain ⟨t', ht', ag'⟩ := alone_agrees B A ops h h h' clB clA sep.symm (Agree.refl B h)
      (fun o ho => (hs o ho).symm) hr
    simp only [absAfter, ht', absRegion_agree ag']

/-- corollary: whatever is done to one tree, the other keeps its abstraction -/
theorem other_side_unchanged (A B : List Nat) (ops : List LOp) (h h' : Heap) (clA : Closed h A) (clB : Closed h B)
    (sep : Sep h A B) (hs : ∀ o ∈ ops, onSide B o) (hr : runLOps h ops = .ok h') : RegionEq A h h' := by
  induction ops generalizing h with
  | nil =>
    simp only [runLOps, R.ok.injEq] at hr; subst hr
    exact ⟨fun _ _ => rfl, fun _ _ => rfl, fun _ _ => rfl, fun _ _ => rfl, fun _ _ => rfl, fun _ _ => rfl, fun _ _ => rfl⟩
  | cons o os ih =>
    simp only [runLOps] at hr
    cases h1r : runLOp h o with
    | crash c => rw [h1r] at hr; simp at hr
    | outside => rw [h1r] at hr; simp at hr
    | ok h1 =>
      rw [h1r] at hr
      obtain ⟨f, clB1⟩ := op_frame_holds h B o h1 clB (hs o List.mem_cons_self) h1r
      obtain ⟨sep1, clA1⟩ := sep_after sep clA f
      have e1 := regionEq_of_frame sep f
      have e2 := ih h1 clA1 clB1 sep1 (fun o' ho' => hs o' (List.mem_cons_of_mem _ ho')) hr
      exact ⟨fun x hx => (e2.node x hx).trans (e1.node x hx), fun x hx => (e2.peng x hx).trans (e1.peng x hx),
             fun x hx => (e2.taux x hx).trans (e1.taux x hx), fun x hx => (e2.cod x hx).trans (e1.cod x hx),
             fun x hx => (e2.subject x hx).trans (e1.subject x hx),
             fun r hr' => (e2.prec r ((recOf_regionEq e1 r).mpr hr')).trans (e1.prec r hr'),
             fun r hr' => (e2.trec r ((trecOf_regionEq e1 r).mpr hr')).trans (e1.trec r hr')⟩

/-- a clone and its original are separate trees: the hypothesis of the interleaving theorems holds right after `clone`
    (for a store whose records in use are counter records below `nRec` or records created for existing nodes) -/
theorem clone_sep (h : Heap) (C : List Nat) (cl : Closed h C)
    (wf : ∀ r, RecOf h C r → (r % 2 = 0 ∧ r < ownRec h.nRec) ∨ (r % 2 = 1 ∧ r / 2 < h.n))
    (wt : ∀ r, TRecOf h C r → r < h.nTRec) :
    Sep (cloneRegion h C) C (C.map (cloneMaps h C).ρ) ∧ Closed (cloneRegion h C) C ∧
    Closed (cloneRegion h C) (C.map (cloneMaps h C).ρ) := by
  have iso := clone_iso_holds h C cl
  have dis := clone_disjoint_holds h C cl
  have oldp : ∀ x ∈ C, (cloneRegion h C).peng x = h.peng x := fun x hx => (dis.1 x (cl x hx).1).2.1
  have oldt : ∀ x ∈ C, (cloneRegion h C).taux x = h.taux x := fun x hx => (dis.1 x (cl x hx).1).2.2.1
  have recA : ∀ r, RecOf (cloneRegion h C) C r → RecOf h C r := by
    rintro r ⟨x, hx, hr⟩; exact ⟨x, hx, by rw [← oldp x hx]; exact hr⟩
  have recB : ∀ r, RecOf (cloneRegion h C) (C.map (cloneMaps h C).ρ) r → ownRec h.nRec ≤ r ∧ r % 2 = 0 := by
    rintro r ⟨z, hz, hzr⟩
    obtain ⟨y, hy, rfl⟩ := List.mem_map.mp hz
    exact dis.2.2.2.2.1 y hy r hzr
  refine ⟨⟨?_, ?_, ?_, ?_, ?_⟩, ?_, iso.2.2.2.2.2⟩
  · intro x hx hm
    obtain ⟨y, _, hy⟩ := List.mem_map.mp hm
    have := rho_fresh h C y
    have := (cl x hx).1
    omega
  · intro r hr hB
    have := recB r hB
    rcases wf r (recA r hr) with q | q <;> omega
  · rintro r ⟨x, hx, hr⟩ ⟨z, hz, hzr⟩
    obtain ⟨y, hy, rfl⟩ := List.mem_map.mp hz
    have := dis.2.2.2.2.2 y hy r hzr
    rw [oldt x hx] at hr
    have := wt r ⟨x, hx, hr⟩
    omega
  · intro r hr z hz
    obtain ⟨y, hy, rfl⟩ := List.mem_map.mp hz
    have := rho_fresh h C y
    simp only [freshRec]
    rcases wf r (recA r hr) with q | q <;> omega
  · intro r hr y _
    have := recB r hr
    simp only [freshRec]; omega
  · intro x hx
    obtain ⟨h1, h2⟩ := cl x hx
    have o := dis.1 x h1
    refine ⟨by show x < h.n + C.length; omega, ?_⟩
    rw [nbrs_congr h (cloneRegion h C) x (by rw [o.1]) (by rw [o.1]) (by rw [o.1]) o.2.2.2.1 o.2.2.2.2]
    exact h2

/-! ## non-vacuity -/

def ex_spec (k : Kind) (lem : String) (n : String := "s") : TermSpec :=
  { kind := k, lang := .en, lemma := lem.toList, pe := .i 3, n := .s n.toList, g := .s ['n'], t := .s ['p'] }

/-- `S(NP(D("the"),N("cat")),VP(V("sleep")))` : handles 0..5 -/
def ex_h : Heap :=
  match runOps {} [.mkT (ex_spec .D "the"), .mkT (ex_spec .N "cat"), .mkP .NP .en [.item (.node 0), .item (.node 1)],
                   .mkT (ex_spec .V "sleep"), .mkP .VP .en [.item (.node 3)],
                   .mkP .S .en [.item (.node 2), .item (.node 4)]] with
  | .ok h => h
  | _ => {}

/-- test: the connected tree of the NP is the whole sentence (the closure follows `parentConst`), and it is closed -/
example : closure ex_h 2 = some [0, 1, 2, 3, 4, 5] := by decide +kernel
example : Closed ex_h [0, 1, 2, 3, 4, 5] := (closedB_iff _ _).mp (by decide +kernel)

/-- test: after `clone`, the verb of the copy shares the record of the copy's noun and not the original's -/
example : (cloneRegion ex_h [0, 1, 2, 3, 4, 5]).peng 9 = (cloneRegion ex_h [0, 1, 2, 3, 4, 5]).peng 7 ∧
          (cloneRegion ex_h [0, 1, 2, 3, 4, 5]).peng 9 ≠ (cloneRegion ex_h [0, 1, 2, 3, 4, 5]).peng 3 := by decide +kernel

/-- test: an option on the copy's NP (handle 8) changes the copy's record only -/
example : (match runLOp (cloneRegion ex_h [0, 1, 2, 3, 4, 5]) (.opt 8 (s "n") (.s ['p'])) with
           | .ok h' => (h'.getProp 9 Heap.nKey, h'.getProp 3 Heap.nKey)
           | _ => (.none, .none)) = (.s ['p'], .s ['s']) := by decide +kernel

end Pyrealb.C13
