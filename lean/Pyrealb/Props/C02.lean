import Pyrealb.Model.Decl
import Pyrealb.Lemmas.DeclBestMatch
import Pyrealb.Lemmas.Decl
import Pyrealb.Lemmas.DeclTotal
import Pyrealb.Gen.DeclEn
import Pyrealb.Gen.DeclFr
import Pyrealb.Gen.DocCells
/-! # C02 — declension of nouns, adjectives, adverbs, determiners and pronouns follows the tables

Property theorems only. The model (`Model/BestMatch`, `Model/Decl`) mirrors `Terminal.bestMatch`, `Terminal.decline`
and the language-specific helpers; the declarative side (`score`, `FirstMax`, `Compatible`, `Exact`) is stated in
`Model/BestMatch` without reference to the loops.

* unbounded (`∀ rows kv …`, `∀ rules lex t …`): `bestMatch_spec`, `bestMatch_none_iff`, `first_max_unique`,
  `compatible_row_selected`, `exact_row_first`, `decline_stem_row`, `adj_periphrase_en`, `comparative_stem_en`, `adj_periphrase_fr`,
  `veto_uncountable`, `veto_gender`, `decl_total`;
* finite, by `decide +kernel` over complete generated data, re-proved whenever `/repo` changes (`…_tbl`):
  `doc_cells_tbl` (every documented paradigm cell of docs/documentation.html on the shipped tables),
  `periphrase_tbl`, `wf_rules_tbl`. -/
namespace Pyrealb.C02
open Pyrealb Pyrealb.Decl

/-! ## bestMatch -/

/-- **C02.a** for all row lists and requests: the result is the `val` of the first row with maximal positive score;
    `None` when every row scores 0 -/
def bestMatch_spec : Prop :=
  ∀ (rows : List Row) (kv : KeyVals),
    (∃ r, FirstMax (fun d => score d kv) rows r ∧ bestMatch rows kv = some r.val) ∨
    ((∀ d ∈ rows, score d kv = 0) ∧ bestMatch rows kv = none)

theorem bestMatch_spec_holds : bestMatch_spec := by
  intro rows kv
  unfold bestMatch
  rcases bestLoop_spec kv rows 0 none with ⟨heq, hall⟩ | ⟨pre, r, post, hds, hlt, hpre, hpost, heq⟩
  · right
    refine ⟨fun d hd => Nat.le_zero.mp (hall d hd), ?_⟩
    simp [heq]
  · left
    refine ⟨r, ⟨pre, post, hds, hlt, hpre, hpost⟩, ?_⟩
    have : score r kv ≠ 0 := by omega
    simp [heq, this]

/-- **C02.b** `None` iff no row scores more than 0 -/
def bestMatch_none_iff : Prop :=
  ∀ (rows : List Row) (kv : KeyVals), bestMatch rows kv = none ↔ ∀ d ∈ rows, score d kv = 0

theorem bestMatch_none_iff_holds : bestMatch_none_iff := by
  intro rows kv
  rcases bestMatch_spec_holds rows kv with ⟨r, ⟨pre, post, hds, hpos, _, _⟩, hb⟩ | ⟨hall, hb⟩
  · have hpos' : 0 < score r kv := hpos
    constructor
    · intro h; rw [hb] at h; cases h
    · intro hall
      have := hall r (by rw [hds]; simp)
      omega
  · exact ⟨fun _ => hall, fun _ => hb⟩

/-- **C02.c** "the first row with maximal positive score" designates at most one position of the table -/
def first_max_unique : Prop :=
  ∀ (sc : Row → Nat) (rows pre₁ post₁ pre₂ post₂ : List Row) (r₁ r₂ : Row),
    rows = pre₁ ++ r₁ :: post₁ → (∀ p ∈ pre₁, sc p < sc r₁) → (∀ q ∈ post₁, sc q ≤ sc r₁) →
    rows = pre₂ ++ r₂ :: post₂ → (∀ p ∈ pre₂, sc p < sc r₂) → (∀ q ∈ post₂, sc q ≤ sc r₂) →
    pre₁ = pre₂ ∧ r₁ = r₂ ∧ post₁ = post₂

theorem first_max_unique_holds : first_max_unique := by
  intro sc rows pre₁ post₁ pre₂ post₂ r₁ r₂ h1 a1 b1 h2 a2 b2
  exact firstMax_unique_split sc pre₁ pre₂ post₁ post₂ r₁ r₂ (h1.symm.trans h2) a1 b1 a2 b2

/-- **C02.d** a compatible row exists ⇒ a form is found (`Compatible` does not mention scores) -/
def compatible_row_selected : Prop :=
  ∀ (rows : List Row) (kv : KeyVals), (∃ r ∈ rows, Compatible r kv) → bestMatch rows kv ≠ none

theorem compatible_score_pos (r : Row) (kv : KeyVals) (h : Compatible r kv) : 0 < score r kv := by
  obtain ⟨⟨p, hp, w, hw, hag⟩, hall⟩ := h
  have hnc : ¬ peClash r kv := by
    rintro ⟨q, hq, hq1, hq2, hq3⟩
    cases hg : r.get Feat.pe with
    | none => exact hq2 hg
    | some w' =>
      have := hall q hq w' (by rw [hq1]; exact hg)
      rcases this with h1 | ⟨_, h2⟩
      · apply hq3; rw [hg, h1]
      · exact h2 hq1
  unfold score
  simp only [hnc, if_false]
  have hmem : entryScore r p ∈ kv.map (entryScore r) := List.mem_map.mpr ⟨p, hp, rfl⟩
  have hge := sum_ge_of_mem hmem
  have hpos : 0 < entryScore r p := by
    unfold entryScore
    rw [hw]
    show 0 < (if w = p.2 then 2 else if w = FV.x then 1 else 0)
    rcases hag with h1 | ⟨h2, _⟩
    · simp [h1]
    · by_cases h3 : w = p.2
      · simp [h3]
      · rw [if_neg h3, if_pos h2]; omega
  omega

theorem compatible_row_selected_holds : compatible_row_selected := by
  intro rows kv ⟨r, hr, hc⟩ hnone
  have := (bestMatch_none_iff_holds rows kv).mp hnone r hr
  have := compatible_score_pos r kv hc
  omega

/-- **C02.e** when some row carries every requested feature with exactly the requested value, the selected row is
    such a row (the first one) -/
def exact_row_first : Prop :=
  ∀ (rows : List Row) (kv : KeyVals), kv ≠ [] → (∃ r ∈ rows, Exact r kv) →
    ∃ r, FirstMax (fun d => score d kv) rows r ∧ Exact r kv ∧ bestMatch rows kv = some r.val

theorem exact_score (r : Row) (kv : KeyVals) (h : Exact r kv) : score r kv = 2 * kv.length := by
  have hnc : ¬ peClash r kv := by
    rintro ⟨q, hq, hq1, _, hq3⟩
    apply hq3; rw [← hq1]; exact h q hq
  unfold score
  simp only [hnc, if_false]
  clear hnc
  induction kv with
  | nil => simp
  | cons p rest ih =>
    have hp : r.get p.1 = some p.2 := h p (by simp)
    have := ih (fun q hq => h q (by simp [hq]))
    simp [List.length_cons, entryScore, hp, this]; omega

theorem score_max_exact (r : Row) (kv : KeyVals) (hne : kv ≠ []) (h : score r kv = 2 * kv.length) : Exact r kv := by
  have hlen : 0 < kv.length := List.length_pos_iff.mpr hne
  unfold score at h
  by_cases hc : peClash r kv
  · simp [hc] at h; omega
  · simp only [hc, if_false] at h
    intro p hp
    have h2 := sum_eq_max_all r kv h p hp
    unfold entryScore at h2
    cases hg : r.get p.1 with
    | none => simp [hg] at h2
    | some w =>
      simp only [hg] at h2
      by_cases hw : w = p.2
      · rw [hw]
      · simp only [hw, if_false] at h2
        split at h2 <;> omega

theorem exact_row_first_holds : exact_row_first := by
  intro rows kv hne ⟨r0, hr0, hex⟩
  rcases bestMatch_spec_holds rows kv with ⟨r, hfm, hb⟩ | ⟨hall, _⟩
  · refine ⟨r, hfm, ?_, hb⟩
    obtain ⟨pre, post, hds, _, hpre, hpost⟩ := hfm
    have h0 := exact_score r0 kv hex
    have hle := score_le r kv
    -- r0 is somewhere in rows: its score is ≤ that of r
    have : score r0 kv ≤ score r kv := by
      rw [hds] at hr0
      rcases List.mem_append.mp hr0 with h | h
      · exact Nat.le_of_lt (hpre r0 h)
      · rcases List.mem_cons.mp h with rfl | h
        · exact Nat.le_refl _
        · exact hpost r0 h
    exact score_max_exact r kv hne (by omega)
  · have := hall r0 hr0
    have h0 := exact_score r0 kv hex
    have hlen : 0 < kv.length := List.length_pos_iff.mpr hne
    omega

/-! ### non-vacuity and tests of the bestMatch clauses (examples, not property theorems) -/

section Examples
private def rA : Row := ⟨"a".toList, [(.g, .str "m".toList), (.n, FV.x)]⟩
private def rB : Row := ⟨"b".toList, [(.g, .str "m".toList), (.n, .str "p".toList)]⟩
private def rC : Row := ⟨"c".toList, [(.g, .str "f".toList), (.n, .str "p".toList), (.pe, .int 2)]⟩
private def kv1 : KeyVals := [(.pe, .int 3), (.g, .str "m".toList), (.n, .str "p".toList)]
-- wildcard scores 1, exact 2; rC clashes on the person; the tie-free maximum is rB
example : score rA kv1 = 3 ∧ score rB kv1 = 4 ∧ score rC kv1 = 0 := by decide
example : bestMatch [rA, rB, rC] kv1 = some "b".toList := by decide
-- ties: the FIRST maximal row wins
example : bestMatch [rB, ⟨"b2".toList, rB.feats⟩] kv1 = some "b".toList := by decide
example : bestMatch [rC] kv1 = none := by decide
example : Compatible rA kv1 := by
  refine ⟨⟨(.g, .str "m".toList), by decide, .str "m".toList, by decide, Or.inl rfl⟩, ?_⟩
  decide
example : Exact rB [(.g, .str "m".toList), (.n, .str "p".toList)] := by decide
end Examples

/-! ## declension: output = stem ++ the chosen row's `val` -/

/-- the values of `g` and `n` that `decline` computes for N, D, Pro -/
def reqG (t : Term) : FV := if (t.pos = .D ∨ t.pos = .N) ∧ t.getG = .none then FV.str ['m'] else t.getG
def reqN (t : Term) : FV := if (t.pos = .D ∨ t.pos = .N) ∧ t.getN = .none then FV.str ['s'] else t.getN

/-- **C02.f** for N, D, Pro: whenever `decline` returns, it returns either the bracketed lemma with at least one
    warning, or — one-row table — stem ++ that row's val, or stem ++ val of the FIRST row of MAXIMAL positive score
    for the request derived from the terminal (after a majestic substitution: the new lemma's stem and table) -/
def decline_stem_row : Prop :=
  ∀ (rules : Rules) (lex : Lex) (t : Term) (table : Table) (stem : Str) (setPerson : Bool) (out : Out),
    declineNDP rules lex t table stem setPerson = .ok out →
    (∃ t1 : Term, out.toks = [bracket t1.lemma] ∧ 0 < out.warns) ∨
    (∃ d, table.rows = [d] ∧ out.toks = [stem ++ d.val]) ∨
    (∃ t1 rows kv r st, prepareNDP rules lex t table (reqG t) (reqN t) setPerson = .ok (t1, rows, kv) ∧
        FirstMax (fun d => score d kv) rows r ∧ t1.stem = some st ∧ out.toks = [st ++ r.val])

theorem nounChecks_shape (lex : Lex) (t : Term) (g n : FV) (form : Str) (out : Out)
    (h : nounChecks lex t g n form = .ok out) :
    (out.toks = [bracket t.lemma] ∧ 0 < out.warns) ∨ out.toks = [form] := by
  unfold nounChecks at h
  repeat' split at h
  all_goals first
    | (simp only [Except.ok.injEq, pure, Except.pure] at h; subst h; simp [morphoOut])
    | cases h

theorem decline_stem_row_holds : decline_stem_row := by
  intro rules lex t table stem setPerson out h
  unfold declineNDP at h
  simp only [] at h
  split at h
  · -- one-row table
    rename_i d hd
    split at h
    · rcases nounChecks_shape _ _ _ _ _ _ h with ⟨h1, h2⟩ | h1
      · exact Or.inl ⟨t, h1, h2⟩
      · exact Or.inr (Or.inl ⟨d, hd, h1⟩)
    · simp only [pure, Except.pure, Except.ok.injEq] at h
      subst h
      exact Or.inr (Or.inl ⟨d, hd, rfl⟩)
  · -- general case
    simp only [bind, Except.bind] at h
    split at h
    · cases h
    · rename_i prep hprep
      obtain ⟨t1, rows, kv⟩ := prep
      simp only [] at h
      rcases bestMatch_spec_holds rows kv with ⟨r, hfm, hb⟩ | ⟨_, hb⟩
      · rw [hb] at h
        simp only [] at h
        split at h
        · cases h
        · rename_i st hst
          split at h
          · rcases nounChecks_shape _ _ _ _ _ _ h with ⟨h1, h2⟩ | h1
            · exact Or.inl ⟨t1, h1, h2⟩
            · exact Or.inr (Or.inr ⟨t1, rows, kv, r, st, hprep, hfm, hst, h1⟩)
          · simp only [pure, Except.pure, Except.ok.injEq] at h
            subst h
            exact Or.inr (Or.inr ⟨t1, rows, kv, r, st, hprep, hfm, hst, rfl⟩)
      · rw [hb] at h
        simp only [pure, Except.pure, Except.ok.injEq] at h
        subst h
        exact Or.inl ⟨t1, rfl, by simp⟩

/-! ## comparative and superlative -/

/-- **C02.g** English adjectives of table `a1`: `more` / `most` followed by the lemma -/
def adj_periphrase_en : Prop :=
  ∀ (rules : Rules) (lex : Lex) (t : Term) (table : Table) (stem : Str) (out : Out),
    declineAdjEn rules lex t "a1".toList table stem = .ok out →
    (t.pF = some (.str "co".toList) → out.toks = ["more".toList, t.lemma]) ∧
    (t.pF = some (.str "su".toList) → out.toks = ["most".toList, t.lemma])

theorem adj_periphrase_en_holds : adj_periphrase_en := by
  intro rules lex t table stem out h
  constructor
  · intro hf
    unfold declineAdjEn at h
    simp only [hf, if_true, bind, Except.bind] at h
    split at h
    · cases h
    · rename_i comp hcomp
      simp only [pure, Except.pure, Except.ok.injEq] at h
      subst h
      have := mkTerm_lemma rules lex .en .Adv wMore comp hcomp
      have h2 : normLemma wMore = "more".toList := by decide
      simp only [this, h2]
  · intro hf
    unfold declineAdjEn at h
    have hne : (FV.str "su".toList = FV.str "co".toList) = False := by decide
    simp only [hf, if_true, hne, if_false, bind, Except.bind] at h
    split at h
    · cases h
    · rename_i comp hcomp
      simp only [pure, Except.pure, Except.ok.injEq] at h
      subst h
      have := mkTerm_lemma rules lex .en .Adv wMost comp hcomp
      have h2 : normLemma wMost = "most".toList := by decide
      simp only [this, h2]

/-- **C02.g'** English adverb "without comparative" (table `b1`) that is also an adjective: the comparative is looked
    up in the adjective's table, and the ending found is attached to the ADJECTIVE's stem (the adverb's stem — its
    lemma, `b1` having an empty ending — minus the ending of the adjective's table).
    (Refuted until /repo commit 0efe565: the ending was attached to the adverb's own stem, "earlyier".) -/
def comparative_stem_en : Prop :=
  ∀ (rules : Rules) (lex : Lex) (t : Term) (table : Table) (stem : Str) (out : Out)
    (info : LexEntry) (aentry : PosEntry) (atab : Str) (atable : Table) (f : Str) (e : Str),
    lookup t.lemma lex = some info → lookup "A".toList info = some aentry →
    lookup "tab".toList aentry = some (LV.str atab) → lookup atab rules = some atable →
    t.pF = some (.str f) → bestMatch atable.rows [(Feat.f, .str f)] = some e → stem = t.lemma →
    declineAdjEn rules lex t "b1".toList table stem = .ok out →
    out.toks = [dropRight t.lemma atable.ending.length ++ e]

theorem comparative_stem_en_holds : comparative_stem_en := by
  intro rules lex t table stem out info aentry atab atable f e h1 h2 h3 h4 hf hb hstem hd
  unfold declineAdjEn at hd
  rw [hf] at hd
  dsimp only at hd
  have hne : ("b1".toList = "a1".toList) = False := by decide
  have hrows : adjRowsEn rules lex t "b1".toList table stem =
      .ok (some (atable.rows, if atable.ending.length > 0 then dropRight stem atable.ending.length else stem)) := by
    unfold adjRowsEn
    simp only [if_true]
    rw [h1]; dsimp only; rw [h2]; dsimp only; rw [h3]; dsimp only; rw [h4]
    rfl
  simp only [hne, if_false, bind, Except.bind, hrows, hb, pure, Except.pure, Except.ok.injEq] at hd
  subst hd
  subst hstem
  by_cases hlen : atable.ending.length > 0
  · simp [hlen]
  · have : atable.ending.length = 0 := by omega
    simp [this, dropRight]

/-- **C02.h** French adjectives: when a form exists, `.f("co")` yields the comparative proper — the realization of
    `A("meilleur")` / `A("pire")` in the same gender and number for `bon` / `mauvais`, else the realization of
    `Adv("plus")` followed by that of the adjective itself — and `.f("su")` the realization of `D("le")` in the same
    gender and number followed by the comparative -/
def adj_periphrase_fr : Prop :=
  (∀ (sub : Pos → Str → FV → FV → Except Crash (Str × Nat)) (t : Term) (table : Table) (stem : Str) (out : Out),
    declineAdjFr sub t table stem = .ok out →
    bestMatch table.rows [(Feat.g, t.getG), (Feat.n, t.getN)] ≠ none →
    (t.pF = some (.str "co".toList) → ∃ rs w, frComp sub t.lemma t.getG t.getN = .ok (rs, w) ∧ out.toks = rs) ∧
    (t.pF = some (.str "su".toList) →
      ∃ le w0 rs w, sub .D "le".toList t.getG t.getN = .ok (le, w0) ∧
        frComp sub t.lemma t.getG t.getN = .ok (rs, w) ∧ out.toks = le :: rs)) ∧
  (∀ (sub : Pos → Str → FV → FV → Except Crash (Str × Nat)) (lemma : Str) (g n : FV),
    (∀ r w, lemma = "bon".toList → sub .A "meilleur".toList g n = .ok (r, w) → frComp sub lemma g n = .ok ([r], w)) ∧
    (∀ r w, lemma = "mauvais".toList → sub .A "pire".toList g n = .ok (r, w) → frComp sub lemma g n = .ok ([r], w)) ∧
    (∀ r1 w1 r2 w2, lemma ≠ "bon".toList → lemma ≠ "mauvais".toList →
      sub .Adv "plus".toList g n = .ok (r1, w1) → sub .A lemma g n = .ok (r2, w2) →
      frComp sub lemma g n = .ok ([r1, r2], w1 + w2)))

theorem adj_periphrase_fr_holds : adj_periphrase_fr := by
  constructor
  · intro sub t table stem out h hbm
    unfold declineAdjFr at h
    cases hb : bestMatch table.rows [(Feat.g, t.getG), (Feat.n, t.getN)] with
    | none => exact absurd hb hbm
    | some e =>
      rw [hb] at h
      dsimp only at h
      have hne : (FV.str "su".toList = FV.str "co".toList) = False := by decide
      constructor
      · intro hf
        simp only [hf, if_true, bind, Except.bind] at h
        cases hc : frComp sub t.lemma t.getG t.getN with
        | error c => rw [hc] at h; cases h
        | ok p =>
          obtain ⟨rs, w⟩ := p
          rw [hc] at h
          simp only [pure, Except.pure, Except.ok.injEq] at h
          subst h
          exact ⟨rs, w, rfl, rfl⟩
      · intro hf
        simp only [hf, hne, if_false, if_true, bind, Except.bind] at h
        cases h0 : sub .D wLe t.getG t.getN with
        | error c => rw [h0] at h; cases h
        | ok p0 =>
          obtain ⟨le, w0⟩ := p0
          rw [h0] at h
          dsimp only at h
          cases hc : frComp sub t.lemma t.getG t.getN with
          | error c => rw [hc] at h; cases h
          | ok p =>
            obtain ⟨rs, w⟩ := p
            rw [hc] at h
            simp only [pure, Except.pure, Except.ok.injEq] at h
            subst h
            exact ⟨le, w0, rs, w, h0, rfl, rfl⟩
  · intro sub lemma g n
    refine ⟨?_, ?_, ?_⟩
    · intro r w hl hs
      subst hl
      have : specialFrComp "bon".toList = some "meilleur".toList := by decide
      unfold frComp
      rw [this]
      simp only [bind, Except.bind, hs]; rfl
    · intro r w hl hs
      subst hl
      have : specialFrComp "mauvais".toList = some "pire".toList := by decide
      unfold frComp
      rw [this]
      simp only [bind, Except.bind, hs]; rfl
    · intro r1 w1 r2 w2 h1 h2 hs1 hs2
      have : specialFrComp lemma = none := by
        unfold specialFrComp; rw [if_neg h1, if_neg h2]
      unfold frComp
      rw [this]
      have hs1' : sub .Adv wPlus g n = .ok (r1, w1) := hs1
      simp only [bind, Except.bind, hs1', hs2]; rfl

/-! ## the lexicon's vetoes -/

/-- `lexicon[lemma]["N"][key]` -/
def lexN (lex : Lex) (lemma key : Str) : Option LV :=
  match lexPos lex lemma "N".toList with
  | none => none
  | some e => lookup key e

theorem prepareNDP_noun (rules : Rules) (lex : Lex) (t : Term) (table : Table) (g n : FV) (hN : t.pos = .N) :
    ∃ kv, prepareNDP rules lex t table g n false = .ok (t, table.rows, kv) := by
  unfold prepareNDP
  have h1 : reqPerson t false = .ok 3 := rfl
  have h2 : ∀ pe, majesticStep rules lex t table pe n = .ok (t, table.rows) := by
    intro pe; unfold majesticStep; simp [hN, pure, Except.pure]
  simp only [bind, Except.bind, h1, h2, hN]
  exact ⟨_, rfl⟩

/-- **C02.i** English: the plural of a noun the lexicon marks uncountable (`cnt = "no"`) is the bracketed lemma with
    a warning, whatever the table says -/
def veto_uncountable : Prop :=
  ∀ (rules : Rules) (lex : Lex) (t : Term) (table : Table) (stem : Str) (out : Out),
    t.lang = .en → t.pos = .N → t.getN = .str ['p'] → lexN lex t.lemma "cnt".toList = some (.str "no".toList) →
    declineNDP rules lex t table stem false = .ok out →
    out.toks = [bracket t.lemma] ∧ 0 < out.warns

theorem nounChecks_uncountable (lex : Lex) (t : Term) (g : FV) (form : Str) (out : Out)
    (hen : t.lang = .en) (hc : lexN lex t.lemma "cnt".toList = some (.str "no".toList))
    (h : nounChecks lex t g (.str ['p']) form = .ok out) : out = morphoOut t := by
  unfold lexN lexPos at hc
  unfold nounChecks at h
  rw [hen] at h
  simp only [if_true] at h
  cases h1 : lookup t.lemma lex with
  | none => rw [h1] at hc; cases hc
  | some info =>
    rw [h1] at hc h
    dsimp only at hc h
    cases h2 : lookup "N".toList info with
    | none => rw [h2] at hc; cases hc
    | some e =>
      rw [h2] at hc h
      dsimp only at hc h
      rw [hc] at h
      simp only [if_true, pure, Except.pure, Except.ok.injEq] at h
      exact h.symm

theorem veto_uncountable_holds : veto_uncountable := by
  intro rules lex t table stem out hen hN hn hc h
  have hreqN : (if (t.pos = .D ∨ t.pos = .N) ∧ t.getN = .none then FV.str ['s'] else t.getN) = .str ['p'] := by
    rw [hn]; simp
  unfold declineNDP at h
  dsimp only at h
  rw [hreqN] at h
  split at h
  · rw [if_pos hN] at h
    have := nounChecks_uncountable lex t _ _ out hen hc h
    subst this; simp [morphoOut]
  · obtain ⟨kv, hp⟩ := prepareNDP_noun rules lex t table
      (if (t.pos = .D ∨ t.pos = .N) ∧ t.getG = .none then FV.str ['m'] else t.getG) (.str ['p']) hN
    simp only [bind, Except.bind, hp] at h
    split at h
    · simp only [pure, Except.pure, Except.ok.injEq] at h
      subst h; simp
    · split at h
      · cases h
      · rw [if_pos hN] at h
        have := nounChecks_uncountable lex t _ _ out hen hc h
        subst this; simp [morphoOut]

/-- **C02.j** French: a noun asked in a gender that contradicts the lexicon (which does not say `x`), or whose entry
    has no gender, is the bracketed lemma with a warning -/
def veto_gender : Prop :=
  ∀ (rules : Rules) (lex : Lex) (t : Term) (table : Table) (stem : Str) (out : Out),
    t.lang = .fr → t.pos = .N →
    ((∃ e, lexPos lex t.lemma "N".toList = some e ∧ lookup "g".toList e = none) ∨
     (∃ lg, lexN lex t.lemma "g".toList = some lg ∧ lg.toFV ≠ FV.x ∧ lg.toFV ≠ reqG t)) →
    declineNDP rules lex t table stem false = .ok out →
    out.toks = [bracket t.lemma] ∧ 0 < out.warns

theorem nounChecks_gender (lex : Lex) (t : Term) (g n : FV) (form : Str) (out : Out)
    (hfr : t.lang = .fr)
    (hc : (∃ e, lexPos lex t.lemma "N".toList = some e ∧ lookup "g".toList e = none) ∨
          (∃ lg, lexN lex t.lemma "g".toList = some lg ∧ lg.toFV ≠ FV.x ∧ lg.toFV ≠ g))
    (h : nounChecks lex t g n form = .ok out) : out = morphoOut t := by
  unfold nounChecks at h
  rw [hfr] at h
  dsimp only at h
  unfold lexN lexPos at hc
  cases h1 : lookup t.lemma lex with
  | none => rw [h1] at h; cases h
  | some info =>
    rw [h1] at hc h
    dsimp only at hc h
    cases h2 : lookup "N".toList info with
    | none => rw [h2] at h; cases h
    | some e =>
      rw [h2] at hc h
      dsimp only at hc h
      rcases hc with ⟨e', he', hg⟩ | ⟨lg, hlg, hx, hgne⟩
      · cases he'
        rw [hg] at h
        simp only [pure, Except.pure, Except.ok.injEq] at h
        exact h.symm
      · rw [hlg] at h
        simp only [hx, hgne, ne_eq, not_false_eq_true, and_self, if_true, pure, Except.pure, Except.ok.injEq] at h
        exact h.symm

theorem veto_gender_holds : veto_gender := by
  intro rules lex t table stem out hfr hN hc h
  unfold reqG at hc
  unfold declineNDP at h
  dsimp only at h
  split at h
  · rw [if_pos hN] at h
    have := nounChecks_gender lex t _ _ _ out hfr hc h
    subst this; simp [morphoOut]
  · obtain ⟨kv, hp⟩ := prepareNDP_noun rules lex t table
      (if (t.pos = .D ∨ t.pos = .N) ∧ t.getG = .none then FV.str ['m'] else t.getG)
      (if (t.pos = .D ∨ t.pos = .N) ∧ t.getN = .none then FV.str ['s'] else t.getN) hN
    simp only [bind, Except.bind, hp] at h
    split at h
    · simp only [pure, Except.pure, Except.ok.injEq] at h
      subst h; simp
    · split at h
      · cases h
      · rw [if_pos hN] at h
        have := nounChecks_gender lex t _ _ _ out hfr hc h
        subst this; simp [morphoOut]

/-! ## the documented paradigms, cell by cell, on the shipped tables -/

def rulesOf : Lang → Rules
  | .en => Gen.DeclEn.tables
  | .fr => Gen.DeclFr.tables

def lexOf : Lang → Lex
  | .en => Gen.DocCells.lexEn
  | .fr => Gen.DocCells.lexFr

/-- **C02.k** every cell of the pronoun / possessive tables of docs/documentation.html: realizing the documented
    expression on the shipped rule tables yields the documented form -/
def doc_cells_tbl : Prop :=
  ∀ c ∈ Gen.DocCells.docCells,
    realizeText (rulesOf c.spec.lang) (lexOf c.spec.lang) c.spec = .ok c.form

set_option maxRecDepth 100000 in
theorem doc_cells_tbl_holds : doc_cells_tbl := by
  unfold doc_cells_tbl
  decide +kernel

/-- form of `pos(lemma)` with the given options on the shipped tables, with the generated panel of lexicon entries -/
def shipped (lang : Lang) (pos : Pos) (lemma : String) (opts : List (String × String)) : Except Crash Str :=
  realizeText (rulesOf lang) (lexOf lang) ⟨lang, pos, lemma.toList, opts.map (fun o => (o.1.toList, OV.str o.2.toList))⟩

/-- **C02.l** the documented periphrases and vetoes on the shipped tables and lexicon entries -/
def periphrase_tbl : Prop :=
  shipped .en .A "beautiful" [("f", "co")] = .ok "more beautiful".toList ∧
  shipped .en .A "beautiful" [("f", "su")] = .ok "most beautiful".toList ∧
  shipped .en .A "good" [("f", "co")] = .ok "better".toList ∧
  shipped .en .A "bad" [("f", "su")] = .ok "worst".toList ∧
  shipped .en .A "big" [("f", "co")] = .ok "bigger".toList ∧
  shipped .en .Adv "well" [("f", "su")] = .ok "best".toList ∧
  shipped .en .Adv "fast" [("f", "co")] = .ok "faster".toList ∧
  shipped .en .Adv "early" [("f", "co")] = .ok "earlier".toList ∧
  shipped .en .Adv "early" [("f", "su")] = .ok "earliest".toList ∧
  shipped .en .N "information" [("n", "p")] = .ok "[[information]]".toList ∧
  shipped .en .N "ox" [("n", "p")] = .ok "oxen".toList ∧
  shipped .fr .A "grand" [("f", "co")] = .ok "plus grand".toList ∧
  shipped .fr .A "grand" [("f", "su"), ("g", "f"), ("n", "p")] = .ok "les plus grandes".toList ∧
  shipped .fr .A "bon" [("f", "co"), ("g", "f")] = .ok "meilleure".toList ∧
  shipped .fr .A "bon" [("f", "su"), ("g", "f")] = .ok "la meilleure".toList ∧
  shipped .fr .A "mauvais" [("f", "co")] = .ok "pire".toList ∧
  shipped .fr .A "mauvais" [("f", "su"), ("n", "p")] = .ok "les pires".toList ∧
  shipped .fr .N "table" [("g", "m")] = .ok "[[table]]".toList ∧
  shipped .fr .N "cheval" [("n", "p")] = .ok "chevaux".toList ∧
  shipped .fr .N "élève" [("g", "f"), ("n", "p")] = .ok "élèves".toList

set_option maxRecDepth 100000 in
theorem periphrase_tbl_holds : periphrase_tbl := by
  unfold periphrase_tbl
  decide +kernel

/-! ## totality -/

/-- **C02.m** the shipped declension tables are well formed (non-empty; `pe` in every row when in the first) -/
def wf_rules_tbl : Prop := WFRules Gen.DeclEn.tables ∧ WFRules Gen.DeclFr.tables

set_option maxRecDepth 100000 in
theorem wf_rules_tbl_holds : wf_rules_tbl := by
  unfold wf_rules_tbl
  decide +kernel

/-- **C02.n** on well-formed tables the constructor of a declinable terminal never raises, whatever the lemma and
    the lexicon -/
def ctor_total : Prop :=
  ∀ (rules : Rules) (lex : Lex) (lang : Lang) (pos : Pos) (lemma : Str), WFRules rules →
    ∀ c, mkTerm rules lex lang pos lemma ≠ .error c

theorem ctor_total_holds : ctor_total := by
  intro rules lex lang pos lemma hw c h
  obtain ⟨t, ht, _⟩ := mkTerm_spec rules hw lex lang pos lemma
  rw [ht] at h; cases h

/-- **C02.o'** the executable check swept by the driver over every real lexicon entry implies `Usable` -/
def usable_sound : Prop :=
  ∀ (rules : Rules) (lex : Lex) (t : Term), usableB rules lex t = true → Usable rules lex t

theorem usable_sound_holds : usable_sound := usable_of_usableB

/-- **C02.o** realization never raises: well-formed tables; a usable lexicon entry (`Usable`, evaluated on every real
    entry by the driver); option calls in the value domain of the model (no `.maje()`); and — French comparative — the
    auxiliary terminals `A(meilleur|pire|lemma)`, `Adv("plus")`, `D("le")` themselves realizable -/
def decl_total : Prop :=
  ∀ (rules : Rules) (lex : Lex) (sp : Spec) (t0 : Term),
    WFRules rules → mkTerm rules lex sp.lang sp.pos sp.lemma = .ok t0 → Usable rules lex t0 → ValidOpts sp.opts →
    (sp.lang = .fr → ∀ p l g n c, subFr rules lex p l g n ≠ .error c) →
    ∀ c, realize rules lex sp ≠ .error c

theorem decl_total_holds : decl_total := by
  intro rules lex sp t0 hw hmk hus hvo hsub c h
  obtain ⟨t0', hmk', hinv, hlang, hpos, hmaje, hlink⟩ := mkTerm_spec rules hw lex sp.lang sp.pos sp.lemma
  rw [hmk] at hmk'
  cases hmk'
  obtain ⟨t1, hopts, hk, hpe⟩ := applyOpts_spec sp.opts t0 hvo hus.2.1
  have hinv1 : TabInv rules t1 := tabInv_of_eq hinv hk.tab hk.stem
  have hus1 : Usable rules lex t1 := by
    refine ⟨?_, hpe, ?_, ?_⟩
    · rw [hk.tab, hk.pos, hk.real]; exact hus.1
    · rw [hk.lang, hk.pos, hk.lemma]; exact hus.2.2.1
    · rw [hk.lang, hk.pos, hk.lemma]; exact hus.2.2.2
  have hlink1 : ∀ tb, t1.tab = some tb → ∃ e, lexPos lex t1.lemma t1.pos.name = some e := by
    rw [hk.tab, hk.lemma, hk.pos]; exact hlink
  obtain ⟨o, ho⟩ := realGen_total (subFr rules lex) rules hw lex t1 hinv1 hus1 (hk.maje.trans hmaje) hlink1
    (by rw [hk.lang, hlang]; exact hsub)
  unfold realize at h
  simp only [bind, Except.bind, hmk, hopts] at h
  unfold realTerm at h
  rw [ho] at h
  cases h

/-! ### non-vacuity of the hypotheses of the declension clauses (examples) -/

section Examples2
-- a well-formed, usable request exists: the shipped tables, `Pro("moi")`, valid options
example : WFRules (rulesOf .fr) := wf_rules_tbl_holds.2
example : (match mkTerm (rulesOf .fr) (lexOf .fr) .fr .Pro "moi".toList with
           | .ok t0 => usableB (rulesOf .fr) (lexOf .fr) t0
           | .error _ => false) = true := by
  decide +kernel
example : ValidOpts [("c".toList, OV.str "nom".toList), ("pe".toList, OV.int 2)] := by
  intro o ho
  simp only [List.mem_cons, List.not_mem_nil, or_false] at ho
  rcases ho with rfl | rfl <;> exact ⟨by decide, by intro b h; cases h⟩
-- the vetoes' hypotheses are satisfiable on the shipped data
example : lexN (lexOf .en) "information".toList "cnt".toList = some (.str "no".toList) := by decide +kernel
example : lexN (lexOf .fr) "table".toList "g".toList = some (.str "f".toList) := by decide +kernel
-- tests (not property theorems): the moi/me special case and a wildcard row
example : shipped .fr .Pro "moi" [("c", "nom")] = .ok "je".toList := by decide +kernel
example : shipped .en .Pro "me" [("tn", "refl")] = .ok "itself".toList := by decide +kernel
end Examples2

end Pyrealb.C02
