import Pyrealb.Model.Decl
import Pyrealb.Lemmas.DeclBestMatch
import Pyrealb.Lemmas.Decl
import Pyrealb.Gen.DeclEn
import Pyrealb.Gen.DeclFr
import Pyrealb.Gen.DocCells
/-! # C02 — declension of nouns, adjectives, adverbs, determiners and pronouns follows the tables

Property theorems only. The model (`Model/BestMatch`, `Model/Decl`) mirrors `Terminal.bestMatch`, `Terminal.decline`
and the language-specific helpers; the declarative side (`score`, `FirstMax`, `Compatible`, `Exact`) is stated in
`Model/BestMatch` without reference to the loops.

* unbounded (`∀ rows kv …`, `∀ rules lex t …`): `bestMatch_spec`, `bestMatch_none_iff`, `first_max_unique`,
  `compatible_row_selected`, `exact_row_first`, `decline_stem_row`, `adj_periphrase_en`, `adj_periphrase_fr`,
  `veto_uncountable`, `veto_gender`, `decl_total`;
* finite, by `decide +kernel` over complete generated data, re-proved whenever `/repo` changes (`…_tbl`):
  `doc_cells_tbl` (every documented paradigm cell of docs/documentation.html on the shipped tables),
  `periphrase_tbl`, `wf_rules_tbl`. -/
namespace Pyrealb.C02
open Pyrealb Pyrealb.Decl

/-! ## bestMatch -/

/-- **C02.a** for all row lists and requests: the result is the `val` of the first row with maximal positive score;
    `None` when every row scores 0 -/
def bestMatch_spec : Prop :=
  ∀ (rows : List Row) (kv : KeyVals),
    (∃ r, FirstMax (fun d => score d kv) rows r ∧ bestMatch rows kv = some r.val) ∨
    ((∀ d ∈ rows, score d kv = 0) ∧ bestMatch rows kv = none)

theorem bestMatch_spec_holds : bestMatch_spec := by
  intro rows kv
  unfold bestMatch
  rcases bestLoop_spec kv rows 0 none with ⟨heq, hall⟩ | ⟨pre, r, post, hds, hlt, hpre, hpost, heq⟩
  · right
    refine ⟨fun d hd => Nat.le_zero.mp (hall d hd), ?_⟩
    simp [heq]
  · left
    refine ⟨r, ⟨pre, post, hds, hlt, hpre, hpost⟩, ?_⟩
    have : score r kv ≠ 0 := by omega
    simp [heq, this]

/-- **C02.b** `None` iff no row scores more than 0 -/
def bestMatch_none_iff : Prop :=
  ∀ (rows : List Row) (kv : KeyVals), bestMatch rows kv = none ↔ ∀ d ∈ rows, score d kv = 0

theorem bestMatch_none_iff_holds : bestMatch_none_iff := by
  intro rows kv
  rcases bestMatch_spec_holds rows kv with ⟨r, ⟨pre, post, hds, hpos, _, _⟩, hb⟩ | ⟨hall, hb⟩
  · have hpos' : 0 < score r kv := hpos
    constructor
    · intro h; rw [hb] at h; cases h
    · intro hall
      have := hall r (by rw [hds]; simp)
      omega
  · exact ⟨fun _ => hall, fun _ => hb⟩

/-- **C02.c** "the first row with maximal positive score" designates at most one position of the table -/
def first_max_unique : Prop :=
  ∀ (sc : Row → Nat) (rows pre₁ post₁ pre₂ post₂ : List Row) (r₁ r₂ : Row),
    rows = pre₁ ++ r₁ :: post₁ → (∀ p ∈ pre₁, sc p < sc r₁) → (∀ q ∈ post₁, sc q ≤ sc r₁) →
    rows = pre₂ ++ r₂ :: post₂ → (∀ p ∈ pre₂, sc p < sc r₂) → (∀ q ∈ post₂, sc q ≤ sc r₂) →
    pre₁ = pre₂ ∧ r₁ = r₂ ∧ post₁ = post₂

theorem first_max_unique_holds : first_max_unique := by
  intro sc rows pre₁ post₁ pre₂ post₂ r₁ r₂ h1 a1 b1 h2 a2 b2
  exact firstMax_unique_split sc pre₁ pre₂ post₁ post₂ r₁ r₂ (h1.symm.trans h2) a1 b1 a2 b2

/-- **C02.d** a compatible row exists ⇒ a form is found (`Compatible` does not mention scores) -/
def compatible_row_selected : Prop :=
  ∀ (rows : List Row) (kv : KeyVals), (∃ r ∈ rows, Compatible r kv) → bestMatch rows kv ≠ none

theorem compatible_score_pos (r : Row) (kv : KeyVals) (h : Compatible r kv) : 0 < score r kv := by
  obtain ⟨⟨p, hp, w, hw, hag⟩, hall⟩ := h
  have hnc : ¬ peClash r kv := by
    rintro ⟨q, hq, hq1, hq2, hq3⟩
    cases hg : r.get Feat.pe with
    | none => exact hq2 hg
    | some w' =>
      have := hall q hq w' (by rw [hq1]; exact hg)
      rcases this with h1 | ⟨_, h2⟩
      · apply hq3; rw [hg, h1]
      · exact h2 hq1
  unfold score
  simp only [hnc, if_false]
  have hmem : entryScore r p ∈ kv.map (entryScore r) := List.mem_map.mpr ⟨p, hp, rfl⟩
  have hge := sum_ge_of_mem hmem
  have hpos : 0 < entryScore r p := by
    unfold entryScore
    rw [hw]
    show 0 < (if w = p.2 then 2 else if w = FV.x then 1 else 0)
    rcases hag with h1 | ⟨h2, _⟩
    · simp [h1]
    · by_cases h3 : w = p.2
      · simp [h3]
      · rw [if_neg h3, if_pos h2]; omega
  omega

theorem compatible_row_selected_holds : compatible_row_selected := by
  intro rows kv ⟨r, hr, hc⟩ hnone
  have := (bestMatch_none_iff_holds rows kv).mp hnone r hr
  have := compatible_score_pos r kv hc
  omega

/-- **C02.e** when some row carries every requested feature with exactly the requested value, the selected row is
    such a row (the first one) -/
def exact_row_first : Prop :=
  ∀ (rows : List Row) (kv : KeyVals), kv ≠ [] → (∃ r ∈ rows, Exact r kv) →
    ∃ r, FirstMax (fun d => score d kv) rows r ∧ Exact r kv ∧ bestMatch rows kv = some r.val

theorem exact_score (r : Row) (kv : KeyVals) (h : Exact r kv) : score r kv = 2 * kv.length := by
  have hnc : ¬ peClash r kv := by
    rintro ⟨q, hq, hq1, _, hq3⟩
    apply hq3; rw [← hq1]; exact h q hq
  unfold score
  simp only [hnc, if_false]
  clear hnc
  induction kv with
  | nil => simp
  | cons p rest ih =>
    have hp : r.get p.1 = some p.2 := h p (by simp)
    have := ih (fun q hq => h q (by simp [hq]))
    simp [List.length_cons, entryScore, hp, this]; omega

theorem score_max_exact (r : Row) (kv : KeyVals) (hne : kv ≠ []) (h : score r kv = 2 * kv.length) : Exact r kv := by
  have hlen : 0 < kv.length := List.length_pos_iff.mpr hne
  unfold score at h
  by_cases hc : peClash r kv
  · simp [hc] at h; omega
  · simp only [hc, if_false] at h
    intro p hp
    have h2 := sum_eq_max_all r kv h p hp
    unfold entryScore at h2
    cases hg : r.get p.1 with
    | none => simp [hg] at h2
    | some w =>
      simp only [hg] at h2
      by_cases hw : w = p.2
      · rw [hw]
      · simp only [hw, if_false] at h2
        split at h2 <;> omega

theorem exact_row_first_holds : exact_row_first := by
  intro rows kv hne ⟨r0, hr0, hex⟩
  rcases bestMatch_spec_holds rows kv with ⟨r, hfm, hb⟩ | ⟨hall, _⟩
  · refine ⟨r, hfm, ?_, hb⟩
    obtain ⟨pre, post, hds, _, hpre, hpost⟩ := hfm
    have h0 := exact_score r0 kv hex
    have hle := score_le r kv
    -- r0 is somewhere in rows: its score is ≤ that of r
    have : score r0 kv ≤ score r kv := by
      rw [hds] at hr0
      rcases List.mem_append.mp hr0 with h | h
      · exact Nat.le_of_lt (hpre r0 h)
      · rcases List.mem_cons.mp h with rfl | h
        · exact Nat.le_refl _
        · exact hpost r0 h
    exact score_max_exact r kv hne (by omega)
  · have := hall r0 hr0
    have h0 := exact_score r0 kv hex
    have hlen : 0 < kv.length := List.length_pos_iff.mpr hne
    omega

/-! ### non-vacuity and tests of the bestMatch clauses (examples, not property theorems) -/

section Examples
private def rA : Row := ⟨"a".toList, [(.g, .str "m".toList), (.n, FV.x)]⟩
private def rB : Row := ⟨"b".toList, [(.g, .str "m".toList), (.n, .str "p".toList)]⟩
private def rC : Row := ⟨"c".toList, [(.g, .str "f".toList), (.n, .str "p".toList), (.pe, .int 2)]⟩
private def kv1 : KeyVals := [(.pe, .int 3), (.g, .str "m".toList), (.n, .str "p".toList)]
-- wildcard scores 1, exact 2; rC clashes on the person; the tie-free maximum is rB
example : score rA kv1 = 3 ∧ score rB kv1 = 4 ∧ score rC kv1 = 0 := by decide
example : bestMatch [rA, rB, rC] kv1 = some "b".toList := by decide
-- ties: the FIRST maximal row wins
example : bestMatch [rB, ⟨"b2".toList, rB.feats⟩] kv1 = some "b".toList := by decide
example : bestMatch [rC] kv1 = none := by decide
example : Compatible rA kv1 := by
  refine ⟨⟨(.g, .str "m".toList), by decide, .str "m".toList, by decide, Or.inl rfl⟩, ?_⟩
  decide
example : Exact rB [(.g, .str "m".toList), (.n, .str "p".toList)] := by decide
end Examples

/-! ## declension: output = stem ++ the chosen row's `val` -/

/-- the values of `g` and `n` that `decline` computes for N, D, Pro -/
def reqG (t : Term) : FV := if (t.pos = .D ∨ t.pos = .N) ∧ t.getG = .none then FV.str ['m'] else t.getG
def reqN (t : Term) : FV := if (t.pos = .D ∨ t.pos = .N) ∧ t.getN = .none then FV.str ['s'] else t.getN

/-- **C02.f** for N, D, Pro: whenever `decline` returns, it returns either the bracketed lemma with at least one
    warning, or — one-row table — stem ++ that row's val, or stem ++ val of the FIRST row of MAXIMAL positive score
    for the request derived from the terminal (after a majestic substitution: the new lemma's stem and table) -/
def decline_stem_row : Prop :=
  ∀ (rules : Rules) (lex : Lex) (t : Term) (table : Table) (stem : Str) (setPerson : Bool) (out : Out),
    declineNDP rules lex t table stem setPerson = .ok out →
    (∃ t1 : Term, out.toks = [bracket t1.lemma] ∧ 0 < out.warns) ∨
    (∃ d, table.rows = [d] ∧ out.toks = [stem ++ d.val]) ∨
    (∃ t1 rows kv r st, prepareNDP rules lex t table (reqG t) (reqN t) setPerson = .ok (t1, rows, kv) ∧
        FirstMax (fun d => score d kv) rows r ∧ t1.stem = some st ∧ out.toks = [st ++ r.val])

theorem nounChecks_shape (lex : Lex) (t : Term) (g n : FV) (form : Str) (out : Out)
    (h : nounChecks lex t g n form = .ok out) :
    (out.toks = [bracket t.lemma] ∧ 0 < out.warns) ∨ out.toks = [form] := by
  unfold nounChecks at h
  repeat' split at h
  all_goals first
    | (simp only [Except.ok.injEq, pure, Except.pure] at h; subst h; simp [morphoOut])
    | cases h

theorem decline_stem_row_holds : decline_stem_row := by
  intro rules lex t table stem setPerson out h
  unfold declineNDP at h
  simp only [] at h
  split at h
  · -- one-row table
    rename_i d hd
    split at h
    · rcases nounChecks_shape _ _ _ _ _ _ h with ⟨h1, h2⟩ | h1
      · exact Or.inl ⟨t, h1, h2⟩
      · exact Or.inr (Or.inl ⟨d, hd, h1⟩)
    · simp only [pure, Except.pure, Except.ok.injEq] at h
      subst h
      exact Or.inr (Or.inl ⟨d, hd, rfl⟩)
  · -- general case
    simp only [bind, Except.bind] at h
    split at h
    · cases h
    · rename_i prep hprep
      obtain ⟨t1, rows, kv⟩ := prep
      simp only [] at h
      rcases bestMatch_spec_holds rows kv with ⟨r, hfm, hb⟩ | ⟨_, hb⟩
      · rw [hb] at h
        simp only [] at h
        split at h
        · cases h
        · rename_i st hst
          split at h
          · rcases nounChecks_shape _ _ _ _ _ _ h with ⟨h1, h2⟩ | h1
            · exact Or.inl ⟨t1, h1, h2⟩
            · exact Or.inr (Or.inr ⟨t1, rows, kv, r, st, hprep, hfm, hst, h1⟩)
          · simp only [pure, Except.pure, Except.ok.injEq] at h
            subst h
            exact Or.inr (Or.inr ⟨t1, rows, kv, r, st, hprep, hfm, hst, rfl⟩)
      · rw [hb] at h
        simp only [pure, Except.pure, Except.ok.injEq] at h
        subst h
        exact Or.inl ⟨t1, rfl, by simp⟩

/-! ## comparative and superlative -/

/-- **C02.g** English adjectives of table `a1`: `more` / `most` followed by the lemma -/
def adj_periphrase_en : Prop :=
  ∀ (rules : Rules) (lex : Lex) (t : Term) (table : Table) (stem : Str) (out : Out),
    declineAdjEn rules lex t "a1".toList table stem = .ok out →
    (t.pF = some (.str "co".toList) → out.toks = ["more".toList, t.lemma]) ∧
    (t.pF = some (.str "su".toList) → out.toks = ["most".toList, t.lemma])

theorem adj_periphrase_en_holds : adj_periphrase_en := by
  intro rules lex t table stem out h
  constructor
  · intro hf
    unfold declineAdjEn at h
    simp only [hf, if_true, bind, Except.bind] at h
    split at h
    · cases h
    · rename_i comp hcomp
      simp only [pure, Except.pure, Except.ok.injEq] at h
      subst h
      have := mkTerm_lemma rules lex .en .Adv wMore comp hcomp
      have h2 : normLemma wMore = "more".toList := by decide
      simp only [this, h2]
  · intro hf
    unfold declineAdjEn at h
    have hne : (FV.str "su".toList = FV.str "co".toList) = False := by decide
    simp only [hf, if_true, hne, if_false, bind, Except.bind] at h
    split at h
    · cases h
    · rename_i comp hcomp
      simp only [pure, Except.pure, Except.ok.injEq] at h
      subst h
      have := mkTerm_lemma rules lex .en .Adv wMost comp hcomp
      have h2 : normLemma wMost = "most".toList := by decide
      simp only [this, h2]

/-- the periphrase of the French comparative: `meilleur`/`pire` inflected for `bon`/`mauvais`, else `plus` + the
    adjective inflected -/
def frCompTokens (sub : Pos → Str → FV → FV → Except Crash (Str × Nat)) (t : Term) : Except Crash (List Str) :=
  match specialFrComp t.lemma with
  | some sp => do
    let (r, _) ← sub .A sp t.getG t.getN
    pure [r]
  | none => do
    let (r1, _) ← sub .Adv wPlus t.getG t.getN
    let (r2, _) ← sub .A t.lemma t.getG t.getN
    pure [r1, r2]

/-- **C02.h** French adjectives: when a form exists, `.f("co")` yields the comparative periphrase and `.f("su")` the
    realization of `D("le")` in the same gender and number followed by it; every component is the realization of the
    corresponding auxiliary terminal -/
def adj_periphrase_fr : Prop :=
  ∀ (sub : Pos → Str → FV → FV → Except Crash (Str × Nat)) (t : Term) (table : Table) (stem : Str) (out : Out),
    declineAdjFr sub t table stem = .ok out →
    bestMatch table.rows [(Feat.g, t.getG), (Feat.n, t.getN)] ≠ none →
    (t.pF = some (.str "co".toList) → frCompTokens sub t = .ok out.toks) ∧
    (t.pF = some (.str "su".toList) →
      ∃ le w rest, sub .D wLe t.getG t.getN = .ok (le, w) ∧ frCompTokens sub t = .ok rest ∧
        out.toks = le :: rest)

theorem adj_periphrase_fr_holds : adj_periphrase_fr := by
  intro sub t table stem out h hbm
  unfold declineAdjFr at h
  unfold frCompTokens
  dsimp only at h
  generalize hD : sub .D wLe t.getG t.getN = sD at h ⊢
  generalize hAdv : sub .Adv wPlus t.getG t.getN = sAdv at h ⊢
  generalize hA : sub .A t.lemma t.getG t.getN = sA at h ⊢
  cases hb : bestMatch table.rows [(Feat.g, t.getG), (Feat.n, t.getN)] with
  | none => exact absurd hb hbm
  | some e =>
    rw [hb] at h
    simp only [] at h
    have hne : (FV.str "su".toList = FV.str "co".toList) = False := by decide
    constructor
    · intro hf
      simp only [hf, if_true] at h
      cases hs : specialFrComp t.lemma with
      | some sp =>
        simp only [hs, bind, Except.bind] at h ⊢
        cases h1 : sub .A sp t.getG t.getN with
        | error c => simp [h1] at h
        | ok p =>
          obtain ⟨r, w⟩ := p
          simp only [h1, pure, Except.pure, Except.ok.injEq] at h ⊢
          subst h; rfl
      | none =>
        simp only [hs, bind, Except.bind] at h ⊢
        cases sAdv with
        | error c => simp at h
        | ok p1 =>
          obtain ⟨r1, w1⟩ := p1
          simp only [] at h ⊢
          cases sA with
          | error c => simp at h
          | ok p2 =>
            obtain ⟨r2, w2⟩ := p2
            simp only [pure, Except.pure, Except.ok.injEq] at h ⊢
            subst h; rfl
    · intro hf
      simp only [hf, hne, if_false, if_true, bind, Except.bind] at h
      cases sD with
      | error c => simp at h
      | ok p0 =>
        obtain ⟨le, w0⟩ := p0
        simp only [] at h
        cases hs : specialFrComp t.lemma with
        | some sp =>
          simp only [hs, bind, Except.bind] at h ⊢
          cases h1 : sub .A sp t.getG t.getN with
          | error c => simp [h1] at h
          | ok p =>
            obtain ⟨r, w⟩ := p
            simp only [h1, pure, Except.pure, Except.ok.injEq] at h ⊢
            subst h
            exact ⟨le, w0, [r], rfl, rfl, rfl⟩
        | none =>
          simp only [hs, bind, Except.bind] at h ⊢
          cases sAdv with
          | error c => simp at h
          | ok p1 =>
            obtain ⟨r1, w1⟩ := p1
            simp only [] at h ⊢
            cases sA with
            | error c => simp at h
            | ok p2 =>
              obtain ⟨r2, w2⟩ := p2
              simp only [pure, Except.pure, Except.ok.injEq] at h ⊢
              subst h
              exact ⟨le, w0, [r1, r2], rfl, rfl, rfl⟩

end Pyrealb.C02
