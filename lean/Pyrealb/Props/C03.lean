import Pyrealb.Lemmas.AgreeS
import Pyrealb.Lemmas.AgreeDep
/-! # C03 — agreement: dependents take the forms the controller's features dictate

Property theorems only.  Model: the store of `Model/Heap*` (shared person-number-gender records with identity),
`plan`/`exec` = one `linkProperties` run, mirrored branch for branch from Phrase.py / PhraseEn.py / PhraseFr.py /
Dependent.py.  Specification: `Model/AgreeSpec` — WHICH nodes must share WHOSE record, as functions of the tree only.

Every theorem quantifies over ALL stores `h` (hence over all child lists, of any length, and all contents of the
records) — nothing is bounded.  `plan h p = some acts` restricts to the modelled fragment (`none` = a Dependent inside a Phrase, and
`setPengRecursive`). -/
namespace Pyrealb.C03
open Pyrealb Pyrealb.Heap Pyrealb.Agree Pyrealb.GetElems

/-! ## (i) link structure -/

/-- **np_link.**  After `linkProperties` of a noun phrase whose head (the first N/NP child, skipping a possessive N:
    `npHeadIndex`) holds the record `r`: the phrase, the head and every node of the declarative agreement class
    `npDeps` (determiners, adjectives, French participles, adjective coordinations and phrases, the verb of a subject
    relative clause and its French attributes, `lequel/auquel/duquel`) hold `r`; every other slot is unchanged or holds
    `r` (nothing is linked to anything else). -/
def np_link : Prop :=
  ∀ (h h' : Heap) (p : Nat) (acts : List Act) (hd r : Nat),
    h.kind p = .NP → plan h p = some acts → exec h acts = .ok h' →
    (h.kids p)[npHeadIndex h p]? = some hd → h.peng hd = some r →
    h'.peng p = some r ∧ h'.peng hd = some r ∧ (∀ d ∈ npDeps h p, h'.peng d = some r) ∧
    (∀ x, x ≠ p → h'.peng x = h.peng x ∨ h'.peng x = some r)

theorem plan_NP (h : Heap) (p : Nat) (acts : List Act) (hk : h.kind p = .NP) (hp : plan h p = some acts)
    (hne : (h.kids p) ≠ []) : planNP h p = some acts := by
  unfold plan at hp
  simp only [hk, Kind.isPhrase, if_true] at hp
  unfold planPhrase at hp
  have : (h.kids p).isEmpty = false := by
    cases hkk : h.kids p with
    | nil => exact absurd hkk hne
    | cons a b => rfl
  simp only [this, Bool.false_eq_true, if_false] at hp
  split at hp
  · cases hp
  · simpa [hk] using hp

theorem np_link_holds : np_link := by
  intro h h' p acts hd r hk hp hex hhd hr
  have hne : h.kids p ≠ [] := by
    intro he; rw [he] at hhd; simp at hhd
  obtain ⟨a, b, c, d, _⟩ := planNP_link h p acts h' hd r (plan_NP h p acts hk hp hne) hex hhd hr
  exact ⟨a, b, c, d⟩

/-- the head of a noun phrase without possessive noun is its FIRST N/NP child (sanity of `npHeadIndex`) -/
theorem np_head_first (h : Heap) (p i : Nat) (hi : h.getIndex p [.NP, .N] = some i)
    (hnp : ∀ e, (h.kids p)[i]? = some e → ¬ (h.kind e = .N ∧ (h.getProp e possKey).truthy = true)) :
    npHeadIndex h p = i := by
  unfold npHeadIndex
  simp only [hi, Option.getD_some]
  cases he : (h.kids p)[i]? with
  | none => rfl
  | some e0 =>
    simp only []
    have := hnp e0 he
    split
    · next hc =>
      exfalso; apply this
      simp only [Bool.and_eq_true, decide_eq_true_eq] at hc
      exact hc
    · rfl

/-- **s_link.**  After `linkProperties` of a clause (S/SP) whose subject (`sSubject`: first NP/N/CP/Pro child, with
    the relative-pronoun exceptions; none for an imperative) holds the record `r`: the clause and every node of `sDeps`
    (the verb and its VP, or the verbs of coordinated VPs; in French the attributes and past participles after
    être/paraître/sembler/devenir/rester) hold `r`; every other slot is unchanged or holds `r`. -/
def s_link : Prop :=
  ∀ (h h' : Heap) (p : Nat) (acts : List Act) (subj r : Nat),
    (h.kind p = .S ∨ h.kind p = .SP) → plan h p = some acts → exec h acts = .ok h' →
    sSubject h p = some subj → h.peng subj = some r →
    h'.peng p = some r ∧ h'.peng subj = some r ∧ (∀ d ∈ sDeps h p subj, h'.peng d = some r) ∧
    (∀ x, h'.peng x = h.peng x ∨ h'.peng x = some r)

theorem sSubject_kids_ne (h : Heap) (p subj : Nat) (hs : sSubject h p = some subj) : h.kids p ≠ [] := by
  intro he
  rw [sSubject_eq] at hs
  split at hs
  · cases hs
  · unfold sChosen at hs
    simp only [he] at hs
    cases hgi : h.getIndex p subjKinds <;> rw [hgi] at hs <;> simp at hs

theorem plan_S (h : Heap) (p : Nat) (acts : List Act) (hk : h.kind p = .S ∨ h.kind p = .SP)
    (hp : plan h p = some acts) (hne : (h.kids p) ≠ []) : planS h p = some acts := by
  unfold plan at hp
  have hph : (h.kind p).isPhrase = true := by rcases hk with hk | hk <;> simp [hk, Kind.isPhrase]
  simp only [hph, if_true] at hp
  unfold planPhrase at hp
  have : (h.kids p).isEmpty = false := by
    cases hkk : h.kids p with
    | nil => exact absurd hkk hne
    | cons a b => rfl
  simp only [this, Bool.false_eq_true, if_false] at hp
  split at hp
  · cases hp
  · rcases hk with hk | hk <;> simpa [hk] using hp

theorem s_link_holds : s_link := by
  intro h h' p acts subj r hk hp hex hs hr
  exact planS_link h p acts h' subj r (plan_S h p acts hk hp (sSubject_kids_ne h p subj hs)) hex hs hr

/-- after the link run every node of the agreement class of a noun phrase is `Linked` to the head (the hypothesis of
    `controller_update_propagates`) -/
theorem np_link_linked (h h' : Heap) (p : Nat) (acts : List Act) (hd r : Nat)
    (hk : h.kind p = .NP) (hp : plan h p = some acts) (hex : exec h acts = .ok h')
    (hhd : (h.kids p)[npHeadIndex h p]? = some hd) (hr : h.peng hd = some r) :
    Linked h' hd p ∧ ∀ d ∈ npDeps h p, Linked h' hd d := by
  obtain ⟨a, b, c, _⟩ := np_link_holds h h' p acts hd r hk hp hex hhd hr
  refine ⟨⟨by rw [a, b], by rw [b]; rfl⟩, ?_⟩
  intro d hd'
  exact ⟨by rw [c d hd', b], by rw [b]; rfl⟩

/-- the same for a clause and its subject -/
theorem s_link_linked (h h' : Heap) (p : Nat) (acts : List Act) (subj r : Nat)
    (hk : h.kind p = .S ∨ h.kind p = .SP) (hp : plan h p = some acts) (hex : exec h acts = .ok h')
    (hs : sSubject h p = some subj) (hr : h.peng subj = some r) :
    ∀ d ∈ sDeps h p subj, Linked h' subj d := by
  obtain ⟨_, b, c, _⟩ := s_link_holds h h' p acts subj r hk hp hex hs hr
  intro d hd'
  exact ⟨by rw [c d hd', b], by rw [b]; rfl⟩

/-- **dep_link.**  After `linkProperties` of a dependency node (root, subj, det, mod, comp) whose dependents form a tree
    (`DepTree`: distinct dependents, disjoint sub-trees), for every list of dependents: each goal of the declarative
    specification `depGoals` holds — a determiner, an adjective, a participle, the verb of a subject relative and a
    coordination of subjects hold the record of the node; a French attribute of a copula holds the record of the subject
    dependent; the verb holds the record of the LAST subject dependent.  ("the record of `src`" = the one `src` held
    before the run: a source is never re-pointed by the run.) -/
def dep_link : Prop :=
  ∀ (h h' : Heap) (p ht : Nat) (acts : List Act),
    (h.kind p).isDep = true → h.kind p ≠ .coord → (h.node p).term = some ht →
    plan h p = some acts → exec h acts = .ok h' → DepTree h p ht →
    ∀ g ∈ depGoals h p, ∀ r, h.peng g.src = some r → h'.peng g.node = some r

theorem plan_Dep (h : Heap) (p : Nat) (acts : List Act) (hk : (h.kind p).isDep = true)
    (hp : plan h p = some acts) : planDep h p = some acts := by
  unfold plan at hp
  have hnp : (h.kind p).isPhrase = false := by
    cases hkk : h.kind p <;> simp [hkk, Kind.isDep] at hk <;> rfl
  simpa [hnp, hk] using hp

theorem dep_link_holds : dep_link := by
  intro h h' p ht acts hk hnc hterm hp hex tree g hg r hr
  have hpd := plan_Dep h p acts hk hp
  unfold depGoals at hg
  rw [hterm] at hg
  simp only [] at hg
  rcases List.mem_append.mp hg with hg | hg
  · exact planDep_goals h p ht acts h' hterm hnc hpd hex tree g hg r hr
  · split at hg
    · next hV =>
      cases hdl : (depSubjects h p).getLast? with
      | none => rw [hdl] at hg; simp at hg
      | some dl =>
        rw [hdl] at hg
        simp only [List.mem_cons, List.not_mem_nil, or_false] at hg
        subst hg
        exact planDep_head h p ht acts h' hterm hnc hV hpd hex tree dl r hdl hr
    · simp at hg

/-! ## (ii) the read rule -/

/-- **getProp_local_wins.**  A feature set explicitly on a word (`setProp`, i.e. any option `.n() .g() .pe()`) is what
    `getProp` returns for it, whatever is written afterwards — through ANY other node — into the record it shares. -/
def getProp_local_wins : Prop :=
  ∀ (h : Heap) (x c : Nat) (k k' : Str) (v v' : Val), x ≠ c →
    (h.setProp x k v).getProp x k = v ∧ ((h.setProp x k v).setProp c k' v').getProp x k = v

theorem getProp_of_local (h : Heap) (x : Nat) (k : Str) (v : Val) (hl : lookup k (h.node x).props = some v) :
    h.getProp x k = v := by
  simp [Heap.getProp, hl]

theorem lookup_set_same (d : Dict) (k : Str) (v : Val) : lookup k (Dict.set d k v) = some v := by
  induction d with
  | nil => simp [Dict.set, lookup]
  | cons kv r ih =>
    obtain ⟨k', v'⟩ := kv
    simp only [Dict.set]
    split
    · simp [lookup]
    · next hne => simp [lookup, hne, ih]

theorem lookup_set_other (d : Dict) (k k' : Str) (v : Val) (hk : k' ≠ k) :
    lookup k' (Dict.set d k v) = lookup k' d := by
  induction d with
  | nil => simp [Dict.set, lookup, Ne.symm hk]
  | cons kv r ih =>
    obtain ⟨k1, v1⟩ := kv
    simp only [Dict.set]
    split
    · next he => subst he; simp [lookup, Ne.symm hk]
    · simp [lookup, ih]

theorem writePeng_node (h : Heap) (x : Nat) (k : Str) (v : Val) : (h.writePeng x k v).node = h.node := by
  unfold Heap.writePeng
  split
  · split <;> rfl
  · rfl

theorem writePeng_peng (h : Heap) (x : Nat) (k : Str) (v : Val) : (h.writePeng x k v).peng = h.peng := by
  unfold Heap.writePeng
  split
  · split <;> rfl
  · rfl

theorem writeTaux_node (h : Heap) (x : Nat) (k : Str) (v : Val) : (h.writeTaux x k v).node = h.node := by
  unfold Heap.writeTaux
  split
  · split <;> rfl
  · rfl

theorem writeTaux_peng (h : Heap) (x : Nat) (k : Str) (v : Val) : (h.writeTaux x k v).peng = h.peng := by
  unfold Heap.writeTaux
  split
  · split <;> rfl
  · rfl

theorem writeTaux_prec (h : Heap) (x : Nat) (k : Str) (v : Val) : (h.writeTaux x k v).prec = h.prec := by
  unfold Heap.writeTaux
  split
  · split <;> rfl
  · rfl

theorem setProp_node_self (h : Heap) (x : Nat) (k : Str) (v : Val) :
    ((h.setProp x k v).node x).props = Dict.set (h.node x).props k v := by
  unfold Heap.setProp
  simp only [Heap.setNode, upd_same, writeTaux_node, writePeng_node]

theorem setProp_node_other (h : Heap) (x y : Nat) (k : Str) (v : Val) (hy : y ≠ x) :
    (h.setProp x k v).node y = h.node y := by
  unfold Heap.setProp
  simp only [Heap.setNode, upd_other _ _ _ _ hy, writeTaux_node, writePeng_node]

theorem setProp_peng (h : Heap) (x : Nat) (k : Str) (v : Val) : (h.setProp x k v).peng = h.peng := by
  unfold Heap.setProp
  simp only [Heap.setNode, writeTaux_peng, writePeng_peng]

theorem getProp_local_wins_holds : getProp_local_wins := by
  intro h x c k k' v v' hxc
  constructor
  · apply getProp_of_local
    rw [setProp_node_self]
    exact lookup_set_same _ _ _
  · apply getProp_of_local
    rw [setProp_node_other _ _ _ _ _ hxc, setProp_node_self]
    exact lookup_set_same _ _ _

/-! ## (iii) a change of the controller reaches every dependent -/

/-- **controller_update_propagates.**  If `d` shares the record of `c` and has no own value for the feature `k`
    (person, number or gender), then after `c.setProp(k, v)` the dependent reads `v` — and is still linked. -/
def controller_update_propagates : Prop :=
  ∀ (h : Heap) (c d : Nat) (k : Str) (v : Val), Linked h c d → isPengKey k = true → d ≠ c →
    lookup k (h.node d).props = none →
    (h.setProp c k v).getProp d k = v ∧ (h.setProp c k v).getProp c k = v ∧ Linked (h.setProp c k v) c d

theorem setProp_prec (h : Heap) (c r : Nat) (k : Str) (v : Val) (hk : isPengKey k = true) (hc : h.peng c = some r) :
    ((h.setProp c k v).prec r) =
      (if k = Heap.peKey then { h.prec r with pe := some v } else if k = Heap.nKey then { h.prec r with n := some v }
       else { h.prec r with g := some v }) := by
  have hk' : k = Heap.peKey ∨ k = Heap.nKey ∨ k = Heap.gKey := by
    simpa [isPengKey, or_assoc] using hk
  unfold Heap.setProp
  simp only [Heap.setNode, writeTaux_prec]
  unfold Heap.writePeng
  simp only [hk', if_true, hc, upd_same]

theorem controller_update_propagates_holds : controller_update_propagates := by
  intro h c d k v ⟨hl, hs⟩ hk hdc hloc
  obtain ⟨r, hr⟩ := Option.isSome_iff_exists.mp hs
  have hk' : k = Heap.peKey ∨ k = Heap.nKey ∨ k = Heap.gKey := by
    simpa [isPengKey, or_assoc] using hk
  refine ⟨?_, ?_, ?_⟩
  · unfold Heap.getProp
    rw [setProp_node_other _ _ _ _ _ hdc, hloc]
    simp only [hk', if_true, setProp_peng, hl, hr]
    rw [setProp_prec h c r k v hk hr]
    rcases hk' with rfl | rfl | rfl
    · simp
    · have : Heap.nKey ≠ Heap.peKey := by decide
      simp [this]
    · have h1 : Heap.gKey ≠ Heap.peKey := by decide
      have h2 : Heap.gKey ≠ Heap.nKey := by decide
      simp [h1, h2]
  · apply getProp_of_local
    rw [setProp_node_self]
    exact lookup_set_same _ _ _
  · constructor
    · rw [setProp_peng]; exact hl
    · rw [setProp_peng]; exact hs

/-- **dependents_read_controller** (full strength): a linked dependent without own value reads the SAME value as its
    controller.  False of the code: the controller's own value and the shared record can disagree. -/
def dependents_read_controller : Prop :=
  ∀ (h : Heap) (c d : Nat) (k : Str), Linked h c d → isPengKey k = true →
    lookup k (h.node d).props = none → h.getProp d k = h.getProp c k

/-- witness: `NP(D("le"), N("chat").n("s")).n("p")` — handles D=0, N=1, NP=2; the record 0 is shared by the three; the
    noun keeps its own `n = "s"`, the later `.n("p")` on the phrase is written into the shared record -/
def witnessDesync : Heap :=
  { n := 3
    node := fun i =>
      if i = 0 then { kind := .D, lang := .fr, lemma := s "le" }
      else if i = 1 then { kind := .N, lang := .fr, lemma := s "chat", props := [(Heap.nKey, .s ['s'])] }
      else { kind := .NP, lang := .fr, kids := [0, 1], props := [(Heap.nKey, .s ['p'])] }
    peng := fun _ => some 0
    prec := fun _ => { pe := some (.i 3), n := some (.s ['p']), g := some (.s ['m']) }
    nRec := 1 }

theorem dependents_read_controller_refuted : ¬ dependents_read_controller := by
  intro hp
  have := hp witnessDesync 1 0 Heap.nKey ⟨rfl, rfl⟩ (by decide) (by decide)
  revert this
  decide

/-- the same clause for REACHABLE stores only (histories of constructor / add / option calls from the empty store) -/
def dependents_read_controller_reachable : Prop :=
  ∀ (ops : List Op) (h : Heap), runOps {} ops = .ok h →
    ∀ (c d : Nat) (k : Str), Linked h c d → isPengKey k = true →
      lookup k (h.node d).props = none → h.getProp d k = h.getProp c k

/-- the history `NP(D("le"), N("chat").n("s")).n("p")` (replayed on the real code by the harness: "les chat") -/
def witnessOps : List Op := [
  .mkT { kind := .D, lang := .fr, lemma := s "le", pe := .i 3, n := .s ['s'], g := .s ['m'] },
  .mkT { kind := .N, lang := .fr, lemma := s "chat", pe := .i 3, n := .s ['s'], g := .s ['m'] },
  .opt 1 (s "n") (.s ['s']),
  .mkP .NP .fr [.item (.node 0), .item (.node 1)],
  .opt 2 (s "n") (.s ['p'])]

def witnessRun : Option (Val × Val × Bool × Bool × Bool) :=
  match runOps {} witnessOps with
  | .ok h => some (h.getProp 0 Heap.nKey, h.getProp 1 Heap.nKey, h.peng 0 == h.peng 1, (h.peng 1).isSome,
                   (lookup Heap.nKey (h.node 0).props).isNone)
  | _ => none

theorem witnessRun_eq : witnessRun = some (.s ['p'], .s ['s'], true, true, true) := by decide +kernel

theorem dependents_read_controller_reachable_refuted : ¬ dependents_read_controller_reachable := by
  intro hp
  have hw := witnessRun_eq
  unfold witnessRun at hw
  cases hrun : runOps {} witnessOps with
  | ok h =>
    rw [hrun] at hw
    simp only [Option.some.injEq, Prod.mk.injEq] at hw
    obtain ⟨h0, h1, hpe, hsome, hnone⟩ := hw
    have hlink : Linked h 1 0 := ⟨by simpa using hpe, hsome⟩
    have := hp witnessOps h hrun 1 0 Heap.nKey hlink (by decide) (by simpa using hnone)
    rw [h0, h1] at this
    exact absurd this (by decide)
  | crash c => rw [hrun] at hw; simp at hw
  | outside => rw [hrun] at hw; simp at hw

/-- what is true: the dependent reads the controller's value whenever the controller has no own value that differs
    from the shared record (in particular when all features were set through the controller LAST, or never) -/
theorem dependents_read_controller_partial (h : Heap) (c d : Nat) (k : Str) (hl : Linked h c d)
    (hk : isPengKey k = true) (hloc : lookup k (h.node d).props = none)
    (hc : lookup k (h.node c).props = none ∨
          ∃ r, h.peng c = some r ∧ lookup k (h.node c).props =
            some ((if k = Heap.peKey then (h.prec r).pe else if k = Heap.nKey then (h.prec r).n else (h.prec r).g).getD .none)) :
    h.getProp d k = h.getProp c k := by
  obtain ⟨hl, hs⟩ := hl
  have hk' : k = Heap.peKey ∨ k = Heap.nKey ∨ k = Heap.gKey := by
    simpa [isPengKey, or_assoc] using hk
  rcases hc with hc | ⟨r, hr, hc⟩
  · unfold Heap.getProp
    simp only [hloc, hc, hk', if_true, hl]
  · unfold Heap.getProp
    simp only [hloc, hc, hk', if_true, hl, hr]

/-- the controller's own value agrees with the record right after it is set: `setProp` on the controller re-synchronises -/
theorem setProp_resynchronises (h : Heap) (c d : Nat) (k : Str) (v : Val) (hl : Linked h c d)
    (hk : isPengKey k = true) (hdc : d ≠ c) (hloc : lookup k (h.node d).props = none) :
    (h.setProp c k v).getProp d k = (h.setProp c k v).getProp c k := by
  obtain ⟨a, b, _⟩ := controller_update_propagates_holds h c d k v hl hk hdc hloc
  rw [a, b]

/-! ## (iv) the noun takes the number of a preceding numeral -/

/-- **numeral_number.**  After `linkProperties` of a noun phrase, the number in the head's record is the one imposed
    by the LAST number-giving child (a numeral BEFORE the head: its grammatical number; English `no`: plural); without
    such a child it is unchanged.  So `NP(D, NO(2), N)` makes every word that reads the record plural. -/
def numeral_number : Prop :=
  ∀ (h h' : Heap) (p : Nat) (acts : List Act) (hd r : Nat),
    h.kind p = .NP → plan h p = some acts → exec h acts = .ok h' →
    (h.kids p)[npHeadIndex h p]? = some hd → h.peng hd = some r →
    (h'.prec r).n = (match (npNumberWriters h p).getLast? with | some v => some v | none => (h.prec r).n)

theorem numeral_number_holds : numeral_number := by
  intro h h' p acts hd r hk hp hex hhd hr
  have hne : h.kids p ≠ [] := by
    intro he; rw [he] at hhd; simp at hhd
  exact (planNP_link h p acts h' hd r (plan_NP h p acts hk hp hne) hex hhd hr).2.2.2.2

/-! ## non-vacuity: concrete instances of the hypotheses -/

/-- `NP(D("le"), NO("2"), A("petit"), N("chat"))` before its link run: handles D=0, NO=1, A=2, N=3, NP=4 -/
def exNP : Heap :=
  { n := 5
    node := fun i =>
      if i = 0 then { kind := .D, lang := .fr, lemma := s "le", parent := some 4 }
      else if i = 1 then { kind := .NO, lang := .fr, lemma := s "2", gram0 := .s ['p'], parent := some 4 }
      else if i = 2 then { kind := .A, lang := .fr, lemma := s "petit", parent := some 4 }
      else if i = 3 then { kind := .N, lang := .fr, lemma := s "chat", parent := some 4 }
      else { kind := .NP, lang := .fr, kids := [0, 1, 2, 3] }
    peng := fun i => if i < 4 then some i else none
    prec := fun i => if i = 3 then { pe := some (.i 3), n := some (.s ['s']), g := some (.s ['m']) }
                     else { pe := some (.i 3), n := some (.s ['s']), g := some (.s ['m']) }
    nRec := 4 }

/-- the store after the link run of `exNP` -/
def exRun : Option Heap :=
  match plan exNP 4 with
  | some acts => (match exec exNP acts with | .ok h' => some h' | .error _ => none)
  | none => none

/-- test (a single instance): the hypotheses of `np_link` / `numeral_number` hold of `exNP`, the class is {D, A}, and
    the number becomes plural -/
example : exNP.kind 4 = .NP ∧ npHeadIndex exNP 4 = 3 ∧ npDeps exNP 4 = [0, 2] ∧
    npNumberWriters exNP 4 = [.s ['p']] ∧
    exRun.map (fun h' => (h'.peng 0, h'.peng 2, h'.peng 4, (h'.prec 3).n)) =
      some (some 3, some 3, some 3, some (.s ['p'])) := by decide

/-- `root(V("être"), subj(N("fille"), det(D("le"))), comp(A("content")))` just before the link run of the root:
    terminals V=0, N=1, D=2, A=3; dependents det=4 (of D), subj=5 (of N, with det), comp=6 (of A), root=7 -/
def exDep : Heap :=
  { n := 8
    node := fun i =>
      if i = 0 then { kind := .V, lang := .fr, lemma := s "être", parent := some 7 }
      else if i = 1 then { kind := .N, lang := .fr, lemma := s "fille", parent := some 5 }
      else if i = 2 then { kind := .D, lang := .fr, lemma := s "le", parent := some 4 }
      else if i = 3 then { kind := .A, lang := .fr, lemma := s "content", parent := some 6 }
      else if i = 4 then { kind := .det, lang := .fr, term := some 2, parent := some 5 }
      else if i = 5 then { kind := .subj, lang := .fr, term := some 1, kids := [4], parent := some 7 }
      else if i = 6 then { kind := .comp, lang := .fr, term := some 3, parent := some 7 }
      else { kind := .root, lang := .fr, term := some 0, kids := [5, 6] }
    peng := fun i => if i = 0 ∨ i = 7 then some 0 else if i = 1 ∨ i = 2 ∨ i = 4 ∨ i = 5 then some 1 else if i = 3 ∨ i = 6 then some 3 else none
    prec := fun i => if i = 1 then { pe := some (.i 3), n := some (.s ['s']), g := some (.s ['f']) }
                     else { pe := some (.i 3), n := some (.s ['s']), g := some (.s ['m']) }
    nRec := 4 }

/-- test (a single instance): the goals of `exDep`'s root are "the attribute takes the subject's record" and "the verb
    takes the subject's record"; the tree hypothesis holds -/
example : depGoals exDep 7 = [⟨3, 5⟩, ⟨0, 5⟩] := by decide

example : DepTree exDep 7 0 := by
  constructor <;> decide

end Pyrealb.C03
