import Pyrealb.Props.C06
import Pyrealb.Lemmas.ElisionFormatOK
import Pyrealb.Lemmas.ElisionPlaceOK
/-! # C06 — the tree-level theorem instantiated with the models that exist in this repository

`tree_settled_partial` (Props/C06) holds for ANY `place`, `format` satisfying `PlaceOK`, `FormatOK`.  Here the
hypothesis `FormatOK` is discharged for C10's model of `Constituent.doFormat` (`Format.formatCore`, via
`Lemmas/ElisionFormatOK.formatOK_c10`): what remains assumed about formatting is only that each node's options are
`SafeOpts` (no `poss`, no `cap`; tag names / attributes without `>` or newline; signs of the generated French `Pc`
table other than `-` — `fact_safe_signs_fr`).

The hypothesis `PlaceOK` is discharged for C05's model of `NonTerminalFr.doPronounPlacement`
(`ClauseFr.placePronouns`, via `Lemmas/ElisionPlaceOK.placeOKAt_c05`) at the VP nodes that satisfy `NodeOK`: the
placement is in its closed form (first non-auxiliary verb, `ClauseFr.place_first_verb`) and `PlaceCond` holds — it is
FALSE in general (a stale elided token directly before a popped clitic or before the insertion point); the `elided`
guard of the code is what makes the popped pronouns fresh (`elided_clitic_not_popped`). -/
namespace Pyrealb.C06
open Pyrealb Pyrealb.Elision

/-- the tree theorem with the real formatting model: every node `id` is formatted by C10's `formatCore` with its
    own options `opts id` -/
theorem tree_settled_format_model
    (place : Nat → List Tok → List Tok) (cm : Format.CaseMap) (opts : Nat → Format.Opts)
    (t : Tree) (out : List Tok) (ins lvs : List (List Tok)) (cats : List (Nat × List Tok)) :
    PlaceOK place → (∀ id, SafeOpts Format.tablesFr (opts id)) →
    Real place (fun id l => fmtC10 Format.tablesFr cm (opts id) l) t out ins lvs cats →
    (∀ ts ∈ lvs, InvOut ts) → (∀ inp ∈ ins, NodeTame inp) → Settled .fr out := by
  intro hp ho hr hl ht
  exact tree_settled_partial place _ t out ins lvs cats hp (formatOK_c10 Format.tablesFr cm opts ho) hr hl ht

/-- non-vacuity: `PP(P("de"), NP(D("le"), N("arbre").tag("i").tag("b")).a(","))` — the noun is wrapped in two tags,
    the inner node gets a comma: the options are `SafeOpts`, the article is elided across the tags -/
example : SafeOpts Format.tablesFr { tags := some [(['i'], []), (['b'], [])] } ∧
    SafeOpts Format.tablesFr { a := some [[',']] } ∧
    fmtC10 Format.tablesFr Format.pyCase { tags := some [(['i'], []), (['b'], [])] } [tk "arbre"] =
      [tk "<b><i>arbre</i></b>"] ∧
    doElision .fr false [tk "le" "D", tk "<b><i>arbre</i></b>"] = .ok [tk "l'" "D", tk "<b><i>arbre</i></b>"] ∧
    fmtC10 Format.tablesFr Format.pyCase { a := some [[',']] } [tk "l'" "D", tk "<b><i>arbre</i></b>"] =
      [tk "l'" "D", tk "<b><i>arbre</i></b>, "] := by
  refine ⟨⟨rfl, by decide, by decide, by decide⟩, ⟨rfl, by decide, by decide, by decide⟩, by decide, by decide, by decide⟩

/-- **the tree theorem with the two real models**: formatting = C10's `formatCore` (options `opts id`), placement =
    C05's `placePronouns` at the VP nodes `nodes id` (identity elsewhere) -/
theorem tree_settled_models
    (E : Embedding) (nodes : Nat → Option VPNode) (cm : Format.CaseMap) (opts : Nat → Format.Opts)
    (t : Tree) (out : List Tok) (ins lvs : List (List Tok)) (cats : List (Nat × List Tok)) :
    (∀ id, SafeOpts Format.tablesFr (opts id)) →
    Real (placeC05 E nodes) (fun id l => fmtC10 Format.tablesFr cm (opts id) l) t out ins lvs cats →
    (∀ p ∈ cats, NodeOK E nodes p) →
    (∀ ts ∈ lvs, InvOut ts) → (∀ inp ∈ ins, NodeTame inp) → Settled .fr out := by
  intro ho hr hn hl ht
  exact (fold_inv_at (placeC05 E nodes) _ (formatOK_c10 Format.tablesFr cm opts ho) t out ins lvs cats hr
    (placeOKAt_c05 E nodes cats hn) hl ht).2.1

/-- the embedding used in the example: realization = the form, everything French, singular, mute h -/
def embEx : Embedding where
  emb t := ⟨some t.form, ClauseFr.kindStr t, t.lier, true, .mute, .mute, true⟩
  lier _ := rfl
  verb _ _ := rfl

/-- non-vacuity of `PlaceCond` on the scenario of the seeded change C06-D: the outer VP `veut l' aimer` — the clitic
    `l'` was elided at the inner VP; the guard keeps it where it is (`placedAt` leaves the list unchanged) and the
    condition holds (nothing is popped, nothing inserted) -/
example :
    let x := ClauseFr.mkV Gen.ClauseFr.verb_vouloir .p
    let post : List ClauseFr.Tok :=
      [.pro { lemma := ['l','u','i'], c := some .acc, tn := false, pe := 3, n := .s, g := .m } ['l', '\''],
       .v (ClauseFr.mkV Gen.ClauseFr.verb_avoir .b) ['a','i','m','e','r']]
    PlaceCond embEx [] post x ['v','e','u','t'] false none ∧
    ClauseFr.placedAt [] post x ['v','e','u','t'] false none = .v x ['v','e','u','t'] :: post ∧
    InvIn ((ClauseFr.Tok.v x ['v','e','u','t'] :: post).map embEx.emb) := by
  refine ⟨⟨?_, ?_, ?_, ?_, ?_, ?_⟩, by decide, ⟨by decide, by decide, ?_⟩⟩
  · decide
  · intro w h; cases h
  · intro t ht; simp at ht
  · decide
  · exact ⟨by decide, trivial⟩
  · intro h; cases h
  · intro t ht
    simp at ht
    rw [← ht]; decide

/-- non-vacuity, a clitic that IS moved: `[aime, le]` (verb, accusative clitic) becomes `[le, aime]`; the condition
    holds (the popped pronoun is fresh: its realization does not end with an apostrophe), and the result satisfies
    the precondition of `doElision`, which then elides it: `l'aime` -/
example :
    let x := ClauseFr.mkV Gen.ClauseFr.verb_avoir .p
    let le : ClauseFr.Tok := .pro { lemma := ['l','u','i'], c := some .acc, tn := false, pe := 3, n := .s, g := .m } ['l','e']
    PlaceCond embEx [] [le] x ['a','i','m','e'] false none ∧
    ClauseFr.placedAt [] [le] x ['a','i','m','e'] false none = [le, .v x ['a','i','m','e']] ∧
    (doElision .fr false ([le, ClauseFr.Tok.v x ['a','i','m','e']].map embEx.emb)).toOption.map (·.map (·.real)) =
      some [some ['l','\''], some ['a','i','m','e']] := by
  refine ⟨⟨?_, ?_, ?_, ?_, ?_, ?_⟩, by decide, by decide⟩
  · decide
  · intro w h; cases h
  · intro t ht; simp at ht
  · decide
  · trivial
  · intro h; cases h

/-- the guard as repaired by /repo commit c4595d2 (test): an elided clitic that carries a tag and punctuation,
    `<i>l'</i>.`, is recognised (`ClauseFr.elidedForm`) and stays where it is; the bare `le` is still a clitic to pop -/
example :
    let pro : ClauseFr.ProT := { lemma := ['l','u','i'], c := some .acc, tn := false, pe := 3, n := .s, g := .m }
    ClauseFr.elidedForm "<i>l'</i>. ".toList = true ∧ ClauseFr.isCliticPro pro "<i>l'</i>. ".toList = false ∧
    ClauseFr.isCliticPro pro "le".toList = true ∧
    ClauseFr.placedAt [] [.pro pro "<i>l'</i>. ".toList, .v (ClauseFr.mkV Gen.ClauseFr.verb_avoir .b) "écouter".toList]
        (ClauseFr.mkV Gen.ClauseFr.verb_vouloir .p) "veux".toList false none =
      [.v (ClauseFr.mkV Gen.ClauseFr.verb_vouloir .p) "veux".toList, .pro pro "<i>l'</i>. ".toList,
       .v (ClauseFr.mkV Gen.ClauseFr.verb_avoir .b) "écouter".toList] := by decide

end Pyrealb.C06
