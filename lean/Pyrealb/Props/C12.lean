import Pyrealb.Lemmas.JsonRoundtrip
import Pyrealb.Lemmas.JsonText
import Pyrealb.Lemmas.JsonSource
import Pyrealb.Lemmas.JsonSourceText
import Pyrealb.Lemmas.JsonExact
/-! # C12 — JSON and source-text serializations round-trip

Property theorems only. Model: `Model/Expr` (expression trees with option STATE `props` and call HISTORY `hist`,
constructors, option methods), `Model/Json` (`toJSON`, `fromJSON`, printer/reader), `Model/ExprSource` (`toSource`,
evaluator of the printed source). The lexicons are a parameter `env`; every theorem is for ALL lexicons.

`≈` is equality of `Expr.abs` (tree, kinds, lemmata, languages, lexicon entries used, `props`; history erased):
assumption A_abs says it determines the realized text (checked on the implementation by the direct oracle).
Each clause is stated at full strength over every expression built without warnings (`Built`); where the unchanged code
violates it there is a `_refuted` theorem (concrete witness, replayed on the real code by harness/props/C12.py) and a
`_partial` theorem under the weakest side conditions found (`WFJ` …), proved by structural induction on `Expr`. -/
namespace Pyrealb.C12
open Pyrealb Pyrealb.Expr

/-- built by a construction program without a warning: the domain of the property -/
def Built (env : Env) (e : Expr) : Prop := ∃ p ctx, build env ctx p = .ok (e, 0)

/-! ## the clauses -/

/-- **C12.a** `fromJSON(e.toJSON()) ≈ e` -/
def json_roundtrip : Prop :=
  ∀ (env : Env) (cur : Lang) (e : Expr), Built env e →
    ∃ e' m, routeJson env cur e = .ok (e', m) ∧ e'.abs = e.abs

/-- **C12.b** `fromJSON(e.toJSON()).toJSON() = e.toJSON()` -/
def json_idempotent : Prop :=
  ∀ (env : Env) (cur : Lang) (e : Expr), Built env e →
    ∃ e' m, routeJson env cur e = .ok (e', m) ∧ toJSON none e' = toJSON none e

/-- **C12.c** going through `json.dumps` / `json.loads` changes nothing -/
def json_text_roundtrip : Prop :=
  ∀ (env : Env) (cur : Lang) (e : Expr), Built env e → routeJsonText env cur e = routeJson env cur e

/-- **C12.d** `eval(e.toSource()) ≈ e` -/
def source_roundtrip : Prop :=
  ∀ (env : Env) (cur : Lang) (e : Expr), Built env e →
    ∃ e' m, routeSource env cur e = .ok (e', m) ∧ e'.abs = e.abs

/-- **C12.e** the re-evaluated expression prints the same source and the same JSON again -/
def source_stable : Prop :=
  ∀ (env : Env) (cur : Lang) (e : Expr), Built env e →
    ∃ e' m, routeSource env cur e = .ok (e', m) ∧ toSource e' = toSource e ∧ toJSON none e' = toJSON none e

/-- **C12.g** after a JSON round trip the expression prints the same source again -/
def json_source_stable : Prop :=
  ∀ (env : Env) (cur : Lang) (e : Expr), Built env e →
    ∃ e' m, routeJson env cur e = .ok (e', m) ∧ toSource e' = toSource e

/-- **C12.f** the decoded expression is the same whichever language is current -/
def decode_lang_independent : Prop :=
  ∀ (env : Env) (cur cur' : Lang) (e : Expr), routeJson env cur e = routeJson env cur' e

/-! ## what holds -/

/-- `fromJSON (toJSON e) ≈ e` under `WFJ` (structural induction on `e`, one `Replays` constructor per option kind) -/
theorem json_roundtrip_partial (env : Env) (cur : Lang) (e : Expr) (h : WFJ env e) :
    ∃ e' m, routeJson env cur e = .ok (e', m) ∧ e'.abs = e.abs := by
  obtain ⟨e', h1, h2⟩ := fromJ_toJSON env cur e (toJSON none e).depth none h (height_le_depth none e)
  refine ⟨e', (fromJSON env cur (toJSON none e)).2, ?_, h2⟩
  unfold routeJson
  have : fromJSON env cur (toJSON none e) = (some e', (fromJSON env cur (toJSON none e)).2) := by
    unfold fromJSON
    rw [← h1]
  rw [this]

/-- re-encoding gives the same JSON, under the same side conditions (`toJSON` reads the abstraction only) -/
theorem json_idempotent_partial (env : Env) (cur : Lang) (e : Expr) (h : WFJ env e) :
    ∃ e' m, routeJson env cur e = .ok (e', m) ∧ toJSON none e' = toJSON none e := by
  obtain ⟨e', m, h1, h2⟩ := json_roundtrip_partial env cur e h
  exact ⟨e', m, h1, toJSON_congr_abs h2 none⟩

/-- since the repair 8586a6a (`getLemma(lemma, self.lang())`) decoding never consults the current language: every
    part carries its language through the `lang` fields, the root always has one. For ALL expressions. -/
theorem decode_lang_independent_holds : decode_lang_independent := by
  intro env cur cur' e
  unfold routeJson fromJSON
  have hroot : ∃ kv, toJSON none e = .obj kv ∧ (lookup (s "lang") kv).isSome = true := by
    cases e with
    | term n l i => exact ⟨_, rfl, by simp [lookup_append, lookup_lang_langJ]⟩
    | phr n es => exact ⟨_, rfl, by simp [lookup_append, lookup_lang_langJ]⟩
    | dep n t ds => exact ⟨_, rfl, by simp [lookup_append, lookup_propsJ, lookup_lang_langJ]⟩
  rw [fromJ_cur_indep env cur cur' _ none _ (Or.inr hroot)]

/-- the text route equals the object route for EVERY expression whose JSON form contains no `datetime` object
    (`readJ (printJ j) = j` for all such `j`, all strings): the weakest condition, `json.dumps` raises otherwise -/
theorem json_text_roundtrip_partial (env : Env) (cur : Lang) (e : Expr) (h : (toJSON none e).serializable = true) :
    routeJsonText env cur e = routeJson env cur e := by
  unfold routeJsonText routeJson
  simp only [h, if_true, readJ_printJ _ h]

/-- evaluating the printed source rebuilds the expression EXACTLY (state and history) when the language of the ROOT is
    the current one (it cannot be printed), every constituent is what its own call history makes of its constructor's
    result (`WFS`) and the option values have a `repr` the model covers (`SrcOK`: no `datetime`). Lemmata and tag names
    are unrestricted (escaped since a4c65f5 / 2b9e5f9), sub-expressions of the other language carry `lang=` (09cd540).
    Text level: `parseSrc (toSource e) = progOf e` (`parseSrc_toSource`); evaluation level: `build (progOf e) = e`. -/
theorem source_roundtrip_partial (env : Env) (cur : Lang) (e : Expr) (h : WFS env e) (hs : SrcOK e) (hl : e.lang = cur) :
    routeSource env cur e = .ok (e, 0) := by
  unfold routeSource
  rw [parseSrc_toSource cur e hs hl]
  exact build_progOf env e cur h

/-- … hence the same source and the same JSON again -/
theorem source_stable_partial (env : Env) (cur : Lang) (e : Expr) (h : WFS env e) (hs : SrcOK e) (hl : e.lang = cur) :
    ∃ e' m, routeSource env cur e = .ok (e', m) ∧ toSource e' = toSource e ∧ toJSON none e' = toJSON none e :=
  ⟨e, 0, source_roundtrip_partial env cur e h hs hl, rfl, rfl⟩

/-- the same SOURCE again after a JSON round trip — indeed the very same expression, state and history — when in
    addition to `WFJ` every history is canonical (`CanonJ`: the constructor's calls, then one group of calls per entry
    of `props` in their order: nothing repeated, interleaved, propagated from a CP, or implied by the constructor) -/
theorem json_source_stable_partial (env : Env) (cur : Lang) (e : Expr) (h : CanonJ env e) :
    ∃ e' m, routeJson env cur e = .ok (e', m) ∧ toSource e' = toSource e := by
  have h1 := fromJ_toJSON_exact env cur e (toJSON none e).depth none h (height_le_depth none e)
  refine ⟨e, (fromJSON env cur (toJSON none e)).2, ?_, rfl⟩
  unfold routeJson
  have : fromJSON env cur (toJSON none e) = (some e, (fromJSON env cur (toJSON none e)).2) := by
    unfold fromJSON
    rw [← h1]
  rw [this]

/-! ## what the unchanged code violates -/

def envNone : Env := { lex := fun _ _ _ => none, noWord := fun _ _ => none }

def built (p : Prog) : Expr :=
  match build envNone .en p with
  | .ok (e, _) => e
  | .error _ => default

/-- an observable of the outcome of a route (decidable, for the witnesses) -/
def obs (f : Expr → Str) : Except RouteErr (Expr × Nat) → Option Str
  | .ok (e, _) => some (f e)
  | .error _ => none

def jsonText (e : Expr) : Str := printJ (toJSON none e)

def propsOf : Except RouteErr (Expr × Nat) → Option (List (Str × PVal))
  | .ok (e, _) => some e.props
  | .error _ => none

/-- `root("x").tn()` : a dependent accepts every option; `tn` called without argument stores `True`, which `tn`
    refuses when it is re-applied (`"" in validVals` but `True not in validVals`) -/
def progTn : Prog := .call (.dep (s "root") .en (.lit (s "x")) []) (s "tn") []

theorem built_progTn : Built envNone (built progTn) := ⟨progTn, .en, by rfl⟩

theorem json_roundtrip_refuted : ¬ json_roundtrip := by
  intro h
  obtain ⟨e', m, h1, h2⟩ := h envNone .en (built progTn) built_progTn
  have hp : e'.props = (built progTn).props := by rw [← abs_props e', h2, abs_props]
  have h3 : propsOf (routeJson envNone .en (built progTn)) = some e'.props := by rw [h1]; rfl
  have h4 : propsOf (routeJson envNone .en (built progTn)) = some [] := by decide +kernel
  have h5 : (built progTn).props = [(s "tn", .atom (.bool true))] := by decide +kernel
  rw [h4, hp, h5] at h3
  exact absurd h3 (by decide)


/-- `DT(datetime.datetime(2024,1,5))` : the lemma is a `datetime`, `json.dumps` raises TypeError -/
def progDt : Prog := .term (s "DT") (.dt 2024 1 5 0 0 0) .en

theorem built_progDt : Built envNone (built progDt) := ⟨progDt, .en, by rfl⟩

theorem json_text_roundtrip_refuted : ¬ json_text_roundtrip := by
  intro h
  have h1 := h envNone .en (built progDt) built_progDt
  have h2 : obs (fun _ => []) (routeJsonText envNone .en (built progDt)) =
      obs (fun _ => []) (routeJson envNone .en (built progDt)) := by rw [h1]
  exact absurd h2 (by decide +kernel)

/-- `Q("x")` built as a FRENCH constituent and evaluated while English is current: the language of the root is not
    printed (the source is evaluated under the current language), the result is an English constituent -/
def progFr : Prog := .term (s "Q") (.str (s "x")) .fr

theorem built_progFr : Built envNone (built progFr) := ⟨progFr, .en, by rfl⟩

theorem source_roundtrip_refuted : ¬ source_roundtrip := by
  intro h
  obtain ⟨e', m, h1, h2⟩ := h envNone .en (built progFr) built_progFr
  have h3 : obs jsonText (routeSource envNone .en (built progFr)) = some (jsonText (built progFr)) := by
    rw [h1]; simp [obs, jsonText, toJSON_congr_abs h2 none]
  exact absurd h3 (by decide +kernel)

theorem source_stable_refuted : ¬ source_stable := by
  intro h
  obtain ⟨e', m, h1, _, h2⟩ := h envNone .en (built progFr) built_progFr
  have h3 : obs jsonText (routeSource envNone .en (built progFr)) = some (jsonText (built progFr)) := by
    rw [h1]; simp [obs, jsonText, h2]
  exact absurd h3 (by decide +kernel)

/-- the former witnesses (`Q('say "hi"')`, a backslash followed by `t`) round-trip since the repair a4c65f5 (tests) -/
def progQuote : Prog := .term (s "Q") (.str (s "say \"hi\"")) .en
def progBackslash : Prog := .term (s "Q") (.str (s "tab\\there")) .en
example : obs toSource (routeSource envNone .en (built progQuote)) = some (toSource (built progQuote)) := by decide +kernel
example : obs jsonText (routeSource envNone .en (built progBackslash)) = some (jsonText (built progBackslash)) := by
  decide +kernel

/-- `Q("x").cap(True).cap(False)` : the JSON records the final state `cap: false`, the source the two calls -/
def progTwice : Prog := .call (.call (.term (s "Q") (.str (s "x")) .en) (s "cap") [.atom (.bool true)]) (s "cap") [.atom (.bool false)]

theorem built_progTwice : Built envNone (built progTwice) := ⟨progTwice, .en, by rfl⟩

theorem json_source_stable_refuted : ¬ json_source_stable := by
  intro h
  obtain ⟨e', m, h1, h2⟩ := h envNone .en (built progTwice) built_progTwice
  have h3 : obs toSource (routeJson envNone .en (built progTwice)) = some (toSource (built progTwice)) := by
    rw [h1]; simp [obs, h2]
  exact absurd h3 (by decide +kernel)

theorem json_idempotent_refuted : ¬ json_idempotent := by
  intro h
  obtain ⟨e', m, h1, h2⟩ := h envNone .en (built progTn) built_progTn
  have h3 : obs jsonText (routeJson envNone .en (built progTn)) = some (jsonText (built progTn)) := by
    rw [h1]; simp [obs, jsonText, h2]
  exact absurd h3 (by decide +kernel)

/-! ## non-vacuity: the side conditions are satisfied by a concrete, non-trivial expression -/

/-- `S(Q("a").cap(False), "b").typ({"neg": True}).a("!")` as the expression it builds -/
def exQ : Expr := .term ⟨s "Q", .en, [(s "cap", .atom (.bool false))], [.opt (s "cap") (.atom (.bool false))]⟩ (.str (s "a")) none
def exB : Expr := .term ⟨s "Q", .en, [], []⟩ (.str (s "b")) none
def exS : Expr := .phr ⟨s "S", .en, [(s "typ", .dict [(s "neg", .bool true)]), (s "a", .list [.str (s "!")])],
    [.opt (s "typ") (.dict [(s "neg", .bool true)]), .opt (s "a") (.atom (.str (s "!")))]⟩ [exQ, exB]

def progS : Prog :=
  .call (.call (.phr (s "S") .en [.call (.term (s "Q") (.str (s "a")) .en) (s "cap") [.atom (.bool false)], .lit (s "b")])
    (s "typ") [.dict [(s "neg", .bool true)]]) (s "a") [.atom (.str (s "!"))]

example : build envNone .en progS = .ok (exS, 0) := by rfl

def spCap : Spec := specOf Gen.OptionTable.opt_cap

example : WFJ envNone exS := by
  refine ⟨by decide, by decide, ?_, by rfl, ⟨?_, ?_, trivial⟩⟩
  · -- props of the S : typ then the list option a
    refine Replays.typ _ _ (by decide) ?_ (Replays.list _ _ _ (by decide) (by simp) Replays.nil)
    intro kv hkv
    simp at hkv
    subst hkv
    refine ⟨[.bool false, .bool true], by decide +kernel, ?_⟩
    rw [if_neg (by decide)]
    exact ⟨by decide +kernel, fun i h => by cases h⟩
  · -- Q("a").cap(False)
    refine ⟨by decide, by decide, [], [], by rfl, ?_⟩
    refine Replays.feature (s "cap") (.bool false) spCap _ (by decide +kernel) (by decide +kernel) (by simp)
      (Or.inl (by decide +kernel)) ?_ (by decide +kernel) Replays.nil
    intro h; rcases h with h | h <;> exact absurd h (by decide)
  · exact ⟨by decide, by decide, [], [], by rfl, Replays.nil⟩

example : WFS envNone exS := by
  refine ⟨⟨by rfl, by rfl, trivial⟩, by rfl⟩

example : SrcOK exS := by
  have repr : ∀ x : Str, (∀ c ∈ x, isNonPrintable c = false ∨ c = '\n' ∨ c = '\r' ∨ c = '\t') → ReprOK x :=
    fun _ h => h
  refine ⟨by decide, ?_, ⟨by decide, ?_⟩, ⟨by decide, ?_⟩, trivial⟩
  · intro c hc
    simp at hc
    rcases hc with rfl | rfl
    · refine ⟨⟨by decide, by decide, by decide⟩, ?_⟩
      intro kv hkv
      simp at hkv
      subst hkv
      exact ⟨repr _ (by decide), trivial⟩
    · exact ⟨⟨by decide, by decide, by decide⟩, repr _ (by decide)⟩
  · intro c hc
    simp at hc
    subst hc
    exact ⟨⟨by decide, by decide, by decide⟩, trivial⟩
  · intro c hc; simp at hc

example : (toJSON none exS).serializable = true := by decide +kernel


example : CanonJ envNone exS := by
  refine ⟨by decide, by decide, ?_, by decide +kernel, by rfl, ⟨?_, ?_, trivial⟩⟩
  · refine Replays.typ _ _ (by decide) ?_ (Replays.list _ _ _ (by decide) (by simp) Replays.nil)
    intro kv hkv
    simp at hkv
    subst hkv
    refine ⟨[.bool false, .bool true], by decide +kernel, ?_⟩
    rw [if_neg (by decide)]
    exact ⟨by decide +kernel, fun i h => by cases h⟩
  · refine ⟨by decide, by decide, [], [], by rfl, ?_, by decide +kernel⟩
    refine Replays.feature (s "cap") (.bool false) spCap _ (by decide +kernel) (by decide +kernel) (by simp)
      (Or.inl (by decide +kernel)) ?_ (by decide +kernel) Replays.nil
    intro h; rcases h with h | h <;> exact absurd h (by decide)
  · exact ⟨by decide, by decide, [], [], by rfl, Replays.nil, by decide +kernel⟩


end Pyrealb.C12
