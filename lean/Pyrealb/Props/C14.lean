import Pyrealb.Model.Globals
import Pyrealb.Gen.Sites
/-! # C14 — output depends only on expression, language, lexicon; resources not mutated

Property theorems only.  Two kinds of statement:
* non-interference on the footprint model `Model/Globals` for ALL histories (induction over the op list);
* `…_tbl`: facts about the write inventory `Gen/Sites.globalWriteSites`, REGENERATED from `src/pyrealb/*.py` on
  every run — a new write to a global, class attribute, lexicon or rule table anywhere in the library changes
  the generated list and these `decide` proofs no longer check. -/
namespace Pyrealb.C14
open Pyrealb.Globals Pyrealb.Gen.Sites

variable {R E T : Type}

def NoMgmt (ops : List (Op R E)) : Prop := ∀ o ∈ ops, o.isManagement = false

def loadOp (l : Lang) : Op R E := match l with | .en => .loadEn | .fr => .loadFr

/-- what the user sees when realizing `probe` in state `st` -/
def probeOut (P : Params R E T) (st : State R) (probe : E) : Out T := (step P st (.realize probe)).2

/-! ### non-interference (all histories) -/

theorem step_res_unchanged (P : Params R E T) (st : State R) (o : Op R E) (h : o.isManagement = false) :
    (step P st o).1.res = st.res := by
  cases o <;> simp_all [step, Op.isManagement]

theorem step_lang (P : Params R E T) (st : State R) (o : Op R E) :
    (step P st o).1.lang = lastLang st.lang [o] := by
  cases o <;> simp [step, lastLang]

theorem lastLang_cons (l0 : Lang) (o : Op R E) (os : List (Op R E)) :
    lastLang l0 (o :: os) = lastLang (lastLang l0 [o]) os := by
  cases o <;> simp [lastLang]

/-- **C14.a** building and realizing never modifies the lexicons or rule tables: after any history without a
    lexicon-management call the four resources are what they were. -/
def resources_unchanged : Prop :=
  ∀ (R E T : Type) (P : Params R E T) (st : State R) (ops : List (Op R E)),
    NoMgmt ops → (run P st ops).res = st.res

theorem resources_unchanged_holds : resources_unchanged := by
  intro R E T P st ops
  induction ops generalizing st with
  | nil => intro _; rfl
  | cons o os ih =>
    intro h
    have ho : o.isManagement = false := h o (by simp)
    have hos : NoMgmt os := fun o' ho' => h o' (by simp [ho'])
    show (run P (step P st o).1 os).res = st.res
    rw [ih _ hos, step_res_unchanged P st o ho]

/-- the current language after a history is that of the last successful load -/
def lang_is_last_load : Prop :=
  ∀ (R E T : Type) (P : Params R E T) (st : State R) (ops : List (Op R E)),
    (run P st ops).lang = lastLang st.lang ops

theorem lang_is_last_load_holds : lang_is_last_load := by
  intro R E T P st ops
  induction ops generalizing st with
  | nil => rfl
  | cons o os ih =>
    show (run P (step P st o).1 os).lang = _
    rw [ih, step_lang, lastLang_cons st.lang o os]

/-- **C14.b** history independence: the text of a probe realized after ANY history of building, realizing,
    warning, cloning, serializing, oneOf calls and language switches, followed by loading language `l`, is the
    text of the same probe in a fresh process after loading `l`. -/
def probe_history_free : Prop :=
  ∀ (R E T : Type) (P : Params R E T) (r : Res R) (ops : List (Op R E)) (l : Lang) (probe : E),
    NoMgmt ops →
    probeOut P (run P (init r) (ops ++ [loadOp l])) probe = probeOut P (run P (init r) [loadOp l]) probe

theorem run_append (P : Params R E T) (st : State R) (a b : List (Op R E)) :
    run P st (a ++ b) = run P (run P st a) b := by
  induction a generalizing st with
  | nil => rfl
  | cons o os ih => exact ih _

theorem probe_history_free_holds : probe_history_free := by
  intro R E T P r ops l probe h
  have hres : (run P (init r) ops).res = r := resources_unchanged_holds R E T P (init r) ops h
  unfold probeOut
  rw [run_append]
  cases l <;> simp [loadOp, run, step, hres] <;> rfl

/-- **C14.c** and it is unaffected by the counters and the oneOf memory, whatever their values -/
def probe_ignores_counters : Prop :=
  ∀ (R E T : Type) (P : Params R E T) (st : State R) (a b : Nat) (m : List (Nat × List Nat)) (probe : E),
    probeOut P { st with pengNO := a, tauxNO := b, oneOfMem := m } probe = probeOut P st probe

theorem probe_ignores_counters_holds : probe_ignores_counters := by
  intro R E T P st a b m probe
  simp [probeOut, step]

/-- **C14.d** only a lexicon-management call changes a lexicon, and only the named one (or the current one) -/
def management_named_lexicon : Prop :=
  ∀ (R E T : Type) (P : Params R E T) (st : State R) (l : Option Lang) (f : R → R),
    let st' := (step P st (.lexAdd l f)).1
    st'.res.rulesEn = st.res.rulesEn ∧ st'.res.rulesFr = st.res.rulesFr ∧
    (l.getD st.lang = .en → st'.res.lexFr = st.res.lexFr ∧ st'.res.lexEn = f st.res.lexEn) ∧
    (l.getD st.lang = .fr → st'.res.lexEn = st.res.lexEn ∧ st'.res.lexFr = f st.res.lexFr)

theorem management_named_lexicon_holds : management_named_lexicon := by
  intro R E T P st l f
  simp only [step]
  cases h : l.getD st.lang <;> simp [updLex]

/-! ### the write inventory of the source (regenerated on every run) -/

/-- which state component a write site touches; `none` = a write the footprint model does not know -/
def classify (s : WriteSite) : Option Comp :=
  if s.target = "__lexicon.lang" then some .lang
  else if s.target = "Constituent.pengNO" ∨ s.target = "Constituent.tauxNO" then some .counters
  else if s.target.startsWith "pyrealb_oneOf_dict[" then some .oneOfMem
  else if s.target.startsWith "getLexicon()" then some .lexicon
  else none

/-- the functions allowed to write each component -/
def allowedWriter (c : Comp) (func : String) : Bool :=
  match c with
  | .lang => func = "loadEn" ∨ func = "loadFr"
  | .lexicon => func = "addToLexicon" ∨ func = "updateLexicon"
  | .counters => func = "Constituent.initProps" ∨ func = "Phrase.linkProperties" ∨ func = "Dependent.linkProperties"
  | .oneOfMem => func = "oneOf"

/-- **C14.e** every statement of the library that writes a module global, a class attribute, the lexicon
    object or a value obtained from the lexicon/rule accessors is one of the writes of the footprint model, in a
    function allowed to perform it: the lexicons are written only by addToLexicon/updateLexicon, the rule
    tables by nobody, the current language only by loadEn/loadFr; no mutable default argument, no cache. -/
def writes_allowed_tbl : Prop :=
  ∀ s ∈ globalWriteSites, ∃ c, classify s = some c ∧ allowedWriter c s.func = true

theorem writes_allowed_tbl_holds : writes_allowed_tbl := by
  unfold writes_allowed_tbl
  decide +kernel

/-- **C14.f** nothing in the library switches the current language behind the user's back: the only calls of
    `load`/`loadEn`/`loadFr` and of `realize(<language>)` in the source are `load` dispatching to `loadEn`/`loadFr`
    the documented `Constituent.realize(lang)` and `buildLemmataMap(lang)` (both switch to the language they are given). (A warning, a constructor or a realization that called one of
    them would make later output depend on what was warned about or realized before.) -/
def lang_switch_tbl : Prop :=
  ∀ s ∈ langSwitchCalls, s = ("Lexicon.py", "load", "loadEn") ∨ s = ("Lexicon.py", "load", "loadFr") ∨
    s = ("Constituent.py", "Constituent.realize", "load") ∨
    s = ("lemmatize.py", "buildLemmataMap", "load")   -- buildLemmataMap(lang) loads the language it is asked for

theorem lang_switch_tbl_holds : lang_switch_tbl := by
  unfold lang_switch_tbl
  decide +kernel

/-- the components the inventory says are written somewhere are exactly those the model's operations write -/
def modelComps : List Comp := [.counters, .lexicon, .lang, .oneOfMem]

def inventoryComps : List Comp := (globalWriteSites.filterMap classify).eraseDups

def model_writes_agree_tbl : Prop :=
  (∀ c ∈ inventoryComps, c ∈ modelComps) ∧ (∀ c ∈ modelComps, c ∈ inventoryComps)

theorem model_writes_agree_tbl_holds : model_writes_agree_tbl := by
  unfold model_writes_agree_tbl
  decide +kernel

/-- frame property tying `modelComps` to `step`: a non-management op leaves `lang` alone unless it is a load,
    and leaves the resources alone always (see `step_res_unchanged`) -/
theorem step_lang_frame (P : Params R E T) (st : State R) (o : Op R E)
    (h1 : o ≠ .loadEn) (h2 : o ≠ .loadFr) : (step P st o).1.lang = st.lang := by
  cases o <;> simp_all [step]

/-! ### non-vacuity -/
example : NoMgmt ([.loadFr, .build (7 : Nat), .realize 7, .warn 3, .oneOf 1 [0, 2], .loadOther] : List (Op Nat Nat)) := by
  intro o ho; simp at ho; rcases ho with h | h | h | h | h | h <;> subst h <;> rfl
example : globalWriteSites.length ≥ 10 := by decide

end Pyrealb.C14
