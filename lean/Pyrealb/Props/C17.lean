import Pyrealb.Model.DateTables
import Pyrealb.Lemmas.DateCal
import Pyrealb.Lemmas.DateDec
import Pyrealb.Lemmas.DateFormat
/-! # C17 — dates and times show exactly the selected fields with the right values

Property theorems only.  The model (`Model/Date`) mirrors `Terminal.dateFormat`, `Constituent.dOpt/nat/parseDateString`,
the `DT` construction and CPython's `toordinal/weekday`; the tables are the *generated* ones (`Gen/DateRules`, rewritten
from data/rules-en.json / rules-fr.json on every run), so each `_tbl`-style theorem below is re-proved by the kernel
against what the repository says now.

Two kinds of "for all": the calendar clauses and `relative_sign` hold for **all** dates / all day differences
(arithmetic, unbounded); the format-cell clauses are `decide +kernel` over the complete generated tables × all field
subsets × nat × det × all 24 hours (finite, complete).

Clauses the unchanged code violates have `_refuted` (concrete witness) and `_partial` (what is true, stated as an exact
characterisation, hence under the weakest side condition). -/
namespace Pyrealb.C17
open Pyrealb Pyrealb.Date
open Pyrealb.Gen.DateRules

/-! ## C17.a  the calendar: `toordinal` counts days, `weekday` follows it -/

/-- day 1 is 0001-01-01; the next calendar day (across every day, month, year and leap boundary) has the next
    ordinal; the calendar order is the order of the ordinals -/
def toordinal_counts_days : Prop :=
  toordinal ⟨1, 1, 1⟩ = 1 ∧
  (∀ d : Date, d.valid = true → toordinal d.next = toordinal d + 1) ∧
  (∀ a b : Date, a.valid = true → b.valid = true → a.lt b → toordinal a < toordinal b)

theorem toordinal_counts_days_holds : toordinal_counts_days :=
  ⟨by decide, toordinal_next, toordinal_strictMono⟩

/-- 0001-01-01 is a Monday (0); each day's weekday is the successor (mod 7) of the previous day's; and the closed
    form of CPython -/
def weekday_correct : Prop :=
  weekday ⟨1, 1, 1⟩ = 0 ∧
  (∀ d : Date, d.valid = true → weekday d.next = (weekday d + 1) % 7) ∧
  (∀ d : Date, weekday d = (toordinal d + 6) % 7 ∧ weekday d < 7)

theorem weekday_correct_holds : weekday_correct :=
  ⟨by decide, weekday_next, fun d => ⟨rfl, by unfold weekday; omega⟩⟩

/-- the successor used in the two clauses above is a valid date again (so the clauses chain over all days) -/
def next_is_valid : Prop := ∀ d : Date, d.valid = true → d.year < 9999 → d.next.valid = true ∧ d.lt d.next

theorem next_is_valid_holds : next_is_valid := by
  intro d h hy
  refine ⟨next_valid d h hy, ?_⟩
  obtain ⟨_, _, _, _, _, hdm⟩ := (valid_iff d).mp h
  unfold Date.next Date.lt
  by_cases c1 : d.day < daysInMonth d.year d.month
  · simp [c1]
  · by_cases c2 : d.month < 12
    · simp [c1, c2]
    · simp [c1, c2]

-- non-vacuity / tests (concrete instances; not property theorems)
example : (⟨2024, 2, 29⟩ : Date).valid = true ∧ (⟨2024, 2, 29⟩ : Date).next = ⟨2024, 3, 1⟩ := by decide
example : (⟨1900, 2, 29⟩ : Date).valid = false ∧ (⟨1900, 2, 28⟩ : Date).next = ⟨1900, 3, 1⟩ := by decide
example : (⟨2023, 12, 31⟩ : Date).next = ⟨2024, 1, 1⟩ ∧ toordinal ⟨2024, 1, 1⟩ = 738886 := by decide
example : weekday ⟨2015, 1, 1⟩ = 3 ∧ weekday ⟨2000, 1, 1⟩ = 5 := by decide   -- a Thursday, a Saturday

/-! ## C17.b  the placeholders of the selected format are exactly the selected fields -/

inductive Field where
  | year | month | date | day | hour | minute | second
  deriving DecidableEq, Repr

/-- which field a placeholder displays (`[A]`, the meridiem, belongs to the hour) -/
def fieldOf : Ph → Field
  | .Y => .year
  | .F | .M0 | .M => .month
  | .d0 | .d => .date
  | .l => .day
  | .h | .H0 | .H | .A => .hour
  | .m0 | .m => .minute
  | .s0 | .s => .second

/-- the fields displayed by a format; `none` when it contains an undefined placeholder -/
def fieldsOfKeys : List Str → Option (List Field)
  | [] => some []
  | k :: ks =>
    match lookup k phTable, fieldsOfKeys ks with
    | some p, some fs => some (fieldOf p :: fs)
    | _, _ => none

def fieldsOfFmt (fmt : Str) : Option (List Field) := fieldsOfKeys (placeholders fmt)

def sameSet (a b : List Field) : Bool := a.all (b.contains ·) && b.all (a.contains ·)

def selected : List (Field × Bool) → List Field
  | [] => []
  | (f, b) :: r => if b then f :: selected r else selected r

def dateSel (o : DOpts) : List Field := selected [(.year, o.year), (.month, o.month), (.date, o.date), (.day, o.day)]
def timeSel (o : DOpts) : List Field := selected [(.hour, o.hour), (.minute, o.minute), (.second, o.second)]

/-- the format selected for `key` exists (also after the `det` treatment), has only defined placeholders, and these
    display exactly the fields `want` -/
def cellExact (r : DateRules) (nat det : Bool) (key : Str) (want : List Field) : Bool :=
  match selectFmt r nat det key with
  | .ok fmt =>
    (match fieldsOfFmt fmt with
     | some fs => sameSet fs want
     | none => false)
  | .error _ => false

/-- **C17.b** for every non-empty subset of the date fields and every non-empty subset of the time fields, in both
    languages, natural or not, with or without determiner -/
def fields_exact : Prop :=
  ∀ (lang : Lang) (o : DOpts),
    (dateSel o ≠ [] → cellExact (rulesOf lang) o.nat o.det (dateKey o) (dateSel o) = true) ∧
    (timeSel o ≠ [] → cellExact (rulesOf lang) o.nat o.det (timeKey0 o) (timeSel o) = true)

def mkOpts (y m d w H Mi S nat det : Bool) : DOpts :=
  { year := y, month := m, date := d, day := w, hour := H, minute := Mi, second := S, nat := nat, det := det, rtime := .off }

/-- the five date-field subsets without a format: month-day, year-day, year-date, year-date-day, year-month-day -/
def dateSubsetMissing (y m d w : Bool) : Bool :=
  [(false, true, false, true), (true, false, false, true),
   (true, false, true, false), (true, false, true, true), (true, true, false, true)].contains (y, m, d, w)

/-- the date cells that are right: all those that are present (same in both languages and styles) -/
def dateCellGood (_lang : Lang) (o : DOpts) : Bool :=
  !dateSubsetMissing o.year o.month o.date o.day

/-- the time cells that are right: all but `hour:second`, which is absent -/
def timeCellGood (_lang : Lang) (o : DOpts) : Bool :=
  !(o.hour && !o.minute && o.second)

theorem fields_exact_refuted : ¬ fields_exact := by
  intro h
  have := (h .en (mkOpts true false true false true true true true true)).1 (by decide)
  revert this; decide +kernel

theorem fields_exact_tbl :
    ∀ (lang : Lang) (y m d w H Mi S nat det : Bool),
      (dateSel (mkOpts y m d w H Mi S nat det) ≠ [] →
        cellExact (rulesOf lang) nat det (dateKey (mkOpts y m d w H Mi S nat det)) (dateSel (mkOpts y m d w H Mi S nat det))
          = dateCellGood lang (mkOpts y m d w H Mi S nat det)) ∧
      (timeSel (mkOpts y m d w H Mi S nat det) ≠ [] →
        cellExact (rulesOf lang) nat det (timeKey0 (mkOpts y m d w H Mi S nat det)) (timeSel (mkOpts y m d w H Mi S nat det))
          = timeCellGood lang (mkOpts y m d w H Mi S nat det)) := by
  decide +kernel

/-- exact characterisation (hence the weakest side condition): a selected cell is right iff it is not one of the
    listed ones -/
theorem fields_exact_partial :
    ∀ (lang : Lang) (o : DOpts),
      (dateSel o ≠ [] → cellExact (rulesOf lang) o.nat o.det (dateKey o) (dateSel o) = dateCellGood lang o) ∧
      (timeSel o ≠ [] → cellExact (rulesOf lang) o.nat o.det (timeKey0 o) (timeSel o) = timeCellGood lang o) := by
  intro lang o
  obtain ⟨y, m, d, w, H, Mi, S, nat, det, rt⟩ := o
  exact fields_exact_tbl lang y m d w H Mi S nat det

-- non-vacuity: a full selection is a right cell in all four tables
example : ∀ lang nat det, dateCellGood lang (mkOpts true true true true true true true nat det) = true ∧
    timeCellGood lang (mkOpts true true true true true true true nat det) = true := by decide

/-! ## C17.c  12-hour clock 1..12 with the right meridiem in English, 24-hour clock in French -/

def clock12h (h : Nat) : Nat := if h % 12 = 0 then 12 else h % 12

def isHourNumber : Ph → Bool
  | .h | .H | .H0 => true
  | _ => false

def phsOf (fmt : Str) : List Ph := (placeholders fmt).filterMap (lookup · phTable)

def mentionsHour (fmt : Str) : Bool := (phsOf fmt).any (fun p => fieldOf p == .hour)

/-- the texts a format prints for the hour number(s) and for the meridiem -/
def hourShown (r : DateRules) (dt : DateTime) (fmt : Str) : List (Option Str) × List (Option Str) :=
  (((phsOf fmt).filter isHourNumber).map (fun p => (value r dt p).toOption),
   ((phsOf fmt).filter (· == .A)).map (fun p => (value r dt p).toOption))

def am : Str := ['a', '.', 'm', '.']
def pm : Str := ['p', '.', 'm', '.']

/-- English: one hour number, `clock12h hour` (padded or not), and one meridiem word, a.m. before noon;
    French: one hour number, the hour itself (padded or not), no meridiem -/
def clockOK (lang : Lang) (dt : DateTime) (fmt : Str) : Bool :=
  let hs := hourShown (rulesOf lang) dt fmt
  match lang with
  | .en => (hs.1 == [some (dec (clock12h dt.hour))] || hs.1 == [some (pad2 (clock12h dt.hour))]) &&
           hs.2 == [some (if dt.hour < 12 then am else pm)]
  | .fr => (hs.1 == [some (dec dt.hour)] || hs.1 == [some (pad2 dt.hour)]) && hs.2 == []

def tableOf (lang : Lang) (nat : Bool) : List (Str × Str) :=
  if nat then (rulesOf lang).natural else (rulesOf lang).nonNatural

/-- **C17.c** every format cell that displays the hour, at every hour -/
def clock12 : Prop :=
  ∀ (lang : Lang) (nat : Bool) (kv : Str × Str), kv ∈ tableOf lang nat → mentionsHour kv.2 = true →
    ∀ dt : DateTime, dt.hour < 24 → clockOK lang dt kv.2 = true

def canon (h : Nat) : DateTime := { year := 2015, month := 7, day := 23, hour := h, minute := 25, second := 45 }

theorem value_hour_congr (r : DateRules) (dt dt' : DateTime) (hh : dt.hour = dt'.hour) (p : Ph)
    (hp : isHourNumber p = true ∨ p = .A) : value r dt p = value r dt' p := by
  rcases hp with hp | rfl
  · cases p <;> simp [isHourNumber] at hp <;> simp [value, hh]
  · simp [value, hh]

theorem clockOK_congr (lang : Lang) (dt dt' : DateTime) (hh : dt.hour = dt'.hour) (fmt : Str) :
    clockOK lang dt fmt = clockOK lang dt' fmt := by
  have h1 : hourShown (rulesOf lang) dt fmt = hourShown (rulesOf lang) dt' fmt := by
    unfold hourShown
    congr 1
    · apply List.map_congr_left
      intro p hp
      rw [value_hour_congr _ dt dt' hh p (Or.inl (List.mem_filter.mp hp).2)]
    · apply List.map_congr_left
      intro p hp
      have : p = .A := by simpa using (List.mem_filter.mp hp).2
      rw [value_hour_congr _ dt dt' hh p (Or.inr this)]
  unfold clockOK
  rw [h1, hh]

theorem clock12_tbl :
    ∀ (lang : Lang) (nat : Bool), ∀ kv ∈ tableOf lang nat, mentionsHour kv.2 = true →
      ∀ h : Fin 24, clockOK lang (canon h.val) kv.2 = true := by
  decide +kernel

/-- all 24 hours, every cell of the four generated tables that displays the hour, every instant -/
theorem clock12_holds : clock12 := by
  intro lang nat kv hkv hm dt hh
  rw [clockOK_congr lang dt (canon dt.hour) rfl]
  exact clock12_tbl lang nat kv hkv hm ⟨dt.hour, hh⟩

-- non-vacuity: cells displaying the hour exist in every table; 12:30 is "12", "p.m." (tests)
example : ∀ lang nat, (tableOf lang nat).any (fun kv => mentionsHour kv.2) = true := by decide +kernel
example : hourShown rulesEn (canon 12) ['a','t',' ','[','h',']',':','[','m','0',']',' ','[','A',']'] =
    ([some ['1','2']], [some pm]) := by decide +kernel
example : clock12h 0 = 12 ∧ clock12h 12 = 12 ∧ clock12h 13 = 1 ∧ clock12h 23 = 11 := by decide

/-! ## C17.c'  the fields appear in the language's conventional order -/

/-- position of a placeholder in the conventional order of a language: English weekday, month, day of month, year;
    French weekday, day of month, month, year; then hour, minute, second and (last) the meridiem -/
def rankOf : Lang → Ph → Nat
  | _, .l => 0
  | .en, .F | .en, .M | .en, .M0 => 1
  | .en, .d | .en, .d0 => 2
  | .fr, .d | .fr, .d0 => 1
  | .fr, .F | .fr, .M | .fr, .M0 => 2
  | _, .Y => 3
  | _, .h | _, .H | _, .H0 => 4
  | _, .m | _, .m0 => 5
  | _, .s | _, .s0 => 6
  | _, .A => 7

def strictlyIncreasing : List Nat → Bool
  | a :: b :: r => decide (a < b) && strictlyIncreasing (b :: r)
  | _ => true

/-- the placeholders of a format follow the conventional order (in particular no field is displayed twice) -/
def inOrder (lang : Lang) (fmt : Str) : Bool := strictlyIncreasing ((phsOf fmt).map (rankOf lang))

/-- **C17.c'** numeric (and named) fields appear in the language's conventional order, in every cell of the four
    tables: a numeric date `a/b` is month/day in English and day/month in French, the year comes last, a time is
    hour, minute, second -/
def conventional_order : Prop :=
  ∀ (lang : Lang) (nat : Bool) (kv : Str × Str), kv ∈ tableOf lang nat → inOrder lang kv.2 = true

theorem numeric_order_tbl : ∀ (lang : Lang) (nat : Bool), ∀ kv ∈ tableOf lang nat, inOrder lang kv.2 = true := by
  decide +kernel

theorem conventional_order_holds : conventional_order := numeric_order_tbl

-- non-vacuity / tests: the convention distinguishes the two languages, and rejects a swapped or repeated field
example : inOrder .fr "[l] [d]/[M]".toList = true ∧ inOrder .fr "[l] [M]/[d]".toList = false := by decide +kernel
example : inOrder .en "[l] [M]/[d]".toList = true ∧ inOrder .en "[l] [d]/[M]".toList = false := by decide +kernel
example : inOrder .en "[m0]:[H0]:[s0] [A]".toList = false ∧ inOrder .fr "[Y]/[M]".toList = false ∧
    inOrder .en "[d] [d]".toList = false := by decide +kernel
example : (tableOf .fr false).any (fun kv => (phsOf kv.2).contains .d && (phsOf kv.2).contains .M) = true ∧
    (tableOf .en false).any (fun kv => (phsOf kv.2).contains .d && (phsOf kv.2).contains .M) = true := by decide +kernel

/-! ## C17.d  noon / midnight wording iff 12:00:00 / 00:00:00 with the three time fields in natural style -/

/-- **C17.d** the key `0h` ("at midnight") is selected exactly at 00:00:00 — and `12h` ("at noon") exactly at
    12:00:00 — when hour, minute and second are all displayed in natural style; these two cells are pure wording and
    exist only in the natural tables -/
def noon_midnight_iff : Prop :=
  (∀ (dt : DateTime) (o : DOpts),
    (timeKey dt o = k0h ↔ (o.nat = true ∧ o.hour = true ∧ o.minute = true ∧ o.second = true ∧
                            dt.hour = 0 ∧ dt.minute = 0 ∧ dt.second = 0)) ∧
    (timeKey dt o = k12h ↔ (o.nat = true ∧ o.hour = true ∧ o.minute = true ∧ o.second = true ∧
                             dt.hour = 12 ∧ dt.minute = 0 ∧ dt.second = 0))) ∧
  (∀ lang : Lang, ∀ k ∈ [k0h, k12h],
    (match lookup k (rulesOf lang).natural with
     | some w => placeholders w == []
     | none => false) = true ∧ lookup k (rulesOf lang).nonNatural = none)

theorem timeKeyC_noon_tbl : ∀ nat H Mi S mz sz h0 h12 : Bool,
    decide (timeKeyC nat H Mi S mz sz h0 h12 = k0h) = (nat && H && Mi && S && mz && sz && h0) ∧
    decide (timeKeyC nat H Mi S mz sz h0 h12 = k12h) = (nat && H && Mi && S && mz && sz && !h0 && h12) := by
  decide +kernel

theorem noon_midnight_iff_holds : noon_midnight_iff := by
  refine ⟨?_, by decide +kernel⟩
  intro dt o
  rw [timeKey_eq]
  have h := timeKeyC_noon_tbl o.nat o.hour o.minute o.second (dt.minute == 0) (dt.second == 0) (dt.hour == 0) (dt.hour == 12)
  constructor
  · refine Iff.trans decide_eq_true_iff.symm ?_
    rw [h.1]
    simp only [Bool.and_eq_true, beq_iff_eq]
    constructor
    · intro ⟨⟨⟨⟨⟨⟨a, b⟩, c⟩, d⟩, e⟩, f⟩, g⟩; exact ⟨a, b, c, d, g, e, f⟩
    · intro ⟨a, b, c, d, e, f, g⟩; exact ⟨⟨⟨⟨⟨⟨a, b⟩, c⟩, d⟩, f⟩, g⟩, e⟩
  · refine Iff.trans decide_eq_true_iff.symm ?_
    rw [h.2]
    simp only [Bool.and_eq_true, beq_iff_eq, Bool.not_eq_true', beq_eq_false_iff_ne]
    constructor
    · intro ⟨⟨⟨⟨⟨⟨⟨a, b⟩, c⟩, d⟩, e⟩, f⟩, _⟩, g⟩; exact ⟨a, b, c, d, g, e, f⟩
    · intro ⟨a, b, c, d, e, f, g⟩; exact ⟨⟨⟨⟨⟨⟨⟨a, b⟩, c⟩, d⟩, f⟩, g⟩, by omega⟩, e⟩

/-- the natural-time simplification leaves out only zero-valued minutes / seconds, and never a coarser field while a
    finer one is displayed -/
def nat_omits_only_zero : Prop :=
  ∀ (dt : DateTime) (o : DOpts),
    timeKey dt o = timeKey0 o ∨
    (o.nat = true ∧ o.hour = true ∧ o.minute = true ∧ dt.minute = 0 ∧ (o.second = true → dt.second = 0) ∧
      (timeKey dt o = kHour ∨ timeKey dt o = k0h ∨ timeKey dt o = k12h)) ∨
    (o.nat = true ∧ o.hour = true ∧ o.minute = true ∧ o.second = true ∧ dt.second = 0 ∧ timeKey dt o = kHM)

theorem timeKeyC_omit_tbl : ∀ nat H Mi S mz sz h0 h12 : Bool,
    (decide (timeKeyC nat H Mi S mz sz h0 h12 = timeKeyC false H Mi S mz sz h0 h12) ||
     (nat && H && Mi && mz && (!S || sz) &&
       (decide (timeKeyC nat H Mi S mz sz h0 h12 = kHour) || decide (timeKeyC nat H Mi S mz sz h0 h12 = k0h) ||
        decide (timeKeyC nat H Mi S mz sz h0 h12 = k12h))) ||
     (nat && H && Mi && S && sz && decide (timeKeyC nat H Mi S mz sz h0 h12 = kHM))) = true := by
  decide +kernel

theorem nat_omits_only_zero_holds : nat_omits_only_zero := by
  intro dt o
  have h0 : timeKey0 o = timeKeyC false o.hour o.minute o.second (dt.minute == 0) (dt.second == 0) (dt.hour == 0) (dt.hour == 12) := by
    simp [timeKey0, timeKeyC]
  rw [timeKey_eq, h0]
  have h := timeKeyC_omit_tbl o.nat o.hour o.minute o.second (dt.minute == 0) (dt.second == 0) (dt.hour == 0) (dt.hour == 12)
  simp only [Bool.or_eq_true, Bool.and_eq_true, decide_eq_true_eq, beq_iff_eq, Bool.not_eq_true'] at h
  rcases h with (h | h) | h
  · exact Or.inl h
  · right; left
    obtain ⟨⟨⟨⟨⟨a, b⟩, c⟩, d⟩, e⟩, f⟩ := h
    refine ⟨a, b, c, d, fun hs => ?_, ?_⟩
    · rcases e with e | e
      · rw [hs] at e; cases e
      · exact e
    · rcases f with (f | f) | f
      · exact Or.inl f
      · exact Or.inr (Or.inl f)
      · exact Or.inr (Or.inr f)
  · right; right
    obtain ⟨⟨⟨⟨⟨a, b⟩, c⟩, d⟩, e⟩, f⟩ := h
    exact ⟨a, b, c, d, e, f⟩

-- non-vacuity / tests
example : timeKey (canon 0) DOpts.default = kHMS := by decide
example : timeKey { (canon 0) with minute := 0, second := 0 } DOpts.default = k0h := by decide
example : timeKey { (canon 12) with minute := 0, second := 0 } DOpts.default = k12h := by decide
example : timeKey { (canon 12) with minute := 0, second := 0 } { DOpts.default with second := false } = kHour := by decide

/-! ## C17.e  relative wording denotes the signed day difference -/

/-- reference weekday names, index = Python `weekday()` (Monday 0) — independent of the rule files -/
def wdName : Lang → Nat → Str
  | .en, 0 => "Monday".toList | .en, 1 => "Tuesday".toList | .en, 2 => "Wednesday".toList | .en, 3 => "Thursday".toList
  | .en, 4 => "Friday".toList | .en, 5 => "Saturday".toList | .en, _ => "Sunday".toList
  | .fr, 0 => "lundi".toList | .fr, 1 => "mardi".toList | .fr, 2 => "mercredi".toList | .fr, 3 => "jeudi".toList
  | .fr, 4 => "vendredi".toList | .fr, 5 => "samedi".toList | .fr, _ => "dimanche".toList

/-- relative phrases of the two languages -/
inductive RelPhrase where
  | today | tomorrow | yesterday | afterTomorrow | beforeYesterday
  /-- the most recent such weekday strictly before the reference day ("last Monday", "lundi dernier") -/
  | last (w : Nat)
  /-- the first such weekday strictly after the reference day ("Monday", "lundi prochain") -/
  | coming (w : Nat)
  | inDays (n : Nat) | daysAgo (n : Nat)
  deriving Repr

/-- signed number of days a phrase denotes, said on a day whose weekday is `refWd` -/
def RelPhrase.meaning (refWd : Int) : RelPhrase → Int
  | .today => 0 | .tomorrow => 1 | .yesterday => -1 | .afterTomorrow => 2 | .beforeYesterday => -2
  | .last w => -(((refWd - w - 1) % 7) + 1)
  | .coming w => ((w - refWd - 1) % 7) + 1
  | .inDays n => n
  | .daysAgo n => -n

/-- reference wording (what an English / French speaker writes) -/
def RelPhrase.text : Lang → RelPhrase → Option Str
  | .en, .today => some "today".toList | .en, .tomorrow => some "tomorrow".toList | .en, .yesterday => some "yesterday".toList
  | .en, .last w => some ("last ".toList ++ wdName .en w) | .en, .coming w => some (wdName .en w)
  | .en, .inDays n => some ("in ".toList ++ dec n ++ " days".toList) | .en, .daysAgo n => some (dec n ++ " days ago".toList)
  | .en, _ => none
  | .fr, .today => some "aujourd'hui".toList | .fr, .tomorrow => some "demain".toList | .fr, .yesterday => some "hier".toList
  | .fr, .afterTomorrow => some "après-demain".toList | .fr, .beforeYesterday => some "avant-hier".toList
  | .fr, .last w => some (wdName .fr w ++ " dernier".toList) | .fr, .coming w => some (wdName .fr w ++ " prochain".toList)
  | .fr, .inDays n => some ("dans ".toList ++ dec n ++ " jours".toList) | .fr, .daysAgo n => some ("il y a ".toList ++ dec n ++ " jours".toList)

/-- **C17.e** for all dates and reference dates (every day difference, unbounded): the relative branch returns the
    reference wording of a phrase whose meaning, said on the reference day, is exactly the signed difference -/
def relative_sign : Prop :=
  ∀ (lang : Lang) (d ref : Date), ∃ (p : RelPhrase) (x : Str),
    relative (rulesOf lang) d ref = .ok x ∧ p.text lang = some x ∧
    p.meaning (weekday ref) = (toordinal d : Int) - (toordinal ref : Int)

/-- the phrase expected for a difference (`wd` = weekday of the date itself) -/
def phraseFor (lang : Lang) (diff : Int) (wd : Nat) : RelPhrase :=
  if diff = 0 then .today else if diff = 1 then .tomorrow else if diff = -1 then .yesterday
  else if lang = .fr ∧ diff = 2 then .afterTomorrow else if lang = .fr ∧ diff = -2 then .beforeYesterday
  else if diff < -6 then .daysAgo diff.natAbs else if 6 < diff then .inDays diff.natAbs
  else if diff < 0 then .last wd else .coming wd

theorem relative_week_tbl : ∀ (lang : Lang), ∀ k ∈ week, ∀ wr : Fin 7,
    (relativeCore (rulesOf lang) k (((wr.val : Int) + k) % 7).toNat).toOption
        = (phraseFor lang k (((wr.val : Int) + k) % 7).toNat).text lang ∧
    ((phraseFor lang k (((wr.val : Int) + k) % 7).toNat).text lang).isSome = true ∧
    (phraseFor lang k (((wr.val : Int) + k) % 7).toNat).meaning wr.val = k := by
  decide +kernel

theorem relative_far_tbl : ∀ (lang : Lang),
    RelKeysWF (rulesOf lang).relative = true ∧
    (∀ sub : Str, (match lookup ['+'] (rulesOf lang).relative with
                   | some t => some (replaceAll ['[','x',']'] sub t)
                   | none => none) = (match lang with
                                      | .en => some ("in ".toList ++ sub ++ " days".toList)
                                      | .fr => some ("dans ".toList ++ sub ++ " jours".toList))) ∧
    (∀ sub : Str, (match lookup ['-'] (rulesOf lang).relative with
                   | some t => some (replaceAll ['[','x',']'] sub t)
                   | none => none) = (match lang with
                                      | .en => some (sub ++ " days ago".toList)
                                      | .fr => some ("il y a ".toList ++ sub ++ " jours".toList))) := by
  intro lang
  cases lang
  · exact ⟨by decide +kernel, fun _ => rfl, fun _ => rfl⟩
  · exact ⟨by decide +kernel, fun _ => rfl, fun _ => rfl⟩

theorem relative_sign_holds : relative_sign := by
  intro lang d ref
  have hsh := weekday_shift d ref
  have hwr : weekday ref < 7 := by unfold weekday; omega
  have hwd : weekday d < 7 := by unfold weekday; omega
  unfold relative
  generalize hdiff : (toordinal d : Int) - (toordinal ref : Int) = diff at *
  by_cases hin : -6 ≤ diff ∧ diff ≤ 6
  · have hmem : diff ∈ week := by
      simp only [week, List.mem_cons, List.not_mem_nil, or_false]; omega
    have hwd' : weekday d = (((weekday ref : Nat) : Int) + diff % 7 % 7).toNat ∨ True := Or.inr trivial
    have e : weekday d = ((((⟨weekday ref, hwr⟩ : Fin 7).val : Int) + diff) % 7).toNat := by
      simp only; omega
    obtain ⟨h1, h2, h3⟩ := relative_week_tbl lang diff hmem ⟨weekday ref, hwr⟩
    rw [← e] at h1 h2 h3
    cases hr : relativeCore (rulesOf lang) diff (weekday d) with
    | error c =>
      rw [hr] at h1
      rw [← h1] at h2
      cases h2
    | ok x =>
      rw [hr] at h1
      exact ⟨phraseFor lang diff (weekday d), x, rfl, h1.symm, h3⟩
  · have hfar : diff < -6 ∨ 6 < diff := by omega
    obtain ⟨hwf, hplus, hminus⟩ := relative_far_tbl lang
    have hnone := lookup_far (rulesOf lang).relative hwf diff hfar
    unfold relativeCore
    rw [hnone]
    simp only [getKey]
    by_cases hneg : diff < 0
    · simp only [hneg, if_true]
      have := hminus (dec diff.natAbs)
      cases hl : lookup ['-'] (rulesOf lang).relative with
      | none => rw [hl] at this; cases lang <;> cases this
      | some t =>
        rw [hl] at this
        refine ⟨.daysAgo diff.natAbs, _, rfl, ?_, ?_⟩
        · cases lang <;> simpa [RelPhrase.text] using this.symm
        · simp only [RelPhrase.meaning]; omega
    · simp only [hneg, if_false]
      have := hplus (dec diff.natAbs)
      cases hl : lookup ['+'] (rulesOf lang).relative with
      | none => rw [hl] at this; cases lang <;> cases this
      | some t =>
        rw [hl] at this
        refine ⟨.inDays diff.natAbs, _, rfl, ?_, ?_⟩
        · cases lang <;> simpa [RelPhrase.text] using this.symm
        · simp only [RelPhrase.meaning]; omega

-- non-vacuity / tests: the documented examples of the English test-suite instant
example : (relative rulesEn ⟨2014, 12, 31⟩ ⟨2015, 1, 1⟩).toOption = some "yesterday".toList := by decide +kernel
example : (relative rulesEn ⟨2014, 12, 22⟩ ⟨2015, 1, 1⟩).toOption = some "10 days ago".toList := by decide +kernel
example : (relative rulesFr ⟨2015, 1, 5⟩ ⟨2015, 1, 1⟩).toOption = some "lundi prochain".toList := by decide +kernel

/-! ## C17.f  `dateFormat` returns a text -/

/-- **C17.f** no exception for any valid instant, any options, any reference day, in both languages -/
def dateFormat_total : Prop :=
  ∀ (lang : Lang) (dt : DateTime) (o : DOpts) (ref : Option Date), dt.valid = true →
    isOk (dateFormat (rulesOf lang) dt o ref) = true

/-- the date part returns: relative time, or a subset that has a format -/
def dateGood (o : DOpts) (hasRef : Bool) : Bool := hasRef || !dateSubsetMissing o.year o.month o.date o.day

/-- the time part returns: every selection but `hour:second` (at every instant, with or without determiner) -/
def timeGood (_lang : Lang) (_dt : DateTime) (o : DOpts) : Bool :=
  !(o.hour && !o.minute && o.second)

theorem dateFormat_total_refuted : ¬ dateFormat_total := by
  intro h
  have := h .en (canon 11) (mkOpts true false true false true true true true true) none (by decide)
  revert this; decide +kernel

theorem tables_wf : ∀ lang : Lang, WFText (rulesOf lang) = true ∧ RelWF (rulesOf lang) = true := by decide +kernel

theorem total_date_tbl : ∀ (lang : Lang) (y m d w nat det : Bool),
    cellOK (rulesOf lang) nat det (dateKey (mkOpts y m d w false false false nat det)) = !dateSubsetMissing y m d w := by
  decide +kernel

theorem total_time_tbl : ∀ (lang : Lang) (H Mi S nat det mz sz h0 h12 : Bool),
    cellOK (rulesOf lang) nat det (timeKeyC nat H Mi S mz sz h0 h12) =
      !(H && !Mi && S) := by
  decide +kernel

/-- exact characterisation of the inputs on which `dateFormat` returns (hence: total under the weakest hypothesis) -/
theorem dateFormat_total_partial :
    ∀ (lang : Lang) (dt : DateTime) (o : DOpts) (ref : Option Date), dt.valid = true →
      isOk (dateFormat (rulesOf lang) dt o ref) = (dateGood o ref.isSome && timeGood lang dt o) := by
  intro lang dt o ref hv
  obtain ⟨hwf, hrel⟩ := tables_wf lang
  rw [dateFormat_isOk _ hwf hrel dt hv, timeKey_eq]
  have ht := total_time_tbl lang o.hour o.minute o.second o.nat o.det (dt.minute == 0) (dt.second == 0) (dt.hour == 0) (dt.hour == 12)
  have hd := total_date_tbl lang o.year o.month o.date o.day o.nat o.det
  have hk : dateKey (mkOpts o.year o.month o.date o.day false false false o.nat o.det) = dateKey o := rfl
  rw [hk] at hd
  rw [ht]
  unfold dateGood timeGood
  cases ref with
  | none => simp only [hd, Option.isSome_none, Bool.false_or]
  | some r => simp only [Option.isSome_some, Bool.true_or]

-- tests: `det:False` on the wording-only cells removes the leading word only; numeric cells keep every field
example : (selectFmt rulesEn true false k12h).toOption = some "noon".toList ∧
    (selectFmt rulesFr true false k0h).toOption = some "minuit".toList ∧
    (selectFmt rulesEn true false kYear).toOption = some "[Y]".toList ∧
    (selectFmt rulesFr false false kHM).toOption = some "[H0]:[m0]".toList := by decide +kernel

-- non-vacuity: the defaults (full date and time) are good at every instant, in both languages
example : ∀ lang dt, dateGood DOpts.default false = true ∧ timeGood lang dt DOpts.default = true := by
  intro lang dt; cases lang <;> simp [dateGood, timeGood, DOpts.default, dateSubsetMissing]

/-! ## C17.g  a realization depends only on the option state at that moment -/

/-- the calls of a history that precede its `k`-th `realize` step -/
def callsBefore : List Step → Nat → List Call
  | [], _ => []
  | .call c :: rest, k => c :: callsBefore rest k
  | .realize :: _, 0 => []
  | .realize :: rest, k + 1 => callsBefore rest k

/-- **C17.g** in any history of option calls and realizations on one `DT` object, the `k`-th realization is the
    realization of a fresh `DT` on which the calls made so far were applied: earlier realizations leave no trace -/
def history_independent : Prop :=
  ∀ (lang : Lang) (lemma : Option Val) (steps : List Step) (k : Nat) (o : Out),
    (runHist (rulesOf lang) (DT.make lemma) steps).1[k]? = some o →
    o = ((callsBefore steps k).foldl DT.call (DT.make lemma)).realize (rulesOf lang)

theorem runHist_get (r : DateRules) (t : DT) (steps : List Step) (k : Nat) (o : Out)
    (h : (runHist r t steps).1[k]? = some o) : o = ((callsBefore steps k).foldl DT.call t).realize r := by
  induction steps generalizing t k with
  | nil => simp [runHist] at h
  | cons st rest ih =>
    cases st with
    | call c => simpa [callsBefore] using ih (t.call c) k h
    | realize =>
      cases k with
      | zero => simp [runHist] at h; simp [callsBefore, h]
      | succ k => simp only [runHist, List.getElem?_cons_succ] at h; simpa [callsBefore] using ih t k h

theorem history_independent_holds : history_independent :=
  fun lang lemma steps k o h => runHist_get (rulesOf lang) (DT.make lemma) steps k o h

-- test: hide the year after a first realization, then realize again
example : ((runHist rulesEn (DT.make (some (.dt (canon 11))))
    [.realize, .call (.dOpt (some [(kYear, .bool false)])), .call (.nat (.bool false)), .realize]).1.map
      (fun o => match o with | .text x => some x | _ => none))
    = [some "on Thursday, July 23, 2015 at 11:25:45 a.m.".toList, some "Thursday 7/23 11:25:45 a.m.".toList] := by
  decide +kernel

/-! ## the Python source is the one the model mirrors (constants lifted by `ast` on every run, after the translator's
    normalisation: iterated / membership-tested list displays = tuple displays, local zero-argument helpers inlined) -/

def source_as_modelled : Prop :=
  pyFmtRE = "(.*?)\\[(.+?)]|(.+$)".toList ∧
  pyIsoRE = "(\\d{4}-\\d{2}-\\d{2})([T ](\\d{2}:\\d{2}:\\d{2}))?".toList ∧
  pyPlaceholders =
    [(['Y'], "str(dateObj.year)".toList),
     (['F'], "dateRule['text']['month'][str(dateObj.month)]".toList),
     (['M','0'], "f'{dateObj.month:02}'".toList),
     (['M'], "str(dateObj.month)".toList),
     (['d','0'], "f'{dateObj.day:02}'".toList),
     (['d'], "str(dateObj.day)".toList),
     (['l'], "dateRule['text']['weekday'][(dateObj.weekday() + 1) % 7]".toList),
     (['A'], "dateRule['text']['meridiem'][0 if dateObj.hour < 12 else 1]".toList),
     (['h'], "str(dateObj.hour % 12 or 12)".toList),
     (['H','0'], "f'{dateObj.hour:02}'".toList),
     (['H'], "str(dateObj.hour)".toList),
     (['m','0'], "f'{dateObj.minute:02}'".toList),
     (['m'], "str(dateObj.minute)".toList),
     (['s','0'], "f'{dateObj.second:02}'".toList),
     (['s'], "str(dateObj.second)".toList)] ∧
  pyPlaceholders.map (·.1) = phTable.map (·.1) ∧
  pyDateFields = [kYear, kMonth, kDate, kDay] ∧
  pyTimeFields = [kHour, kMinute, kSecond] ∧
  pyNatSimplification = ["==hour:minute:second".toList, "=0h".toList, "=12h".toList, "=hour".toList,
                         "=hour:minute".toList, "==hour:minute".toList, "=hour".toList] ∧
  pyStatements =
    ["dateS = interpret('-'.join((field for field in ('year', 'month', 'date', 'day') if dOpts[field])))".toList,
     "dateS = relativeDate[sign].replace('[x]', str(abs(diffDays)))".toList,
     "dateS = relativeDate[str(diffDays)].replace('[l]', dateRule['text']['weekday'][(dateObj.weekday() + 1) % 7])".toList,
     "diffDays = dateObj.toordinal() - dOpts['rtime'].toordinal()".toList,
     "fmt = fmt[fmt.find(' ') + 1:]".toList,
     "fmt = fmt[idx:]".toList,
     "fmt = fmts[fields]".toList,
     "fmts = dateRule['format']['natural' if dOpts['nat'] else 'non_natural']".toList,
     "return ' '.join((s for s in (dateS, timeS) if len(s) > 0))".toList,
     "return ''".toList,
     "return res".toList,
     "sign = '-' if diffDays < 0 else '+'".toList] ∧
  pyConditions =
    ["dOpts['nat']".toList, "len(fields) == 0".toList, "'det' in dOpts and (not dOpts['det'])".toList,
     "idx >= 0".toList, "m[1] is None".toList, "dateObj.hour < 12".toList, "isinstance(dOpts['rtime'], datetime.datetime)".toList,
     "str(diffDays) in relativeDate".toList, "diffDays < 0".toList, "dOpts['nat']".toList,
     "timeFields == 'hour:minute:second'".toList, "m == 0 and s == 0".toList, "h == 0".toList, "h == 12".toList,
     "s == 0".toList, "timeFields == 'hour:minute'".toList, "m == 0".toList] ∧
  pyRealDT = ["self.realization = self.dateFormat(self.date, self.getProp('dOpt'))".toList] ∧
  pyFactoryDT = ["def DT(lemma=None, lang=None)".toList, "return terminal('DT', lemma, lang)".toList] ∧
  pyAllowedKeys = allowedKeys ∧
  pyDefaults = [(kYear, DOpts.default.year), (kMonth, DOpts.default.month), (kDate, DOpts.default.date),
                (kDay, DOpts.default.day), (kHour, DOpts.default.hour), (kMinute, DOpts.default.minute),
                (kSecond, DOpts.default.second), (kNat, DOpts.default.nat), (kDet, DOpts.default.det),
                (kRtime, decide (DOpts.default.rtime ≠ .off))]

theorem source_as_modelled_holds : source_as_modelled := by
  unfold source_as_modelled; decide +kernel

end Pyrealb.C17
