import Pyrealb.Model.LangSites
/-! # C15 — a constituent keeps the language it was created in, even inside the other

Property theorems only.
* `cur_independent`: information-flow lemma for ALL site lists and all resource contents — what a function body
  looks up does not depend on the current language unless one of its sites is of kind `current`.
* `sites_ok_tbl`: over the inventory `Gen/Sites.langSites` REGENERATED from `src/pyrealb/*.py` on every run, every
  lookup/factory call whose language is left to the current language sits in a function of the explicit exempt
  list (definitional defaults, notation converters, lemmatizer, warning sentences) — after the two `fix:` commits
  8586a6a and 92bd809 this includes the sentence-type transformations, beyond the property's scope G₀.  A new current-language lookup anywhere else changes the generated
  list and this `decide` proof no longer checks. -/
namespace Pyrealb.C15
open Pyrealb.LangSites Pyrealb.Gen.Sites

/-- **C15.a** non-interference: if no site of a function body is of kind `current`, its lookups are the same
    whatever language is current (for every content of lexicons and rules, own language and parameter). -/
def cur_independent : Prop :=
  ∀ (V : Type) (look : String → Lang → V) (own par cur₁ cur₂ : Lang) (sites : List Site),
    (∀ s ∈ sites, s.ref ≠ Ref.current) →
    runSites look cur₁ own par sites = runSites look cur₂ own par sites

theorem cur_independent_holds : cur_independent := by
  intro V look own par cur₁ cur₂ sites h
  unfold runSites
  apply List.map_congr_left
  intro s hs
  have := h s hs
  cases hr : s.ref <;> simp_all [resolve]

/-- conversely a `current` site really lets the current language through (the statement is not vacuous) -/
def current_site_leaks : Prop :=
  ∃ (look : String → Lang → Lang) (own par : Lang) (sites : List Site),
    runSites look .en own par sites ≠ runSites look .fr own par sites

theorem current_site_leaks_holds : current_site_leaks :=
  ⟨fun _ l => l, .en, .en, [⟨"getLemma", .current⟩], by decide⟩

/-- **C15.b** self/literal sites use the constituent's own / the stated language -/
def self_site_uses_own : Prop :=
  ∀ (cur own par : Lang), resolve cur own par .self = own ∧ ∀ l, resolve cur own par (.lit l) = l

theorem self_site_uses_own_holds : self_site_uses_own := by
  intro cur own par; exact ⟨rfl, fun _ => rfl⟩

/-- **C15.c** (generated inventory) every site that leaves the language to the current language is in an exempt
    function; in particular none is left in `Terminal.setLemma`, the declension/conjugation code, elision,
    `getTonicPro`, or the constructors of `Phrase`/`Dependent`. -/
def sites_ok_tbl : Prop :=
  (∀ s ∈ langSites, isCurrentKind s.kind = true → isExempt s.func = true) ∧
    derivedOK callGraph exemptFunctions [] derivedExempt = true

theorem sites_ok_tbl_holds : sites_ok_tbl := by
  unfold sites_ok_tbl
  refine ⟨?_, ?_⟩
  · decide +kernel
  · decide +kernel

/-- the certificate check is not vacuous: a helper with a caller outside the exempt functions is rejected, one whose
    only caller is exempt is accepted -/
example : derivedOK [("A.f", "h"), ("B.g", "h")] ["A.f"] [] ["M.h"] = false := by decide +kernel
example : derivedOK [("A.f", "h"), ("M.h", "h")] ["A.f"] [] ["M.h"] = true := by decide +kernel
example : derivedOK [] ["A.f"] [] ["M.h"] = false := by decide +kernel

/-- the functions on the realization path of G₀ named by the property's anchors have no current-language site -/
def g0_functions : List String :=
  ["Terminal.setLemma", "Terminal.decline", "Terminal.real", "TerminalEn.conjugate", "TerminalEn.decline_adj_adv",
   "TerminalFr.conjugate", "TerminalFr.decline_adj_adv", "ConstituentFr.doElision", "ConstituentFr.doElision.isElidableFr",
   "ConstituentEn.doElision", "Constituent.getTonicPro", "Constituent.doFormat", "Phrase.__init__", "Phrase.add",
   "Dependent.__init__", "Phrase.real", "Dependent.real", "Phrase.cpReal", "Dependent.coordReal",
   "PhraseEn.processTyp_verb", "PhraseFr.processTyp_verb", "DependentEn.processTyp_verb", "DependentFr.processTyp_verb",
   "NonTerminalEn.affixHopping", "NonTerminalFr.doPronounPlacement", "Phrase.processTyp", "Dependent.processTyp",
   "Phrase.processInt", "Dependent.processTypInt", "Phrase.passivate", "Dependent.passivate",
   "PhraseEn.tag_question", "DependentEn.tag_question", "PhraseFr.move_object", "DependentFr.move_object"]

def g0_sites_tbl : Prop :=
  ∀ s ∈ langSites, g0_functions.contains s.func = true → isCurrentKind s.kind = false

theorem g0_sites_tbl_holds : g0_sites_tbl := by
  unfold g0_sites_tbl
  decide +kernel

/-- non-vacuity: the inventory really contains sites in those functions -/
example : (langSites.filter (fun s => g0_functions.contains s.func)).length ≥ 15 := by decide +kernel
example : (langSites.filter (fun s => isCurrentKind s.kind)).length ≥ 40 := by decide +kernel

end Pyrealb.C15
