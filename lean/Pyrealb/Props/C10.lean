import Pyrealb.Lemmas.FormatDetok
import Pyrealb.Lemmas.FormatComma
import Pyrealb.Lemmas.FormatStop
import Pyrealb.Lemmas.FormatWrap
import Pyrealb.Lemmas.FormatTablesOK
import Pyrealb.Lemmas.FormatTreeInd
import Pyrealb.Lemmas.FormatBal
import Pyrealb.Lemmas.FormatBalTree
/-! # C10 — surface formatting: capital, final mark, spacing, punctuation and HTML tags

Property theorems only.  The model (`Model/Format`) mirrors `Constituent.doFormat`, `titleCase`, `detokenize`; it is
parametric in the punctuation tables and in Python's case mapping (`CaseMap`).  Theorems are stated for every case map
satisfying an explicit hypothesis (`SpaceOK`, `PunctOK`: proved of the tabulated Python case map in
`Lemmas/FormatTablesOK`) and for token lists / trees of every size.  Clauses the unchanged code violates are
`_refuted` by a concrete witness (replayed on the real code by the harness) and come with a `_partial`. -/
deriving instance DecidableEq for Except

namespace Pyrealb.C10
open Pyrealb Pyrealb.Format

/-! ### spacing -/

/-- **C10.a** the joined text never contains a doubled space (tokens themselves free of doubled spaces) -/
def detok_no_double_space : Prop :=
  ∀ (cm : CaseMap) (cfg : DetokCfg) (toks : List Tok) (x : Str), SpaceOK cm →
    (∀ t ∈ toks, NoDbl t.real) → detokenize cm cfg toks = .ok x → NoDbl x

theorem detok_no_double_space_holds : detok_no_double_space := by
  intro cm cfg toks x hc h hx
  exact (ndb_iff x).mp (detokenize_spaces cm hc cfg toks (fun t ht => (ndb_iff _).mpr (h t ht)) x hx).1

/-- **C10.b** … and never starts with a space -/
def detok_no_leading_space : Prop :=
  ∀ (cm : CaseMap) (cfg : DetokCfg) (toks : List Tok) (x : Str), SpaceOK cm →
    (∀ t ∈ toks, NoDbl t.real) → detokenize cm cfg toks = .ok x → x.head? ≠ some ' '

theorem detok_no_leading_space_holds : detok_no_leading_space := by
  intro cm cfg toks x hc h hx
  exact (detokenize_spaces cm hc cfg toks (fun t ht => (ndb_iff _).mpr (h t ht)) x hx).2

-- non-vacuity: the hypotheses hold of the shipped case map and of a token list with library-spaced signs
example : SpaceOK pyCase := pyCase_spaceOK
example : detokenize pyCase { lang := .en, cap := .absent, top := true, tagged := false }
    [{ real := s "the" }, { real := s " (cat) " }, { real := s "sleeps, " }, { real := s " « now » " }]
    = .ok (s "The (cat) sleeps, « now » . ") := by decide +kernel

/-! ### no space before a comma or a full stop (DESIGN §6 reading: library-inserted spacing, one sign per junction) -/

/-- a word carrying at most one sign attached before it and one after it -/
structure Piece where
  b : Option Str
  w : Str
  /-- sign attached after the word; `true`: it is the closing half of an `en` option -/
  a : Option (Str × Bool)

/-- the token `doFormat` produces for the piece -/
def pieceTok (tb : Tables) (p : Piece) : Except Crash Tok :=
  (match p.b with
    | none => .ok []
    | some x => (getBA tb x).map (·.1)) >>= fun bs =>
  (match p.a with
    | none => .ok []
    | some (x, cl) => (getBA tb x).map (fun q => if cl then q.2 else q.1)) >>= fun as =>
  .ok { real := bs ++ p.w ++ as }

def piecesToks (tb : Tables) : List Piece → Except Crash (List Tok)
  | [] => .ok []
  | p :: r => pieceTok tb p >>= fun t => piecesToks tb r >>= fun l => .ok (t :: l)

/-- a plain word: not empty, no space, not starting with a comma or a full stop -/
def cleanWord (w : Str) : Bool := !w.isEmpty && !w.contains ' ' && !headCS w

/-- a sign of the lexicon other than the space itself -/
def lexSign (tb : Tables) (x : Str) : Bool := (lookup x tb.lex).isSome && !x.contains ' '

def pieceOK (tb : Tables) (p : Piece) : Bool :=
  cleanWord p.w
  && (match p.b with | none => true | some x => lexSign tb x)
  && (match p.a with | none => true | some (x, _) => lexSign tb x)

/-- at most one sign where two words meet -/
def singleJunction : List Piece → Bool
  | p :: q :: r => !(p.a.isSome && q.b.isSome) && singleJunction (q :: r)
  | _ => true

/-- **C10.c** (full clause) a warning-free top-level sentence made of plain words, each junction carrying at most one
    lexicon sign with the spacing of its pc rule, contains no space before a comma or a full stop -/
def no_space_before_comma_or_stop : Prop :=
  ∀ (lang : Lang) (ps : List Piece) (toks : List Tok) (x : Str),
    (∀ p ∈ ps, pieceOK (tablesOf lang) p = true) → singleJunction ps = true →
    piecesToks (tablesOf lang) ps = .ok toks →
    detokenize pyCase { lang := lang, cap := .absent, top := true, tagged := false } toks = .ok x →
    NoSpaceBefore x

def witnessQuote : List Piece :=
  [⟨none, s "the", none⟩, ⟨none, s "cat", none⟩, ⟨some (s "\""), s "sleeps", some (s "\"", true)⟩]

/-- the unchanged code: `S(NP(D("the"),N("cat")),VP(V("sleep")).en('"'))` is `The cat "sleeps" . ` -/
theorem no_space_before_comma_or_stop_refuted : ¬ no_space_before_comma_or_stop := by
  intro h
  have h1 := h .en witnessQuote
    [{ real := s "the" }, { real := s "cat" }, { real := s " \"sleeps\" " }] (s "The cat \"sleeps\" . ")
    (by decide +kernel) (by decide) (by decide +kernel) (by decide +kernel)
  have h2 := (nsb_iff _).mpr h1
  revert h2
  decide +kernel

/-- what holds: tokens free of “space + comma/stop”, no token after the first beginning with a comma or a full stop,
    and — when a full stop is appended — a text that does not end with a space -/
theorem no_space_before_comma_or_stop_partial :
    ∀ (cm : CaseMap) (cfg : DetokCfg) (toks : List Tok) (x : Str), PunctOK cm →
      (∀ t ∈ toks, NoSpaceBefore t.real) → (∀ t ∈ toks.tail, HeadOK t) →
      (∀ body, joinToks cm cfg.lang (decide (cfg.lang = .en ∧ cfg.cap = .tit)) toks = .ok body →
        body.getLast? ≠ some ' ' ∨
        ∃ c, lastVis (upperAt cm body (sepWord cm body).1) = some c ∧ marks.contains c = true) →
      detokenize cm cfg toks = .ok x → NoSpaceBefore x := by
  intro cm cfg toks x hc h hh hend hx
  rw [← nsb_iff]
  have h' : ∀ t ∈ toks, nsb t.real = true := fun t ht => (nsb_iff _).mpr (h t ht)
  unfold detokenize at hx
  split at hx
  · cases hx; rfl
  · cases hj : joinToks cm cfg.lang (decide (cfg.lang = Lang.en ∧ cfg.cap = Cap.tit)) toks with
    | error e => rw [hj] at hx; cases hx
    | ok body =>
      rw [hj] at hx
      simp only [ex_bind_ok, ex_pure] at hx
      cases hx
      have hb : nsb body = true := joinToks_nsb_tail cm hc cfg.lang _ toks h' hh body hj
      have u1 : nsb (upperAt cm body (sepWord cm body).1) = true := by rw [upperAt_nsb cm hc]; exact hb
      unfold finish
      simp only
      split
      · split
        · split
          · split
            · rename_i c hlv
              split
              · exact u1
              · rename_i hm
                apply nsb_append u1 (by decide)
                left
                rcases hend body hj with hl | ⟨c', hc', hm'⟩
                · intro e; exact hl ((upperAt_getLast cm hc body _).mp e)
                · rw [hlv] at hc'; cases hc'; exact absurd hm' hm
            · exact u1
          · exact u1
        · exact hb
      · exact hb

/-! ### final full stop -/

/-- **C10.d** top-level, capitalization not switched off, sentence not wrapped in a tag: a full stop and a space are
    appended exactly when the last visible character `c` (what follows it is spaces and complete tags) is not one of
    `? ! . : ; / ) ] }` -/
def final_stop_iff : Prop :=
  ∀ (cm : CaseMap) (cfg : DetokCfg) (toks : List Tok) (body core : Str) (c : Char) (trail : Str),
    cfg.top = true → (cfg.cap = .absent ∨ cfg.cap = .t ∨ cfg.cap = .tit) → cfg.tagged = false → toks ≠ [] →
    joinToks cm cfg.lang (decide (cfg.lang = .en ∧ cfg.cap = .tit)) toks = .ok body →
    upperAt cm body (sepWord cm body).1 = core ++ c :: trail →
    Trail trail → inAngle false core = false → c ≠ ' ' → c ≠ '<' →
    detokenize cm cfg toks = .ok (core ++ c :: trail ++ (if marks.contains c then [] else ['.', ' ']))

theorem final_stop_iff_holds : final_stop_iff := by
  intro cm cfg toks body core c trail htop hcap htag hne hj hb ht hcore hc1 hc2
  have hlv := lastVis_eq core c trail hcore hc1 hc2 ht
  have hlen : body.length > 0 := by
    cases body with
    | nil => simp [upperAt_nil] at hb
    | cons a r => simp
  unfold detokenize
  cases toks with
  | nil => exact absurd rfl hne
  | cons t r =>
    simp only [hj, ex_bind_ok, ex_pure]
    unfold finish
    simp only [htop, hlen, htag, hb, hlv, true_and, if_true]
    rw [if_pos hcap]
    simp only [Bool.false_eq_true, not_false_eq_true, if_true]
    split <;> simp_all

example : detokenize pyCase { lang := .en, cap := .absent, top := true, tagged := false }
    [{ real := s "the" }, { real := s "<b>cat</b>" }, { real := s "<i>sleeps! </i>" }]
    = .ok (s "The <b>cat</b> <i>sleeps! </i>") := by decide +kernel

/-! ### capital -/

/-- leading material without any word character outside tags -/
inductive NoWord (cm : CaseMap) : Str → Prop where
  | nil : NoWord cm []
  | skip {c : Char} {x : Str} : cm.isWord c = false → c ≠ '<' → NoWord cm x → NoWord cm (c :: x)
  | tag {body x : Str} : body ≠ [] → '>' ∉ body → NoWord cm x → NoWord cm ('<' :: body ++ '>' :: x)

/-- **C10.e** (full clause) the first word character of a top-level sentence is upper-cased -/
def starts_upper : Prop :=
  ∀ (cm : CaseMap) (cfg : DetokCfg) (toks : List Tok) (body pre : Str) (c : Char) (rest : Str),
    cfg.top = true → (cfg.cap = .absent ∨ cfg.cap = .t ∨ cfg.cap = .tit) →
    joinToks cm cfg.lang (decide (cfg.lang = .en ∧ cfg.cap = .tit)) toks = .ok body → toks ≠ [] →
    body = pre ++ c :: rest → NoWord cm pre → cm.isWord c = true → c ≠ '<' →
    ∃ tail, detokenize cm cfg toks = .ok (pre ++ cm.upper c :: tail)

/-- the unchanged code: a leading `-` (from `.b("-")`) is taken for the first letter: `-the cat sleeps. ` -/
theorem starts_upper_refuted : ¬ starts_upper := by
  intro h
  obtain ⟨tail, ht⟩ := h pyCase { lang := .en, cap := .absent, top := true, tagged := false }
    [{ real := s "-the" }, { real := s "cat" }] (s "-the cat") ['-'] 't' (s "he cat")
    rfl (Or.inl rfl) (by decide +kernel) (by decide) (by decide)
    (NoWord.skip (by decide +kernel) (by decide) NoWord.nil) (by decide +kernel) (by decide)
  have : detokenize pyCase { lang := .en, cap := .absent, top := true, tagged := false }
    [{ real := s "-the" }, { real := s "cat" }] = .ok (s "-the cat. ") := by decide +kernel
  rw [this] at ht
  injection ht with ht
  have e : s "-the cat. " = '-' :: 't' :: s "he cat. " := by decide
  rw [e] at ht
  injection ht with _ ht
  injection ht with ht _
  have hu : pyCase.upper 't' = 'T' := by decide +kernel
  rw [hu] at ht
  exact absurd ht (by decide)

/-- what holds: when the leading material consists of characters the regex skips (`[^<\w'-]`, so neither `'` nor
    `-`) and of complete tags -/
theorem starts_upper_partial :
    ∀ (cm : CaseMap) (cfg : DetokCfg) (toks : List Tok) (body pre : Str) (c : Char) (rest : Str),
      cfg.top = true → (cfg.cap = .absent ∨ cfg.cap = .t ∨ cfg.cap = .tit) →
      joinToks cm cfg.lang (decide (cfg.lang = .en ∧ cfg.cap = .tit)) toks = .ok body → toks ≠ [] →
      body = pre ++ c :: rest → Lead cm pre → cm.isWord c = true → c ≠ '<' →
      ∃ tail, detokenize cm cfg toks = .ok (pre ++ cm.upper c :: tail) := by
  intro cm cfg toks body pre c rest htop hcap hj hne hb hl hw hc
  have hidx := sepWord_idx cm pre c rest hl (by simp [isWordish, hw]) hc
  have hup : upperAt cm body (sepWord cm body).1 = pre ++ cm.upper c :: rest := by
    rw [hb, hidx, upperAt_append]
  have hlen : body.length > 0 := by rw [hb]; simp; omega
  unfold detokenize
  cases toks with
  | nil => exact absurd rfl hne
  | cons t r =>
    simp only [hj, ex_bind_ok, ex_pure]
    unfold finish
    simp only [htop, hlen, hup, true_and, if_true]
    rw [if_pos hcap]
    split
    · split
      · split
        · exact ⟨rest, rfl⟩
        · exact ⟨rest ++ ['.', ' '], by simp⟩
      · exact ⟨rest, rfl⟩
    · exact ⟨rest, rfl⟩

example : Lead pyCase (s " (<b x=\"1\">« ") :=
  .skip (by decide +kernel) (.skip (by decide +kernel) (.tag (body := s "b x=\"1\"") (by decide) (by decide)
    (.skip (by decide +kernel) (.skip (by decide +kernel) .nil))))

/-! ### final mark followed by one space -/

/-- **C10.f** (full clause) a top-level sentence ends with a visible character that is not a space, one space, and
    then at most tags -/
def ends_mark_space : Prop :=
  ∀ (cm : CaseMap) (cfg : DetokCfg) (toks : List Tok) (x : Str), SpaceOK cm →
    cfg.top = true → (cfg.cap = .absent ∨ cfg.cap = .t ∨ cfg.cap = .tit) → cfg.tagged = false →
    (∀ t ∈ toks, NoDbl t.real) → detokenize cm cfg toks = .ok x → x ≠ [] →
    ∃ y m trail, x = y ++ m :: ' ' :: trail ∧ m ≠ ' ' ∧ Trail trail ∧ ' ' ∉ trail

theorem trail_last {t : Str} (h : Trail t) (hne : t ≠ []) : t.getLast? = some ' ' ∨ t.getLast? = some '>' := by
  induction h with
  | nil => exact absurd rfl hne
  | @space x _ ih =>
    cases x with
    | nil => left; rfl
    | cons a r => simpa [List.getLast?_cons_cons] using ih (by simp)
  | @tag body x _ _ _ ih =>
    cases x with
    | nil =>
      right
      rw [show '<' :: body ++ ['>'] = ('<' :: body) ++ ['>'] by simp]
      exact List.getLast?_concat ..
    | cons a r =>
      have := ih (by simp)
      have e : ('<' :: body ++ '>' :: a :: r) = ('<' :: body ++ ['>']) ++ (a :: r) := by simp
      rw [e, List.getLast?_append]
      rcases this with h | h <;> simp [h]

/-- the unchanged code: a verbatim last token ending in a mark (`Q("yes!")`) gets neither full stop nor space -/
theorem ends_mark_space_refuted : ¬ ends_mark_space := by
  intro h
  obtain ⟨y, m, trail, hx, _, ht, _⟩ := h pyCase { lang := .en, cap := .absent, top := true, tagged := false }
    [{ real := s "it" }, { real := s "says" }, { real := s "yes!" }] (s "It says yes!") pyCase_spaceOK rfl (Or.inl rfl) rfl
    (by intro t ht; rw [← ndb_iff]; revert t; decide) (by decide +kernel) (by decide)
  have hl : (s "It says yes!").getLast? = some '!' := by decide
  rw [hx] at hl
  by_cases hne : trail = []
  · subst hne
    have : (y ++ [m, ' ']).getLast? = some ' ' := by simp
    rw [this] at hl; cases hl
  · have e : y ++ m :: ' ' :: trail = (y ++ [m, ' ']) ++ trail := by simp
    rw [e, List.getLast?_append] at hl
    rcases trail_last ht hne with h1 | h1 <;> rw [h1] at hl <;> simp at hl

/-- what holds: when the last visible character is not a terminal/closing mark the sentence ends with `". "` -/
theorem ends_mark_space_partial :
    ∀ (cm : CaseMap) (cfg : DetokCfg) (toks : List Tok) (body : Str) (c : Char),
      cfg.top = true → (cfg.cap = .absent ∨ cfg.cap = .t ∨ cfg.cap = .tit) → cfg.tagged = false → toks ≠ [] →
      joinToks cm cfg.lang (decide (cfg.lang = .en ∧ cfg.cap = .tit)) toks = .ok body → body ≠ [] →
      lastVis (upperAt cm body (sepWord cm body).1) = some c → marks.contains c = false →
      ∃ y, detokenize cm cfg toks = .ok (y ++ ['.', ' ']) := by
  intro cm cfg toks body c htop hcap htag hne hj hb hlv hm
  have hlen : body.length > 0 := by cases body with
    | nil => exact absurd rfl hb
    | cons a r => simp
  unfold detokenize
  cases toks with
  | nil => exact absurd rfl hne
  | cons t r =>
    simp only [hj, ex_bind_ok, ex_pure]
    unfold finish
    simp only [htop, hlen, htag, hlv, hm, true_and, if_true]
    rw [if_pos hcap]
    exact ⟨_, rfl⟩

/-! ### wrapping strings: verbatim, in option order, with the spacing of the pc rule -/

/-- **C10.g** on a non-empty list `doFormat` prefixes the first token with the `en`/`ba` opening strings (last option
    outermost), then the `b` strings, then the opening tags; and suffixes the last token with the closing tags, the `a`
    strings in option order, then the `en` closing strings; the strings are what `getBeforeAfterString` returns
    (`baAll`), the tokens in between are untouched (`wrapAll`), `poss`/`cap` having been applied first; an empty list is returned as it is (`doFormat_nil`) -/
def wrap_verbatim_order : Prop :=
  ∀ (tb : Tables) (cm : CaseMap) (o : Opts) (pre : List Tok → List Tok) (toks : List Tok)
    (as bs es : List (Str × Str)), removeEmpty toks ≠ [] → pre (removeEmpty toks) ≠ [] →
    baAll tb (optList o.a) = .ok as → baAll tb (optList o.b) = .ok bs → baAll tb (ensOf o) = .ok es →
    doFormat tb cm o pre toks =
      .ok (wrapAll (revB es ++ revB bs ++ tagsB (optList o.tags)) (tagsA (optList o.tags) ++ fwdB as ++ fwdA es)
            (capPoss cm o (pre (removeEmpty toks))))

theorem wrap_verbatim_order_holds : wrap_verbatim_order := by
  intro tb cm o pre toks as bs es hre hne ha hb he
  rw [doFormat_ne _ _ _ _ _ hre]
  exact formatCore_eq tb cm o _ hne as bs es ha hb he

example : doFormat tablesEn pyCase { cap := .t, tags := some [(s "b", [])], a := some [s ",", s "!"], en := some [s "("] } id
    [{ real := s "the" }, { real := [] }, { real := s "cat" }]
    = .ok [{ real := s " (<b>The" }, { real := s "cat</b>, ! ) " }] := by decide +kernel

/-- the spacing of a sign: rule `b` + sign + rule `a`, the closing half using `compl` and the rule of the second
    table name (or of the `compl` entry) -/
def SignSpacing (tb : Tables) (sign : Str) (e : PcEntry) : Prop :=
  ∃ rb ∈ tb.punct, ∃ ra ∈ tb.punct,
    getBA tb sign = .ok (rb.2.b ++ sign ++ rb.2.a, ra.2.b ++ (e.compl.getD sign) ++ ra.2.a) ∧
    some rb.1 = e.tab.head?

instance (tb : Tables) (sign : Str) (e : PcEntry) : Decidable (SignSpacing tb sign e) := by
  unfold SignSpacing; infer_instance

/-- **C10.h** every sign of both lexicons (38 today) is wrapped with the spacing of its pc rule and, when it has a
    `compl`, closed by that sign — `decide` over the generated tables -/
def closing_sign_tbl : Prop :=
  ∀ lang : Lang, ∀ se ∈ (tablesOf lang).lex, SignSpacing (tablesOf lang) se.1 se.2

theorem closing_sign_tbl_holds : closing_sign_tbl := by
  intro lang
  cases lang <;> decide +kernel

/-- the usual pairs of opening and closing signs -/
def stdPairs : List (Str × Str) :=
  [(s "(", s ")"), (s "[", s "]"), (s "{", s "}"), (s "«", s "»"), (s "\"", s "\""), (s "'", s "'")]

/-- **C10.i** in both languages an opening sign is closed by the matching sign -/
def matching_closer : Prop :=
  ∀ lang : Lang, ∀ p ∈ stdPairs, ∃ b a, getBA (tablesOf lang) p.1 = .ok (b, a) ∧ p.1 <:+: b ∧ p.2 <:+: a

/-- executable form -/
def closerOK (tb : Tables) (p : Str × Str) : Bool :=
  match getBA tb p.1 with
  | .ok (b, a) => decide (p.1 <:+: b) && decide (p.2 <:+: a)
  | .error _ => false

/-- holds since the French lexicon has `«`/`»` (repository commit 63dee74); `decide` over the generated tables -/
theorem matching_closer_holds : matching_closer := by
  intro lang p hp
  have hall : ∀ lang : Lang, ∀ p ∈ stdPairs, closerOK (tablesOf lang) p = true := by
    intro lang
    cases lang <;> decide +kernel
  have hok := hall lang p hp
  unfold closerOK at hok
  split at hok
  · rename_i b a hg
    simp only [Bool.and_eq_true, decide_eq_true_eq] at hok
    exact ⟨b, a, hg, hok.1, hok.2⟩
  · cases hok

example : getBA (tablesOf .fr) (s "«") = .ok (s " « ", s " » ") := by decide +kernel

/-! ### `cap(True)` -/

/-- **C10.m** `cap(True)` changes nothing but one character of the first token, which it upper-cases: the first
    one after leading `[^<\w'-]` characters and complete tags -/
def cap_only_first_letter : Prop :=
  ∀ (cm : CaseMap) (x : Str), capFirst cm x = x ∨
    ∃ pre c rest, x = pre ++ c :: rest ∧ capFirst cm x = pre ++ cm.upper c :: rest ∧ pre.length = (sepWord cm x).1

/-- holds since `str.capitalize()` was replaced (repository commit 5a97ad4): `USA` stays `USA` -/
theorem cap_only_first_letter_holds : cap_only_first_letter := by
  intro cm x
  unfold capFirst
  generalize (sepWord cm x).1 = i
  by_cases h : i < x.length
  · right
    have hd : x.drop i = x[i] :: x.drop (i + 1) := List.drop_eq_getElem_cons h
    refine ⟨x.take i, x[i], x.drop (i + 1), ?_, ?_, ?_⟩
    · rw [← hd, List.take_append_drop]
    · unfold upperAt; rw [hd]
    · rw [List.length_take]; omega
  · left
    have hd : x.drop i = [] := List.drop_eq_nil_of_le (Nat.le_of_not_lt h)
    unfold upperAt; rw [hd]

example : capFirst pyCase (s "USA") = s "USA" := by decide +kernel
example : capFirst pyCase (s " (<b>the") = s " (<b>The" := by decide +kernel

/-! ### HTML tags (induction over the realization tree: children left to right, then `doFormat`) -/

theorem basOK_nil (tb : Tables) : BasOK tb [] := ⟨[], rfl, by simp⟩

/-- options without signs are well formed as soon as their tags are -/
theorem optsOK_plain (tb : Tables) (o : Opts) (ha : o.a = none) (hb : o.b = none) (he : o.en = none) (hba : o.ba = none)
    (ht : ∀ t ∈ optList o.tags, TagOK t) : OptsOK tb o := by
  refine ⟨ht, ?_, ?_, ?_⟩
  · rw [ha]; exact basOK_nil tb
  · rw [hb]; exact basOK_nil tb
  · simp only [ensOf, he, hba]; exact basOK_nil tb

/-- **C10.j** in the text of any well-formed tree (leaf texts, signs, tag names and attributes free of angle brackets)
    every opening tag is closed by a tag of the same name, innermost first — `cap(True)` and `poss` anywhere -/
def tags_balanced_nested : Prop :=
  ∀ (tb : Tables) (cm : CaseMap) (t : Tree) (toks : List Tok), AngOK cm → t.WF tb →
    t.real tb cm = .ok toks → balCheck (flat toks) = true

theorem tagOK_simple (n : Str) (h1 : n ≠ []) (h2 : AngleFree n) (h3 : ' ' ∉ n) (h4 : n.head? ≠ some '/') :
    TagOK (n, []) := ⟨h1, h2, by simp, h3, h4⟩

/-- holds since `cap(True)` upper-cases one letter outside the tags (repository commit 5a97ad4): mutual induction over
    the tree with the invariant “the scanner leaves the stack of open tags unchanged” -/
theorem tags_balanced_nested_holds : tags_balanced_nested := by
  intro tb cm t toks hcm hwf h
  exact balCheck_of_neutral (Tree.real_neutral tb cm hcm t toks hwf h)

/-- moreover, when `cap(True)` / `poss` sit above tag-free subtrees, the text is derivable in the grammar of
    well-nested tagged texts -/
theorem tags_grammar_holds :
    ∀ (tb : Tables) (cm : CaseMap) (t : Tree) (toks : List Tok), AngOK cm → t.OK tb →
      t.real tb cm = .ok toks → Bal (flat toks) := by
  intro tb cm t toks hcm hok h
  exact Tree.real_bal tb cm hcm t toks hok h

/-- **C10.k** the tags of a constituent enclose exactly the text of its own tokens (after `poss`/`cap`): the signs of
    `b`/`en` stay in front of the opening tags, those of `a`/`en` behind the closing tags -/
def tag_encloses_own_tokens : Prop :=
  ∀ (tb : Tables) (cm : CaseMap) (o : Opts) (l : List Tok) (as bs es : List (Str × Str)), l ≠ [] →
    baAll tb (optList o.a) = .ok as → baAll tb (optList o.b) = .ok bs → baAll tb (ensOf o) = .ok es →
    ∃ out, doFormat tb cm o id l = .ok out ∧
      flat out = (revB es ++ revB bs) ++ tagsB (optList o.tags) ++ flat (capPoss cm o (removeEmpty l))
        ++ tagsA (optList o.tags) ++ (fwdB as ++ fwdA es)

theorem tag_encloses_own_tokens_holds : tag_encloses_own_tokens := by
  intro tb cm o l as bs es hne ha hb he
  have hre := removeEmpty_ne_nil l hne
  refine ⟨_, by rw [doFormat_ne _ _ _ _ _ hre]; exact formatCore_eq tb cm o _ hre as bs es ha hb he, ?_⟩
  rw [flat_wrapAll _ _ _ (capPoss_ne_nil cm o _ hre)]
  simp [List.append_assoc]

/-- **C10.l** (full clause) deleting the tags of the realization gives the text of the same tree realized without its
    `tag` options (token boundaries, hence spaces, aside) -/
def strip_tags_eq_untagged : Prop :=
  ∀ (tb : Tables) (cm : CaseMap) (t : Tree) (toks : List Tok), AngOK cm → t.WF tb →
    t.real tb cm = .ok toks →
    ∃ toks', t.erase.real tb cm = .ok toks' ∧ flat toks' = strip false (flat toks)

def witnessCapEmptyTag : Tree :=
  .node { cap := .t } (.cons (.leaf { real := [] } { tags := some [(s "b", [])] }) (.cons (.leaf { real := s "cats" } {}) .nil))

/-- the repaired code still: `NP(Q("").tag("b"),N("cat").n("p")).cap(True)` is `<b></b> cats` (the capital is looked
    for in the first token, which has no letter), without the tag the empty token is dropped and it is `Cats` -/
theorem strip_tags_eq_untagged_refuted : ¬ strip_tags_eq_untagged := by
  intro h
  have hwf : witnessCapEmptyTag.WF tablesEn := by
    simp only [witnessCapEmptyTag, Tree.WF, Forest.WF, and_true]
    refine ⟨optsOK_plain _ _ rfl rfl rfl rfl (by intro t ht; cases ht), ⟨by decide, optsOK_plain _ _ rfl rfl rfl rfl ?_⟩,
      by decide, optsOK_plain _ _ rfl rfl rfl rfl (by intro t ht; cases ht)⟩
    intro t ht
    simp only [optList, List.mem_singleton] at ht
    subst ht
    exact tagOK_simple _ (by decide) (by decide) (by decide) (by decide)
  obtain ⟨toks', h1, h2⟩ := h tablesEn pyCase witnessCapEmptyTag [{ real := s "<b></b>" }, { real := s "cats" }]
    pyCase_angOK hwf (by decide +kernel)
  have h3 : witnessCapEmptyTag.erase.real tablesEn pyCase = .ok [{ real := s "Cats" }] := by decide +kernel
  rw [h3] at h1
  injection h1 with h1
  subst h1
  revert h2
  decide +kernel

/-- what holds: when `cap(True)` / `poss` sit above tag-free subtrees -/
theorem strip_tags_eq_untagged_partial :
    ∀ (tb : Tables) (cm : CaseMap) (t : Tree) (toks : List Tok), AngOK cm → t.OK tb →
      t.real tb cm = .ok toks →
      ∃ toks', t.erase.real tb cm = .ok toks' ∧ flat toks' = strip false (flat toks) := by
  intro tb cm t toks hcm hok h
  obtain ⟨toks', h1, h2, _, _⟩ := Tree.real_strip tb cm hcm t toks hok h
  exact ⟨toks', h1, h2⟩

/-- non-vacuity: a tree with nested tags, attributes, signs and a capital satisfies the side conditions -/
def sampleTree : Tree :=
  .node { tags := some [(s "p", [(s "id", s "x")])], a := some [s "!"] }
    (.cons (.leaf { real := s "the" } { cap := .t })
      (.cons (.leaf { real := s "cat" } { tags := some [(s "b", [])], en := some [s "("] }) .nil))

example : sampleTree.real tablesEn pyCase =
    .ok [{ real := s "<p id=\"x\">The" }, { real := s " (<b>cat</b>) </p>! " }] := by decide +kernel
example : balCheck (s "<p id=\"x\">The (<b>cat</b>) </p>! ") = true := by decide +kernel
example : sampleTree.erase.real tablesEn pyCase = .ok [{ real := s "The" }, { real := s " (cat) ! " }] := by decide +kernel

end Pyrealb.C10
