import Pyrealb.Lemmas.ClauseFrRank
import Pyrealb.Lemmas.ClauseFrNesting
import Pyrealb.Lemmas.ClauseFrClause
import Pyrealb.Lemmas.ClauseFrFinite
import Pyrealb.Lemmas.ClauseFrDepClause
import Pyrealb.Lemmas.ClauseFrIntPhrase
import Pyrealb.Model.ClauseFrRealize
/-! # C05 — French clause transformations: negation, auxiliaries, clitics, inversion

Property theorems only. The model (`Model/ClauseFr*`) mirrors `doPronounPlacement`, `check_for_t`, `conjugate`,
`processTyp_verb`, `passivate`, `move_object`, in both notations. The position clauses are stated as the CONTRACT
OF `doPronounPlacement` on the flat token list of a clause split at its first verb: for EVERY list of tokens
before it and EVERY list of tokens after it (complements of any number, in any order, pronominalized or not), every
verb (symbolic), every tense and flag. The first verb of the list is the one that carries `neg2` and `lier` in both
pipelines (the auxiliary in a compound tense, the modality / progressive auxiliary otherwise). -/
namespace Pyrealb.C05
open Pyrealb Pyrealb.ClauseFr Pyrealb.Gen.ClauseFr

/-- an object, reflexive or adverbial clitic (by function: case acc/dat/refl, or `y`/`en`) -/
def IsCliticFn : Tok → Prop
  | .pro x _ => x.c = some .acc ∨ x.c = some .dat ∨ x.c = some .refl ∨ x.lemma = yStr ∨ x.lemma = enStr
  | _ => False

/-- the token list is split at its FIRST verb `x`, and no other verb carries a negation -/
structure AtFirstVerb (pre post : List Tok) : Prop where
  pre_noV : ∀ t ∈ pre, t.isV = false
  others_noNeg : ∀ t ∈ pre ++ post, match t with | .v y _ => y.neg2 = none | _ => True

theorem isClitic_fn (c : Tok) (h : c.isClitic = true) : IsCliticFn c := by
  cases c with
  | pro x f =>
    simp only [Tok.isClitic, isCliticPro, Bool.and_eq_true, Bool.or_eq_true, beq_iff_eq] at h
    unfold IsCliticFn
    rcases h.2 with (h1 | h1) | h1
    · cases hc : x.c with
      | none => simp [hc] at h1
      | some c => cases c <;> simp_all [cliticCases, Cas.str]
    · exact Or.inr (Or.inr (Or.inr (Or.inl h1)))
    · exact Or.inr (Or.inr (Or.inr (Or.inr h1)))
  | _ => simp [Tok.isClitic] at h

theorem reflPro_fn (src : VT) : IsCliticFn (reflPro src) := by
  simp [reflPro, IsCliticFn]

theorem noAuxNeg_of (pre post : List Tok) (x : VT) (f : Str) (h : AtFirstVerb pre post)
    (hx : x.neg2 = none ∨ (x.isMod = false ∧ x.isProg = false)) : NoAuxNeg (pre ++ .v x f :: post) := by
  intro t ht
  rcases List.mem_append.mp ht with ht | ht
  · have := h.others_noNeg t (List.mem_append_left _ ht)
    cases t <;> simp_all
  · rcases List.mem_cons.mp ht with rfl | ht
    · exact hx
    · have := h.others_noNeg t (List.mem_append_right _ ht)
      cases t <;> simp_all

/-- the pronouns put next to a verb that carries a (non-infinitive) negation: `ne`, then clitics only -/
theorem prosOf_neg (x : VT) (w : Str) (isR : Bool) (coll : List Tok) (hn : x.neg2 = some w) (hb : x.t ≠ .b)
    (hc : ∀ c ∈ coll, c.isClitic = true) :
    ∃ cs, prosOf x isR none coll = .adv ne :: cs ∧ ∀ c ∈ cs, IsCliticFn c := by
  unfold prosOf prosRaw
  simp only [hn, hb, if_false, List.cons_append, List.nil_append]
  rw [sortPros_ne_cons _ (tableFor_neg x w hn)]
  refine ⟨_, rfl, ?_⟩
  intro c hc'
  rw [sortPros_mem] at hc'
  rcases List.mem_append.mp hc' with h1 | h1
  · split at h1
    · simp only [List.mem_singleton, Option.getD_none] at h1; subst h1; exact reflPro_fn x
    · simp at h1
  · exact isClitic_fn c (hc c h1)

/-! ## ne_position -/

/-- **C05 `ne`**: in the list `doPronounPlacement` returns, `ne` stands immediately before the run of clitics that
    precedes the first verb (the finite verb of the clause), and only clitics stand between them -/
def ne_position : Prop :=
  ∀ (refl : Bool) (pre post : List Tok) (x : VT) (f w : Str) (out : List Tok),
    AtFirstVerb pre post → x.neg2 = some w → x.t ≠ .b →
    placePronouns refl (pre ++ .v x f :: post) = .ok out →
    ∃ cs after, out = pre ++ .adv ne :: cs ++ .v { x with neg2 := none } f :: after ∧ ∀ c ∈ cs, IsCliticFn c

theorem ne_position_holds : ne_position := by
  intro refl pre post x f w out hfv hn hb h
  by_cases haux : x.isMod = true ∨ x.isProg = true
  · -- modality / progressive auxiliary: loop 1 puts `ne` right before it
    obtain ⟨r, hr⟩ := place_aux_shape refl pre post out x f w hfv.pre_noV hn haux h
    exact ⟨[], post.take (if x.lier then 1 else 0) ++ .q w :: r, by rw [hr]; simp, by intro c hc; cases hc⟩
  · have hm : x.isMod = false := by cases h1 : x.isMod <;> simp_all
    have hp : x.isProg = false := by cases h1 : x.isProg <;> simp_all
    rw [place_first_verb refl pre post x f (onlyAuxV_of_noV pre hfv.pre_noV) hp hm
          (noAuxNeg_of pre post x f hfv (Or.inr ⟨hm, hp⟩)), lastProg_of_noV none pre hfv.pre_noV] at h
    cases hr : isReflexive x refl with
    | error e => simp [hr, Except.bind] at h
    | ok isR =>
      simp only [hr, Except.bind, Except.ok.injEq] at h
      obtain ⟨cs, hcs, hall⟩ := prosOf_neg x w isR (collect post).1 hn hb (collect_fst_clitic post)
      refine ⟨cs, pyInsert (if x.lier then 1 else 0) (.q w) (collect post).2, ?_, hall⟩
      rw [← h]
      simp [placedAt, tableFor_neg_ne_ipPos x w hn, hcs, hn, hb]

/-! ## neg2_position_finite -/

/-- **C05 second negative word**: it stands right after the first verb — after at most one more token when that verb is
    hyphen-linked (`lier`: the inverted subject pronoun) -/
def neg2_position_finite : Prop :=
  ∀ (refl : Bool) (pre post : List Tok) (x : VT) (f w : Str) (out : List Tok),
    AtFirstVerb pre post → x.neg2 = some w → x.t ≠ .b →
    placePronouns refl (pre ++ .v x f :: post) = .ok out →
    ∃ before mid after, out = before ++ .v { x with neg2 := none } f :: mid ++ .q w :: after ∧
      mid.length ≤ (if x.lier then 1 else 0) ∧ (∀ t ∈ before, t.isV = false)

theorem noV_of_clitics (cs : List Tok) (h : ∀ c ∈ cs, IsCliticFn c) : ∀ t ∈ cs, t.isV = false := by
  intro t ht
  have := h t ht
  cases t <;> simp_all [IsCliticFn, Tok.isV]

theorem neg2_position_finite_holds : neg2_position_finite := by
  intro refl pre post x f w out hfv hn hb h
  by_cases haux : x.isMod = true ∨ x.isProg = true
  · obtain ⟨r, hr⟩ := place_aux_shape refl pre post out x f w hfv.pre_noV hn haux h
    refine ⟨pre ++ [.adv ne], post.take (if x.lier then 1 else 0), r, by rw [hr]; simp, ?_, ?_⟩
    · split <;> simp [List.length_take] <;> omega
    · intro t ht
      rcases List.mem_append.mp ht with ht | ht
      · exact hfv.pre_noV t ht
      · simp at ht; subst ht; rfl
  · have hm : x.isMod = false := by cases h1 : x.isMod <;> simp_all
    have hp : x.isProg = false := by cases h1 : x.isProg <;> simp_all
    rw [place_first_verb refl pre post x f (onlyAuxV_of_noV pre hfv.pre_noV) hp hm
          (noAuxNeg_of pre post x f hfv (Or.inr ⟨hm, hp⟩)), lastProg_of_noV none pre hfv.pre_noV] at h
    cases hr : isReflexive x refl with
    | error e => simp [hr, Except.bind] at h
    | ok isR =>
      simp only [hr, Except.bind, Except.ok.injEq] at h
      obtain ⟨cs, hcs, hall⟩ := prosOf_neg x w isR (collect post).1 hn hb (collect_fst_clitic post)
      refine ⟨pre ++ .adv ne :: cs, (collect post).2.take (if x.lier then 1 else 0),
              (collect post).2.drop (if x.lier then 1 else 0), ?_, ?_, ?_⟩
      · rw [← h]
        simp [placedAt, tableFor_neg_ne_ipPos x w hn, hcs, hn, hb, pyInsert_split]
      · split <;> simp [List.length_take] <;> omega
      · intro t ht
        rcases List.mem_append.mp ht with ht | ht
        · exact hfv.pre_noV t ht
        · rcases List.mem_cons.mp ht with rfl | ht
          · rfl
          · exact noV_of_clitics cs hall t ht


/-! ## clitic_order -/

/-- the list is split at the verb loop 2 stops at: before it only auxiliaries of modality / progressive (without a
    negation of their own), no negation on a later verb -/
structure AtMainVerb (pre post : List Tok) : Prop where
  pre_aux : ∀ t ∈ pre, match t with
    | .v y _ => (y.isProg = true ∨ y.isMod = true) ∧ y.neg2 = none
    | _ => True
  post_noNeg : ∀ t ∈ post, match t with | .v y _ => y.neg2 = none | _ => True

/-- what the output has between the tokens that preceded the verb and the verb itself -/
def runBeforeVerb (pre out : List Tok) : List Tok := (out.drop pre.length).takeWhile (fun t => !t.isV)

/-- **C05 clitic order**: the pronouns (and negative words) put before the verb are sorted by the rank table
    of NonTerminalFr.py that applies to the verb (`Gen.proclitiqueOrdre*`, current content) — whatever complements
    follow the verb, in whatever order -/
def clitic_order : Prop :=
  ∀ (refl : Bool) (pre post : List Tok) (x : VT) (f : Str) (out : List Tok),
    AtMainVerb pre post → x.isMod = false → x.isProg = false → tableFor x ≠ .ipPos →
    placePronouns refl (pre ++ .v x f :: post) = .ok out →
    SortedBy (rankOf (tableFor x)) (runBeforeVerb pre out)

theorem atMain_onlyAux {pre post : List Tok} (h : AtMainVerb pre post) : OnlyAuxV pre := by
  intro t ht
  have := h.pre_aux t ht
  cases t <;> simp_all

theorem atMain_noAuxNeg {pre post : List Tok} (h : AtMainVerb pre post) (x : VT) (f : Str)
    (hm : x.isMod = false) (hp : x.isProg = false) : NoAuxNeg (pre ++ .v x f :: post) := by
  intro t ht
  rcases List.mem_append.mp ht with ht | ht
  · have := h.pre_aux t ht
    cases t <;> simp_all
  · rcases List.mem_cons.mp ht with rfl | ht
    · exact Or.inr ⟨hm, hp⟩
    · have := h.post_noNeg t ht
      cases t <;> simp_all

theorem prosRaw_noV (x : VT) (isR : Bool) (pg : Option VT) (coll : List Tok) (hc : ∀ c ∈ coll, c.isClitic = true) :
    ∀ t ∈ prosRaw x isR pg coll, t.isV = false := by
  intro t ht
  unfold prosRaw at ht
  rcases List.mem_append.mp ht with ht | ht
  · rcases List.mem_append.mp ht with ht | ht
    · cases hn : x.neg2 <;> simp [hn] at ht
      split at ht <;> simp at ht <;> rcases ht with rfl | rfl <;> rfl
    · split at ht <;> simp at ht
      subst ht; rfl
  · have := hc t ht
    cases t <;> simp_all [Tok.isClitic, Tok.isV]

theorem runBefore_eq (pre pros after : List Tok) (v : Tok) (hv : v.isV = true) (hp : ∀ t ∈ pros, t.isV = false) :
    runBeforeVerb pre (pre ++ pros ++ v :: after) = pros := by
  unfold runBeforeVerb
  rw [List.append_assoc, List.drop_left]
  rw [List.takeWhile_append_of_pos (by intro t ht; simp [hp t ht])]
  simp [List.takeWhile, hv]

/-- closed form of the run before the verb: the sorted `prosOf` -/
theorem runBefore_place (refl : Bool) (pre post : List Tok) (x : VT) (f : Str) (out : List Tok)
    (hfv : AtMainVerb pre post) (hm : x.isMod = false) (hp : x.isProg = false) (htb : tableFor x ≠ .ipPos)
    (h : placePronouns refl (pre ++ .v x f :: post) = .ok out) :
    ∃ isR, isReflexive x refl = .ok isR ∧
      runBeforeVerb pre out = prosOf x isR (lastProg none pre) (collect post).1 := by
  rw [place_first_verb refl pre post x f (atMain_onlyAux hfv) hp hm (atMain_noAuxNeg hfv x f hm hp)] at h
  cases hr : isReflexive x refl with
  | error e => simp [hr, Except.bind] at h
  | ok isR =>
    refine ⟨isR, rfl, ?_⟩
    simp only [hr, Except.bind, Except.ok.injEq] at h
    rw [← h]
    simp only [placedAt, htb, if_false, List.append_assoc, List.singleton_append]
    rw [← List.append_assoc]
    apply runBefore_eq _ _ _ _ rfl
    intro t ht
    unfold prosOf at ht
    rw [sortPros_mem] at ht
    exact prosRaw_noV x isR _ _ (collect_fst_clitic post) t ht

/-- a concrete clause « il lui le donne »: the verb followed by the dative then the accusative pronoun -/
def witnessVerbLex : VerbLex :=
  { lemma := "donner".toList, aux := "av".toList, pat := some ["tdir".toList], hasTab := true, ending := "er".toList,
    p := [some "e".toList, some "es".toList, some "e".toList, some "ons".toList, some "ez".toList, some "ent".toList],
    i := [], f := [], ps := [], c := [], s := [], si := [], ip := [], b := some "er".toList, pr := none, pp := .none }
def witnessV : VT := mkV witnessVerbLex .p
def witnessLui : Tok := .pro { lemma := "lui".toList, c := some .dat, tn := false, pe := 3, n := .s, g := .m } "lui".toList
def witnessLe : Tok := .pro { lemma := "lui".toList, c := some .acc, tn := false, pe := 3, n := .s, g := .m } "le".toList

/-- « il le lui donne »: the à-PP and the direct object are given in the WRONG order and come out sorted — through the
    complete model of both pipelines (a test on one clause; the theorem is `clitic_order_holds`) -/
def ilLuiLe : Spec :=
  { subj := some (.pro false 3 .s .m), verb := witnessVerbLex, t := Tense.p,
    comps := [.pp "à".toList { id := 2, g := .f, n := .s, pro := true }, .dir { id := 1, g := .m, n := .s, pro := true }],
    typ := {} }

example :
    (realizeToks .phrase ilLuiLe).map (fun l => l.map Tok.form)
        = .ok ["il".toList, "le".toList, "lui".toList, "donne".toList] ∧
    (realizeToks .dep ilLuiLe).map (fun l => l.map Tok.form)
        = .ok ["il".toList, "le".toList, "lui".toList, "donne".toList] := by decide

/-- **partial (weakest side condition)**: when what is put before the verb — `ne`, the reflexive pronoun, the clitics
    in the order the complements were given — is already in rank order, the output is in rank order; for ANY
    complements. (On the unchanged code this is also necessary: `clitic_order_now_iff`.) -/
theorem clitic_order_partial :
    ∀ (refl : Bool) (pre post : List Tok) (x : VT) (f : Str) (out : List Tok),
      AtMainVerb pre post → x.isMod = false → x.isProg = false → tableFor x ≠ .ipPos →
      placePronouns refl (pre ++ .v x f :: post) = .ok out →
      (∀ isR, isReflexive x refl = .ok isR →
        SortedBy (rankOf (tableFor x)) (prosRaw x isR (lastProg none pre) (collect post).1)) →
      SortedBy (rankOf (tableFor x)) (runBeforeVerb pre out) := by
  intro refl pre post x f out hfv hm hp htb h hs
  obtain ⟨isR, hr, hrun⟩ := runBefore_place refl pre post x f out hfv hm hp htb h
  rw [hrun]
  unfold prosOf sortPros
  split
  · exact sortBy_sorted _ _
  · exact hs isR hr

/-- on the code as it is (`Gen.sortKeyOnString = false`, re-derived from the source each run) the output is sorted
    exactly when the input order was: the placement never reorders -/
theorem clitic_order_now_iff (hkey : sortKeyOnString = false) :
    ∀ (refl : Bool) (pre post : List Tok) (x : VT) (f : Str) (out : List Tok) (isR : Bool),
      AtMainVerb pre post → x.isMod = false → x.isProg = false → tableFor x ≠ .ipPos →
      placePronouns refl (pre ++ .v x f :: post) = .ok out → isReflexive x refl = .ok isR →
      (SortedBy (rankOf (tableFor x)) (runBeforeVerb pre out) ↔
       SortedBy (rankOf (tableFor x)) (prosRaw x isR (lastProg none pre) (collect post).1)) := by
  intro refl pre post x f out isR hfv hm hp htb h hr
  obtain ⟨isR', hr', hrun⟩ := runBefore_place refl pre post x f out hfv hm hp htb h
  rw [hr] at hr'
  cases hr'
  rw [hrun]
  simp [prosOf, sortPros, hkey]

/-- when the sort key looks the realization up (`Gen.sortKeyOnString`, lifted from NonTerminalFr.py on every run),
    `clitic_order` holds for any complements in any order — by the sort lemma -/
theorem clitic_order_if_key_on_string (hkey : sortKeyOnString = true) : clitic_order := by
  intro refl pre post x f out hfv hm hp htb h
  obtain ⟨isR, _, hrun⟩ := runBefore_place refl pre post x f out hfv hm hp htb h
  rw [hrun]
  simp only [prosOf, sortPros, hkey, if_true]
  exact sortBy_sorted _ _

/-- **C05 clitic order holds** on the repaired code (commit 9374d6f « French clitics are sorted into the canonical
    order »): `Gen.sortKeyOnString = true` is re-derived from the source each run, so this stops compiling if the key
    goes back to the Terminal object -/
theorem clitic_order_holds : clitic_order := clitic_order_if_key_on_string rfl

/-- non-vacuity: the hypotheses of `clitic_order_partial` hold of « il le lui donne » (canonical order) -/
example : SortedBy (rankOf .std) [witnessLe, witnessLui] := by decide

/-! ## neg_infinitive -/

/-- **C05 infinitive**: both negative words stand before an infinitive (and before its clitics) -/
def neg_infinitive : Prop :=
  ∀ (refl : Bool) (pre post : List Tok) (x : VT) (f w : Str) (out : List Tok),
    AtFirstVerb pre post → x.neg2 = some w → x.t = .b →
    placePronouns refl (pre ++ .v x f :: post) = .ok out →
    ∃ cs after, out = pre ++ .adv ne :: .q w :: cs ++ .v x f :: after ∧ ∀ c ∈ cs, IsCliticFn c

def witnessModal : VT := { mkV witnessVerbLex .b with isMod := true, neg2 := some pas }

/-- an infinitive that is a modality / progressive auxiliary is negated like a finite verb: « ne pouvoir pas manger » -/
theorem neg_infinitive_refuted : ¬ neg_infinitive := by
  intro h
  obtain ⟨cs, after, heq, _⟩ := h false [] [.v (mkV witnessVerbLex .b) "manger".toList] witnessModal "pouvoir".toList pas
    [.adv ne, .v { witnessModal with neg2 := none } "pouvoir".toList, .q pas, .v (mkV witnessVerbLex .b) "manger".toList]
    ⟨(by intro t ht; cases ht), (by intro t ht; simp at ht; subst ht; rfl)⟩ rfl rfl rfl
  simp at heq

/-- **partial**: it holds of every infinitive that is not itself a modality / progressive auxiliary, for any
    complements; once the clitic sort is effective (`Gen.sortKeyOnString`), provided the second negative word ranks
    before the clitics in the infinitive table (it does when the key maps it to "pas") -/
theorem neg_infinitive_partial :
    ∀ (refl : Bool) (pre post : List Tok) (x : VT) (f w : Str) (out : List Tok),
      AtFirstVerb pre post → x.neg2 = some w → x.t = .b → x.isMod = false → x.isProg = false →
      (sortKeyOnString = true → ∀ c, IsCliticFn c → rankOf .inf (.q w) ≤ rankOf .inf c) →
      placePronouns refl (pre ++ .v x f :: post) = .ok out →
      ∃ cs after, out = pre ++ .adv ne :: .q w :: cs ++ .v x f :: after ∧ ∀ c ∈ cs, IsCliticFn c := by
  intro refl pre post x f w out hfv hn hb hm hp hrank h
  rw [place_first_verb refl pre post x f (onlyAuxV_of_noV pre hfv.pre_noV) hp hm
        (noAuxNeg_of pre post x f hfv (Or.inr ⟨hm, hp⟩)), lastProg_of_noV none pre hfv.pre_noV] at h
  cases hr : isReflexive x refl with
  | error e => simp [hr, Except.bind] at h
  | ok isR =>
    simp only [hr, Except.bind, Except.ok.injEq] at h
    have htb : tableFor x = .inf := by simp [tableFor, hb]
    -- the raw list is  ne :: q :: rest  with rest made of clitics
    have hrest : ∀ c ∈ (if isR ∧ x.t ≠ .pp then [reflPro x] else []) ++ (collect post).1, IsCliticFn c := by
      intro c hc
      rcases List.mem_append.mp hc with h1 | h1
      · split at h1
        · simp only [List.mem_singleton] at h1; subst h1; exact reflPro_fn x
        · simp at h1
      · exact isClitic_fn c (collect_fst_clitic post c h1)
    have hpros : prosOf x isR none (collect post).1 =
        .adv ne :: .q w :: sortPros .inf ((if isR ∧ x.t ≠ .pp then [reflPro x] else []) ++ (collect post).1) := by
      unfold prosOf prosRaw
      simp only [hn, if_pos hb, htb, List.cons_append, List.nil_append, Option.getD_none]
      rw [sortPros_ne_cons _ neMinimal_tbl.2.2,
          sortPros_cons_min _ _ _ (fun hk b hb' => hrank hk b (hrest b hb'))]
    refine ⟨sortPros .inf ((if isR ∧ x.t ≠ .pp then [reflPro x] else []) ++ (collect post).1), (collect post).2, ?_, ?_⟩
    · rw [← h]
      simp [placedAt, htb, hpros, hn, hb]
    · intro c hc
      rw [sortPros_mem] at hc
      exact hrest c hc

/-! ## imperative_pos_clitics_after -/

/-- **C05 positive imperative**: the clitics the scan reaches stand right after the verb, nothing but clitics -/
def imperative_pos_clitics_after : Prop :=
  ∀ (refl : Bool) (pre post : List Tok) (x : VT) (f : Str) (out : List Tok),
    AtMainVerb pre post → x.isMod = false → x.isProg = false → x.t = .ip → x.neg2 = none →
    placePronouns refl (pre ++ .v x f :: post) = .ok out →
    ∃ run after, out = pre ++ .v x f :: run ++ after ∧ (∀ c ∈ run, IsCliticFn c) ∧
      (∀ c ∈ (collect post).1, c ∈ run)

theorem imperative_pos_clitics_after_holds : imperative_pos_clitics_after := by
  intro refl pre post x f out hfv hm hp ht hn h
  rw [place_first_verb refl pre post x f (atMain_onlyAux hfv) hp hm (atMain_noAuxNeg hfv x f hm hp)] at h
  cases hr : isReflexive x refl with
  | error e => simp [hr, Except.bind] at h
  | ok isR =>
    simp only [hr, Except.bind, Except.ok.injEq] at h
    have htb : tableFor x = .ipPos := by simp [tableFor, ht, hn]
    have hx : ({ x with neg2 := none } : VT) = x := by cases x; simp_all
    have hnb : x.t ≠ .b := by rw [ht]; decide
    refine ⟨prosOf x isR (lastProg none pre) (collect post).1, (collect post).2, ?_, ?_, ?_⟩
    · rw [← h]
      simp only [placedAt, htb, hn, hnb, if_true, if_false, hx]
      simp
    · intro c hc
      unfold prosOf prosRaw at hc
      rw [sortPros_mem] at hc
      simp only [hn, List.nil_append] at hc
      rcases List.mem_append.mp hc with h1 | h1
      · split at h1
        · simp only [List.mem_singleton] at h1; subst h1; exact reflPro_fn _
        · simp at h1
      · exact isClitic_fn c (collect_fst_clitic post c h1)
    · intro c hc
      unfold prosOf prosRaw
      rw [sortPros_mem]
      exact List.mem_append_right _ hc

/-! ## inversion_t_iff (both directions stated separately) -/

def vowels : List Char := "aeiouyàâäéèêëîïôöùûü".toList

/-- **C05 `-t-`, if**: a verb form that ends in a vowel, followed by il / elle / on, gets `-t-` -/
def inversion_t_if : Prop :=
  ∀ (x : VT) (fa : Str) (p : ProT) (fb : Str) (ch : Char) (plain : Bool),
    fa.getLast? = some ch → ch ∈ vowels → fb ∈ tPronouns →
    (checkForT (.v x fa) (.pro p fb) plain).1 = ['t', '-']

theorem vowels_not_dt : ∀ c ∈ vowels, tNotAfter.contains c = false := by decide

theorem inversion_t_if_holds : inversion_t_if := by
  intro x fa p fb ch plain hl hv hp
  have h1 := vowels_not_dt ch hv
  have h2 : tPronouns.contains fb = true := by simpa using hp
  unfold checkForT
  simp only [lastChar?, hl, h1, h2, Bool.not_false, Bool.and_self, if_true]

/-- **C05 `-t-`, only if**: `-t-` is written only between a verb form that does not end in d or t (the code's test,
    which also covers « vainc-t-il ») and il / elle / on -/
def inversion_t_only_if : Prop :=
  ∀ (a b : Tok) (plain : Bool), (checkForT a b plain).1 = ['t', '-'] →
    ∃ x fa p fb ch, a = .v x fa ∧ b = .pro p fb ∧ fa.getLast? = some ch ∧ tNotAfter.contains ch = false ∧ fb ∈ tPronouns

theorem ite_fst_nil {c : Prop} [Decidable c] (a b : Str) :
    (if c then (([] : Str), a) else (([] : Str), b)).1 = [] := by split <;> rfl

theorem inversion_t_only_if_holds : inversion_t_only_if := by
  intro a b plain h
  cases a with
  | v x fa =>
    cases b with
    | pro p fb =>
      unfold checkForT at h
      simp only [lastChar?] at h
      cases hl : fa.getLast? with
      | none => simp only [hl] at h; simp [ite_fst_nil] at h
      | some ch =>
        simp only [hl] at h
        cases h1 : tNotAfter.contains ch <;> cases h2 : tPronouns.contains fb
        · simp only [h1, h2] at h; simp [ite_fst_nil] at h
        · exact ⟨x, fa, p, fb, ch, rfl, rfl, hl, h1, by simpa using h2⟩
        · simp only [h1, h2] at h; simp [ite_fst_nil] at h
        · simp only [h1, h2] at h; simp [ite_fst_nil] at h
    | _ => simp [checkForT, Tok.form] at h
  | _ => simp [checkForT, Tok.form] at h

/-- a form that ends in d or t gets a plain hyphen -/
theorem inversion_dt_plain (x : VT) (fa : Str) (p : ProT) (fb : Str) (ch : Char) (plain : Bool)
    (hl : fa.getLast? = some ch) (hdt : tNotAfter.contains ch = true) :
    (checkForT (.v x fa) (.pro p fb) plain).1 = [] := by
  unfold checkForT
  simp only [lastChar?, hl, hdt]
  simp [ite_fst_nil]

/-- non-vacuity: « mange » + il, « prend » + il -/
example : (checkForT (.v witnessV "mange".toList) (.pro { lemma := je, c := none, tn := false, pe := 3, n := .s, g := .m } "il".toList)).1 = "t-".toList := by decide
example : (checkForT (.v witnessV "prend".toList) (.pro { lemma := je, c := none, tn := false, pe := 3, n := .s, g := .m } "il".toList)).1 = [] := by decide

/-! ## estceque_cases — `move_object` of both notations, for any S / VP element lists -/

def wod : Str := ['w','o','d']

/-- **C05 est-ce que / inversion, constituent notation** (`PhraseFr.move_object`), `si` = index of the subject in the S,
    `vi` = index of the first verb of the VP:
    * a nominal subject with `wod`/`wad`: « est-ce que » before the subject, nothing else moves;
    * a first-person-singular pronoun whose verb is in the present tense and not in the Académie's list:
      « est-ce que » before the subject;
    * any other pronoun subject: it is removed, put right after the first verb, and that verb is hyphen-linked. -/
def estceque_cases_phrase : Prop :=
  (∀ (int : Str) (sel vp : List El) (si : Nat) (a : NPA),
      firstIdx isSubjEl sel = some si → sel[si]? = some (.np a) → (int = wod ∨ int = wadStr) →
      moveObjectPhrase int sel vp = .ok (pyInsert si (.q estCeQue) sel, vp)) ∧
  (∀ (int : Str) (sel vp : List El) (si vi : Nat) (p : ProT) (x : VT),
      firstIdx isSubjEl sel = some si → sel[si]? = some (.pro p) → p.lemma ∉ proLikeNoun →
      sel.any El.isVP = true → firstIdx El.isV vp = some vi → vp[vi]? = some (.v x) →
      (p.pe = 1 ∧ p.n = .s ∧ x.t = .p ∧ x.epe = 1 ∧ x.lex.lemma ∉ academie →
        moveObjectPhrase int sel vp = .ok (pyInsert si (.q estCeQue) sel, vp)) ∧
      (¬ (p.pe = 1 ∧ p.n = .s ∧ x.t = .p ∧ x.epe = 1 ∧ x.lex.lemma ∉ academie) →
        moveObjectPhrase int sel vp =
          .ok (sel.eraseIdx si, pyInsert (vi + 1) (.pro p) (vp.set vi (.v { x with lier := true })))))

theorem estceque_cases_phrase_holds : estceque_cases_phrase := by
  refine ⟨?_, ?_⟩
  · intro int sel vp si a hsi hel hint
    unfold moveObjectPhrase
    simp only [hsi, hel]
    rcases hint with h | h <;> simp [h, wod, wadStr]
  · intro int sel vp si vi p x hsi hel hpl hvp hvi hx
    refine ⟨?_, ?_⟩
    · intro ⟨h1, h2, h3, h4, h5⟩
      unfold moveObjectPhrase
      simp [hsi, hel, hpl, hvp, hvi, hx, h1, h2, h3, h4, h5]
    · intro hnot
      unfold moveObjectPhrase
      simp only [hsi, hel, hpl, hvp, hvi, hx]
      by_cases h12 : p.pe = 1 ∧ p.n = .s
      · have : ¬ (x.t = .p ∧ x.epe = 1 ∧ x.lex.lemma ∉ academie) := fun h => hnot ⟨h12.1, h12.2, h⟩
        simp [h12.1, h12.2, hpl]
        by_cases ha : x.t = .p <;> by_cases hb : x.epe = 1 <;> by_cases hc : x.lex.lemma ∈ academie <;> simp_all
      · simp [h12, hpl]

/-- **dependency notation** (`DependentFr.move_object`), `si` = index of the `subj` dependent, `v` the root verb -/
def estceque_cases_dep : Prop :=
  (∀ (int : Str) (v : VT) (deps : List Dep) (si : Nat) (sd : Dep) (a : NPA),
      firstIdx (fun (d : Dep) => d.rel = .subj) deps = some si → deps[si]? = some sd → sd.t = .np a →
      (int = wod ∨ int = wadStr) →
      moveObjectDep int v deps = (v, { rel := .det, t := .q estCeQue } :: deps)) ∧
  (∀ (int : Str) (v : VT) (deps : List Dep) (si : Nat) (sd : Dep) (p : ProT),
      firstIdx (fun (d : Dep) => d.rel = .subj) deps = some si → deps[si]? = some sd → sd.t = .pro p →
      p.lemma ∉ proLikeNounDep →
      (p.pe = 1 ∧ p.n = .s ∧ v.t = .p ∧ v.epe = 1 ∧ v.lex.lemma ∉ academieDep →
        moveObjectDep int v deps = (v, { rel := .det, t := .q estCeQue } :: deps)) ∧
      (¬ (p.pe = 1 ∧ p.n = .s ∧ v.t = .p ∧ v.epe = 1 ∧ v.lex.lemma ∉ academieDep) →
        moveObjectDep int v deps = ({ v with lier := true }, { rel := .post, t := .pro p } :: deps.eraseIdx si)))

theorem estceque_cases_dep_holds : estceque_cases_dep := by
  refine ⟨?_, ?_⟩
  · intro int v deps si sd a hsi hel ht hint
    unfold moveObjectDep
    simp only [hsi, hel, ht]
    rcases hint with h | h <;> simp [h, wod, wadStr]
  · intro int v deps si sd p hsi hel ht hpl
    refine ⟨?_, ?_⟩
    · intro ⟨h1, h2, h3, h4, h5⟩
      unfold moveObjectDep
      simp [hsi, hel, ht, hpl, h1, h2, h3, h4, h5]
    · intro hnot
      unfold moveObjectDep
      simp only [hsi, hel, ht, hpl]
      simp [hpl]
      intro h1 h2 h3 h4
      exact Classical.byContradiction (fun h5 => hnot ⟨h1, h2, h3, h4, h5⟩)

/-- the two notations use the same Académie list and the same noun-like pronouns (generated from both files) -/
theorem estceque_lists_agree_tbl : academie = academieDep ∧ proLikeNoun = proLikeNounDep := by decide

/-! ## nesting_order, one_finite_verb — the verb chain `processTyp` builds (constituent notation) -/

/-- passive: être (avoir for être) takes the tense (the present subjunctive for an imperative), the verb follows as a
    participle -/
def pasLayer (on : Bool) : List (Str × Tense) → List (Str × Tense)
  | (l, t) :: r => if on then (if l = etre then avoir else etre, if t = .ip then .s else t) :: (l, .pp) :: r else (l, t) :: r
  | [] => []

/-- progressive / modality: the auxiliary takes the tense, the former first verb follows as an infinitive -/
def auxLayer (aux : Option Str) : List (Str × Tense) → List (Str × Tense)
  | (l, t) :: r => match aux with
    | some a => (a, t) :: (l, .b) :: r
    | none => (l, t) :: r
  | [] => []

/-- the declared nesting `[modal] [être en train de] [être + pp] verb`, outermost first, with the tense of each -/
def expectedChain (sp : Spec) : List (Str × Tense) :=
  auxLayer (sp.typ.mod.bind modalLemma)
    (auxLayer (if sp.typ.prog then some progAux else none) (pasLayer sp.typ.pas [(sp.verb.lemma, sp.t)]))

/-- **C05 nesting**: after `processTyp` (passive, progressive, modality, negation) the verbs of the VP are, in order,
    exactly the declared nesting — for every verb, tense, subject and every list of complements -/
def nesting_order : Prop :=
  ∀ (sp : Spec) (sel vp : List El) (e : Str), IntOk sp →
    (∀ m, sp.typ.mod = some m → (modalLemma m).isSome = true) →
    phraseTyped sp = .ok (sel, vp, e) → verbChain vp = expectedChain sp

/-- **C05 one finite verb**: in the declared nesting only the first verb carries the tense of the clause; every other
    verb is an infinitive or a past participle -/
def one_finite_verb : Prop :=
  ∀ (sp : Spec), ∀ lt ∈ (expectedChain sp).tail, lt.2 = .b ∨ lt.2 = .pp

theorem one_finite_verb_holds : one_finite_verb := by
  intro sp lt hlt
  unfold expectedChain at hlt
  cases hp : sp.typ.pas <;> cases hg : sp.typ.prog <;> cases hm : (sp.typ.mod.bind modalLemma) <;>
    simp [hp, hg, hm, pasLayer, auxLayer] at hlt <;> (try (rcases hlt with rfl | rfl | rfl <;> simp)) <;>
    (try (rcases hlt with rfl | rfl <;> simp)) <;> (try (subst hlt; simp))

/-- the VP starts with a verb, and its verbs are `chain` -/
def ChainIs (vp : List El) (chain : List (Str × Tense)) : Prop :=
  ∃ x r, vp = .v x :: r ∧ (x.lex.lemma, x.t) :: verbChain r = chain

theorem compEl_noV (cs : List Comp) : verbChain (cs.map compEl) = [] := by
  induction cs with
  | nil => rfl
  | cons c r ih => cases c <;> (simp only [List.map_cons, compEl]; rw [verbChain_cons_nonV _ _ rfl]; exact ih)

theorem passiveSwap_hasVP (sel vp : List El) (h : sel.any El.isVP = true) :
    (passiveSwap sel vp).2.1.any El.isVP = true := by
  unfold passiveSwap
  cases sel with
  | nil => simp at h
  | cons a r =>
    cases a <;> simp only [List.any_cons, El.isVP, Bool.false_or, Bool.true_or] at h ⊢ <;>
      (split <;> (try split) <;> simp_all [El.isVP])

theorem bind_ok {α β} (x : Except Crash α) (f : α → Except Crash β) (r : β) (h : (x >>= f) = .ok r) :
    ∃ a, x = .ok a ∧ f a = .ok r := by
  cases x with
  | error e => simp [bind, Except.bind] at h
  | ok a => exact ⟨a, rfl, h⟩

theorem stagePas_chain (sp : Spec) (s s' : List El × List El) (c : List (Str × Tense))
    (hvp : s.1.any El.isVP = true) (hc : ChainIs s.2 c) (h : stagePas sp s = .ok s') :
    s'.1.any El.isVP = true ∧ ChainIs s'.2 (pasLayer sp.typ.pas c) := by
  unfold stagePas at h
  obtain ⟨x, rest, hs, hx⟩ := hc
  cases hp : sp.typ.pas with
  | false =>
    simp only [hp, Bool.false_eq_true, if_false, pure, Except.pure, Except.ok.injEq] at h
    subst h
    exact ⟨hvp, ⟨x, rest, hs, by rw [← hx]; simp [pasLayer]⟩⟩
  | true =>
    simp only [hp, if_true, hs] at h
    obtain ⟨y, r', hl, h1, h2, h3⟩ := pas_chain s.1 rest s'.1 s'.2 x hvp h
    refine ⟨?_, ⟨y, r', hl, by rw [← hx]; simp [pasLayer, h1, h2, h3]⟩⟩
    unfold passivatePhrase at h
    simp only [hvp, not_true_eq_false, if_false, bind, Except.bind, pure, Except.pure] at h
    split at h
    · cases h
    · simp only [Except.ok.injEq] at h
      rw [← h]
      exact passiveSwap_hasVP _ _ hvp

theorem stageProg_chain (sp : Spec) (s s' : List El × List El) (c : List (Str × Tense))
    (hvp : s.1.any El.isVP = true) (hc : ChainIs s.2 c) (h : stageProg sp s = .ok s') :
    s'.1.any El.isVP = true ∧ ChainIs s'.2 (auxLayer (if sp.typ.prog then some progAux else none) c) := by
  unfold stageProg at h
  obtain ⟨x, rest, hs, hx⟩ := hc
  cases hp : sp.typ.prog with
  | false =>
    simp only [hp, Bool.false_eq_true, false_and, if_false, pure, Except.pure, Except.ok.injEq] at h
    subst h
    exact ⟨hvp, ⟨x, rest, hs, by rw [← hx]; simp [auxLayer]⟩⟩
  | true =>
    simp only [hp, hvp, and_self, if_true, hs] at h
    cases hr : progPhrase (El.v x :: rest) with
    | error e => simp [hr, Except.map] at h
    | ok l =>
      simp only [hr, Except.map, Except.ok.injEq] at h
      subst h
      obtain ⟨y, r', hl, h1, h2, h3⟩ := prog_chain x rest l hr
      exact ⟨hvp, ⟨y, r', hl, by rw [← hx]; simp [auxLayer, h1, h2, h3]⟩⟩

theorem stageMod_chain (sp : Spec) (s s' : List El × List El) (c : List (Str × Tense))
    (hmod : ∀ m, sp.typ.mod = some m → (modalLemma m).isSome = true)
    (hvp : s.1.any El.isVP = true) (hc : ChainIs s.2 c) (h : stageMod sp s = .ok s') :
    s'.1.any El.isVP = true ∧ ChainIs s'.2 (auxLayer (sp.typ.mod.bind modalLemma) c) := by
  unfold stageMod at h
  obtain ⟨x, rest, hs, hx⟩ := hc
  cases hm : sp.typ.mod with
  | none =>
    simp only [hm, pure, Except.pure, Except.ok.injEq] at h
    subst h
    exact ⟨hvp, ⟨x, rest, hs, by rw [← hx]; simp [auxLayer]⟩⟩
  | some m =>
    obtain ⟨ml, hml⟩ := Option.isSome_iff_exists.mp (hmod m hm)
    simp only [hm, hvp, if_true, hs] at h
    cases hr : modPhrase m (El.v x :: rest) with
    | error e => simp [hr, Except.map] at h
    | ok l =>
      simp only [hr, Except.map, Except.ok.injEq] at h
      subst h
      obtain ⟨y, r', hl, h1, h2, h3⟩ := mod_chain m x rest l ml hml hr
      exact ⟨hvp, ⟨y, r', hl, by rw [← hx]; simp [auxLayer, hml, h1, h2, h3]⟩⟩

theorem stageNeg_chain (sp : Spec) (s : List El × List El) (c : List (Str × Tense)) (hc : ChainIs s.2 c) :
    ChainIs (stageNeg sp s).2 c := by
  unfold stageNeg
  obtain ⟨x, rest, hs, hx⟩ := hc
  cases hn : sp.typ.neg with
  | none => exact ⟨x, rest, hs, hx⟩
  | some nv =>
    simp only
    split
    · refine ⟨{ x with neg2 := some nv.word2 }, rest, ?_, hx⟩
      simp [negPhrase, hs, firstIdx, El.isV]
    · exact ⟨x, rest, hs, hx⟩

theorem nesting_order_holds : nesting_order := by
  intro sp sel vp e hok hmod h
  have hall := h
  unfold phraseTyped at h
  obtain ⟨s1, h1, h⟩ := bind_ok _ _ _ h
  obtain ⟨s2, h2, h⟩ := bind_ok _ _ _ h
  obtain ⟨s3, h3, h⟩ := bind_ok _ _ _ h
  have h0vp : (phraseElems sp).1.any El.isVP = true := by simp [phraseElems, El.isVP]
  have h0 : ChainIs (phraseElems sp).2 [(sp.verb.lemma, sp.t)] :=
    ⟨_, _, rfl, by simp [compEl_noV, Spec.verbT, mkV]⟩
  obtain ⟨hv1, hc1⟩ := stagePas_chain sp _ s1 _ h0vp h0 h1
  obtain ⟨hv2, hc2⟩ := stageProg_chain sp _ s2 _ hv1 hc1 h2
  obtain ⟨_, hc3⟩ := stageMod_chain sp _ s3 _ hmod hv2 hc2 h3
  obtain ⟨x, r, hs, hx⟩ := stageNeg_chain sp s3 _ hc3
  have hch : verbChain (stageNeg sp s3).2 = expectedChain sp := by rw [hs]; exact hx
  cases hint : sp.typ.int with
  | none =>
    simp only [hint, pure, Except.pure, Except.ok.injEq, Prod.mk.injEq] at h
    rw [← h.2.1]; exact hch
  | some i =>
    simp only [hint] at h
    -- the shape of the S and of the VP before the interrogative is processed
    have hs1 := stagePas_selShape sp _ s1 (selShape_elems sp) h1
    have hp1 := stagePas_vpi sp _ s1 (vpi_elems sp) h1
    have hp2 := stageProg_vpi sp _ s2 hp1 h2
    have hp3 := stageMod_vpi sp _ s3 hp2 h3
    have hf2 := stageProg_fst sp _ s2 h2
    have hf3 := stageMod_fst sp _ s3 h3
    have hs3 : SelShape s3.1 := by rw [hf3, hf2]; exact hs1
    have hs4 : SelShape (stageNeg sp s3).1 := by rw [stageNeg_fst]; exact hs3
    have hp4 := stageNeg_vpi sp s3 (selShape_hasVP _ hs3) hp3
    have hsubj : intGroupSubj.contains i = true → ∃ si, firstIdx isSubjEl (stageNeg sp s3).1 = some si := by
      intro hi
      obtain ⟨hp, hsome⟩ := hok i hint hi
      have e1 := stagePas_off sp _ s1 hp h1
      rw [stageNeg_fst, hf3, hf2, e1]
      exact ⟨0, phraseElems_subj sp hsome⟩
    exact (processIntPhrase_inv i _ (expectedChain sp) _ _ sel vp e hs4 ⟨⟨false, hp4⟩, hch⟩ hsubj h).2.2

/-- non-vacuity: « pouvoir être en train d'être mangé » -/
def nestingWitness : Spec :=
  { subj := none, verb := witnessVerbLex, t := Tense.p, comps := [],
    typ := { pas := true, prog := true, mod := some "poss".toList } }
example : expectedChain nestingWitness =
  [("pouvoir".toList, .p), ("être".toList, .b), ("être".toList, .b), ("donner".toList, .pp)] := by decide

/-! ## table facts (re-proved against the repository on every run) -/

/-- the five values `.typ({"mod": …})` accepts each resolve to a modality verb (hypothesis `hmod` of `nesting_order`) -/
theorem mod_values_resolve_tbl :
    ∀ m ∈ ["poss".toList, "perm".toList, "nece".toList, "obli".toList, "will".toList], (modalLemma m).isSome = true := by
  decide

/-- every modality verb of rules-fr.json, « être » and « avoir » have a lexicon entry and a conjugation table -/
theorem aux_verbs_known_tbl :
    (∀ p ∈ modalityVerb, (lookup p.2 auxVerbs).isSome = true) ∧ (lookup etre auxVerbs).isSome = true ∧
      (lookup avoir auxVerbs).isSome = true ∧ (lookup progAux auxVerbs).isSome = true := by decide

/-- `tempsAux` of TerminalFr.conjugate agrees with `compound` of rules-fr.json on the tenses the rules list -/
theorem tempsAux_matches_rules_tbl : ∀ p ∈ compoundRules, lookup p.1 tempsAux = some p.2 := by decide

/-- every compound tense of the code has an auxiliary tense among the 19 tense codes -/
theorem compound_tenses_tbl : ∀ t ∈ compoundList, ((lookup t tempsAux).bind Tense.ofStr).isSome = true := by decide

/-! ## the position clauses on the WHOLE CLAUSE (constituent notation; declarative, exclamative or interrogative)

`IntOk sp` only leaves out `wos` / `was` on a clause without subject or in the passive (there `processInt` deletes the
last element of the S — the VP itself — and no verb is realized at all).

`phraseTyped_inv_any` (`processIntPhrase_inv` for the interrogative) + `pronominalizeVP_esig` + `realVPToks_head` show that `S(subj, VP(V, …)).typ(..)` hands
`doPronounPlacement` a list whose FIRST token is the first token of the first verb, which carries `neg2`; every other
verb token is clean. The contract theorems above then apply with an empty prefix, and the S only puts verb-free
tokens in front. -/

/-- the first verb of the clause inflects (no morphology error), its form is not empty and it is not an infinitive:
    stated on the list of the VP before placement -/
def FirstVerb (Q : VT → Prop) (sp : Spec) : Prop :=
  ∀ sel vp e raw, phraseTyped sp = .ok (sel, vp, e) →
    realVPToks sp.typ.refl (pronominalizeVP vp) = .ok raw →
    ∃ y f tl, raw = .v y f :: tl ∧ f ≠ [] ∧ Q y

def FirstVerbFinite (sp : Spec) : Prop := FirstVerb (fun y => y.t ≠ .b) sp

/-- **C05 `ne`, clause level**: for every clause specification (any subject, verb, tense, complements in any number and
    order, pronominalized or not, passive / progressive / modality / reflexive flags, any interrogative) with a
    negation, the realized clause is `a ++ ne :: clitics ++ verb :: b` with no verb in `a` -/
def ne_position_clause : Prop :=
  ∀ (sp : Spec) (nv : NegV) (toks : List Tok) (e : Str),
    IntOk sp → sp.typ.neg = some nv → FirstVerbFinite sp → phraseToks sp = .ok (toks, e) →
    ∃ a cs x f b, toks = a ++ .adv ne :: cs ++ .v x f :: b ∧ (∀ c ∈ cs, IsCliticFn c) ∧ (∀ t ∈ a, t.isV = false) ∧
      x.neg2 = none

/-- **C05 second negative word, clause level**: …and it is followed by the second negative word — immediately, or
    behind the inverted subject pronoun of an interrogative (at most one token in between; none without `int`) -/
def neg2_position_clause : Prop :=
  ∀ (sp : Spec) (nv : NegV) (toks : List Tok) (e : Str),
    IntOk sp → sp.typ.neg = some nv → nv.word2 ≠ [] → FirstVerbFinite sp → phraseToks sp = .ok (toks, e) →
    ∃ a x f mid b, toks = a ++ .v x f :: mid ++ .q nv.word2 :: b ∧ (∀ t ∈ a, t.isV = false) ∧ mid.length ≤ 1 ∧
      (sp.typ.int = none → mid = [])

theorem tailOk_atFirst (tl : List Tok) (h : ∀ t ∈ tl, TokTailOk t) : AtFirstVerb [] tl :=
  ⟨(by intro t ht; cases ht), (by
    intro t ht
    have := h t (by simpa using ht)
    cases t <;> simp_all [TokTailOk])⟩

/-- the list handed to `doPronounPlacement` by the VP, and the verb-free S prefix -/
theorem phrase_placement_input (Q : VT → Prop) (sp : Spec) (toks : List Tok) (e : Str) (w : Option Str)
    (hok : IntOk sp) (hw : sp.typ.neg.map NegV.word2 = w) (hf : FirstVerb Q sp)
    (h : phraseToks sp = .ok (toks, e)) :
    ∃ pre y f tl placed, (∀ t ∈ pre, t.isV = false) ∧ (∀ t ∈ tl, TokTailOk t) ∧ y.neg2 = w ∧
      (sp.typ.int = none → y.lier = false) ∧
      f ≠ [] ∧ Q y ∧ placePronouns sp.typ.refl (.v y f :: tl) = .ok placed ∧
      toks = removeEmpty (pre ++ placed) := by
  unfold phraseToks at h
  obtain ⟨⟨sel, vp, endS⟩, hty, h⟩ := bindE_ok _ _ _ h
  obtain ⟨hsel, b, hvpi⟩ := phraseTyped_inv_any sp sel vp endS hok hty
  have hb0 : sp.typ.int = none → b = false := by
    intro hi
    obtain ⟨x0, r0, e0, _, l0, _⟩ := (phraseTyped_inv sp sel vp endS hi hty).2.1
    obtain ⟨x1, r1, e1, _, l1, _⟩ := hvpi
    rw [e0] at e1
    cases e1
    rw [← l1, l0]
  simp only at h
  obtain ⟨toks', hreal, h⟩ := bindE_ok _ _ _ h
  simp only [pure, Except.pure, Except.ok.injEq, Prod.mk.injEq] at h
  obtain ⟨rfl, _⟩ := h
  unfold phraseReal at hreal
  obtain ⟨raw, hraw, hreal⟩ := bindE_ok _ _ _ hreal
  obtain ⟨placed, hplaced, hreal⟩ := bindE_ok _ _ _ hreal
  simp only [pure, Except.pure, Except.ok.injEq] at hreal
  -- the first verb
  obtain ⟨y, f, tl, hrawe, hfne, hyt⟩ := hf sel vp endS raw hty hraw
  obtain ⟨x, r, hvpe, hxn, hxl, hr⟩ := vpi_of_esig _ _ vp (pronominalizeVP vp) (pronominalizeVP_esig vp) hvpi
  rw [hvpe] at hraw
  obtain ⟨hd, tl', hrw, htl, hhd⟩ := realVPToks_head sp.typ.refl x r raw hr hraw
  rw [hrawe] at hrw
  simp only [List.cons.injEq] at hrw
  obtain ⟨rfl, rfl⟩ := hrw
  have hy : y.neg2 = w ∧ (sp.typ.int = none → y.lier = false) := by
    rcases hhd with ⟨l, c, hq⟩ | ⟨y', f', hq, h1, h2, _⟩
    · cases hq
    · cases hq; exact ⟨by rw [h1, hxn, hw], fun hi => by rw [h2, hxl, hb0 hi]⟩
  have hfe : (Tok.v y f).form.isEmpty = false := by cases hf' : f <;> simp_all [Tok.form]
  -- the empty realizations removed before placement: none at the head; the tail stays clean
  have hre : removeEmpty raw = .v y f :: tl.filter (fun t => !t.form.isEmpty) := by
    rw [hrawe, removeEmpty_filter _ ⟨.v y f, List.mem_cons_self, hfe⟩]
    simp [List.filter, hfe]
  rw [hre] at hplaced
  obtain ⟨pre, rfl, hpre⟩ := hsel
  rw [flatMap_selToks pre placed (fun e he => (hpre e he).2)] at hreal
  refine ⟨pre.flatMap El.toks, y, f, tl.filter (fun t => !t.form.isEmpty), placed, ?_, ?_, hy.1, hy.2, hfne, hyt,
    hplaced, hreal.symm⟩
  · intro t ht
    obtain ⟨e, he, hte⟩ := List.mem_flatMap.mp ht
    exact elToks_noV e (hpre e he).1 t hte
  · intro t ht
    exact htl t (List.mem_filter.mp ht).1

def nonEmptyB (t : Tok) : Bool := !t.form.isEmpty

theorem filter_noV (l : List Tok) (p : Tok → Bool) (h : ∀ t ∈ l, t.isV = false) : ∀ t ∈ l.filter p, t.isV = false :=
  fun t ht => h t (List.mem_filter.mp ht).1

theorem ne_position_clause_holds : ne_position_clause := by
  intro sp nv toks e hok hneg hf h
  obtain ⟨pre, y, f, tl, placed, hpre, htl, hyn, _, hfne, hyt, hpl, htoks⟩ :=
    phrase_placement_input _ sp toks e (some nv.word2) hok (by simp [hneg]) hf h
  obtain ⟨cs, after, hout, hcs⟩ := ne_position_holds sp.typ.refl [] tl y f nv.word2 placed (tailOk_atFirst tl htl) hyn hyt
    (by simpa using hpl)
  have hfe : (Tok.v { y with neg2 := none } f).form.isEmpty = false := by cases hf' : f <;> simp_all [Tok.form]
  rw [htoks, hout, removeEmpty_filter _ ⟨.adv ne, by simp, by decide⟩]
  refine ⟨pre.filter (fun t => !t.form.isEmpty), cs.filter (fun t => !t.form.isEmpty), { y with neg2 := none }, f,
    after.filter (fun t => !t.form.isEmpty), ?_, ?_, filter_noV _ _ hpre, rfl⟩
  · have hne : (Tok.adv ne).form.isEmpty = false := by decide
    simp [List.filter_append, List.filter_cons, hne, hfe]
  · intro c hc
    exact hcs c (List.mem_filter.mp hc).1

theorem neg2_position_clause_holds : neg2_position_clause := by
  intro sp nv toks e hok hneg hw hf h
  obtain ⟨pre, y, f, tl, placed, hpre, htl, hyn, hyl, hfne, hyt, hpl, htoks⟩ :=
    phrase_placement_input _ sp toks e (some nv.word2) hok (by simp [hneg]) hf h
  obtain ⟨before, mid, after, hout, hmid, hbefore⟩ := neg2_position_finite_holds sp.typ.refl [] tl y f nv.word2 placed
    (tailOk_atFirst tl htl) hyn hyt (by simpa using hpl)
  have hfe : (Tok.v { y with neg2 := none } f).form.isEmpty = false := by cases hf' : f <;> simp_all [Tok.form]
  have hqe : (Tok.q nv.word2).form.isEmpty = false := by cases hw' : nv.word2 <;> simp_all [Tok.form]
  rw [htoks, hout, removeEmpty_filter _ ⟨.q nv.word2, by simp, hqe⟩]
  refine ⟨(pre ++ before).filter (fun t => !t.form.isEmpty), { y with neg2 := none }, f,
    mid.filter (fun t => !t.form.isEmpty), after.filter (fun t => !t.form.isEmpty), ?_, ?_, ?_, ?_⟩
  · simp [List.filter_append, List.filter_cons, hfe, hqe]
  · apply filter_noV
    intro t ht
    rcases List.mem_append.mp ht with ht | ht
    · exact hpre t ht
    · exact hbefore t ht
  · have := List.length_filter_le (fun t : Tok => !t.form.isEmpty) mid
    split at hmid <;> omega
  · intro hi
    rw [hyl hi] at hmid
    cases mid <;> simp_all

/-- executable form of `FirstVerbFinite` -/
def firstVerbFiniteB (sp : Spec) : Bool :=
  match phraseTyped sp with
  | .ok (_, vp, _) =>
    (match realVPToks sp.typ.refl (pronominalizeVP vp) with
     | .ok (.v y f :: _) => !f.isEmpty && y.t != .b
     | .ok _ => false
     | .error _ => true)
  | .error _ => true

theorem firstVerbFinite_of_check (sp : Spec) (h : firstVerbFiniteB sp = true) : FirstVerbFinite sp := by
  intro sel vp e raw h1 h2
  show ∃ y f tl, raw = .v y f :: tl ∧ f ≠ [] ∧ y.t ≠ .b
  unfold firstVerbFiniteB at h
  simp only [h1, h2] at h
  cases raw with
  | nil => simp at h
  | cons t tl =>
    cases t <;> simp at h
    rename_i y f
    exact ⟨y, f, tl, rfl, by cases f <;> simp_all, by simpa using h.2⟩

/-- non-vacuity: « il ne le lui donne pas » (complements given in the wrong order, negation) -/
def ilNeLeLuiDonnePas : Spec := { ilLuiLe with typ := { neg := some .yes } }
example : FirstVerbFinite ilNeLeLuiDonnePas := firstVerbFinite_of_check _ (by decide)
example : (phraseToks ilNeLeLuiDonnePas).map (fun r => r.1.map Tok.form) =
    .ok ["il".toList, "ne".toList, "le".toList, "lui".toList, "donne".toList, "pas".toList] := by decide

/-- the first verb token of the VP inflects and is the main verb (no modality / progressive flag), not a positive
    imperative: true of every conjugable clause without `mod` and `prog` -/
def FirstVerbMain (sp : Spec) : Prop :=
  FirstVerb (fun y => y.isMod = false ∧ y.isProg = false ∧ tableFor y ≠ .ipPos) sp

/-- **C05 clitic order, clause level** (constituent notation, any interrogative): whatever complements are given, in
    whatever order, pronominalized or not, the realized clause is `a ++ run ++ verb :: b` with no verb in `a ++ run`
    and `run` — `ne`, the reflexive pronoun, every clitic the scan reaches — sorted by the rank table in force -/
def clitic_order_clause : Prop :=
  ∀ (sp : Spec) (toks : List Tok) (e : Str),
    IntOk sp → FirstVerbMain sp → phraseToks sp = .ok (toks, e) →
    ∃ a run x f b tb, toks = a ++ run ++ .v x f :: b ∧ (∀ t ∈ a ++ run, t.isV = false) ∧ SortedBy (rankOf tb) run

theorem sortedBy_filter {α} (k : α → Nat) (p : α → Bool) (l : List α) (h : SortedBy k l) : SortedBy k (l.filter p) :=
  List.Pairwise.filter p h

theorem clitic_order_clause_holds : clitic_order_clause := by
  intro sp toks e hok hm h
  obtain ⟨pre, y, f, tl, placed, hpre, htl, hyn, hyl, hfne, ⟨hym, hyp, hytb⟩, hpl, htoks⟩ :=
    phrase_placement_input _ sp toks e _ hok rfl hm h
  have hmain : AtMainVerb [] tl :=
    ⟨(by intro t ht; cases ht), (by
      intro t ht
      have := htl t ht
      cases t <;> simp_all [TokTailOk])⟩
  have hpl' : placePronouns sp.typ.refl ([] ++ Tok.v y f :: tl) = .ok placed := by simpa using hpl
  have hsorted := clitic_order_holds sp.typ.refl [] tl y f placed hmain hym hyp hytb hpl'
  obtain ⟨isR, _, hrun⟩ := runBefore_place sp.typ.refl [] tl y f placed hmain hym hyp hytb hpl'
  -- closed form of the placed list
  rw [place_first_verb sp.typ.refl [] tl y f (atMain_onlyAux hmain) hyp hym (atMain_noAuxNeg hmain y f hym hyp)] at hpl'
  cases hr : isReflexive y sp.typ.refl with
  | error er => simp [hr, Except.bind] at hpl'
  | ok isR' =>
    simp only [hr, Except.bind, Except.ok.injEq] at hpl'
    have hrun' : runBeforeVerb [] placed = prosOf y isR' (lastProg none []) (collect tl).1 := by
      obtain ⟨isR2, h2, h3⟩ := runBefore_place sp.typ.refl [] tl y f placed hmain hym hyp hytb (by simpa using hpl)
      rw [hr] at h2; cases h2; exact h3
    have hfe : ∀ x' : VT, (Tok.v x' f).form.isEmpty = false := by intro x'; cases hf' : f <;> simp_all [Tok.form]
    have hprosV : ∀ t ∈ prosOf y isR' (lastProg none []) (collect tl).1, t.isV = false := by
      intro t ht
      unfold prosOf at ht
      rw [sortPros_mem] at ht
      exact prosRaw_noV y isR' _ _ (collect_fst_clitic tl) t ht
    rw [htoks, ← hpl']
    simp only [placedAt, hytb, if_false, List.nil_append, List.append_assoc, List.singleton_append]
    rw [removeEmpty_filter _ ⟨Tok.v (if y.t = Tense.b then y else { y with neg2 := none }) f, by simp, hfe _⟩]
    refine ⟨pre.filter (fun t => !t.form.isEmpty),
      (prosOf y isR' (lastProg none []) (collect tl).1).filter (fun t => !t.form.isEmpty),
      (if y.t = Tense.b then y else { y with neg2 := none }), f,
      (match y.neg2 with
        | some w => if y.t = Tense.b then (collect tl).2 else pyInsert (if y.lier = true then 1 else 0) (Tok.q w) (collect tl).2
        | none => (collect tl).2).filter (fun t => !t.form.isEmpty), tableFor y, ?_, ?_, ?_⟩
    · simp only [List.filter_append, List.filter_cons, hfe, Bool.not_false, if_true, List.append_assoc]
      rfl
    · intro t ht
      rcases List.mem_append.mp ht with ht | ht
      · exact hpre t (List.mem_filter.mp ht).1
      · exact hprosV t (List.mem_filter.mp ht).1
    · apply sortedBy_filter
      rw [← hrun']
      exact hsorted

/-- executable form of `FirstVerbMain` -/
def firstVerbMainB (sp : Spec) : Bool :=
  match phraseTyped sp with
  | .ok (_, vp, _) =>
    (match realVPToks sp.typ.refl (pronominalizeVP vp) with
     | .ok (.v y f :: _) => !f.isEmpty && !y.isMod && !y.isProg && tableFor y != .ipPos
     | .ok _ => false
     | .error _ => true)
  | .error _ => true

theorem firstVerbMain_of_check (sp : Spec) (h : firstVerbMainB sp = true) : FirstVerbMain sp := by
  intro sel vp e raw h1 h2
  unfold firstVerbMainB at h
  simp only [h1, h2] at h
  cases raw with
  | nil => simp at h
  | cons t tl =>
    cases t <;> simp at h
    rename_i y f
    exact ⟨y, f, tl, rfl, by cases f <;> simp_all, by simpa using h.1.1.2, by simpa using h.1.2, by simpa using h.2⟩

/-- non-vacuity of `clitic_order_clause`: four pronominalized complements given in the reverse of the canonical order -/
def reversed4 : Spec :=
  { subj := some (.pro false 3 .s .m), verb := witnessVerbLex, t := Tense.p,
    comps := [.pp "de".toList { id := 4, g := .m, n := .s, pro := true }, .pp "dans".toList { id := 3, g := .m, n := .s, pro := true },
              .pp "à".toList { id := 2, g := .f, n := .s, pro := true }, .dir { id := 1, g := .m, n := .s, pro := true }],
    typ := { neg := some .yes, refl := true } }
example : FirstVerbMain reversed4 := firstVerbMain_of_check _ (by decide)
example : (phraseToks reversed4).map (fun r => r.1.map Tok.form) =
    .ok ["il".toList, "ne".toList, "le".toList, "lui".toList, "y".toList, "en".toList, "donne".toList, "pas".toList] := by decide

/-! ## one finite verb, on the tokens of the whole realized clause -/

/-- **C05 one finite verb, clause level**: in the token list of the realized clause (constituent notation, with or
    without an interrogative; any subject, verb, tense, complements, passive / progressive / modality / negation / reflexive),
    every verb token behind the first one is an infinitive, a past participle, or the participle half of a compound
    tense (`NonFin`): at most one finite form, and it is the first verb -/
def one_finite_verb_clause : Prop :=
  ∀ (sp : Spec) (toks : List Tok) (e : Str), IntOk sp → phraseToks sp = .ok (toks, e) →
    ∀ t ∈ (vts toks).tail, NonFin t

theorem one_finite_verb_clause_holds : one_finite_verb_clause := by
  intro sp toks e hok h
  unfold phraseToks at h
  obtain ⟨⟨sel, vp, endS⟩, hty, h⟩ := bindE_ok _ _ _ h
  obtain ⟨hsel, b, hvpi⟩ := phraseTyped_inv_any sp sel vp endS hok hty
  simp only at h
  obtain ⟨toks', hreal, h⟩ := bindE_ok _ _ _ h
  simp only [pure, Except.pure, Except.ok.injEq, Prod.mk.injEq] at h
  obtain ⟨rfl, _⟩ := h
  exact phraseReal_one_finite sp.typ.refl sel vp toks' _ _ hsel hvpi hreal

/-- `doPronounPlacement` keeps the verbs of ANY token list: same number, same order, same tenses -/
theorem placement_keeps_verbs (refl : Bool) (cl out : List Tok) (h : placePronouns refl cl = .ok out) :
    vts out = vts cl := vts_place refl cl out h

/-- non-vacuity: « il ne le a pas pu être en train de donner » — four verb tokens, only the first one finite (the
    second is the participle half of the compound tense) -/
def nested4 : Spec :=
  { subj := some (.pro false 3 .s .m), verb := witnessVerbLex, t := Tense.pc,
    comps := [.dir { id := 1, g := .m, n := .s, pro := true }],
    typ := { neg := some .yes, prog := true, mod := some "poss".toList } }
example : (phraseToks nested4).map (fun r => vts r.1) = .ok [Tense.p, Tense.pc, Tense.b, Tense.b] := by decide

/-! ## the dependency notation: `root(V, subj(..), comp(..)…).typ(..)`, with or without an interrogative

`depTyped_inv_any` (with `processIntDep_inv` for the interrogative): the root verb carries the negation, every other verb is a `post` dependent that is a clean infinitive
or participle; `depReal_parts`: the flat list handed to `doPronounPlacement` is `verb-free tokens ++ conjugated root ++
clean tokens`. The contract theorems then apply with the tokens of the `pre` dependents as prefix. -/

/-- passive in the dependency notation: `self.t("s")` for an imperative sets the Dependent's props, the terminal's own
    `t` still wins — the auxiliary keeps the tense as given -/
def pasLayerDep (on : Bool) : List (Str × Tense) → List (Str × Tense)
  | (l, t) :: r => if on then (if l = etre then avoir else etre, t) :: (l, .pp) :: r else (l, t) :: r
  | [] => []

def expectedChainDep (sp : Spec) : List (Str × Tense) :=
  auxLayer (sp.typ.mod.bind modalLemma)
    (auxLayer (if sp.typ.prog then some progAux else none) (pasLayerDep sp.typ.pas [(sp.verb.lemma, sp.t)]))

/-- the two notations declare the same nesting, except for the tense of a passive imperative -/
theorem expectedChainDep_eq (sp : Spec) (h : sp.typ.pas = false ∨ sp.t ≠ .ip) : expectedChainDep sp = expectedChain sp := by
  unfold expectedChainDep expectedChain
  rcases h with h | h
  · simp [h, pasLayer, pasLayerDep]
  · simp [h, pasLayer, pasLayerDep]

/-- **C05 nesting, dependency notation**: the root verb followed by the verbs among its dependents, in order, is the
    declared nesting -/
def nesting_order_dep : Prop :=
  ∀ (sp : Spec) (v : VT) (deps : List Dep) (e : Str),
    (∀ m, sp.typ.mod = some m → (modalLemma m).isSome = true) →
    depTyped sp = .ok (v, deps, e) → chainOf (v, deps) = expectedChainDep sp

theorem depElems_head (sp : Spec) : (depElems sp).1.lex.lemma = sp.verb.lemma ∧ (depElems sp).1.t = sp.t := by
  unfold depElems
  simp only []
  split <;> simp [Spec.verbT, mkV]

theorem depStagePas_chain (sp : Spec) (s s' : VT × List Dep) (hd : NV s.2) (h : depStagePas sp s = .ok s') :
    chainOf s' = pasLayerDep sp.typ.pas [(s.1.lex.lemma, s.1.t)] := by
  unfold depStagePas at h
  split at h
  · rename_i hp
    have := passivateDep_chain s.1 s'.1 s.2 s'.2 hd h
    simpa [pasLayerDep, hp] using this
  · rename_i hp
    cases h
    simp [pasLayerDep, hp, chainOf, depChain_nv _ hd]

theorem depStageProg_chain (sp : Spec) (s s' : VT × List Dep) (h : depStageProg sp s = .ok s') :
    chainOf s' = auxLayer (if sp.typ.prog then some progAux else none) (chainOf s) := by
  unfold depStageProg at h
  split at h
  · rename_i hp
    obtain ⟨el, hel, h⟩ := bindE_ok _ _ _ h
    have he := auxLex_lemma _ _ hel
    simp only [pure, Except.pure, Except.ok.injEq] at h
    subst h
    simp [chainOf, auxLayer, hp, VT.setLemma, he, depChain, Dep.vc?, mkV, List.filterMap_cons]
  · rename_i hp
    cases h
    simp [chainOf, auxLayer, hp]

theorem depStageMod_chain (sp : Spec) (s s' : VT × List Dep)
    (hmod : ∀ m, sp.typ.mod = some m → (modalLemma m).isSome = true) (h : depStageMod sp s = .ok s') :
    chainOf s' = auxLayer (sp.typ.mod.bind modalLemma) (chainOf s) := by
  unfold depStageMod at h
  cases hm : sp.typ.mod with
  | none =>
    simp only [hm, pure, Except.pure, Except.ok.injEq] at h
    subst h
    simp [chainOf, auxLayer]
  | some m =>
    obtain ⟨ml, hml⟩ := Option.isSome_iff_exists.mp (hmod m hm)
    simp only [hm, hml] at h
    obtain ⟨lx, hlx, h⟩ := bindE_ok _ _ _ h
    have hl := auxLex_lemma _ _ hlx
    simp only [pure, Except.pure, bind, Except.bind, Except.ok.injEq] at h
    subst h
    simp [chainOf, auxLayer, hml, VT.setLemma, hl, depChain, Dep.vc?, mkV, List.filterMap_cons]

theorem nesting_order_dep_holds : nesting_order_dep := by
  intro sp v deps e hmod h
  unfold depTyped at h
  obtain ⟨s2, h2, h⟩ := bindE_ok _ _ _ h
  obtain ⟨s3, h3, h⟩ := bindE_ok _ _ _ h
  obtain ⟨s4, h4, h⟩ := bindE_ok _ _ _ h
  have c2 := depStagePas_chain sp _ s2 (depElems_inv sp).2.2 h2
  have c3 := depStageProg_chain sp s2 s3 h3
  have c4 := depStageMod_chain sp s3 s4 hmod h4
  have c5 : chainOf ((depStageNeg sp s4).1, (depStageNeg sp s4).2) = chainOf s4 := by
    unfold depStageNeg
    cases sp.typ.neg <;> rfl
  have hfin : chainOf s4 = expectedChainDep sp := by
    rw [c4, c3, c2, (depElems_head sp).1, (depElems_head sp).2]
    rfl
  cases hint : sp.typ.int with
  | none =>
    simp only [hint, pure, Except.pure, Except.ok.injEq, Prod.mk.injEq] at h
    obtain ⟨rfl, rfl, _⟩ := h
    rw [c5, hfin]
  | some i =>
    simp only [hint] at h
    obtain ⟨e1, e2, e3⟩ := depElems_inv sp
    have h5 := depStageNeg_inv sp s4 (depStageMod_inv sp s3 s4 (depStageProg_inv sp s2 s3
      (depStagePas_inv sp _ s2 e1 e2 e3 h2) h3) h4)
    obtain ⟨_, _, c6⟩ := processIntDep_inv i _ v _ deps e h5.2.2 h
    rw [c6, c5, hfin]

/-- non-vacuity: root « pouvoir », then « être » (progressive), « être » (passive), « donner » -/
def nestingWitnessDep : Spec :=
  { subj := some (.np { id := 0, g := .m, n := .s, pro := false }), verb := witnessVerbLex, t := Tense.p,
    comps := [.dir { id := 1, g := .m, n := .s, pro := false }],
    typ := { pas := true, prog := true, mod := some "poss".toList } }
example : (depTyped nestingWitnessDep).map (fun r => chainOf (r.1, r.2.1)) =
    .ok [("pouvoir".toList, .p), ("être".toList, .b), ("être".toList, .b), ("donner".toList, .pp)] := by decide

/-- **C05 one finite verb, dependency notation, clause level** -/
def one_finite_verb_clause_dep : Prop :=
  ∀ (sp : Spec) (toks : List Tok) (e : Str), depToks sp = .ok (toks, e) → ∀ t ∈ (vts toks).tail, NonFin t

theorem one_finite_verb_clause_dep_holds : one_finite_verb_clause_dep := by
  intro sp toks e h
  unfold depToks at h
  obtain ⟨⟨v, deps, endS⟩, hty, h⟩ := bindE_ok _ _ _ h
  obtain ⟨_, hdi, _⟩ := depTyped_inv_any sp v deps endS hty
  simp only at h
  obtain ⟨toks', hreal, h⟩ := bindE_ok _ _ _ h
  simp only [pure, Except.pure, Except.ok.injEq, Prod.mk.injEq] at h
  obtain ⟨rfl, _⟩ := h
  exact depReal_one_finite sp.typ.refl v deps toks' hdi hreal

/-- the root verb inflects (no morphology error), its form is not empty, and `Q` holds of its first token -/
def FirstVerbDep (Q : VT → Prop) (sp : Spec) : Prop :=
  ∀ v deps e rv, depTyped sp = .ok (v, deps, e) →
    conjugate v sp.typ.refl (depNextPro (deps.filter Dep.isPre ++ deps.filter (fun d => !d.isPre))) = .ok rv →
    ∃ y f tl, rv.1 = .v y f :: tl ∧ f ≠ [] ∧ Q y

theorem depNextPro_clean (l : List Dep) (q : Tok) (h : depNextPro l = some q) : TokTailOk q :=
  tokTailOk_of_noV q (depNextPro_noV l q h)

/-- the list the dependency notation hands to `doPronounPlacement`: verb-free tokens, the first token of the root
    verb (it carries the negation), clean tokens -/
theorem dep_placement_input (Q : VT → Prop) (sp : Spec) (toks : List Tok) (e : Str) (w : Option Str)
    (hw : sp.typ.neg.map NegV.word2 = w) (hf : FirstVerbDep Q sp)
    (h : depToks sp = .ok (toks, e)) :
    ∃ pre y f tl, (∀ t ∈ pre, t.isV = false) ∧ (∀ t ∈ tl, TokTailOk t) ∧ y.neg2 = w ∧
      (sp.typ.int = none → y.lier = false) ∧
      f ≠ [] ∧ Q y ∧ placePronouns sp.typ.refl (pre ++ .v y f :: tl) = .ok toks := by
  unfold depToks at h
  obtain ⟨⟨v, deps, endS⟩, hty, h⟩ := bindE_ok _ _ _ h
  obtain ⟨hvn, hdi, hvl⟩ := depTyped_inv_any sp v deps endS hty
  simp only at h
  obtain ⟨toks', hreal, h⟩ := bindE_ok _ _ _ h
  simp only [pure, Except.pure, Except.ok.injEq, Prod.mk.injEq] at h
  obtain ⟨rfl, _⟩ := h
  obtain ⟨rv, preT, postT, hrv, hpre, hpost, _, hfin⟩ := depReal_parts sp.typ.refl v deps toks' hdi hreal
  obtain ⟨y, f, tl0, hrve, hfne, hQ⟩ := hf v deps endS rv hty hrv
  obtain ⟨hd, tl1, hcv, htl1, hhd⟩ := conj_head v sp.typ.refl _ rv (fun q hq => depNextPro_clean _ q hq) hrv
  rw [hrve] at hcv
  simp only [List.cons.injEq] at hcv
  obtain ⟨rfl, rfl⟩ := hcv
  have hy : y.neg2 = w ∧ (sp.typ.int = none → y.lier = false) := by
    rcases hhd with ⟨l, c, hq⟩ | ⟨y', f', hq, h1, h2, _⟩
    · cases hq
    · cases hq; exact ⟨by rw [h1, hvn, hw], fun hi => by rw [h2, hvl hi]⟩
  have hroot : rootIsVToks rv.1 = true := by rw [hrve]; cases tl0 <;> rfl
  simp only [hroot, if_true] at hfin
  have hfe : (Tok.v y f).form.isEmpty = false := by cases hf' : f <;> simp_all [Tok.form]
  rw [hrve, removeEmpty_filter _ ⟨.v y f, by simp, hfe⟩] at hfin
  refine ⟨preT.filter (fun t => !t.form.isEmpty), y, f, (tl0 ++ postT).filter (fun t => !t.form.isEmpty),
    filter_noV _ _ hpre, ?_, hy.1, hy.2, hfne, hQ, ?_⟩
  · intro t ht
    rcases List.mem_append.mp (List.mem_filter.mp ht).1 with ht | ht
    · exact htl1 t ht
    · exact hpost t ht
  · rw [← hfin]
    simp [List.filter_append, List.filter_cons, hfe]

theorem atFirst_of (pre tl : List Tok) (hpre : ∀ t ∈ pre, t.isV = false) (htl : ∀ t ∈ tl, TokTailOk t) :
    AtFirstVerb pre tl :=
  ⟨hpre, (by
    intro t ht
    rcases List.mem_append.mp ht with ht | ht
    · have := hpre t ht
      cases t <;> simp_all [Tok.isV]
    · have := htl t ht
      cases t <;> simp_all [TokTailOk])⟩

def FirstVerbDepFinite (sp : Spec) : Prop := FirstVerbDep (fun y => y.t ≠ .b) sp

/-- **C05 `ne`, clause level, dependency notation** -/
def ne_position_clause_dep : Prop :=
  ∀ (sp : Spec) (nv : NegV) (toks : List Tok) (e : Str),
    sp.typ.neg = some nv → FirstVerbDepFinite sp → depToks sp = .ok (toks, e) →
    ∃ a cs x f b, toks = a ++ .adv ne :: cs ++ .v x f :: b ∧ (∀ c ∈ cs, IsCliticFn c) ∧ (∀ t ∈ a, t.isV = false) ∧
      x.neg2 = none

theorem ne_position_clause_dep_holds : ne_position_clause_dep := by
  intro sp nv toks e hneg hf h
  obtain ⟨pre, y, f, tl, hpre, htl, hyn, _, _, hyt, hpl⟩ :=
    dep_placement_input _ sp toks e (some nv.word2) (by simp [hneg]) hf h
  obtain ⟨cs, after, hout, hcs⟩ := ne_position_holds sp.typ.refl pre tl y f nv.word2 toks (atFirst_of pre tl hpre htl)
    hyn hyt hpl
  exact ⟨pre, cs, { y with neg2 := none }, f, after, hout, hcs, hpre, rfl⟩

/-- **C05 second negative word, clause level, dependency notation**: right after the verb — behind the inverted
    subject pronoun when the clause is an interrogative with inversion (at most one token in between, none without
    an interrogative) -/
def neg2_position_clause_dep : Prop :=
  ∀ (sp : Spec) (nv : NegV) (toks : List Tok) (e : Str),
    sp.typ.neg = some nv → FirstVerbDepFinite sp → depToks sp = .ok (toks, e) →
    ∃ a x f mid b, toks = a ++ .v x f :: mid ++ .q nv.word2 :: b ∧ (∀ t ∈ a, t.isV = false) ∧ mid.length ≤ 1 ∧
      (sp.typ.int = none → mid = [])

theorem neg2_position_clause_dep_holds : neg2_position_clause_dep := by
  intro sp nv toks e hneg hf h
  obtain ⟨pre, y, f, tl, hpre, htl, hyn, hyl, _, hyt, hpl⟩ :=
    dep_placement_input _ sp toks e (some nv.word2) (by simp [hneg]) hf h
  obtain ⟨before, mid, after, hout, hmid, hbefore⟩ := neg2_position_finite_holds sp.typ.refl pre tl y f nv.word2 toks
    (atFirst_of pre tl hpre htl) hyn hyt hpl
  refine ⟨before, { y with neg2 := none }, f, mid, after, hout, hbefore, ?_, ?_⟩
  · split at hmid <;> omega
  · intro hi
    rw [hyl hi] at hmid
    cases mid <;> simp_all

def FirstVerbDepMain (sp : Spec) : Prop :=
  FirstVerbDep (fun y => y.isMod = false ∧ y.isProg = false ∧ tableFor y ≠ .ipPos) sp

/-- **C05 clitic order, clause level, dependency notation** -/
def clitic_order_clause_dep : Prop :=
  ∀ (sp : Spec) (toks : List Tok) (e : Str),
    FirstVerbDepMain sp → depToks sp = .ok (toks, e) →
    ∃ a run x f b tb, toks = a ++ run ++ .v x f :: b ∧ (∀ t ∈ a ++ run, t.isV = false) ∧ SortedBy (rankOf tb) run

theorem clitic_order_clause_dep_holds : clitic_order_clause_dep := by
  intro sp toks e hm h
  obtain ⟨pre, y, f, tl, hpre, htl, _, _, _, ⟨hym, hyp, hytb⟩, hpl⟩ :=
    dep_placement_input _ sp toks e _ rfl hm h
  have hmain : AtMainVerb pre tl :=
    ⟨(by
      intro t ht
      have := hpre t ht
      cases t <;> simp_all [Tok.isV]), (by
      intro t ht
      have := htl t ht
      cases t <;> simp_all [TokTailOk])⟩
  have hsorted := clitic_order_holds sp.typ.refl pre tl y f toks hmain hym hyp hytb hpl
  obtain ⟨isR, hr, hrun⟩ := runBefore_place sp.typ.refl pre tl y f toks hmain hym hyp hytb hpl
  rw [place_first_verb sp.typ.refl pre tl y f (atMain_onlyAux hmain) hyp hym (atMain_noAuxNeg hmain y f hym hyp)] at hpl
  simp only [hr, Except.bind, Except.ok.injEq] at hpl
  have hprosV : ∀ t ∈ prosOf y isR (lastProg none pre) (collect tl).1, t.isV = false := by
    intro t ht
    unfold prosOf at ht
    rw [sortPros_mem] at ht
    exact prosRaw_noV y isR _ _ (collect_fst_clitic tl) t ht
  rw [hrun] at hsorted
  refine ⟨pre, prosOf y isR (lastProg none pre) (collect tl).1, (if y.t = Tense.b then y else { y with neg2 := none }), f,
    (match y.neg2 with
      | some w => if y.t = Tense.b then (collect tl).2 else pyInsert (if y.lier = true then 1 else 0) (Tok.q w) (collect tl).2
      | none => (collect tl).2), tableFor y, ?_, ?_, hsorted⟩
  · rw [← hpl]
    simp [placedAt, hytb]
    cases y.neg2 <;> rfl
  · intro t ht
    rcases List.mem_append.mp ht with ht | ht
    · exact hpre t ht
    · exact hprosV t ht

/-- executable form of `FirstVerbDep` for a decidable `q` -/
def firstVerbDepB (q : VT → Bool) (sp : Spec) : Bool :=
  match depTyped sp with
  | .ok (v, deps, _) =>
    (match conjugate v sp.typ.refl (depNextPro (deps.filter Dep.isPre ++ deps.filter (fun d => !d.isPre))) with
     | .ok (.v y f :: _, _) => !f.isEmpty && q y
     | .ok _ => false
     | .error _ => true)
  | .error _ => true

theorem firstVerbDep_of_check (q : VT → Bool) (sp : Spec) (h : firstVerbDepB q sp = true) :
    FirstVerbDep (fun y => q y = true) sp := by
  intro v deps e rv h1 h2
  unfold firstVerbDepB at h
  simp only [h1, h2] at h
  obtain ⟨l, b⟩ := rv
  cases l with
  | nil => simp at h
  | cons t tl =>
    cases t <;> simp at h
    rename_i y f
    exact ⟨y, f, tl, rfl, by cases f <;> simp_all, h.2⟩

/-- non-vacuity, dependency notation: « il ne le lui donne pas », « il ne le lui y en donne pas » -/
example : FirstVerbDepFinite ilNeLeLuiDonnePas := by
  have := firstVerbDep_of_check (fun y => y.t != .b) _ (by decide : firstVerbDepB _ ilNeLeLuiDonnePas = true)
  intro v deps e rv h1 h2
  obtain ⟨y, f, tl, a, b, c⟩ := this v deps e rv h1 h2
  exact ⟨y, f, tl, a, b, by simpa using c⟩
example : (depToks ilNeLeLuiDonnePas).map (fun r => r.1.map Tok.form) =
    .ok ["il".toList, "ne".toList, "le".toList, "lui".toList, "donne".toList, "pas".toList] := by decide
example : FirstVerbDepMain reversed4 := by
  have := firstVerbDep_of_check (fun y => !y.isMod && !y.isProg && tableFor y != .ipPos) _
    (by decide : firstVerbDepB _ reversed4 = true)
  intro v deps e rv h1 h2
  obtain ⟨y, f, tl, a, b, c⟩ := this v deps e rv h1 h2
  have c' : (y.isMod = false ∧ y.isProg = false) ∧ ¬tableFor y = CTable.ipPos := by simpa using c
  exact ⟨y, f, tl, a, b, c'.1.1, c'.1.2, c'.2⟩
example : (depToks reversed4).map (fun r => r.1.map Tok.form) =
    .ok ["il".toList, "ne".toList, "le".toList, "lui".toList, "y".toList, "en".toList, "donne".toList, "pas".toList] := by decide

/-- the guard « already elided » of loop 2 since commit c4595d2: the first word of the realization, so a tag or a
    punctuation sign attached to the pronoun no longer hides the apostrophe -/
example : elidedForm "<i>l'</i>.".toList = true ∧ elidedForm "l'".toList = true ∧ elidedForm "le".toList = false ∧
    elidedForm "le.'".toList = false := by decide

/-! ## the host of the clitics under the nesting [modal] [être en train de] [… verb] -/

/-- **C05 clitic host**: when the verbs in front are all modality / progressive auxiliaries (they carry the flag
    `isMod` / `isProg` that `processTyp_verb` sets and copies), every clitic the scan reaches — together with `ne` and
    the reflexive pronoun — is put immediately before the FIRST verb that is not such an auxiliary, behind all of them:
    « Il peut être en train de la lui donner » -/
def clitic_host : Prop :=
  ∀ (refl : Bool) (pre post : List Tok) (x : VT) (f : Str) (out : List Tok),
    AtMainVerb pre post → x.isMod = false → x.isProg = false → tableFor x ≠ .ipPos →
    placePronouns refl (pre ++ .v x f :: post) = .ok out →
    ∃ run x' after, out = pre ++ run ++ .v x' f :: after ∧ (∀ t ∈ run, t.isV = false) ∧
      (∀ c ∈ (collect post).1, c ∈ run)

theorem clitic_host_holds : clitic_host := by
  intro refl pre post x f out hmain hm hp htb h
  rw [place_first_verb refl pre post x f (atMain_onlyAux hmain) hp hm (atMain_noAuxNeg hmain x f hm hp)] at h
  cases hr : isReflexive x refl with
  | error e => simp [hr, Except.bind] at h
  | ok isR =>
    simp only [hr, Except.bind, Except.ok.injEq] at h
    refine ⟨prosOf x isR (lastProg none pre) (collect post).1, (if x.t = Tense.b then x else { x with neg2 := none }),
      (match x.neg2 with
        | some w => if x.t = Tense.b then (collect post).2 else pyInsert (if x.lier = true then 1 else 0) (Tok.q w) (collect post).2
        | none => (collect post).2), ?_, ?_, ?_⟩
    · rw [← h]
      simp [placedAt, htb]
      cases x.neg2 <;> rfl
    · intro t ht
      unfold prosOf at ht
      rw [sortPros_mem] at ht
      exact prosRaw_noV x isR _ _ (collect_fst_clitic post) t ht
    · intro c hc
      unfold prosOf
      rw [sortPros_mem]
      unfold prosRaw
      exact List.mem_append_right _ hc

/-- non-vacuity with an interrogative: « ne le lui donne-t-il pas ? » (the inverted pronoun stands between the verb and
    « pas »: `mid` of `neg2_position_clause_dep` has one token) -/
def neLeLuiDonneTIlPas : Spec := { ilLuiLe with typ := { neg := some .yes, int := some "yon".toList } }
example : firstVerbDepB (fun y => y.t != .b) neLeLuiDonneTIlPas = true := by decide
example : (depToks neLeLuiDonneTIlPas).map (fun r => r.1.map Tok.form) =
    .ok ["ne".toList, "le".toList, "lui".toList, "donne".toList, "il".toList, "pas".toList] := by decide

/-- non-vacuity with an interrogative, constituent notation: « ne le lui donne-t-il pas ? », « pourquoi … » -/
example : IntOk neLeLuiDonneTIlPas := fun _ _ _ => ⟨rfl, rfl⟩
example : firstVerbFiniteB neLeLuiDonneTIlPas = true := by decide
example : (phraseToks neLeLuiDonneTIlPas).map (fun r => r.1.map Tok.form) =
    .ok ["ne".toList, "le".toList, "lui".toList, "donne".toList, "il".toList, "pas".toList] := by decide

end Pyrealb.C05
