import Pyrealb.Lemmas.NumberFacts
import Pyrealb.Lemmas.NumberRoman
import Pyrealb.Lemmas.NumberFormat
import Pyrealb.Lemmas.NumberOrdinal
/-! # C16 — numbers: words, ordinals, Roman numerals, digit formatting, number agreement

Property theorems only.  `Model/Number*.lean` mirrors `Number.py` and the `NO` part of `Terminal*.py` with every
word taken from the GENERATED `Gen/NumberWords`; `Model/NumberEval.lean` is the hand-written specification (the
numeral systems, the ordinal forms, canonical Roman numerals, reading of digit strings), independent of the
repository.  Finite facts are `decide +kernel` over the generated tables (`…_tbl`), the unbounded statements are
by induction over the list of digit triplets. -/
namespace Pyrealb.C16
open Pyrealb Pyrealb.Number Pyrealb.NumberSpec Pyrealb.Gen.NumberWords

/-- the domain of the property: `|n| < 10^21` -/
def InDomain (n : Int) : Prop := n.natAbs < 10 ^ 21
instance (n : Int) : Decidable (InDomain n) := inferInstanceAs (Decidable (n.natAbs < 10 ^ 21))

/-! ## C16.a  the cardinal in words denotes exactly `n` -/

/-- the spelling exists (no exception) and the numeral system of the language reads it back as `n` -/
def Denotes (ℓ : Lang) (n : Int) : Prop := ∃ w, enToutesLettres ℓ n = .ok w ∧ eval ℓ w = some n

def spell_eval_fr : Prop := ∀ n : Int, InDomain n → Denotes .fr n
def spell_eval_en : Prop := ∀ n : Int, InDomain n → Denotes .en n

theorem spell_eval_fr_holds : spell_eval_fr := by
  intro n hn
  apply spell_eval_core factsFr
  intro k hk
  exact scale_tbl_fr ⟨k, scalesNeeded_lt_six _ hn k hk⟩

theorem spell_eval_en_holds : spell_eval_en := by
  intro n hn
  apply spell_eval_core factsEn
  intro k hk
  exact scale_tbl_en ⟨k, scalesNeeded_lt_six _ hn k hk⟩

/-- the spelling never raises inside the domain -/
def spell_total : Prop := ∀ (ℓ : Lang) (n : Int), InDomain n → ∃ w, enToutesLettres ℓ n = .ok w

theorem spell_total_holds : spell_total := by
  intro ℓ n hn
  cases ℓ
  · obtain ⟨w, hw, _⟩ := spell_eval_en_holds n hn
    exact ⟨w, hw⟩
  · obtain ⟨w, hw, _⟩ := spell_eval_fr_holds n hn
    exact ⟨w, hw⟩

/-! ## C16.b  distinct numbers never share a spelling -/

def spell_injective : Prop := ∀ (ℓ : Lang) (a b : Int), InDomain a → InDomain b →
  enToutesLettres ℓ a = enToutesLettres ℓ b → a = b

theorem spell_injective_holds : spell_injective := by
  intro ℓ a b ha hb hab
  have key : Denotes ℓ a ∧ Denotes ℓ b := by
    cases ℓ
    · exact ⟨spell_eval_en_holds a ha, spell_eval_en_holds b hb⟩
    · exact ⟨spell_eval_fr_holds a ha, spell_eval_fr_holds b hb⟩
  obtain ⟨⟨wa, hwa, hea⟩, ⟨wb, hwb, heb⟩⟩ := key
  rw [hwa, hwb] at hab
  cases hab
  rw [hea] at heb
  exact Option.some.inj heb

/-! non-vacuity: concrete instances (tests, by kernel evaluation) -/
example : enToutesLettres .fr (-1000071) = .ok (s "moins un million soixante et onze") := by decide +kernel
example : eval .fr (s "moins un million soixante et onze") = some (-1000071) := by decide +kernel
example : enToutesLettres .en 999999999999999999999 = .ok (s ("nine hundred and ninety-nine quintillion nine hundred and ninety-nine quadrillion nine hundred and ninety-nine trillion nine hundred and ninety-nine billion nine hundred and ninety-nine million nine hundred and ninety-nine thousand nine hundred and ninety-nine")) := by decide +kernel
example : InDomain 999999999999999999999 := by decide +kernel
example : eval .en (s "one quadrillion") = some (10 ^ 15) := by decide +kernel
/-- outside the domain the code raises (`uM[l-2]`, IndexError) -/
example : enToutesLettres .en (10 ^ 21) = .error .indexError := by decide +kernel

/-! ## C16.c  ordinals are the spelling with the language's ordinal ending rule -/

/-- the ordinal of `n` is what the ordinal ending rule (`ordRule`, a table of the ordinal form of every number
    word) makes of the cardinal -/
def OrdinalFollowsRule (ℓ : Lang) (n : Int) (g : Gender) : Prop :=
  ∃ w o, enToutesLettres ℓ n = .ok w ∧ ordinal ℓ n g = .ok o ∧ ordRule ℓ g w = some o

def ordinal_rule_en : Prop := ∀ (n : Int) (g : Gender), 1 ≤ n → InDomain n → OrdinalFollowsRule .en n g
def ordinal_rule_fr : Prop := ∀ (n : Int) (g : Gender), 1 ≤ n → InDomain n → OrdinalFollowsRule .fr n g

theorem ordinal_rule_en_holds : ordinal_rule_en := by
  intro n g hn hd
  obtain ⟨w, hw⟩ := spell_total_holds .en n hd
  obtain ⟨o, h1, h2⟩ := ordinal_follows .en n g hn hd w hw
  exact ⟨w, o, hw, h1, h2⟩

theorem ordinal_rule_fr_holds : ordinal_rule_fr := by
  intro n g hn hd
  obtain ⟨w, hw⟩ := spell_total_holds .fr n hd
  obtain ⟨o, h1, h2⟩ := ordinal_follows .fr n g hn hd w hw
  exact ⟨w, o, hw, h1, h2⟩

/-! concrete instances (tests, by kernel evaluation) -/
example : ordinal .fr 81 .m = .ok (s "quatre-vingt-unième") ∧ ordinal .fr 200 .m = .ok (s "deux centième")
    ∧ ordinal .fr 2000000 .m = .ok (s "deux millionième") ∧ ordinal .fr 1001 .f = .ok (s "mille unième") := by decide +kernel
example : ordRule .fr .m (s "deux cents") = some (s "deux centième") := by decide +kernel
example : ordinal .en 1000000000000000021 .m = .ok (s "one quintillion twenty-first") := by decide +kernel
example : ordinal .fr 1 .f = .ok (s "première") ∧ ordinal .fr 61 .f = .ok (s "soixante et unième") := by decide +kernel

/-! ## C16.d  Roman numerals -/

/-- `roman n` is the canonical numeral of `n` and the value of that numeral is `n`
    (finite fact `roman_canon_tbl`: `decide +kernel` over all `n < 4000` on the generated symbol tables) -/
def roman_canon : Prop := ∀ n : Nat, 1 ≤ n → n ≤ 3999 →
  roman n = .ok (romanCanon n) ∧ romanValue (romanCanon n) = some n

theorem roman_canon_holds : roman_canon := fun n h1 h2 => roman_canon_lt n h1 (by omega)

example : roman 1994 = .ok (s "MCMXCIV") := by decide +kernel

/-! ## C16.e  the formatted digit form parses back to the value rounded to the requested precision -/

/-- a float (exactly `± m / 10^k`) printed with `p` decimals is read back, with the language's grouping and
    decimal signs, as `± q / 10^p` where `q` is `m / 10^k` rounded to `p` decimals to nearest, ties to even -/
def format_dec_parse : Prop := ∀ (ℓ : Lang) (neg : Bool) (m k : Nat) (r : Str) (p : Nat),
  ∃ txt q, numberFormatter ℓ (.flt neg m k r) (some (p : Int)) = .ok txt ∧
    parseNumber (groupSign ℓ) (decimalSign ℓ) txt = some ⟨neg, q, p⟩ ∧ IsRounded m k p q

theorem format_dec_parse_holds : format_dec_parse := by
  intro ℓ neg m k r p
  exact ⟨_, roundHE m k p, numberFormatter_flt ℓ neg m k r p, parse_formatFixed_lang ℓ neg _ p, roundHE_isRounded m k p⟩

/-- an integer is printed with all its digits -/
def format_int_parse : Prop := ∀ (ℓ : Lang) (n : Int) (mp : Option Int),
  ∃ txt, numberFormatter ℓ (.int n) mp = .ok txt ∧
    parseNumber (groupSign ℓ) (decimalSign ℓ) txt = some ⟨decide (n < 0), n.natAbs, 0⟩

theorem format_int_parse_holds : format_int_parse := by
  intro ℓ n mp
  exact ⟨_, numberFormatter_int ℓ n mp, parse_formatFixed_lang ℓ _ _ 0⟩

example : numberFormatter .fr (.flt true 1234567891 3 (s "-1234567.891")) (some 2) = .ok (s "-1\u00a0234\u00a0567,89") := by
  decide +kernel
example : numberFormatter .en (.flt false 25 1 (s "2.5")) (some 0) = .ok (s "2") := by decide +kernel     -- tie to even
example : numberFormatter .en (.flt false 35 1 (s "3.5")) (some 0) = .ok (s "4") := by decide +kernel
example : numberFormatter .en (.int (10 ^ 17 + 1)) none = .ok (s "100,000,000,000,000,001") := by decide +kernel

/-! ## C16.f  grammatical number -/

/-- the value is 1 or -1 -/
def IsUnit : Val → Prop
  | .int x => x = 1 ∨ x = -1
  | .flt _ m k _ => m = 10 ^ k
  | .special _ => False

/-- the absolute value is below 2 -/
def AbsBelowTwo : Val → Prop
  | .int x => x.natAbs < 2
  | .flt _ m k _ => m < 2 * 10 ^ k
  | .special _ => False

instance : ∀ v, Decidable (IsUnit v)
  | .int _ => inferInstanceAs (Decidable (_ ∨ _))
  | .flt _ _ _ _ => inferInstanceAs (Decidable (_ = _))
  | .special _ => inferInstanceAs (Decidable False)

instance : ∀ v, Decidable (AbsBelowTwo v)
  | .int _ => inferInstanceAs (Decidable (_ < _))
  | .flt _ _ _ _ => inferInstanceAs (Decidable (_ < _))
  | .special _ => inferInstanceAs (Decidable False)

/-- English: singular exactly for the value 1 or -1 written without decimals (DESIGN §6: `1.0` is plural by the
    library's design), plural for everything else -/
def gram_number_en : Prop := ∀ (no : NO) (v : Val), no.lang = .en → no.dOpt.ord ≠ some true → no.value = some v →
  gramNumber no = .ok (if IsUnit v ∧ no.nbDecimals = 0 then .s else .p)

/-- French: plural exactly when the absolute value is 2 or more -/
def gram_number_fr : Prop := ∀ (no : NO) (v : Val), no.lang = .fr → no.dOpt.ord ≠ some true → no.value = some v →
  gramNumber no = .ok (if AbsBelowTwo v then .s else .p)

/-- ordinals are singular: what `grammaticalNumber()` answers and what realization sets -/
def ordinal_singular : Prop := ∀ (no : NO), no.dOpt.ord = some true →
  gramNumber no = .ok .s ∧ ∀ r w n, realNO no = .ok (r, w, n) → n = .s

theorem gram_number_en_holds : gram_number_en := by
  intro no v hl ho hv
  have e1 : enSingAbs = 1 := rfl
  have e2 : enSingDecimals = 0 := rfl
  simp only [gramNumber, ho, if_false, hv, hl, e1, e2]
  congr 1
  cases v with
  | int x =>
    simp only [Val.absEq, IsUnit]
    by_cases h : (x = 1 ∨ x = -1)
    · have : ((x.natAbs : Int) == 1) = true := by simp; omega
      by_cases hd : no.nbDecimals = 0 <;> simp [h, this, hd]
    · have : ((x.natAbs : Int) == 1) = false := by simp; omega
      simp [h, this]
  | flt neg m k r =>
    simp only [Val.absEq, IsUnit]
    by_cases h : m = 10 ^ k <;> by_cases hd : no.nbDecimals = 0 <;> simp [h, hd]
  | special r => simp [Val.absEq, IsUnit]

theorem gram_number_fr_holds : gram_number_fr := by
  intro no v hl ho hv
  have e1 : frSingLow = -2 := rfl
  have e2 : frSingHigh = 2 := rfl
  simp only [gramNumber, ho, if_false, hv, hl, e1, e2]
  congr 1
  cases v with
  | int x =>
    simp only [Val.between, AbsBelowTwo]
    by_cases h : x.natAbs < 2
    · have : (decide (-2 < x) && decide (x < 2)) = true := by simp; omega
      simp [h, this]
    · have : (decide (-2 < x) && decide (x < 2)) = false := by
        cases h1 : decide (-2 < x) <;> cases h2 : decide (x < 2) <;> simp at h1 h2 ⊢ <;> omega
      simp [h, this]
  | flt neg m k r =>
    rw [between_flt]
    simp only [AbsBelowTwo]
    by_cases h : m < 2 * 10 ^ k <;> simp [h]
  | special r => simp [Val.between, AbsBelowTwo]

theorem ordinal_singular_holds : ordinal_singular := by
  intro no ho
  have hg : gramNumber no = .ok .s := by simp [gramNumber, ho, pure, Except.pure]
  refine ⟨hg, ?_⟩
  intro r w n hr
  unfold realNO at hr
  rw [hg] at hr
  simp only at hr
  cases hv : no.value with
  | none => simp [hv] at hr
  | some v =>
    simp only [hv] at hr
    by_cases hnat : no.dOpt.nat = some true
    · simp only [hnat, if_true] at hr
      cases v with
      | int x =>
        simp only at hr
        split at hr
        · simp [pure, Except.pure] at hr; exact hr.2.2.symm
        cases h1 : numberOne no x with
        | some one => simp [h1, pure, Except.pure] at hr; exact hr.2.2.symm
        | none =>
          simp only [h1] at hr
          cases h2 : enToutesLettres no.lang x with
          | error e => simp [h2, Except.map] at hr
          | ok w' => simp [h2, Except.map] at hr; exact hr.2.2.symm
      | flt _ _ _ _ => simp [pure, Except.pure] at hr; exact hr.2.2.symm
      | special _ => simp [pure, Except.pure] at hr; exact hr.2.2.symm
    · simp only [hnat, if_false, ho, if_true] at hr
      cases v with
      | int x =>
        simp only at hr
        by_cases hx : x < 0 ∨ tooLong ordLimit x.natAbs = true
        · simp [hx, pure, Except.pure] at hr; exact hr.2.2.symm
        · simp only [hx, if_false] at hr
          cases h2 : ordinal no.lang x no.g with
          | error e => simp [h2, Except.map] at hr
          | ok w' => simp [h2, Except.map] at hr; exact hr.2.2.symm
      | flt _ _ _ _ => simp [pure, Except.pure] at hr; exact hr.2.2.symm
      | special _ => simp [pure, Except.pure] at hr; exact hr.2.2.symm

/-! non-vacuity: what `NO(1)`, `NO(1.0)`, `NO(-1.5)`, `NO(2)` give (tests) -/
example : gramNumber { lang := .en, value := some (.int (-1)), nbDecimals := 0, dOpt := defaultDOpt } = .ok .s := by decide +kernel
example : gramNumber { lang := .en, value := some (.flt false 10 1 (s "1.0")), nbDecimals := 1, dOpt := defaultDOpt } = .ok .p := by decide +kernel
example : gramNumber { lang := .fr, value := some (.flt true 15 1 (s "-1.5")), nbDecimals := 1, dOpt := defaultDOpt } = .ok .s := by decide +kernel
example : gramNumber { lang := .fr, value := some (.int 2), nbDecimals := 0, dOpt := defaultDOpt } = .ok .p := by decide +kernel

end Pyrealb.C16
