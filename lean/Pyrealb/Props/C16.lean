import Pyrealb.Lemmas.NumberFacts
/-! # C16 — numbers: words, ordinals, Roman numerals, digit formatting, number agreement

Property theorems only.  `Model/Number*.lean` mirrors `Number.py` and the `NO` part of `Terminal*.py` with every
word taken from the GENERATED `Gen/NumberWords`; `Model/NumberEval.lean` is the hand-written specification (the
numeral systems, the ordinal forms, canonical Roman numerals, reading of digit strings), independent of the
repository.  Finite facts are `decide +kernel` over the generated tables (`…_tbl`), the unbounded statements are
by induction over the list of digit triplets. -/
namespace Pyrealb.C16
open Pyrealb Pyrealb.Number Pyrealb.NumberSpec

/-- the domain of the property: `|n| < 10^21` -/
def InDomain (n : Int) : Prop := n.natAbs < 10 ^ 21
instance (n : Int) : Decidable (InDomain n) := inferInstanceAs (Decidable (n.natAbs < 10 ^ 21))

/-! ## C16.a  the cardinal in words denotes exactly `n` -/

/-- the spelling exists (no exception) and the numeral system of the language reads it back as `n` -/
def Denotes (ℓ : Lang) (n : Int) : Prop := ∃ w, enToutesLettres ℓ n = .ok w ∧ eval ℓ w = some n

def spell_eval_fr : Prop := ∀ n : Int, InDomain n → Denotes .fr n
def spell_eval_en : Prop := ∀ n : Int, InDomain n → Denotes .en n

theorem spell_eval_fr_holds : spell_eval_fr := by
  intro n hn
  apply spell_eval_core factsFr
  intro k hk
  exact scale_tbl_fr ⟨k, scalesNeeded_lt_six _ hn k hk⟩

/-- English: 10^15 is spelled `one quatrillion`, which is not an English number word (`quadrillion`) -/
theorem spell_eval_en_refuted : ¬ spell_eval_en := by
  intro h
  obtain ⟨w, hw, he⟩ := h (10 ^ 15) (by decide)
  have : enToutesLettres .en (10 ^ 15) = .ok (s "one quatrillion") := by decide +kernel
  rw [this] at hw
  cases hw
  revert he
  decide +kernel

/-- the spelling of `n` uses the scale word of 10^15 (its triplet of 10^15 is not 000) -/
def UsesQuadrillion (n : Int) : Prop := 4 ∈ scalesNeeded (splitS n.natAbs)
instance (n : Int) : Decidable (UsesQuadrillion n) := inferInstanceAs (Decidable (4 ∈ scalesNeeded (splitS n.natAbs)))

theorem spell_eval_en_partial : ∀ n : Int, InDomain n → ¬ UsesQuadrillion n → Denotes .en n := by
  intro n hn hq
  apply spell_eval_core factsEn
  intro k hk
  have hk6 := scalesNeeded_lt_six _ hn k hk
  exact scale_tbl_en ⟨k, hk6⟩ (by intro h4; simp only at h4; subst h4; exact hq hk)

/-- in particular every `|n| < 10^15` -/
theorem spell_eval_en_partial_below : ∀ n : Int, n.natAbs < 10 ^ 15 → Denotes .en n := by
  intro n hn
  apply spell_eval_en_partial n (by unfold InDomain; omega)
  intro hq
  have := scalesNeeded_lt_four _ hn 4 hq
  omega

/-- the spelling never raises inside the domain -/
def spell_total : Prop := ∀ (ℓ : Lang) (n : Int), InDomain n → ∃ w, enToutesLettres ℓ n = .ok w

theorem spell_total_holds : spell_total := by
  intro ℓ n hn
  cases ℓ
  · obtain ⟨w, hw, _⟩ := spell_eval_core factsEnRepo n
      (fun k hk => scale_tbl_enRepo ⟨k, scalesNeeded_lt_six _ hn k hk⟩)
    exact ⟨w, hw⟩
  · obtain ⟨w, hw, _⟩ := spell_eval_fr_holds n hn
    exact ⟨w, hw⟩

/-! ## C16.b  distinct numbers never share a spelling -/

def spell_injective : Prop := ∀ (ℓ : Lang) (a b : Int), InDomain a → InDomain b →
  enToutesLettres ℓ a = enToutesLettres ℓ b → a = b

theorem spell_injective_holds : spell_injective := by
  intro ℓ a b ha hb hab
  cases ℓ
  · -- English: read with the English numeral system extended by the repository's `quatrillion`
    obtain ⟨wa, hwa, hea⟩ := spell_eval_core factsEnRepo a
      (fun k hk => scale_tbl_enRepo ⟨k, scalesNeeded_lt_six _ ha k hk⟩)
    obtain ⟨wb, hwb, heb⟩ := spell_eval_core factsEnRepo b
      (fun k hk => scale_tbl_enRepo ⟨k, scalesNeeded_lt_six _ hb k hk⟩)
    rw [hwa, hwb] at hab
    cases hab
    rw [hea] at heb
    exact Option.some.inj heb
  · obtain ⟨wa, hwa, hea⟩ := spell_eval_fr_holds a ha
    obtain ⟨wb, hwb, heb⟩ := spell_eval_fr_holds b hb
    rw [hwa, hwb] at hab
    cases hab
    rw [hea] at heb
    exact Option.some.inj heb

/-! non-vacuity: concrete instances (tests, by kernel evaluation) -/
example : enToutesLettres .fr (-1000071) = .ok (s "moins un million soixante et onze") := by decide +kernel
example : eval .fr (s "moins un million soixante et onze") = some (-1000071) := by decide +kernel
example : enToutesLettres .en 999999999999999999999 = .ok (s ("nine hundred and ninety-nine quintillion nine hundred and ninety-nine quatrillion nine hundred and ninety-nine trillion nine hundred and ninety-nine billion nine hundred and ninety-nine million nine hundred and ninety-nine thousand nine hundred and ninety-nine")) := by decide +kernel
example : InDomain 999999999999999999999 := by decide +kernel
example : UsesQuadrillion 2000000000000021 := by decide +kernel
example : ¬ UsesQuadrillion 7000000000000 := by decide +kernel
/-- outside the domain the code raises (`uM[l-2]`, IndexError) -/
example : enToutesLettres .en (10 ^ 21) = .error .indexError := by decide +kernel

/-! ## C16.d  Roman numerals -/

/-- `roman n` is the canonical numeral of `n` (greedy subtraction) and its value is `n` -/
def roman_canon : Prop := ∀ n : Nat, 1 ≤ n → n ≤ 3999 →
  roman n = .ok (romanCanon n) ∧ romanValue (romanCanon n) = some n

set_option maxRecDepth 100000 in
theorem roman_canon_tbl : ∀ n : Fin 4000, 1 ≤ n.val →
    (roman n.val == .ok (romanCanon n.val) && romanValue (romanCanon n.val) == some n.val) = true := by
  decide +kernel

theorem roman_canon_holds : roman_canon := by
  intro n h1 h2
  have := roman_canon_tbl ⟨n, by omega⟩ h1
  simpa using this

example : roman 1994 = .ok (s "MCMXCIV") := by decide +kernel

end Pyrealb.C16
