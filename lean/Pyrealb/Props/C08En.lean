import Pyrealb.Lemmas.ClauseEnAgree
/-! # C08 (English half) — the constituent and the dependency notation of one clause realize identically

Property theorems only.  `realize .phrase` / `realize .dep` are the two halves of `Model/ClauseEn`, each tied to its
half of the library by the correspondence run.  The statement compares the symbolic tokens of the clause proper
(`Out.main`: everything but the tag of a tag question), with the agreement of every verb resolved, and the exception
raised.  Contraction (which is applied level by level and therefore differs between the notations for a pronoun subject)
and the tag itself are compared on the real library by the correspondence run and the direct oracle only. -/
namespace Pyrealb.C08En
open Pyrealb Pyrealb.ClauseEn

/-- **C08-en** same specification, same flags ⇒ same tokens, or the same exception -/
def notations_agree_en : Prop :=
  ∀ (sp : Spec) (ty : Typ),
    (realize .phrase sp ty).map (·.main) = (realize .dep sp ty).map (·.main)

/-- a passive with one more prepositional complement: "… eaten by the cat in the house" (constituents) against
    "… eaten in the house by the cat" (dependencies) -/
theorem notations_agree_en_refuted : ¬ notations_agree_en := by
  intro h
  have := h ⟨.np ⟨1, .s, .n⟩, .other, .p, some (.np ⟨2, .s, .n⟩), [(s "in", ⟨3, .s, .n⟩)]⟩ { pas := true }
  revert this
  decide

/-- further witnesses (each is a finding of its own): "Who eat?"/"Who eats?", a prepositional question whose first
    prepositional complement does not fit while the second does (constituents only look at the first), "by me"/"by I",
    the objectless passive.  (`whom` and the AttributeError of the dependency side were repaired: 172fd46, 38d9ad6.) -/
example : (realize .phrase ⟨.np ⟨1, .p, .n⟩, .other, .p, none, []⟩ { int := some .wos }).map (·.main)
    ≠ (realize .dep ⟨.np ⟨1, .p, .n⟩, .other, .p, none, []⟩ { int := some .wos }).map (·.main) := by decide
example : (realize .phrase ⟨.np ⟨1, .s, .n⟩, .other, .p, none, [(s "with", ⟨2, .s, .n⟩), (s "in", ⟨3, .s, .n⟩)]⟩ { int := some .whe }).map (·.main)
    ≠ (realize .dep ⟨.np ⟨1, .s, .n⟩, .other, .p, none, [(s "with", ⟨2, .s, .n⟩), (s "in", ⟨3, .s, .n⟩)]⟩ { int := some .whe }).map (·.main) := by decide
example : (realize .phrase ⟨.pro ⟨.p1, .s, .m⟩, .other, .p, some (.np ⟨2, .s, .n⟩), []⟩ { pas := true }).map (·.main)
    ≠ (realize .dep ⟨.pro ⟨.p1, .s, .m⟩, .other, .p, some (.np ⟨2, .s, .n⟩), []⟩ { pas := true }).map (·.main) := by decide
example : (realize .phrase ⟨.np ⟨1, .p, .n⟩, .other, .p, none, []⟩ { pas := true }).map (·.main)
    ≠ (realize .dep ⟨.np ⟨1, .p, .n⟩, .other, .p, none, []⟩ { pas := true }).map (·.main) := by decide

theorem agr_agree (sp : Spec) (ty : Typ) (hc : C08Cond sp ty = true) :
    (midPh sp ty.pas).pending = none ∧
    agrPlain (midPh sp ty.pas) ty.int = agrDep sp ty (clauseWords sp ty) := by
  unfold C08Cond at hc
  simp only [Bool.and_eq_true, Bool.or_eq_true, Bool.not_eq_true'] at hc
  obtain ⟨hpas, hint⟩ := hc
  obtain ⟨subj, verb, t, obj, pps⟩ := sp
  obtain ⟨neg, pas, perf, prog, contr, exc, md, i⟩ := ty
  cases pas
  · refine ⟨rfl, ?_⟩
    cases i with
    | none => rfl
    | some i =>
      simp only [Bool.and_eq_true, Bool.or_eq_true, Bool.not_eq_true'] at hint
      obtain ⟨_, hwos⟩ := hint
      cases i
      case wos | was =>
        have ha : agrOfArg subj = ⟨.p3, .s⟩ := by simpa [subjAgrOf] using hwos
        simp [agrPlain, agrDep, agrDepPlain, midPh, ha]
      all_goals rfl
  · simp only [Bool.true_eq_false, false_or, List.isEmpty_iff] at hpas
    obtain ⟨⟨hpp, hobj⟩, hsubj⟩ := hpas
    cases obj with
    | none => simp at hobj
    | some o =>
      cases o with
      | pro a => simp at hobj
      | np a =>
        refine ⟨rfl, ?_⟩
        cases i with
        | none => rfl
        | some i =>
          simp only [Bool.and_eq_true, Bool.or_eq_true, Bool.not_eq_true'] at hint
          obtain ⟨_, hwos⟩ := hint
          cases i
          case wos | was =>
            have ha : (⟨.p3, a.n⟩ : Agr) = ⟨.p3, .s⟩ := by simpa [subjAgrOf, agrOfArg] using hwos
            simp [agrPlain, agrDep, agrDepPlain, midPh, ha]
          all_goals rfl

/-- under the side conditions of `C08Cond` (each excluded region is a finding) both notations give the same tokens -/
theorem notations_agree_en_partial :
    ∀ (sp : Spec) (ty : Typ), C08Cond sp ty = true →
      (realize .phrase sp ty).map (·.main) = (realize .dep sp ty).map (·.main) := by
  intro sp ty hc
  have hl := lin_agree sp ty hc
  obtain ⟨hpend, hagr⟩ := agr_agree sp ty hc
  have hd := dep_nf sp ty
  have hdl : lin .dep sp ty = linDep sp ty (clauseWords sp ty) := rfl
  obtain ⟨outp, houtp, hmainp, hagrp⟩ := phrase_nf sp ty
  have hlp : lin .phrase sp ty = some (linPh (midPh sp ty.pas) ty.int (clauseWords sp ty)) := rfl
  rw [hlp, hdl] at hl
  rw [← hl] at hd
  simp only at hd
  obtain ⟨outd, houtd, hmaind, hagrd⟩ := hd
  have e1 : realize .phrase sp ty = .ok outp := houtp
  have e2 : realize .dep sp ty = .ok outd := houtd
  rw [e1, e2]
  simp only [Except.map]
  rw [hmainp, hmaind, hagrp hpend, hagrd, hagr]

/-! non-vacuity: a negated perfect `why` question, and a passive, satisfy the side conditions -/
example : C08Cond ⟨.pro ⟨.p1, .p, .m⟩, .other, .ps, some (.np ⟨2, .p, .n⟩), [(s "with", ⟨3, .s, .n⟩)]⟩
    { neg := true, perf := true, contr := true, int := some .why } = true := by decide
example : C08Cond ⟨.np ⟨1, .s, .n⟩, .have, .f, some (.np ⟨2, .p, .f⟩), []⟩ { pas := true, prog := true, int := some .yon } = true := by
  decide

end Pyrealb.C08En
