import Pyrealb.Model.LexState
import Pyrealb.Lemmas.LexState
/-! # C19 — lexicon management touches only the named lexicon and affects new words

Property theorems. `Model/LexState` mirrors `Lexicon.py` after fixes 8586a6a and 3c7823e (entries are dict
*objects* in a heap; a new entry is a fresh object holding a shallow copy of the caller's dict) and the lexicon
lookup of `Terminal.setLemma`. The specification is two independent finite maps
`view st : Lang → Lemma → Option (Cat → Option Val)`.

All theorems are for ALL histories / ALL states (induction over the call list, case analysis). The states reached
by any history from a `Good` state (no dict object stored under two keys — true of the lexicons as loaded from
JSON) are `Good` (`unshared_invariant`): since 3c7823e no call can create sharing. -/
namespace Pyrealb.C19
open Pyrealb.LexState

/-! ### no sharing, ever -/

/-- **C19.0** no history makes two (language, lemma) keys hold the same dict object, whatever dicts (the caller's
    own, the same one twice, or objects obtained from `getLemma`) are passed. -/
def unshared_invariant : Prop :=
  ∀ (st₀ : State) (ops : List Op), Good st₀ → Good (run st₀ ops)

theorem unshared_invariant_holds : unshared_invariant := fun st₀ ops hg => good_run st₀ hg ops

/-! ### add -/

/-- **C19.a** `addToLexicon(lemma, infos, lang)` after any history: the entry of `lemma` in the lexicon of
    `lang ?? current` becomes `infos` (new lemma) or the old entry with every category of `infos` replaced
    (existing lemma); every other (language, lemma) keeps its entry. The single-dict form is the same call
    on its first item. -/
def add_refines : Prop :=
  ∀ (st₀ : State) (ops : List Op) (lemma : Lemma) (a : DictArg) (lang : Option LangArg) (l : Lang),
    Good st₀ → resolve (run st₀ ops).cur lang = .ok l →
    view (next (run st₀ ops) (.lex (.add lemma a) lang)) =
        aset (view (run st₀ ops)) l lemma
          (some (storeOrMerge (view (run st₀ ops) l lemma) (argContent (run st₀ ops) a)))
    ∧ ∀ rest, step (run st₀ ops) (.lex (.addSingle ((lemma, a) :: rest)) lang) =
        step (run st₀ ops) (.lex (.add lemma a) lang)

theorem add_refines_holds : add_refines := by
  intro st₀ ops lemma a lang l hg hr
  have hG := good_run st₀ hg ops
  refine ⟨?_, fun rest => ?_⟩
  · rw [next_lex_ok _ _ _ l hr, execNext_add]
    exact view_addCore _ hG l lemma a
  · simp [step, hr, exec]

/-! concrete states used by the tests and refutations below -/
def emptyState : State := ⟨.en, [], [], fun _ => none, 0, 0, 1⟩
def wLemma : Lemma := ['w']
def dN : DictArg := .lit [(['N'], ['n', '1'])]
def dA : DictArg := .lit [(['A'], ['a', '1'])]

theorem good_empty : Good emptyState :=
  ⟨fun l₁ m₁ l₂ m₂ r h => by cases l₁ <;> simp [emptyState, State.lexOf, dget] at h,
   fun l lemma r h => by cases l <;> simp [emptyState, State.lexOf, dget] at h⟩

/-! ### update, remove -/

/-- **C19.b** `updateLexicon(newLexicon, lang)`: every lemma of `newLexicon` gets the given entry (replacing,
    not merging), in the lexicon of `lang ?? current`; nothing else changes. -/
def update_refines : Prop :=
  ∀ (st₀ : State) (ops : List Op) (nl : List (Lemma × DictArg)) (lang : Option LangArg) (l : Lang),
    Good st₀ → resolve (run st₀ ops).cur lang = .ok l →
    view (next (run st₀ ops) (.lex (.update nl) lang)) =
      specUpdate (view (run st₀ ops)) l (absItems (run st₀ ops) l nl)

theorem update_refines_holds : update_refines := by
  intro st₀ ops nl lang l hg hr
  rw [next_lex_ok _ _ _ l hr, execNext_update]
  exact view_foldStore _ (good_run st₀ hg ops) l nl

/-- **C19.c** `addToLexicon(lemma, None, lang)`: the lemma is absent afterwards from the lexicon of
    `lang ?? current`, nothing else changes, `None` is returned (in every state). -/
def remove_refines : Prop :=
  ∀ (st : State) (lemma : Lemma) (lang : Option LangArg) (l : Lang), resolve st.cur lang = .ok l →
    view (next st (.lex (.remove lemma) lang)) = aset (view st) l lemma none ∧
    ret st (.lex (.remove lemma) lang) = .ok .none

theorem remove_refines_holds : remove_refines := by
  intro st lemma lang l hr
  refine ⟨?_, by simp [ret, step, hr, exec]⟩
  rw [next_lex_ok _ _ _ l hr, execNext_remove]
  exact view_removeAt st l lemma

/-! ### get -/

/-- **C19.d** `getLemma` returns what is stored (the stored object itself, `None` when absent) and changes
    nothing; right after an `add` (and as the value of that `add`) it returns the stored/merged entry, which
    for a new lemma is a NEW object (not the caller's dict) with the same content. -/
def get_after_add : Prop :=
  (∀ (st : State) (lemma : Lemma) (lang : Option LangArg) (l : Lang), resolve st.cur lang = .ok l →
    ret st (.lex (.getLemma lemma) lang) =
      .ok (match entryAt st l lemma with | some (r, e) => .dict r e | none => .none) ∧
    next st (.lex (.getLemma lemma) lang) = st) ∧
  (∀ (st₀ : State) (ops : List Op) (lemma : Lemma) (a : DictArg) (lang : Option LangArg) (l : Lang),
    Good st₀ → resolve (run st₀ ops).cur lang = .ok l →
    ∃ r e, ret (run st₀ ops) (.lex (.add lemma a) lang) = .ok (.dict r e) ∧
      ret (next (run st₀ ops) (.lex (.add lemma a) lang)) (.lex (.getLemma lemma) lang) = .ok (.dict r e) ∧
      entryView e = storeOrMerge (view (run st₀ ops) l lemma) (argContent (run st₀ ops) a) ∧
      (view (run st₀ ops) l lemma = none → r = (run st₀ ops).fresh ∧ e = argContent (run st₀ ops) a))

theorem getLemmaRet_eq (st : State) (l : Lang) (lemma : Lemma) :
    getLemmaRet st l lemma = (match entryAt st l lemma with | some (r, e) => .dict r e | none => .none) := by
  unfold getLemmaRet entryAt
  cases dget lemma (st.lexOf l) <;> rfl

theorem get_after_add_holds : get_after_add := by
  refine ⟨fun st lemma lang l hr => ⟨?_, ?_⟩, ?_⟩
  · simp only [ret, step, hr, exec, getLemmaRet_eq]
  · rw [next_lex_ok _ _ _ l hr]; rfl
  · intro st₀ ops lemma a lang l hg hr
    have hwf := (good_run st₀ hg ops).2
    generalize run st₀ ops = st at hr hwf ⊢
    have hcur : (next st (.lex (.add lemma a) lang)).cur = st.cur := by
      rw [next_lex_ok _ _ _ l hr]; exact cur_execNext st l _
    have hr' : resolve (next st (.lex (.add lemma a) lang)).cur lang = .ok l := by rw [hcur]; exact hr
    have hget : ret (next st (.lex (.add lemma a) lang)) (.lex (.getLemma lemma) lang)
        = .ok (.dict (stored st l lemma a).1 (stored st l lemma a).2) := by
      simp only [ret, step, hr', exec, getLemmaRet_eq]
      rw [next_lex_ok _ _ _ l hr, execNext_add, lookup_addCore_same st hwf]
    refine ⟨(stored st l lemma a).1, (stored st l lemma a).2, ?_, hget, ?_, ?_⟩
    · simp only [ret, step, hr, exec, addCore, stored]
      cases hd : dget lemma (st.lexOf l) with
      | none => rfl
      | some r => rfl
    · unfold stored view entryAt
      cases hd : dget lemma (st.lexOf l) with
      | none => simp [storeOrMerge]
      | some r => simp [storeOrMerge, entryView_dupdate]
    · unfold stored view entryAt
      cases hd : dget lemma (st.lexOf l) with
      | none => simp
      | some r => simp

/-! ### frame: other lexicon, other entries -/

/-- the call is about entry `(l', lemma')` -/
def touches (st : State) : Op → Lang → Lemma → Prop
  | .ctl _, _, _ => False
  | .lex o lang, l', lemma' => resolve st.cur lang = .ok l' ∧ lemma' ∈ o.lemmas

/-- **C19.e** a call leaves every entry it is not about unchanged: same object, same content. -/
def other_entries_untouched : Prop :=
  ∀ (st₀ : State) (ops : List Op) (op : Op) (l' : Lang) (lemma' : Lemma),
    Good st₀ → ¬ touches (run st₀ ops) op l' lemma' →
    entryAt (next (run st₀ ops) op) l' lemma' = entryAt (run st₀ ops) l' lemma'

theorem other_entries_untouched_holds : other_entries_untouched := by
  intro st₀ ops op l' lemma' hg hnt
  have hG := good_run st₀ hg ops
  generalize run st₀ ops = st at hnt hG ⊢
  cases op with
  | ctl c =>
    obtain ⟨h1, h2, _⟩ := next_ctl st c
    exact lookup_congr st _ h1 h2 l' lemma'
  | lex o lang =>
    cases hr : resolve st.cur lang with
    | error c => rw [next_lex_err st o lang c hr]
    | ok l =>
      rw [next_lex_ok st o lang l hr]
      apply lookup_execNext_other st hG l o l' lemma'
      intro hc
      apply hnt
      obtain ⟨rfl, hm⟩ := hc
      exact ⟨hr, hm⟩

/-- **C19.f** a call with `lang=ℓ` (or, without `lang`, under current language ℓ) never changes the other
    lexicon: neither the dict itself (keys, order, which objects) nor the content of any of its entries. -/
def other_lexicon_untouched : Prop :=
  ∀ (st₀ : State) (ops : List Op) (o : LOp) (lang : Option LangArg) (l l' : Lang),
    Good st₀ → resolve (run st₀ ops).cur lang = .ok l → l' ≠ l →
    (next (run st₀ ops) (.lex o lang)).lexOf l' = (run st₀ ops).lexOf l' ∧
    ∀ lemma', entryAt (next (run st₀ ops) (.lex o lang)) l' lemma' = entryAt (run st₀ ops) l' lemma'

theorem other_lexicon_untouched_holds : other_lexicon_untouched := by
  intro st₀ ops o lang l l' hg hr hne
  have hG := good_run st₀ hg ops
  generalize run st₀ ops = st at hr hG ⊢
  rw [next_lex_ok st o lang l hr]
  exact ⟨lexOf_execNext_other st l o l' hne,
    fun lemma' => lookup_execNext_other st hG l o l' lemma' (fun hc => hne hc.1)⟩

/-- an unknown language raises `KeyError` before anything happens; `load*`/`getLanguage` touch no lexicon -/
def bad_lang_and_load_frame : Prop :=
  (∀ (st : State) (o : LOp), step st (.lex o (some .bad)) = .error .keyError ∧ next st (.lex o (some .bad)) = st) ∧
  (∀ (st : State) (c : Ctl), (∀ l, (next st (.ctl c)).lexOf l = st.lexOf l) ∧ (next st (.ctl c)).heap = st.heap) ∧
  (∀ (st : State), (next st (.ctl .loadEn)).cur = .en ∧ (next st (.ctl .loadFr)).cur = .fr ∧
    (next st (.ctl (.load .en))).cur = .en ∧ (next st (.ctl (.load .fr))).cur = .fr ∧
    (next st (.ctl (.load .bad))).cur = st.cur ∧ ret st (.ctl .getLanguage) = .ok (.lang st.cur))

theorem bad_lang_and_load_frame_holds : bad_lang_and_load_frame := by
  refine ⟨fun st o => ⟨rfl, rfl⟩, fun st c => ⟨(next_ctl st c).1, (next_ctl st c).2.1⟩, fun st => ?_⟩
  simp [next, step, ret]

/-! ### `lang` omitted = current language ; rules -/

/-- **C19.g** omitting `lang` is the same as naming the current language, for all five functions. -/
def lang_default_is_current : Prop :=
  ∀ (st : State) (o : LOp), step st (.lex o none) = step st (.lex o (some st.cur.toArg))

theorem lang_default_is_current_holds : lang_default_is_current := by
  intro st o
  cases hc : st.cur <;> simp [step, resolve, Lang.toArg, hc]

/-- **C19.h** no history changes the rules; `getRules(lang)` returns those of `lang ?? current`. -/
def rules_never_change : Prop :=
  (∀ (st : State) (ops : List Op) (l : Lang), (run st ops).rulesOf l = st.rulesOf l) ∧
  (∀ (st : State) (lang : Option LangArg) (l : Lang), resolve st.cur lang = .ok l →
    ret st (.lex .getRules lang) = .ok (.rules l (st.rulesOf l)) ∧ next st (.lex .getRules lang) = st)

theorem rules_next (st : State) (op : Op) (l : Lang) : (next st op).rulesOf l = st.rulesOf l := by
  cases op with
  | ctl c => exact (next_ctl st c).2.2.1 l
  | lex o lang =>
    cases hr : resolve st.cur lang with
    | error c => rw [next_lex_err st o lang c hr]
    | ok l₀ => rw [next_lex_ok st o lang l₀ hr]; exact rules_execNext st l₀ o l

theorem rules_never_change_holds : rules_never_change := by
  refine ⟨fun st ops l => ?_, fun st lang l hr => ⟨by simp [ret, step, hr, exec], ?_⟩⟩
  · induction ops generalizing st with
    | nil => rfl
    | cons op r ih =>
      have := ih (next st op)
      simp only [run, List.foldl_cons] at this ⊢
      rw [this, rules_next]
  · rw [next_lex_ok _ _ _ l hr]; rfl

/-! ### the whole history against the two-map specification -/

/-- operations of the specification: contents instead of objects -/
inductive SOp where
  | setCur (l : Lang)
  | add (lemma : Lemma) (e : Entry) (lang : Option LangArg)
  | remove (lemma : Lemma) (lang : Option LangArg)
  | update (items : List (Lemma × Entry)) (lang : Option LangArg)
  | skip

structure SState where
  cur : Lang
  maps : Abs

/-- the lexicon a call is about: the named one, else the current one (an unknown name: none) -/
def specTarget (cur : Lang) : Option LangArg → Option Lang
  | none => some cur
  | some .en => some .en
  | some .fr => some .fr
  | some .bad => none

/-- the property text, executed on two independent maps -/
def SState.step (s : SState) : SOp → SState
  | .setCur l => { s with cur := l }
  | .add lemma e lang =>
    match specTarget s.cur lang with
    | none => s
    | some l => { s with maps := aset s.maps l lemma (some (storeOrMerge (s.maps l lemma) e)) }
  | .remove lemma lang =>
    match specTarget s.cur lang with
    | none => s
    | some l => { s with maps := aset s.maps l lemma none }
  | .update items lang =>
    match specTarget s.cur lang with
    | none => s
    | some l => { s with maps := specUpdate s.maps l items }
  | .skip => s

/-- a concrete call read as a specification operation (dict objects replaced by what they contain) -/
def absOp (st : State) : Op → SOp
  | .ctl .loadEn => .setCur .en
  | .ctl .loadFr => .setCur .fr
  | .ctl (.load .en) => .setCur .en
  | .ctl (.load .fr) => .setCur .fr
  | .ctl (.load .bad) => .skip
  | .ctl .getLanguage => .skip
  | .lex (.add lemma a) lang => .add lemma (argContent st a) lang
  | .lex (.addSingle []) _ => .skip
  | .lex (.addSingle ((lemma, a) :: _)) lang => .add lemma (argContent st a) lang
  | .lex (.remove lemma) lang => .remove lemma lang
  | .lex (.update nl) lang => .update (absItems st ((specTarget st.cur lang).getD st.cur) nl) lang
  | .lex (.getLemma _) _ => .skip
  | .lex .getLexicon _ => .skip
  | .lex .getRules _ => .skip

def absOps (st : State) : List Op → List SOp
  | [] => []
  | op :: ops => absOp st op :: absOps (next st op) ops

def absState (st : State) : SState := ⟨st.cur, view st⟩

/-- **C19.i** refinement for whole histories: running any history of calls and then reading the two lexicons
    gives what the specification computes on two independent maps. -/
def history_refines : Prop :=
  ∀ (st₀ : State) (ops : List Op), Good st₀ →
    absState (run st₀ ops) = (absOps st₀ ops).foldl SState.step (absState st₀)

theorem specTarget_ok (cur : Lang) (lang : Option LangArg) (l : Lang) (h : resolve cur lang = .ok l) :
    specTarget cur lang = some l := by
  cases lang with
  | none => simp [resolve] at h; simp [specTarget, h]
  | some la => cases la <;> simp [resolve] at h <;> simp [specTarget, h]

theorem specTarget_err (cur : Lang) (lang : Option LangArg) (c : Crash) (h : resolve cur lang = .error c) :
    specTarget cur lang = none := by
  cases lang with
  | none => simp [resolve] at h
  | some la => cases la <;> simp [resolve] at h <;> rfl

theorem view_congr (st st' : State) (hl : ∀ l, st'.lexOf l = st.lexOf l) (hh : st'.heap = st.heap) : view st' = view st := by
  funext l lemma
  simp [view, lookup_congr st st' hl hh]

theorem abs_next (st : State) (hg : Good st) (op : Op) : absState (next st op) = (absState st).step (absOp st op) := by
  cases op with
  | ctl c =>
    have hv : view (next st (.ctl c)) = view st := view_congr st _ (next_ctl st c).1 (next_ctl st c).2.1
    cases c with
    | loadEn => simp only [absState, hv, absOp, SState.step]; rfl
    | loadFr => simp only [absState, hv, absOp, SState.step]; rfl
    | load la => cases la <;> (simp only [absState, hv, absOp, SState.step]; rfl)
    | getLanguage => simp only [absState, hv, absOp, SState.step]; rfl
  | lex o lang =>
    cases hr : resolve st.cur lang with
    | error c =>
      have ht := specTarget_err _ _ _ hr
      rw [next_lex_err st o lang c hr]
      cases o with
      | add lemma a => simp [absOp, SState.step, absState, ht]
      | addSingle items =>
        cases items with
        | nil => simp [absOp, SState.step]
        | cons p r => obtain ⟨lemma, a⟩ := p; simp [absOp, SState.step, absState, ht]
      | remove lemma => simp [absOp, SState.step, absState, ht]
      | update nl => simp [absOp, SState.step, absState, ht]
      | getLemma lemma => simp [absOp, SState.step]
      | getLexicon => simp [absOp, SState.step]
      | getRules => simp [absOp, SState.step]
    | ok l =>
      have ht := specTarget_ok _ _ _ hr
      rw [next_lex_ok st o lang l hr]
      have hcur := cur_execNext st l o
      cases o with
      | add lemma a =>
        simp only [absState, absOp, SState.step, ht, hcur]
        rw [execNext_add, view_addCore st hg]
      | addSingle items =>
        cases items with
        | nil => simp [absOp, SState.step]
        | cons p r =>
          obtain ⟨lemma, a⟩ := p
          simp only [absState, absOp, SState.step, ht, hcur]
          rw [execNext_addSingle_cons, view_addCore st hg]
      | remove lemma =>
        simp only [absState, absOp, SState.step, ht, hcur]
        rw [execNext_remove, view_removeAt]
      | update nl =>
        simp only [absState, absOp, SState.step, ht, hcur, Option.getD_some]
        rw [execNext_update, view_foldStore st hg]
      | getLemma lemma => simp [absOp, SState.step]
      | getLexicon => simp [absOp, SState.step]
      | getRules => simp [absOp, SState.step]

theorem history_refines_holds : history_refines := by
  intro st₀ ops hg
  induction ops generalizing st₀ with
  | nil => rfl
  | cons op r ih =>
    have := ih (next st₀ op) (good_next st₀ hg op)
    simp only [run, List.foldl_cons, absOps] at this ⊢
    rw [this, abs_next st₀ hg]

/-! ### link to terminal construction -/

abbrev TermSide := Lemma → Prop
def AlwaysT : TermSide := fun _ => True
/-- the lemma has no `œ`/`æ` ligature (`Terminal.setLemma` rewrites them to `oe`/`ae` before the lookup) -/
def Plain : TermSide := fun lemma => normLemma lemma = lemma

/-- **C19.j** after `addToLexicon(lemma, infos, lang)` a newly created terminal of that lemma in the language
    whose lexicon was changed (`lang=` of the terminal given, or omitted under that current language), of a
    category that `infos` gives, reads the NEW value of that category (and the rules of its own language): it
    inflects according to the new information. Whatever the current language is. -/
def NewTerminalUsesNewEntry (S : TermSide) : Prop :=
  ∀ (st : State) (lemma : Lemma) (a : DictArg) (lang tl : Option LangArg) (l : Lang) (cat : Cat) (v : Val),
    Bounded st → S lemma → resolve st.cur lang = .ok l → termLang st.cur tl = l →
    (dkeys (argContent st a)).Nodup → dget cat (argContent st a) = some v →
    lookupForTerminal (next st (.lex (.add lemma a) lang)) tl lemma cat = .found v l (st.rulesOf l)

def new_terminal_uses_new_entry : Prop := NewTerminalUsesNewEntry AlwaysT

theorem lookupForTerminal_eq (st : State) (tl : Option LangArg) (lemma : Lemma) (cat : Cat) :
    lookupForTerminal st tl lemma cat =
      (match entryAt st (termLang st.cur tl) (normLemma lemma) with
       | none => .unknown (termLang st.cur tl)
       | some (_, e) =>
         match dget cat e with
         | none => .otherPOS (termLang st.cur tl) ((dkeys e).filter (fun k => !decide (k = ldv)))
         | some v => .found v (termLang st.cur tl) (st.rulesOf (termLang st.cur tl))) := by
  unfold lookupForTerminal entryAt
  dsimp only
  cases dget (normLemma lemma) (st.lexOf (termLang st.cur tl)) <;> rfl

theorem new_terminal_uses_new_entry_partial : NewTerminalUsesNewEntry Plain := by
  intro st lemma a lang tl l cat v hwf hplain hr ht hnd hv
  rw [lookupForTerminal_eq, next_lex_ok _ _ _ _ hr, cur_execNext, hplain, rules_execNext, ht, execNext_add,
    lookup_addCore_same st hwf]
  have hcat : dget cat (stored st l lemma a).2 = some v := by
    unfold stored
    cases hd : dget lemma (st.lexOf l) with
    | none => exact hv
    | some r =>
      have := congrFun (entryView_dupdate (content st.heap r) (argContent st a)) cat
      simp only [entryView] at this
      simp only [this, mergeMap_nodup _ _ _ hnd, hv]
  simp only [hcat]

/-- `addToLexicon("œ",{"N":"n1"})`, then `N("œ")`: looked up as "oe" — "not in lexicon" -/
theorem new_terminal_uses_new_entry_refuted : ¬ new_terminal_uses_new_entry := by
  intro h
  have h1 := h emptyState ['œ'] dN none none .en ['N'] ['n', '1'] good_empty.2 trivial rfl rfl
    (by decide) (by decide)
  revert h1
  decide

/-- **C19.k** after `addToLexicon(lemma, None, lang)` a newly created terminal of that lemma in that language
    is reported unknown ("not in lexicon", realized `[[lemma]]`). Whatever the current language is. -/
def RemovedIsUnknown (S : TermSide) : Prop :=
  ∀ (st : State) (lemma : Lemma) (lang tl : Option LangArg) (l : Lang) (cat : Cat),
    S lemma → resolve st.cur lang = .ok l → termLang st.cur tl = l →
    lookupForTerminal (next st (.lex (.remove lemma) lang)) tl lemma cat = .unknown l

def removed_is_unknown : Prop := RemovedIsUnknown AlwaysT

theorem removed_is_unknown_partial : RemovedIsUnknown Plain := by
  intro st lemma lang tl l cat hplain hr ht
  rw [lookupForTerminal_eq, next_lex_ok _ _ _ _ hr, cur_execNext, hplain, ht, execNext_remove, lookup_removeAt]
  simp

/-- "oe" in the lexicon, `addToLexicon("œ",None)`, then `N("œ")`: the entry of "oe" is found -/
theorem removed_is_unknown_refuted : ¬ removed_is_unknown := by
  intro h
  have h1 := h (next emptyState (.lex (.add ['o', 'e'] dN) none)) ['œ'] none none .en ['N'] trivial rfl rfl
  revert h1
  decide

/-- the terminal's own language decides, never the current one (the point of fix 8586a6a): two states that differ
    only in the current language give the same lookup to a terminal whose language is named -/
def terminal_lookup_ignores_current : Prop :=
  ∀ (st : State) (c : Lang) (la : LangArg) (lemma : Lemma) (cat : Cat),
    lookupForTerminal (st.setCur c) (some la) lemma cat = lookupForTerminal st (some la) lemma cat

theorem terminal_lookup_ignores_current_holds : terminal_lookup_ignores_current := by
  intro st c la lemma cat
  cases la <;> simp [lookupForTerminal, termLang]

/-! ### non-vacuity and tests (concrete instances; these are tests, not property theorems) -/

-- a history: one dict per lexicon, then a merge and a removal
def freshHistory : List Op :=
  [.lex (.add wLemma dN) (some .en), .ctl .loadFr, .lex (.add wLemma dA) none,
   .lex (.add wLemma (.lit [(['V'], ['v', '1'])])) (some .en), .lex (.remove wLemma) (some .fr)]

/-- the former aliasing witness: the stored object of the English "w" passed again as the French "w", then an
    `add` to the English one — the French entry is a copy and keeps its content (3c7823e) -/
def formerlySharing : List Op :=
  [.lex (.add wLemma dN) (some .en), .lex (.add wLemma (.obj 0)) (some .fr), .lex (.add wLemma dA) (some .en)]

example : (view (run emptyState formerlySharing) .fr wLemma).map (fun m => (m ['N'], m ['A']))
    = some (some ['n', '1'], none) := by decide
example : (view (run emptyState formerlySharing) .en wLemma).map (fun m => (m ['N'], m ['A']))
    = some (some ['n', '1'], some ['a', '1']) := by decide
example : (entryAt (run emptyState formerlySharing) .en wLemma).map Prod.fst = some 0 ∧
    (entryAt (run emptyState formerlySharing) .fr wLemma).map Prod.fst = some 1 := by decide
example : (view (run emptyState freshHistory) .en wLemma).map (fun m => (m ['N'], m ['V'], m ['A']))
    = some (some ['n', '1'], some ['v', '1'], none) := by decide
example : (view (run emptyState freshHistory) .fr wLemma).isNone = true := by decide
example : (run emptyState freshHistory).cur = .fr := by decide
-- terminal under the current language sees the new entry; after removal it is unknown
example : lookupForTerminal (next emptyState (.lex (.add wLemma dN) none)) none wLemma ['N'] = .found ['n', '1'] .en 0 := by decide
example : lookupForTerminal (next emptyState (.lex (.add wLemma dN) none)) none wLemma ['V'] = .otherPOS .en [['N']] := by decide
-- a French terminal created under `loadEn()` sees the French lexicon (fix 8586a6a)
example : lookupForTerminal (next emptyState (.lex (.add wLemma dN) (some .fr))) (some .fr) wLemma ['N'] = .found ['n', '1'] .fr 1 := by decide
example : lookupForTerminal (next emptyState (.lex (.add wLemma dN) (some .fr))) none wLemma ['N'] = .unknown .en := by decide
-- single-dict form with an empty dict: IndexError, after the language was resolved
example : step emptyState (.lex (.addSingle []) none) = .error .indexError := by rfl
example : step emptyState (.lex (.addSingle []) (some .bad)) = .error .keyError := by rfl

end Pyrealb.C19
