import Pyrealb.Lemmas.ClauseFrPlain
import Pyrealb.Lemmas.ClauseFrPlainNeg
import Pyrealb.Model.ClauseFrRealize
/-! # C08 (French half) — the constituent and the dependency notation of the same clause realize identically

`realize .phrase sp` and `realize .dep sp` are the two halves of the model (`ClauseFrPhrase`, `ClauseFrDep`), each tied
to its implementation by the correspondence sweep. The two implementations are separately written
(`Phrase.py/PhraseFr.py` vs `Dependent.py/DependentFr.py`) and share only the mixin `NonTerminalFr`
(`doPronounPlacement`, `checkAdverbPos`) and the terminals. -/
namespace Pyrealb.C08Fr
open Pyrealb Pyrealb.ClauseFr Pyrealb.Gen.ClauseFr

/-- **C08-fr**: every clause specification realizes to the same tokens (and the same exception) in both notations -/
def notations_agree_fr : Prop := ∀ sp : Spec, realize .phrase sp = realize .dep sp

/-! ### witnesses (each one evaluated through the complete model of both pipelines) -/

def mangerLex : VerbLex :=
  { lemma := "manger".toList, aux := "av".toList, pat := some ["tdir".toList], hasTab := true, ending := "ger".toList,
    p := [some "ge".toList, some "ges".toList, some "ge".toList, some "geons".toList, some "gez".toList, some "gent".toList],
    i := [], f := [], ps := [], c := [], s := [], si := [], ip := [], b := some "ger".toList, pr := none,
    pp := .list [some "gé".toList, some "gée".toList, some "gés".toList, some "gées".toList] }
def il : SubjA := .pro false 3 .s .m
def ils : SubjA := .pro false 3 .p .m
def chat (i : Nat) (g : Gd := .m) (pro : Bool := false) : NPA := { id := i, g := g, n := .s, pro := pro }

/-- « Le chat est mangé par lui » / « … par il »: `DependentFr`'s passivate drops the tonic form of a pronoun subject -/
def passiveProSubject : Spec :=
  { subj := some il, verb := mangerLex, t := .p, comps := [.dir (chat 1)], typ := { pas := true } }
/-- « mangé par le chat dans le chat » / « mangé dans le chat par le chat »: the agent is inserted where the object was
    (constituents) or appended (dependencies) -/
def passiveAgentOrder : Spec :=
  { subj := some (.np (chat 0)), verb := mangerLex, t := .p, comps := [.dir (chat 1), .pp "dans".toList (chat 2)],
    typ := { pas := true } }
/-- « Qui mangent ? » / « Qui mange ? »: `wos` resets the number of the verb on the dependency side only -/
def wosPlural : Spec :=
  { subj := some ils, verb := mangerLex, t := .p, comps := [], typ := { int := some "wos".toList } }
/-- « À qui mange-t-il ? »: agrees since commit 38d9ad6 (`preposition_list` moved to the shared mixin; before, the
    dependency notation raised AttributeError) -/
def woiPrep : Spec :=
  { subj := some il, verb := mangerLex, t := .p, comps := [.pp "à".toList (chat 1)], typ := { int := some "woi".toList } }
/-- « Où mange-t-il au chat dans le chat ? » / « Où mange-t-il au chat ? »: the constituent notation only looks at the FIRST
    prepositional phrase of the VP, the dependency notation removes the first one whose preposition qualifies -/
def wheSecondPP : Spec :=
  { subj := some il, verb := mangerLex, t := .p, comps := [.pp "à".toList (chat 1), .pp "dans".toList (chat 2)],
    typ := { int := some "whe".toList } }
/-- « Il l'a pu manger » / « Il l'a [[pouvoir]] manger »: the dependency side keeps the `cod` of the pronominalized object
    on the verb that becomes the modal, whose participle then has to agree with it -/
def modalCod : Spec :=
  { subj := some il, verb := mangerLex, t := .pc, comps := [.dir (chat 1 .f true)], typ := { mod := some "poss".toList } }
/-- « Il mange avec lui » / « Il mange avec il » -/
def otherPrepPro : Spec :=
  { subj := some il, verb := mangerLex, t := .p, comps := [.pp "avec".toList (chat 1 .m true)], typ := {} }
/-- « Je peux me manger » / « Je peux se manger »: `.typ({refl:true, mod:"poss"})` with a 1st person subject and a verb
    whose pattern accepts « réfl » — the infinitive created by the modality shares the person of the subject in the
    constituent notation only -/
def reflModalPerson : Spec :=
  { subj := some (.pro false 1 .s .m), verb := { mangerLex with pat := some ["tdir".toList, "réfl".toList] }, t := .p,
    comps := [], typ := { mod := some "poss".toList, refl := true } }

theorem notations_agree_fr_refuted : ¬ notations_agree_fr := by
  intro h
  exact absurd (h passiveProSubject) (by decide)

theorem disagree_passive_agent_order : realize .phrase passiveAgentOrder ≠ realize .dep passiveAgentOrder := by decide
theorem disagree_wos_plural : realize .phrase wosPlural ≠ realize .dep wosPlural := by decide
theorem agree_woi_prep : realize .phrase woiPrep = realize .dep woiPrep ∧ (realize .phrase woiPrep).isOk = true := by decide
theorem disagree_whe_second_pp : realize .phrase wheSecondPP ≠ realize .dep wheSecondPP := by decide
theorem disagree_modal_cod : realize .phrase modalCod ≠ realize .dep modalCod := by decide
theorem disagree_other_prep_pronoun : realize .phrase otherPrepPro ≠ realize .dep otherPrepPro := by decide
theorem disagree_refl_modal_person : realize .phrase reflModalPerson ≠ realize .dep reflModalPerson ∧
    (realize .phrase reflModalPerson).isOk = true ∧ (realize .dep reflModalPerson).isOk = true := by decide

/-! ### what does agree: the shared placement step -/

/-- **clitic_agree** (partial): `doPronounPlacement` gives the same result on the flat list of the whole clause
    (dependency notation) and on the list of the VP with the rest put in front afterwards (constituent notation),
    whenever no token before the VP is a verb — for any subject, prefix, complements and flags -/
def clitic_agree : Prop :=
  ∀ (refl : Bool) (front vp : List Tok), (∀ t ∈ front, t.isV = false) →
    placePronouns refl (front ++ vp) = (placePronouns refl vp).map (fun out => front ++ out)

theorem clitic_agree_holds : clitic_agree := place_prefix

/-- non-vacuity of `clitic_agree`: a pronoun subject in front, a negated verb with a clitic behind -/
example : placePronouns false ([Tok.pro { lemma := je, c := none, tn := false, pe := 3, n := .s, g := .m } "il".toList] ++
      [Tok.v { mkV mangerLex .p with neg2 := some pas } "mange".toList,
       Tok.pro { lemma := "elle".toList, c := some .acc, tn := false, pe := 3, n := .s, g := .f } "la".toList])
    = .ok [Tok.pro { lemma := je, c := none, tn := false, pe := 3, n := .s, g := .m } "il".toList, .adv ne,
           Tok.pro { lemma := "elle".toList, c := some .acc, tn := false, pe := 3, n := .s, g := .f } "la".toList,
           Tok.v (mkV mangerLex .p) "mange".toList, .q pas] := by decide

/-! ### the plain fragment -/

/-- **partial**: a clause WITHOUT sentence-type flags, in any tense but the imperative, with any subject (pronoun, noun
    phrase, none) and ANY NUMBER of direct / prepositional complements in any order, none of them pronominalized,
    whose verb is not essentially reflexive, realizes to the same tokens in both notations (when the verb conjugates
    and no realization is empty). That the conjugated verb gives `doPronounPlacement` nothing to do is PROVED
    (`conjugate_inert`). Every flag and every pronominalization outside this fragment has a refuting witness above
    or in `known_findings.d/C08fr.json` (the roots found by the small-scope exploration). -/
theorem notations_agree_fr_partial (sp : Spec) (hp : Plain sp) (hnr : sp.verb.pat ≠ some [reflStr])
    (cv : List Tok × Bool) (hcv : conjugate (plainVerb sp) false none = .ok cv)
    (hne : ∀ t ∈ subjToks sp ++ cv.1 ++ compToks sp, t.form ≠ []) :
    realize .phrase sp = realize .dep sp := by
  have h2 := conjugate_none_snd _ _ _ hcv
  have hiv : InertV (plainVerb sp) := by
    refine ⟨?_, ?_, ?_, ?_, ?_⟩ <;> simp [plainVerb, Spec.verbT, mkV, hnr]
  have hin := conjugate_inert _ _ hiv hcv
  simp only [realize, realizePhrase, realizeDep, plain_phrase sp hp cv hcv hin hne, plain_dep sp hp cv hcv h2 hin hne]

/-- non-vacuity: « le chat mange le chat dans le chat » satisfies the hypotheses -/
def plainWitness : Spec :=
  { subj := some (.np (chat 0)), verb := mangerLex, t := .pc, comps := [.dir (chat 1), .pp "dans".toList (chat 2)], typ := {} }

example : Plain plainWitness :=
  ⟨rfl, by decide, rfl, rfl,
   by intro c hc; simp [plainWitness] at hc; rcases hc with rfl | rfl <;> rfl,
   by simp [plainWitness, chat]⟩
example : plainWitness.verb.pat ≠ some [reflStr] := by decide
example : ∃ cv, conjugate (plainVerb plainWitness) false none = .ok cv ∧
    (∀ t ∈ subjToks plainWitness ++ cv.1 ++ compToks plainWitness, t.form ≠ []) := by
  refine ⟨([.v _ _, .v _ _], false), rfl, ?_⟩
  decide

/-! ### the plain fragment with a negation -/

/-- **partial, with negation**: a clause whose only sentence-type flag is a negation (`neg: true` or any second
    negative word), in any tense but the imperative, with any subject and ANY NUMBER of non-pronominalized direct /
    prepositional complements in any order, whose verb is not essentially reflexive and conjugates (first token a
    verb form), realizes to the same tokens in both notations: the constituent notation runs `doPronounPlacement` on
    the tokens of the VP and puts the subject in front, the dependency notation runs it on the whole clause
    (`place_prefix`); that the result holds no empty realization is PROVED from the closed form of the placement.
    Clauses with PRONOMINALIZED complements are not covered: the two notations pronominalize with different code
    (`PhraseFr.pronominalize` / `DependentFr.pronominalize`) and do disagree there (`disagree_other_prep_pronoun`,
    `disagree_modal_cod`, the `dir.pro.agr` roots of known_findings.d/C08fr.json). -/
theorem notations_agree_fr_neg (sp : Spec) (hp : PlainN sp) (hnr : sp.verb.pat ≠ some [reflStr])
    (hw : ∀ nv, sp.typ.neg = some nv → nv.word2 ≠ [])
    (cv : List Tok × Bool) (hcv : conjugate (negVerb sp) false none = .ok cv)
    (y : VT) (f : Str) (tl : List Tok) (hhead : cv.1 = .v y f :: tl)
    (hne : ∀ t ∈ subjToks sp ++ cv.1 ++ compToks sp, t.form ≠ []) :
    realize .phrase sp = realize .dep sp := by
  have hnv : (negVerb sp).isMod = false ∧ (negVerb sp).isProg = false ∧ (negVerb sp).pat ≠ some [reflStr] := by
    unfold negVerb
    split <;> simp [plainVerb, Spec.verbT, mkV, hnr]
  obtain ⟨hyn, hym, hyp, hyr, htl⟩ :=
    conj_plain_head (negVerb sp) hnv.1 hnv.2.1 (negVerb_lier sp) hnv.2.2 cv hcv y f tl hhead
  have hvp : ∀ t ∈ cv.1 ++ compToks sp, t.form ≠ [] := fun t ht => hne t (by
    rcases List.mem_append.mp ht with h | h
    · exact List.mem_append_left _ (List.mem_append_right _ h)
    · exact List.mem_append_right _ h)
  have hpost : ∀ t ∈ tl ++ compToks sp, match t with | .v z _ => z.neg2 = none | _ => True := by
    intro t ht
    rcases List.mem_append.mp ht with h | h
    · have := htl t h
      cases t <;> simp_all [TokTailOk]
    · have := compToks_noV sp t h
      cases t <;> simp_all [Tok.isV]
  have hyw : ∀ w, y.neg2 = some w → w ≠ [] := by
    intro w hwy
    rw [hyn] at hwy
    unfold negVerb at hwy
    cases hn : sp.typ.neg with
    | none => simp [hn, plainVerb, Spec.verbT, mkV] at hwy
    | some nv =>
      simp only [hn, Option.some.injEq] at hwy
      subst hwy
      exact hw nv hn
  obtain ⟨placed, hpl, hpne⟩ := place_plain_forms y f (tl ++ compToks sp) hym hyp hyr hpost
    (by have := hvp (.v y f) (by rw [hhead]; simp); simpa [Tok.form] using this) hyw
    (fun t ht => hvp t (by rw [hhead]; exact List.mem_cons_of_mem _ ht))
  have hpl' : placePronouns false (cv.1 ++ compToks sp) = .ok placed := by rw [hhead]; exact hpl
  have hroot : rootIsVToks cv.1 = true := by rw [hhead]; cases tl <;> rfl
  have hall : ∀ t ∈ subjToks sp ++ placed, t.form ≠ [] := by
    intro t ht
    rcases List.mem_append.mp ht with h | h
    · exact hne t (List.mem_append_left _ (List.mem_append_left _ h))
    · exact hpne t h
  simp only [realize, realizePhrase, realizeDep, plainN_phrase sp hp cv hcv hvp, plainN_dep sp hp cv hcv hroot hne,
    hpl', Except.map, removeEmpty_id _ hall]

/-- non-vacuity: « le chat ne mange plus le chat dans le chat » (passé composé: « n'a plus mangé ») -/
def negWitness : Spec :=
  { subj := some (.np (chat 0)), verb := mangerLex, t := .pc, comps := [.dir (chat 1), .pp "dans".toList (chat 2)],
    typ := { neg := some (.word "plus".toList) } }

example : PlainN negWitness :=
  ⟨rfl, rfl, rfl, rfl, rfl, by decide, rfl, rfl,
   by intro c hc; simp [negWitness] at hc; rcases hc with rfl | rfl <;> rfl,
   by simp [negWitness, chat]⟩
example : ∃ cv y f tl, conjugate (negVerb negWitness) false none = .ok cv ∧ cv.1 = .v y f :: tl ∧
    (∀ t ∈ subjToks negWitness ++ cv.1 ++ compToks negWitness, t.form ≠ []) := by
  refine ⟨([.v _ _, .v _ _], false), _, _, _, rfl, rfl, ?_⟩
  decide
example : realize .phrase negWitness = realize .dep negWitness ∧ (realize .dep negWitness).isOk = true ∧
    (realize .dep negWitness).map (fun o => (o.toks.filter (fun t => t.kind ≠ ['N','P'])).map OutTok.form) =
      .ok ["ne".toList, "a".toList, "plus".toList, "mangé".toList, "dans".toList] := by decide

end Pyrealb.C08Fr
