import Pyrealb.Props.C01
import Pyrealb.Props.C02
import Pyrealb.Props.C06
import Pyrealb.Props.C09
import Pyrealb.Props.C16
/-! # C07 — composition: the "no step crashes" hypothesis (`NoCrash`) of `Props/C07.exception_iff_warning` is
    discharged, component by component, by the totality theorems of the component models. This module only
    COLLECTS them under one name, so that the audit of C07 covers them and a regression of any of them is reported
    under C07 as well. (Whole-expression totality outside these components is explored, not proved: C07 is partial.) -/
namespace Pyrealb.C07

/-- conjugation (every table, lemma, tense, person under the decidable WF predicates), declension (constructor and
    declension never raise), elision (both languages, every token list), coordination (every member list, valid
    persons), number spelling (every |n| < 10²¹): none of the modelled steps raises a Python exception. -/
def components_total : Prop :=
  Pyrealb.C01.total_en ∧ Pyrealb.C01.total_fr ∧
  Pyrealb.C02.ctor_total ∧ Pyrealb.C02.decl_total ∧
  Pyrealb.C06.elision_total ∧
  Pyrealb.C09.coord_no_exception ∧
  Pyrealb.C16.spell_total

theorem components_total_holds : components_total :=
  ⟨Pyrealb.C01.total_en_holds, Pyrealb.C01.total_fr_holds,
   Pyrealb.C02.ctor_total_holds, Pyrealb.C02.decl_total_holds,
   Pyrealb.C06.elision_total_holds,
   Pyrealb.C09.coord_no_exception_holds,
   Pyrealb.C16.spell_total_holds⟩

end Pyrealb.C07
