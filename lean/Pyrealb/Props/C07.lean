import Pyrealb.Model.Total
/-! # C07 — realization is total: warnings and [[lemma]], never an exception

Property theorems only. What is proved here is the DISCIPLINE: (a) for any computation whose individual steps
either are quiet, warn or crash, and that never reads the flag except inside `warn`, the run with
`exceptionOnWarning` raises `PyrealbException` exactly when the run without it warns, and nothing else can escape
unless a step crashes; (b) the generic option setter is total and warns exactly on illegal values/receivers, for
every option of the table regenerated from the source. That the individual steps of construction and
realization never crash is the conjunction of the `…_total` theorems of the component models (C01, C02, C16,
C17, C06, C10, C09, C11, C12 — see their Props files) and, outside the modelled components, is EXPLORED by the
malformed-input generator only: C07 is claimed as partial. -/
namespace Pyrealb.C07
open Pyrealb.Total Pyrealb.Gen.OptionTable

/-- the steps of a computation from state `s` never crash within `fuel` steps -/
def NoCrash {σ} (m : Machine σ) : Nat → σ → Prop
  | 0, _ => True
  | fuel + 1, s =>
    match m.step s with
    | none => True
    | some (.crash, _) => False
    | some (_, s') => NoCrash m fuel s'

theorem run_flag_aux {σ} (m : Machine σ) (fuel : Nat) (s : σ) (w : Nat) (h : NoCrash m fuel s) :
    (∃ k, run m false fuel s w = .returned (w + k) ∧
      (k = 0 → run m true fuel s w = .returned w) ∧ (k ≠ 0 → run m true fuel s w = .pyrealbException)) := by
  induction fuel generalizing s w with
  | zero => exact ⟨0, by simp [run], by simp [run], by simp⟩
  | succ n ih =>
    unfold NoCrash at h
    cases hs : m.step s with
    | none => exact ⟨0, by simp [run, hs], by simp [run, hs], by simp⟩
    | some p =>
      obtain ⟨ev, s'⟩ := p
      rw [hs] at h
      cases ev with
      | crash => exact absurd h (by simp)
      | quiet =>
        obtain ⟨k, h1, h2, h3⟩ := ih s' w h
        exact ⟨k, by simp [run, hs, h1], by intro hk; simp [run, hs, h2 hk], by intro hk; simp [run, hs, h3 hk]⟩
      | warn =>
        obtain ⟨k, h1, _, _⟩ := ih s' (w + 1) h
        refine ⟨k + 1, ?_, by simp, ?_⟩
        · simp [run, hs, h1]; omega
        · intro _; simp [run, hs]

/-- **C07.a** with `exceptionOnWarning` set, `PyrealbException` is raised in exactly the situations that otherwise
    warn, and it is the only exception that can escape (as long as no step crashes) -/
def exception_iff_warning : Prop :=
  ∀ (σ : Type) (m : Machine σ) (fuel : Nat) (s : σ), NoCrash m fuel s →
    ∃ k, run m false fuel s 0 = .returned k ∧
      (k = 0 → run m true fuel s 0 = .returned 0) ∧
      (k ≠ 0 → run m true fuel s 0 = .pyrealbException)

theorem exception_iff_warning_holds : exception_iff_warning := by
  intro σ m fuel s h
  obtain ⟨k, h1, h2, h3⟩ := run_flag_aux m fuel s 0 h
  exact ⟨k, by simpa using h1, h2, h3⟩

/-- **C07.b** a crash of a step is the only way another exception escapes -/
def only_pyrealb_exception : Prop :=
  ∀ (σ : Type) (m : Machine σ) (flag : Bool) (fuel : Nat) (s : σ) (w : Nat),
    NoCrash m fuel s → run m flag fuel s w ≠ .otherException

theorem only_pyrealb_exception_holds : only_pyrealb_exception := by
  intro σ m flag fuel
  induction fuel with
  | zero => intro s w _; simp [run]
  | succ n ih =>
    intro s w h
    unfold NoCrash at h
    cases hs : m.step s with
    | none => simp [run, hs]
    | some p =>
      obtain ⟨ev, s'⟩ := p
      rw [hs] at h
      cases ev with
      | crash => exact absurd h (by simp)
      | quiet => simpa [run, hs] using ih s' w h
      | warn =>
        cases flag with
        | true => simp [run, hs]
        | false => simpa [run, hs] using ih s' (w + 1) h

/-- **C07.c** the generic option setter, for EVERY option of the generated table, every receiver type and every
    value: it sets the property iff the receiver is legal and the value valid, and otherwise warns (never
    raises); an illegal value never overwrites the property except by `False` where `False` is a legal value. -/
def option_decision : Prop :=
  ∀ o ∈ options, ∀ (ct : String) (v : Lit),
    (applyOption o ct (some v) = .set v ↔ (¬ propagates ct o = true ∧ receiverOK ct o = true ∧ o.valid.contains v = true)) ∧
    ((applyOption o ct (some v)).warns = true ↔
        (¬ propagates ct o = true ∧ (receiverOK ct o = false ∨ o.valid.contains v = false)))

theorem option_decision_holds : option_decision := by
  intro o _ ct v
  unfold applyOption
  simp only [reduceCtorEq, false_and, if_false]
  by_cases hp : propagates ct o = true <;> by_cases hr : receiverOK ct o = true <;>
    by_cases hv : o.valid.contains v = true <;> by_cases hf : o.valid.contains (Lit.bool false) = true <;>
    simp_all [OptOutcome.warns]

/-- the table the theorem quantifies over is the real one: 14 options, `t` accepts the 21 tense codes -/
example : options.length = 14 := by decide
example : (options.find? (·.name = "t")).map (·.valid.length) = some 21 := by decide
-- non-vacuity of `NoCrash`: a three-step machine that warns once
example : NoCrash ⟨fun (n : Nat) => if n = 0 then none else some (if n = 2 then .warn else .quiet, n - 1)⟩ 5 3 := by
  simp [NoCrash]

end Pyrealb.C07
