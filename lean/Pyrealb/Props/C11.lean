import Pyrealb.Model.GetElems
import Pyrealb.Lemmas.Typ
import Pyrealb.Lemmas.HeapHist
import Pyrealb.Lemmas.HeapHeaded
/-! # C11 — only the final tree and the final flag values matter

Property theorems only.  Models: `Model/GetElems` (`_getElems`), `Model/Typ` (`Constituent.typ`, reader idioms),
`Model/Heap*` (the construction-time object graph: `Phrase.__init__/add/linkProperties`, `Dependent…`).

* (a) `getElems_flatten`  — holds (all nestings).
* (b) `insert_orders_same_list` — holds (pure list lemma: every insertion order ends in the same sequence).
* (c) `link_confluent` — REFUTED, already within one node (the links are computed BEFORE the adjective re-ordering of
  `Phrase.add`, so they are not a function of the resulting child sequence); `link_confluent_levels` — REFUTED also
  after the repair 54ff0b6 (ancestors are re-linked after `add`): a link written by an earlier run on a node that the
  final runs no longer write survives (`S(N, VP(V1))` then `VP.add(V2, 0)`: `V1` stays linked to the subject).
  `link_confluent_partial` / `link_confluent_levels_partial`: for EVERY history, if every location written by an
  earlier link run is written again by the final runs (the receiver and then its ancestors), and these perform the same
  constant writes in the state reached as in the base state, the link state is that of the final runs alone.
* (d) `typ_*` — hold, for all lists of dicts. -/
namespace Pyrealb.C11
open Pyrealb Pyrealb.GetElems Pyrealb.Typ Pyrealb.Heap

/-! ## (a) `_getElems` -/

/-- **C11.a** `_getElems` is the in-order flattening that drops `None`, for every nesting; and it is idempotent -/
def getElems_flatten : Prop :=
  ∀ (α : Type) (es : List (Arg α)),
    getElems es = (flatten es).map Arg.item ∧ getElems (getElems es) = getElems es

mutual
theorem getElems_eq {α : Type} : ∀ es : List (Arg α), getElems es = (flatten es).map Arg.item
  | [] => by simp [getElems, flatten]
  | e :: es => by simp [getElems, flatten, getElem_eq e, getElems_eq es]
theorem getElem_eq {α : Type} : ∀ e : Arg α, getElem e = (flatten1 e).map Arg.item
  | .none => by simp [GetElems.getElem, flatten1]
  | .item a => by simp [GetElems.getElem, flatten1]
  | .list l => by
    simp only [GetElems.getElem, flatten1, getElems_eq l]
    apply List.filter_eq_self.mpr
    intro x hx
    obtain ⟨a, _, rfl⟩ := List.mem_map.mp hx
    rfl
end

theorem getElems_items {α : Type} (l : List α) : getElems (l.map Arg.item) = l.map Arg.item := by
  induction l with
  | nil => simp [getElems]
  | cons a t ih => simp [getElems, GetElems.getElem, ih]

theorem getElems_flatten_holds : getElems_flatten := by
  intro α es
  refine ⟨getElems_eq es, ?_⟩
  rw [getElems_eq es, getElems_items]

/-! ## (b) every insertion order ends in the same list -/

/-- position at which child number `i` is inserted: the number of children already present that precede it -/
def posOf (present : List Nat) (i : Nat) : Nat := (present.filter (· < i)).length

/-- insert the children `order` (indices into the final sequence) one after the other, each at `posOf` -/
def insertOrder : List Nat → List Nat → List Nat
  | present, [] => present
  | present, i :: rest => insertOrder (insertAt present (posOf present i) i) rest

/-- **C11.b** the children given to the constructor (`init`, in their final relative order) and the others inserted
    later in ANY order (`order`), each at the position the final sequence prescribes, end in the final sequence -/
def insert_orders_same_list : Prop :=
  ∀ (n : Nat) (init order : List Nat), (init ++ order).Perm (List.range n) → init.Pairwise (· < ·) →
    insertOrder init order = List.range n

theorem insertAt_sorted (present : List Nat) (i : Nat) (hs : present.Pairwise (· < ·)) (hi : ¬ i ∈ present) :
    (insertAt present (posOf present i) i).Pairwise (· < ·) ∧
    ∀ x, x ∈ insertAt present (posOf present i) i ↔ x = i ∨ x ∈ present := by
  induction present with
  | nil => simp [insertAt, posOf]
  | cons a t ih =>
    have hs' := List.pairwise_cons.mp hs
    have hia : i ≠ a := fun e => hi (e ▸ List.mem_cons_self)
    have hit : ¬ i ∈ t := fun m => hi (List.mem_cons_of_mem _ m)
    by_cases hlt : a < i
    · have hp : posOf (a :: t) i = posOf t i + 1 := by simp [posOf, hlt]
      have hin : insertAt (a :: t) (posOf t i + 1) i = a :: insertAt t (posOf t i) i := by
        simp [insertAt]
      rw [hp, hin]
      obtain ⟨ihs, ihm⟩ := ih hs'.2 hit
      constructor
      · refine List.pairwise_cons.mpr ⟨?_, ihs⟩
        intro x hx
        rcases (ihm x).mp hx with rfl | hx
        · exact hlt
        · exact hs'.1 x hx
      · intro x
        simp only [List.mem_cons, ihm x]
        constructor
        · rintro (h | h | h) <;> simp [h]
        · rintro (h | h | h) <;> simp [h]
    · have hgt : i < a := by omega
      have hall : ∀ x ∈ t, ¬ x < i := fun x hx => by have := hs'.1 x hx; omega
      have hf : (a :: t).filter (· < i) = [] := by
        apply List.filter_eq_nil_iff.mpr
        intro x hx
        rcases List.mem_cons.mp hx with rfl | hx
        · simpa using hlt
        · simpa using hall x hx
      have hp : posOf (a :: t) i = 0 := by simp [posOf, hf]
      rw [hp]
      simp only [insertAt, List.take_zero, List.drop_zero, List.nil_append]
      constructor
      · refine List.pairwise_cons.mpr ⟨?_, hs⟩
        intro x hx
        rcases List.mem_cons.mp hx with rfl | hx
        · exact hgt
        · have := hs'.1 x hx; omega
      · intro x; simp

theorem sorted_ext : ∀ (l1 l2 : List Nat), l1.Pairwise (· < ·) → l2.Pairwise (· < ·) →
    (∀ x, x ∈ l1 ↔ x ∈ l2) → l1 = l2
  | [], l2, _, _, h => by
    cases l2 with
    | nil => rfl
    | cons b u => exact absurd ((h b).mpr List.mem_cons_self) (by simp)
  | a :: t, l2, h1, h2, h => by
    cases l2 with
    | nil => exact absurd ((h a).mp List.mem_cons_self) (by simp)
    | cons b u =>
      have h1' := List.pairwise_cons.mp h1
      have h2' := List.pairwise_cons.mp h2
      have hab : a = b := by
        have ha : a ∈ b :: u := (h a).mp List.mem_cons_self
        have hb : b ∈ a :: t := (h b).mpr List.mem_cons_self
        rcases List.mem_cons.mp ha with e | ha
        · exact e
        · rcases List.mem_cons.mp hb with e | hb
          · exact e.symm
          · have := h2'.1 a ha; have := h1'.1 b hb; omega
      subst hab
      congr 1
      apply sorted_ext t u h1'.2 h2'.2
      intro x
      constructor
      · intro hx
        have hlt := h1'.1 x hx
        rcases List.mem_cons.mp ((h x).mp (List.mem_cons_of_mem _ hx)) with e | hx'
        · omega
        · exact hx'
      · intro hx
        have hlt := h2'.1 x hx
        rcases List.mem_cons.mp ((h x).mpr (List.mem_cons_of_mem _ hx)) with e | hx'
        · omega
        · exact hx'

theorem insertOrder_spec (present order : List Nat) (hs : present.Pairwise (· < ·)) (nd : (present ++ order).Nodup) :
    (insertOrder present order).Pairwise (· < ·) ∧ ∀ x, x ∈ insertOrder present order ↔ x ∈ present ++ order := by
  induction order generalizing present with
  | nil => simp [insertOrder, hs]
  | cons i rest ih =>
    have hi : ¬ i ∈ present := by
      intro m
      have := List.nodup_append.mp nd
      exact this.2.2 i m i (by simp) rfl
    obtain ⟨s1, m1⟩ := insertAt_sorted present i hs hi
    have nd' : (insertAt present (posOf present i) i ++ rest).Nodup := by
      have hperm : (insertAt present (posOf present i) i ++ rest).Perm (present ++ i :: rest) := by
        have : (insertAt present (posOf present i) i).Perm (i :: present) := by
          unfold insertAt
          have := (List.take_append_drop (posOf present i) present)
          calc (List.take (posOf present i) present ++ i :: List.drop (posOf present i) present).Perm
                (i :: (List.take (posOf present i) present ++ List.drop (posOf present i) present)) :=
                  List.perm_middle
            _ = i :: present := by rw [this]
        exact (this.append_right rest).trans (List.perm_middle.symm)
      exact hperm.nodup_iff.mpr nd
    obtain ⟨s2, m2⟩ := ih _ s1 nd'
    refine ⟨s2, ?_⟩
    intro x
    simp only [insertOrder, m2 x, List.mem_append, m1 x, List.mem_cons]
    constructor
    · rintro ((h | h) | h) <;> simp [h]
    · rintro (h | h | h) <;> simp [h]

theorem insert_orders_same_list_holds : insert_orders_same_list := by
  intro n init order hperm hs
  have nd : (init ++ order).Nodup := hperm.nodup_iff.mpr List.nodup_range
  obtain ⟨s, m⟩ := insertOrder_spec init order hs nd
  apply sorted_ext _ _ s
  · exact List.pairwise_lt_range
  · intro x; rw [m x]; exact hperm.mem_iff

/-! ## (c) re-linking after each insertion -/

/-- the link state of a store: the `peng`/`taux` slots of every node (record identity), the record contents, `cod`,
    `subject` -/
def linkState (h : Heap) : Ptr := h.ptr

/-- successive `add(child, position)` of nodes to the phrase `p` -/
def addAll (h : Heap) (p : Nat) : List (Nat × Option Int) → R Heap
  | [] => .ok h
  | (e, pos) :: rest =>
    match phraseAdd1 h p e pos with
    | .ok h1 => addAll h1 p rest
    | .crash c => .crash c
    | .outside => .outside

def items (l : List Nat) : List (Arg Item) := l.map (fun c => Arg.item (Item.node c))

/-- **C11.c** (one node) whatever the base store `h0`, the constructor arguments and the later insertions: when the
    history ends with the child sequence `L`, the link state is the one of the one-shot construction `mk p L` -/
def link_confluent : Prop :=
  ∀ (h0 : Heap) (k : Kind) (lang : Lang) (args : List (Arg Item)) (steps : List (Nat × Option Int)) (hm h : Heap)
    (p : Nat), mkPhrase h0 k lang args = .ok (hm, p) → addAll hm p steps = .ok h →
    ∀ (h1 : Heap) (p1 : Nat), mkPhrase h0 k lang (items (h.kids p)) = .ok (h1, p1) → linkState h = linkState h1

/-- **C11.c** (across levels) attaching `p` to a parent before / after `p` has received its last child (at any position)
    gives the same link state -/
def link_confluent_levels : Prop :=
  ∀ (h0 : Heap) (k1 k2 : Kind) (lang : Lang) (kids1 kidsFinal : List Nat) (c : Nat) (pos : Option Int)
    (before after : List Nat) (ha1 ha hb1 hb2 hb : Heap) (p q p' q' : Nat),
    -- bottom-up: p complete, then the parent
    mkPhrase h0 k1 lang (items kidsFinal) = .ok (ha1, p) →
    mkPhrase ha1 k2 lang (items (before ++ [p] ++ after)) = .ok (ha, q) →
    -- top-down: p without its last child, the parent, then the child is added to p
    mkPhrase h0 k1 lang (items kids1) = .ok (hb1, p') →
    mkPhrase hb1 k2 lang (items (before ++ [p'] ++ after)) = .ok (hb2, q') →
    phraseAdd1 hb2 p' c pos = .ok hb → hb.kids p' = kidsFinal →
    linkState ha = linkState hb

/-! ### refutations (concrete witnesses, replayed on the real code by the harness) -/

def R.isOk {α} : R α → Bool
  | .ok _ => true
  | _ => false

def R.get {α} (d : α) : R α → α
  | .ok a => a
  | _ => d

theorem R.eq_ok {α} (d : α) (r : R α) (h : R.isOk r = true) : r = .ok (R.get d r) := by
  cases r <;> simp_all [R.isOk, R.get]

def tspec (k : Kind) (lem : String) (n : String := "s") : TermSpec :=
  { kind := k, lang := .en, lemma := lem.toList, pe := .i 3, n := .s n.toList, g := .s ['n'], t := .s ['p'] }

/-- `N("cat")`, `A("big")` -/
def w1_base : Heap := (mkTerminal (mkTerminal {} (tspec .N "cat")).1 (tspec .A "big")).1

def w1_hist : Heap × Nat := R.get (default, 0) (mkPhrase w1_base .VP .en (items [0, 1]))
def w1_one : Heap × Nat := R.get (default, 0) (mkPhrase w1_base .VP .en (items [1, 0]))

/-- Witness within ONE node, no `add` at all: `VP(N("cat"), A("big"))` links the VP to the record of its first child
    `cat`, then moves the adjective in front; built from its own resulting sequence `VP(A("big"), N("cat"))` the VP is
    linked to the record of `big`. -/
theorem link_confluent_refuted : ¬ link_confluent := by
  intro H
  have e1 : mkPhrase w1_base .VP .en (items [0, 1]) = .ok w1_hist :=
    R.eq_ok (default, 0) (mkPhrase w1_base .VP .en (items [0, 1])) (by decide)
  have hk : w1_hist.1.kids 2 = [1, 0] := by decide
  have hp : w1_hist.2 = 2 := by decide
  have e2 : mkPhrase w1_base .VP .en (items [1, 0]) = .ok w1_one :=
    R.eq_ok (default, 0) (mkPhrase w1_base .VP .en (items [1, 0])) (by decide)
  have e1' : mkPhrase w1_base .VP .en (items [0, 1]) = .ok (w1_hist.1, 2) :=
    e1.trans (congrArg R.ok (Prod.ext rfl hp))
  have e2' : mkPhrase w1_base .VP .en (items (w1_hist.1.kids 2)) = .ok (w1_one.1, w1_one.2) := by
    rw [hk]; exact e2
  have key := H w1_base .VP .en (items [0, 1]) [] w1_hist.1 w1_hist.1 2 e1' rfl w1_one.1 w1_one.2 e2'
  have := congrArg (fun q => q.peng 2) key
  revert this
  decide

/-- `N("cat").n("p")`, `V("sleep")`, `V("eat")` : handles 0,1,2 -/
def w2_base : Heap :=
  (mkTerminal (mkTerminal (mkTerminal {} (tspec .N "cat" "p")).1 (tspec .V "sleep")).1 (tspec .V "eat")).1

def w2_a1 : Heap × Nat := R.get (default, 0) (mkPhrase w2_base .VP .en (items [2, 1]))
def w2_a2 : Heap × Nat := R.get (default, 0) (mkPhrase w2_a1.1 .S .en (items ([0] ++ [3] ++ [])))
def w2_b1 : Heap × Nat := R.get (default, 0) (mkPhrase w2_base .VP .en (items [1]))
def w2_b2 : Heap × Nat := R.get (default, 0) (mkPhrase w2_b1.1 .S .en (items ([0] ++ [3] ++ [])))
def w2_b3 : Heap := R.get default (phraseAdd1 w2_b2.1 3 2 (some 0))

/-- Witness across levels (repaired code): `vp=VP(V("sleep")); s=S(N("cat").n("p"),vp); vp.add(V("eat"),0)` — the
    ancestors ARE re-linked, `eat` becomes the verb of the sentence, but `sleep` keeps the subject's record that the
    first run of S gave it; bottom-up (`VP(V("eat"),V("sleep"))`) it keeps its own: “Cats eat sleep.” / “… sleeps.” -/
theorem link_confluent_levels_refuted : ¬ link_confluent_levels := by
  intro H
  have a1 : mkPhrase w2_base .VP .en (items [2, 1]) = .ok w2_a1 := R.eq_ok _ _ (by decide)
  have pa : w2_a1.2 = 3 := by decide
  have a2 : mkPhrase w2_a1.1 .S .en (items ([0] ++ [3] ++ [])) = .ok w2_a2 := R.eq_ok _ _ (by decide)
  have b1 : mkPhrase w2_base .VP .en (items [1]) = .ok w2_b1 := R.eq_ok _ _ (by decide)
  have pb : w2_b1.2 = 3 := by decide
  have b2 : mkPhrase w2_b1.1 .S .en (items ([0] ++ [3] ++ [])) = .ok w2_b2 := R.eq_ok _ _ (by decide)
  have b3 : phraseAdd1 w2_b2.1 3 2 (some 0) = .ok w2_b3 := R.eq_ok _ _ (by decide)
  have hk : w2_b3.kids 3 = [2, 1] := by decide
  have a1' : mkPhrase w2_base .VP .en (items [2, 1]) = .ok (w2_a1.1, 3) :=
    a1.trans (congrArg R.ok (Prod.ext rfl pa))
  have b1' : mkPhrase w2_base .VP .en (items [1]) = .ok (w2_b1.1, 3) :=
    b1.trans (congrArg R.ok (Prod.ext rfl pb))
  have key := H w2_base .VP .S .en [1] [2, 1] 2 (some 0) [0] [] w2_a1.1 w2_a2.1 w2_b1.1 w2_b2.1 w2_b3 3 w2_a2.2 3 w2_b2.2
    a1' a2 b1' b2 b3 hk
  have := congrArg (fun q => q.peng 1) key
  revert this
  decide

/-! ### what is true: absorption of the earlier link runs -/

/-- a successful history of insertions has a trace of link plans -/
theorem addAll_trace (h : Heap) (p : Nat) (steps : List (Nat × Option Int)) (h' : Heap)
    (hr : addAll h p steps = .ok h') : ∃ Ps, Trace p h steps Ps h' := by
  induction steps generalizing h with
  | nil => simp [addAll] at hr; subst hr; exact ⟨[], Trace.nil h⟩
  | cons s rest ih =>
    obtain ⟨e, pos⟩ := s
    simp only [addAll] at hr
    cases h1r : phraseAdd1 h p e pos with
    | crash c => rw [h1r] at hr; simp at hr
    | outside => rw [h1r] at hr; simp at hr
    | ok h1 =>
      rw [h1r] at hr
      obtain ⟨Ps, tr⟩ := ih h1 hr
      obtain ⟨P, Qs, hl, hu, hp, hlk, u, rfl⟩ := phraseAdd1_trace h p e pos h1 h1r
      exact ⟨P :: Qs ++ Ps, Trace.cons hp hlk u tr⟩

/-- absorption with several final runs (the re-linked node and then its ancestors) -/
theorem runs_absorbed_many (q : Ptr) (Ps Qs : List (List Act)) (W V : List Wr)
    (hW : runW q Ps = some W) (hV : runW q Qs = some V) (stable : runW (applyW q W) Qs = some V)
    (cover : ∀ l ∈ locs W, l ∈ locs V) : runPlans q (Ps ++ Qs) = runPlans q Qs := by
  rw [runPlans_append, runW_sound q Ps W hW]
  simp only
  rw [runW_sound _ Qs V stable, runW_sound q Qs V hV, applyW_absorb q W V cover]

/-- **C11.c partial** (every history of insertions into one node, attached or not).  `hinit`/`hinit'` are the stores in
    which the first link run of the history / of the one-shot construction takes place (same pointer part).  If
    * the history's link runs are `Ps` followed by the runs `Qs` of its LAST insertion (the receiver, then each of its
      ancestors), and the one-shot construction performs the same runs `Qs`,
    * every location written by the earlier runs (`W`) is written again by `Qs` (`cover`),
    * `Qs` perform the same constant writes `V` in the state the history reached as in the base state (`stable`),
    then the history ends in the link state of the one-shot construction. -/
theorem link_confluent_partial (hinit hinit' : Heap) (p p' : Nat) (steps : List (Nat × Option Int))
    (Ps Qs : List (List Act)) (h : Heap) (e' : Nat) (pos' : Option Int) (h1 : Heap)
    (base : hinit.ptr = hinit'.ptr)
    (tr : Trace p hinit steps (Ps ++ Qs) h) (one : Trace p' hinit' [(e', pos')] Qs h1)
    (pure : ∀ Q ∈ Ps ++ Qs, PurePlan Q)
    (W V : List Wr) (hW : runW hinit.ptr Ps = some W) (hV : runW hinit.ptr Qs = some V)
    (stable : runW (applyW hinit.ptr W) Qs = some V) (cover : ∀ l ∈ locs W, l ∈ locs V) :
    linkState h = linkState h1 := by
  have t1 := trace_ptr tr pure
  have t2 := trace_ptr one (fun Q hQ => pure Q (by simp [hQ]))
  rw [runs_absorbed_many _ Ps Qs W V hW hV stable cover] at t1
  rw [← base] at t2
  rw [t1] at t2
  simp only [Except.ok.injEq] at t2
  exact t2

theorem headed_pure (wt : Bool) (p : Nat) (Q : List Act) (hQ : Headed wt p Q) : PurePlan Q := by
  rcases hQ with rfl | ⟨hd, _, rfl⟩
  · intro a ha; simp at ha
  · intro a ha
    cases wt <;> simp [headedPlan] at ha
    · subst ha; rfl
    · rcases ha with rfl | rfl <;> rfl

/-- **C11.c structural** (VP, PP, AP, AdvP — the phrases whose link run only copies the record(s) of their head;
    `Lemmas/HeapHeaded.plan_headed`: every plan of such a phrase that does not contain itself has the form `Headed`).
    For EVERY history of insertions into such a phrase `p` (not yet attached), in any order and at any position: if the
    head `H` of the final child list has an agreement record (and a tense record when `p` is a VP, `wt = true`) — e.g. it
    is the V of the VP, the A of the AP — the history ends in the link state of the one-shot construction, whatever the
    heads of the intermediate child lists were (`VP(Adv("now")).add(V("sleep"))`, a head inserted in front of another …).
    The condition fails exactly in the known within-node findings of these kinds (a final head without record: PP, a
    phrase left headless). -/
theorem link_confluent_headed (wt : Bool) (hinit hinit' : Heap) (p p' : Nat) (steps : List (Nat × Option Int))
    (Ps : List (List Act)) (H : Nat) (h : Heap) (e' : Nat) (pos' : Option Int) (h1 : Heap)
    (base : hinit.ptr = hinit'.ptr)
    (tr : Trace p hinit steps (Ps ++ [headedPlan wt p H]) h)
    (one : Trace p' hinit' [(e', pos')] [headedPlan wt p H] h1)
    (shape : ∀ Q ∈ Ps, Headed wt p Q) (hH : H ≠ p) (hp : (hinit.peng H).isSome)
    (ht : wt = true → (hinit.taux H).isSome) : linkState h = linkState h1 := by
  have pureF : PurePlan (headedPlan wt p H) := headed_pure wt p _ (Or.inr ⟨H, hH, rfl⟩)
  have pure : ∀ Q ∈ Ps ++ [headedPlan wt p H], PurePlan Q := by
    intro Q hQ
    rcases List.mem_append.mp hQ with hQ | hQ
    · exact headed_pure wt p Q (shape Q hQ)
    · simp at hQ; subst hQ; exact pureF
  have t1 := trace_ptr tr pure
  have t2 := trace_ptr one (fun Q hQ => by simp at hQ; subst hQ; exact pureF)
  rw [headed_absorbed wt hinit.ptr p H Ps shape hH hp ht] at t1
  simp only [runPlans] at t2
  rw [← base] at t2
  cases hx : execP hinit.ptr (headedPlan wt p H) with
  | error c => rw [hx] at t1; cases t1
  | ok q =>
    rw [hx] at t1 t2
    simp only [Except.ok.injEq] at t1 t2
    simp only [linkState, ← t1, ← t2]

/-- **C11.c partial** (across levels, on the pointer part).  A history whose link runs are `Ps` (nodes linked while
    still incomplete, ancestors linked before their descendants were complete …) and which ENDS by re-linking, bottom-up,
    the nodes `Qs` (the receiver of the last `add` and then every ancestor) reaches the link state of running `Qs` alone
    — i.e. of bottom-up construction — as soon as the final runs cover what the earlier ones wrote and are stable.
    Since 54ff0b6 the code performs the ancestor runs after every `add`; `link_confluent_levels_refuted` is a history in
    which `cover` fails (a node linked by an earlier run is no longer written by the final ones). -/
theorem link_confluent_levels_partial (q : Ptr) (Ps Qs : List (List Act)) (W V : List Wr)
    (hW : runW q Ps = some W) (hV : runW q Qs = some V) (stable : runW (applyW q W) Qs = some V)
    (cover : ∀ l ∈ locs W, l ∈ locs V) : runPlans q (Ps ++ Qs) = runPlans q Qs :=
  runs_absorbed_many q Ps Qs W V hW hV stable cover

/-! ## (d) `typ` -/

/-- a dict: unique keys -/
def IsDict (d : Dict) : Prop := d.keys.Nodup

/-- value of flag `k` in the stored map after the successive calls `ds` on a fresh receiver -/
def flagAfter (lang : Lang) (ds : List Dict) (k : Str) : Option Val :=
  lookup k ((storedAfter lang none ds).getD [])

theorem flagAfter_eq (lang : Lang) (ds : List Dict) (nd : ∀ d ∈ ds, IsDict d) (k : Str) :
    flagAfter lang ds k = effective lang ds k := by
  unfold flagAfter
  rw [lookup_storedAfter, effFrom_spec lang none ds nd k]
  cases effective lang ds k <;> simp [lookup]

/-- call by call, the same dict up to the order of its keys -/
inductive PermEach : List Dict → List Dict → Prop where
  | nil : PermEach [] []
  | cons {d d' : Dict} {ds ds' : List Dict} : d.Perm d' → PermEach ds ds' → PermEach (d :: ds) (d' :: ds')

/-- **C11.d1** the key order inside each call is irrelevant -/
def typ_merge_order_free : Prop :=
  ∀ (lang : Lang) (ds ds' : List Dict), (∀ d ∈ ds, IsDict d) → PermEach ds ds' →
    ∀ k, flagAfter lang ds k = flagAfter lang ds' k

theorem effective_perm (lang : Lang) (ds ds' : List Dict) (nd : ∀ d ∈ ds, IsDict d)
    (hp : PermEach ds ds') (k : Str) : effective lang ds k = effective lang ds' k := by
  induction hp with
  | nil => rfl
  | cons hd _ ih =>
    simp only [effective]
    rw [ih (fun d hdm => nd d (List.mem_cons_of_mem _ hdm))]
    have h1 := nd _ List.mem_cons_self
    unfold lookupV
    rw [lookup_perm (keys_filter_nodup h1 _) (hd.filter _) k]

theorem typ_merge_order_free_holds : typ_merge_order_free := by
  intro lang ds ds' nd hp k
  have nd' : ∀ d ∈ ds', IsDict d := by
    intro d hd
    induction hp with
    | nil => simp at hd
    | cons h _ ih =>
      rcases List.mem_cons.mp hd with rfl | hd
      · exact (List.Perm.map _ h).nodup_iff.mp (nd _ List.mem_cons_self)
      · exact ih (fun d hdm => nd d (List.mem_cons_of_mem _ hdm)) hd
  rw [flagAfter_eq lang ds nd, flagAfter_eq lang ds' nd', effective_perm lang ds ds' nd hp]

/-- **C11.d2** one call with a dict = the same entries given in several successive calls, for EVERY way of cutting it -/
def typ_split_equiv : Prop :=
  ∀ (lang : Lang) (ds : List Dict), IsDict ds.flatten → ∀ k, flagAfter lang ds k = flagAfter lang [ds.flatten] k

theorem lookup_append (k : Str) (a b : Dict) :
    lookup k (a ++ b) = (match lookup k a with | some v => some v | none => lookup k b) := by
  induction a with
  | nil => simp [lookup]
  | cons x t ih =>
    obtain ⟨k2, v2⟩ := x
    by_cases h : k2 = k <;> simp [lookup, h, ih]

theorem effective_flatten (lang : Lang) (ds : List Dict) (nd : IsDict ds.flatten) (k : Str) :
    effective lang ds k = lookupV lang ds.flatten k := by
  induction ds with
  | nil => simp [effective, lookupV, lookup]
  | cons d ds ih =>
    have nd2 : IsDict ds.flatten := by
      unfold IsDict Dict.keys at *
      simp only [List.flatten_cons, List.map_append] at nd
      exact (List.nodup_append.mp nd).2.1
    simp only [effective, ih nd2, lookupV, List.flatten_cons, List.filter_append, lookup_append]
    cases h1 : lookup k (List.filter (keptB lang) d) with
    | none => cases lookup k (List.filter (keptB lang) ds.flatten) <;> rfl
    | some v =>
      cases h2 : lookup k (List.filter (keptB lang) ds.flatten) with
      | none => rfl
      | some v' =>
        -- impossible: the key would occur twice
        exfalso
        have m1 := (List.mem_filter.mp (lookup_mem h1)).1
        have m2 := (List.mem_filter.mp (lookup_mem h2)).1
        unfold IsDict Dict.keys at nd
        simp only [List.flatten_cons, List.map_append] at nd
        exact (List.nodup_append.mp nd).2.2 k (List.mem_map.mpr ⟨_, m1, rfl⟩) k (List.mem_map.mpr ⟨_, m2, rfl⟩) rfl

theorem typ_split_equiv_holds : typ_split_equiv := by
  intro lang ds nd k
  have ndall : ∀ d ∈ ds, IsDict d := by
    intro d hd
    unfold IsDict Dict.keys at *
    have : List.Sublist d ds.flatten := List.sublist_flatten_of_mem hd
    exact (this.map _).nodup nd
  rw [flagAfter_eq lang ds ndall, flagAfter_eq lang [ds.flatten] (by simpa using nd)]
  rw [effective_flatten lang ds nd k]
  simp [effective]

/-- **C11.d3** a later valid value replaces an earlier one (what is stored is the value itself, or the boolean a
    numeric 0 / 1 is equal to: `normVal`) -/
def typ_later_wins : Prop :=
  ∀ (lang : Lang) (ds : List Dict) (d : Dict) (k : Str) (v : Val), (∀ x ∈ ds ++ [d], IsDict x) →
    (k, v) ∈ d → entryKept lang k v = true →
      flagAfter lang (ds ++ [d]) k = some (normVal lang k v) ∧
      ((v.isBool || v.isStr) = true → flagAfter lang (ds ++ [d]) k = some v)

theorem effective_snoc (lang : Lang) (ds : List Dict) (d : Dict) (k : Str) :
    effective lang (ds ++ [d]) k =
      (match lookupV lang d k with | some v => some v | none => effective lang ds k) := by
  induction ds with
  | nil => simp [effective]; cases lookupV lang d k <;> rfl
  | cons x t ih =>
    simp only [List.cons_append, effective, ih]
    cases lookupV lang d k <;> rfl

theorem normVal_of_bool_str (lang : Lang) (k : Str) (v : Val) (hv : (v.isBool || v.isStr) = true) : normVal lang k v = v := by
  unfold normVal needsNorm
  cases lookup k Gen.TypConsts.allowedTypes with
  | none => simp
  | some _ => simp only; split <;> simp [hv]

theorem typ_later_wins_holds : typ_later_wins := by
  intro lang ds d k v nd hm hk
  have ndd : IsDict d := nd d (by simp)
  have : lookupV lang d k = some (normVal lang k v) := by
    unfold lookupV
    rw [lookup_of_mem_nodup (keys_filter_nodup ndd _) (List.mem_filter.mpr ⟨hm, by simpa [keptB] using hk⟩)]
    rfl
  have e : flagAfter lang (ds ++ [d]) k = some (normVal lang k v) := by
    rw [flagAfter_eq lang _ nd, effective_snoc, this]
  exact ⟨e, fun hv => by rw [e, normVal_of_bool_str lang k v hv]⟩

/-- since 6301216 a numeric `0` is stored as `False`: "False equals absent" holds for it too (with
    `typ_false_eq_absent` below: every reader treats the stored `False` as an absent flag) -/
theorem typ_zero_stored_false (lang : Lang) (ds : List Dict) (d : Dict) (k : Str) (nd : ∀ x ∈ ds ++ [d], IsDict x)
    (hm : (k, Val.i 0) ∈ d) (hk : entryKept lang k (.i 0) = true) (hn : needsNorm lang (k, .i 0) = true) :
    flagAfter lang (ds ++ [d]) k = some (.b false) := by
  have := (typ_later_wins_holds lang ds d k (.i 0) nd hm hk).1
  rw [this]
  simp [normVal, hn, Val.truthy]

/-- **C11.d4** a flag set to `False` reads like an absent flag, for every reader idiom that the sources use -/
def typ_false_eq_absent : Prop :=
  (∀ st ∈ Gen.TypConsts.readerSites, falseEqAbsent st.idiom = true) ∧
  (∀ (i : Idiom), falseEqAbsent i = true → ∀ (T : Dict) (K K' : Str),
      read i (Dict.set T K (.b false)) K' = read i (Dict.del T K) K')

/-- every reader site of the generated inventory uses an idiom that cannot tell `False` from absent
    (`decide` over the complete table: re-proved whenever a reader is added or changed) -/
theorem typ_false_eq_absent_sites : ∀ st ∈ Gen.TypConsts.readerSites, falseEqAbsent st.idiom = true := by
  decide

theorem typ_false_eq_absent_holds : typ_false_eq_absent :=
  ⟨typ_false_eq_absent_sites, fun i hi T K K' => read_false_eq_absent i hi T K K'⟩

/-- **C11.d5** an entry that fails validation (an illegal value for a known flag) is dropped with a warning: the flag
    keeps the value it had, the other flags are what they would be without the entry; an unknown key only warns -/
def typ_invalid_ignored : Prop :=
  ∀ (lang : Lang) (ds : List Dict) (d : Dict) (k : Str) (v : Val), (∀ x ∈ ds ++ [d], IsDict x) →
    (k, v) ∈ d → entryKept lang k v = false →
      flagAfter lang (ds ++ [d]) k = flagAfter lang ds k ∧
      (∀ k', k' ≠ k → flagAfter lang (ds ++ [d]) k' = flagAfter lang (ds ++ [Dict.del d k]) k') ∧
      1 ≤ (validate lang d).2 ∧
      (∀ (k0 : Str) (v0 : Val), lookup k0 Gen.TypConsts.allowedTypes = none → (k0, v0) ∈ d → 1 ≤ (validate lang d).2)

theorem keys_del_nodup {d : Dict} (nd : IsDict d) (k : Str) : IsDict (Dict.del d k) := keys_filter_nodup nd _

theorem typ_invalid_ignored_holds : typ_invalid_ignored := by
  intro lang ds d k v nd hm hk
  have ndd : IsDict d := nd d (by simp)
  have nds : ∀ x ∈ ds, IsDict x := fun x hx => nd x (by simp [hx])
  have hnone : lookup k (d.filter (keptB lang)) = none := by
    cases h : lookup k (d.filter (keptB lang)) with
    | none => rfl
    | some v' =>
      have m := List.mem_filter.mp (lookup_mem h)
      have : lookup k d = some v' := lookup_of_mem_nodup ndd m.1
      rw [lookup_of_mem_nodup ndd hm] at this
      cases this
      simp [keptB, hk] at m
  refine ⟨?_, ?_, ?_, ?_⟩
  · rw [flagAfter_eq lang _ nd, flagAfter_eq lang ds nds, effective_snoc]
    simp only [lookupV, hnone, Option.map_none]
  · intro k' hne
    have nd2 : ∀ x ∈ ds ++ [Dict.del d k], IsDict x := by
      intro x hx
      rcases List.mem_append.mp hx with hx | hx
      · exact nds x hx
      · simp at hx; subst hx; exact keys_del_nodup ndd k
    rw [flagAfter_eq lang _ nd, flagAfter_eq lang _ nd2, effective_snoc, effective_snoc]
    have : lookup k' ((Dict.del d k).filter (keptB lang)) = lookup k' (d.filter (keptB lang)) := by
      unfold Dict.del
      rw [List.filter_filter]
      have : (List.filter (fun a => keptB lang a && (a.1 != k)) d) = (d.filter (keptB lang)).filter (fun kv => kv.1 != k) := by
        rw [List.filter_filter]; congr 1; funext a; exact Bool.and_comm _ _
      rw [this]
      exact lookup_filter_ne _ k' k hne
    simp only [lookupV, this]
  · rw [validate_snd]
    apply List.length_pos_of_mem (a := (k, v))
    apply List.mem_filter.mpr
    refine ⟨hm, ?_⟩
    unfold entryWarns
    cases hl : lookup k Gen.TypConsts.allowedTypes with
    | none => simp [entryKept, hl] at hk
    | some al => simp [hk]
  · intro k0 v0 hl hm0
    rw [validate_snd]
    apply List.length_pos_of_mem (a := (k0, v0))
    exact List.mem_filter.mpr ⟨hm0, by simp [entryWarns, hl]⟩

/-! ## non-vacuity: concrete instances of the hypotheses -/

/-- test: nested lists, tuples and `None` -/
example : flatten [Arg.item 1, .list [.item 2, .none, .list [.item 3, .list []]], .none, .item 0] = [1, 2, 3, 0] := by
  decide

/-- test: the four children 0..3, two given to the constructor, the others inserted in the order 3, 1 -/
example : insertOrder [0, 2] [3, 1] = [0, 1, 2, 3] := by decide

/-- test: a French dict with a legal, an illegal and an unknown entry, then a later call -/
example : flagAfter .fr [[(s "neg", .s (s "plus")), (s "mod", .s (s "xx")), (s "foo", .b true)], [(s "pas", .b true)]]
    (s "neg") = some (.s (s "plus")) := by decide

/-- test: `mod: 0` given after `mod: "poss"` is accepted (0 == False) and stored as `False` -/
example : flagAfter .en [[(s "mod", .s (s "poss"))], [(s "mod", .i 0), (s "exc", .i 1)]] (s "mod") = some (.b false) ∧
    flagAfter .en [[(s "mod", .s (s "poss"))], [(s "mod", .i 0), (s "exc", .i 1)]] (s "exc") = some (.b true) := by decide


/-- the store in which the first link run of `Phrase(k, kids)` takes place is `preLink (preMk …) p last none` -/
def preMk (h : Heap) (k : Kind) (lang : Lang) (kids : List Nat) : Heap :=
  initElems { h with n := h.n + 1, node := upd h.node h.n { kind := k, lang := lang } } h.n (kids.dropLast.map Item.node)

def nv_h0 : Heap := (mkTerminal (mkTerminal {} (tspec .D "the")).1 (tspec .N "cat" "p")).1
def nv_init : Heap := preMk nv_h0 .NP .en [0]
def nv_l0 : Heap := R.get default (linkR (preLink nv_init 2 0 none) 2)
def nv_a : Heap := reorder nv_l0 2
def nv_l1 : Heap := R.get default (linkR (preLink nv_a 2 1 none) 2)
def nv_b : Heap := reorder nv_l1 2
def nv_init' : Heap := preMk nv_h0 .NP .en [0, 1]
def nv_l1' : Heap := R.get default (linkR (preLink nv_init' 2 1 none) 2)
def nv_one : Heap := reorder nv_l1' 2
def nv_P0 : List Act := (plan (preLink nv_init 2 0 none) 2).getD []
def nv_P : List Act := (plan (preLink nv_a 2 1 none) 2).getD []

/-- non-vacuity of `link_confluent_partial`: `NP(D("the")).add(N("cat").n("p"))` against `NP(D("the"),N("cat").n("p"))`:
    the first run links NP and D to the record of D, the final run re-points both to the record of the noun -/
example : linkState nv_b = linkState nv_one :=
  link_confluent_partial nv_init nv_init' 2 2 [(0, none), (1, none)] [nv_P0] [nv_P] nv_b 1 none nv_one rfl
    (Trace.cons (Qs := []) (by decide) (R.eq_ok default _ (by decide)) (UpRuns.top (by decide))
      (Trace.cons (Qs := []) (Ps := []) (by decide) (R.eq_ok default _ (by decide)) (UpRuns.top (by decide))
        (Trace.nil _)))
    (Trace.cons (Qs := []) (Ps := []) (by decide) (R.eq_ok default _ (by decide)) (UpRuns.top (by decide)) (Trace.nil _))
    (by decide) ((runW nv_init.ptr [nv_P0]).getD []) ((runW nv_init.ptr [nv_P]).getD [])
    (by decide) (by decide) (by decide) (by decide)

/-- … and the two link states are not trivial: the determiner ends up sharing the noun's record -/
example : nv_b.peng 0 = nv_b.peng 1 ∧ nv_a.peng 0 ≠ nv_b.peng 0 := by decide

-- `VP(Adv("now")).add(V("sleep"))` against `VP(Adv("now"),V("sleep"))`: the first run sees the head `now` (no record)
def hd_h0 : Heap := (mkTerminal (mkTerminal {} (tspec .Adv "now")).1 (tspec .V "sleep")).1
def hd_init : Heap := preMk hd_h0 .VP .en [0]
def hd_l0 : Heap := R.get default (linkR (preLink hd_init 2 0 none) 2)
def hd_l1 : Heap := R.get default (linkR (preLink (reorder hd_l0 2) 2 1 none) 2)
def hd_init' : Heap := preMk hd_h0 .VP .en [0, 1]
def hd_l1' : Heap := R.get default (linkR (preLink hd_init' 2 1 none) 2)

/-- non-vacuity of `link_confluent_headed` (the head changes from `now` to `sleep`) -/
example : linkState (reorder hd_l1 2) = linkState (reorder hd_l1' 2) :=
  link_confluent_headed true hd_init hd_init' 2 2 [(0, none), (1, none)] [headedPlan true 2 0] 1 _ 1 none _ rfl
    (Trace.cons (Qs := []) (by decide) (R.eq_ok default _ (by decide)) (UpRuns.top (by decide))
      (Trace.cons (Qs := []) (Ps := []) (by decide) (R.eq_ok default _ (by decide)) (UpRuns.top (by decide))
        (Trace.nil _)))
    (Trace.cons (Qs := []) (Ps := []) (by decide) (R.eq_ok default _ (by decide)) (UpRuns.top (by decide)) (Trace.nil _))
    (by intro Q hQ; simp at hQ; subst hQ; exact Or.inr ⟨0, by decide, rfl⟩) (by decide) (by decide) (by decide)

/-- … and its plans are indeed of the headed form, by `plan_headed` -/
example : Headed true 2 ((plan (preLink hd_init 2 0 none) 2).getD []) :=
  plan_headed (preLink hd_init 2 0 none) 2 _ (by decide) (by decide) (by decide)

-- top-down assembly of “the cats sleep”: np=NP(D("the")); s=S(np,VP(V("sleep"))); np.add(N("cat").n("p"))
def lv_base : Heap :=
  let h := (mkTerminal (mkTerminal (mkTerminal {} (tspec .D "the")).1 (tspec .V "sleep")).1 (tspec .N "cat" "p")).1
  (R.get (default, 0) (mkPhrase h .VP .en (items [1]))).1
def lv_b1 : Heap × Nat := R.get (default, 0) (mkPhrase lv_base .NP .en (items [0]))
def lv_b2 : Heap × Nat := R.get (default, 0) (mkPhrase lv_b1.1 .S .en (items [4, 3]))
def lv_b3 : Heap := R.get default (phraseAdd1 lv_b2.1 4 2 none)
def lv_q : Ptr := lv_base.ptr
def lv_P1 : List Act := (plan (preLink (preMk lv_base .NP .en [0]) 4 0 none) 4).getD []
def lv_S1 : List Act := (plan (preLink (preMk lv_b1.1 .S .en [4, 3]) 5 3 none) 5).getD []
def lv_P2 : List Act := (plan (preLink lv_b2.1 4 2 none) 4).getD []
def lv_S2 : List Act := (plan lv_b3 5).getD []

/-- non-vacuity of `link_confluent_levels_partial`: the link runs of that top-down assembly (NP, S, then NP and its
    ancestor S again after the `add`) reach the state of the two final runs alone -/
example : runPlans lv_q ([lv_P1, lv_S1] ++ [lv_P2, lv_S2]) = runPlans lv_q [lv_P2, lv_S2] :=
  link_confluent_levels_partial lv_q [lv_P1, lv_S1] [lv_P2, lv_S2]
    ((runW lv_q [lv_P1, lv_S1]).getD []) ((runW lv_q [lv_P2, lv_S2]).getD [])
    (by decide) (by decide) (by decide) (by decide)

/-- … after which the verb shares the record of the noun (handle 2), as in bottom-up construction — and this is what the
    repaired `add` computes (“The cats sleep.”) -/
example : (match runPlans lv_q [lv_P2, lv_S2] with | .ok q => q.peng 1 == q.peng 2 | _ => false) = true := by decide
example : lv_b3.peng 1 = lv_b3.peng 2 := by decide

end Pyrealb.C11
