import Pyrealb.Lemmas.Lemmatize
import Pyrealb.Lemmas.LemmatizeDecl
/-! # C18 — the lemmatization map is sound and complete with respect to realization

Property theorems only.  `Model/Lemmatize` mirrors `lemmatize.py` (`genExp`, `expandConjugation`,
`expandDeclension`, the per-entry body of `buildLemmataMap`); an expression is realized by the models of C01
(`ConjEn/ConjFr.realize`) and C02 (`Decl.realize`).

* unbounded (every table, lemma, lexicon entry satisfying the stated decidable hypotheses, which the driver
  evaluates on every real lexicon entry on every run): `expandConj_sound_en`, `expandConj_sound_fr`,
  `expandConj_sound_refl`, `expandConj_refl_text`, `expandConj_complete_cells`, `intr_veto`, `expandConj_complete`,
  `expandDecl_sound` (nouns, adjectives, adverbs), `expandDecl_complete`;
* finite, `decide +kernel` over the complete generated tables, re-proved whenever /repo changes:
  `conj_wf_tbl`, `distinct_rows_tbl` (+ `distinct_rows_all`: its reading as a ∀), `closed_class_tbl`. -/
namespace Pyrealb.C18
open Pyrealb Pyrealb.Lemmatize

/-! ## conjugation: soundness -/

/-- **C18.a** English: for every table, lemma and verb entry whose table is well formed (`wfConjEn`: rows `b pp pr`
    strings, `p ps` a string or six cells, distinct tense keys, no ending starting with a blank), whose lemma ends
    with the table's ending: every (form, expression) pair of `expandConjugation` realizes to exactly that form,
    without a warning -/
def expandConj_sound_en : Prop :=
  ∀ (env : Env) (lex : Decl.Lex) (v : Conj.Verb) (tb : Conj.Table) (frV : Option Conj.Verb) (l : List Pair),
    env.lang = .en → VerbOK wfConjEn env.conj v tb →
    expandConjugation .en env.conj v.lemma v.tab frV = .ok l →
    ∀ p ∈ l, realizeExp env lex (some v) p.2 = .ok (p.1, 0)

theorem expandConj_sound_en_holds : expandConj_sound_en := by
  intro env lex v tb frV l hlang h hl
  exact expandConj_en lex hlang h hl

/-- **C18.b** French, verb not essentially reflexive: the same (`wfConjFr`: eight six-cell rows, a four-cell
    participle, `pr` string or null, `b` string, distinct keys, no imperative cell for the persons 1s 3s 3p) -/
def expandConj_sound_fr : Prop :=
  ∀ (env : Env) (lex : Decl.Lex) (v : Conj.Verb) (tb : Conj.Table) (l : List Pair),
    env.lang = .fr → VerbOK wfConjFr env.conj v tb → v.pat ≠ some ConjFr.reflPat →
    expandConjugation .fr env.conj v.lemma v.tab (some v) = .ok l →
    ∀ p ∈ l, realizeExp env lex (some v) p.2 = .ok (p.1, 0)

theorem expandConj_sound_fr_holds : expandConj_sound_fr := by
  intro env lex v tb l hlang h hnr hl
  exact expandConj_fr lex hlang h hnr hl

/-- **C18.b'** French, every verb, stated on the token list `conjugate` returns — this is the exact form of the
    "reflexive pronoun" exception: an essentially reflexive verb (`pat == ["réfl"]`) gives
    `[reflexive pronoun, FORM]` (finite tenses, infinitive, present participle), `[FORM-lier, tonic pronoun]`
    (imperative) or `[FORM]` (past participle); any other verb gives `[FORM]`; never a warning -/
def expandConj_sound_refl : Prop :=
  ∀ (env : Env) (v : Conj.Verb) (tb : Conj.Table) (l : List Pair),
    VerbOK wfConjFr env.conj v tb →
    expandConjugation .fr env.conj v.lemma v.tab (some v) = .ok l →
    ∀ p ∈ l, ∃ o : VOpts, vOpts {} p.2.opts = some o ∧
      ConjFr.conjugate env.conj env.fr v.lemma (some v) none o.pe o.n o.g o.t = .ok ⟨cellToks env.fr v o p.1, 0⟩

theorem expandConj_sound_refl_holds : expandConj_sound_refl := by
  intro env v tb l h hl p hp
  obtain ⟨_, _, _, o, ho, hc⟩ := expandConj_fr_toks h hl p hp
  exact ⟨o, ho, hc⟩

/-- the realized text of an essentially reflexive verb is the surface form of that token list -/
def expandConj_refl_text : Prop :=
  ∀ (env : Env) (lex : Decl.Lex) (v : Conj.Verb) (tb : Conj.Table) (l : List Pair),
    env.lang = .fr → VerbOK wfConjFr env.conj v tb →
    expandConjugation .fr env.conj v.lemma v.tab (some v) = .ok l →
    ∀ p ∈ l, ∃ o : VOpts, vOpts {} p.2.opts = some o ∧
      realizeExp env lex (some v) p.2 =
        (match Conj.surfaceFr (cellToks env.fr v o p.1) with
         | .ok txt => .ok (txt, 0)
         | .error c => .error c)

theorem expandConj_refl_text_holds : expandConj_refl_text := by
  intro env lex v tb l hlang h hl
  exact expandConj_fr_refl lex hlang h hl

/-! ## conjugation: the hypotheses hold of every generated table in use -/

/-- **C18.c** every conjugation table of rules-en.json / rules-fr.json that a lexicon entry uses is well formed -/
def conj_wf_tbl : Prop :=
  (∀ p ∈ Gen.ConjEn.tables, p.1 ∈ Gen.ConjEn.used → wfConjEn p.2 = true) ∧
  (∀ p ∈ Gen.ConjFr.tables, p.1 ∈ Gen.ConjFr.used → wfConjFr p.2 = true)

set_option maxRecDepth 100000 in
theorem conj_wf_tbl_holds : conj_wf_tbl := by
  unfold conj_wf_tbl
  decide +kernel

/-! ## conjugation: completeness -/

/-- **C18.d** every non-null cell of every row of the verb's table is listed for the verb, except cells 1–3
    (feminine, plural) of the participle of a verb whose lexicon entry says `pat == ["intr"]` and whose auxiliary is
    avoir (lemmatize.py as repaired by /repo commit 73767de: before it the exception ignored the auxiliary and
    `allée`, `arrivés`, `nées` … were missing) -/
def expandConj_complete_cells : Prop :=
  ∀ (lang : Decl.Lang) (rules : Conj.Rules) (v : Conj.Verb) (tb : Conj.Table) (l : List Pair),
    VerbOK (match lang with | .en => wfConjEn | .fr => wfConjFr) rules v tb →
    expandConjugation lang rules v.lemma v.tab (some v) = .ok l →
    ∀ t row, (t, row) ∈ tb.rows → ∀ i c, (i, c) ∈ icells row →
      ((∃ cells, row = .list cells ∧ cells.length = 4) → v.pat = some ["intr".toList] →
        v.aux.getD "av".toList = "av".toList → i = 0) →
      ∃ e, (Pyrealb.dropRight v.lemma tb.ending.length ++ c, e) ∈ l

theorem expandConj_complete_cells_holds : expandConj_complete_cells := by
  intro lang rules v tb l h hl t row hm i c hic hx
  have hT : tb.hasT = true := by
    cases lang
    · exact (Conj.wfTableEn_elim (wfConjEn_elim h.wf).1).hasT
    · exact (Conj.wfTableFr_elim (wfConjFr_elim h.wf).1).hasT
  unfold expandConjugation at hl
  simp only [h.tab, h.ending, hT, if_true] at hl
  obtain ⟨a, ha, hsub⟩ := tenseRows_sub hl t row hm
  have hshape : (∃ x, row = .str x) ∨ row = .null ∨ ∃ cells, row = .list cells ∧ (cells.length = 6 ∨ cells.length = 4) := by
    cases lang
    · have hwf := (wfConjEn_elim h.wf).1
      unfold Conj.wfTableEn at hwf
      simp only [Bool.and_eq_true, List.all_eq_true] at hwf
      have hr := hwf.2 _ hm
      cases hoc : Conj.Tense.ofCode? t with
      | none => simp [Conj.wfRowEn, hoc] at hr
      | some tt =>
        have hcode := ofCode_some hoc
        subst hcode
        rcases Conj.wfRowEn_elim hr with ⟨_, x, rfl⟩ | ⟨_, ⟨x, rfl⟩ | ⟨a1, a2, a3, a4, a5, a6, rfl⟩⟩
        · exact Or.inl ⟨x, rfl⟩
        · exact Or.inl ⟨x, rfl⟩
        · exact Or.inr (Or.inr ⟨_, rfl, Or.inl rfl⟩)
    · have hwf := (wfConjFr_elim h.wf).1
      unfold Conj.wfTableFr at hwf
      simp only [Bool.and_eq_true, List.all_eq_true] at hwf
      have hr := hwf.1.2 _ hm
      cases hoc : Conj.Tense.ofCode? t with
      | none => simp [Conj.wfRowFr, hoc] at hr
      | some tt =>
        rcases wfRowFr_elim hoc hr with ⟨_, cells, rfl, hlen⟩ | ⟨_, cells, rfl, hlen⟩ | ⟨_, ⟨x, rfl⟩ | rfl⟩ | ⟨_, x, rfl⟩
        · exact Or.inr (Or.inr ⟨_, rfl, Or.inl hlen⟩)
        · exact Or.inr (Or.inr ⟨_, rfl, Or.inr hlen⟩)
        · exact Or.inl ⟨x, rfl⟩
        · exact Or.inr (Or.inl rfl)
        · exact Or.inl ⟨x, rfl⟩
  obtain ⟨e, he⟩ := tenseRow_complete hshape ha hic hx
  exact ⟨e, hsub _ he⟩

/-- **C18.e** the cells the expansion leaves out are exactly those the realizer refuses: for `pat == ["intr"]` and
    auxiliary `av`, asking for the feminine or the plural of the participle gives the bracketed lemma and one warning -/
def intr_veto : Prop :=
  ∀ (rules : Conj.Rules) (env : ConjFr.FrEnv) (v : Conj.Verb) (tb : Conj.Table) (pe : Conj.Person) (n : Conj.Num)
    (g : Conj.Gender),
    VerbOK wfConjFr rules v tb → v.pat = some ["intr".toList] → v.aux.getD "av".toList = "av".toList →
    ConjFr.idx4 n g > 0 → (∃ c, (ConjFr.idx4 n g, c) ∈
        icells (match tb.row? "pp".toList with | some r => r | none => .null)) →
    ConjFr.conjugate rules env v.lemma (some v) none pe n g .pp = .ok (Conj.morphoError v.lemma 0)

theorem intr_veto_holds : intr_veto := by
  intro rules env v tb pe n g h hintr haux hidx ⟨c, hc⟩
  have R := Conj.wfTableFr_elim (wfConjFr_elim h.wf).1
  obtain ⟨a1, a2, a3, a4, hrow⟩ := R.pp
  have hrow' : tb.row? "pp".toList = some (.list [a1, a2, a3, a4]) := hrow
  rw [hrow'] at hc
  obtain ⟨_, hcell⟩ := icells_list hc
  rw [fr_conjugate_simple h { t := .pp, pe := pe, n := n, g := g } rfl]
  have hhas : tb.hasRow Conj.Tense.pp.code = true := by simp [Conj.Table.hasRow, R.hasT, hrow]
  have htab : (frVerbOf v tb).st.tab = some v.tab := rfl
  have hv : ConjFr.idx4 n g > 0 ∧ (frVerbOf v tb).pat = some ConjFr.intrPat ∧ (frVerbOf v tb).aux = Pyrealb.s "av" :=
    ⟨hidx, hintr, haux⟩
  unfold ConjFr.conjugateSimple
  simp only [htab, h.tab, hhas, if_true, hrow, Conj.Row.at, hcell, hv]
  rfl

/-- **C18.d'** (full strength, over the cells the entry can realize) French: every non-null cell of every row of the
    verb's table is listed for the verb, or it is a participle cell (gender `g`, number `n`) that the realizer
    refuses for this verb at every person: the bracketed lemma and one warning -/
def expandConj_complete : Prop :=
  ∀ (rules : Conj.Rules) (env : ConjFr.FrEnv) (v : Conj.Verb) (tb : Conj.Table) (l : List Pair),
    VerbOK wfConjFr rules v tb →
    expandConjugation .fr rules v.lemma v.tab (some v) = .ok l →
    ∀ t row, (t, row) ∈ tb.rows → ∀ i c, (i, c) ∈ icells row →
      (∃ e, (Pyrealb.dropRight v.lemma tb.ending.length ++ c, e) ∈ l) ∨
      (t = "pp".toList ∧ ∃ n g, ConjFr.idx4 n g = i ∧ ∀ pe,
        ConjFr.conjugate rules env v.lemma (some v) none pe n g .pp = .ok (Conj.morphoError v.lemma 0))

theorem expandConj_complete_holds : expandConj_complete := by
  intro rules env v tb l h hl t row hm i c hic
  by_cases hcond : (∃ cells, row = .list cells ∧ cells.length = 4) ∧ v.pat = some ["intr".toList] ∧
      v.aux.getD "av".toList = "av".toList ∧ i ≠ 0
  · right
    obtain ⟨⟨cells, rfl, hlen⟩, hintr, haux, hi0⟩ := hcond
    obtain ⟨hwf, _, hnd, _⟩ := wfConjFr_elim h.wf
    have hrow : tb.row? t = some (.list cells) := lookup_of_mem_nodup hm hnd
    have hall := hwf
    unfold Conj.wfTableFr at hall
    simp only [Bool.and_eq_true, List.all_eq_true] at hall
    have hr := hall.1.2 _ hm
    cases hoc : Conj.Tense.ofCode? t with
    | none => simp [Conj.wfRowFr, hoc] at hr
    | some tt =>
      have hcode := ofCode_some hoc
      have htt : tt = .pp := by
        rcases wfRowFr_elim hoc hr with ⟨_, cells', hc', hlen'⟩ | ⟨h1, _⟩ | ⟨_, ⟨x, hx⟩ | hx⟩ | ⟨_, x, hx⟩
        · cases hc'; omega
        · exact h1
        · cases hx
        · cases hx
        · cases hx
      subst htt
      have htpp : t = "pp".toList := hcode.symm
      subst htpp
      obtain ⟨hil, _⟩ := icells_list hic
      have hcases : i = 1 ∨ i = 2 ∨ i = 3 := by omega
      have key : ∀ n g, ConjFr.idx4 n g = i → ∀ pe,
          ConjFr.conjugate rules env v.lemma (some v) none pe n g .pp = .ok (Conj.morphoError v.lemma 0) := by
        intro n g hidx pe
        refine intr_veto_holds rules env v tb pe n g h hintr haux (by omega) ⟨c, ?_⟩
        rw [hrow, hidx]
        exact hic
      refine ⟨rfl, ?_⟩
      rcases hcases with rfl | rfl | rfl
      · exact ⟨.s, .f, rfl, key .s .f rfl⟩
      · exact ⟨.p, .m, rfl, key .p .m rfl⟩
      · exact ⟨.p, .f, rfl, key .p .f rfl⟩
  · left
    refine expandConj_complete_cells_holds .fr rules v tb l h hl t row hm i c hic ?_
    intro h4 hintr haux
    exact Classical.byContradiction (fun hne => hcond ⟨h4, hintr, haux, hne⟩)

/-- `aller` (table v137, auxiliary être, `pat == ["intr"]`) on the shipped tables -/
def allerV : Conj.Verb :=
  { lemma := "aller".toList, tab := "v137".toList, aux := some "êt".toList, pat := some ["intr".toList] }

/-! ## declension: soundness (open classes N, A, Adv) -/

/-- **C18.f** for every declension table, lemma and lexicon entry of a noun, adjective or adverb: when the lemma
    ends with the table's ending, the freshly constructed terminal is as `ctorOK` says (table, stem, `g`/`n` it
    carries = `c`; evaluated by the driver on every real entry) and the table's rows are distinguishable by the
    options `genExp` infers (`DistinctRows`: for each listed row, `bestMatch` on the request built from those options
    selects that row's `val`, and no veto of the realizer applies), every (form, expression) pair of
    `expandDeclension` realizes to exactly that form, without a warning -/
def expandDecl_sound : Prop :=
  ∀ (env : Env) (lex : Decl.Lex) (verb : Option Conj.Verb) (pos : Decl.Pos) (lemma name : Str) (tb : Decl.Table)
    (entry : Decl.PosEntry) (c : Ctor) (l : List Pair),
    (pos = .N ∨ pos = .A ∨ pos = .Adv) →
    Pyrealb.lookup name env.decl = some tb → Pyrealb.endsWith lemma tb.ending = true → noLeadSpace lemma = true →
    ctorOK env.decl lex env.lang pos lemma name (Pyrealb.dropRight lemma tb.ending.length) entry c = true →
    DistinctRows env.lang pos name tb c = true →
    expandDeclension env.lang env.decl lemma pos.name (.str name) entry = .ok l →
    ∀ p ∈ l, realizeExp env lex verb p.2 = .ok (p.1, 0)

theorem expandDecl_sound_holds : expandDecl_sound := by
  intro env lex verb pos lemma name tb entry c l hcls htb hend hsp hctor hd hl
  exact expandDecl_core hcls htb hend hsp hctor hd hl

/-- **C18.g** `DistinctRows` holds of EVERY generated declension table of rules-en.json and rules-fr.json in its
    part-of-speech class (`classOf`: `n…` nouns and French adjectives, `a…` English adjectives, `b…` English
    adverbs) for every standard constructor state (`stdCtors`: French nouns of gender `x` or of a gender in which
    every form of the table exists; English nouns of every lexicon gender, countable / uncountable / both;
    adjectives and adverbs with the defaults) — with exactly the four French exceptions `distinctExceptionsFr`.
    (The `d…`/`pn…` tables belong to determiners and pronouns: closed classes, enumerated completely by the
    correspondence check.) -/
def distinct_rows_tbl : Prop :=
  distinctFailures .en Gen.DeclEn.tables = [] ∧
  (distinctFailures .fr Gen.DeclFr.tables).map (fun x => (x.1, x.2.1, x.2.2.lexG)) = distinctExceptionsFr

set_option maxRecDepth 100000 in
theorem distinct_rows_tbl_holds : distinct_rows_tbl := by
  unfold distinct_rows_tbl
  decide +kernel

/-- what the computed failure list means: `DistinctRows` for every table of the class and every standard state
    that is not in the list -/
theorem distinct_of_failures (lang : Decl.Lang) (rules : Decl.Rules) :
    ∀ p ∈ rules, ∀ pos ∈ [Decl.Pos.N, .A, .Adv], classOf lang pos p.1 = true → ∀ c ∈ stdCtors lang pos p.1 p.2,
      (p.1, pos, c) ∉ distinctFailures lang rules → DistinctRows lang pos p.1 p.2 c = true := by
  intro p hp pos hpos hcls c hc hnot
  cases hdr : DistinctRows lang pos p.1 p.2 c with
  | true => rfl
  | false =>
    exfalso
    apply hnot
    unfold distinctFailures
    refine List.mem_flatMap.mpr ⟨p, hp, List.mem_flatMap.mpr ⟨pos, hpos, ?_⟩⟩
    simp only [hcls, if_true]
    exact List.mem_filterMap.mpr ⟨c, hc, by simp [hdr]⟩

def distinct_rows_all : Prop :=
  (∀ p ∈ Gen.DeclEn.tables, ∀ pos ∈ [Decl.Pos.N, .A, .Adv], classOf .en pos p.1 = true →
    ∀ c ∈ stdCtors .en pos p.1 p.2, DistinctRows .en pos p.1 p.2 c = true) ∧
  (∀ p ∈ Gen.DeclFr.tables, ∀ pos ∈ [Decl.Pos.N, .A, .Adv], classOf .fr pos p.1 = true →
    ∀ c ∈ stdCtors .fr pos p.1 p.2, (p.1, pos, c.lexG) ∉ distinctExceptionsFr →
    DistinctRows .fr pos p.1 p.2 c = true)

theorem distinct_rows_all_holds : distinct_rows_all := by
  refine ⟨?_, ?_⟩
  · intro p hp pos hpos hcls c hc
    exact distinct_of_failures .en _ p hp pos hpos hcls c hc (by rw [distinct_rows_tbl_holds.1]; exact List.not_mem_nil)
  · intro p hp pos hpos hcls c hc hex
    refine distinct_of_failures .fr _ p hp pos hpos hcls c hc ?_
    intro hmem
    apply hex
    rw [← distinct_rows_tbl_holds.2]
    exact List.mem_map.mpr ⟨(p.1, pos, c), hmem, rfl⟩

/-! ## declension: the closed classes on the shipped tables -/

/-- **C18.i** determiners and pronouns: for EVERY `d…` / `pn…` table of rules-en.json and rules-fr.json, the word whose
    lemma is the table's own ending (`the`, `my`, `me`, `le`, `mon`, `moi`, `on`, `mien`, … — the closed-class words
    are the endings of their tables; this includes `moi`/`me`, for which `genExp` and `Terminal.decline` have special
    rules) with an entry that says only `tab`: every (form, expression) pair of `expandDeclension` realizes (C02
    model) to exactly that form, without a warning.  (Entries with `pe`/`g`/`n` of their own — 8 French pronouns,
    the English numeral determiners — are covered by the enumeration of the correspondence check only.) -/
def closed_class_tbl : Prop := closedBadAll .en = [] ∧ closedBadAll .fr = []

set_option maxRecDepth 100000 in
theorem closed_class_tbl_holds : closed_class_tbl := by
  unfold closed_class_tbl
  decide +kernel

/-! ## declension: completeness -/

/-- **C18.h** every form of the entry's declension table (`stem ++ val` of every row) is listed for the entry —
    except, for an English noun that the lexicon marks uncountable (`cnt == "no"`), a form carried by a plural row
    (the realizer refuses the plural of an uncountable noun: `check_countable`).  For every table, every part of
    speech, every entry. -/
def expandDecl_complete : Prop :=
  ∀ (lang : Decl.Lang) (rules : Decl.Rules) (lemma pos name : Str) (tb : Decl.Table) (entry : Decl.PosEntry)
    (l : List Pair),
    Pyrealb.lookup name rules = some tb → Pyrealb.endsWith lemma tb.ending = true →
    expandDeclension lang rules lemma pos (.str name) entry = .ok l →
    ∀ d ∈ tb.rows,
      ((lang = .en ∧ pos = "N".toList ∧ Pyrealb.lookup "cnt".toList entry = some (Decl.LV.str "no".toList)) →
        ∀ d' ∈ tb.rows, d'.val = d.val → d'.get .n ≠ some (fvStr "p")) →
      ∃ e, (Pyrealb.dropRight lemma tb.ending.length ++ d.val, e) ∈ l

theorem expandDecl_complete_holds : expandDecl_complete := by
  intro lang rules lemma pos name tb entry l htb hend hl d hd hx
  unfold expandDeclension at hl
  simp only [htb, hend, if_true] at hl
  refine declLoop_complete tb.rows [] l hl d hd (by simp) ?_
  intro d' hd' hv hnone
  obtain ⟨h1, h2, h3, h4⟩ := genExp_none hnone
  exact hx ⟨h1, h2, h4⟩ d' hd' hv h3

/-! ### non-vacuity: the hypotheses are satisfiable by concrete, non-trivial instances -/

def eatV : Conj.Verb := { lemma := "eat".toList, tab := "v70".toList }
set_option maxRecDepth 100000 in
example : VerbOK wfConjEn Gen.ConjEn.tables eatV Gen.ConjEn.t_v70 :=
  ⟨by decide +kernel, by decide +kernel, by decide +kernel, by decide +kernel⟩
-- test (not a property theorem): the expansion of `eat` lists `ate` as the simple past, `eaten` as participle
set_option maxRecDepth 100000 in
example : (match expandConjugation .en Gen.ConjEn.tables eatV.lemma eatV.tab none with
           | .ok l => l.contains ("ate".toList, { pos := "V".toList, lemma := "eat".toList, opts := [("t".toList, .str "ps".toList)] })
                      && l.contains ("eaten".toList, { pos := "V".toList, lemma := "eat".toList, opts := [("t".toList, .str "pp".toList)] })
           | .error _ => false) = true := by decide +kernel
-- test: an essentially reflexive verb realizes with its pronoun (the token list of `expandConj_sound_refl`)
def enfuirV : Conj.Verb :=
  { lemma := "enfuir".toList, tab := "v54".toList, aux := some "êt".toList, pat := some ["réfl".toList] }
set_option maxRecDepth 100000 in
example : realizeExp (genEnv .fr) [] (some enfuirV)
    { pos := "V".toList, lemma := "enfuir".toList, opts := [("t".toList, .str "i".toList), ("pe".toList, .int 1)] }
    = .ok ("m'enfuyais".toList, 0) := by decide +kernel

-- the hypotheses of `expandDecl_sound` on a real entry: French `cheval` (N, gender m, table n5: -al / -aux)
def chevalEntry : Decl.PosEntry := [("g".toList, .str "m".toList), ("tab".toList, .str "n5".toList)]
def chevalLex : Decl.Lex := [("cheval".toList, [("N".toList, chevalEntry)])]
def chevalCtor : Ctor := { g := .str "m".toList, n := .str "s".toList, lexG := some (.str "m".toList) }
set_option maxRecDepth 100000 in
example : ctorOK Gen.DeclFr.tables chevalLex .fr .N "cheval".toList "n5".toList "chev".toList chevalEntry chevalCtor = true
    ∧ DistinctRows .fr .N "n5".toList Gen.DeclFr.t_n5 chevalCtor = true
    ∧ chevalCtor ∈ stdCtors .fr .N "n5".toList Gen.DeclFr.t_n5 := by decide +kernel
-- test (not a property theorem): its expansion lists `chevaux` as N("cheval").n("p"), which the model realizes so
set_option maxRecDepth 100000 in
example : expandDeclension .fr Gen.DeclFr.tables "cheval".toList "N".toList (.str "n5".toList) chevalEntry
    = .ok [("cheval".toList, { pos := "N".toList, lemma := "cheval".toList }),
           ("chevaux".toList, { pos := "N".toList, lemma := "cheval".toList, opts := [("n".toList, .str "p".toList)] })] := by
  decide +kernel
set_option maxRecDepth 100000 in
example : realizeExp (genEnv .fr) chevalLex none
    { pos := "N".toList, lemma := "cheval".toList, opts := [("n".toList, .str "p".toList)] }
    = .ok ("chevaux".toList, 0) := by decide +kernel
-- an English adjective with synthetic comparison (`good`, table a15: better / best)
def goodLex : Decl.Lex := [("good".toList, [("A".toList, [("tab".toList, .str "a15".toList)])])]
set_option maxRecDepth 100000 in
example : ctorOK Gen.DeclEn.tables goodLex .en .A "good".toList "a15".toList [] [("tab".toList, .str "a15".toList)]
      { g := .str "n".toList, n := .str "s".toList } = true
    ∧ DistinctRows .en .A "a15".toList Gen.DeclEn.t_a15 { g := .str "n".toList, n := .str "s".toList } = true := by
  decide +kernel

-- test (not a property theorem): since commit 73767de the expansion of `aller` lists `allée` as V("aller").t("pp").g("f")
def alleeExp : Exp :=
  { pos := "V".toList, lemma := "aller".toList, opts := [("t".toList, .str "pp".toList), ("g".toList, .str "f".toList)] }
set_option maxRecDepth 100000 in
example : (match expandConjugation .fr Gen.ConjFr.tables allerV.lemma allerV.tab (some allerV) with
           | .ok l => l.contains ("allée".toList, alleeExp)
           | .error _ => false) = true := by decide +kernel

end Pyrealb.C18
