import Pyrealb.Model.CoordSpec
import Pyrealb.Lemmas.Coord
/-! # C09 — coordination: list punctuation, number / person / gender resolution, option propagation,
    agreement of the verb with a coordinated subject.

Property theorems only.  The model (`Model/Coord`) mirrors `Phrase.cpReal`, `Dependent.coordReal`, the two
`findGenderNumberPerson`, the CP/coord branches of `makeOptionMethod` and the order in which `Phrase.real` /
`Dependent.real` realize a coordination and the verb that reads its record.  Every theorem is for member lists of
EVERY length (induction on the list), for every punctuation table `pt`, every token content.
Suffix `_dep` = dependency notation (`coord`), no suffix = constituent notation (`CP`). -/
namespace Pyrealb.C09
open Pyrealb Pyrealb.Coord Pyrealb.Gen.CoordConsts

/-- every token of every member is a non-empty string and no member is an empty phrase -/
def CleanMs (ms : List Member) : Prop := ∀ m ∈ ms, Clean m.toks ∧ m.toks ≠ []

instance (ms : List Member) : Decidable (CleanMs ms) := by unfold CleanMs; infer_instance

def ctoksOf : Option Conj → Option (List Str)
  | none => none
  | some c => some c.toks

/-- coord notation: the conjunction is absent when the terminal's lemma is empty (`Q("")`) -/
def ctoksOfTerm (t : Term) : Option (List Str) := if t.lemma = [] then none else some t.toks

/-- the terminal realizes as clean tokens, or as empty strings when its lemma is empty -/
def TermOK (t : Term) : Prop := (t.lemma = [] → ∀ x ∈ t.toks, x = []) ∧ (t.lemma ≠ [] → Clean t.toks)

instance (t : Term) : Decidable (TermOK t) := by unfold TermOK; infer_instance

/-- all members use the relation of the first one, or are nested coords (anything else is a warned misuse) -/
def Consistent : List Member → Prop
  | [] => True
  | f :: r => ∀ m ∈ f :: r, m.rel = coordStr ∨ m.rel = f.rel ∨ f.rel = coordStr

instance (ms : List Member) : Decidable (Consistent ms) := by
  cases ms <;> unfold Consistent <;> infer_instance

/-! ## n = 0 -/

/-- **C09.zero** a coordination without members realizes as nothing (and resolves nothing) -/
def coord_zero : Prop :=
  ∀ (pt : Str → Str) (andC : Str) (conj : Option Conj) (t : Term) (r0 : Rec),
    cpReal pt andC conj [] r0 = .ok { toks := [], peng := r0 } ∧
    coordReal pt andC t [] r0 = .ok { toks := [], peng := r0 }

theorem coord_zero_holds : coord_zero := by
  intro pt andC conj t r0
  exact ⟨rfl, rfl⟩

/-! ## n = 1 -/

/-- **C09.one** a coordination of one member realizes as that member (no comma, no conjunction) -/
def coord_one : Prop :=
  ∀ (pt : Str → Str) (andC : Str) (conj : Option Conj) (m : Member) (r0 : Rec), Clean m.toks →
    ∃ o, cpReal pt andC conj [m] r0 = .ok o ∧ o.toks = alone pt m

theorem coord_one_holds : coord_one := by
  intro pt andC conj m r0 hc
  exact ⟨_, rfl, removeEmpty_clean (clean_alone pt m hc)⟩

def coord_one_dep : Prop :=
  ∀ (pt : Str → Str) (andC : Str) (t : Term) (m : Member) (r0 : Rec), Clean m.toks → Clean m.alt →
    ∃ o, coordReal pt andC t [m] r0 = .ok o ∧ o.toks = alone pt m

/-- witness: the single member is itself a coord, “the cat or the dog”; `Dependent.real` (not `coordReal`)
    realizes it: “the cat the dog or” -/
def nestedCoordMember : Member :=
  { toks := [s "the", s "cat", s "or", s "the", s "dog"], alt := [s "the", s "cat", s "the", s "dog", s "or"],
    kind := s "C", rel := s "coord", pe := none, n := some (s "s"), g := none, a := none }

theorem coord_one_dep_refuted : ¬ coord_one_dep := by
  intro h
  obtain ⟨o, ho, ht⟩ := h (fun x => x) (s "and") { kind := s "C", lemma := s "and", toks := [s "and"] }
    nestedCoordMember {} (by decide) (by decide)
  revert ho ht
  simp only [coordReal, Except.ok.injEq]
  intro ho ht
  subst ho
  revert ht
  decide

theorem coord_one_dep_partial :
    ∀ (pt : Str → Str) (andC : Str) (t : Term) (m : Member) (r0 : Rec), Clean m.toks → m.rel ≠ coordStr →
      ∃ o, coordReal pt andC t [m] r0 = .ok o ∧ o.toks = alone pt m := by
  intro pt andC t m r0 hc hr
  refine ⟨_, rfl, ?_⟩
  simp only [hr, if_false]
  exact removeEmpty_clean (clean_alone pt m hc)

/-! ## n ≥ 2 : punctuation -/

/-- **C09.punctuation** the members in order, a comma appended to the last token of each member but the last
    (no conjunction) / but the last two (conjunction), the conjunction only before the last member -/
def coord_punctuation : Prop :=
  ∀ (pt : Str → Str) (andC : Str) (conj : Option Conj) (ms : List Member) (r0 : Rec) (o : Out),
    2 ≤ ms.length → CleanMs ms → (∀ c, conj = some c → Clean c.toks) →
    cpReal pt andC conj ms r0 = .ok o → o.toks = specToks pt (ctoksOf conj) ms

def mkNP (toks : List Str) (a : Option (List Str)) : Member :=
  { toks := toks, alt := toks, kind := s "NP", rel := [], pe := some (.int 3), n := some (s "s"), g := some (s "n"), a := a }

def ptEn : Str → Str := fun m => m ++ s " "

theorem cp_toks (pt : Str → Str) (andC : Str) (conj : Option Conj) (m m' : Member) (r : List Member) (r0 : Rec)
    (o : Out) (h : cpReal pt andC conj (m :: m' :: r) r0 = .ok o) :
    o.toks = removeEmpty (loopWith appendComma pt (ctoksOf conj).isNone (m :: m' :: r)
      ++ (ctoksOf conj).getD [] ++ lastToks pt (m :: m' :: r)) := by
  unfold cpReal at h
  simp only at h
  split at h
  · cases h
  · simp only [Except.ok.injEq] at h
    subst h
    cases conj <;> simp [cpLoop, ctoksOf]

theorem coord_punctuation_holds : coord_punctuation := by
  intro pt andC conj ms r0 o hlen hcl hcc h
  match ms, hlen with
  | m :: m' :: r, _ =>
    rw [cp_toks pt andC conj m m' r r0 o h]
    have hclean : ∀ x ∈ m :: m' :: r, Clean x.toks := fun x hx => (hcl x hx).1
    have hct : Clean ((ctoksOf conj).getD []) := by
      cases conj with
      | none => intro x hx; simp [ctoksOf] at hx
      | some c => simpa [ctoksOf] using hcc c rfl
    rw [removeEmpty_clean (clean_append (clean_append (clean_loopWith _ pt _ _ hclean) hct)
      (clean_lastToks pt _ hclean))]
    exact loop_spec pt (ctoksOf conj) (m :: m' :: r) 0 (m :: m' :: r).length (by simp) (by simp)

def coord_punctuation_dep : Prop :=
  ∀ (pt : Str → Str) (andC : Str) (t : Term) (ms : List Member) (r0 : Rec) (o : Out),
    2 ≤ ms.length → CleanMs ms → TermOK t → Consistent ms →
    coordReal pt andC t ms r0 = .ok o → o.toks = specToks pt (ctoksOfTerm t) ms

def mkSubj (toks : List Str) (a : Option (List Str)) : Member :=
  { toks := toks, alt := toks, kind := s "N", rel := s "subj", pe := some (.int 3), n := some (s "s"), g := some (s "n"), a := a }

def andTerm : Term := { kind := s "C", lemma := s "and", toks := [s "and"] }

theorem dep_toks (pt : Str → Str) (andC : Str) (t : Term) (m m' : Member) (r : List Member) (r0 : Rec)
    (o : Out) (hcons : Consistent (m :: m' :: r)) (h : coordReal pt andC t (m :: m' :: r) r0 = .ok o) :
    o.toks = removeEmpty (loopWith appendComma pt (t.lemma == []) (m :: m' :: r)
      ++ t.toks ++ lastToks pt (m :: m' :: r)) := by
  obtain ⟨lastD, hl1, _, hl3⟩ := lastMember_some (pt := pt) (m :: m' :: r) (by simp)
  unfold coordReal at h
  simp only [hl1] at h
  rw [depLoop_consistent pt m.rel (t.lemma == []) (m :: m' :: r) hcons] at h
  rw [hl3]
  by_cases hlc : lastD.rel = coordStr
  · simp only [hlc, if_true, Except.ok.injEq] at h
    subst h; rfl
  · simp only [hlc, if_false] at h
    by_cases hk : t.kind = ['C'] ∨ t.kind = ['Q']
    · simp only [hk, if_true] at h
      cases hg : findGNP coordCounted (t.kind == ['C'] && t.lemma == andC) (m :: m' :: r) with
      | error e => rw [hg] at h; cases h
      | ok gn =>
        rw [hg] at h
        simp only [Except.ok.injEq] at h
        subst h; rfl
    · simp only [hk, if_false, Except.ok.injEq] at h
      subst h; rfl

theorem coord_punctuation_dep_holds : coord_punctuation_dep := by
  intro pt andC t ms r0 o hlen hcl ht hcons h
  match ms, hlen with
  | m :: m' :: r, _ =>
    rw [dep_toks pt andC t m m' r r0 o hcons h]
    have hclean : ∀ x ∈ m :: m' :: r, Clean x.toks := fun x hx => (hcl x hx).1
    have hne : ∀ x ∈ m :: m' :: r, x.toks ≠ [] := fun x hx => (hcl x hx).2
    have hA := clean_loopWith appendComma pt (t.lemma == []) _ hclean
    have hB := clean_lastToks pt _ hclean
    have hBne := lastToks_ne_nil pt (m :: m' :: r) (by simp) hne
    by_cases hl : t.lemma = []
    · rw [removeEmpty_mid _ _ _ hA hB (ht.1 hl) hBne]
      have := loop_spec pt none (m :: m' :: r) 0 (m :: m' :: r).length (by simp) (by simp)
      simp only [Option.isNone_none, Option.getD_none, List.append_nil] at this
      simp only [ctoksOfTerm, hl, if_true, specToks]
      rw [← this]
      simp
    · rw [removeEmpty_clean (clean_append (clean_append hA (ht.2 hl)) hB)]
      have := loop_spec pt (some t.toks) (m :: m' :: r) 0 (m :: m' :: r).length (by simp) (by simp)
      simp only [Option.isNone_some, Option.getD_some] at this
      simp only [ctoksOfTerm, hl, if_false, specToks]
      rw [← this]
      have : (t.lemma == []) = false := by simpa using hl
      simp [this]

/-! ## number, person, gender of the coordination (fresh record) -/

/-- **C09.number** plural ⇔ (two or more members joined by and/et) ∨ some member is plural -/
def coord_number_iff : Prop :=
  ∀ (pt : Str → Str) (andC : Str) (conj : Option Conj) (ms : List Member) (o : Out),
    cpReal pt andC conj ms {} = .ok o → (o.peng.n = some plural ↔ SpecPlural (isAndCP andC conj) ms)

/-- **C09.person** the lowest person among the members -/
def coord_person_min : Prop :=
  ∀ (pt : Str → Str) (andC : Str) (conj : Option Conj) (ms : List Member) (o : Out), ms ≠ [] → ValidPe ms →
    cpReal pt andC conj ms {} = .ok o → ∃ p, o.peng.peN = some p ∧ IsMinPerson p ms

/-- **C09.gender** masculine as soon as one member is masculine -/
def coord_gender_masc_iff : Prop :=
  ∀ (pt : Str → Str) (andC : Str) (conj : Option Conj) (ms : List Member) (o : Out),
    cpReal pt andC conj ms {} = .ok o → (o.peng.g = some masc ↔ SpecMasc ms)

def mkPro (tok : Str) (pe : Nat) (n g : Str) : Member :=
  { toks := [tok], alt := [tok], kind := s "Pro", rel := [], pe := some (.int pe), n := some n, g := some g, a := none }

/-- a nested coordination “you and the dogs” (already realized and resolved: second person, plural, masculine) -/
def nestedCP : Member :=
  { toks := [s "you", s "and", s "the", s "dogs"], alt := [], kind := s "CP", rel := [], pe := some (.int 2),
    n := some (s "p"), g := some (s "m"), a := none }

def orConj : Conj := { lemma := s "or", toks := [s "or"] }

/-- witness: `CP(C("or"), NP(the cat), CP(C("and"), …))`: the nested CP is not looked at by
    `findGenderNumberPerson` (“The cat or the dog and the bird sleeps”) -/
theorem coord_number_iff_refuted : ¬ coord_number_iff := by
  intro h
  have := h ptEn (s "and") (some orConj) [mkNP [s "the", s "cat"] none, nestedCP] _ rfl
  revert this
  decide

theorem coord_person_min_refuted : ¬ coord_person_min := by
  intro h
  obtain ⟨p, hp, hmin⟩ := h ptEn (s "and") (some orConj) [mkNP [s "the", s "cat"] none, nestedCP] _
    (by decide) (by decide) rfl
  have h3 : (3 : Nat) = p := by
    have : some 3 = some p := hp
    exact Option.some.inj this
  subst h3
  have := hmin.2.1 nestedCP (by simp) 2 rfl
  omega

theorem coord_gender_masc_iff_refuted : ¬ coord_gender_masc_iff := by
  intro h
  have := h ptEn (s "et") (some orConj) [mkNP [s "la", s "fille"] none, nestedCP] _ rfl
  revert this
  decide

/-- side condition of the three `_partial` theorems: every member has a type that `findGenderNumberPerson` looks at
    (NP, N, Pro, Q, NO — not a nested CP) -/
def Resolvable (ms : List Member) : Prop := ∀ m ∈ ms, m.kind ∈ cpCounted

instance (ms : List Member) : Decidable (Resolvable ms) := by
  unfold Resolvable; infer_instance

theorem cp_rec (pt : Str → Str) (andC : Str) (conj : Option Conj) (ms : List Member) (o : Out)
    (h : cpReal pt andC conj ms {} = .ok o) :
    (ms = [] ∧ o.peng = {}) ∨ (∃ m, ms = [m] ∧ o.peng = writeSingle m) ∨
    (2 ≤ ms.length ∧ ∃ gn, findGNP cpCounted (isAndCP andC conj) ms = .ok gn ∧ o.peng = writeGNP {} gn) := by
  match ms with
  | [] =>
    simp only [cpReal, Except.ok.injEq] at h
    subst h; exact Or.inl ⟨rfl, rfl⟩
  | [m] =>
    simp only [cpReal, Except.ok.injEq] at h
    subst h; exact Or.inr (Or.inl ⟨m, rfl, rfl⟩)
  | m :: m' :: r =>
    refine Or.inr (Or.inr ⟨by simp, ?_⟩)
    cases conj with
    | none =>
      unfold cpReal at h
      simp only at h
      cases hg : findGNP cpCounted false (m :: m' :: r) with
      | error e => rw [hg] at h; cases h
      | ok gn =>
        rw [hg] at h
        simp only [Except.ok.injEq] at h
        subst h
        exact ⟨gn, hg, rfl⟩
    | some c =>
      unfold cpReal at h
      simp only at h
      cases hg : findGNP cpCounted (c.lemma == andC) (m :: m' :: r) with
      | error e => rw [hg] at h; cases h
      | ok gn =>
        rw [hg] at h
        simp only [Except.ok.injEq] at h
        subst h
        exact ⟨gn, hg, rfl⟩

theorem coord_number_iff_partial :
    ∀ (pt : Str → Str) (andC : Str) (conj : Option Conj) (ms : List Member) (o : Out), Resolvable ms →
      cpReal pt andC conj ms {} = .ok o → (o.peng.n = some plural ↔ SpecPlural (isAndCP andC conj) ms) := by
  intro pt andC conj ms o hr h
  rcases cp_rec pt andC conj ms o h with ⟨rfl, hp⟩ | ⟨m, rfl, hp⟩ | ⟨_, gn, hg, hp⟩
  · rw [hp]; simp [SpecPlural]
  · rw [hp]; simp [SpecPlural, writeSingle]
  · rw [hp]
    have := (findGNP_spec cpCounted _ ms hr gn hg).1
    rw [← this]
    cases hn : gn.n <;> simp [writeGNP, hn]

theorem coord_gender_masc_iff_partial :
    ∀ (pt : Str → Str) (andC : Str) (conj : Option Conj) (ms : List Member) (o : Out), Resolvable ms →
      cpReal pt andC conj ms {} = .ok o → (o.peng.g = some masc ↔ SpecMasc ms) := by
  intro pt andC conj ms o hr h
  rcases cp_rec pt andC conj ms o h with ⟨rfl, hp⟩ | ⟨m, rfl, hp⟩ | ⟨_, gn, hg, hp⟩
  · rw [hp]; simp [SpecMasc]
  · rw [hp]; simp [SpecMasc, writeSingle]
  · rw [hp]
    have := (findGNP_spec cpCounted _ ms hr gn hg).2.1
    rw [← this]
    cases hn : gn.g <;> simp [writeGNP, hn]

/-- the one-member branch copies the member's person (third when it states none) -/
theorem single_person (m : Member) (hv : ValidPe [m]) :
    ∃ p, (writeSingle m).peN = some p ∧ IsMinPerson p [m] := by
  cases hpe : m.pe with
  | none =>
    refine ⟨3, by simp [writeSingle, Rec.peN, hpe, PeVal.nat?], by simp [IsMinPerson, Member.peN, hpe]⟩
  | some v =>
    obtain ⟨k, hk⟩ := hv.parses (m := m) (by simp) hpe
    have hpn : m.peN = some k := by simp [Member.peN, hpe, hk]
    have hk3 := hv.get (m := m) (by simp) hpn
    refine ⟨k, by simp [writeSingle, Rec.peN, hpe, hk], hk3.2, ?_, Or.inr ⟨m, by simp, hpn⟩⟩
    intro m' hm' k' hk'
    simp only [List.mem_singleton] at hm'
    subst hm'
    rw [hpn] at hk'
    cases hk'
    exact Nat.le_refl _

theorem coord_person_min_partial :
    ∀ (pt : Str → Str) (andC : Str) (conj : Option Conj) (ms : List Member) (o : Out), ms ≠ [] → ValidPe ms →
      Resolvable ms →
      cpReal pt andC conj ms {} = .ok o → ∃ p, o.peng.peN = some p ∧ IsMinPerson p ms := by
  intro pt andC conj ms o hne hv hr h
  rcases cp_rec pt andC conj ms o h with ⟨rfl, _⟩ | ⟨m, rfl, hp⟩ | ⟨_, gn, hg, hp⟩
  · exact absurd rfl hne
  · rw [hp]; exact single_person m hv
  · rw [hp]
    exact ⟨gn.pe, rfl, (findGNP_spec cpCounted _ ms hr gn hg).2.2.1⟩

/-! ### the same three clauses in dependency notation -/

def isAndTerm (andC : Str) (t : Term) : Bool := t.kind == ['C'] && t.lemma == andC

def coord_number_iff_dep : Prop :=
  ∀ (pt : Str → Str) (andC : Str) (t : Term) (ms : List Member) (o : Out),
    coordReal pt andC t ms {} = .ok o → (o.peng.n = some plural ↔ SpecPlural (isAndTerm andC t) ms)

def coord_person_min_dep : Prop :=
  ∀ (pt : Str → Str) (andC : Str) (t : Term) (ms : List Member) (o : Out), ms ≠ [] → ValidPe ms →
    coordReal pt andC t ms {} = .ok o → ∃ p, o.peng.peN = some p ∧ IsMinPerson p ms

def coord_gender_masc_iff_dep : Prop :=
  ∀ (pt : Str → Str) (andC : Str) (t : Term) (ms : List Member) (o : Out),
    coordReal pt andC t ms {} = .ok o → (o.peng.g = some masc ↔ SpecMasc ms)

/-- witness: `coord(C("and"), subj(the cat), coord(C("or"), subj(the dog), subj(the bird)))`: the last member is a
    coord, `coordReal` returns before any resolution (“The cat and the dog or the bird sleeps”) -/
def nestedLast : List Member :=
  [mkSubj [s "the", s "cat"] none,
   { nestedCoordMember with toks := [s "the", s "dog", s "or", s "the", s "bird"], pe := some (.int 1), g := some (s "m") }]

theorem coord_number_iff_dep_refuted : ¬ coord_number_iff_dep := by
  intro h
  have := h ptEn (s "and") andTerm nestedLast _ rfl
  revert this
  decide

theorem coord_person_min_dep_refuted : ¬ coord_person_min_dep := by
  intro h
  obtain ⟨p, hp, _⟩ := h ptEn (s "and") andTerm nestedLast _ (by decide) (by decide) rfl
  cases hp

theorem coord_gender_masc_iff_dep_refuted : ¬ coord_gender_masc_iff_dep := by
  intro h
  have := h ptEn (s "and") andTerm nestedLast _ rfl
  revert this
  decide

/-- the terminal is a `C` or a `Q` (or there is at most one member), every terminal has a counted type, no member is
    a coord -/
def ResolvableDep (t : Term) (ms : List Member) : Prop :=
  (t.kind = ['C'] ∨ t.kind = ['Q'] ∨ ms.length ≤ 1) ∧ (∀ m ∈ ms, m.kind ∈ coordCounted) ∧ ∀ m ∈ ms, m.rel ≠ coordStr

instance (t : Term) (ms : List Member) : Decidable (ResolvableDep t ms) := by
  unfold ResolvableDep; infer_instance

theorem dep_rec (pt : Str → Str) (andC : Str) (t : Term) (ms : List Member) (r0 : Rec) (o : Out)
    (hr : ResolvableDep t ms) (h : coordReal pt andC t ms r0 = .ok o) :
    (ms = [] ∧ o.peng = r0) ∨ (∃ m, ms = [m] ∧ o.peng = writeSingle m) ∨
    (2 ≤ ms.length ∧ ∃ gn, findGNP coordCounted (isAndTerm andC t) ms = .ok gn ∧ o.peng = writeGNP r0 gn) := by
  match ms with
  | [] =>
    simp only [coordReal, Except.ok.injEq] at h
    subst h; exact Or.inl ⟨rfl, rfl⟩
  | [m] =>
    simp only [coordReal, Except.ok.injEq] at h
    subst h; exact Or.inr (Or.inl ⟨m, rfl, rfl⟩)
  | m :: m' :: r =>
    refine Or.inr (Or.inr ⟨by simp, ?_⟩)
    obtain ⟨lastD, hl1, hl2, _⟩ := lastMember_some (pt := pt) (m :: m' :: r) (by simp)
    have hk : t.kind = ['C'] ∨ t.kind = ['Q'] := by
      rcases hr.1 with h1 | h1 | h1
      · exact Or.inl h1
      · exact Or.inr h1
      · simp at h1
    have hlc : lastD.rel ≠ coordStr := hr.2.2 lastD hl2
    unfold coordReal at h
    simp only [hl1, hlc, if_false, hk, if_true] at h
    cases hg : findGNP coordCounted (t.kind == ['C'] && t.lemma == andC) (m :: m' :: r) with
    | error e => rw [hg] at h; cases h
    | ok gn =>
      rw [hg] at h
      simp only [Except.ok.injEq] at h
      subst h
      have hnb := (findGNP_spec coordCounted _ _ hr.2.1 gn hg).2.2.2
      refine ⟨gn, hg, ?_⟩
      have : gn.nb ≠ 0 := by rw [hnb]; simp
      simp [writeGNPdep, writeGNP, this]

theorem coord_number_iff_dep_partial :
    ∀ (pt : Str → Str) (andC : Str) (t : Term) (ms : List Member) (o : Out), ResolvableDep t ms →
      coordReal pt andC t ms {} = .ok o → (o.peng.n = some plural ↔ SpecPlural (isAndTerm andC t) ms) := by
  intro pt andC t ms o hr h
  rcases dep_rec pt andC t ms {} o hr h with ⟨rfl, hp⟩ | ⟨m, rfl, hp⟩ | ⟨_, gn, hg, hp⟩
  · rw [hp]; simp [SpecPlural]
  · rw [hp]; simp [SpecPlural, writeSingle]
  · rw [hp]
    have := (findGNP_spec coordCounted _ ms hr.2.1 gn hg).1
    rw [← this]
    cases hn : gn.n <;> simp [writeGNP, hn]

theorem coord_gender_masc_iff_dep_partial :
    ∀ (pt : Str → Str) (andC : Str) (t : Term) (ms : List Member) (o : Out), ResolvableDep t ms →
      coordReal pt andC t ms {} = .ok o → (o.peng.g = some masc ↔ SpecMasc ms) := by
  intro pt andC t ms o hr h
  rcases dep_rec pt andC t ms {} o hr h with ⟨rfl, hp⟩ | ⟨m, rfl, hp⟩ | ⟨_, gn, hg, hp⟩
  · rw [hp]; simp [SpecMasc]
  · rw [hp]; simp [SpecMasc, writeSingle]
  · rw [hp]
    have := (findGNP_spec coordCounted _ ms hr.2.1 gn hg).2.1
    rw [← this]
    cases hn : gn.g <;> simp [writeGNP, hn]

theorem coord_person_min_dep_partial :
    ∀ (pt : Str → Str) (andC : Str) (t : Term) (ms : List Member) (o : Out), ms ≠ [] → ValidPe ms →
      ResolvableDep t ms →
      coordReal pt andC t ms {} = .ok o → ∃ p, o.peng.peN = some p ∧ IsMinPerson p ms := by
  intro pt andC t ms o hne hv hr h
  rcases dep_rec pt andC t ms {} o hr h with ⟨rfl, _⟩ | ⟨m, rfl, hp⟩ | ⟨_, gn, hg, hp⟩
  · exact absurd rfl hne
  · rw [hp]; exact single_person m hv
  · rw [hp]
    exact ⟨gn.pe, rfl, (findGNP_spec coordCounted _ ms hr.2.1 gn hg).2.2.1⟩

/-! ## no exception -/

/-- **C09.total** realizing a coordination whose members state valid persons (1, 2, 3 — numbers or digit strings)
    never raises -/
def coord_no_exception : Prop :=
  ∀ (pt : Str → Str) (andC : Str) (conj : Option Conj) (t : Term) (ms : List Member) (r0 : Rec), ValidPe ms →
    (∃ o, cpReal pt andC conj ms r0 = .ok o) ∧ (∃ o, coordReal pt andC t ms r0 = .ok o)

theorem coord_no_exception_holds : coord_no_exception := by
  intro pt andC conj t ms r0 hv
  have hstr : ∀ m ∈ ms, ∀ v, m.pe = some v → ∃ k, v.nat? = some k := fun m hm v h => hv.parses hm h
  constructor
  · match ms with
    | [] => exact ⟨_, rfl⟩
    | [m] => exact ⟨_, rfl⟩
    | m :: m' :: r =>
      cases conj with
      | none =>
        obtain ⟨gn, hg⟩ := findGNP_ok cpCounted false (m :: m' :: r) hstr
        unfold cpReal
        simp only [hg]
        exact ⟨_, rfl⟩
      | some c =>
        obtain ⟨gn, hg⟩ := findGNP_ok cpCounted (c.lemma == andC) (m :: m' :: r) hstr
        unfold cpReal
        simp only [hg]
        exact ⟨_, rfl⟩
  · match ms with
    | [] => exact ⟨_, rfl⟩
    | [m] => exact ⟨_, rfl⟩
    | m :: m' :: r =>
      obtain ⟨lastD, hl1, _, _⟩ := lastMember_some (pt := pt) (m :: m' :: r) (by simp)
      obtain ⟨gn, hg⟩ := findGNP_ok coordCounted (t.kind == ['C'] && t.lemma == andC) (m :: m' :: r) hstr
      unfold coordReal
      simp only [hl1, hg]
      split
      · exact ⟨_, rfl⟩
      · split <;> exact ⟨_, rfl⟩

/-! ## option propagation -/

/-- **C09.option** an option (other than the excluded `cap`, `lier`, `pos`) applied to the coordination is applied
    to exactly the members it is legal for — each once, in order, nobody else.  For every option table. -/
def coord_option_propagation : Prop :=
  ∀ (noProp : List Str) (table : List (Str × List Str)) (name : Str) (allowed : List Str) (kinds : List Str),
    noProp.contains name = false → lookup name table = some allowed →
    ∃ recv, propagate noProp table name kinds = some recv ∧ recv.Pairwise (· < ·) ∧
      ∀ i, i ∈ recv ↔ ∃ k, kinds[i]? = some k ∧ legal allowed k = true

theorem coord_option_propagation_holds : coord_option_propagation := by
  intro noProp table name allowed kinds hn hl
  refine ⟨propagateFrom allowed 0 kinds, by simp only [propagate, hn, Bool.false_eq_true, if_false, hl], (propagateFrom_spec allowed kinds 0).1, ?_⟩
  intro i
  rw [(propagateFrom_spec allowed kinds 0).2 i]
  constructor
  · rintro ⟨d, k, rfl, hk, hl'⟩
    exact ⟨k, by simpa using hk, hl'⟩
  · rintro ⟨k, hk, hl'⟩
    exact ⟨i, k, by simp, hk, hl'⟩

/-- the generated table (lifted from Constituent.py on every run) has one entry per option name, so `lookup`
    returns THE `allowedConsts` of each `makeOptionMethod` call; the excluded names are the same in both branches -/
theorem coord_option_table_tbl :
    (∀ p ∈ optionTable, lookup p.1 optionTable = some p.2) ∧ cpNoPropagate = coordNoPropagate := by
  decide +kernel

/-! ## agreement of the verb with a coordinated subject -/

/-- **C09.agreement** `S(CP(…), VP(V))` (the verb's own record holds its defaults: third person singular): the verb
    is conjugated with the lowest person of the members and is plural exactly when the property says so -/
def coord_subject_agreement : Prop :=
  ∀ (pt : Str → Str) (andC : Str) (conj : Option Conj) (ms : List Member) (g0 : Option Str), ValidPe ms →
    ∃ o, sCP pt andC conj ms { pe := some (.int 3), n := some sing, g := g0 } = .ok o ∧
      IsMinPerson o.pe ms ∧ (o.pl = true ↔ SpecPlural (isAndCP andC conj) ms)

/-- witness: `S(CP(C("or"), NP(the cat), CP(C("and"), …)), VP(V))`: the nested CP is not counted,
    “The cat or you and the dogs sleeps” -/
theorem coord_subject_agreement_refuted : ¬ coord_subject_agreement := by
  intro h
  obtain ⟨o, ho, _, hpl⟩ := h ptEn (s "and") (some orConj) [mkNP [s "the", s "cat"] none, nestedCP] none (by decide)
  have e : sCP ptEn (s "and") (some orConj) [mkNP [s "the", s "cat"] none, nestedCP]
      { pe := some (.int 3), n := some sing, g := none }
      = .ok (afterCoord { toks := [s "the", s "cat", s "or", s "you", s "and", s "the", s "dogs"],
                          peng := { pe := some (.int 3), n := none, g := some (s "n") } }) := rfl
  rw [e] at ho
  have : o = _ := (Except.ok.inj ho).symm
  subst this
  revert hpl
  decide

theorem coord_subject_agreement_partial :
    ∀ (pt : Str → Str) (andC : Str) (conj : Option Conj) (ms : List Member) (g0 : Option Str), ValidPe ms →
      Resolvable ms →
      ∃ o, sCP pt andC conj ms { pe := some (.int 3), n := some sing, g := g0 } = .ok o ∧
        IsMinPerson o.pe ms ∧ (o.pl = true ↔ SpecPlural (isAndCP andC conj) ms) := by
  intro pt andC conj ms g0 hv hr
  by_cases hne : conj.isNone ∧ ms.isEmpty
  · have hms : ms = [] := by simpa using hne.2
    subst hms
    refine ⟨afterCoord { toks := [], peng := { pe := some (.int 3), n := some sing, g := g0 } },
      by simp only [sCP, if_pos hne], ?_, ?_⟩
    · simp [afterCoord, verbView, Rec.peN, PeVal.nat?, IsMinPerson]
    · simp [afterCoord, verbView, SpecPlural, sing, plural]
  · obtain ⟨o, ho⟩ := (coord_no_exception_holds pt andC conj andTerm ms {} hv).1
    refine ⟨afterCoord o, by simp only [sCP, if_neg hne, ho], ?_, ?_⟩
    · by_cases hms : ms = []
      · subst hms
        simp only [cpReal, Except.ok.injEq] at ho
        subst ho
        rw [afterCoord_pe_none _ rfl]
        simp [IsMinPerson]
      · obtain ⟨p, hp, hmin⟩ := coord_person_min_partial pt andC conj ms o hms hv hr ho
        rw [afterCoord_pe o p hp]; exact hmin
    · rw [afterCoord_pl]
      exact coord_number_iff_partial pt andC conj ms o hr ho

def coord_subject_agreement_dep : Prop :=
  ∀ (pt : Str → Str) (andC : Str) (t : Term) (ms : List Member) (g0 : Option Str), ValidPe ms →
    ∃ o, sDep pt andC t ms { pe := some (.int 3), n := some sing, g := g0 } = .ok o ∧
      IsMinPerson o.pe ms ∧ (o.pl = true ↔ SpecPlural (isAndTerm andC t) ms)

/-- witness: `root(V, coord(C("and"), subj(the cat), coord(C("or"), …)))`: two members joined by “and”, singular verb -/
theorem coord_subject_agreement_dep_refuted : ¬ coord_subject_agreement_dep := by
  intro h
  obtain ⟨o, ho, _, hpl⟩ := h ptEn (s "and") andTerm nestedLast (some (s "n")) (by decide)
  have e : sDep ptEn (s "and") andTerm nestedLast { pe := some (.int 3), n := some sing, g := some (s "n") }
      = .ok (afterCoord { toks := [s "the", s "cat", s "and", s "the", s "dog", s "or", s "the", s "bird"],
                          peng := { pe := some (.int 3), n := some sing, g := some (s "n") } }) := rfl
  rw [e] at ho
  have : o = _ := (Except.ok.inj ho).symm
  subst this
  revert hpl
  decide

theorem coord_subject_agreement_dep_partial :
    ∀ (pt : Str → Str) (andC : Str) (t : Term) (ms : List Member) (g0 : Option Str), ValidPe ms →
      (t.kind = ['C'] ∨ t.kind = ['Q'] ∨ ms.length ≤ 1) → (∀ m ∈ ms, m.kind ∈ coordCounted) →
      (∀ m ∈ ms, m.rel = ['s','u','b','j']) →
      ∃ o, sDep pt andC t ms { pe := some (.int 3), n := some sing, g := g0 } = .ok o ∧
        IsMinPerson o.pe ms ∧ (o.pl = true ↔ SpecPlural (isAndTerm andC t) ms) := by
  intro pt andC t ms g0 hv hC hk hsubj
  have hr : ResolvableDep t ms := ⟨hC, hk, fun m hm => by rw [hsubj m hm]; decide⟩
  by_cases hne : ms = []
  · subst hne
    refine ⟨_, rfl, ?_, ?_⟩
    · simp [afterCoord, verbView, Rec.peN, PeVal.nat?, IsMinPerson]
    · simp [afterCoord, verbView, SpecPlural, sing, plural]
  · have hsh : depShares ms = true := by
      cases ms with
      | nil => exact absurd rfl hne
      | cons f r => simp [depShares, hsubj f (by simp)]
    obtain ⟨o, ho⟩ := (coord_no_exception_holds pt andC none t ms
      { pe := some (.int 3), n := some sing, g := g0 } hv).2
    refine ⟨afterCoord o, by simp [sDep, hsh, ho], ?_, ?_⟩
    · rcases dep_rec pt andC t ms _ o hr ho with ⟨rfl, _⟩ | ⟨m, rfl, hp⟩ | ⟨_, gn, hg, hp⟩
      · exact absurd rfl hne
      · obtain ⟨p, hp1, hmin⟩ := single_person m hv
        rw [afterCoord_pe o p (by rw [hp]; exact hp1)]; exact hmin
      · rw [afterCoord_pe o gn.pe (by rw [hp]; rfl)]
        exact (findGNP_spec coordCounted _ ms hk gn hg).2.2.1
    · rw [afterCoord_pl]
      rcases dep_rec pt andC t ms _ o hr ho with ⟨rfl, _⟩ | ⟨m, rfl, hp⟩ | ⟨_, gn, hg, hp⟩
      · exact absurd rfl hne
      · rw [hp]; simp [SpecPlural, writeSingle]
      · rw [hp, ← (findGNP_spec coordCounted _ ms hk gn hg).1]
        cases hgn : gn.n with
        | none => simp [writeGNP, hgn, sing, plural]
        | some x => simp [writeGNP, hgn]

/-! ## a coordination of attributes leaves the subject's person alone (dependency notation) -/

def compStr : Str := ['c','o','m','p']

/-- **C09.attribute** `root(V, subj(Pro), coord(C, comp(A)…))`: the coord of adjectives shares the record of the
    subject (Dependent.linkProperties); realizing it must not change the person the verb agrees with -/
def coord_attribute_keeps_person_dep : Prop :=
  ∀ (pt : Str → Str) (andC : Str) (t : Term) (ms : List Member) (r0 : Rec) (p : Nat) (o : SOut),
    r0.pe = some (.int p) → (∀ m ∈ ms, m.kind = ['A'] ∧ m.rel = compStr ∧ m.pe = r0.pe) →
    sDep pt andC t ms r0 = .ok o → o.pe = p

theorem coord_attribute_keeps_person_dep_holds : coord_attribute_keeps_person_dep := by
  intro pt andC t ms r0 p o hp hm h
  have hpn : r0.peN = some p := by simp [Rec.peN, hp, PeVal.nat?]
  have hunc : ∀ m ∈ ms, m.kind ∉ coordCounted := by
    intro m hmm
    rw [(hm m hmm).1]
    decide
  match ms with
  | [] =>
    simp only [sDep, depShares, Bool.false_eq_true, if_false, coordReal, Except.ok.injEq] at h
    subst h
    exact afterCoord_pe _ p hpn
  | [m] =>
    have h1 := hm m (by simp)
    have hsh : depShares [m] = true := by simp [depShares, h1.1, h1.2.1, compStr]
    simp only [sDep, hsh, if_true, coordReal, Except.ok.injEq] at h
    subst h
    exact afterCoord_pe _ p (by simp [writeSingle, Rec.peN, h1.2.2, hp, PeVal.nat?])
  | m :: m' :: r =>
    have h1 := hm m (by simp)
    have hsh : depShares (m :: m' :: r) = true := by simp [depShares, h1.1, h1.2.1, compStr]
    obtain ⟨lastD, hl1, hl2, _⟩ := lastMember_some (pt := pt) (m :: m' :: r) (by simp)
    have hlc : lastD.rel ≠ coordStr := by rw [(hm lastD hl2).2.1]; decide
    simp only [sDep, hsh, if_true] at h
    unfold coordReal at h
    simp only [hl1, hlc, if_false] at h
    rw [findGNP_uncounted coordCounted _ _ hunc] at h
    by_cases hk : t.kind = ['C'] ∨ t.kind = ['Q']
    · simp only [hk, if_true, Except.ok.injEq] at h
      rw [← h]
      exact afterCoord_pe _ p (by simpa [writeGNPdep] using hpn)
    · simp only [hk, if_false, Except.ok.injEq] at h
      rw [← h]; exact afterCoord_pe _ p hpn


/-! ## bare pronouns as members: lexicon features against the declension tables (generated data) -/

/-- **C09.pronoun-data** for every `Pro` entry of both lexicons: the person / number / gender a bare pronoun starts
    with agree with its declension table whenever the whole table has one person / number / gender -/
def pronoun_entry_features_consistent_tbl : Prop :=
  ∀ e ∈ proEntries, consistentPe e = true ∧ consistentN e = true ∧ consistentG e = true

/-- witness: English `them` (table pn2-3p, all rows plural) carries no `n`: a bare `Pro("them")` is singular,
    “The girl or them comes” -/
theorem pronoun_entry_features_consistent_tbl_refuted : ¬ pronoun_entry_features_consistent_tbl := by
  intro h
  have hm : (⟨s "en", s "them", s "pn2-3p", none, none, none,
      [(some 3, some (s "p"), some (s "x")), (some 3, some (s "p"), some (s "x")), (some 3, some (s "p"), some (s "x")),
       (some 3, some (s "p"), some (s "x")), (some 3, some (s "p"), some (s "x")), (some 3, some (s "p"), some (s "x"))]⟩ : ProEntry)
      ∈ proEntries := by decide +kernel
  have := (h _ hm).2.1
  revert this
  decide

/-- the inconsistencies of the shipped data (language, lemma, feature) -/
def knownProInconsistencies : List (Str × Str × Str) :=
  [(s "en", s "them", s "n"), (s "en", s "us", s "n"), (s "en", s "him", s "g"), (s "en", s "her", s "g"),
   (s "fr", s "ça", s "g"), (s "fr", s "ce", s "g"), (s "fr", s "ceci", s "g"), (s "fr", s "cela", s "g")]

set_option maxRecDepth 20000 in
theorem pronoun_entry_features_consistent_tbl_partial :
    ∀ e ∈ proEntries,
      ((e.lang, e.lemma, s "pe") ∉ knownProInconsistencies → consistentPe e = true) ∧
      ((e.lang, e.lemma, s "n") ∉ knownProInconsistencies → consistentN e = true) ∧
      ((e.lang, e.lemma, s "g") ∉ knownProInconsistencies → consistentG e = true) := by
  decide +kernel

/-- the exception list is tight: each listed triple IS inconsistent in the shipped data -/
theorem pronoun_known_inconsistencies_tbl :
    ∀ t ∈ knownProInconsistencies, ∃ e ∈ proEntries, e.lang = t.1 ∧ e.lemma = t.2.1 ∧
      ((t.2.2 = s "n" ∧ consistentN e = false) ∨ (t.2.2 = s "g" ∧ consistentG e = false)) := by
  decide +kernel

/-! ## non-vacuity: concrete instances of the hypotheses, and the model run on them (tests, not theorems) -/

def theCat : Member := mkNP [s "the", s "cat"] none
def theDog : Member := mkNP [s "the", s "dog"] none
def theBirds : Member := { mkNP [s "the", s "birds"] none with n := some (s "p") }
def andConj : Conj := { lemma := s "and", toks := [s "and"] }
example : CleanMs [theCat, theDog, theBirds] ∧ Resolvable [theCat, theDog, theBirds]
    ∧ ValidPe [theCat, theDog, theBirds] ∧ (∀ m ∈ [theCat, theDog, theBirds], m.a = none) := by decide
example : (cpReal ptEn (s "and") (some andConj) [theCat, theDog, theBirds] {}).toOption.map (·.toks)
    = some [s "the", s "cat, ", s "the", s "dog", s "and", s "the", s "birds"] := by decide
example : (cpReal ptEn (s "and") none [theCat, theDog, theBirds] {}).toOption.map (·.toks)
    = some [s "the", s "cat, ", s "the", s "dog, ", s "the", s "birds"] := by decide
-- a member with its own “!” keeps it and gets the comma after it; a member with its own comma gets no second one
example : (cpReal ptEn (s "and") (some andConj) [mkNP [s "the", s "cat"] (some [s "!"]), mkNP [s "the", s "dog"] (some [s ","]),
      theDog, theBirds] {}).toOption.map (·.toks)
    = some [s "the", s "cat! , ", s "the", s "dog, ", s "the", s "dog", s "and", s "the", s "birds"] := by decide
example : specToks ptEn (some [s "and"]) [theCat, theDog, theBirds]
    = [s "the", s "cat, ", s "the", s "dog", s "and", s "the", s "birds"] := by decide
-- “me or you”: first person, singular ; “me and you”: first person, plural
example : (sCP ptEn (s "and") (some orConj) [mkPro (s "me") 1 (s "s") (s "m"), mkPro (s "you") 2 (s "s") (s "m")] {}).toOption.map
    (fun o => (o.pe, o.pl)) = some (1, false) := by decide
example : (sCP ptEn (s "and") (some andConj) [mkPro (s "me") 1 (s "s") (s "m"), mkPro (s "you") 2 (s "s") (s "m")] {}).toOption.map
    (fun o => (o.pe, o.pl)) = some (1, true) := by decide
example : ResolvableDep andTerm [mkSubj [s "the", s "cat"] none, mkSubj [s "the", s "dog"] none]
    ∧ Consistent [mkSubj [s "the", s "cat"] none, mkSubj [s "the", s "dog"] none] ∧ TermOK andTerm
    ∧ TermOK { kind := s "Q", lemma := [], toks := [[]] } := by decide
example : propagate cpNoPropagate optionTable (s "n") [s "C", s "NP", s "A", s "CP", s "Adv", s "Pro"] = some [1, 2, 3, 5] := by decide
example : propagate cpNoPropagate optionTable (s "tn") [s "C", s "NP", s "A", s "CP", s "Adv", s "Pro"] = some [5] := by decide
example : propagate cpNoPropagate optionTable (s "cap") [s "C", s "NP"] = none := by decide

end Pyrealb.C09
