import Pyrealb.Lemmas.ConjWF
import Pyrealb.Gen.ConjEn
import Pyrealb.Gen.ConjFr
/-! # C01 — conjugation follows the tables

Property theorems only.  The models (`Model/ConjEn`, `Model/ConjFr`) mirror `TerminalEn.conjugate`,
`TerminalFr.conjugate`, `Terminal.setLemma`, `morphoError`.  Here the property is stated DECLARATIVELY
(`specEn`, `specFr`: tense ↦ periphrase skeleton + which cell of which row; a cell is rendered `stem ++ ending`, a
missing row or `null` cell is rendered `[[lemma]]` with one warning) and the models are proved equal to it for
ALL tables and lemmas satisfying the decidable well-formedness predicates (`wfVerbEn`, `wfVerbFr`); those
predicates are then proved of every table in use by `decide +kernel` over the tables generated from /repo.

`.error .other` is the model's "outside the modelled surface fragment" marker (never a Python exception). -/
namespace Pyrealb.C01
open Pyrealb Pyrealb.Conj

/-! ## The declarative specification -/

/-- the ending that table `tb` prescribes for tense `t`, person index `i`; `none` = the form does not exist
    (row absent, `null` row, `null` cell) -/
def cell (tb : Table) (t : Tense) (i : Nat) : Option Str :=
  match tb.row? t.code with
  | none => none
  | some .null => none
  | some (.str x) => some x
  | some (.list l) => (l[i]?).join

/-- `lemma = stem ++ ending` -/
def stemOf (tb : Table) (lemma : Str) : Str := dropRight lemma tb.ending.length

/-- a table cell rendered: `stem ++ ending`, or the bracketed lemma and one warning -/
def form (tb : Table) (lemma : Str) (t : Tense) (i : Nat) : Str × Nat :=
  match cell tb t i with
  | some e => (stemOf tb lemma ++ e, 0)
  | none => (bracket lemma, 1)

/-- the same for a verb given by its lexicon entry (used for the auxiliaries) -/
def formOf (rules : Rules) (v : Verb) (t : Tense) (i : Nat) : Str × Nat :=
  match lookup v.tab rules with
  | some tb => form tb v.lemma t i
  | none => (bracket v.lemma, 1)

/-! cells of list-valued rows -/

theorem cell6 {tb : Table} {t : Tense} {a b c d e f : Option Str}
    (h : tb.row? t.code = some (.list [a, b, c, d, e, f])) (pe : Person) (n : Num) :
    cell tb t (idx6 pe n) = pick6 a b c d e f pe n := by
  unfold cell
  rw [h]
  cases pe <;> cases n <;> rfl

theorem cell4 {tb : Table} {t : Tense} {a b c d : Option Str}
    (h : tb.row? t.code = some (.list [a, b, c, d])) (n : Num) (g : Gender) :
    cell tb t (ConjFr.idx4 n g) = pick4 a b c d n g := by
  unfold cell
  rw [h]
  cases n <;> cases g <;> rfl

theorem cellStr {tb : Table} {t : Tense} {y : Str} (h : tb.row? t.code = some (.str y)) (i : Nat) :
    cell tb t i = some y := by
  unfold cell
  rw [h]


/-! ### English -/

/-- a word of an English periphrase -/
inductive SlotEn where
  /-- a fixed word -/
  | lit (w : Str)
  /-- an auxiliary verb in a tense, third person singular -/
  | aux (v : Verb) (t : Tense)
  deriving Repr

/-- how the verb itself appears -/
inductive MainEn where
  /-- the base form = the lemma -/
  | base
  /-- a fixed word -/
  | lit (w : Str)
  /-- `stem ++` the cell of row `t` for the person -/
  | cell (t : Tense)
  deriving Repr

/-- THE ENGLISH TENSE TABLE: tense ↦ (words before the verb, the verb); `none` = not an English tense -/
def tenseEn (will have_ : Verb) (lemma : Str) (pe : Person) (n : Num) : Tense → Option (List SlotEn × MainEn)
  | .p => some ([], .cell .p)
  | .ps => some ([], .cell .ps)
  | .pr => some ([], .cell .pr)
  | .pp => some ([], .cell .pp)
  | .b => some ([], .cell .b)
  | .s => some ([], .base)
  | .si => some ([], if lemma = s "be" then .lit (s "were") else .cell .ps)
  | .f => some ([.aux will .p], .base)
  | .c => some ([.aux will .ps], .base)
  | .bTo => some ([.lit (s "to")], .base)
  | .bp => some ([.aux have_ .b], .cell .pp)
  | .bpTo => some ([.lit (s "to"), .aux have_ .b], .cell .pp)
  | .ip => some (if pe = .p1 ∧ n = .p then [.lit (s "let's")] else [], .base)
  | _ => none

def SlotEn.render (rules : Rules) : SlotEn → Str × Nat
  | .lit w => (w, 0)
  | .aux v t => formOf rules v t (idx6 .p3 .s)

def MainEn.render (tb : Table) (lemma : Str) (i : Nat) : MainEn → Str × Nat
  | .base => (lemma, 0)
  | .lit w => (w, 0)
  | .cell t => form tb lemma t i

/-- the specified result for a verb whose table is `tb` -/
def specEnTb (rules : Rules) (will have_ : Verb) (tb : Table) (lemma : Str) (pe : Person) (n : Num) (t : Tense) :
    ConjEn.EnOut :=
  match tenseEn will have_ lemma pe n t with
  | none => { pre := [], self := bracket lemma, warns := 1 }
  | some (pre, main) =>
    let ws := pre.map (SlotEn.render rules)
    let m := main.render tb lemma (idx6 pe n)
    { pre := ws.map (·.1), self := m.1, warns := (ws.map (·.2)).sum + m.2 }

/-- well-formed English data (decidable): the verb and the two auxiliaries `will`, `have` -/
def wfEnB (rules : Rules) (env : ConjEn.EnEnv) (v : Verb) : Bool :=
  wfVerbEn rules v &&
  match env.will, env.have_ with
  | some w, some h => w.lemma == s "will" && h.lemma == s "have" && wfVerbEn rules w && wfVerbEn rules h
  | _, _ => false

def WFEn (rules : Rules) (env : ConjEn.EnEnv) (v : Verb) : Prop := wfEnB rules env v = true

theorem WFEn_elim {rules : Rules} {env : ConjEn.EnEnv} {v : Verb} (h : WFEn rules env v) :
    wfVerbEn rules v = true ∧
    ∃ w h, env.will = some w ∧ env.have_ = some h ∧ w.lemma = s "will" ∧ h.lemma = s "have" ∧
      wfVerbEn rules w = true ∧ wfVerbEn rules h = true := by
  unfold WFEn wfEnB at h
  cases hw : env.will with
  | none => simp [hw] at h
  | some w =>
    cases hh : env.have_ with
    | none => simp [hw, hh] at h
    | some h' =>
      simp only [hw, hh, Bool.and_eq_true, beq_iff_eq] at h
      exact ⟨h.1, w, h', rfl, rfl, h.2.1.1.1, h.2.1.1.2, h.2.1.2, h.2.2⟩

/-- the specification of `V(v.lemma).t(t).pe(pe).n(n)` (English) -/
def specEn (rules : Rules) (env : ConjEn.EnEnv) (v : Verb) (pe : Person) (n : Num) (t : Tense) : ConjEn.EnOut :=
  match lookup v.tab rules, env.will, env.have_ with
  | some tb, some w, some h => specEnTb rules w h tb v.lemma pe n t
  | _, _, _ => { pre := [], self := bracket v.lemma, warns := 1 }

/-- **C01.en** the English conjugation is the specified one, for every table, lemma, tense, person, number -/
def conjEn_spec : Prop :=
  ∀ (rules : Rules) (env : ConjEn.EnEnv) (v : Verb) (pe : Person) (n : Num) (t : Tense),
    WFEn rules env v → ConjEn.conjugate rules env v.lemma (some v) pe n t = .ok (specEn rules env v pe n t)

/-! #### the model on a well-formed table -/

set_option linter.unusedSimpArgs false in
/-- the simple tenses `p ps pr pp b`: the model renders the cell, whatever the nested realizer -/
theorem conjugateWith_cell (nested : ConjEn.Nested) (rules : Rules) (env : ConjEn.EnEnv) (v : Verb) (tb : Table)
    (pe : Person) (n : Num) (t : Tense) (htb : lookup v.tab rules = some tb) (hwf : wfTableEn tb = true)
    (hend : endsWith v.lemma tb.ending = true) (ht : t = .p ∨ t = .ps ∨ t = .pr ∨ t = .pp ∨ t = .b) :
    ConjEn.conjugateWith nested rules env (setLemma rules v.lemma (some v)) pe n t =
      .ok { pre := [], self := (form tb v.lemma t (idx6 pe n)).1, warns := (form tb v.lemma t (idx6 pe n)).2 } := by
  have R := wfTableEn_elim hwf
  rw [setLemma_wf htb hend]
  unfold ConjEn.conjugateWith
  simp only [htb]
  cases hrow : tb.row? t.code with
  | none =>
    have hno : tb.hasRow t.code = false := by simp [Table.hasRow, hrow]
    rcases ht with rfl | rfl | rfl | rfl | rfl <;>
      simp [hno, form, cell, hrow, ConjEn.morpho]
  | some r =>
    have hyes : tb.hasRow t.code = true := by simp [Table.hasRow, hrow, R.hasT]
    rcases R.row t r hrow with ⟨_, x, rfl⟩ | ⟨hlist, ⟨x, rfl⟩ | ⟨a, b, c, d, e, f, rfl⟩⟩
    · rcases ht with rfl | rfl | rfl | rfl | rfl <;>
        simp [hyes, hrow, form, cell, stemOf, Row.concat]
    · rcases ht with rfl | rfl | rfl | rfl | rfl <;>
        simp [hyes, hrow, form, cell, stemOf, Row.concat]
    · have hc := cell6 hrow pe n
      rcases ht with rfl | rfl | rfl | rfl | rfl <;> simp only [hyes, hrow] <;>
        first
          | (exfalso; simp at hlist; done)
          | (cases hp : pick6 a b c d e f pe n <;> simp [form, hc, hp, stemOf, at6, ConjEn.morpho])

/-- the nested `V(aux).t(ta).realize()` of `insertReal` gives the auxiliary's cell for the third person singular -/
theorem nestedReal_cell (rules : Rules) (env : ConjEn.EnEnv) (w : Verb) (ta : Tense)
    (hw : wfVerbEn rules w = true) (ht : ta = .p ∨ ta = .ps ∨ ta = .b) :
    ConjEn.nestedReal rules env (some w) w.lemma ta = .ok (formOf rules w ta (idx6 .p3 .s)) := by
  obtain ⟨tb, htb, hwf, hend⟩ := wfVerb_elim hw
  unfold ConjEn.nestedReal
  rw [conjugateWith_cell ConjEn.noNested rules env w tb .p3 .s ta htb hwf hend (by
    rcases ht with rfl | rfl | rfl <;> simp)]
  simp [formOf, htb]

/-- the participle slot of the perfect infinitives is the `pp` cell -/
theorem participle_form {tb : Table} (R : EnRows tb) (tab lemma : Str) (i : Nat) :
    ConjEn.participle tb { lemma := lemma, tab := some tab, stem := stemOf tb lemma, warns := 0 } =
      .ok (form tb lemma .pp i) := by
  unfold ConjEn.participle
  simp only [R.hasT, if_true]
  cases hrow : tb.row? (s "pp") with
  | none => simp [form, cell, show tb.row? Tense.pp.code = none from hrow]
  | some r =>
    have hrow' : tb.row? Tense.pp.code = some r := hrow
    rcases R.row .pp r hrow' with ⟨_, y, rfl⟩ | ⟨h, _⟩
    · simp [form, cell, hrow', Row.concat]
    · simp at h

/-- **C01.en** holds: the model of `TerminalEn.conjugate` IS the specification — all tables, lemmas, tenses,
    persons, numbers -/
theorem conjEn_spec_holds : conjEn_spec := by
  intro rules env v pe n t hWF
  obtain ⟨hv, w, h, hew, heh, hwl, hhl, hw, hh⟩ := WFEn_elim hWF
  obtain ⟨tb, htb, hwf, hend⟩ := wfVerb_elim hv
  have R := wfTableEn_elim hwf
  unfold ConjEn.conjugate
  by_cases hcell : t = .p ∨ t = .ps ∨ t = .pr ∨ t = .pp ∨ t = .b
  · rw [conjugateWith_cell _ rules env v tb pe n t htb hwf hend hcell]
    rcases hcell with rfl | rfl | rfl | rfl | rfl <;>
      simp [specEn, htb, hew, heh, specEnTb, tenseEn, MainEn.render]
  · have hno : tb.hasRow t.code = false := noRowEn R (by
      refine ⟨?_, ?_, ?_, ?_, ?_⟩ <;> (intro h; subst h; simp at hcell))
    have hn1 := nestedReal_cell rules env w .p hw (by simp)
    have hn2 := nestedReal_cell rules env w .ps hw (by simp)
    have hn3 := nestedReal_cell rules env h .b hh (by simp)
    rw [hwl] at hn1 hn2
    rw [hhl] at hn3
    have hpp := participle_form R v.tab v.lemma (idx6 pe n)
    rw [setLemma_wf htb hend]
    unfold ConjEn.conjugateWith
    simp only [htb, hno]
    cases t <;> simp at hcell <;>
      simp [specEn, htb, hew, heh, specEnTb, tenseEn, MainEn.render, SlotEn.render, ConjEn.morpho, hn1, hn2, hn3,
        show dropRight v.lemma tb.ending.length = stemOf tb v.lemma from rfl, hpp]
    -- what is left: `si`, `ip`
    · by_cases hbe : v.lemma = s "be"
      · simp [hbe]
      · simp only [hbe, if_false, R.hasT, if_true]
        cases hrow : tb.row? (s "ps") with
        | none => simp [form, cell, show tb.row? Tense.ps.code = none from hrow]
        | some r =>
          have hrow' : tb.row? Tense.ps.code = some r := hrow
          rcases R.row .ps r hrow' with ⟨h, _⟩ | ⟨_, ⟨y, rfl⟩ | ⟨a, b, c, d, e, f, rfl⟩⟩
          · simp at h
          · simp [form, cell, hrow', stemOf]
          · have hc := cell6 hrow' pe n
            simp only [at6]
            cases hp : pick6 a b c d e f pe n <;> simp [form, hc, hp, stemOf]
    · by_cases hlet : pe = .p1 ∧ n = .p <;> simp [hlet, SlotEn.render]

/-! #### generated data (re-proved against /repo on every run) -/

/-- the table `name` exists and has the shape the code is written for -/
def tableOK (wf : Table → Bool) (tables : Rules) (name : Str) : Bool :=
  match lookup name tables with
  | some tb => wf tb
  | none => false

/-- **C01.tables-en** every table that an English lexicon verb refers to exists and is well formed -/
def tables_wf_en : Prop := ∀ name ∈ Gen.ConjEn.used, tableOK wfTableEn Gen.ConjEn.tables name = true

set_option maxRecDepth 100000 in
theorem tables_wf_en_holds : tables_wf_en := by
  unfold tables_wf_en
  decide +kernel

def genEnvEn : ConjEn.EnEnv := { will := Gen.ConjEn.will, have_ := Gen.ConjEn.have_ }

def eatV : Verb := { lemma := s "eat", tab := s "v70" }
def whizV : Verb := { lemma := s "whiz", tab := s "v82" }

/-- **C01.periphrase-en** the English auxiliaries on the shipped tables: `will` ↦ will / would, `have` ↦ have;
    the auxiliaries' entries are well formed -/
def periphrase_en : Prop :=
  (Gen.ConjEn.will.map (fun w => (formOf Gen.ConjEn.tables w .p 2, formOf Gen.ConjEn.tables w .ps 2))) =
      some ((s "will", 0), (s "would", 0)) ∧
  (Gen.ConjEn.have_.map (fun h => formOf Gen.ConjEn.tables h .b 2)) = some (s "have", 0) ∧
  WFEn Gen.ConjEn.tables genEnvEn eatV

set_option maxRecDepth 100000 in
theorem periphrase_en_tbl : periphrase_en := by
  unfold periphrase_en WFEn
  decide +kernel

/-! #### defective forms, totality (English) -/

/-- **C01.defective-en** a form that the table does not have (row absent or `null`) is realized as the bracketed
    lemma with exactly one warning: the five cell tenses, and the past subjunctive (= the `ps` cell) -/
def defective_en : Prop :=
  ∀ (rules : Rules) (env : ConjEn.EnEnv) (v : Verb) (tb : Table) (pe : Person) (n : Num) (t : Tense),
    WFEn rules env v → lookup v.tab rules = some tb →
    (t = .p ∨ t = .ps ∨ t = .pr ∨ t = .pp ∨ t = .b ∨ (t = .si ∧ v.lemma ≠ s "be")) →
    cell tb (if t = .si then .ps else t) (idx6 pe n) = none →
    ConjEn.realize rules env v.lemma (some v) pe n t = .ok { text := bracket v.lemma, warns := 1 }

theorem surfaceEn_bracket (lemma : Str) :
    surfaceEn (({ pre := [], self := bracket lemma, warns := 1 } : ConjEn.EnOut).toks) = bracket lemma := by
  simp [ConjEn.EnOut.toks, surfaceEn, removeEmpty, detok, stripLeadingSpace, bracket, s]

theorem defective_en_holds : defective_en := by
  intro rules env v tb pe n t hWF htb ht hc
  unfold ConjEn.realize
  rw [conjEn_spec_holds rules env v pe n t hWF]
  obtain ⟨_, w, h, hew, heh, _⟩ := WFEn_elim hWF
  have : specEn rules env v pe n t = { pre := [], self := bracket v.lemma, warns := 1 } := by
    rcases ht with rfl | rfl | rfl | rfl | rfl | ⟨rfl, hbe⟩ <;>
      simp_all [specEn, specEnTb, tenseEn, MainEn.render, form]
  rw [this]
  simp only [surfaceEn_bracket]

/-- **C01.total-en** realization never raises -/
def total_en : Prop :=
  ∀ (rules : Rules) (env : ConjEn.EnEnv) (v : Verb) (pe : Person) (n : Num) (t : Tense),
    WFEn rules env v → ∃ r, ConjEn.realize rules env v.lemma (some v) pe n t = .ok r

theorem total_en_holds : total_en := by
  intro rules env v pe n t hWF
  unfold ConjEn.realize
  rw [conjEn_spec_holds rules env v pe n t hWF]
  exact ⟨_, rfl⟩

/-! non-vacuity: the hypotheses are satisfiable by the shipped data (tests, not property theorems) -/
example : WFEn Gen.ConjEn.tables genEnvEn eatV ∧ WFEn Gen.ConjEn.tables genEnvEn whizV := by
  refine ⟨by unfold WFEn; decide +kernel, by unfold WFEn; decide +kernel⟩
example : ConjEn.realize Gen.ConjEn.tables genEnvEn (s "eat") (some eatV) .p3 .s .c
    = .ok { text := s "would eat", warns := 0 } := by decide +kernel
example : ConjEn.realize Gen.ConjEn.tables genEnvEn (s "eat") (some eatV) .p3 .s .bpTo
    = .ok { text := s "to have eaten", warns := 0 } := by decide +kernel
example : ConjEn.realize Gen.ConjEn.tables genEnvEn (s "whiz") (some whizV) .p3 .s .si
    = .ok { text := s "[[whiz]]", warns := 1 } := by decide +kernel
example : ConjEn.realize Gen.ConjEn.tables genEnvEn (s "whiz") (some whizV) .p3 .s .bp
    = .ok { text := s "have [[whiz]]", warns := 1 } := by decide +kernel

/-! ### French -/

/-- THE FRENCH TENSE TABLE -/
inductive KindFr where
  /-- the person cell of the tense's own row; a reflexive verb takes its pronoun before -/
  | finite
  /-- imperative: second singular, first and second plural only; a reflexive verb takes the tonic pronoun after,
      hyphenated -/
  | imper
  /-- past participle: the agreement cell -/
  | part
  /-- infinitive / present participle: the row is one string; reflexive pronoun before -/
  | nonfin
  /-- the auxiliary in tense `ta` followed by the past participle -/
  | compound (ta : Tense)
  /-- not a French tense -/
  | noTense
  deriving DecidableEq, Repr

def kindFr : Tense → KindFr
  | .p | .i | .f | .ps | .c | .s | .si => .finite
  | .ip => .imper
  | .pp => .part
  | .pr | .b => .nonfin
  | .pc => .compound .p | .pq => .compound .i | .cp => .compound .c | .pa => .compound .ps
  | .fa => .compound .f | .spa => .compound .s | .spq => .compound .si | .bp => .compound .b
  | .bTo | .bpTo => .noTense

/-- one occurrence of a verb, as the specification sees it -/
structure OccFr where
  lemma : Str
  tb : Table
  /-- essentially reflexive (`pat = ["réfl"]`), or the auxiliary of such a verb -/
  refl : Bool
  /-- the participle does not agree: lexicon `pat = ["intr"]` and auxiliary avoir -/
  invariable : Bool
  /-- h aspiré -/
  hAsp : Bool

def defectFr (lemma : Str) : Out := { toks := [morphoTok lemma], warns := 1 }

/-- a verb in a simple tense: its own word, with the pronoun of a reflexive verb -/
def specSimple (env : ConjFr.FrEnv) (x : OccFr) (pe : Person) (n : Num) (g : Gender) (t : Tense) : Out :=
  let vtok (e : Str) (lier : Bool) : Tok := { real := stemOf x.tb x.lemma ++ e, isV := true, hAsp := x.hAsp, lier := lier }
  match kindFr t with
  | .finite | .nonfin =>
    match cell x.tb t (idx6 pe n) with
    | none => defectFr x.lemma
    | some e =>
      { toks := (if x.refl then [{ real := env.reflPro pe n g, isPro := true }] else []) ++ [vtok e false], warns := 0 }
  | .imper =>
    if (pe = .p2 ∧ n = .s) ∨ (pe = .p1 ∧ n = .p) ∨ (pe = .p2 ∧ n = .p) then
      match cell x.tb .ip (idx6 pe n) with
      | none => defectFr x.lemma
      | some e =>
        if x.refl then { toks := [vtok e true, { real := env.tonicPro pe n g, isPro := true }], warns := 0 }
        else { toks := [vtok e false], warns := 0 }
    else defectFr x.lemma
  | .part =>
    if ConjFr.idx4 n g ≠ 0 ∧ x.invariable = true then defectFr x.lemma
    else
      match cell x.tb .pp (ConjFr.idx4 n g) with
      | none => defectFr x.lemma
      | some e => { toks := [vtok e false], warns := 0 }
  | _ => defectFr x.lemma

/-- the specified result for a verb with table `tb`; `tba`, `tbe` are the tables of avoir and être -/
def specFrTb (env : ConjFr.FrEnv) (a e : Verb) (tba tbe tb : Table) (v : Verb) (auxOpt : Option Str)
    (pe : Person) (n : Num) (g : Gender) (t : Tense) : Except Crash Out :=
  let refl : Bool := decide (v.pat = some ConjFr.reflPat)
  let auxLex : Str := v.aux.getD (s "av")
  let auxEff : Str := auxOpt.getD auxLex
  let me (aux : Str) : OccFr :=
    { lemma := v.lemma, tb := tb, refl := refl, invariable := decide (v.pat = some ConjFr.intrPat ∧ aux = s "av"),
      hAsp := v.hAsp }
  match kindFr t with
  | .compound ta =>
    -- a verb that has no form in the auxiliary's tense at this person has no compound form either
    if cell tb ta (idx6 pe n) = none then .ok (defectFr v.lemma)
    else
      -- être for reflexive verbs and when the (effective) auxiliary is `êt`; the participle then agrees
      let etre : Bool := refl || decide (auxEff = s "êt")
      let auxOcc : OccFr :=
        if etre then { lemma := e.lemma, tb := tbe, refl := refl, invariable := false, hAsp := e.hAsp }
        else { lemma := a.lemma, tb := tba, refl := false, invariable := false, hAsp := a.hAsp }
      let gp := if etre then g else Gender.m
      let np := if etre then n else Num.s
      let auxS := specSimple env auxOcc pe n g ta
      -- inside the periphrase stands the participle of the bare verb (lexicon auxiliary)
      let ppS := specSimple env (me auxLex) .p3 np gp .pp
      match surfaceFr auxS.toks with
      | .error err => .error err
      | .ok auxText =>
        match surfaceFr ppS.toks with
        | .error err => .error err
        | .ok ppText =>
          .ok { toks := [{ real := auxText, isV := true, hAsp := auxOcc.hAsp },
                         { real := ppText, isV := true, hAsp := v.hAsp }],
                warns := auxS.warns + ppS.warns }
  | _ => .ok (specSimple env (me auxEff) pe n g t)

/-- the specification of `V(v.lemma).t(t).pe(pe).n(n).g(g)[.aux(a)]` (French) -/
def specFr (rules : Rules) (env : ConjFr.FrEnv) (v : Verb) (auxOpt : Option Str) (pe : Person) (n : Num)
    (g : Gender) (t : Tense) : Except Crash Out :=
  match env.avoir, env.etre with
  | some a, some e =>
    match lookup a.tab rules, lookup e.tab rules, lookup v.tab rules with
    | some tba, some tbe, some tb => specFrTb env a e tba tbe tb v auxOpt pe n g t
    | _, _, _ => .ok (defectFr v.lemma)
  | _, _ => .ok (defectFr v.lemma)

/-- well-formed French data (decidable): the verb; avoir and être are in the lexicon, well formed, not reflexive,
    and être's entry has a `pat` -/
def wfFrB (rules : Rules) (env : ConjFr.FrEnv) (v : Verb) : Bool :=
  wfVerbFr rules v &&
  match env.avoir, env.etre with
  | some a, some e =>
    a.lemma == s "avoir" && e.lemma == s "être" && wfVerbFr rules a && wfVerbFr rules e &&
    a.pat != some ConjFr.reflPat && e.pat != some ConjFr.reflPat && e.pat.isSome
  | _, _ => false

def WFFr (rules : Rules) (env : ConjFr.FrEnv) (v : Verb) : Prop := wfFrB rules env v = true

/-- **C01.fr** the French conjugation is the specified one, for every table, lemma, tense, person, number, gender,
    auxiliary option -/
def conjFr_spec : Prop :=
  ∀ (rules : Rules) (env : ConjFr.FrEnv) (v : Verb) (auxOpt : Option Str) (pe : Person) (n : Num) (g : Gender)
    (t : Tense), WFFr rules env v →
    ConjFr.conjugate rules env v.lemma (some v) auxOpt pe n g t = specFr rules env v auxOpt pe n g t

theorem WFFr_elim {rules : Rules} {env : ConjFr.FrEnv} {v : Verb} (h : WFFr rules env v) :
    wfVerbFr rules v = true ∧
    ∃ a e, env.avoir = some a ∧ env.etre = some e ∧ a.lemma = s "avoir" ∧ e.lemma = s "être" ∧
      wfVerbFr rules a = true ∧ wfVerbFr rules e = true ∧ a.pat ≠ some ConjFr.reflPat ∧
      e.pat ≠ some ConjFr.reflPat ∧ ∃ p, e.pat = some p := by
  unfold WFFr wfFrB at h
  cases ha : env.avoir with
  | none => simp [ha] at h
  | some a =>
    cases he : env.etre with
    | none => simp [ha, he] at h
    | some e =>
      simp only [ha, he, Bool.and_eq_true, beq_iff_eq, bne_iff_ne, ne_eq] at h
      obtain ⟨h0, ⟨⟨⟨⟨⟨⟨h1, h2⟩, h3⟩, h4⟩, h5⟩, h6⟩, h7⟩⟩ := h
      exact ⟨h0, a, e, rfl, rfl, h1, h2, h3, h4, h5, h6, Option.isSome_iff_exists.mp h7⟩

/-- the `else` block of the method on a well-formed table is the specification of the simple tenses -/
theorem conjugateSimple_spec (rules : Rules) (env : ConjFr.FrEnv) (fv : ConjFr.FrVerb) (x : OccFr) (tab : Str)
    (pe : Person) (n : Num) (g : Gender) (t : Tense)
    (htab : fv.st.tab = some tab) (htb : lookup tab rules = some x.tb) (hwf : wfTableFr x.tb = true)
    (hw : fv.st.warns = 0) (hlem : x.lemma = fv.st.lemma) (hstem : fv.st.stem = stemOf x.tb x.lemma)
    (hrefl : x.refl = fv.isReflexive) (hh : x.hAsp = fv.hAsp)
    (hinv : t = .pp → x.invariable = decide (fv.pat = some ConjFr.intrPat ∧ fv.aux = s "av")) :
    ConjFr.conjugateSimple rules env fv pe n g t = .ok (specSimple env x pe n g t) := by
  have R := wfTableFr_elim hwf
  unfold ConjFr.conjugateSimple
  simp only [htab, htb, hw]
  cases hk : kindFr t with
  | finite =>
    have hmem : t ∈ [Tense.p, .i, .f, .ps, .c, .s, .si, .ip] := by cases t <;> simp [kindFr] at hk ⊢
    obtain ⟨a, b, c, d, e, f, hrow⟩ := R.fin t hmem
    have hyes : x.tb.hasRow t.code = true := by simp [Table.hasRow, hrow, R.hasT]
    have hc := cell6 hrow pe n
    simp only [hyes, hrow, at6]
    cases t <;> simp [kindFr] at hk <;>
      (cases hp : pick6 a b c d e f pe n <;> cases hr : fv.isReflexive <;>
        simp [specSimple, kindFr, hc, hp, hr, defectFr, morphoError, ConjFr.selfTok, hstem, hlem, hrefl, hh])
  | imper =>
    have ht : t = .ip := by cases t <;> simp [kindFr] at hk ⊢
    subst ht
    obtain ⟨a, b, c, d, e, f, hrow⟩ := R.fin .ip (by simp)
    have hyes : x.tb.hasRow Tense.ip.code = true := by simp [Table.hasRow, hrow, R.hasT]
    have hc := cell6 hrow pe n
    simp only [hyes, hrow, at6]
    cases hp : pick6 a b c d e f pe n <;> cases hr : fv.isReflexive <;> cases pe <;> cases n <;>
      simp [specSimple, kindFr, hc, hp, hr, defectFr, morphoError, ConjFr.selfTok, hstem, hlem, hrefl, hh]
  | part =>
    have ht : t = .pp := by cases t <;> simp [kindFr] at hk ⊢
    subst ht
    obtain ⟨a, b, c, d, hrow⟩ := R.pp
    have hyes : x.tb.hasRow Tense.pp.code = true := by simp [Table.hasRow, hrow, R.hasT]
    have hc := cell4 hrow n g
    have hinv' := hinv rfl
    simp only [hyes, hrow, at4, idx4_pos, specSimple, kindFr]
    generalize ConjFr.idx4 n g = k at hc ⊢
    rw [hc]
    cases hp : pick4 a b c d n g <;>
      by_cases h0 : k = 0 <;>
      by_cases h1 : fv.pat = some ConjFr.intrPat <;> by_cases h2 : fv.aux = s "av" <;>
      simp [h0, h1, h2, hinv', defectFr, morphoError, ConjFr.selfTok, hstem, hlem, hh]
  | nonfin =>
    have ht : t = .pr ∨ t = .b := by cases t <;> simp [kindFr] at hk ⊢
    have hrowy : (∃ y, x.tb.row? t.code = some (.str y)) ∨ x.tb.row? t.code = some .null := by
      rcases ht with rfl | rfl
      · exact R.pr
      · exact Or.inl R.b
    rcases hrowy with ⟨y, hrow⟩ | hrow
    · have hyes : x.tb.hasRow t.code = true := by simp [Table.hasRow, hrow, R.hasT]
      have hc := cellStr hrow (idx6 pe n)
      simp only [hyes, hrow]
      rcases ht with rfl | rfl <;> cases hr : fv.isReflexive <;>
        simp [specSimple, kindFr, hc, hr, Row.concat, ConjFr.selfTok, hstem, hlem, hrefl, hh]
    · have hyes : x.tb.hasRow t.code = true := by simp [Table.hasRow, hrow, R.hasT]
      have hc : cell x.tb t (idx6 pe n) = none := by simp [cell, hrow]
      simp only [hyes, hrow]
      rcases ht with rfl | rfl <;>
        simp [specSimple, kindFr, hc, defectFr, morphoError, hlem]
  | compound ta =>
    have hno : x.tb.row? t.code = none := R.none t (by cases t <;> simp [kindFr] at hk ⊢)
    simp [Table.hasRow, hno, specSimple, hk, defectFr, morphoError, hlem]
  | noTense =>
    have hno : x.tb.row? t.code = none := R.none t (by cases t <;> simp [kindFr] at hk ⊢)
    simp [Table.hasRow, hno, specSimple, hk, defectFr, morphoError, hlem]

theorem realizeSimple_spec (rules : Rules) (env : ConjFr.FrEnv) (fv : ConjFr.FrVerb) (x : OccFr) (tab : Str)
    (pe : Person) (n : Num) (g : Gender) (t : Tense)
    (htab : fv.st.tab = some tab) (htb : lookup tab rules = some x.tb) (hwf : wfTableFr x.tb = true)
    (hw : fv.st.warns = 0) (hlem : x.lemma = fv.st.lemma) (hstem : fv.st.stem = stemOf x.tb x.lemma)
    (hrefl : x.refl = fv.isReflexive) (hh : x.hAsp = fv.hAsp)
    (hinv : t = .pp → x.invariable = decide (fv.pat = some ConjFr.intrPat ∧ fv.aux = s "av")) :
    ConjFr.realizeSimple rules env fv pe n g t =
      match surfaceFr (specSimple env x pe n g t).toks with
      | .error e => .error e
      | .ok txt => .ok { text := txt, warns := (specSimple env x pe n g t).warns } := by
  unfold ConjFr.realizeSimple
  rw [conjugateSimple_spec rules env fv x tab pe n g t htab htb hwf hw hlem hstem hrefl hh hinv]
  rfl

theorem isReflexive_eq (fv : ConjFr.FrVerb) : fv.isReflexive = decide (fv.pat = some ConjFr.reflPat) := rfl

theorem mkVerb_wf {rules : Rules} {v : Verb} {tb : Table} (auxOpt : Option Str)
    (htb : lookup v.tab rules = some tb) (hend : endsWith v.lemma tb.ending = true) :
    ConjFr.mkVerb rules v.lemma (some v) auxOpt =
      { st := { lemma := v.lemma, tab := some v.tab, stem := stemOf tb v.lemma, warns := 0 }
        pat := v.pat, aux := auxOpt.getD (v.aux.getD (s "av")), hAsp := v.hAsp } := by
  unfold ConjFr.mkVerb
  rw [setLemma_wf htb hend]
  cases auxOpt <;> simp [stemOf]

theorem tempsAux_kind (t : Tense) : ConjFr.tempsAux t = match kindFr t with
    | .compound ta => some ta
    | _ => none := by
  cases t <;> rfl

/-- **C01.fr** holds: the model of `TerminalFr.conjugate` IS the specification — all tables, lemmas, tenses,
    persons, numbers, genders, auxiliary options -/
theorem conjFr_spec_holds : conjFr_spec := by
  intro rules env v auxOpt pe n g t hWF
  obtain ⟨hv, a, e, hea, hee, hal, hel, hwa, hwe, hra, hre, pe', hpe'⟩ := WFFr_elim hWF
  obtain ⟨tb, htb, hwf, hend⟩ := wfVerb_elim hv
  obtain ⟨tba, htba, hwfa, henda⟩ := wfVerb_elim hwa
  obtain ⟨tbe, htbe, hwfe, hende⟩ := wfVerb_elim hwe
  have R := wfTableFr_elim hwf
  unfold ConjFr.conjugate specFr
  simp only [hea, hee, htba, htbe, htb]
  rw [mkVerb_wf auxOpt htb hend]
  simp only [tempsAux_kind]
  unfold specFrTb
  cases hk : kindFr t with
  | compound ta =>
    -- the auxiliary's tense is a person tense or the infinitive
    have hta : kindFr ta = .finite ∨ ta = .b := by cases t <;> simp [kindFr] at hk <;> subst hk <;> simp [kindFr]
    simp only [htb, R.hasT]
    -- the auxiliaries as the model builds them
    have hav := mkVerb_wf (rules := rules) (v := a) none htba henda
    have het := mkVerb_wf (rules := rules) (v := e) none htbe hende
    rw [hal] at hav
    rw [hel] at het
    -- the defectiveness test
    have hdef : ∃ row, tb.row? ta.code = some row ∧
        ConjFr.rowDefective row (idx6 pe n) = .ok (decide (cell tb ta (idx6 pe n) = none)) := by
      rcases hta with hfin | rfl
      · obtain ⟨a1, b1, c1, d1, e1, f1, hrow⟩ := R.fin ta (by cases ta <;> simp [kindFr] at hfin ⊢)
        refine ⟨_, hrow, ?_⟩
        simp only [ConjFr.rowDefective, at6, cell6 hrow]
        cases pick6 a1 b1 c1 d1 e1 f1 pe n <;> simp
      · obtain ⟨y, hrow⟩ := R.b
        exact ⟨_, hrow, by simp [ConjFr.rowDefective, cellStr hrow]⟩
    obtain ⟨row, hrow, hdefeq⟩ := hdef
    simp only [hrow, hdefeq]
    by_cases hcell : cell tb ta (idx6 pe n) = none
    · simp [hcell, morphoError, defectFr]
    · simp only [hcell, decide_false]
      have hppV := mkVerb_wf (rules := rules) (v := v) none htb hend
      rw [hppV]
      have hnotpp : ta ≠ .pp := by
        intro h; subst h; rcases hta with h | h <;> simp [kindFr] at h
      by_cases hrefl : v.pat = some ConjFr.reflPat
      · -- reflexive: être, itself reflexive
        have hr : decide (v.pat = some ConjFr.reflPat) = true := by simp [hrefl]
        simp only [ConjFr.chooseAux, ConjFr.FrVerb.isReflexive, hr, if_true, Bool.true_or]
        rw [realizeSimple_spec rules env (ConjFr.auxAsEtre rules env true)
          { lemma := e.lemma, tb := tbe, refl := true, invariable := false, hAsp := e.hAsp } e.tab pe n g ta
          (by simp [ConjFr.auxAsEtre, hea, hee, hav, het])
          htbe hwfe (by simp [ConjFr.auxAsEtre, hea, hee, hav, het])
          (by simp [ConjFr.auxAsEtre, hea, hee, hav, het, hel])
          (by simp [ConjFr.auxAsEtre, hea, hee, hav, het, hel])
          (by simp [ConjFr.auxAsEtre, ConjFr.FrVerb.isReflexive])
          (by simp [ConjFr.auxAsEtre, hea, hee, hav, het])
          (fun h => absurd h hnotpp)]
        rw [realizeSimple_spec rules env _
          { lemma := v.lemma, tb := tb, refl := true,
            invariable := decide (v.pat = some ConjFr.intrPat ∧ v.aux.getD (s "av") = s "av"), hAsp := v.hAsp }
          v.tab .p3 n g .pp rfl htb hwf rfl rfl rfl (by simp [ConjFr.FrVerb.isReflexive, hrefl]) rfl
          (fun _ => rfl)]
        cases surfaceFr (specSimple env _ pe n g ta).toks <;> simp
        cases surfaceFr (specSimple env _ Person.p3 n g Tense.pp).toks <;>
          simp [ConjFr.selfTok, ConjFr.auxAsEtre, hee, het]
      · by_cases haux : auxOpt.getD (v.aux.getD (s "av")) = s "êt"
        · -- être by the lexicon or the option
          simp only [ConjFr.chooseAux, ConjFr.FrVerb.isReflexive, hrefl, haux, if_true, decide_true, decide_false,
            Bool.or_true, if_false, Bool.false_eq_true]
          rw [realizeSimple_spec rules env (ConjFr.auxAsEtre rules env false)
            { lemma := e.lemma, tb := tbe, refl := false, invariable := false, hAsp := e.hAsp } e.tab pe n g ta
            (by simp [ConjFr.auxAsEtre, hea, hee, hav, het])
            htbe hwfe (by simp [ConjFr.auxAsEtre, hea, hee, hav, het])
            (by simp [ConjFr.auxAsEtre, hea, hee, hav, het, hel])
            (by simp [ConjFr.auxAsEtre, hea, hee, hav, het, hel])
            (by simp [ConjFr.auxAsEtre, ConjFr.FrVerb.isReflexive, hee, hpe'] <;>
                  (intro h; exact hre (by rw [hpe', h])))
            (by simp [ConjFr.auxAsEtre, hea, hee, hav, het])
            (fun h => absurd h hnotpp)]
          rw [realizeSimple_spec rules env _
            { lemma := v.lemma, tb := tb, refl := false,
              invariable := decide (v.pat = some ConjFr.intrPat ∧ v.aux.getD (s "av") = s "av"), hAsp := v.hAsp }
            v.tab .p3 n g .pp rfl htb hwf rfl rfl rfl (by simp [ConjFr.FrVerb.isReflexive, hrefl]) rfl
            (fun _ => rfl)]
          cases surfaceFr (specSimple env _ pe n g ta).toks <;> simp
          cases surfaceFr (specSimple env _ Person.p3 n g Tense.pp).toks <;>
            simp [ConjFr.selfTok, ConjFr.auxAsEtre, hee, het]
        · -- avoir: the participle does not agree
          simp only [ConjFr.chooseAux, ConjFr.FrVerb.isReflexive, hrefl, haux, decide_false, if_false,
            Bool.false_eq_true, Bool.or_self]
          rw [hea, hav]
          rw [realizeSimple_spec rules env _
            { lemma := a.lemma, tb := tba, refl := false, invariable := false, hAsp := a.hAsp } a.tab pe n g ta
            rfl htba hwfa rfl (by simp [hal]) (by simp [hal])
            (by simp [ConjFr.FrVerb.isReflexive, hra])
            rfl (fun h => absurd h hnotpp)]
          rw [realizeSimple_spec rules env _
            { lemma := v.lemma, tb := tb, refl := false,
              invariable := decide (v.pat = some ConjFr.intrPat ∧ v.aux.getD (s "av") = s "av"), hAsp := v.hAsp }
            v.tab .p3 .s .m .pp rfl htb hwf rfl rfl rfl (by simp [ConjFr.FrVerb.isReflexive, hrefl]) rfl
            (fun _ => rfl)]
          cases surfaceFr (specSimple env _ pe n g ta).toks <;> simp
          cases surfaceFr (specSimple env _ Person.p3 Num.s Gender.m Tense.pp).toks <;>
            simp [ConjFr.selfTok]
  | finite | imper | part | nonfin | noTense =>
    all_goals
      simp only []
      rw [conjugateSimple_spec rules env _
        { lemma := v.lemma, tb := tb, refl := decide (v.pat = some ConjFr.reflPat),
          invariable := decide (v.pat = some ConjFr.intrPat ∧ auxOpt.getD (v.aux.getD (s "av")) = s "av"),
          hAsp := v.hAsp }
        v.tab pe n g t rfl htb hwf rfl rfl rfl (by simp [ConjFr.FrVerb.isReflexive]) rfl (fun _ => rfl)]

/-! #### generated data (French) -/

def genEnvFr : ConjFr.FrEnv :=
  { avoir := Gen.ConjFr.avoir, etre := Gen.ConjFr.etre, reflPro := ConjFr.reflProFr, tonicPro := ConjFr.tonicProFr }

def falloirV : Verb := { lemma := s "falloir", tab := s "v80", aux := some (s "av"), pat := some [s "intr", s "impe"] }
def enfuirV : Verb := { lemma := s "enfuir", tab := s "v54", aux := some (s "êt"), pat := some [s "réfl"] }
def tomberV : Verb := { lemma := s "tomber", tab := s "v36", aux := some (s "êt"), pat := some [s "tdir", s "intr"] }

/-- **C01.tables-fr** every table that a French lexicon verb refers to exists and is well formed -/
def tables_wf_fr : Prop := ∀ name ∈ Gen.ConjFr.used, tableOK wfTableFr Gen.ConjFr.tables name = true

set_option maxRecDepth 100000 in
/-- FALSE of the shipped data: `apparoir` refers to table `v157`, which rules-fr.json does not have (a fact about
    the DATA; since /repo 466e9e2 `V("apparoir")` warns and realizes as `[[apparoir]]` instead of raising) -/
theorem tables_wf_fr_refuted : ¬ tables_wf_fr := by
  intro h
  have h1 := h (s "v157") (by decide +kernel)
  revert h1
  decide +kernel

set_option maxRecDepth 100000 in
/-- every table in use that EXISTS is well formed -/
theorem tables_wf_fr_partial :
    ∀ name ∈ Gen.ConjFr.used, (lookup name Gen.ConjFr.tables).isSome = true →
      tableOK wfTableFr Gen.ConjFr.tables name = true := by
  decide +kernel

/-- the six persons of an auxiliary in a tense, on the shipped tables -/
def auxForms (v : Option Verb) (t : Tense) : Option (List (Str × Nat)) :=
  v.map (fun a => [0, 1, 2, 3, 4, 5].map (formOf Gen.ConjFr.tables a t))

def plain (l : List String) : Option (List (Str × Nat)) := some (l.map (fun w => (s w, 0)))

/-- **C01.periphrase-fr** avoir and être in the eight auxiliary tenses on the shipped tables, and the
    well-formedness of the auxiliaries' entries -/
def periphrase_fr : Prop :=
  [Tense.p, .i, .f, .ps, .c, .s, .si].map (auxForms Gen.ConjFr.avoir) =
    [plain ["ai", "as", "a", "avons", "avez", "ont"],
     plain ["avais", "avais", "avait", "avions", "aviez", "avaient"],
     plain ["aurai", "auras", "aura", "aurons", "aurez", "auront"],
     plain ["eus", "eus", "eut", "eûmes", "eûtes", "eurent"],
     plain ["aurais", "aurais", "aurait", "aurions", "auriez", "auraient"],
     plain ["aie", "aies", "ait", "ayons", "ayez", "aient"],
     plain ["eusse", "eusses", "eût", "eussions", "eussiez", "eussent"]] ∧
  [Tense.p, .i, .f, .ps, .c, .s, .si].map (auxForms Gen.ConjFr.etre) =
    [plain ["suis", "es", "est", "sommes", "êtes", "sont"],
     plain ["étais", "étais", "était", "étions", "étiez", "étaient"],
     plain ["serai", "seras", "sera", "serons", "serez", "seront"],
     plain ["fus", "fus", "fut", "fûmes", "fûtes", "furent"],
     plain ["serais", "serais", "serait", "serions", "seriez", "seraient"],
     plain ["sois", "sois", "soit", "soyons", "soyez", "soient"],
     plain ["fusse", "fusses", "fût", "fussions", "fussiez", "fussent"]] ∧
  Gen.ConjFr.avoir.map (fun a => formOf Gen.ConjFr.tables a .b 0) = some (s "avoir", 0) ∧
  Gen.ConjFr.etre.map (fun a => formOf Gen.ConjFr.tables a .b 0) = some (s "être", 0) ∧
  WFFr Gen.ConjFr.tables genEnvFr tomberV

set_option maxRecDepth 100000 in
theorem periphrase_fr_tbl : periphrase_fr := by
  unfold periphrase_fr WFFr
  decide +kernel

/-! #### defective forms, totality (French) -/

theorem surfaceFr_defect (lemma : Str) : surfaceFr (defectFr lemma).toks = .ok (bracket lemma) := by
  simp [defectFr, morphoTok, surfaceFr, removeEmpty, detok, stripLeadingSpace, bracket, s, pure, Except.pure,
    bind, Except.bind]

/-- the person/agreement index that tense `t` reads -/
def cellIdx (t : Tense) (pe : Person) (n : Num) (g : Gender) : Nat :=
  if t = .pp then ConjFr.idx4 n g else idx6 pe n

/-- **C01.defective-fr** in a simple tense, a form that the table does not have (`null`) is realized as the
    bracketed lemma with exactly one warning -/
def defective_fr : Prop :=
  ∀ (rules : Rules) (env : ConjFr.FrEnv) (v : Verb) (auxOpt : Option Str) (tb : Table) (pe : Person) (n : Num)
    (g : Gender) (t : Tense), WFFr rules env v → lookup v.tab rules = some tb →
    (kindFr t = .finite ∨ kindFr t = .imper ∨ kindFr t = .part ∨ kindFr t = .nonfin) →
    cell tb t (cellIdx t pe n g) = none →
    ConjFr.realize rules env v.lemma (some v) auxOpt pe n g t = .ok { text := bracket v.lemma, warns := 1 }

theorem specSimple_defect (env : ConjFr.FrEnv) (x : OccFr) (pe : Person) (n : Num) (g : Gender) (t : Tense)
    (hk : kindFr t = .finite ∨ kindFr t = .imper ∨ kindFr t = .part ∨ kindFr t = .nonfin)
    (hc : cell x.tb t (cellIdx t pe n g) = none) : specSimple env x pe n g t = defectFr x.lemma := by
  unfold specSimple
  cases t <;> simp [kindFr] at hk <;> simp [cellIdx] at hc <;> simp [kindFr, hc]
  all_goals (first | (split <;> rfl) | skip)

theorem defective_fr_holds : defective_fr := by
  intro rules env v auxOpt tb pe n g t hWF htb hk hc
  obtain ⟨_, a, e, hea, hee, _, _, hwa, hwe, _⟩ := WFFr_elim hWF
  obtain ⟨tba, htba, _⟩ := wfVerb_elim hwa
  obtain ⟨tbe, htbe, _⟩ := wfVerb_elim hwe
  unfold ConjFr.realize
  rw [conjFr_spec_holds rules env v auxOpt pe n g t hWF]
  unfold specFr
  simp only [hea, hee, htba, htbe, htb]
  unfold specFrTb
  have hnc : ∀ ta, kindFr t ≠ .compound ta := by
    intro ta h
    rcases hk with h' | h' | h' | h' <;> rw [h] at h' <;> cases h'
  cases hkk : kindFr t with
  | compound ta => exact absurd hkk (hnc ta)
  | finite | imper | part | nonfin | noTense =>
    all_goals
      simp only []
      rw [specSimple_defect env _ pe n g t hk hc, surfaceFr_defect]
      rfl

/-- **C01.total-fr** realization never raises a Python exception (`.other` is the model's fragment marker) -/
def total_fr : Prop :=
  ∀ (rules : Rules) (env : ConjFr.FrEnv) (v : Verb) (auxOpt : Option Str) (pe : Person) (n : Num) (g : Gender)
    (t : Tense) (err : Crash), WFFr rules env v →
    ConjFr.realize rules env v.lemma (some v) auxOpt pe n g t = .error err → err = .other

theorem specFr_error (rules : Rules) (env : ConjFr.FrEnv) (v : Verb) (auxOpt : Option Str) (pe : Person) (n : Num)
    (g : Gender) (t : Tense) (err : Crash) (h : specFr rules env v auxOpt pe n g t = .error err) : err = .other := by
  unfold specFr at h
  split at h
  · split at h
    · unfold specFrTb at h
      simp only [] at h
      split at h
      · split at h
        · cases h
        · split at h
          · next hh => cases h; exact surfaceFr_error _ _ hh
          · split at h
            · next hh => cases h; exact surfaceFr_error _ _ hh
            · cases h
      · cases h
    · cases h
  · cases h

theorem total_fr_holds : total_fr := by
  intro rules env v auxOpt pe n g t err hWF h
  unfold ConjFr.realize at h
  rw [conjFr_spec_holds rules env v auxOpt pe n g t hWF] at h
  split at h
  · next e he => cases h; exact specFr_error _ _ _ _ _ _ _ _ _ he
  · split at h
    · next hh => cases h; exact surfaceFr_error _ _ hh
    · cases h

/-! non-vacuity (tests, not property theorems): the hypotheses hold of shipped verbs, and sample forms -/
example : WFFr Gen.ConjFr.tables genEnvFr enfuirV ∧ WFFr Gen.ConjFr.tables genEnvFr falloirV := by
  refine ⟨by unfold WFFr; decide +kernel, by unfold WFFr; decide +kernel⟩
example : ConjFr.realize Gen.ConjFr.tables genEnvFr (s "falloir") (some falloirV) none .p3 .s .m .pr
    = .ok { text := s "[[falloir]]", warns := 1 } := by decide +kernel
example : ConjFr.realize Gen.ConjFr.tables genEnvFr (s "enfuir") (some enfuirV) none .p3 .s .m .pc
    = .ok { text := s "s'est enfui", warns := 0 } := by decide +kernel
example : ConjFr.realize Gen.ConjFr.tables genEnvFr (s "enfuir") (some enfuirV) none .p2 .p .f .ip
    = .ok { text := s "enfuyez-vous", warns := 0 } := by decide +kernel
example : ConjFr.realize Gen.ConjFr.tables genEnvFr (s "tomber") (some tomberV) none .p3 .p .f .pq
    = .ok { text := s "étaient tombées", warns := 0 } := by decide +kernel
example : ConjFr.realize Gen.ConjFr.tables genEnvFr (s "tomber") (some tomberV) (some (s "av")) .p3 .p .f .pq
    = .ok { text := s "avaient tombé", warns := 0 } := by decide +kernel
example : ConjFr.realize Gen.ConjFr.tables genEnvFr (s "falloir") (some falloirV) none .p1 .s .m .p
    = .ok { text := s "[[falloir]]", warns := 1 } := by decide +kernel

end Pyrealb.C01
