import Pyrealb.Lemmas.ConjWF
import Pyrealb.Gen.ConjEn
import Pyrealb.Gen.ConjFr
/-! # C01 — conjugation follows the tables

Property theorems only.  The models (`Model/ConjEn`, `Model/ConjFr`) mirror `TerminalEn.conjugate`,
`TerminalFr.conjugate`, `Terminal.setLemma`, `morphoError`.  Here the property is stated DECLARATIVELY
(`specEn`, `specFr`: tense ↦ periphrase skeleton + which cell of which row; a cell is rendered `stem ++ ending`, a
missing row or `null` cell is rendered `[[lemma]]` with one warning) and the models are proved equal to it for
ALL tables and lemmas satisfying the decidable well-formedness predicates (`wfVerbEn`, `wfVerbFr`); those
predicates are then proved of every table in use by `decide +kernel` over the tables generated from /repo.

`.error .other` is the model's "outside the modelled surface fragment" marker (never a Python exception). -/
namespace Pyrealb.C01
open Pyrealb Pyrealb.Conj

/-! ## The declarative specification -/

/-- the ending that table `tb` prescribes for tense `t`, person index `i`; `none` = the form does not exist
    (row absent, `null` row, `null` cell) -/
def cell (tb : Table) (t : Tense) (i : Nat) : Option Str :=
  match tb.row? t.code with
  | none => none
  | some .null => none
  | some (.str x) => some x
  | some (.list l) => (l[i]?).join

/-- `lemma = stem ++ ending` -/
def stemOf (tb : Table) (lemma : Str) : Str := dropRight lemma tb.ending.length

/-- a table cell rendered: `stem ++ ending`, or the bracketed lemma and one warning -/
def form (tb : Table) (lemma : Str) (t : Tense) (i : Nat) : Str × Nat :=
  match cell tb t i with
  | some e => (stemOf tb lemma ++ e, 0)
  | none => (bracket lemma, 1)

/-- the same for a verb given by its lexicon entry (used for the auxiliaries) -/
def formOf (rules : Rules) (v : Verb) (t : Tense) (i : Nat) : Str × Nat :=
  match lookup v.tab rules with
  | some tb => form tb v.lemma t i
  | none => (bracket v.lemma, 1)

/-! ### English -/

/-- a word of an English periphrase -/
inductive SlotEn where
  /-- a fixed word -/
  | lit (w : Str)
  /-- an auxiliary verb in a tense, third person singular -/
  | aux (v : Verb) (t : Tense)
  deriving Repr

/-- how the verb itself appears -/
inductive MainEn where
  /-- the base form = the lemma -/
  | base
  /-- a fixed word -/
  | lit (w : Str)
  /-- `stem ++` the cell of row `t` for the person -/
  | cell (t : Tense)
  deriving Repr

/-- THE ENGLISH TENSE TABLE: tense ↦ (words before the verb, the verb); `none` = not an English tense -/
def tenseEn (will have_ : Verb) (lemma : Str) (pe : Person) (n : Num) : Tense → Option (List SlotEn × MainEn)
  | .p => some ([], .cell .p)
  | .ps => some ([], .cell .ps)
  | .pr => some ([], .cell .pr)
  | .pp => some ([], .cell .pp)
  | .b => some ([], .cell .b)
  | .s => some ([], .base)
  | .si => some ([], if lemma = s "be" then .lit (s "were") else .cell .ps)
  | .f => some ([.aux will .p], .base)
  | .c => some ([.aux will .ps], .base)
  | .bTo => some ([.lit (s "to")], .base)
  | .bp => some ([.aux have_ .b], .cell .pp)
  | .bpTo => some ([.lit (s "to"), .aux have_ .b], .cell .pp)
  | .ip => some (if pe = .p1 ∧ n = .p then [.lit (s "let's")] else [], .base)
  | _ => none

def SlotEn.render (rules : Rules) : SlotEn → Str × Nat
  | .lit w => (w, 0)
  | .aux v t => formOf rules v t (idx6 .p3 .s)

def MainEn.render (tb : Table) (lemma : Str) (i : Nat) : MainEn → Str × Nat
  | .base => (lemma, 0)
  | .lit w => (w, 0)
  | .cell t => form tb lemma t i

/-- the specified result for a verb whose table is `tb` -/
def specEnTb (rules : Rules) (will have_ : Verb) (tb : Table) (lemma : Str) (pe : Person) (n : Num) (t : Tense) :
    ConjEn.EnOut :=
  match tenseEn will have_ lemma pe n t with
  | none => { pre := [], self := bracket lemma, warns := 1 }
  | some (pre, main) =>
    let ws := pre.map (SlotEn.render rules)
    let m := main.render tb lemma (idx6 pe n)
    { pre := ws.map (·.1), self := m.1, warns := (ws.map (·.2)).sum + m.2 }

/-- well-formed English data: the verb and the two auxiliaries -/
def WFEn (rules : Rules) (env : ConjEn.EnEnv) (v : Verb) : Prop :=
  wfVerbEn rules v = true ∧
  ∃ w h, env.will = some w ∧ env.have_ = some h ∧ w.lemma = s "will" ∧ h.lemma = s "have" ∧
    wfVerbEn rules w = true ∧ wfVerbEn rules h = true

instance (rules : Rules) (env : ConjEn.EnEnv) (v : Verb) : Decidable (WFEn rules env v) := by
  unfold WFEn
  cases hw : env.will with
  | none => exact isFalse (by rintro ⟨_, w, h, h1, _⟩; simp at h1)
  | some w =>
    cases hh : env.have_ with
    | none => exact isFalse (by rintro ⟨_, w, h, _, h2, _⟩; simp at h2)
    | some h =>
      exact decidable_of_iff (wfVerbEn rules v = true ∧ w.lemma = s "will" ∧ h.lemma = s "have" ∧
          wfVerbEn rules w = true ∧ wfVerbEn rules h = true)
        ⟨fun ⟨a, b, c, d, e⟩ => ⟨a, w, h, rfl, rfl, b, c, d, e⟩,
         fun ⟨a, w', h', e1, e2, b, c, d, e⟩ => by
           cases e1; cases e2; exact ⟨a, b, c, d, e⟩⟩

/-- the specification of `V(v.lemma).t(t).pe(pe).n(n)` (English) -/
def specEn (rules : Rules) (env : ConjEn.EnEnv) (v : Verb) (pe : Person) (n : Num) (t : Tense) : ConjEn.EnOut :=
  match lookup v.tab rules, env.will, env.have_ with
  | some tb, some w, some h => specEnTb rules w h tb v.lemma pe n t
  | _, _, _ => { pre := [], self := bracket v.lemma, warns := 1 }

/-- **C01.en** the English conjugation is the specified one, for every table, lemma, tense, person, number -/
def conjEn_spec : Prop :=
  ∀ (rules : Rules) (env : ConjEn.EnEnv) (v : Verb) (pe : Person) (n : Num) (t : Tense),
    WFEn rules env v → ConjEn.conjugate rules env v.lemma (some v) pe n t = .ok (specEn rules env v pe n t)

/-- side condition under which the code meets the specification: not the perfect infinitives (which ignore the
    participle), and for the past subjunctive a string-valued `ps` row (or the verb `be`) -/
def SideEn (rules : Rules) (v : Verb) (t : Tense) : Prop :=
  t ≠ .bp ∧ t ≠ .bpTo ∧
  (t = .si → v.lemma = s "be" ∨ ∃ tb x, lookup v.tab rules = some tb ∧ tb.row? Tense.ps.code = some (.str x))

/-! #### the model on a well-formed table -/

/-- the simple tenses `p ps pr pp b`: the model renders the cell, whatever the nested realizer -/
theorem conjugateWith_cell (nested : ConjEn.Nested) (rules : Rules) (env : ConjEn.EnEnv) (v : Verb) (tb : Table)
    (pe : Person) (n : Num) (t : Tense) (htb : lookup v.tab rules = some tb) (hwf : wfTableEn tb = true)
    (hend : endsWith v.lemma tb.ending = true) (ht : t = .p ∨ t = .ps ∨ t = .pr ∨ t = .pp ∨ t = .b) :
    ConjEn.conjugateWith nested rules env (setLemma rules v.lemma (some v)) pe n t =
      .ok { pre := [], self := (form tb v.lemma t (idx6 pe n)).1, warns := (form tb v.lemma t (idx6 pe n)).2 } := by
  have R := wfTableEn_elim hwf
  rw [setLemma_wf htb hend]
  unfold ConjEn.conjugateWith
  simp only [htb]
  cases hrow : tb.row? t.code with
  | none =>
    have hno : tb.hasRow t.code = false := by simp [Table.hasRow, hrow]
    rcases ht with rfl | rfl | rfl | rfl | rfl <;>
      simp [hno, form, cell, hrow, ConjEn.morpho]
  | some r =>
    have hyes : tb.hasRow t.code = true := by simp [Table.hasRow, hrow, R.hasT]
    rcases R.row t r hrow with ⟨_, x, rfl⟩ | ⟨_, ⟨x, rfl⟩ | ⟨a, b, c, d, e, f, rfl⟩⟩
    · rcases ht with rfl | rfl | rfl | rfl | rfl <;>
        simp [hyes, hrow, form, cell, stemOf, Row.concat]
    · rcases ht with rfl | rfl | rfl | rfl | rfl <;>
        simp [hyes, hrow, form, cell, stemOf, Row.concat]
    · rcases ht with rfl | rfl | rfl | rfl | rfl <;>
        cases pe <;> cases n <;> (try cases a) <;> (try cases b) <;> (try cases c) <;> (try cases d) <;>
          (try cases e) <;> (try cases f) <;>
          simp_all [form, cell, stemOf, Row.at, idx6, Person.toNat, ConjEn.morpho]

theorem noRowEn {tb : Table} (R : EnRows tb) {t : Tense}
    (ht : t ≠ .p ∧ t ≠ .ps ∧ t ≠ .pr ∧ t ≠ .pp ∧ t ≠ .b) : tb.hasRow t.code = false := by
  cases hrow : tb.row? t.code with
  | none => simp [Table.hasRow, hrow]
  | some r =>
    rcases R.row t r hrow with ⟨h, _⟩ | ⟨h, _⟩
    · rcases h with rfl | rfl | rfl <;> simp at ht
    · rcases h with rfl | rfl <;> simp at ht

/-- the nested `V(aux).t(ta).realize()` of `insertReal` gives the auxiliary's cell for the third person singular -/
theorem nestedReal_cell (rules : Rules) (env : ConjEn.EnEnv) (w : Verb) (ta : Tense)
    (hw : wfVerbEn rules w = true) (ht : ta = .p ∨ ta = .ps ∨ ta = .b) :
    ConjEn.nestedReal rules env (some w) w.lemma ta = .ok (formOf rules w ta (idx6 .p3 .s)) := by
  obtain ⟨tb, htb, hwf, hend⟩ := wfVerb_elim hw
  unfold ConjEn.nestedReal
  rw [conjugateWith_cell ConjEn.noNested rules env w tb .p3 .s ta htb hwf hend (by
    rcases ht with rfl | rfl | rfl <;> simp)]
  simp [formOf, htb]

/-- **C01.en (what holds)** outside the perfect infinitives and the past subjunctive of a verb without a
    string-valued `ps` row, the model of `TerminalEn.conjugate` IS the specification — all tables, all lemmas -/
theorem conjEn_spec_partial (rules : Rules) (env : ConjEn.EnEnv) (v : Verb) (pe : Person) (n : Num) (t : Tense)
    (hWF : WFEn rules env v) (hside : SideEn rules v t) :
    ConjEn.conjugate rules env v.lemma (some v) pe n t = .ok (specEn rules env v pe n t) := by
  obtain ⟨hv, w, h, hew, heh, hwl, hhl, hw, hh⟩ := hWF
  obtain ⟨tb, htb, hwf, hend⟩ := wfVerb_elim hv
  have R := wfTableEn_elim hwf
  obtain ⟨hbp, hbpto, hsi⟩ := hside
  unfold ConjEn.conjugate
  by_cases hcell : t = .p ∨ t = .ps ∨ t = .pr ∨ t = .pp ∨ t = .b
  · rw [conjugateWith_cell _ rules env v tb pe n t htb hwf hend hcell]
    rcases hcell with rfl | rfl | rfl | rfl | rfl <;>
      simp [specEn, htb, hew, heh, specEnTb, tenseEn, MainEn.render]
  · have hno : tb.hasRow t.code = false := noRowEn R (by
      refine ⟨?_, ?_, ?_, ?_, ?_⟩ <;> (intro h; subst h; simp at hcell))
    have hn1 := nestedReal_cell rules env w .p hw (by simp)
    have hn2 := nestedReal_cell rules env w .ps hw (by simp)
    rw [hwl] at hn1 hn2
    rw [setLemma_wf htb hend]
    unfold ConjEn.conjugateWith
    simp only [htb, hno]
    cases t <;> simp at hcell hbp hbpto <;>
      simp [specEn, htb, hew, heh, specEnTb, tenseEn, MainEn.render, SlotEn.render, ConjEn.morpho, hn1, hn2]
    -- what is left: `si` and `ip`
    · by_cases hbe : v.lemma = s "be"
      · simp [hbe]
      · rcases hsi rfl with hbe' | ⟨tb', x, htb', hps⟩
        · exact absurd hbe' hbe
        · rw [htb] at htb'
          cases htb'
          have hps' : tb.row? (s "ps") = some (.str x) := hps
          simp [hbe, R.hasT, hps, hps', Row.concat, form, cell, stemOf]
    · by_cases hlet : pe = .p1 ∧ n = .p <;> simp [hlet, SlotEn.render]

end Pyrealb.C01
