import Pyrealb.Props.C15
open Pyrealb.C15
#print axioms cur_independent_holds
#print axioms current_site_leaks_holds
#print axioms self_site_uses_own_holds
#print axioms sites_ok_tbl_holds
#print axioms g0_sites_tbl_holds
