import Pyrealb.Props.C07
import Pyrealb.Props.C07Compose
open Pyrealb.C07
#print axioms exception_iff_warning_holds
#print axioms only_pyrealb_exception_holds
#print axioms option_decision_holds
#print axioms Pyrealb.C07.components_total_holds
