import Pyrealb.Props.C16
open Pyrealb.C16
#print axioms spell_eval_fr_holds
#print axioms spell_eval_en_holds
#print axioms spell_total_holds
#print axioms spell_injective_holds
#print axioms ordinal_rule_en_holds
#print axioms ordinal_rule_fr_holds
#print axioms roman_canon_holds
#print axioms format_dec_parse_holds
#print axioms format_int_parse_holds
#print axioms gram_number_en_holds
#print axioms gram_number_fr_holds
#print axioms ordinal_singular_holds
