import Pyrealb.Props.C03
open Pyrealb.C03
#print axioms np_link_holds
#print axioms np_head_first
#print axioms s_link_holds
#print axioms np_link_linked
#print axioms s_link_linked
#print axioms dep_link_holds
#print axioms getProp_local_wins_holds
#print axioms controller_update_propagates_holds
#print axioms dependents_read_controller_refuted
#print axioms dependents_read_controller_reachable_refuted
#print axioms dependents_read_controller_partial
#print axioms setProp_resynchronises
#print axioms numeral_number_holds
