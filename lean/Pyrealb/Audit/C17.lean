import Pyrealb.Props.C17
open Pyrealb.C17
#print axioms toordinal_counts_days_holds
#print axioms weekday_correct_holds
#print axioms next_is_valid_holds
#print axioms fields_exact_refuted
#print axioms fields_exact_tbl
#print axioms fields_exact_partial
#print axioms clock12_tbl
#print axioms clock12_holds
#print axioms numeric_order_tbl
#print axioms conventional_order_holds
#print axioms noon_midnight_iff_holds
#print axioms nat_omits_only_zero_holds
#print axioms relative_week_tbl
#print axioms relative_far_tbl
#print axioms relative_sign_holds
#print axioms dateFormat_total_refuted
#print axioms dateFormat_total_partial
#print axioms history_independent_holds
#print axioms source_as_modelled_holds
