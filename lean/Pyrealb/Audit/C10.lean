import Pyrealb.Props.C10
open Pyrealb.C10
#print axioms detok_no_double_space_holds
#print axioms detok_no_leading_space_holds
#print axioms no_space_before_comma_or_stop_refuted
#print axioms no_space_before_comma_or_stop_partial
#print axioms final_stop_iff_holds
#print axioms starts_upper_refuted
#print axioms starts_upper_partial
#print axioms ends_mark_space_refuted
#print axioms ends_mark_space_partial
#print axioms wrap_verbatim_order_holds
#print axioms closing_sign_tbl_holds
#print axioms matching_closer_holds
#print axioms cap_only_first_letter_holds
#print axioms tags_balanced_nested_holds
#print axioms tags_grammar_holds
#print axioms tag_encloses_own_tokens_holds
#print axioms strip_tags_eq_untagged_refuted
#print axioms strip_tags_eq_untagged_partial
