import Pyrealb.Props.C19
open Pyrealb.C19
#print axioms unshared_invariant_holds
#print axioms add_refines_holds
#print axioms update_refines_holds
#print axioms remove_refines_holds
#print axioms get_after_add_holds
#print axioms other_entries_untouched_holds
#print axioms other_lexicon_untouched_holds
#print axioms bad_lang_and_load_frame_holds
#print axioms lang_default_is_current_holds
#print axioms rules_never_change_holds
#print axioms history_refines_holds
#print axioms new_terminal_uses_new_entry_partial
#print axioms new_terminal_uses_new_entry_refuted
#print axioms removed_is_unknown_partial
#print axioms removed_is_unknown_refuted
#print axioms terminal_lookup_ignores_current_holds
