import Pyrealb.Props.C13
open Pyrealb.C13
#print axioms clone_iso_holds
#print axioms clone_disjoint_holds
#print axioms clone_same_abs_holds
#print axioms clone_region
#print axioms op_frame_holds
#print axioms caller_unchanged_holds
#print axioms no_capture_holds
#print axioms interleaving_independent_partial
#print axioms interleaving_independent_holds
#print axioms runLOp_agree
#print axioms other_side_unchanged
#print axioms clone_sep
