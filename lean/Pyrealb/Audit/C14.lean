import Pyrealb.Props.C14
open Pyrealb.C14
#print axioms resources_unchanged_holds
#print axioms lang_is_last_load_holds
#print axioms probe_history_free_holds
#print axioms probe_ignores_counters_holds
#print axioms management_named_lexicon_holds
#print axioms writes_allowed_tbl_holds
#print axioms model_writes_agree_tbl_holds
#print axioms lang_switch_tbl_holds
