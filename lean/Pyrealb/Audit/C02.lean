import Pyrealb.Props.C02
open Pyrealb.C02
#print axioms bestMatch_spec_holds
#print axioms bestMatch_none_iff_holds
#print axioms first_max_unique_holds
#print axioms compatible_row_selected_holds
#print axioms exact_row_first_holds
#print axioms decline_stem_row_holds
#print axioms adj_periphrase_en_holds
#print axioms comparative_stem_en_holds
#print axioms adj_periphrase_fr_holds
#print axioms veto_uncountable_holds
#print axioms veto_gender_holds
#print axioms doc_cells_tbl_holds
#print axioms periphrase_tbl_holds
#print axioms wf_rules_tbl_holds
#print axioms ctor_total_holds
#print axioms usable_sound_holds
#print axioms decl_total_holds
