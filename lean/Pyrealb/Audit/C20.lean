import Pyrealb.Props.C20
open Pyrealb.C20
#print axioms no_repeat_holds
#print axioms block_perm_holds
#print axioms keys_independent_holds
#print axioms choice_mem_holds
#print axioms mix_perm_holds
#print axioms callable_once_holds
