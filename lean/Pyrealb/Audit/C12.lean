import Pyrealb.Props.C12
open Pyrealb.C12
#print axioms json_roundtrip_partial
#print axioms json_roundtrip_refuted
#print axioms json_idempotent_partial
#print axioms json_idempotent_refuted
#print axioms decode_lang_independent_holds
#print axioms json_text_roundtrip_partial
#print axioms json_text_roundtrip_refuted
#print axioms source_roundtrip_partial
#print axioms source_roundtrip_refuted
#print axioms source_stable_partial
#print axioms source_stable_refuted
#print axioms json_source_stable_refuted
#print axioms json_source_stable_partial
