import Pyrealb.Props.C08En
open Pyrealb.C08En
#print axioms notations_agree_en_refuted
#print axioms notations_agree_en_partial
