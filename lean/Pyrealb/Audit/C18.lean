import Pyrealb.Props.C18
#print axioms Pyrealb.C18.expandConj_sound_en_holds
#print axioms Pyrealb.C18.expandConj_sound_fr_holds
#print axioms Pyrealb.C18.expandConj_sound_refl_holds
#print axioms Pyrealb.C18.expandConj_refl_text_holds
#print axioms Pyrealb.C18.conj_wf_tbl_holds
#print axioms Pyrealb.C18.expandConj_complete_cells_holds
#print axioms Pyrealb.C18.expandConj_complete_holds
#print axioms Pyrealb.C18.intr_veto_holds
#print axioms Pyrealb.C18.expandDecl_sound_holds
#print axioms Pyrealb.C18.distinct_rows_tbl_holds
#print axioms Pyrealb.C18.distinct_rows_all_holds
#print axioms Pyrealb.C18.expandDecl_complete_holds
#print axioms Pyrealb.C18.closed_class_tbl_holds
