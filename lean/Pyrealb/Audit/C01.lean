import Pyrealb.Props.C01
open Pyrealb.C01
#print axioms conjEn_spec_holds
#print axioms defective_en_holds
#print axioms total_en_holds
#print axioms tables_wf_en_holds
#print axioms periphrase_en_tbl
#print axioms conjFr_spec_holds
#print axioms defective_fr_holds
#print axioms total_fr_holds
#print axioms tables_wf_fr_partial
#print axioms tables_wf_fr_refuted
#print axioms periphrase_fr_tbl
