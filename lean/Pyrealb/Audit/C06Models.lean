import Pyrealb.Props.C06Models
open Pyrealb.C06
#print axioms tree_settled_format_model
#print axioms tree_settled_models
#print axioms Pyrealb.Elision.formatOK_c10
#print axioms Pyrealb.Elision.placeOKAt_c05
#print axioms Pyrealb.Elision.placedAt_inv
