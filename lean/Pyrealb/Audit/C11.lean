import Pyrealb.Props.C11
open Pyrealb.C11
#print axioms getElems_flatten_holds
#print axioms insert_orders_same_list_holds
#print axioms link_confluent_refuted
#print axioms link_confluent_levels_refuted
#print axioms link_confluent_partial
#print axioms link_confluent_levels_partial
#print axioms link_confluent_headed
#print axioms typ_merge_order_free_holds
#print axioms typ_split_equiv_holds
#print axioms typ_later_wins_holds
#print axioms typ_zero_stored_false
#print axioms typ_false_eq_absent_holds
#print axioms typ_false_eq_absent_sites
#print axioms typ_invalid_ignored_holds
