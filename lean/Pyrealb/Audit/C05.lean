import Pyrealb.Props.C05
open Pyrealb.C05
#print axioms ne_position_holds
#print axioms neg2_position_finite_holds
#print axioms clitic_order_holds
#print axioms clitic_order_partial
#print axioms clitic_order_now_iff
#print axioms clitic_order_if_key_on_string
#print axioms neg_infinitive_refuted
#print axioms neg_infinitive_partial
#print axioms imperative_pos_clitics_after_holds
#print axioms inversion_t_if_holds
#print axioms inversion_t_only_if_holds
#print axioms inversion_dt_plain
#print axioms estceque_cases_phrase_holds
#print axioms estceque_cases_dep_holds
#print axioms estceque_lists_agree_tbl
#print axioms nesting_order_holds
#print axioms one_finite_verb_holds
#print axioms mod_values_resolve_tbl
#print axioms aux_verbs_known_tbl
#print axioms tempsAux_matches_rules_tbl
#print axioms compound_tenses_tbl
#print axioms ne_position_clause_holds
#print axioms neg2_position_clause_holds
#print axioms clitic_order_clause_holds
#print axioms Pyrealb.C05.one_finite_verb_clause_holds
#print axioms Pyrealb.C05.placement_keeps_verbs
