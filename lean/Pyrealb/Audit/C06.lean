import Pyrealb.Props.C06
open Pyrealb.C06
#print axioms stub_holds
