import Pyrealb.Props.C06
open Pyrealb.C06
#print axioms tables_match_property_holds
#print axioms elision_total_holds
#print axioms elision_pass_settles_refuted
#print axioms elision_pass_settles_partial
#print axioms text_settled_refuted
#print axioms text_settled_partial
#print axioms elision_idempotent_refuted
#print axioms settled_fixpoint
#print axioms elision_idempotent_partial
#print axioms an_iff_rule_refuted
#print axioms an_iff_rule_partial
#print axioms tree_settled_refuted
#print axioms tree_settled_partial
