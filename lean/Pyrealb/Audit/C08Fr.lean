import Pyrealb.Props.C08Fr
open Pyrealb.C08Fr
#print axioms notations_agree_fr_refuted
#print axioms disagree_passive_agent_order
#print axioms disagree_wos_plural
#print axioms agree_woi_prep
#print axioms disagree_whe_second_pp
#print axioms disagree_modal_cod
#print axioms disagree_other_prep_pronoun
#print axioms disagree_refl_modal_person
#print axioms clitic_agree_holds
#print axioms notations_agree_fr_partial
#print axioms notations_agree_fr_neg
