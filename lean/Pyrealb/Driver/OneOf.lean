import Pyrealb.Driver.Proto
import Pyrealb.Model.OneOf
namespace Pyrealb.Driver.OneOfOps
open Lean Pyrealb.Driver Pyrealb.OneOf

def altsOf (x : String) : List Alt := x.toList.map (fun c => if c = 'f' then Alt.fn else Alt.val)

def resJson : Res → Json
  | .err => Json.str "err"
  | .ret i called => Json.arr #[optNatJson i, natsJson called]

def oneofOp : Handler := fun j => do
  let calls ← getArr j "calls"
  let cs ← calls.toList.mapM (fun c => do
    let key ← getStr c "key"
    let alts ← getStr c "alts"
    let perm ← getNatList c "perm"
    pure ({ key := key, alts := altsOf alts, perm := perm } : Call String))
  let res := runAll [] cs
  pure (Json.mkObj [("res", Json.arr (res.map resJson).toArray)])

def choiceOp : Handler := fun j => do
  let alts ← getStr j "alts"
  let r ← getNat j "r"
  pure (Json.mkObj [("res", resJson (choice (altsOf alts) r))])

def mixOp : Handler := fun j => do
  let alts ← getStr j "alts"
  let perm ← getNatList j "perm"
  let (order, called) := mix (altsOf alts) perm
  pure (Json.mkObj [("order", natsJson order), ("called", natsJson called)])

def ops : List (String × Handler) := [("oneof", oneofOp), ("choice", choiceOp), ("mix", mixOp)]

end Pyrealb.Driver.OneOfOps
