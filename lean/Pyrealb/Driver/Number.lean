import Pyrealb.Driver.Proto
import Pyrealb.Model.Number
namespace Pyrealb.Driver.NumberOps
open Lean Pyrealb Pyrealb.Driver Pyrealb.Number

def getLang (j : Json) : Except String Lang := do
  let l ← getStr j "lang"
  if l = "en" then pure .en else if l = "fr" then pure .fr else throw s!"bad lang {l}"

/-- integers travel as decimal strings (no 2^53 limit of JSON readers) -/
def getBigInt (j : Json) (k : String) : Except String Int := do
  let x ← getStr j k
  match x.toInt? with
  | some n => pure n
  | none => throw s!"bad integer {x}"

def resJson : Except Crash Str → Json
  | .ok r => Json.mkObj [("r", strJson r)]
  | .error e => Json.mkObj [("err", Json.str e.name)]

def getGender (j : Json) : Gender :=
  match getStrOpt j "g" with
  | some "f" => .f | some "n" => .n | some "x" => .x | _ => .m

def spellOp : Handler := fun j => do
  pure (resJson (enToutesLettres (← getLang j) (← getBigInt j "n")))
def ordinalOp : Handler := fun j => do
  pure (resJson (ordinal (← getLang j) (← getBigInt j "n") (getGender j)))
def romanOp : Handler := fun j => do
  pure (resJson (roman (← getBigInt j "n")))

def ops : List (String × Handler) := [("spell", spellOp), ("ordinal", ordinalOp), ("roman", romanOp)]

end Pyrealb.Driver.NumberOps
