import Pyrealb.Driver.Proto
import Pyrealb.Model.NumberNO
/-! Line protocol of the `number` family (ops `spell`, `ordinal`, `roman`, `no`).  Integers travel as decimal
strings (no 2^53 limit of JSON readers). -/
namespace Pyrealb.Driver.NumberOps
open Lean Pyrealb Pyrealb.Driver Pyrealb.Number

def getLang (j : Json) : Except String Lang := do
  let l ← getStr j "lang"
  if l = "en" then pure .en else if l = "fr" then pure .fr else throw s!"bad lang {l}"

def parseInt (x : String) : Except String Int :=
  match x.toInt? with
  | some n => pure n
  | none => throw s!"bad integer {x}"

def getBigInt (j : Json) (k : String) : Except String Int := do parseInt (← getStr j k)

def resJson : Except Crash Str → Json
  | .ok r => Json.mkObj [("r", strJson r)]
  | .error e => Json.mkObj [("err", Json.str e.name)]

def getGender (j : Json) : Gender :=
  match getStrOpt j "g" with
  | some "f" => .f | some "n" => .n | some "x" => .x | _ => .m

def spellOp : Handler := fun j => do
  pure (resJson (enToutesLettres (← getLang j) (← getBigInt j "n")))
def ordinalOp : Handler := fun j => do
  pure (resJson (ordinal (← getLang j) (← getBigInt j "n") (getGender j)))
def romanOp : Handler := fun j => do
  pure (resJson (roman (← getBigInt j "n")))

/-- `{"t":"int","v":"12"}` | `{"t":"flt","neg":false,"m":"15","k":1,"repr":"1.5"}` | `{"t":"special","repr":"inf"}` -/
def getVal (j : Json) : Except String Val := do
  let t ← getStr j "t"
  if t = "int" then pure (.int (← getBigInt j "v"))
  else if t = "flt" then do
    let m ← getBigInt j "m"
    pure (.flt (← getBool j "neg") m.toNat (← getNat j "k") (← getStr j "repr").toList)
  else if t = "special" then pure (.special (← getStr j "repr").toList)
  else throw s!"bad value kind {t}"

def getLemma (j : Json) : Except String LemmaIn := do
  let t ← getStr j "t"
  if t = "other" then pure .other
  else if t = "str" then do
    let x ← getStr j "s"
    let lex ← match getOpt j "lex" with
      | none => pure none
      | some l => do pure (some ({ value := (← getVal (← l.getObjVal? "value")), isA := (← getBool l "A") } : LexNum))
    let flo ← match getOpt j "flo" with
      | none => pure none
      | some f => do pure (some (← getVal f))
    pure (.str x.toList lex flo)
  else do
    let v ← getVal j
    match v with
    | .int i => pure (.int i)
    | v => pure (.flt v)

def getOptVal (j : Json) : OptVal :=
  match j with
  | .bool b => .bool b
  | .num n => if n.exponent = 0 then .int n.mantissa else .other
  | _ => .other

/-- `"calls":[["dOpt",[["nat",true],["mprecision",3]]],["nat",true]]` -/
def applyCalls (no : NO) (w : Nat) : List Json → Except String (Except Crash (NO × Nat))
  | [] => pure (.ok (no, w))
  | c :: cs => do
    let a ← c.getArr?
    match a.toList with
    | [Json.str "dOpt", Json.arr kvs] => do
      let pairs ← kvs.toList.mapM (fun kv => do
        let p ← kv.getArr?
        match p.toList with
        | [Json.str k, v] => pure (k.toList, getOptVal v)
        | _ => throw "bad dOpt pair")
      match setDOpt no.dOpt pairs with
      | .error e => pure (.error e)
      | .ok (d, w') => applyCalls { no with dOpt := d } (w + w') cs
    | [Json.str "dOptBad"] => applyCalls no (w + 1) cs          -- `.dOpt(<not a dict>)`
    | [Json.str "nat", v] =>
      match getOptVal v with
      | .bool b => applyCalls { no with dOpt := { no.dOpt with nat := some b } } w cs
      | _ => applyCalls no (w + 1) cs
    | _ => throw "bad call"

def gnumJson : GNum → Json
  | .s => Json.str "s"
  | .p => Json.str "p"

def noOp : Handler := fun j => do
  let ℓ ← getLang j
  let lem ← getLemma (← j.getObjVal? "lemma")
  match mkNO ℓ lem with
  | .error e => pure (Json.mkObj [("err", Json.str e.name)])
  | .ok (no, w) =>
    let calls ← getArr j "calls"
    match (← applyCalls { no with g := getGender j } w calls.toList) with
    | .error e => pure (Json.mkObj [("err", Json.str e.name)])
    | .ok (no, w) =>
    match realNO no with
    | .error e => pure (Json.mkObj [("err", Json.str e.name)])
    | .ok (r, w', n) =>
      -- `gn`: what `grammaticalNumber()` answers before realization (the number an NP gives its noun)
      let gn := match gramNumber no with
        | .ok g => gnumJson g
        | .error e => Json.str e.name
      pure (Json.mkObj [("r", strJson r), ("w", toJson (w + w')), ("n", gnumJson n), ("gn", gn)])

def ops : List (String × Handler) :=
  [("spell", spellOp), ("ordinal", ordinalOp), ("roman", romanOp), ("no", noOp)]

end Pyrealb.Driver.NumberOps
