import Pyrealb.Driver.Proto
/-! The line-protocol loop shared by every model driver executable: one JSON object per input line, one JSON
    object per output line; `{"op": <name>, ...}` is dispatched to the handler of the executable model. -/
namespace Pyrealb.Driver
open Lean

def handle (ops : List (String × Handler)) (line : String) : String :=
  match Json.parse line with
  | .error e => (Json.mkObj [("driver_error", Json.str s!"parse: {e}")]).compress
  | .ok j =>
    match getStr j "op" with
    | .error e => (Json.mkObj [("driver_error", Json.str e)]).compress
    | .ok op =>
      match ops.lookup op with
      | none => (Json.mkObj [("driver_error", Json.str s!"unknown op {op}")]).compress
      | some h =>
        match h j with
        | .ok r => r.compress
        | .error e => (Json.mkObj [("driver_error", Json.str e)]).compress

partial def loop (ops : List (String × Handler)) (hin hout : IO.FS.Stream) : IO Unit := do
  let line ← hin.getLine
  if line.isEmpty then return ()
  let t := line.trimAscii.toString
  if t.isEmpty then loop ops hin hout else
  hout.putStrLn (handle ops t)
  loop ops hin hout

def runLoop (ops : List (String × Handler)) : IO Unit := do
  let hin ← IO.getStdin
  let hout ← IO.getStdout
  loop ops hin hout
  hout.flush

end Pyrealb.Driver
