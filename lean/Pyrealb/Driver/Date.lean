import Pyrealb.Driver.Proto
import Pyrealb.Model.DateTables
/-! Line-protocol handlers of the `date` family (model driver `drv_date`).

* `{"op":"date","lang":"en","dt":[y,m,d,H,M,S],"f":<bitmask year=1,month=2,date=4,day=8,hour=16,minute=32,second=64>,
   "nat":b,"det":b,"rt":[y,m,d,H,M,S]|null}` → `{"r":text}` | `{"err":"KeyError"}`    (the sweep)
* `{"op":"api","lang":..,"lemma":V|null,"calls":[["dOpt",[[key,V],…]|null],["nat",V],…]}` with
  `V = true|false|{"s":str}|{"dt":[…]}|{"x":…}` → `{"r":..,"w":n}` | `{"err":..,"w":n}` | `{"today":true,"w":n}`
* `{"op":"cal","y":..,"m":..,"d":..}` → `{"ord":n,"wd":n,"valid":b,"next":[y,m,d]}`
* `{"op":"scan","fmt":str}` → `{"m":[[pre,key|null],…]}`
* `{"op":"parse","s":str}` → `{"dt":[…]|null}`
* `{"op":"cells","lang":..}` → the format cells with their placeholders (executable twin of the `_tbl` theorems) -/
namespace Pyrealb.Driver.DateOps
open Lean Pyrealb Pyrealb.Driver Pyrealb.Date

def langOf (j : Json) : Except String Lang := do
  let l ← getStr j "lang"
  if l = "en" then pure .en else if l = "fr" then pure .fr else throw s!"bad lang {l}"

def dtOfList : List Nat → Except String DateTime
  | [y, m, d, h, mi, sec] => pure { year := y, month := m, day := d, hour := h, minute := mi, second := sec }
  | [y, m, d] => pure { year := y, month := m, day := d, hour := 0, minute := 0, second := 0 }
  | _ => throw "bad dt"

def dtJson (d : DateTime) : Json := natsJson [d.year, d.month, d.day, d.hour, d.minute, d.second]

def bit (f i : Nat) : Bool := (f / 2 ^ i) % 2 = 1

def outJson (o : Out) (w : Option Nat) : Json :=
  let base : List (String × Json) := match o with
    | .text x => [("r", strJson x)]
    | .crash c => [("err", Json.str c.name)]
    | .today => [("today", Json.bool true)]
  Json.mkObj (base ++ (match w with | some n => [("w", toJson n)] | none => []))

def dateOp : Handler := fun j => do
  let lang ← langOf j
  let dt ← dtOfList (← getNatList j "dt")
  let f ← getNat j "f"
  let nat ← getBool j "nat"
  let det ← getBool j "det"
  let rt ← match getOpt j "rt" with
    | none => pure RTime.off
    | some _ => do pure (RTime.at (← dtOfList (← getNatList j "rt")))
  let o : DOpts := { year := bit f 0, month := bit f 1, date := bit f 2, day := bit f 3, hour := bit f 4,
                     minute := bit f 5, second := bit f 6, nat := nat, det := det, rtime := rt }
  let t : DT := ⟨.at dt, o, 0⟩
  pure (outJson (t.realize (rulesOf lang)) none)

def valOf (j : Json) : Except String Val :=
  match j with
  | .bool b => pure (.bool b)
  | _ =>
    match getStrOpt j "s" with
    | some x => pure (.str x.toList)
    | none =>
      match getOpt j "dt" with
      | some _ => do pure (.dt (← dtOfList (← getNatList j "dt")))
      | none => pure .other

def callOf (j : Json) : Except String Call := do
  let a ← j.getArr?
  match a.toList with
  | [Json.str "nat", v] => do pure (.nat (← valOf v))
  | [Json.str "dOpt", Json.null] => pure (.dOpt none)
  | [Json.str "dOpt", items] => do
    let its ← items.getArr?
    let l ← its.toList.mapM (fun it => do
      let kv ← it.getArr?
      match kv.toList with
      | [Json.str k, v] => do pure (k.toList, ← valOf v)
      | _ => throw "bad item")
    pure (.dOpt (some l))
  | _ => throw "bad call"

def apiOp : Handler := fun j => do
  let lang ← langOf j
  let lemma ← match getOpt j "lemma" with
    | none => pure none
    | some v => do pure (some (← valOf v))
  let calls ← (← getArr j "calls").toList.mapM callOf
  let (o, w) := run (rulesOf lang) lemma calls
  pure (outJson o (some w))

def stepOf (j : Json) : Except String Step := do
  let a ← j.getArr?
  match a.toList with
  | [Json.str "realize"] => pure .realize
  | _ => do pure (.call (← callOf j))

/-- `{"op":"hist","lang":..,"lemma":V,"steps":[["dOpt",[..]],["nat",V],["realize"],…]}` → `{"outs":[…],"w":n}` -/
def histOp : Handler := fun j => do
  let lang ← langOf j
  let lemma ← match getOpt j "lemma" with
    | none => pure none
    | some v => do pure (some (← valOf v))
  let steps ← (← getArr j "steps").toList.mapM stepOf
  let (outs, t) := runHist (rulesOf lang) (DT.make lemma) steps
  pure (Json.mkObj [("outs", Json.arr (outs.map (fun o => outJson o none)).toArray), ("w", toJson t.warnings)])

def calOp : Handler := fun j => do
  let d : Date := ⟨← getNat j "y", ← getNat j "m", ← getNat j "d"⟩
  let n := d.next
  pure (Json.mkObj [("ord", toJson (toordinal d)), ("wd", toJson (weekday d)), ("valid", Json.bool d.valid),
                    ("next", natsJson [n.year, n.month, n.day])])

def matchJson (m : Match) : Json :=
  Json.arr #[strJson m.pre, match m.key with | some k => strJson k | none => Json.null]

def scanOp : Handler := fun j => do
  let fmt ← getStr j "fmt"
  pure (Json.mkObj [("m", Json.arr ((matchesOf fmt.toList).map matchJson).toArray)])

def parseOp : Handler := fun j => do
  let x ← getStr j "s"
  pure (Json.mkObj [("dt", match parseDateString x.toList with | some d => dtJson d | none => Json.null)])

def cellsOp : Handler := fun j => do
  let lang ← langOf j
  let r := rulesOf lang
  let cells (name : String) (t : List (Str × Str)) : List Json :=
    t.map (fun (k, v) => Json.mkObj [("table", Json.str name), ("key", strJson k), ("fmt", strJson v),
      ("ph", Json.arr ((placeholders v).map strJson).toArray)])
  pure (Json.mkObj [("cells", Json.arr (cells "natural" r.natural ++ cells "non_natural" r.nonNatural).toArray)])

def ops : List (String × Handler) :=
  [("date", dateOp), ("api", apiOp), ("hist", histOp), ("cal", calOp), ("scan", scanOp), ("parse", parseOp), ("cells", cellsOp)]

end Pyrealb.Driver.DateOps
