import Pyrealb.Driver.Proto
import Pyrealb.Model.ElisionSpec
/-! Line-protocol handlers of the `surface` family (C06): the elision model.

  {"op":"elide","lang":"fr","contr":false,"toks":[{"r":"le","ct":"D","lier":false,"sg":true,"hw":"m","hr":"m","fr":true},…]}
      -> {"r":["l'", …]}            (null for a `None` realization)   |  {"err":"KeyError"}
  {"op":"settled","lang":"fr","toks":[…]}      -> {"ok":true,"text_ok":true}
  {"op":"hyps","lang":"fr","toks":[…]}         -> {"wf":true,"bwd":true,"tame":true,"euph":true}
  {"op":"sep","lang":"fr","s":"<b>l'arbre</b>"} -> {"g":["<b>","l'arbre","</b>"]}   (null when group 2 is None)
  {"op":"anrule","w":"hour"} -> {"b":true}     {"op":"elidable","w":"homme","h":"m"} -> {"b":true} | {"err":…}
-/
namespace Pyrealb.Driver.SurfaceOps
open Lean Pyrealb Pyrealb.Driver Pyrealb.Elision

def langOf (j : Json) : Except String Lang := do
  let l ← getStr j "lang"
  if l == "fr" then pure .fr else if l == "en" then pure .en else throw s!"bad lang {l}"

def hOf (x : String) : Except String HFlag :=
  if x == "m" then pure .mute else if x == "a" then pure .aspire else if x == "c" then pure .crash
  else throw s!"bad h flag {x}"

def tokOf (j : Json) : Except String Tok := do
  let r := (getStrOpt j "r").map String.toList
  let ct ← getStr j "ct"
  let lier ← getBool j "lier"
  let sg ← getBool j "sg"
  let hw ← hOf (← getStr j "hw")
  let hr ← hOf (← getStr j "hr")
  let fr ← getBool j "fr"
  pure { real := r, ct := ct.toList, lier := lier, sg := sg, hW := hw, hR := hr, fr := fr }

def toksOf (j : Json) : Except String (List Tok) := do
  let a ← getArr j "toks"
  a.toList.mapM tokOf

def optStrJson : Option Str → Json
  | none => Json.null
  | some x => strJson x

def elideOp : Handler := fun j => do
  let ℓ ← langOf j
  let contr := (getBool j "contr").toOption.getD false
  let toks ← toksOf j
  match doElision ℓ contr toks with
  | .ok out => pure (Json.mkObj [("r", Json.arr (out.map (fun t => optStrJson t.real)).toArray)])
  | .error e => pure (Json.mkObj [("err", Json.str e.name)])

def settledOp : Handler := fun j => do
  let ℓ ← langOf j
  let toks ← toksOf j
  pure (Json.mkObj [("ok", Json.bool (settled ℓ toks)), ("text_ok", Json.bool (settled ℓ (dropEmpty toks)))])

/-- the hypotheses of the `_partial` theorems of Props/C06, evaluated on the input of a call -/
def hypsOp : Handler := fun j => do
  let ℓ ← langOf j
  let contr := (getBool j "contr").toOption.getD false
  let toks ← toksOf j
  match ℓ with
  | .fr => pure (Json.mkObj [("wf", Json.bool (toks.all tokWF)), ("bwd", Json.bool (bwdFromFr false toks)),
                             ("tame", Json.bool (tameFromFr false toks)), ("euph", Json.bool true)])
  | .en => pure (Json.mkObj [("wf", Json.bool (toks.all tokWF)), ("bwd", Json.bool (bwdFromEn toks)),
                             ("tame", Json.bool (tameFromEn contr toks)), ("euph", Json.bool true)])

def sepOp : Handler := fun j => do
  let ℓ ← langOf j
  let x ← getStr j "s"
  let m := sepWord ℓ x.toList
  pure (Json.mkObj [("g", Json.arr #[strJson m.pre, optStrJson m.word, strJson m.rest])])

def anruleOp : Handler := fun j => do
  let w ← getStr j "w"
  pure (Json.mkObj [("b", Json.bool (anRule w.toList))])

def elidableOp : Handler := fun j => do
  let w ← getStr j "w"
  let h ← hOf (← getStr j "h")
  match elidableNext w.toList h with
  | .ok b => pure (Json.mkObj [("b", Json.bool b)])
  | .error e => pure (Json.mkObj [("err", Json.str e.name)])

def ops : List (String × Handler) :=
  [("elide", elideOp), ("settled", settledOp), ("hyps", hypsOp), ("sep", sepOp), ("anrule", anruleOp), ("elidable", elidableOp)]

end Pyrealb.Driver.SurfaceOps
