import Pyrealb.Driver.Proto
import Pyrealb.Model.ClauseFrRealize
/-! Line protocol of the French clause model: `{"op":"clause","verb":{…lexicon entry + table…},"specs":[…]}` ↦
    `{"res":[{"err":null|name,"toks":[[kind,lemma,form,link],…],"end":…},…]}` (a batch shares its verb). -/
namespace Pyrealb.Driver.ClauseFrOps
open Lean Pyrealb Pyrealb.Driver Pyrealb.ClauseFr

def strOf (j : Json) : Except String Str := do
  let x ← j.getStr?
  pure x.toList

def optCells (j : Json) : Except String (List (Option Str)) := do
  let a ← j.getArr?
  a.toList.mapM (fun c => match c with
    | .null => pure none
    | c => do pure (some (← strOf c)))

def verbLexOf (j : Json) : Except String VerbLex := do
  let lemma ← strOf (← j.getObjVal? "lemma")
  let aux ← strOf (← j.getObjVal? "aux")
  let pat : Option (List Str) ← match j.getObjVal? "pat" with
    | .ok .null => pure none
    | .ok v => do
      let a ← v.getArr?
      pure (some (← a.toList.mapM strOf))
    | .error _ => pure none
  match j.getObjVal? "table" with
  | .ok .null | .error _ =>
    pure { lemma := lemma, aux := aux, pat := pat, hasTab := false, ending := [], p := [], i := [], f := [], ps := [],
           c := [], s := [], si := [], ip := [], b := none, pr := none, pp := .none }
  | .ok tb => do
    let ending ← strOf (← tb.getObjVal? "ending")
    let t ← tb.getObjVal? "t"
    let cells (k : String) : Except String (List (Option Str)) := do optCells (← t.getObjVal? k)
    let ostr (k : String) : Except String (Option Str) := match t.getObjVal? k with
      | .ok .null | .error _ => pure none
      | .ok v => do pure (some (← strOf v))
    let pp : PPCell ← match t.getObjVal? "pp" with
      | .ok .null | .error _ => pure PPCell.none
      | .ok (.str x) => pure (PPCell.str x.toList)
      | .ok v => do pure (PPCell.list (← optCells v))
    pure { lemma := lemma, aux := aux, pat := pat, hasTab := true, ending := ending,
           p := ← cells "p", i := ← cells "i", f := ← cells "f", ps := ← cells "ps", c := ← cells "c", s := ← cells "s",
           si := ← cells "si", ip := ← cells "ip", b := ← ostr "b", pr := ← ostr "pr", pp := pp }

def nbOf (j : Json) : Except String Nb := do
  let x ← j.getStr?
  if x = "p" then pure .p else if x = "s" then pure .s else throw s!"number {x}"

def gdOf (j : Json) : Except String Gd := do
  let x ← j.getStr?
  if x = "f" then pure .f else if x = "m" then pure .m else throw s!"gender {x}"

def casOf (x : String) : Except String Cas :=
  if x = "nom" then pure .nom else if x = "acc" then pure .acc else if x = "dat" then pure .dat
  else if x = "refl" then pure .refl else throw s!"case {x}"

def at? (a : Array Json) (i : Nat) : Except String Json :=
  match a[i]? with
  | some x => pure x
  | none => throw "short array"

def npaOf (a : Array Json) (o : Nat) : Except String NPA := do
  pure { id := ← (← at? a o).getNat?, g := ← gdOf (← at? a (o + 1)), n := ← nbOf (← at? a (o + 2)),
         pro := ← (← at? a (o + 3)).getBool? }

def subjOf (j : Json) : Except String (Option SubjA) :=
  match j with
  | .null => pure none
  | j => do
    let a ← j.getArr?
    let k ← (← at? a 0).getStr?
    if k = "pro" then
      pure (some (.pro (← (← at? a 1).getBool?) (← (← at? a 2).getNat?) (← nbOf (← at? a 3)) (← gdOf (← at? a 4))))
    else pure (some (.np (← npaOf a 1)))

def compOf (j : Json) : Except String Comp := do
  let a ← j.getArr?
  let k ← (← at? a 0).getStr?
  if k = "dir" then pure (.dir (← npaOf a 1))
  else if k = "pp" then pure (.pp (← strOf (← at? a 1)) (← npaOf a 2))
  else if a.size = 2 then
    pure (.cl { lemma := ← strOf (← at? a 1), c := none, tn := false, pe := 3, n := .s, g := .m })
  else
    pure (.cl { lemma := moi, c := some (← casOf (← (← at? a 1).getStr?)), tn := false, pe := ← (← at? a 2).getNat?,
                n := ← nbOf (← at? a 3), g := ← gdOf (← at? a 4) })

def flag (j : Json) (k : String) : Bool :=
  match j.getObjVal? k with
  | .ok (.bool b) => b
  | _ => false

def typOf (j : Json) : Except String Typ := do
  let neg : Option NegV := match j.getObjVal? "neg" with
    | .ok (.bool true) => some .yes
    | .ok (.str w) => some (.word w.toList)
    | _ => none
  let mod : Option Str := match j.getObjVal? "mod" with
    | .ok (.str w) => some w.toList
    | _ => none
  let int : Option Str := match j.getObjVal? "int" with
    | .ok (.str w) => some w.toList
    | _ => none
  pure { neg := neg, pas := flag j "pas", prog := flag j "prog", refl := flag j "refl", mod := mod, int := int }

def specOf (verb : VerbLex) (j : Json) : Except String (Notation × Spec) := do
  let nota ← getStr j "n"
  let t ← getStr j "t"
  let tense ← match Tense.ofStr t.toList with
    | some x => pure x
    | none => throw s!"tense {t}"
  let comps ← (← getArr j "c").toList.mapM compOf
  let vpe : Option Nat := match j.getObjVal? "vpe" with
    | .ok v => (match v.getNat? with | .ok n => some n | .error _ => none)
    | .error _ => none
  let vn : Option Nb := match j.getObjVal? "vn" with
    | .ok (.str "p") => some .p
    | .ok (.str "s") => some .s
    | _ => none
  let typ ← typOf ((j.getObjVal? "y").toOption.getD (Json.mkObj []))
  let subj ← subjOf ((j.getObjVal? "s").toOption.getD .null)
  pure (if nota = "dep" then .dep else .phrase,
        { subj := subj, verb := verb, t := tense, vpe := vpe, vn := vn, comps := comps, typ := typ })

def outJson : Except Crash Out → Json
  | .error e => Json.mkObj [("err", Json.str e.name), ("toks", Json.arr #[]), ("end", Json.str "")]
  | .ok o => Json.mkObj [("err", Json.null),
      ("toks", Json.arr (o.toks.map (fun t => Json.arr #[strJson t.kind, strJson t.lemma, strJson t.form, strJson t.link])).toArray),
      ("end", strJson o.end_)]

def clauseOp : Handler := fun j => do
  let verb ← verbLexOf (← j.getObjVal? "verb")
  let specs ← getArr j "specs"
  let res ← specs.toList.mapM (fun sj => do
    let (nota, sp) ← specOf verb sj
    pure (outJson (realize nota sp)))
  pure (Json.mkObj [("res", Json.arr res.toArray)])

def ops : List (String × Handler) := [("clause", clauseOp)]

end Pyrealb.Driver.ClauseFrOps
