import Pyrealb.Driver.Proto
import Pyrealb.Model.ExprSource
/-! Line-protocol handlers of the C12 model (`drv_json`): op `rt` builds the expression of a construction program,
    serializes it both ways and decodes it again on the three routes under the requested current language. -/
namespace Pyrealb.Driver.JsonOps
open Lean Pyrealb Pyrealb.Driver Pyrealb.Expr

def langOf (x : String) : Except String Lang :=
  if x = "en" then .ok .en else if x = "fr" then .ok .fr else .error s!"bad lang {x}"

def atomOf (j : Json) : Except String Atom :=
  match j with
  | .null => .ok .none
  | .bool b => .ok (.bool b)
  | .str x => .ok (.str x.toList)
  | .num _ => match j.getInt? with
    | .ok i => .ok (.int i)
    | .error e => .error e
  | .obj _ => do
    let a ← getNatList j "dt"
    match a with
    | [y, mo, d, h, mi, sec] => .ok (.dt y mo d h mi sec)
    | _ => .error "bad dt"
  | _ => .error "bad atom"

def dictOf (j : Json) : Except String (List (Str × Atom)) :=
  match j with
  | .obj kv => kv.toList.mapM (fun (k, v) => do let a ← atomOf v; pure (k.toList, a))
  | _ => .error "dict expected"

/-- a lexicon value: atom or list of atoms -/
def pvalOf (j : Json) : Except String PVal :=
  match j with
  | .arr a => do let l ← a.toList.mapM atomOf; pure (.list l)
  | _ => do let a ← atomOf j; pure (.atom a)

/-- NB: `Json.obj` keeps keys sorted; dictionaries whose ORDER matters are therefore sent as arrays of pairs -/
def pairsOf (j : Json) : Except String (List (Str × Atom)) := do
  let a ← j.getArr?
  a.toList.mapM (fun p => do
    let k ← (← p.getArrVal? 0).getStr?
    let v ← atomOf (← p.getArrVal? 1)
    pure (k.toList, v))

partial def progOf (j : Json) : Except String Prog :=
  match j with
  | .str x => .ok (.lit x.toList)
  | _ => do
    let k ← getStr j "k"
    let lang ← langOf (← getStr j "lang")
    let base ←
      if termKindsSrc.contains k.toList then do
        let l ← atomOf (← j.getObjVal? "lemma")
        pure (Prog.term k.toList l lang)
      else if phraseKindsSrc.contains k.toList then do
        let es ← (← getArr j "elems").toList.mapM progOf
        pure (Prog.phr k.toList lang es)
      else do
        let t ← progOf (← j.getObjVal? "term")
        let ds ← (← getArr j "deps").toList.mapM progOf
        pure (Prog.dep k.toList lang t ds)
    let calls ← getArr j "calls"
    calls.toList.foldlM (fun (recv : Prog) (c : Json) => do
      let op ← (← c.getArrVal? 0).getStr?
      if op = "o" then do
        let name ← (← c.getArrVal? 1).getStr?
        let v ← c.getArrVal? 2
        if v.isNull then pure (Prog.call recv name.toList [])
        else do let a ← atomOf v; pure (Prog.call recv name.toList [.atom a])
      else if op = "tag" then do
        let name ← (← c.getArrVal? 1).getStr?
        let ats ← c.getArrVal? 2
        if ats.isNull then pure (Prog.call recv (s "tag") [.atom (.str name.toList)])
        else do let d ← pairsOf ats; pure (Prog.call recv (s "tag") [.atom (.str name.toList), .dict d])
      else if op = "add" then do
        let a ← progOf (← c.getArrVal? 1)
        let p ← c.getArrVal? 2
        if p.isNull then pure (Prog.add recv a none)
        else do let i ← p.getInt?; pure (Prog.add recv a (some i))
      else if op = "typ" || op = "dOpt" then do
        let d ← pairsOf (← c.getArrVal? 1)
        pure (Prog.call recv op.toList [.dict d])
      else if op = "nat" then do
        let v ← c.getArrVal? 1
        if v.isNull then pure (Prog.call recv (s "nat") [])
        else do let a ← atomOf v; pure (Prog.call recv (s "nat") [.atom a])
      else if op = "maje" then do
        let a ← atomOf (← c.getArrVal? 1)
        pure (Prog.call recv (s "maje") [.atom a])
      else .error s!"unknown call {op}") base

structure LexRow where
  lang : Lang
  kind : Str
  lemma : Str
  info : Option LexInfo

def infoOf (j : Json) : Except String (Option LexInfo) :=
  if j.isNull then .ok none else do
    let items ← (← getArr j "items").toList.mapM (fun p => do
      let k ← (← p.getArrVal? 0).getStr?
      let v ← pvalOf (← p.getArrVal? 1)
      pure (k.toList, v))
    let tabpe := match j.getObjVal? "tabpe" with
      | .ok v => match v.getInt? with
        | .ok i => some i
        | .error _ => none
      | .error _ => none
    let plural ← getBool j "plural"
    let id ← getStr j "id"
    let warn ← getBool j "warn"
    pure (some { items := items, tabPe := tabpe, plural := plural, warn := warn, id := id.toList })

def envOf (j : Json) : Except String Env := do
  let rows ← (← getArr j "lex").toList.mapM (fun r => do
    let a ← langOf (← (← r.getArrVal? 0).getStr?)
    let k ← (← r.getArrVal? 1).getStr?
    let l ← (← r.getArrVal? 2).getStr?
    let i ← infoOf (← r.getArrVal? 3)
    pure ({ lang := a, kind := k.toList, lemma := l.toList, info := i } : LexRow))
  let nows ← (← getArr j "now").toList.mapM (fun r => do
    let a ← langOf (← (← r.getArrVal? 0).getStr?)
    let l ← (← r.getArrVal? 1).getStr?
    let v ← (← r.getArrVal? 2).getInt?
    let o ← (← r.getArrVal? 3).getBool?
    pure (a, l.toList, v, o))
  pure {
    lex := fun lang kind lemma =>
      match rows.find? (fun r => r.lang = lang ∧ r.kind = kind ∧ r.lemma = lemma) with
      | some r => r.info
      | none => none
    noWord := fun cur lemma =>
      match nows.find? (fun r => r.1 = cur ∧ r.2.1 = lemma) with
      | some r => some (r.2.2.1, r.2.2.2)
      | none => none }

def errName : RouteErr → String
  | .typeError => "TypeError" | .syntaxError => "SyntaxError" | .nameError => "NameError"
  | .attributeError => "AttributeError" | .notAConstituent => "NotAConstituent" | .valueError => "ValueError"

def errJson (e : RouteErr) : Json := Json.mkObj [("err", Json.str (errName e))]

def jsonText (e : Expr) : Json :=
  let j := toJSON none e
  if j.serializable then strJson (printJ j) else errJson .typeError

def routeJsonOut (r : Except RouteErr (Expr × Nat)) : Json :=
  match r with
  | .error e => errJson e
  | .ok (e, m) => Json.mkObj [("json", jsonText e), ("src", strJson (toSource e)), ("msgs", Json.bool (m > 0))]

def rtOp : Handler := fun j => do
  let cur ← langOf (← getStr j "cur")
  let env ← envOf (← j.getObjVal? "env")
  let p ← progOf (← j.getObjVal? "prog")
  let ctx := match p with
    | .lit _ => cur
    | _ => cur
  match build env ctx p with
  | .error _ => pure (Json.mkObj [("warn", Json.bool true)])
  | .ok (e, w) =>
    if w > 0 then pure (Json.mkObj [("warn", Json.bool true)])
    else pure (Json.mkObj [
      ("warn", Json.bool false),
      ("j", jsonText e),
      ("s", strJson (toSource e)),
      ("json", routeJsonOut (routeJson env cur e)),
      ("json-text", routeJsonOut (routeJsonText env cur e)),
      ("source", routeJsonOut (routeSource env cur e))])

def ops : List (String × Handler) := [("rt", rtOp)]

end Pyrealb.Driver.JsonOps
