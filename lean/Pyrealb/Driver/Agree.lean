import Pyrealb.Driver.Tree
import Pyrealb.Model.AgreeSpec
/-! JSON handlers of the `agree` family (C03): op `agree` runs a construction history on the store model (the ops of
`Driver/Tree`) and returns, after every op, (i) the pairs (node, controller) that the DECLARATIVE specification
`Model/AgreeSpec` requires to share a record in the node that was (re-)linked last, and, at the end (or after every op
when `"every":true`), (ii) the abstraction of the store (partition by record identity, own props, record contents) and
`getProp(pe/n/g)` of every node. -/
namespace Pyrealb.Driver.AgreeOps
open Lean Pyrealb Pyrealb.Driver Pyrealb.Heap Pyrealb.Agree Pyrealb.Driver.TreeOps

/-- the root of the `parentConst` chain (the last node re-linked by an `add`) -/
def topOf : Nat → Heap → Nat → Nat
  | 0, _, x => x
  | f + 1, h, x =>
    match (h.node x).parent with
    | some q => topOf f h q
    | none => x

/-- (node, controller) pairs required by the specification for the node `p` -/
def mustPairs (h : Heap) (p : Nat) : List (Nat × Nat) :=
  if (h.kids p).isEmpty then []
  else if h.kind p = .NP then
    match (h.kids p)[npHeadIndex h p]? with
    | some hd => if (h.peng hd).isSome then (p :: npDeps h p).map (fun d => (d, hd)) else []
    | none => []
  else if h.kind p = .S || h.kind p = .SP then
    match sSubject h p with
    | some sj => if (h.peng sj).isSome then (p :: sDeps h p sj).map (fun d => (d, sj)) else []
    | none => []
  else if (h.kind p).isDep then
    ((depGoals h p).filter (fun g => (h.peng g.src).isSome)).map (fun g => (g.node, g.src))
  else []

def linkedNode (h' : Heap) (hBefore : Heap) : Op → Option Nat
  | .mkP _ _ _ => some hBefore.n
  | .mkD _ _ _ => some hBefore.n
  | .add p _ _ => some (topOf (h'.n + 1) h' p)
  | _ => none

def pairsJson (l : List (Nat × Nat)) : Json :=
  Json.arr (l.map (fun (a, b) => Json.arr #[toJson a, toJson b])).toArray

def gpJson (h : Heap) : Json :=
  Json.arr ((List.range h.n).map (fun x =>
    Json.arr #[valJson (h.getProp x Heap.peKey), valJson (h.getProp x Heap.nKey), valJson (h.getProp x Heap.gKey)])).toArray

def stateJson (h : Heap) : Json := Json.mkObj [("snap", snapJson h), ("gp", gpJson h)]

def agreeLoop (every : Bool) : Heap → List Op → List Json → List Json → List Json × List Json × Heap × String
  | h, [], must, states => (must.reverse, states.reverse, h, "ok")
  | h, o :: os, must, states =>
    match runOp h o with
    | .ok h' =>
      let m := match linkedNode h' h o with
        | some p => pairsJson (mustPairs h' p)
        | none => Json.arr #[]
      agreeLoop every h' os (m :: must) (if every then stateJson h' :: states else states)
    | .crash c => (must.reverse, states.reverse, h, c.name)
    | .outside => (must.reverse, states.reverse, h, "outside")

def agreeOp : Handler := fun j => do
  let a ← getArr j "ops"
  let ops ← a.toList.mapM opOf
  let every := match getBool j "every" with | .ok b => b | .error _ => false
  let (must, states, hfin, fin) := agreeLoop every {} ops [] []
  pure (Json.mkObj [("must", Json.arr must.toArray), ("states", Json.arr states.toArray),
                    ("final", stateJson hfin), ("end", Json.str fin)])

def ops : List (String × Handler) := [("agree", agreeOp)]

end Pyrealb.Driver.AgreeOps
