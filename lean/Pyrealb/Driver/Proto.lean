import Lean.Data.Json
/-! Helpers for the line protocol of the model driver: one JSON object in, one JSON object out. -/
namespace Pyrealb.Driver
open Lean

abbrev Handler := Json → Except String Json

def getStr (j : Json) (k : String) : Except String String := j.getObjValAs? String k
def getNat (j : Json) (k : String) : Except String Nat := j.getObjValAs? Nat k
def getInt (j : Json) (k : String) : Except String Int := j.getObjValAs? Int k
def getBool (j : Json) (k : String) : Except String Bool := j.getObjValAs? Bool k
def getArr (j : Json) (k : String) : Except String (Array Json) := do
  let v ← j.getObjVal? k
  v.getArr?
def getNatList (j : Json) (k : String) : Except String (List Nat) := do
  let a ← getArr j k
  a.toList.mapM (fun x => x.getNat?)
def getStrList (j : Json) (k : String) : Except String (List String) := do
  let a ← getArr j k
  a.toList.mapM (fun x => x.getStr?)
def getOpt (j : Json) (k : String) : Option Json :=
  match j.getObjVal? k with
  | .ok .null => none
  | .ok v => some v
  | .error _ => none
def getStrOpt (j : Json) (k : String) : Option String :=
  match getOpt j k with
  | some (.str x) => some x
  | _ => none

def natsJson (l : List Nat) : Json := Json.arr (l.map (fun (n : Nat) => toJson n)).toArray
def optNatJson : Option Nat → Json
  | none => Json.null
  | some n => toJson n
def strJson (x : List Char) : Json := Json.str (String.ofList x)

end Pyrealb.Driver
