import Pyrealb.Driver.Proto
import Pyrealb.Model.DeclWF
import Pyrealb.Gen.DeclEn
import Pyrealb.Gen.DeclFr
import Pyrealb.Gen.DocCells
/-! Line-protocol handlers of the declension model (`drv_decl`).

* `decl`      `{"lang","pos","lemma","lex":[[lemma,[[pos,[[key,value],…]],…]],…],"combos":[[[opt,value],…],…]}`
              ↦ `{"res":[{"toks":[…],"text":…,"w":n} | {"err":"KeyError"}, …],"usable":bool}` (one answer per option
              combination; `usable` = the hypothesis `usableB` of `decl_total` on the constructed terminal);
              the tables are the generated ones (`Gen.DeclEn/DeclFr`), the lexicon entries travel in the line
* `bestmatch` `{"rows":[[val,[[key,value],…]],…],"kv":[[key,value],…]}` ↦ `{"r":val|null,"loop":[…],"spec":[…]}`
              (result of the loop model, the loop's score and the declarative score of every row)
* `tables`    `{"lang"}` ↦ the generated tables back as JSON (the harness compares them with rules-*.json)
* `tbl-witness` ↦ the documented cells on which model and documentation disagree (executable twin of `doc_cells_tbl`)
-/
namespace Pyrealb.Driver.DeclOps
open Lean Pyrealb Pyrealb.Driver Pyrealb.Decl

def rulesOf : Lang → Rules
  | .en => Gen.DeclEn.tables
  | .fr => Gen.DeclFr.tables

def parseLang (x : String) : Except String Lang :=
  if x = "en" then pure .en else if x = "fr" then pure .fr else throw s!"bad lang {x}"

def parsePos (x : String) : Except String Pos :=
  if x = "N" then pure .N else if x = "A" then pure .A else if x = "Adv" then pure .Adv
  else if x = "D" then pure .D else if x = "Pro" then pure .Pro else throw s!"bad pos {x}"

def parseLV : Json → LV
  | .str x => .str x.toList
  | j => match j.getInt? with
    | .ok i => (match j with | .num _ => .int i | _ => .other)
    | .error _ => .other

def parseOV : Json → Except String OV
  | .str x => pure (.str x.toList)
  | .null => pure .none
  | .bool b => pure (.bool b)
  | j => match j.getInt? with
    | .ok i => pure (.int i)
    | .error _ => throw "bad option value"

def parseFV (j : Json) : Except String FV := do
  let o ← parseOV j
  pure o.toFV

def parseFeat (x : String) : Feat :=
  if x = "g" then .g else if x = "n" then .n else if x = "pe" then .pe else if x = "own" then .own
  else if x = "tn" then .tn else if x = "c" then .c else if x = "f" then .f else if x = "pt" then .pt
  else .other x.toList

def featName : Feat → String
  | .g => "g" | .n => "n" | .pe => "pe" | .own => "own" | .tn => "tn" | .c => "c" | .f => "f" | .pt => "pt"
  | .other x => String.ofList x

def pair (j : Json) : Except String (Json × Json) := do
  let a ← j.getArr?
  if h : a.size = 2 then pure (a[0], a[1]) else throw "pair expected"

def parsePosEntry (j : Json) : Except String PosEntry := do
  let a ← j.getArr?
  a.toList.mapM (fun kv => do
    let (k, v) ← pair kv
    let ks ← k.getStr?
    pure (ks.toList, parseLV v))

def parseLexEntry (j : Json) : Except String LexEntry := do
  let a ← j.getArr?
  a.toList.mapM (fun pe => do
    let (p, e) ← pair pe
    let ps ← p.getStr?
    let en ← parsePosEntry e
    pure (ps.toList, en))

def parseLex (j : Json) : Except String Lex := do
  let a ← j.getArr?
  a.toList.mapM (fun le => do
    let (l, e) ← pair le
    let ls ← l.getStr?
    let en ← parseLexEntry e
    pure (ls.toList, en))

def parseOpts (j : Json) : Except String (List (Str × OV)) := do
  let a ← j.getArr?
  a.toList.mapM (fun kv => do
    let (k, v) ← pair kv
    let ks ← k.getStr?
    let ov ← parseOV v
    pure (ks.toList, ov))

def outJson : Except Crash Out → Json
  | .ok o => Json.mkObj [("toks", Json.arr (o.toks.map strJson).toArray), ("text", strJson (detok o.toks)),
                         ("w", toJson o.warns)]
  | .error e => Json.mkObj [("err", Json.str e.name)]

def declOp : Handler := fun j => do
  let lang ← parseLang (← getStr j "lang")
  let pos ← parsePos (← getStr j "pos")
  let lemma ← getStr j "lemma"
  let lex ← parseLex (← j.getObjVal? "lex")
  let combos ← getArr j "combos"
  let rules := rulesOf lang
  -- the constructor is run once per combination, as in Python (it is pure here)
  let res ← combos.toList.mapM (fun c => do
    let opts ← parseOpts c
    pure (outJson (realize rules lex ⟨lang, pos, lemma.toList, opts⟩)))
  -- the well-formedness predicate of `decl_total` evaluated on the constructed terminal (sweep over the lexicons)
  let usable := match mkTerm rules lex lang pos lemma.toList with
    | .ok t0 => usableB rules lex t0
    | .error _ => false
  pure (Json.mkObj [("res", Json.arr res.toArray), ("usable", Json.bool usable)])

def parseKV (j : Json) : Except String KeyVals := do
  let a ← j.getArr?
  a.toList.mapM (fun kv => do
    let (k, v) ← pair kv
    let ks ← k.getStr?
    let fv ← parseFV v
    pure (parseFeat ks, fv))

def parseRow (j : Json) : Except String Row := do
  let (v, f) ← pair j
  let vs ← v.getStr?
  let feats ← parseKV f
  pure ⟨vs.toList, feats⟩

def bestmatchOp : Handler := fun j => do
  let rowsJ ← getArr j "rows"
  let rows ← rowsJ.toList.mapM parseRow
  let kv ← parseKV (← j.getObjVal? "kv")
  let r := match bestMatch rows kv with
    | some v => strJson v
    | none => Json.null
  pure (Json.mkObj [("r", r),
                    ("loop", natsJson (rows.map (fun d => scoreLoop d kv 0))),
                    ("spec", natsJson (rows.map (fun d => score d kv)))])

def fvJson : FV → Json
  | .str v => strJson v
  | .int i => toJson i
  | .none => Json.null
  | .bool b => Json.bool b

def tableJson (t : Table) : Json :=
  Json.mkObj [("ending", strJson t.ending),
    ("rows", Json.arr (t.rows.map (fun r =>
      Json.arr #[strJson r.val, Json.arr (r.feats.map (fun p => Json.arr #[Json.str (featName p.1), fvJson p.2])).toArray])).toArray)]

def tablesOp : Handler := fun j => do
  let lang ← parseLang (← getStr j "lang")
  pure (Json.mkObj [("tables", Json.arr ((rulesOf lang).map (fun p => Json.arr #[strJson p.1, tableJson p.2])).toArray)])

def lexOf : Lang → Lex
  | .en => Gen.DocCells.lexEn
  | .fr => Gen.DocCells.lexFr

def witnessOp : Handler := fun _ => do
  let bad := Gen.DocCells.docCells.filter (fun c =>
    match realizeText (rulesOf c.spec.lang) (lexOf c.spec.lang) c.spec with
    | .ok r => r ≠ c.form
    | .error _ => true)
  pure (Json.mkObj [("cells", toJson Gen.DocCells.docCells.length),
    ("bad", Json.arr (bad.map (fun c => Json.mkObj [
      ("lang", Json.str (match c.spec.lang with | .en => "en" | .fr => "fr")),
      ("pos", strJson c.spec.pos.name), ("lemma", strJson c.spec.lemma),
      ("opts", Json.arr (c.spec.opts.map (fun o => Json.arr #[strJson o.1, fvJson o.2.toFV])).toArray),
      ("form", strJson c.form),
      ("model", match realizeText (rulesOf c.spec.lang) (lexOf c.spec.lang) c.spec with
                | .ok r => strJson r | .error e => Json.str e.name)])).toArray)])

def ops : List (String × Handler) :=
  [("decl", declOp), ("bestmatch", bestmatchOp), ("tables", tablesOp), ("tbl-witness", witnessOp)]

end Pyrealb.Driver.DeclOps
