import Pyrealb.Driver.Proto
import Pyrealb.Model.Globals
namespace Pyrealb.Driver.GlobalsOps
open Lean Pyrealb.Driver Pyrealb.Globals

/-- resources as version counters: a management op bumps the version of the lexicon it writes -/
def parseOp (x : String) : Except String (Op Nat Nat) :=
  match x with
  | "loadEn" => pure .loadEn
  | "loadFr" => pure .loadFr
  | "loadOther" => pure .loadOther
  | "build" => pure (.build 0)
  | "realize" => pure (.realize 0)
  | "warn" => pure (.warn 0)
  | "clone" => pure (.clone 0)
  | "toJSON" => pure (.toJSON 0)
  | "fromJSON" => pure (.fromJSON 0)
  | "toSource" => pure (.toSource 0)
  | "oneOf" => pure (.oneOf 0 [])
  | "lexAdd:en" => pure (.lexAdd (some .en) (· + 1))
  | "lexAdd:fr" => pure (.lexAdd (some .fr) (· + 1))
  | "lexAdd:cur" => pure (.lexAdd none (· + 1))
  | _ => throw s!"unknown global op {x}"

def P : Params Nat Nat Nat := { render := fun _ _ _ => 0, cost := fun _ => 1, costT := fun _ => 1 }

def langStr : Lang → String | .en => "en" | .fr => "fr"

def histOp : Handler := fun j => do
  let ops ← getStrList j "ops"
  let ops ← ops.mapM parseOp
  let st0 : State Nat := init { lexEn := 0, lexFr := 0, rulesEn := 0, rulesFr := 0 }
  let (_, outs) := ops.foldl (fun (acc : State Nat × List Json) o =>
    let st' := (step P acc.1 o).1
    (st', acc.2 ++ [Json.mkObj [("lang", Json.str (langStr st'.lang)),
      ("lexEn", toJson st'.res.lexEn), ("lexFr", toJson st'.res.lexFr),
      ("rules", toJson (st'.res.rulesEn + st'.res.rulesFr))]])) (st0, [])
  pure (Json.mkObj [("steps", Json.arr outs.toArray)])

def ops : List (String × Handler) := [("ghist", histOp)]

end Pyrealb.Driver.GlobalsOps
