import Pyrealb.Driver.Proto
import Pyrealb.Model.LangSites
namespace Pyrealb.Driver.LangOps
open Lean Pyrealb.Driver Pyrealb.LangSites Pyrealb.Gen.Sites

def sitesOp : Handler := fun _ =>
  pure (Json.mkObj [
    ("sites", Json.arr (langSites.map (fun s => Json.arr #[Json.str s.func, Json.str s.callee, Json.str s.kind])).toArray),
    ("exempt", Json.arr ((exemptFunctions ++ derivedExempt).map Json.str).toArray)])

/-- does function `func` (per the inventory) contain a site that lets the current language through? -/
def leaksOp : Handler := fun j => do
  let f ← getStr j "func"
  let callee ← getStr j "callee"
  let ss := langSites.filter (fun s => s.func = f ∧ s.callee = callee)
  pure (Json.mkObj [("known", Json.bool (!ss.isEmpty)),
                    ("current", Json.bool (ss.any (fun s => isCurrentKind s.kind))),
                    ("exempt", Json.bool (isExempt f))])

def ops : List (String × Handler) := [("langsites", sitesOp), ("leaks", leaksOp)]
end Pyrealb.Driver.LangOps
