import Pyrealb.Driver.Proto
import Pyrealb.Model.LexState
/-! Line protocol of the lexicon-state model (op `hist`): an initial slice of both lexicons, a current
    language and a list of steps; the answer lists, per step, the returned value and what changed in the slice. -/
namespace Pyrealb.Driver.LexStateOps
open Lean Pyrealb.Driver Pyrealb.LexState

def langArg (x : String) : LangArg := if x == "en" then .en else if x == "fr" then .fr else .bad
def optLang (j : Json) (k : String) : Option LangArg := (getStrOpt j k).map langArg
def langName : Lang → String
  | .en => "en"
  | .fr => "fr"

def parseEntry (j : Json) : Except String Entry := do
  let a ← j.getArr?
  a.toList.mapM (fun p => do
    let q ← p.getArr?
    match q.toList with
    | [c, v] => pure ((← c.getStr?).toList, (← v.getStr?).toList)
    | _ => throw "entry item: [cat,val] expected")

/-- `{"obj": ref}` = a library object obtained earlier ; `{"lit": [[cat,val],…]}` = a dict of the caller -/
def parseDictArg (j : Json) : Except String DictArg :=
  match j.getObjVal? "obj" with
  | .ok r => do pure (.obj (← r.getNat?))
  | .error _ => do pure (.lit (← parseEntry (← j.getObjVal? "lit")))

def parseItems (j : Json) (k : String) : Except String (List (Lemma × DictArg)) := do
  let a ← getArr j k
  a.toList.mapM (fun p => do
    let q ← p.getArr?
    match q.toList with
    | [l, d] => pure ((← l.getStr?).toList, ← parseDictArg d)
    | _ => throw "item: [lemma,dict] expected")

inductive Step where
  | op (o : Op)
  | term (cat : Cat) (lemma : Lemma) (tl : Option LangArg)

def parseStep (j : Json) : Except String Step := do
  let t ← getStr j "t"
  let lang := optLang j "lang"
  let lemmaOf : Except String Lemma := (fun (x : String) => x.toList) <$> getStr j "lemma"
  if t == "loadEn" then pure (.op (.ctl .loadEn))
  else if t == "loadFr" then pure (.op (.ctl .loadFr))
  else if t == "load" then
    let x ← getStr j "lang"
    pure (.op (.ctl (.load (langArg x))))
  else if t == "getLanguage" then pure (.op (.ctl .getLanguage))
  else if t == "add" then
    let lemma ← lemmaOf
    let d ← parseDictArg (← j.getObjVal? "d")
    pure (.op (.lex (LOp.add lemma d) lang))
  else if t == "addSingle" then
    let items ← parseItems j "items"
    pure (.op (.lex (LOp.addSingle items) lang))
  else if t == "remove" then
    let lemma ← lemmaOf
    pure (.op (.lex (LOp.remove lemma) lang))
  else if t == "update" then
    let items ← parseItems j "items"
    pure (.op (.lex (LOp.update items) lang))
  else if t == "getLemma" then
    let lemma ← lemmaOf
    pure (.op (.lex (LOp.getLemma lemma) lang))
  else if t == "getLexicon" then pure (.op (.lex LOp.getLexicon lang))
  else if t == "getRules" then pure (.op (.lex LOp.getRules lang))
  else if t == "term" then
    let lemma ← lemmaOf
    let cat ← getStr j "cat"
    pure (.term cat.toList lemma lang)
  else throw s!"unknown step {t}"

/-- initial slice of one lexicon: `[[lemma, ref, [[cat,val],…]], …]` -/
def parseLex (j : Json) (k : String) : Except String (List (Lemma × Ref × Entry)) := do
  let a ← getArr j k
  a.toList.mapM (fun p => do
    let q ← p.getArr?
    match q.toList with
    | [l, r, e] => pure ((← l.getStr?).toList, ← r.getNat?, ← parseEntry e)
    | _ => throw "lexicon item: [lemma,ref,entry] expected")

def entryJson (e : Entry) : Json := Json.arr (e.map (fun p => Json.arr #[strJson p.1, strJson p.2])).toArray

def slice (st : State) : List (Lang × Lemma × Ref × Entry) :=
  [Lang.en, Lang.fr].flatMap (fun l => (st.lexOf l).map (fun p => (l, p.1, p.2, content st.heap p.2)))

def retJson : Ret → Json
  | .none => Json.null
  | .dict r e => Json.mkObj [("dict", Json.arr #[toJson r, entryJson e])]
  | .lexicon l keys => Json.mkObj [("lexicon", Json.str (langName l)), ("keys", Json.arr (keys.map strJson).toArray)]
  | .rules l _ => Json.mkObj [("rules", Json.str (langName l))]
  | .lang l => Json.mkObj [("lang", Json.str (langName l))]
  | .warned => Json.mkObj [("warned", toJson (1 : Nat))]

def termJson : TermLookup → Json
  | .unknown tl => Json.mkObj [("k", Json.str "unknown"), ("tl", Json.str (langName tl))]
  | .otherPOS tl pos => Json.mkObj [("k", Json.str "other"), ("tl", Json.str (langName tl)), ("pos", Json.arr (pos.map strJson).toArray)]
  | .found v tl _ => Json.mkObj [("k", Json.str "found"), ("tl", Json.str (langName tl)), ("v", strJson v)]

/-- what changed in the slice between two states -/
def delta (a b : State) : List Json :=
  let sa := slice a
  let sb := slice b
  let changed := sb.filter (fun x => !(sa.contains x))
  let gone := sa.filter (fun x => !(sb.any (fun y => y.1 == x.1 && y.2.1 == x.2.1)))
  changed.map (fun x => Json.arr #[Json.str (langName x.1), strJson x.2.1, Json.arr #[toJson x.2.2.1, entryJson x.2.2.2]])
  ++ gone.map (fun x => Json.arr #[Json.str (langName x.1), strJson x.2.1, Json.null])

def keysJson (st : State) (l : Lang) : Json := Json.arr ((dkeys (st.lexOf l)).map strJson).toArray

def stepAnswer (st : State) : Step → Json × State
  | .term cat lemma tl => (Json.mkObj [("term", termJson (lookupForTerminal st tl lemma cat))], st)
  | .op o =>
    let st' := next st o
    let r : Json := match ret st o with
      | .ok r => retJson r
      | .error c => Json.mkObj [("err", Json.str c.name)]
    let ord : List (String × Json) :=
      (if dkeys (st'.lexOf .en) == dkeys (st.lexOf .en) then [] else [("ord_en", keysJson st' .en)]) ++
      (if dkeys (st'.lexOf .fr) == dkeys (st.lexOf .fr) then [] else [("ord_fr", keysJson st' .fr)])
    (Json.mkObj ([("ret", r), ("cur", Json.str (langName st'.cur)), ("d", Json.arr (delta st st').toArray)] ++ ord), st')

def histOp : Handler := fun j => do
  let cur ← getStr j "cur"
  let en ← parseLex j "en"
  let fr ← parseLex j "fr"
  let steps ← (← getArr j "steps").toList.mapM parseStep
  let objs : List (Ref × Entry) := (en ++ fr).map (fun p => (p.2.1, p.2.2))
  let st0 : State :=
    { cur := if cur == "fr" then .fr else .en
      en := en.map (fun p => (p.1, p.2.1)), fr := fr.map (fun p => (p.1, p.2.1))
      heap := fun r => dget r objs, fresh := objs.length, rulesEn := 0, rulesFr := 1 }
  let (out, _) := steps.foldl (fun (acc : List Json × State) s =>
    let (a, st') := stepAnswer acc.2 s
    (a :: acc.1, st')) ([], st0)
  pure (Json.mkObj [("res", Json.arr out.reverse.toArray)])

def ops : List (String × Handler) := [("hist", histOp)]

end Pyrealb.Driver.LexStateOps
