import Pyrealb.Driver.Proto
import Pyrealb.Model.FormatTables
/-! Line-protocol handlers of the formatting model (ops `format`, `detok`, `sepword`, `lastvis`, `getba`). -/
namespace Pyrealb.Driver.FormatOps
open Lean Pyrealb Pyrealb.Driver Pyrealb.Format

def langOf (j : Json) : Except String Lang := do
  let l ← getStr j "lang"
  if l == "en" then pure .en else if l == "fr" then pure .fr else throw s!"bad lang {l}"

def capOf (x : String) : Except String Cap :=
  if x == "absent" then pure .absent else if x == "false" then pure .f else if x == "true" then pure .t
  else if x == "tit" then pure .tit else if x == "empty" then pure .empty else throw s!"bad cap {x}"

def catOf (x : String) : Cat :=
  if x == "v" then .verb else if x == "p" then .pron else if x == "m" then .minor else .other

def strListOpt (j : Json) (k : String) : Except String (Option (List Str)) :=
  match getOpt j k with
  | none => pure none
  | some v => do
    let a ← v.getArr?
    let l ← a.toList.mapM (fun x => x.getStr?)
    pure (some (l.map String.toList))

def tagsOpt (j : Json) : Except String (Option (List (Str × List (Str × Str)))) :=
  match getOpt j "tag" with
  | none => pure none
  | some v => do
    let a ← v.getArr?
    let l ← a.toList.mapM (fun t => do
      let p ← t.getArr?
      let name ← (p[0]?.getD Json.null).getStr?
      let ats ← (p[1]?.getD (Json.arr #[])).getArr?
      let attrs ← ats.toList.mapM (fun kv => do
        let q ← kv.getArr?
        let k ← (q[0]?.getD Json.null).getStr?
        let w ← (q[1]?.getD Json.null).getStr?
        pure (k.toList, w.toList))
      pure (name.toList, attrs))
    pure (some l)

def optsOf (j : Json) : Except String Opts := do
  let poss := (getBool j "poss").toOption.getD false
  let cap ← capOf ((getStrOpt j "cap").getD "absent")
  let tags ← tagsOpt j
  let a ← strListOpt j "a"
  let b ← strListOpt j "b"
  let en ← strListOpt j "en"
  let ba ← strListOpt j "ba"
  pure { poss := poss, cap := cap, tags := tags, a := a, b := b, en := en, ba := ba }

def errJson (c : Crash) : Json := Json.mkObj [("err", Json.str c.name)]

def formatOp : Handler := fun j => do
  let lang ← langOf j
  let toks ← getStrList j "toks"
  let o ← optsOf (← j.getObjVal? "opts")
  let pre ← strListOpt j "pre"
  let preF : List Tok → List Tok := match pre with
    | none => id
    | some rs => fun _ => rs.map (fun r => ({ real := r } : Tok))
  match doFormat (tablesOf lang) pyCase o preF (toks.map (fun r => ({ real := r.toList } : Tok))) with
  | .ok l =>
    let out := [("toks", Json.arr (l.map (fun t => strJson t.real)).toArray)]
    let chk := (getBool j "chk_re").toOption.getD false
    let re := removeEmpty (toks.map (fun r => ({ real := r.toList } : Tok)))
    pure (Json.mkObj (if chk then out ++ [("re", Json.arr (re.map (fun t => strJson t.real)).toArray)] else out))
  | .error c => pure (errJson c)

def tokOf (t : Json) : Except String Tok := do
  let p ← t.getArr?
  let r ← (p[0]?.getD Json.null).getStr?
  let lier ← (p[1]?.getD (Json.bool false)).getBool?
  let cat ← (p[2]?.getD (Json.str "o")).getStr?
  pure { real := r.toList, lier := lier, cat := catOf cat }

def detokOp : Handler := fun j => do
  let lang ← langOf j
  let arr ← getArr j "toks"
  let toks ← arr.toList.mapM tokOf
  let cap ← capOf ((getStrOpt j "cap").getD "absent")
  let top ← getBool j "top"
  let tagged ← getBool j "tagged"
  match detokenize pyCase { lang := lang, cap := cap, top := top, tagged := tagged } toks with
  | .ok x => pure (Json.mkObj [("s", strJson x)])
  | .error c => pure (errJson c)

def sepwordOp : Handler := fun j => do
  let x ← getStr j "s"
  let (i, w) := sepWord pyCase x.toList
  pure (Json.mkObj [("g1", toJson i), ("g2", match w with | some w => strJson w | none => Json.null)])

def lastvisOp : Handler := fun j => do
  let x ← getStr j "s"
  pure (Json.mkObj [("c", match lastVis x.toList with | some c => strJson [c] | none => Json.null)])

def getbaOp : Handler := fun j => do
  let lang ← langOf j
  let x ← getStr j "sign"
  match getBA (tablesOf lang) x.toList with
  | .ok (b, a) => pure (Json.mkObj [("b", strJson b), ("a", strJson a)])
  | .error c => pure (errJson c)

def ops : List (String × Handler) :=
  [("format", formatOp), ("detok", detokOp), ("sepword", sepwordOp), ("lastvis", lastvisOp), ("getba", getbaOp)]

end Pyrealb.Driver.FormatOps
