import Pyrealb.Driver.Proto
import Pyrealb.Model.Coord
/-! JSON handlers of the coordination model (ops `coord`, `coordopt`). -/
namespace Pyrealb.Driver.CoordOps
open Lean Pyrealb Pyrealb.Driver Pyrealb.Coord

def strOpt (j : Json) (k : String) : Option Str := (getStrOpt j k).map String.toList

def peOf (j : Json) (k : String) : Option PeVal :=
  match getOpt j k with
  | some (.str x) => some (.str x.toList)
  | some v => match v.getNat? with
    | .ok n => some (.int n)
    | .error _ => none
  | none => none

def strList (j : Json) (k : String) : Except String (List Str) := do
  let l ← getStrList j k
  pure (l.map String.toList)

def strListOpt (j : Json) (k : String) : Except String (Option (List Str)) :=
  match getOpt j k with
  | none => pure none
  | some _ => do let l ← strList j k; pure (some l)

def memberOf (j : Json) : Except String Member := do
  let toks ← strList j "toks"
  let alt ← match getOpt j "alt" with
    | none => pure toks
    | some _ => strList j "alt"
  let kind ← getStr j "kind"
  let a ← strListOpt j "a"
  pure { toks := toks, alt := alt, kind := kind.toList, rel := ((getStrOpt j "rel").getD "").toList,
         pe := peOf j "pe", n := strOpt j "n", g := strOpt j "g", a := a }

def recOf (j : Json) : Rec := { pe := peOf j "pe", n := strOpt j "n", g := strOpt j "g" }

def peJson : Option PeVal → Json
  | none => Json.null
  | some (.int k) => toJson k
  | some (.str x) => Json.str (String.ofList x)

def optStrJson : Option Str → Json
  | none => Json.null
  | some x => strJson x

def recJson (r : Rec) : Json := Json.mkObj [("pe", peJson r.pe), ("n", optStrJson r.n), ("g", optStrJson r.g)]

def toksJson (l : List Str) : Json := Json.arr (l.map strJson).toArray

def ptOf (j : Json) : Except String (Str → Str) := do
  let a ← getArr j "aft"
  let tbl ← a.toList.mapM (fun p => do
    let k ← getStr p "m"
    let v ← getStr p "s"
    pure (k.toList, v.toList))
  pure (fun m => (lookup m tbl).getD m)

def andOf (lang : String) : Str := if lang = "fr" then Gen.CoordConsts.andFr else Gen.CoordConsts.andEn

def coordOp : Handler := fun j => do
  let nota ← getStr j "nota"
  let lang ← getStr j "lang"
  let role ← getStr j "role"
  let pt ← ptOf j
  let msJ ← getArr j "members"
  let ms ← msJ.toList.mapM memberOf
  let andC := andOf lang
  let r0 := match getOpt j "r0" with | none => ({} : Rec) | some r => recOf r
  let shared := role = "subj" || role = "attrshare"
  let errJson (e : Crash) := Json.mkObj [("err", Json.str e.name)]
  if nota = "cp" then
    let conj : Option Conj := match getOpt j "conj" with
      | none => none
      | some c => some { lemma := ((getStrOpt c "lemma").getD "").toList,
                         toks := ((getStrList c "toks").toOption.getD []).map String.toList }
    if shared then
      match sCP pt andC conj ms r0 with
      | .error e => pure (errJson e)
      | .ok o => pure (Json.mkObj [("toks", toksJson o.toks), ("rec", recJson o.peng), ("pe", toJson o.pe), ("pl", toJson o.pl), ("w", toJson o.warns)])
    else
      match cpReal pt andC conj ms r0 with
      | .error e => pure (errJson e)
      | .ok o => pure (Json.mkObj [("toks", toksJson o.toks), ("rec", recJson o.peng), ("w", toJson o.warns)])
  else
    let tj ← j.getObjVal? "conj"
    let tk := ((getStrOpt tj "kind").getD "C").toList
    let tl := ((getStrOpt tj "lemma").getD "").toList
    let tt := ((getStrList tj "toks").toOption.getD []).map String.toList
    let t : Coord.Term := Coord.Term.mk tk tl tt
    if shared then
      match sDep pt andC t ms r0 with
      | .error e => pure (errJson e)
      | .ok o => pure (Json.mkObj [("toks", toksJson o.toks), ("rec", recJson o.peng), ("pe", toJson o.pe), ("pl", toJson o.pl), ("w", toJson o.warns)])
    else
      match coordReal pt andC t ms r0 with
      | .error e => pure (errJson e)
      | .ok o => pure (Json.mkObj [("toks", toksJson o.toks), ("rec", recJson o.peng), ("w", toJson o.warns)])

def coordOptOp : Handler := fun j => do
  let nota ← getStr j "nota"
  let name ← getStr j "name"
  let kinds ← strList j "kinds"
  let noProp := if nota = "cp" then Gen.CoordConsts.cpNoPropagate else Gen.CoordConsts.coordNoPropagate
  match propagate noProp Gen.CoordConsts.optionTable name.toList kinds with
  | none => pure (Json.mkObj [("recv", Json.null)])
  | some l => pure (Json.mkObj [("recv", natsJson l)])

def ops : List (String × Handler) := [("coord", coordOp), ("coordopt", coordOptOp)]

end Pyrealb.Driver.CoordOps
