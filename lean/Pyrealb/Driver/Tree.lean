import Pyrealb.Driver.Proto
import Pyrealb.Model.HeapOps
import Pyrealb.Model.HeapClone
/-! JSON handlers of the `tree` family (C11; the store ops are shared with C03/C13):
`hist` (histories on the store, a snapshot after every op), `getelems`, `typ` (successive `.typ` calls + every reader). -/
namespace Pyrealb.Driver.TreeOps
open Lean Pyrealb Pyrealb.Driver Pyrealb.Heap Pyrealb.GetElems

def valOf : Json → Val
  | .null => .none
  | .bool b => .b b
  | .str x => .s x.toList
  | j => match j.getInt? with
    | .ok i => .i i
    | .error _ => .other

def valJson : Val → Json
  | .none => .null
  | .b x => .bool x
  | .s x => strJson x
  | .i n => toJson n
  | .other => Json.mkObj [("other", .bool true)]

def dictOf (j : Json) : Except String Dict := do
  let o ← j.getObj?
  -- the harness sends dicts as a list of pairs to keep the insertion order
  pure (o.toList.map (fun (k, v) => (k.toList, valOf v)))

/-- a dict sent as `[[key, value], …]` (insertion order is significant) -/
def pairsOf (j : Json) : Except String Dict := do
  let a ← j.getArr?
  a.toList.mapM (fun kv => do
    let k ← (← kv.getArrVal? 0).getStr?
    let v ← kv.getArrVal? 1
    pure (k.toList, valOf v))

def insertSorted (kv : Str × Val) : Dict → Dict
  | [] => [kv]
  | x :: r => if decide (String.ofList kv.1 < String.ofList x.1) then kv :: x :: r else x :: insertSorted kv r

def sortDict (d : Dict) : Dict := d.foldl (fun acc kv => insertSorted kv acc) []

/-- dicts are emitted with sorted keys -/
def dictJson (d : Dict) : Json :=
  Json.arr ((sortDict d).map (fun (k, v) => Json.arr #[strJson k, valJson v])).toArray

def langOf (x : String) : Except String Lang :=
  if x == "en" then pure .en else if x == "fr" then pure .fr else throw s!"bad lang {x}"

def kindOf (x : String) : Except String Kind :=
  match Kind.ofName x with
  | some k => pure k
  | none => throw s!"bad kind {x}"

partial def argOf (j : Json) : Except String (Arg Item) :=
  match j with
  | .null => pure .none
  | .arr a => do
    let l ← a.toList.mapM argOf
    pure (.list l)
  | .obj _ => pure (.item .bad)
  | j => match j.getNat? with
    | .ok n => pure (.item (.node n))
    | .error _ => throw "bad arg"

def argsOf (j : Json) : Except String (List (Arg Item)) := do
  let a ← j.getArr?
  a.toList.mapM argOf

def posOf (j : Json) : Option Int :=
  match j.getInt? with
  | .ok i => some i
  | .error _ => none

def typArgOf (j : Json) : Except String Typ.Arg :=
  match j with
  | .arr _ => do
    let d ← pairsOf j
    pure (.dict d)
  | _ => pure .notDict

def opOf (j : Json) : Except String Op := do
  let tag ← (← j.getArrVal? 0).getStr?
  if tag == "mkT" then
    let o ← j.getArrVal? 1
    let k ← kindOf (← getStr o "k")
    let lang ← langOf (← getStr o "lang")
    let lem ← getStr o "lem"
    let props ← pairsOf (← o.getObjVal? "props")
    let gv := fun (key : String) => match o.getObjVal? key with | .ok v => valOf v | .error _ => Val.none
    let ord := match getBool o "ord" with | .ok b => b | .error _ => false
    let w0 := match getNat o "w" with | .ok n => n | .error _ => 0
    pure (.mkT { kind := k, lang := lang, lemma := lem.toList, props := props, pe := gv "pe", n := gv "n",
                 g := gv "g", t := gv "t",
                 aux := (match o.getObjVal? "aux" with | .ok v => some (valOf v) | .error _ => none), gram0 := gv "gram0", ord := ord, warns := w0 })
  else if tag == "mkP" || tag == "mkD" then
    let k ← kindOf (← (← j.getArrVal? 1).getStr?)
    let lang ← langOf (← (← j.getArrVal? 2).getStr?)
    let args ← argsOf (← j.getArrVal? 3)
    pure (if tag == "mkP" then .mkP k lang args else .mkD k lang args)
  else if tag == "add" then
    let p ← (← j.getArrVal? 1).getNat?
    let a ← argOf (← j.getArrVal? 2)
    let pos := posOf (← j.getArrVal? 3)
    pure (.add p a pos)
  else if tag == "opt" then
    let x ← (← j.getArrVal? 1).getNat?
    let name ← (← j.getArrVal? 2).getStr?
    let v ← j.getArrVal? 3
    pure (.opt x name.toList (valOf v))
  else if tag == "typ" then
    let x ← (← j.getArrVal? 1).getNat?
    let a ← typArgOf (← j.getArrVal? 2)
    pure (.typ x a)
  else throw s!"unknown history op {tag}"

/-! ### the abstraction of a store (Appendix A of DESIGN: only the PARTITION by record identity is emitted) -/

def optNat : Option Nat → Json
  | none => .null
  | some n => toJson n

/-- the smallest handle that shares the record -/
def classRep (f : Nat → Option Nat) (n x : Nat) : Option Nat :=
  match f x with
  | none => none
  | some r => (List.range n).find? (fun y => f y == some r)

def precJson (c : PRec) : Json :=
  Json.mkObj ((match c.pe with | some v => [("pe", valJson v)] | none => []) ++
              (match c.n with | some v => [("n", valJson v)] | none => []) ++
              (match c.g with | some v => [("g", valJson v)] | none => []))

def trecJson (c : TRec) : Json :=
  Json.mkObj ((match c.t with | some v => [("t", valJson v)] | none => []) ++
              (match c.aux with | some v => [("aux", valJson v)] | none => []))

def snapJson (h : Heap) : Json :=
  let ids := List.range h.n
  let nodes := ids.map (fun x =>
    let nd := h.node x
    Json.mkObj [
      ("k", Json.str nd.kind.name),
      ("kids", natsJson nd.kids),
      ("term", optNat nd.term),
      ("par", optNat nd.parent),
      ("props", dictJson nd.props),
      ("typ", match nd.typ with | some d => dictJson d | none => .null),
      ("pc", optNat (classRep h.peng h.n x)),
      ("tc", optNat (classRep h.taux h.n x)),
      ("cod", optNat (h.cod x)),
      ("subj", match h.subject x with | none => Json.str "-" | some y => optNat y)])
  let recs := ids.filterMap (fun x =>
    match h.peng x with
    | some r => if classRep h.peng h.n x == some x then some (toString x, precJson (h.prec r)) else none
    | none => none)
  let trecs := ids.filterMap (fun x =>
    match h.taux x with
    | some r => if classRep h.taux h.n x == some x then some (toString x, trecJson (h.trec r)) else none
    | none => none)
  Json.mkObj [("nodes", Json.arr nodes.toArray), ("recs", Json.mkObj recs), ("trecs", Json.mkObj trecs),
              ("w", toJson h.warns)]

/-- run a history; after each op a snapshot -/
def histLoop : Heap → List Op → List Json → List Json × String
  | _, [], acc => (acc.reverse, "ok")
  | h, o :: os, acc =>
    match runOp h o with
    | .ok h' => histLoop h' os (snapJson h' :: acc)
    | .crash c => (acc.reverse, c.name)
    | .outside => (acc.reverse, "outside")

def histOp : Handler := fun j => do
  let a ← getArr j "ops"
  let ops ← a.toList.mapM opOf
  let (snaps, fin) := histLoop {} ops []
  pure (Json.mkObj [("snaps", Json.arr snaps.toArray), ("end", Json.str fin)])

/-! ### histories with `clone` and caller-owned argument objects (C13) -/

partial def argJson : Arg Item → Json
  | .none => .null
  | .item (.node x) => toJson x
  | .item .bad => Json.mkObj [("bad", toJson (1 : Nat))]
  | .list l => Json.arr (l.map argJson).toArray

def cellOf (j : Json) : Except String Cell :=
  match j.getObjVal? "dict" with
  | .ok d => do pure (.dict (← pairsOf d))
  | .error _ => do
    let l ← j.getObjVal? "list"
    let a ← argsOf l
    pure (.list a)

def cellJson : Cell → Json
  | .dict d => Json.mkObj [("dict", dictJson d)]
  | .list l => Json.mkObj [("list", Json.arr (l.map argJson).toArray)]

def copOf (j : Json) : Except String COp := do
  let tag ← (← j.getArrVal? 0).getStr?
  if tag == "clone" then
    pure (.clone (← (← j.getArrVal? 1).getNat?))
  else if tag == "cell" then
    pure (.newCell (← cellOf (← j.getArrVal? 1)))
  else if tag == "mut" then
    pure (.mutCell (← (← j.getArrVal? 1).getNat?) (← cellOf (← j.getArrVal? 2)))
  else if tag == "typC" then
    pure (.typC (← (← j.getArrVal? 1).getNat?) (← (← j.getArrVal? 2).getNat?))
  else if tag == "mkPC" then
    let k ← kindOf (← (← j.getArrVal? 1).getStr?)
    let lang ← langOf (← (← j.getArrVal? 2).getStr?)
    pure (.mkPC k lang (← (← j.getArrVal? 3).getNat?))
  else if tag == "addC" then
    pure (.addC (← (← j.getArrVal? 1).getNat?) (← (← j.getArrVal? 2).getNat?) (posOf (← j.getArrVal? 3)))
  else
    pure (.op (← opOf j))

/-- the plan of EVERY non-terminal node of the store mentions only nodes of its connected tree -/
def allPlansLocal (h : Heap) : Bool :=
  (List.range h.n).all (fun p =>
    match plan h p with
    | some acts => planLocal h p acts
    | none => true)

def worldJson (w : World) : Json :=
  match snapJson w.heap with
  | .obj kvs => Json.obj (kvs.insert "cells" (Json.arr (w.cells.map cellJson).toArray)
      |>.insert "loc" (Json.bool (allPlansLocal w.heap)))
  | j => j

def chistLoop : World → List COp → List Json → List Json × String
  | _, [], acc => (acc.reverse, "ok")
  | w, o :: os, acc =>
    match runCOp w o with
    | .ok w' => chistLoop w' os (worldJson w' :: acc)
    | .crash c => (acc.reverse, c.name)
    | .outside => (acc.reverse, "outside")

def chistOp : Handler := fun j => do
  let a ← getArr j "ops"
  let ops ← a.toList.mapM copOf
  let (snaps, fin) := chistLoop {} ops []
  pure (Json.mkObj [("snaps", Json.arr snaps.toArray), ("end", Json.str fin)])

/-! ### `_getElems` -/

instance : Inhabited (Arg Json) := ⟨.none⟩
partial def geArgOf (j : Json) : Arg Json :=
  match j with
  | .null => .none
  | .arr a => .list (a.toList.map geArgOf)
  | j => .item j

def geJson : List (Arg Json) → List Json
  | [] => []
  | .item j :: r => j :: geJson r
  | .none :: r => Json.null :: geJson r
  | .list _ :: r => Json.str "<list>" :: geJson r

def getElemsOp : Handler := fun j => do
  let a ← getArr j "arg"
  let es := a.toList.map geArgOf
  pure (Json.mkObj [("res", Json.arr (geJson (getElems es)).toArray)])

/-! ### `typ` calls and readers -/

def idioms : List (String × Idiom) := [("neFalse", .neFalse), ("eqTrue", .eqTrue), ("isNotFalse", .isNotFalse),
  ("isTrue", .isTrue), ("truthy", .truthy), ("getTruthy", .getTruthy), ("guardedValue", .guardedValue),
  ("inOnly", .inOnly), ("getRaw", .getRaw), ("unguarded", .unguarded)]

def readJson : Typ.Read → Json
  | .cond b => .bool b
  | .val v => Json.arr #[valJson v]
  | .skipped => Json.str "skipped"
  | .keyError => Json.str "KeyError"

def typCallsLoop (lang : Lang) (ok : Bool) : Option Dict → List Typ.Arg → List Json → List Json × Option Dict
  | st, [], acc => (acc.reverse, st)
  | st, a :: as, acc =>
    let r := Typ.typ lang ok st a
    let j := Json.mkObj [("w", toJson r.warns),
      ("caller", match r.caller with | some d => dictJson d | none => .null),
      ("stored", match r.stored with | some d => dictJson d | none => .null)]
    typCallsLoop lang ok r.stored as (j :: acc)

def typOpH : Handler := fun j => do
  let lang ← langOf (← getStr j "lang")
  let k ← kindOf (← getStr j "recv")
  let calls ← getArr j "calls"
  let args ← calls.toList.mapM typArgOf
  let (res, st) := typCallsLoop lang (typReceiverOk k) none args []
  let keys := Gen.TypConsts.allowedTypes.map (·.1)
  let reads := idioms.map (fun (nm, i) =>
    (nm, Json.arr (keys.map (fun key => readJson (Typ.read i (st.getD []) key))).toArray))
  pure (Json.mkObj [("calls", Json.arr res.toArray), ("reads", Json.mkObj reads)])

def sitesOp : Handler := fun _ =>
  pure (Json.mkObj [("n", toJson Gen.TypConsts.readerSites.length),
    ("bad", Json.arr ((Gen.TypConsts.readerSites.filter (fun st => !Typ.falseEqAbsent st.idiom)).map
      (fun st => Json.str s!"{st.file}:{st.func}:{st.key}")).toArray)])

def ops : List (String × Handler) :=
  [("hist", histOp), ("chist", chistOp), ("getelems", getElemsOp), ("typ", typOpH), ("sites", sitesOp)]

end Pyrealb.Driver.TreeOps
