import Pyrealb.Driver.Proto
import Pyrealb.Model.ClauseEnSurf
/-! JSON handlers of the English clause model: op `clause`
  {"op":"clause","notation":"phrase"|"dep","spec":{"subj":Arg,"verb":{"lemma":..,"forms":{b,p,ps,pp,pr}},"t":..,
   "obj":Arg|null,"pps":[{"prep":..,"arg":Arg}]},"typ":{neg,pas,perf,prog,contr,exc,mod,int}}
  Arg = {"k":"np","id":n,"n":"s"|"p","g":"m|f|n|x","words":[det,noun]} | {"k":"pro","pe":1..3,"n":..,"g":..}
  answer {"toks":[..],"text":..,"w":n,"sym":[..]} or {"err":"AttributeError"}; op `contract`: {"toks":[..]} -/
namespace Pyrealb.Driver.ClauseOps
open Lean Pyrealb Pyrealb.Driver Pyrealb.ClauseEn

def numOf (x : String) : Num := if x == "p" then .p else .s
def genderOf (x : String) : Gender := if x == "m" then .m else if x == "f" then .f else if x == "x" then .x else .n
def peOf (n : Nat) : Pe := if n == 1 then .p1 else if n == 2 then .p2 else .p3

def tenseOf (x : String) : Except String Tense :=
  if x == "p" then .ok .p else if x == "ps" then .ok .ps else if x == "f" then .ok .f else if x == "c" then .ok .c
  else .error s!"tense {x} outside the fragment"

def modOf (x : String) : Except String Mod :=
  match [Mod.poss, .perm, .nece, .obli, .will].find? (fun m => m.name == x) with
  | some m => .ok m
  | none => .error s!"mod {x}"

def intOf (x : String) : Except String ClauseEn.Int :=
  match [ClauseEn.Int.yon, .wos, .wod, .woi, .was, .wad, .wai, .whe, .why, .whn, .how, .muc, .tag].find? (fun m => m.name == x) with
  | some m => .ok m
  | none => .error s!"int {x}"

def flag (j : Json) (k : String) : Bool :=
  match j.getObjVal? k with
  | .ok (.bool b) => b
  | _ => false

def typOf (j : Json) : Except String Typ := do
  let m ← match getStrOpt j "mod" with | some x => (modOf x).map some | none => pure none
  let i ← match getStrOpt j "int" with | some x => (intOf x).map some | none => pure none
  pure { neg := flag j "neg", pas := flag j "pas", perf := flag j "perf", prog := flag j "prog",
         contr := flag j "contr", exc := flag j "exc", mod := m, int := i }

/-- an argument and, for a noun phrase, its words -/
def argOf (j : Json) : Except String (Arg × Option (Nat × List Str)) := do
  let k ← getStr j "k"
  let n := numOf ((getStrOpt j "n").getD "s")
  let g := genderOf ((getStrOpt j "g").getD "n")
  if k == "np" then
    let id ← getNat j "id"
    let ws ← getStrList j "words"
    pure (.np ⟨id, n, g⟩, some (id, ws.map s))
  else
    let pe ← getNat j "pe"
    pure (.pro ⟨peOf pe, n, g⟩, none)

def optStr (j : Json) (k : String) : Option Str := (getStrOpt j k).map s

def sixOf (j : Json) (k : String) : Option (List (Option Str)) :=
  match j.getObjVal? k with
  | .ok (.arr a) => some (a.toList.map (fun x => match x with | .str v => some (s v) | _ => none))
  | .ok (.str v) => some (List.replicate 6 (some (s v)))
  | _ => none

def paradigmOfJson (j : Json) : Paradigm :=
  { b := optStr j "b", p := sixOf j "p", ps := sixOf j "ps", pp := optStr j "pp", pr := optStr j "pr" }

def tokSym (t : Tok) : String :=
  match t with
  | .verb l f (.fixed a) => s!"V:{l.name}:{f.name}:{a.pe.str}{a.n.str}"
  | .verb l f .shared => s!"V:{l.name}:{f.name}:shared"
  | .cannot => "Q:cannot" | .not_ => "Adv:not" | .to_ => "P:to"
  | .q x => "Q:" ++ x.str | .prep p => "P:" ++ p.str
  | .arg (.np a) => s!"NP:{a.id}"
  | .arg (.proI a) => s!"Pro:I:{a.pe.str}{a.n.str}{a.g.str}"
  | .arg (.proMe a) => s!"Pro:me:{a.pe.str}{a.n.str}{a.g.str}"
  | .arg (.proTonic a) => s!"Pro:me-tn:{a.pe.str}{a.n.str}{a.g.str}"
  | .arg (.proNom a) => s!"Pro:nom:{a.pe.str}{a.n.str}{a.g.str}"
  | .arg .it => "Pro:it"
  | .arg (.proOfNP a) => s!"Pro:of-NP:{a.id}"

def clauseOp : Handler := fun j => do
  let nota ← getStr j "notation"
  let spec ← j.getObjVal? "spec"
  let typ ← typOf (← j.getObjVal? "typ")
  let (subj, sw) ← argOf (← spec.getObjVal? "subj")
  let vj ← spec.getObjVal? "verb"
  let lemma ← getStr vj "lemma"
  let forms ← vj.getObjVal? "forms"
  let t ← tenseOf (← getStr spec "t")
  let (obj, ow) ← match getOpt spec "obj" with
    | some o => do let (a, w) ← argOf o; pure (some a, w)
    | none => pure (none, none)
  let ppsJ ← getArr spec "pps"
  let pps ← ppsJ.toList.mapM (fun pj => do
    let prep ← getStr pj "prep"
    let (a, w) ← argOf (← pj.getObjVal? "arg")
    match a with
    | .np na => pure ((s prep, na), w)
    | _ => .error "pp argument must be a noun phrase")
  let words : List (Nat × List Str) := ([sw, ow] ++ pps.map (·.2)).filterMap id
  let env : Env := { mainLemma := s lemma, main := paradigmOfJson forms,
                     npWords := fun id => (words.lookup id).getD [] }
  let sp : Spec := { subj := subj, verb := VLemma.ofString lemma, t := t, obj := obj, pps := pps.map (·.1) }
  let res := if nota == "dep" then realizeDep sp typ else realizePhrase sp typ
  match res with
  | .error c => pure (Json.mkObj [("err", Json.str c.name)])
  | .ok out =>
    let (toks, w) := renderToks env genContrTable typ out
    pure (Json.mkObj [("toks", Json.arr (toks.map strJson).toArray), ("text", strJson (detokenize toks)),
                      ("w", toJson w), ("sym", Json.arr ((out.flat.map (fun t => Json.str (tokSym t))).toArray))])

/-- the contraction pass alone, on arbitrary tokens -/
def contractOp : Handler := fun j => do
  let ts ← getStrList j "toks"
  pure (Json.mkObj [("toks", Json.arr ((contract genContrTable (ts.map s)).map strJson).toArray)])

def ops : List (String × Handler) := [("clause", clauseOp), ("contract", contractOp)]

end Pyrealb.Driver.ClauseOps
