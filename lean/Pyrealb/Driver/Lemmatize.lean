import Pyrealb.Driver.Proto
import Pyrealb.Driver.Conj
import Pyrealb.Model.LemmatizeWF
/-! Line-protocol handlers of the lemmatization family (`drv_lemmatize`, property C18).

* `expand`  one lexicon entry with everything `buildLemmataMap` and the realizer read of it:
            `{"op":"expand","lang":"fr","lemma":"aller",
              "entry":[["V",[["aux","êt"],["tab","v137"],["pat",null]]],["ldv",null]],   // keys in file order; null = not a dict
              "V":{"tab":…,"aux":…,"pat":[…],"h":0}|null,  "frV":{…}|null}`          // lexicon[lemma]["V"], French lexicon's
            ↦ `{"pairs":[[form,pos,[[opt,val],…],real],…],"derivable":[form,…],"wf":{…}}` or `{"err":"KeyError"}`;
            `real` = the model's realization of the expression: `text`, `text\tWARNINGS` or `!Exception`;
            `derivable` = the forms the entry can take according to its tables (spec side of `expand_complete`);
            `wf` = the decidable hypotheses of the C18 theorems evaluated on this entry.
* `wf`      same line: only `{"wf":[…]}` — the decidable hypotheses of the C18 theorems on this entry
* `tbl-witness`  the (language, pos, table) triples on which `distinct_rows_tbl` / `conj_wf_tbl` fail.

The tables are the GENERATED ones (`Gen.ConjEn/ConjFr/DeclEn/DeclFr`), i.e. what /repo holds at this run. -/
namespace Pyrealb.Driver.LemmatizeOps
open Lean Pyrealb Pyrealb.Driver Pyrealb.Lemmatize


/-! parsers of lexicon entries (same wire format as `drv_decl`: arrays of pairs keep the key order) -/

def rulesOf : Decl.Lang → Decl.Rules
  | .en => Gen.DeclEn.tables
  | .fr => Gen.DeclFr.tables

def parseLang (x : String) : Except String Decl.Lang :=
  if x = "en" then pure .en else if x = "fr" then pure .fr else throw s!"bad lang {x}"

def parseLV : Json → Decl.LV
  | .str x => .str x.toList
  | j => match j.getInt? with
    | .ok i => (match j with | .num _ => .int i | _ => .other)
    | .error _ => .other

def pair (j : Json) : Except String (Json × Json) := do
  let a ← j.getArr?
  if h : a.size = 2 then pure (a[0], a[1]) else throw "pair expected"

def parsePosEntry (j : Json) : Except String Decl.PosEntry := do
  let a ← j.getArr?
  a.toList.mapM (fun kv => do
    let (k, v) ← pair kv
    let ks ← k.getStr?
    pure (ks.toList, parseLV v))

def envOf (lang : Decl.Lang) : Env :=
  { lang := lang
    conj := match lang with | .en => Gen.ConjEn.tables | .fr => Gen.ConjFr.tables
    decl := rulesOf lang
    en := ConjOps.enEnv
    fr := ConjOps.frEnv }

def parseVerb (lemma : String) (j : Json) (k : String) : Except String (Option Conj.Verb) :=
  match getOpt j k with
  | none => pure none
  | some v => ConjOps.parseEntry lemma (Json.mkObj [("entry", v)])

def parseEVal : Json → Except String EVal
  | .null => pure .scalar
  | j => do
    let e ← parsePosEntry j
    pure (.dict e)

def parseEntryList (j : Json) : Except String (List (Str × EVal)) := do
  let a ← j.getArr?
  a.toList.mapM (fun kv => do
    let (k, v) ← pair kv
    let ks ← k.getStr?
    let ev ← parseEVal v
    pure (ks.toList, ev))

def ovJson : Decl.OV → Json
  | .str v => strJson v
  | .int i => toJson i
  | .none => Json.null
  | .bool b => Json.bool b

def realStr : Except Crash (Str × Nat) → String
  | .ok (t, w) => if w == 0 then String.ofList t else String.ofList t ++ "\t" ++ toString w
  | .error e => "!" ++ e.name

def lexOfEntry (lemma : Str) (entry : List (Str × EVal)) : Decl.Lex :=
  [(lemma, entry.filterMap (fun (k, v) => match v with
    | .dict e => some (k, e)
    | .scalar => none))]

def expandOp : Handler := fun j => do
  let lang ← parseLang (← getStr j "lang")
  let lemmaS ← getStr j "lemma"
  let lemma := lemmaS.toList
  let entry ← parseEntryList (← j.getObjVal? "entry")
  let verb ← parseVerb lemmaS j "V"
  let frV ← parseVerb lemmaS j "frV"
  let env := envOf lang
  let lex := lexOfEntry lemma entry
  match expandEntry lang env.conj env.decl lemma frV entry with
  | .error c => pure (Json.mkObj [("err", Json.str c.name)])
  | .ok pairs =>
    let pj := pairs.map (fun (p : Pair) =>
      Json.arr #[strJson p.1, strJson p.2.pos,
                 Json.arr (p.2.opts.map (fun o => Json.arr #[strJson o.1, ovJson o.2])).toArray,
                 Json.str (realStr (realizeExp env lex verb p.2))])
    let der := derivableEntry env lex lemma verb entry
    let wf := entryWF lang env.conj env.decl lex lemma verb entry
    pure (Json.mkObj [("pairs", Json.arr pj.toArray),
                      ("derivable", Json.arr (der.map (fun (d : Str × Str) => Json.arr #[strJson d.1, strJson d.2])).toArray),
                      ("wf", Json.arr (wf.map Json.str).toArray)])

/-- the hypotheses of the theorems only (cheap: every lexicon entry of both languages on every run, quick tier too) -/
def wfOp : Handler := fun j => do
  let lang ← parseLang (← getStr j "lang")
  let lemmaS ← getStr j "lemma"
  let lemma := lemmaS.toList
  let entry ← parseEntryList (← j.getObjVal? "entry")
  let verb ← parseVerb lemmaS j "V"
  let env := envOf lang
  let wf := entryWF lang env.conj env.decl (lexOfEntry lemma entry) lemma verb entry
  pure (Json.mkObj [("wf", Json.arr (wf.map Json.str).toArray)])

def witnessOp : Handler := fun _ => do
  pure (Json.mkObj [("bad", Json.arr (tblWitnesses.map Json.str).toArray)])

def ops : List (String × Handler) := [("expand", expandOp), ("wf", wfOp), ("tbl-witness", witnessOp)]

end Pyrealb.Driver.LemmatizeOps
