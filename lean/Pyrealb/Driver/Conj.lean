import Pyrealb.Driver.Proto
import Pyrealb.Model.ConjWF
import Pyrealb.Gen.ConjEn
import Pyrealb.Gen.ConjFr
/-! Line-protocol handlers of the conjugation family (C01, C18).

* `conj`   one form:  `{"op":"conj","lang":"fr","lemma":"finir","entry":{"tab":"v58","aux":"av","pat":["tdir"],"h":0}|null,
                       "t":"pc","pe":2,"n":"p","g":"f","aux":null|"êt"}` ↦ `{"r":"avez fini","w":0}` / `{"err":"KeyError"}`
* `sweep`  every form of one verb in the order `ts × pes × ns × gs × auxs` (the lists are given in the line) ↦
           `{"wf":true,"why":"ok","forms":"…"}`; forms separated by `\n`, each `text`, `text\tWARNINGS` or `!Exception`
* `tables` the generated tables of one language re-serialised (compared by the harness with rules-*.json)

The tables are the GENERATED ones (`Gen.ConjEn.tables`, `Gen.ConjFr.tables`), i.e. what /repo holds at this run. -/
namespace Pyrealb.Driver.ConjOps
open Lean Pyrealb Pyrealb.Driver Pyrealb.Conj

def enEnv : ConjEn.EnEnv := { will := Gen.ConjEn.will, have_ := Gen.ConjEn.have_ }
def frEnv : ConjFr.FrEnv :=
  { avoir := Gen.ConjFr.avoir, etre := Gen.ConjFr.etre, reflPro := ConjFr.reflProFr, tonicPro := ConjFr.tonicProFr }

def parseEntry (lemma : String) (j : Json) : Except String (Option Verb) :=
  match getOpt j "entry" with
  | none => pure none
  | some e => do
    let tab ← getStr e "tab"
    let aux := (getStrOpt e "aux").map String.toList
    let pat ← match getOpt e "pat" with
      | none => pure none
      | some _ => do
        let l ← getStrList e "pat"
        pure (some (l.map String.toList))
    let h := match getOpt e "h" with
      | some (Json.num n) => n.mantissa == 1 && n.exponent == 0
      | _ => false
    pure (some { lemma := lemma.toList, tab := tab.toList, aux := aux, pat := pat, hAsp := h })

def parsePe (n : Nat) : Except String Person :=
  match n with
  | 1 => pure .p1 | 2 => pure .p2 | 3 => pure .p3
  | _ => throw s!"bad person {n}"
def parseN (x : String) : Except String Num :=
  if x == "s" then pure .s else if x == "p" then pure .p else throw s!"bad number {x}"
def parseG (x : String) : Except String Gender :=
  if x == "m" then pure .m else if x == "f" then pure .f else throw s!"bad gender {x}"
def parseT (x : String) : Except String Tense :=
  match Tense.ofCode? x.toList with
  | some t => pure t
  | none => throw s!"bad tense {x}"

def one (lang : String) (lemma : String) (entry : Option Verb) (auxOpt : Option Str) (pe : Person) (n : Num)
    (g : Gender) (t : Tense) : Except Crash Real :=
  if lang == "en" then ConjEn.realize Gen.ConjEn.tables enEnv lemma.toList entry pe n t
  else ConjFr.realize Gen.ConjFr.tables frEnv lemma.toList entry auxOpt pe n g t

def conjOp : Handler := fun j => do
  let lang ← getStr j "lang"
  let lemma ← getStr j "lemma"
  let entry ← parseEntry lemma j
  let t ← (getStr j "t") >>= parseT
  let pe ← (getNat j "pe") >>= parsePe
  let n ← (getStr j "n") >>= parseN
  let g ← (getStr j "g") >>= parseG
  let auxOpt := (getStrOpt j "aux").map String.toList
  match one lang lemma entry auxOpt pe n g t with
  | .ok r => pure (Json.mkObj [("r", strJson r.text), ("w", toJson r.warns)])
  | .error e => pure (Json.mkObj [("err", Json.str e.name)])

def formStr : Except Crash Real → String
  | .ok r => if r.warns == 0 then String.ofList r.text else String.ofList r.text ++ "\t" ++ toString r.warns
  | .error e => "!" ++ e.name

def sweepOp : Handler := fun j => do
  let lang ← getStr j "lang"
  let lemma ← getStr j "lemma"
  let entry ← parseEntry lemma j
  let ts ← (getStrList j "ts") >>= (·.mapM parseT)
  let pes ← (getNatList j "pes") >>= (·.mapM parsePe)
  let ns ← (getStrList j "ns") >>= (·.mapM parseN)
  let gs ← (getStrList j "gs") >>= (·.mapM parseG)
  let auxsJ ← getArr j "auxs"
  let auxs : List (Option Str) := auxsJ.toList.map (fun a => match a with
    | Json.str x => some x.toList
    | _ => none)
  let mut acc : Array String := #[]
  for t in ts do
    for pe in pes do
      for n in ns do
        for g in gs do
          for a in auxs do
            acc := acc.push (formStr (one lang lemma entry a pe n g t))
  let (wf, why) := match entry with
    | none => (false, "not-in-lexicon")
    | some v =>
      if lang == "en" then (wfVerbEn Gen.ConjEn.tables v, wfReason wfTableEn Gen.ConjEn.tables v)
      else (wfVerbFr Gen.ConjFr.tables v, wfReason wfTableFr Gen.ConjFr.tables v)
  pure (Json.mkObj [("wf", Json.bool wf), ("why", Json.str why), ("forms", Json.str ("\n".intercalate acc.toList))])

def rowJson : Row → Json
  | .null => Json.null
  | .str x => strJson x
  | .list l => Json.arr (l.map (fun c => match c with
      | some x => strJson x
      | none => Json.null)).toArray

def tablesOp : Handler := fun j => do
  let lang ← getStr j "lang"
  let tbs := if lang == "en" then Gen.ConjEn.tables else Gen.ConjFr.tables
  let used := if lang == "en" then Gen.ConjEn.used else Gen.ConjFr.used
  -- arrays of pairs keep the order (a JSON object would be re-sorted by the serializer)
  let tj := tbs.map (fun (p : Str × Table) => Json.arr #[strJson p.1, Json.mkObj [
      ("keys", Json.arr (p.2.keys.map strJson).toArray),
      ("ending", strJson p.2.ending),
      ("rows", Json.arr (p.2.rows.map (fun (kr : Str × Row) => Json.arr #[strJson kr.1, rowJson kr.2])).toArray)]])
  pure (Json.mkObj [("tables", Json.arr tj.toArray), ("used", Json.arr (used.map strJson).toArray)])

def ops : List (String × Handler) := [("conj", conjOp), ("sweep", sweepOp), ("tables", tablesOp)]

end Pyrealb.Driver.ConjOps
