import Pyrealb.Driver.Proto
import Pyrealb.Model.Total
namespace Pyrealb.Driver.TotalOps
open Lean Pyrealb.Driver Pyrealb.Total Pyrealb.Gen.OptionTable

def litOf (j : Json) : Except String (Option Lit) :=
  match j with
  | .null => pure none
  | .str x => pure (some (.str x))
  | .bool b => pure (some (.bool b))
  | .num _ => match j.getInt? with
    | .ok i => pure (some (.int i))
    | .error e => throw e
  | _ => throw "unsupported literal"

def outcomeStr : OptOutcome → String
  | .set _ => "set"
  | .setTrue => "setTrue"
  | .warnNoValue => "warnNoValue"
  | .warnIgnoredKeep => "warnIgnoredKeep"
  | .warnIgnoredFalse => "warnIgnoredFalse"
  | .warnBadConst => "warnBadConst"
  | .propagate => "propagate"

def optionOp : Handler := fun j => do
  let name ← getStr j "name"
  let ct ← getStr j "ct"
  let v ← litOf ((j.getObjVal? "val").toOption.getD Json.null)
  match options.find? (·.name = name) with
  | none => throw s!"unknown option {name}"
  | some o => pure (Json.mkObj [("outcome", Json.str (outcomeStr (applyOption o ct v))), ("prop", Json.str o.prop)])

def tableOp : Handler := fun _ =>
  pure (Json.mkObj [("options", Json.arr (options.map (fun o => Json.str o.name)).toArray)])

def ops : List (String × Handler) := [("option", optionOp), ("options", tableOp)]
end Pyrealb.Driver.TotalOps
