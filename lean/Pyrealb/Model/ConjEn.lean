import Pyrealb.Model.ConjSurface
/-! # `TerminalEn.conjugate` (src/pyrealb/TerminalEn.py:75-132) for a verb realized alone

`V(lemma).t(t).pe(pe).n(n).realize()` with the current language English.  Mirrors the code branch for branch, as
repaired by /repo commits 6d8d05f (perfect infinitive uses the participle) and 2945467 (past subjunctive of a verb
without a `ps` row is defective).

The auxiliaries `will`, `have` are realized by a nested `V(aux).realize()` (`insertReal`); their lexicon entries
are parameters (`EnEnv`).  The nested call only ever uses the tenses `p`, `ps`, `b`, which do not recurse: the
recursion of the Python method is unrolled once (`conjugateWith` takes the realizer of nested verbs as a
parameter; the inner instance gets a realizer that is never called — see `ConjEn.conjugate`). -/
namespace Pyrealb.ConjEn
open Pyrealb Pyrealb.Conj

/-- lexicon entries of the verbs that `conjugate` builds itself (`none` = not in the lexicon) -/
structure EnEnv where
  will : Option Verb
  have_ : Option Verb
  deriving DecidableEq, Repr

/-- result of the Python method: `res` = `pre ++ [self]`; `self` carries `self.realization` -/
structure EnOut where
  /-- realizations of the terminals inserted before the verb, in list order -/
  pre : List Str
  /-- `self.realization` -/
  self : Str
  warns : Nat
  deriving DecidableEq, Repr

def EnOut.toks (o : EnOut) : List Tok := o.pre.map (fun r => ({ real := r } : Tok)) ++ [{ real := o.self, isV := true }]

def morpho (st : VState) (w : Nat) : EnOut := { pre := [], self := bracket st.lemma, warns := w + 1 }

/-- `insertReal(res, V(aux)[.t(ta)], 0)`: construct, `realize()` (result discarded, crashes and warnings are not),
    the inserted terminal keeps `newTerminal.realization` -/
abbrev Nested := Option Verb → Str → Tense → Except Crash (Str × Nat)

/-- the participle slot of `bp`/`bp-to` (lines 121-124): `(self.realization, warnings)` -/
def participle (tb : Table) (st : VState) : Except Crash (Str × Nat) :=
  match (if tb.hasT then tb.row? (s "pp") else none) with
  | none | some .null => .ok (bracket st.lemma, 1)
  | some row =>
    match row.concat st.stem with
    | .error e => .error e
    | .ok r => .ok (r, 0)

/-- the body of `conjugate`; `w` = warnings so far -/
def conjugateWith (nested : Nested) (rules : Rules) (env : EnEnv) (st : VState) (pe : Person) (n : Num)
    (t : Tense) : Except Crash EnOut :=
  let w := st.warns
  match st.tab with
  | none => .ok (morpho st w)                                          -- "No conjugation table found"
  | some tab =>
    match lookup tab rules with
    | none => .error .keyError                                         -- getRules(...)["conjugation"][self.tab]
    | some tb =>
      if tb.hasRow t.code then
        match tb.row? t.code with
        | none => .error .keyError                                     -- unreachable (hasRow)
        | some row =>
          match t with
          | .p | .ps | .s | .si =>
            match row with
            | .str x => .ok { pre := [], self := st.stem ++ x, warns := w }
            | _ =>
              match row.at (idx6 pe n) with
              | .error e => .error e
              | .ok none => .ok (morpho st w)                          -- "Cannot conjugate at these tense and person"
              | .ok (some term) =>
                -- `if t == "s" and pe == 3: term = conjugation[0]`
                if t = .s ∧ pe = .p3 then
                  match row.at 0 with
                  | .error e => .error e
                  | .ok none => .error .typeError                      -- stem + None
                  | .ok (some term0) => .ok { pre := [], self := st.stem ++ term0, warns := w }
                else .ok { pre := [], self := st.stem ++ term, warns := w }
          | .b | .pp | .pr =>
            match row.concat st.stem with
            | .error e => .error e
            | .ok r => .ok { pre := [], self := r, warns := w }
          | _ => .error .attributeError   -- no branch assigns `self.realization`: `None.startswith` in detokenize
      else
        match t with
        | .s => .ok { pre := [], self := st.lemma, warns := w }
        | .si =>
          if st.lemma = s "be" then .ok { pre := [], self := s "were", warns := w }
          else
            -- `ps = conjugationTable["t"].get("ps") if "t" in conjugationTable else None`
            match (if tb.hasT then tb.row? (s "ps") else none) with
            | none | some .null => .ok (morpho st w)                   -- "Cannot conjugate at these tense and person"
            | some (.str x) => .ok { pre := [], self := st.stem ++ x, warns := w }
            | some (.list l) =>
              -- `if isinstance(ps, list): ps = ps[pe - 1 + (3 if n == "p" else 0)]`
              match (Row.list l).at (idx6 pe n) with
              | .error e => .error e
              | .ok none => .ok (morpho st w)
              | .ok (some x) => .ok { pre := [], self := st.stem ++ x, warns := w }
        | .f =>
          match nested env.will (s "will") .p with
          | .error e => .error e
          | .ok (r, w') => .ok { pre := [r], self := st.lemma, warns := w + w' }
        | .c =>
          match nested env.will (s "will") .ps with
          | .error e => .error e
          | .ok (r, w') => .ok { pre := [r], self := st.lemma, warns := w + w' }
        | .bp | .bpTo =>
          -- `if "t" in conjugationTable and conjugationTable["t"].get("pp") is not None: stem + pp`
          -- `else: self.morphoError(...)` (in place: the auxiliary is still inserted)
          match participle tb st with
          | .error e => .error e
          | .ok (pp, wpp) =>
            match nested env.have_ (s "have") .b with
            | .error e => .error e
            | .ok (r, w') =>
              if t = .bpTo then .ok { pre := [s "to", r], self := pp, warns := w + w' + wpp }
              else .ok { pre := [r], self := pp, warns := w + w' + wpp }
        | .bTo => .ok { pre := [s "to"], self := st.lemma, warns := w }
        | .ip =>
          if pe = .p1 ∧ n = .p then .ok { pre := [s "let's"], self := st.lemma, warns := w }
          else .ok { pre := [], self := st.lemma, warns := w }
        | _ => .ok (morpho st w)                                       -- "Unrecognized tense"

/-- a nested realizer that is never reached (the nested tenses `p`, `ps`, `b` insert nothing) -/
def noNested : Nested := fun _ _ _ => .error .other

/-- `V(aux).t(ta).realize()` inside `insertReal`: default person 3, number `s` -/
def nestedReal (rules : Rules) (env : EnEnv) : Nested := fun entry lemma ta =>
  match conjugateWith noNested rules env (setLemma rules lemma entry) .p3 .s ta with
  | .error e => .error e
  | .ok o => .ok (o.self, o.warns)

/-- `TerminalEn.conjugate` of `V(lemma)` constructed from lexicon entry `entry` -/
def conjugate (rules : Rules) (env : EnEnv) (lemma : Str) (entry : Option Verb) (pe : Person) (n : Num)
    (t : Tense) : Except Crash EnOut :=
  conjugateWith (nestedReal rules env) rules env (setLemma rules lemma entry) pe n t

/-- `V(lemma).t(t).pe(pe).n(n).realize()` -/
def realize (rules : Rules) (env : EnEnv) (lemma : Str) (entry : Option Verb) (pe : Person) (n : Num)
    (t : Tense) : Except Crash Real :=
  match conjugate rules env lemma entry pe n t with
  | .error e => .error e
  | .ok o => .ok { text := surfaceEn o.toks, warns := o.warns }

end Pyrealb.ConjEn
