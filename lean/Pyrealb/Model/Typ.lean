import Pyrealb.Model.HeapVal
import Pyrealb.Gen.TypConsts
/-! Model of `Constituent.typ` (src/pyrealb/Constituent.py:245-278), of `validate_neg_option`
    (ConstituentEn.py:29, ConstituentFr.py:35) and of the READER idioms of a flag (inventory: `Gen/TypConsts`).

`typ` validates a COPY of the caller's dict (`types=dict(types)`, since the fix of DESIGN §9 #5; before it the caller's
dict itself was pruned and stored): `del types[key]` for an illegal value; a value that passes `val in allowedTypes[key]`
without being a bool or a str (0, 1) is replaced by the boolean it equals; an unknown key only warns and STAYS in the dict; the copy is then stored (`self.props["typ"] = types`) or merged into the stored one
(`self.props["typ"].update(types)`).  The content of the stored map and of the caller's dict after the call (now:
unchanged) are modelled. -/
namespace Pyrealb.Typ
open Pyrealb Pyrealb.Gen.TypConsts

inductive Lang where
  | en | fr
  deriving DecidableEq, Repr, Inhabited

def negKey : Str := ['n','e','g']

/-- does the entry `key: val` survive the validation loop?  (an unknown key survives: it is only warned about) -/
def entryKept (lang : Lang) (key : Str) (val : Val) : Bool :=
  match lookup key allowedTypes with
  | none => true
  | some allowed =>
    if key = negKey ∧ lang = .fr then val.isStr || val.isBool     -- validate_neg_option returns True: no `elif`
    else val.pyIn allowed

/-- does the entry produce a warning? -/
def entryWarns (lang : Lang) (key : Str) (val : Val) : Bool :=
  match lookup key allowedTypes with
  | none => true
  | some _ => !entryKept lang key val

/-- one iteration of `for key,val in types.copy().items()` on the live dict `cur` -/
def validateStep (lang : Lang) (acc : Dict × Nat) (kv : Str × Val) : Dict × Nat :=
  match lookup kv.1 allowedTypes with
  | none => (acc.1, acc.2 + 1)                                   -- warn "unknown type"; key NOT deleted
  | some allowed =>
    if kv.1 = negKey ∧ lang = .fr then
      if !(kv.2.isStr || kv.2.isBool) then (Dict.del acc.1 kv.1, acc.2 + 1) else acc
    else if !(kv.2.pyIn allowed) then (Dict.del acc.1 kv.1, acc.2 + 1)
    -- `elif not isinstance(val,(bool,str)): types[key]=bool(val)` (6301216): 0 / 1 given for False / True
    else if !(kv.2.isBool || kv.2.isStr) then (Dict.set acc.1 kv.1 (.b kv.2.truthy), acc.2)
    else acc

/-- the validation loop: the caller's dict afterwards and the number of warnings -/
def validate (lang : Lang) (types : Dict) : Dict × Nat :=
  types.foldl (validateStep lang) (types, 0)

/-- the argument of `.typ(…)` -/
inductive Arg where
  | dict (d : Dict)
  | notDict
  deriving Repr

structure Res where
  stored : Option Dict      -- `self.props["typ"]` (`none`: key absent from props)
  caller : Option Dict      -- the caller's dict after the call (`none`: the argument was not a dict)
  warns : Nat
  deriving Repr

/-- `self.typ(types)`; `receiverOk = self.isA("S","SP","VP",*deprels)` -/
def typ (lang : Lang) (receiverOk : Bool) (stored : Option Dict) : Arg → Res
  | .notDict => { stored := stored, caller := none, warns := 1 }
  | .dict types =>
    if !receiverOk then { stored := stored, caller := some types, warns := 1 }
    else
      let (types', w) := validate lang types
      match stored with
      | some st => { stored := some (Dict.update st types'), caller := some types, warns := w }
      | none => { stored := some types', caller := some types, warns := w }

/-- successive `.typ` calls on one receiver: stored map and total number of warnings -/
def run (lang : Lang) (receiverOk : Bool) : Option Dict → List Arg → Option Dict × Nat
  | st, [] => (st, 0)
  | st, a :: as =>
    let r := typ lang receiverOk st a
    let (st', w) := run lang receiverOk r.stored as
    (st', r.warns + w)

/-! ### readers -/

/-- what a reader expression evaluates to -/
inductive Read where
  | cond (b : Bool)           -- used as a condition
  | val (v : Val)             -- the value of the flag
  | skipped                   -- the guarded expression is not evaluated
  | keyError
  deriving DecidableEq, Repr

/-- evaluation of one reader idiom on dictionary `T` and flag `K` -/
def read (i : Idiom) (T : Dict) (K : Str) : Read :=
  match i, lookup K T with
  | .neFalse, some v => .cond (!(v.pyEq (.b false)))
  | .neFalse, none => .cond false
  | .eqTrue, some v => .cond (v.pyEq (.b true))
  | .eqTrue, none => .cond false
  | .isNotFalse, some v => .cond (!v.isFalse)
  | .isNotFalse, none => .cond false
  | .isTrue, some v => .cond v.isTrue
  | .isTrue, none => .cond false
  | .truthy, some v => .cond v.truthy
  | .truthy, none => .cond false
  | .getTruthy, some v => .cond v.truthy
  | .getTruthy, none => .cond false
  | .guardedValue, some v => if v.isFalse then .skipped else .val v    -- weakest of the guards above
  | .guardedValue, none => .skipped
  | .inOnly, some _ => .cond true
  | .inOnly, none => .cond false
  | .getRaw, some v => .val v
  | .getRaw, none => .val .none
  | .unguarded, some v => .val v
  | .unguarded, none => .keyError

/-- the idioms that cannot tell `False` from an absent key -/
def falseEqAbsent : Idiom → Bool
  | .neFalse | .eqTrue | .isNotFalse | .isTrue | .truthy | .getTruthy | .guardedValue => true
  | .inOnly | .getRaw | .unguarded => false

end Pyrealb.Typ
