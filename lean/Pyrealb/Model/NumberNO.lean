import Pyrealb.Model.Number
/-! Model of the `NO` terminal (src/pyrealb/Terminal.py:52-91 lemma parsing, 162-170 + TerminalEn.py:12-18 +
TerminalFr.py:9-13 `grammaticalNumber`, 337-367 `numberFormatter` / `numberToWord` / `numberToOrdinal` /
`numberToRoman`, 457-473 the `NO` branch of `real()`).

Numbers are exact: an `int` is an `Int`; a Python `float` enters as its exact value `± m / 10^k` (every double
has a finite decimal expansion) together with its `repr` — both supplied by Python (external functions
`float.__repr__`, exact conversion of a double; assumption `A_float`).  Nothing is computed with floats. -/
namespace Pyrealb.Number
open Pyrealb Pyrealb.Gen.NumberWords

/-- the value held by a `NO` -/
inductive Val where
  | int (v : Int)
  | flt (neg : Bool) (m k : Nat) (repr : Str)   -- a finite float: exactly `± m / 10^k`; `repr(value)`
  | special (repr : Str)                         -- `inf`, `-inf`, `nan`
  deriving DecidableEq, Repr

/-! ### decimal digits -/

def digitChar (d : Nat) : Char := ['0', '1', '2', '3', '4', '5', '6', '7', '8', '9'].getD d '0'

/-- `str(n)` for `n ≥ 0` (`fuel` only makes the recursion structural) -/
def digitsAux : Nat → Nat → Str
  | 0, n => [digitChar n]
  | f + 1, n => if n < 10 then [digitChar n] else digitsAux f (n / 10) ++ [digitChar (n % 10)]

def natRepr (n : Nat) : Str := digitsAux n n

/-- `str(v)` for an `int` -/
def intRepr (v : Int) : Str := if v < 0 then '-' :: natRepr v.natAbs else natRepr v.natAbs

/-- `str(self.value)` -/
def Val.str : Val → Str
  | .int v => intRepr v
  | .flt _ _ _ r => r
  | .special r => r

/-! ### `"{:,.Pf}".format(value)` -/

def pad3 (t : Nat) : Str := [digitChar (t / 100), digitChar (t / 10 % 10), digitChar (t % 10)]

/-- the decimal expansion with the sign `g` between groups of three digits -/
def groupAuxW (g : Char) : Nat → Nat → Str
  | 0, n => natRepr n
  | f + 1, n => if n < 1000 then natRepr n else groupAuxW g f (n / 1000) ++ g :: pad3 (n % 1000)

def groupNatW (g : Char) (n : Nat) : Str := groupAuxW g n n

/-- `"{:,}"`: a comma between groups of three digits -/
def groupNat (n : Nat) : Str := groupNatW ',' n

/-- the `p` low decimal digits of `f`, zero-padded on the left -/
def fracDigits : Nat → Nat → Str
  | 0, _ => []
  | p + 1, f => fracDigits p (f / 10) ++ [digitChar (f % 10)]

/-- `m / 10^k` rounded to `p` decimals (result scaled by `10^p`), to nearest, ties to even: what the `f`
    presentation type does with the exact value of a double -/
def roundHE (m k p : Nat) : Nat :=
  if k ≤ p then m * 10 ^ (p - k)
  else
    let c := 10 ^ (k - p)
    let q := m / c
    let r := m % c
    if 2 * r > c ∨ (2 * r = c ∧ q % 2 = 1) then q + 1 else q

/-- the text of `± q / 10^p` with `p` decimals, grouping sign `g` and decimal sign `d` -/
def formatFixedW (g d : Char) (neg : Bool) (q p : Nat) : Str :=
  (if neg then ['-'] else []) ++ groupNatW g (q / 10 ^ p) ++ (if p = 0 then [] else d :: fracDigits p (q % 10 ^ p))

/-- `"{:,.pf}"` : comma and point -/
def formatFixed (neg : Bool) (q p : Nat) : Str := formatFixedW ',' '.' neg q p

/-- `x.replace(c, by)` for a one-character pattern -/
def replaceChar (c : Char) (by_ : Str) (x : Str) : Str := x.flatMap (fun a => if a = c then by_ else [a])

def groupSym (ℓ : Lang) : Str := pick ℓ groupEn groupFr
def decimalSym (ℓ : Lang) : Str := pick ℓ decimalEn decimalFr

/-- `numberFormatter(maxPrecision)` (Terminal.py:337-347) -/
def numberFormatter (ℓ : Lang) (v : Val) (maxPrecision : Option Int) : Except Crash Str :=
  let precision : Int := match v with
    | .int _ => 0
    | _ => match maxPrecision with
      | none => defaultPrecision
      | some p => p
  if precision < 0 then .error .valueError            -- `"{:,.-1f}"` is not a format specification
  else
    let p := precision.toNat
    let res : Except Crash Str := match v with
      | .int n => pure (formatFixed (decide (n < 0)) n.natAbs 0)       -- `"{:,}".format(int)`: exact
      | .flt neg m k _ => pure (formatFixed neg (roundHE m k p) p)
      | .special r => pure r
    match res with
    | .error e => .error e
    | .ok res =>
      let res := if groupSym ℓ ≠ [','] then replaceChar ',' (groupSym ℓ) res else res
      let res := if decimalSym ℓ ≠ ['.'] then replaceChar '.' (decimalSym ℓ) res else res
      pure res

/-! ### the lemma of a `NO` (Terminal.setLemma) -/

structure DOpt where
  mprecision : Option Int := none
  raw : Option Bool := none
  nat : Option Bool := none
  ord : Option Bool := none
  rom : Option Bool := none
  deriving DecidableEq, Repr

structure NO where
  lang : Lang
  value : Option Val          -- `none`: the attribute `value` was never set (lemma of a wrong type)
  nbDecimals : Nat
  dOpt : DOpt
  g : Gender := .m            -- `peng["g"]`
  deriving Repr

/-- what the lexicon says about a word that has a `"value"`: the value, and whether the word is also an adjective -/
structure LexNum where
  value : Val
  isA : Bool

inductive LemmaIn where
  | int (v : Int)
  | flt (v : Val)
  | str (x : Str) (lex : Option LexNum) (flo : Option Val)   -- `flo` = `float(cleaned)` when Python accepts it
  | other

def isDigit (c : Char) : Bool := '0' ≤ c && c ≤ '9'

def spanDigits (x : Str) : Str × Str := (x.takeWhile isDigit, x.dropWhile isDigit)

/-- `re.match(r"^[-+]?[0-9]+([., ][0-9]*)?([Ee][-+][0-9]+)?$", x)` (`$` also matches before a final newline);
    the regular expression itself is pinned by `numberRE_tbl`. -/
def matchNumberRE (x : Str) : Bool :=
  let x := match x with
    | '-' :: r => r
    | '+' :: r => r
    | _ => x
  let (d1, r) := spanDigits x
  if d1.isEmpty then false
  else
    let r := match r with
      | c :: r' => if c = '.' ∨ c = ',' ∨ c = ' ' then (spanDigits r').2 else r
      | [] => r
    let r := match r with
      | e :: sg :: r' =>
        if (e = 'E' ∨ e = 'e') ∧ (sg = '-' ∨ sg = '+') ∧ !(spanDigits r').1.isEmpty then (spanDigits r').2 else r
      | _ => r
    r = [] ∨ r = ['\n']

/-- optional sign then at least one digit, nothing else: (`negative`, digits) -/
def signedDigits (x : Str) : Option (Bool × Str) :=
  let (neg, r) := match x with
    | '-' :: r => (true, r)
    | '+' :: r => (false, r)
    | _ => (false, x)
  if !r.isEmpty ∧ r.all isDigit then some (neg, r) else none

def natOfDigits (acc : Nat) : Str → Nat
  | [] => acc
  | c :: cs => natOfDigits (acc * 10 + (c.toNat - '0'.toNat)) cs

/-- `int(x)` on a text over the characters the regular expression lets through -/
def pyInt (x : Str) : Option Int :=
  match signedDigits (strip x) with
  | some (neg, ds) => some (if neg then - (natOfDigits 0 ds : Int) else natOfDigits 0 ds)
  | none => none

/-- does `float(x)` accept `x` (over the same characters)? `[+-]? digits ('.' digits*)? ([eE] [+-]? digits)?` -/
def pyFloatOK (x : Str) : Bool :=
  let x := strip x
  let x := match x with
    | '-' :: r => r
    | '+' :: r => r
    | _ => x
  let (d1, r) := spanDigits x
  if d1.isEmpty then false
  else
    let r := match r with
      | '.' :: r' => (spanDigits r').2
      | _ => r
    match r with
    | [] => true
    | e :: r' =>
      if e = 'E' ∨ e = 'e' then
        let r' := match r' with
          | '-' :: t => t
          | '+' :: t => t
          | _ => r'
        !r'.isEmpty && r'.all isDigit
      else false

/-- `str(lemma)[::-1].find(".")`, `0` when negative: the number of characters after the last `.` -/
def nbDecimalsOf (x : Str) : Nat :=
  if x.contains '.' then (x.reverse.takeWhile (· ≠ '.')).length else 0

def thousandsSep (ℓ : Lang) : Str := pick ℓ thousandsSepEn thousandsSepFr

/-- `re.sub(sep, "", x)` for a one-character, non-special `sep` -/
def removeSep (sep x : Str) : Str :=
  match sep with
  | [c] => x.filter (· ≠ c)
  | _ => x

def defaultDOpt : DOpt := { mprecision := some defaultMPrecision, raw := some false, ord := some false }

/-- `NO(lemma)` : the terminal and the number of warnings (Terminal.py:52-91) -/
def mkNO (ℓ : Lang) (lem : LemmaIn) : Except Crash (NO × Nat) :=
  match lem with
  | .other =>
    -- the constructor warns and sets `lemma=0`; `value` is set only by the repaired code
    pure ({ lang := ℓ, value := (if fixOtherSetsValue then some (.int 0) else none), nbDecimals := 0, dOpt := defaultDOpt }, 1)
  | .int v => pure ({ lang := ℓ, value := some (.int v), nbDecimals := 0, dOpt := defaultDOpt }, 0)
  | .flt v => pure ({ lang := ℓ, value := some v, nbDecimals := nbDecimalsOf v.str, dOpt := defaultDOpt }, 0)
  | .str x lex flo =>
    match lex with
    | some lx =>
      if lx.isA then pure ({ lang := ℓ, value := some lx.value, nbDecimals := 0, dOpt := { ord := some true } }, 0)
      else pure ({ lang := ℓ, value := some lx.value, nbDecimals := 0, dOpt := { nat := some true } }, 0)
    | none =>
      if !matchNumberRE x then
        pure ({ lang := ℓ, value := some (.int 0), nbDecimals := 0, dOpt := defaultDOpt }, 1)
      else
        let cleaned := removeSep (thousandsSep ℓ) x
        match pyInt cleaned with
        | some v => pure ({ lang := ℓ, value := some (.int v), nbDecimals := nbDecimalsOf cleaned, dOpt := defaultDOpt }, 0)
        | none =>
          if pyFloatOK cleaned then
            match flo with
            | some v => pure ({ lang := ℓ, value := some v, nbDecimals := nbDecimalsOf cleaned, dOpt := defaultDOpt }, 0)
            | none => .error .other            -- the harness did not supply `float(cleaned)`
          else if fixFloatGuarded then
            -- repaired code: a second warning and the value 0
            pure ({ lang := ℓ, value := some (.int 0), nbDecimals := 0, dOpt := defaultDOpt }, 1)
          else .error .valueError

/-! ### options: `.dOpt({...})`, `.nat(b)` (Constituent.py:202-231) -/

inductive OptVal where
  | bool (b : Bool)
  | int (i : Int)
  | other

/-- one `(key, value)` pair of `.dOpt`; `ok none` = the call stops with one warning.
    Repaired code (`fixMPrecisionChecked`, Constituent.py:226): the precision must be an `int`, not a `bool`, and
    `>= 0`; anything else is one warning and the call stops, the stored precision is unchanged.
    Earlier code: any `int` (a `bool` too) was stored, and a non-`int` raised `TypeError` inside the warning. -/
def setDOpt1 (d : DOpt) (key : Str) (v : OptVal) : Except Crash (Option DOpt) :=
  if key = s "mprecision" then
    if fixMPrecisionChecked then
      match v with
      | .int i => if 0 ≤ i then pure (some { d with mprecision := some i }) else pure none
      | _ => pure none
    else
      match v with
      | .int i => pure (some { d with mprecision := some i })
      | .bool _ => pure (some { d with mprecision := some (-1) })   -- stored; `"{:,.Truef}"` is as invalid as `"{:,.-1f}"`
      | .other => .error .typeError
  else if key = s "raw" ∨ key = s "nat" ∨ key = s "ord" ∨ key = s "rom" then
    match v with
    | .bool b =>
      if key = s "raw" then pure (some { d with raw := some b })
      else if key = s "nat" then pure (some { d with nat := some b })
      else if key = s "ord" then pure (some { d with ord := some b })
      else pure (some { d with rom := some b })
    | _ => pure none
  else pure none

/-- `.dOpt(dict)`: pairs are applied in order, the first bad one stops the call with one warning -/
def setDOpt (d : DOpt) : List (Str × OptVal) → Except Crash (DOpt × Nat)
  | [] => pure (d, 0)
  | (k, v) :: r =>
    match setDOpt1 d k v with
    | .error e => .error e
    | .ok (some d') => setDOpt d' r
    | .ok none => pure (d, 1)

/-! ### `grammaticalNumber` -/

inductive GNum where
  | s | p
  deriving DecidableEq, Repr

/-- `abs(value) == a` -/
def Val.absEq (v : Val) (a : Int) : Bool :=
  match v with
  | .int x => (x.natAbs : Int) == a
  | .flt _ m k _ => 0 ≤ a && m == a.toNat * 10 ^ k
  | .special _ => false

/-- `lo < value < hi` -/
def Val.between (v : Val) (lo hi : Int) : Bool :=
  match v with
  | .int x => lo < x && x < hi
  | .flt neg m k _ =>
    let x : Int := if neg then - (m : Int) else m
    lo * 10 ^ k < x && x < hi * 10 ^ k
  | .special _ => false

def gramNumber (no : NO) : Except Crash GNum :=
  if no.dOpt.ord = some true then pure .s            -- Terminal.grammaticalNumber (no explicit `n`)
  else match no.value with
    | none => .error .attributeError
    | some v =>
      match no.lang with
      | .en => pure (if v.absEq enSingAbs && (no.nbDecimals : Int) == enSingDecimals then .s else .p)
      | .fr => pure (if v.between frSingLow frSingHigh then .s else .p)

/-! ### realization -/

def numberOne (no : NO) (v : Int) : Option Str :=
  match no.lang with
  | .en => none
  | .fr => if no.g = .f then (if v = 1 then some (s "une") else if v = -1 then some (s "moins une") else none) else none

/-- `abs(self.value) >= LIMIT` when the method has such a guard -/
def tooLong (limit : Option Int) (a : Nat) : Bool :=
  match limit with
  | some l => decide ((a : Int) ≥ l)
  | none => false

/-- the `NO` branch of `Terminal.real()`: (realization, number of warnings, the `n` it sets) -/
def realNO (no : NO) : Except Crash (Str × Nat × GNum) :=
  match gramNumber no with
  | .error e => .error e
  | .ok n =>
    match no.value with
    | none => .error .attributeError
    | some v =>
      if no.dOpt.nat = some true then
        match v with
        | .int x =>
          if tooLong wordLimit x.natAbs then pure (v.str, 1, n)
          else match numberOne no x with
          | some one => pure (one, 0, n)
          | none => (enToutesLettres no.lang x).map (fun w => (w, 0, n))
        | _ => pure (v.str, 1, n)
      else if no.dOpt.ord = some true then
        match v with
        | .int x =>
          if x < 0 ∨ tooLong ordLimit x.natAbs then pure (bracket v.str, 1, .s)
          else (ordinal no.lang x no.g).map (fun w => (w, 0, .s))
        | _ => pure (bracket v.str, 1, .s)
      else if no.dOpt.rom = some true then
        match v with
        | .int x =>
          if x < 0 ∨ x ≥ romanGuard then pure (bracket v.str, 1, n)
          else (roman x).map (fun w => (w, 0, n))
        | _ => pure (bracket v.str, 1, n)
      else if no.dOpt.raw = some false then
        match no.dOpt.mprecision with
        | none =>
          if fixMPrecisionGet then (numberFormatter no.lang v none).map (fun w => (w, 0, n))   -- `opts.get("mprecision")`
          else .error .keyError                                                              -- `opts["mprecision"]`
        | some p => (numberFormatter no.lang v (some p)).map (fun w => (w, 0, n))
      else pure (v.str, 0, n)

end Pyrealb.Number
