import Pyrealb.Model.ClauseFrTypes
import Pyrealb.Gen.ClauseFrConsts
/-! # French clause model — terminals and morphology

Mirrors (pinned commit): `Terminal.bestMatch` (Terminal.py:185-200), the pronoun part of `Terminal.decline`
(213-277), `Constituent.getTonicPro` (Constituent.py:107-135), `Terminal.isReflexive` (307-331),
`TerminalFr.conjugate` (TerminalFr.py:86-230) — simple tenses and the compound-tense branch (auxiliary choice,
participle agreement, transfer of `neg2` and `lier` to the auxiliary).

Lexical items are symbolic: a verb is a `VerbLex` (lexicon entry + conjugation table, any content), a noun phrase is
an opaque argument with gender and number. Constants come from `Gen.ClauseFr` (regenerated from the repository). -/
namespace Pyrealb.ClauseFr
open Pyrealb
open Pyrealb.Gen.ClauseFr

/-! ## small enumerations -/

inductive Nb where | s | p
  deriving DecidableEq, Repr, Inhabited
inductive Gd where | m | f
  deriving DecidableEq, Repr, Inhabited
/-- pronoun case option `.c(..)` -/
inductive Cas where | nom | acc | dat | refl
  deriving DecidableEq, Repr, Inhabited

def Nb.str : Nb → Str | .s => ['s'] | .p => ['p']
def Gd.str : Gd → Str | .m => ['m'] | .f => ['f']
def Cas.str : Cas → Str
  | .nom => ['n','o','m'] | .acc => ['a','c','c'] | .dat => ['d','a','t'] | .refl => ['r','e','f','l']

/-- the 19 tense codes of French verbs -/
inductive Tense where
  | p | i | f | ps | c | s | si | ip | b | pr | pp
  | pc | pq | cp | pa | fa | spa | spq | bp
  deriving DecidableEq, Repr, Inhabited

def Tense.str : Tense → Str
  | .p => ['p'] | .i => ['i'] | .f => ['f'] | .ps => ['p','s'] | .c => ['c'] | .s => ['s'] | .si => ['s','i']
  | .ip => ['i','p'] | .b => ['b'] | .pr => ['p','r'] | .pp => ['p','p']
  | .pc => ['p','c'] | .pq => ['p','q'] | .cp => ['c','p'] | .pa => ['p','a'] | .fa => ['f','a']
  | .spa => ['s','p','a'] | .spq => ['s','p','q'] | .bp => ['b','p']

def Tense.all : List Tense :=
  [.p, .i, .f, .ps, .c, .s, .si, .ip, .b, .pr, .pp, .pc, .pq, .cp, .pa, .fa, .spa, .spq, .bp]

def Tense.ofStr (x : Str) : Option Tense := Tense.all.find? (fun t => t.str == x)

/-- `t in [compound list]` and `tempsAux[t]` of TerminalFr.conjugate, read from the generated constants -/
def Tense.auxTense (t : Tense) : Option Tense :=
  if compoundList.contains t.str then
    match lookup t.str tempsAux with
    | some a => Tense.ofStr a
    | none => none
  else none

/-- tenses whose form carries person agreement (indicative, conditional, subjunctive) -/
def Tense.finiteSimple : Tense → Bool
  | .p | .i | .f | .ps | .c | .s | .si => true
  | _ => false

/-! ## terminals -/

/-- a `Pro` terminal: lemma, `.c(..)`, `.tn("")`, and the person/number/gender `getProp` returns -/
structure ProT where
  lemma : Str
  c : Option Cas
  tn : Bool
  pe : Nat
  n : Nb
  g : Gd
  deriving DecidableEq, Repr, Inhabited

/-- a `V` terminal with what the clause code reads or sets on it -/
structure VT where
  /-- lexicon entry and conjugation table of the current lemma -/
  lex : VerbLex
  /-- `props["pat"]` and `taux["aux"]`: those of the lemma, except on the auxiliary the passive builds in phrase
      notation (`aux.props = verbe.props; aux.taux = verbe.taux`: they stay those of the ORIGINAL verb) -/
  pat : Option (List Str)
  aux : Str
  /-- `getProp("t")` -/
  t : Tense
  /-- values of the shared `peng` record -/
  pe : Nat
  n : Nb
  g : Gd
  /-- `props["pe"]`, `props["n"]` when set on the verb itself (`V(..).pe(2).n("p")`): they win over `peng` -/
  ope : Option Nat := none
  on : Option Nb := none
  /-- the attribute `neg2` (second negative word) -/
  neg2 : Option Str := none
  lier : Bool := false
  isMod : Bool := false
  isProg : Bool := false
  /-- gender/number of the `cod` attribute (a pronominalized direct object seen before the verb) -/
  cod : Option (Gd × Nb) := none
  /-- `props["g"]`, `props["n"]` of a participle created by the passive (phrase notation) -/
  pg : Option Gd := none
  pn : Option Nb := none
  /-- phrase notation: the verb still shares the `peng` of its VP (what `VP.setProp("pe",3)` of `wos/was` changes) -/
  vpshare : Bool := false
  /-- dependency notation: this participle shares the `peng` of the root verb -/
  shared : Bool := false
  /-- dependency notation: identity of the `peng` record of the verb / of its `cod` -/
  pid : Int := -1
  codpid : Int := -3
  deriving DecidableEq, Repr

def VT.epe (v : VT) : Nat := v.ope.getD v.pe
def VT.en (v : VT) : Nb := v.on.getD v.n

/-- `V(lemma)` fresh from the lexicon: 3rd person singular masculine -/
def mkV (lex : VerbLex) (t : Tense) (pe : Nat := 3) (n : Nb := .s) (g : Gd := .m) : VT :=
  { lex := lex, pat := lex.pat, aux := lex.aux, t := t, pe := pe, n := n, g := g }

/-- `setLemma`: tab, stem, `aux` and `pat` are replaced by those of the new lemma; everything else stays -/
def VT.setLemma (v : VT) (lex : VerbLex) : VT := { v with lex := lex, pat := lex.pat, aux := lex.aux }

/-- the verb entries the transformations create (être, avoir, pouvoir, devoir, vouloir); any other lemma of
    `verb_option.modalityVerb` would be a KeyError-like failure of the model, reported as a crash -/
def auxLex (lemma : Str) : Except Crash VerbLex :=
  match lookup lemma auxVerbs with
  | some l => .ok l
  | none => .error .keyError

def etre : Str := ['ê','t','r','e']
def avoir : Str := ['a','v','o','i','r']
def ne : Str := ['n','e']
def pas : Str := ['p','a','s']
def moi : Str := ['m','o','i']
def je : Str := ['j','e']
def par : Str := ['p','a','r']
def reflStr : Str := ['r','é','f','l']

/-! ## pronoun forms: `bestMatch` over the generated declension rows -/

def fieldScore (row : Option Str) (val : Str) : Nat :=
  match row with
  | none => 0
  | some x => if x = val then 2 else if x = ['x'] then 1 else 0

/-- score of one row for the key/values `pe, g, n` + optional `c` / `tn`; `none` = person mismatch
    (Python: `nbMatches=0; break`) -/
def rowScore (r : DeclRow) (pe : Nat) (g n : Str) (c : Option Str) (tn : Option Str) : Nat :=
  match r.pe with
  | some p => if p ≠ pe then 0 else
      2 + fieldScore r.g g + fieldScore r.n n
        + (match c with | some cv => fieldScore r.c cv | none => 0)
        + (match tn with | some tv => fieldScore r.tn tv | none => 0)
  | none =>
      fieldScore r.g g + fieldScore r.n n
        + (match c with | some cv => fieldScore r.c cv | none => 0)
        + (match tn with | some tv => fieldScore r.tn tv | none => 0)

/-- `Terminal.bestMatch`: first row with the strictly highest positive score -/
def bestMatchAux (pe : Nat) (g n : Str) (c tn : Option Str) : List DeclRow → Nat → Option Str → Option Str
  | [], _, best => best
  | r :: rs, sc, best =>
    let k := rowScore r pe g n c tn
    if k > sc then bestMatchAux pe g n c tn rs k (some r.val) else bestMatchAux pe g n c tn rs sc best

def bestMatch (rows : List DeclRow) (pe : Nat) (g : Gd) (n : Nb) (c : Option Cas) (tn : Option Str) : Option Str :=
  bestMatchAux pe g.str n.str (c.map Cas.str) tn rows 0 none

def yStr : Str := ['y']
def enStr : Str := ['e','n']

/-- realization of a pronoun terminal (`Terminal.decline` for Pro). `y`/`en`: single-row tables; `je`: table pn1
    with `tn:""` added by decline; every other lemma of the fragment (moi, toi, lui, elle, nous, vous, eux, elles)
    is declined with the rows of `pn4` (the per-lemma tables pn4-xx are its restrictions). `none` = morphoError. -/
def proForm (p : ProT) : Option Str :=
  if p.lemma = yStr ∨ p.lemma = enStr then some p.lemma
  else if p.lemma = je then bestMatch pn1 p.pe p.g p.n none (some [])
  else match p.c with
    | some c => bestMatch pn4 p.pe p.g p.n (some c) none
    | none => bestMatch pn4 p.pe p.g p.n none (some [])

/-- tonic form for person/number/gender: `Pro("moi").g(g).n(n).pe(pe).realize()` -/
def tonic (pe : Nat) (n : Nb) (g : Gd) : Str :=
  (bestMatch pn4 pe g n none (some [])).getD moi

/-- `getTonicPro(case)` on a noun phrase / dependent: `Pro(tonic form).c(case)` -/
def tonicProOf (g : Gd) (n : Nb) (c : Cas) : ProT :=
  { lemma := tonic 3 n g, c := some c, tn := false, pe := 3, n := n, g := g }

def nbOfStr (x : Str) : Nb := if x = ['p'] then .p else .s
def gdOfStr (x : Str) : Gd := if x = ['f'] then .f else .m

/-- `Pro(lemma).c(case)` with the person/number/gender the lexicon gives the lemma -/
def lexPro (lemma : Str) (c : Cas) : ProT :=
  match lookup lemma tonicLex with
  | some (pe, n, g) => { lemma := lemma, c := some c, tn := false, pe := pe, n := nbOfStr n, g := gdOfStr g }
  | none => { lemma := lemma, c := some c, tn := false, pe := 3, n := .s, g := .m }

/-- `Constituent.getTonicPro(case)` on a pronoun -/
def getTonicPro (p : ProT) (case : Option Cas) : ProT :=
  if p.tn ∨ p.c.isSome then
    match case with
    | some c => { p with c := some c }
    | none => { p with tn := true, c := none }
  else if tonicForms.contains p.lemma then
    match case with
    | some c => lexPro p.lemma c
    | none => p
  else
    match case with
    | some c => lexPro ((proForm p).getD p.lemma) c
    | none => p

/-! ## tokens of the realized list -/

/-- a realized terminal of the flat list handed to `doPronounPlacement` / `detokenize` -/
inductive Tok where
  /-- a verb with its realization -/
  | v (x : VT) (form : Str)
  /-- a verb turned into `Q` by `morphoError` (`[[lemma]]`); keeps `lier` -/
  | qv (lemma : Str) (lier : Bool)
  | pro (x : ProT) (form : Str)
  | adv (lemma : Str)
  | q (lemma : Str)
  | p (lemma : Str)
  /-- determiner / noun of the opaque noun phrase `id` -/
  | d (id : Nat)
  | n (id : Nat)
  deriving DecidableEq, Repr

def Tok.isV : Tok → Bool | .v _ _ => true | _ => false
def Tok.isPro : Tok → Bool | .pro _ _ => true | _ => false

/-! ## reflexivity -/

/-- `Terminal.isReflexive` inside a clause whose S / root carries `typ` (every verb of the fragment reaches it
    through its parent chain). `pat = None` + `refl`: not reflexive when the test is guarded (`Gen.reflGuardsNoPat`, lifted
    from Terminal.py each run), else the `TypeError` of `"réfl" not in pat`. -/
def isReflexive (v : VT) (refl : Bool) : Except Crash Bool :=
  if v.pat = some [reflStr] then .ok true
  else if refl then
    match v.pat with
    | none => if reflGuardsNoPat then .ok false else .error .typeError
    | some pat => .ok (pat.contains reflStr)
  else .ok false

/-! ## conjugation -/

def cellIdx (pe : Nat) (n : Nb) : Nat := pe - 1 + (if n = .p then 3 else 0)

def VerbLex.cells (l : VerbLex) : Tense → List (Option Str)
  | .p => l.p | .i => l.i | .f => l.f | .ps => l.ps | .c => l.c | .s => l.s | .si => l.si | .ip => l.ip
  | _ => []

/-- `self.stem`: the lemma (œ/æ already normalised by the harness) without the table's ending -/
def VerbLex.stem (l : VerbLex) : Str :=
  if l.ending.isEmpty then l.lemma else dropRight l.lemma l.ending.length

inductive ConjRes where
  /-- `self.realization = stem + ending` -/
  | form (f : Str)
  /-- `morphoError`: realization `[[lemma]]`, constType becomes `Q` -/
  | morpho
  deriving DecidableEq, Repr

def intrStr : Str := ['i','n','t','r']
def avStr : Str := ['a','v']
def etStr : Str := ['ê','t']

/-- simple-tense branch of `TerminalFr.conjugate` (the verb has a table). The imperative, infinitive and present
    participle evaluate `self.isReflexive() and self.parentConst is None`: inside a clause only the possible
    `TypeError` of `isReflexive` is observable. -/
def conjSimple (v : VT) (refl : Bool) : Except Crash ConjRes :=
  let l := v.lex
  let pe := v.epe
  let n := v.en
  match v.t with
  | .p | .i | .f | .ps | .c | .s | .si =>
    match (l.cells v.t)[cellIdx pe n]? with
    | some (some term) => .ok (.form (l.stem ++ term))
    | some none => .ok .morpho
    | none => .error .indexError
  | .ip =>
    if (n = .s ∧ pe ≠ 2) ∨ (n = .p ∧ pe = 3) then .ok .morpho else
    match l.ip[cellIdx pe n]? with
    | some (some term) => do
      let _ ← isReflexive v refl
      pure (.form (l.stem ++ term))
    | some none => .ok .morpho
    | none => .error .indexError
  | .pp =>
    let (g, n) : Gd × Nb := match v.cod with
      | some (g, n) => (g, n)
      | none => (v.pg.getD v.g, v.pn.getD v.en)
    let idx := (if n = .s then 0 else 2) + (if g = .f then 1 else 0)
    let cell : Except Crash (Option Str) := match l.pp with
      | .none => .error .typeError
      | .str x => match x[idx]? with
        | some ch => .ok (some [ch])
        | none => .error .indexError
      | .list cs => match cs[idx]? with
        | some c => .ok c
        | none => .error .indexError
    match cell with
    | .error e => .error e
    | .ok none => .ok .morpho
    | .ok (some term) =>
      if idx > 0 ∧ v.pat = some [intrStr] ∧ v.aux = avStr then .ok .morpho
      else .ok (.form (l.stem ++ term))
  | .b => match l.b with
    | some e => do
      let _ ← isReflexive v refl
      pure (.form (l.stem ++ e))
    | none => if nonFiniteNoneIsMorpho then .ok .morpho else .error .typeError
  | .pr => match l.pr with
    | some e => do
      let _ ← isReflexive v refl
      pure (.form (l.stem ++ e))
    | none => if nonFiniteNoneIsMorpho then .ok .morpho else .error .typeError
  | _ => .ok .morpho

def tokOfConj (v : VT) : ConjRes → Tok
  | .form f => .v v f
  | .morpho => .qv v.lex.lemma v.lier

/-- the bracketed realization of a morphoError -/
def bracketed (lemma : Str) : Str := bracket lemma

/-- the auxiliary of a compound tense and the gender / number its participle takes:
    `aux = V("avoir"); aux.peng = self.peng; aux.taux = {t, aux of self}`, then « être » for a reflexive verb (with
    `pat = ["réfl"]`) or a verb whose `aux` is "êt" (participle agrees with the subject), else « avoir » (participle
    agrees with a `cod` seen before the verb, except for « être ») -/
def compoundAux (v : VT) (isRefl : Bool) (ta : Tense) (avoirLex etreLex : VerbLex) : VT × Gd × Nb :=
  let aux0 : VT := { mkV avoirLex ta v.pe v.n v.g with aux := v.aux }
  if isRefl then ({ aux0.setLemma etreLex with pat := some [reflStr] }, v.g, v.en)
  else if v.aux = etStr then (aux0.setLemma etreLex, v.g, v.en)
  else
    let gn : Gd × Nb := if v.lex.lemma ≠ etre then (match v.cod with | some x => x | none => (.m, .s)) else (.m, .s)
    (aux0, gn.1, gn.2)

/-- the terminals a compound tense returns: the auxiliary (it takes over `neg2` and `lier`), the pronoun found next
    to a `lier` verb, the verb itself realized as its participle; and whether that pronoun was consumed -/
def compoundToks (v aux : VT) (ra : ConjRes) (form : Str) (nextPro : Option Tok) : List Tok × Bool :=
  let auxV : VT := { aux with neg2 := v.neg2, lier := v.lier }
  let me : VT := { v with neg2 := none, lier := false }
  let auxTok := tokOfConj auxV ra
  if v.lier then
    match nextPro with
    | some p => ([auxTok, p, .v me form], true)
    | none => ([auxTok, .v me form], false)
  else ([auxTok, .v me form], false)

/-- is the verb defective at the person of the auxiliary (`some true`), or is the cell out of range (`none`)? -/
def compoundDefective (v : VT) (ta : Tense) : Option Bool :=
  match ta with
  | .b => some false
  | _ => match (v.lex.cells ta)[cellIdx v.epe v.en]? with
    | some none => some true
    | some (some _) => some false
    | none => none

/-- compound-tense branch of `TerminalFr.conjugate` -/
def conjCompound (v : VT) (refl : Bool) (nextPro : Option Tok) (ta : Tense) : Except Crash (List Tok × Bool) :=
  match compoundDefective v ta with
  | none => .error .indexError
  | some true => .ok ([.qv v.lex.lemma v.lier], false)
  | some false => do
    let avoirLex ← auxLex avoir
    let etreLex ← auxLex etre
    let isRefl ← isReflexive v refl
    let a := compoundAux v isRefl ta avoirLex etreLex
    -- aux.realization = aux.realize()
    let ra ← conjSimple a.1 refl
    -- pp = V(self.lemma).g(g).n(n).t("pp"), realized on its own
    let rp ← conjSimple { mkV v.lex .pp with pg := some a.2.1, pn := some a.2.2 } refl
    let form := match rp with
      | .form f => f
      | .morpho => bracketed v.lex.lemma
    pure (compoundToks v a.1 ra form nextPro)

/-- `TerminalFr.conjugate`. `nextPro`: the pronoun the compound branch finds next to a `lier` verb (phrase: the next
    element of the VP if it is a Pro; dependency: the first dependent whose terminal is a Pro). Returns the tokens
    and whether that pronoun was consumed. -/
def conjugate (v : VT) (refl : Bool) (nextPro : Option Tok) : Except Crash (List Tok × Bool) :=
  if ¬ v.lex.hasTab then .ok ([.qv v.lex.lemma v.lier], false) else
  match v.t.auxTense with
  | none => (conjSimple v refl).map (fun r => ([tokOfConj v r], false))
  | some ta => conjCompound v refl nextPro ta

end Pyrealb.ClauseFr
