import Pyrealb.Model.BestMatch
/-! # Declension of a stand-alone terminal: `N A Adv D Pro` in both languages

Mirrors, branch for branch (including what looks wrong):

* `Terminal.setLemma` for these five types (src/pyrealb/Terminal.py:29-158), with the person inference for `Pro`
  (130-141) and the always-plural nouns (142-143);
* the option methods `g n pe ow tn c f maje` as built by `makeOptionMethod` (Constituent.py:496-532, 235-243);
* `Terminal.real` (438-452), `Terminal.decline` (213-277), `bestMatch` (in `Model/BestMatch`);
* `TerminalEn.decline_adj_adv / check_countable / check_majestic / check_bad_pronoun_case / should_set_person_number`
  and their `TerminalFr` counterparts with `check_gender_lexicon`;
* `removeEmpty` of `doFormat` and `detokenize` for a parentless terminal (Constituent.py:318-325, 370-391).

What is *not* here: `doElision` (it leaves every token list `decline` can produce unchanged — taken as an
assumption, checked by the correspondence because the real tokens are read after `doFormat`), formatting options,
non-string lemmas, a parent constituent (`isMajestic` only sees the local `.maje()`).

Conventions: `Except Crash` for what raises in Python; warnings are counted (`warns`), their text is not modelled.
`getNumber()` is `getProp("n")`: its majestic branch tests `hasattr(self.peng,"n")` on a dict and never fires.

API used by other families: `Term`, `mkTerm`, `applyOpt(s)`, `realTerm`, `realize`, `Out`, `detok`. -/
namespace Pyrealb.Decl

/-- the shared `peng` record (`pengNO`, `maje` are irrelevant here) -/
structure Peng where
  pe : FV
  n : FV
  g : FV
  deriving DecidableEq, Repr

/-- the state of a terminal that declension looks at -/
structure Term where
  lang : Lang
  pos : Pos
  lemma : Str
  /-- `self.tab` (`None` when the lemma is unknown or its table unusable) -/
  tab : Option Str := none
  /-- `self.stem` (the attribute does not exist until `setLemma` succeeds) -/
  stem : Option Str := none
  /-- `self.peng` (an `Adv` has none) -/
  peng : Option Peng := none
  /-- entries of `self.props`; `some .none` is a key bound to `None` -/
  pG : Option FV := none
  pN : Option FV := none
  pPe : Option FV := none
  pOwn : Option FV := none
  pTn : Option FV := none
  pC : Option FV := none
  pF : Option FV := none
  pMaje : Option Bool := none
  /-- `self.realization` -/
  real : Option Str := none
  /-- number of calls of `self.warn` so far (including those of auxiliary terminals) -/
  warns : Nat := 0
  deriving Repr

def Term.warn (t : Term) : Term := { t with warns := t.warns + 1 }

/-- `lemma.replace("œ","oe").replace("æ","ae")` -/
def normLemma : Str → Str
  | [] => []
  | c :: r => if c = 'œ' then 'o' :: 'e' :: normLemma r else if c = 'æ' then 'a' :: 'e' :: normLemma r else c :: normLemma r

/-- `defaultProps()` restricted to `pe n g`, as stored by `initProps` (only for N A D Pro among our five) -/
def initPeng (lang : Lang) (pos : Pos) : Option Peng :=
  if pos = .Adv then none
  else some ⟨.int 3, .str ['s'], .str (match lang with | .en => ['n'] | .fr => ['m'])⟩

/-- `noun_always_plural()` -/
def alwaysPlural : Lang → List Str
  | .en => ["n6".toList]
  | .fr => ["n1".toList, "n15".toList, "n21".toList, "n22".toList, "n26".toList]

/-- `tonic_pe_1()` -/
def tonicPe1 : Lang → Str
  | .en => "me".toList
  | .fr => "moi".toList

/-! ### `getProp` / `setProp` for the properties declension reads -/

def Term.getG (t : Term) : FV :=
  match t.pG with | some v => v | none => match t.peng with | some p => p.g | none => .none
def Term.getN (t : Term) : FV :=
  match t.pN with | some v => v | none => match t.peng with | some p => p.n | none => .none
def Term.getPe (t : Term) : FV :=
  match t.pPe with | some v => v | none => match t.peng with | some p => p.pe | none => .none

/-- `setProp("g",v)`: the shared record when it exists, and `props` unless called from `setLemma` -/
def Term.setG (t : Term) (v : FV) (inSetLemma : Bool := false) : Term :=
  let t := { t with peng := t.peng.map (fun p => { p with g := v }) }
  if inSetLemma then t else { t with pG := some v }
def Term.setN (t : Term) (v : FV) (inSetLemma : Bool := false) : Term :=
  let t := { t with peng := t.peng.map (fun p => { p with n := v }) }
  if inSetLemma then t else { t with pN := some v }
def Term.setPe (t : Term) (v : FV) (inSetLemma : Bool := false) : Term :=
  let t := { t with peng := t.peng.map (fun p => { p with pe := v }) }
  if inSetLemma then t else { t with pPe := some v }

/-! ### `setLemma` -/

/-- `while i<len(dd) and dd[i]["pe"]==pe: i+=1` followed by `i==len(dd)`; a row without `pe` is a `KeyError` -/
def allSamePe (pe : FV) : List Row → Except Crash Bool
  | [] => pure true
  | d :: r =>
    match d.get Feat.pe with
    | none => throw Crash.keyError
    | some w => if w = pe then allSamePe pe r else pure false

/-- Terminal.py:133-141: the person to store for a `Pro` whose table has the same `pe ≠ 3` in every row -/
def personInfer (rows : List Row) : Except Crash (Option FV) :=
  match rows with
  | [] => throw Crash.indexError
  | d0 :: rest =>
    match d0.get Feat.pe with
    | none => pure none
    | some pe =>
      if pe = FV.int 3 then pure none
      else do
        let same ← allSamePe pe rest
        pure (if same then some pe else none)

/-- the `else` of Terminal.py:150-155: the table cannot be used -/
def badTable (t : Term) : Term :=
  let t := { t with tab := none }
  if t.pos = .Adv then t else t.warn

/-- one iteration of `for (key,info) in lexInfo.items()` -/
def setLemmaKey (rules : Rules) (t : Term) (key : Str) (info : LV) : Except Crash Term :=
  if key = "tab".toList then
    match info with
    | .str tb =>
      match lookup tb rules with
      | some decl => do
        let t1 ← (if t.pos = .Pro then do
                    let p ← personInfer decl.rows
                    pure (match p with | some pe => t.setPe pe | none => t)
                  else if t.pos = .N ∧ tb ∈ alwaysPlural t.lang then pure (t.setN (.str ['p']))
                  else pure t)
        if endsWith t1.lemma decl.ending then
          pure { t1 with tab := some tb,
                         stem := some (if decl.ending = [] then t1.lemma else dropRight t1.lemma decl.ending.length) }
        else pure (badTable t1)
      | none => pure (badTable t)
    | _ => pure (badTable t)
  else if key = "pe".toList then pure (t.setPe info.toFV true)
  else if key = "n".toList then pure (t.setN info.toFV true)
  else if key = "g".toList then pure (t.setG info.toFV true)
  else if key = "own".toList then pure { t with pOwn := some info.toFV }
  else if key = "tn".toList then pure { t with pTn := some info.toFV }
  else if key = "c".toList then pure { t with pC := some info.toFV }
  else if key = "f".toList then pure { t with pF := some info.toFV }
  else pure t   -- cnt, h, hAn, pos, niveau, ldv, value … : stored in props, never read by declension

def setLemmaKeys (rules : Rules) : Term → PosEntry → Except Crash Term
  | t, [] => pure t
  | t, (k, v) :: r => do
    let t1 ← setLemmaKey rules t k v
    setLemmaKeys rules t1 r

/-- the "not in lexicon" exits of `setLemma` -/
def notInLexicon (t : Term) : Term := ({ t with tab := none, real := some (bracket t.lemma) }).warn

/-- `Terminal.setLemma(lemma)` for a string lemma and a terminal of one of the five types; `lex` is the lexicon of
    the current language, which the caller keeps equal to the terminal's language -/
def setLemma (rules : Rules) (lex : Lex) (t : Term) (lemma : Str) : Except Crash Term :=
  let t := { t with lemma := normLemma lemma,
                    peng := match t.peng with | some p => some p | none => initPeng t.lang t.pos }
  match lookup t.lemma lex with
  | none => pure (notInLexicon t)
  | some info =>
    match lookup t.pos.name info with
    | none => pure (notInLexicon t)
    | some entry => setLemmaKeys rules t entry

/-- the constructor `N(lemma)`, `A(lemma)`, … -/
def mkTerm (rules : Rules) (lex : Lex) (lang : Lang) (pos : Pos) (lemma : Str) : Except Crash Term :=
  setLemma rules lex { lang := lang, pos := pos, lemma := lemma } lemma

/-! ### option methods -/

def OV.toFV : OV → FV
  | .str v => .str v
  | .int i => .int i
  | .none => .none
  | .bool b => .bool b

def strs (l : List String) : List OV := l.map (fun x => OV.str x.toList)

/-- `validVals` of the `makeOptionMethod` calls (Constituent.py:537-556) -/
def validVals (name : Str) : Option (List OV) :=
  if name = "pe".toList then some [.int 1, .int 2, .int 3, .str ['1'], .str ['2'], .str ['3']]
  else if name = "n".toList then some (strs ["s", "p", "x"])
  else if name = "g".toList then some (strs ["m", "f", "n", "x"])
  else if name = "f".toList then some (strs ["co", "su"])
  else if name = "tn".toList then some (strs ["", "refl"])
  else if name = "c".toList then some (strs ["nom", "acc", "dat", "refl", "gen"])
  else if name = "ow".toList then some (strs ["s", "p", "x"])
  else none

/-- `allowedConsts` of the same calls, restricted to the five types -/
def allowedPos (name : Str) : List Pos :=
  if name = "pe".toList ∨ name = "n".toList ∨ name = "g".toList then [.D, .Pro, .N, .A]
  else if name = "f".toList then [.A, .Adv]
  else if name = "tn".toList ∨ name = "c".toList then [.Pro]
  else if name = "ow".toList then [.D, .Pro]
  else []

/-- `self.setProp(optionName,val)` for the seven value options -/
def setOptProp (t : Term) (name : Str) (v : FV) : Term :=
  if name = "pe".toList then t.setPe v
  else if name = "n".toList then t.setN v
  else if name = "g".toList then t.setG v
  else if name = "f".toList then { t with pF := some v }
  else if name = "tn".toList then { t with pTn := some v }
  else if name = "c".toList then { t with pC := some v }
  else { t with pOwn := some v }   -- "ow" stores "own"

/-- one option call `t.<name>(v)`.  Unknown method names are an `AttributeError`; a bool given to a value option is
    outside the modelled domain (Python's `True == 1` would need modelling) and reported as `Crash.other`. -/
def applyOpt (t : Term) (name : Str) (v : OV) : Except Crash Term :=
  if name = "maje".toList then
    if t.pos = .Pro ∨ t.pos = .D then
      match v with
      | .bool b => pure { t with pMaje := some b }
      | _ => pure t.warn
    else pure t.warn
  else
    match validVals name with
    | none => throw Crash.attributeError
    | some vals =>
      match v with
      | .bool _ => throw Crash.other
      | _ =>
        if v = .none ∧ OV.str [] ∉ vals then pure t.warn            -- "no value for option"
        else if t.pos ∈ allowedPos name then
          if v = .none then pure (setOptProp t name (.bool true))    -- `.tn()` stores True
          else if v ∉ vals then pure t.warn                           -- "ignored value for option"
          else pure (setOptProp t name v.toFV)
        else pure t.warn                                              -- "bad const for option"

def applyOpts : Term → List (Str × OV) → Except Crash Term
  | t, [] => pure t
  | t, (k, v) :: r => do
    let t1 ← applyOpt t k v
    applyOpts t1 r

/-! ### realization -/

/-- token realizations (after `doFormat`) and the number of warnings -/
structure Out where
  toks : List Str
  warns : Nat
  deriving DecidableEq, Repr

/-- `morphoError`: one warning, realization `[[lemma]]` -/
def Term.morpho (t : Term) : Term := ({ t with real := some (bracket t.lemma) }).warn

/-- `[self.morphoError(..)]` returned from a declension routine -/
def morphoOut (t : Term) : Out := ⟨[bracket t.lemma], t.warns + 1⟩

/-- `int(p)` -/
def digitsVal : List Char → Nat → Option Nat
  | [], acc => some acc
  | c :: r, acc => if c.isDigit then digitsVal r (acc * 10 + (c.toNat - '0'.toNat)) else none

def intOf : FV → Except Crash Int
  | .int i => pure i
  | .bool b => pure (if b then 1 else 0)
  | .str v => match v with
    | [] => throw Crash.valueError
    | _ => match digitsVal v 0 with
      | some k => pure (Int.ofNat k)
      | none => throw Crash.valueError
  | .none => throw Crash.typeError

/-- `isMajestic()` of a parentless terminal -/
def Term.isMajestic (t : Term) : Bool := t.pMaje.getD false

/-- `check_majestic(keyVals)`: the possibly modified terminal and whether the declension must be re-read -/
def checkMajestic (rules : Rules) (lex : Lex) (t : Term) (pe : Int) (n : FV) : Except Crash (Term × Bool) :=
  if t.pos ≠ .D then pure (t, false) else
  match t.lang with
  | .en =>
    if pe < 3 ∧ t.lemma = "my".toList ∧ t.pOwn = some (.str ['s']) then pure ({ t with pOwn := some (.str ['p']) }, true)
    else pure (t, false)
  | .fr =>
    if t.lemma = "mon".toList ∧ pe < 3 then do
      let t1 ← setLemma rules lex t "notre".toList
      pure (t1, true)
    else if t.lemma = "ton".toList ∨ (t.lemma = "notre".toList ∧ pe = 2 ∧ n = .str ['s']) then do
      let t1 ← setLemma rules lex t "votre".toList
      pure (t1, true)
    else pure (t, false)

/-- `check_bad_pronoun_case(c)` -/
def badCase (lang : Lang) (c : FV) : Bool :=
  match lang with
  | .en => c = .str "refl".toList
  | .fr => c = .str "gen".toList

/-- `should_set_person_number(c)` -/
def shouldSetPN (lang : Lang) (c : FV) : Bool :=
  match lang with
  | .en => c ≠ .str "gen".toList
  | .fr => true

/-- Terminal.py:237-240: `c` given — rejected for this language (warning) or added to the request -/
def proCaseStep (t : Term) (kv : KeyVals) (c : FV) : Term × KeyVals :=
  if c ≠ .none then (if badCase t.lang c then (t.warn, kv) else (t, kv.set Feat.c c)) else (t, kv)

/-- Terminal.py:241-246: `tn` given — ignored with a warning when `c` is given too, else added to the request -/
def proTonicStep (t : Term) (kv : KeyVals) (c tn : FV) : Term × KeyVals :=
  if tn ≠ .none then (if c ≠ .none then (t.warn, kv) else (t, kv.set Feat.tn tn)) else (t, kv)

/-- Terminal.py:247-266: the `moi`/`me` special case, the person fixed by a tonic lemma, the default `tn=""` -/
def proPersonStep (t : Term) (rows : List Row) (g n c tn : FV) (kv : KeyVals) : Except Crash (Term × KeyVals) :=
  if c ≠ .none ∨ tn ≠ .none then
    if t.lemma = tonicPe1 t.lang then
      let kv := if t.getG = .none then kv.del Feat.g else kv
      let kv := if t.getN = .none then kv.del Feat.n else kv
      if (c = .str "nom".toList ∨ tn = .str []) ∧ t.getPe = .none then
        pure (t.setPe (.int 1), kv.set Feat.pe (.int 1))
      else pure (t, kv)
    else
      match rows with
      | [] => throw Crash.indexError
      | d0 :: _ =>
        if shouldSetPN t.lang c then
          let t := t.setG (match d0.get Feat.g with | some v => v | none => g)
          let t := t.setN (match d0.get Feat.n with | some v => v | none => n)
          let pe := match d0.get Feat.pe with | some v => v | none => FV.int 3
          pure (t.setPe pe, kv.set Feat.pe pe)
        else pure (t, kv)
  else
    if t.lemma ≠ "on".toList then pure (t, kv.set Feat.tn (.str [])) else pure (t, kv)

/-- Terminal.py:236-266: the pronoun part of the request. Returns the terminal (properties set "for verb
    agreement") and the request. `rows` is the declension in force. -/
def proKeyVals (t : Term) (rows : List Row) (g n : FV) (kv : KeyVals) : Except Crash (Term × KeyVals) :=
  let c : FV := match t.pC with | some v => v | none => .none
  let tn : FV := match t.pTn with | some v => v | none => .none
  let s1 := proCaseStep t kv c
  let s2 := proTonicStep s1.1 s1.2 c tn
  proPersonStep s2.1 rows g n c tn s2.2

/-- Terminal.py:226-229: the person of the request -/
def reqPerson (t : Term) (setPerson : Bool) : Except Crash Int :=
  if setPerson then (match t.getPe with | .none => pure 3 | p => intOf p) else pure 3

/-- Terminal.py:230 -/
def baseKeyVals (setPerson : Bool) (pe : Int) (g n : FV) : KeyVals :=
  if setPerson then [(Feat.pe, .int pe), (Feat.g, g), (Feat.n, n)] else [(Feat.g, g), (Feat.n, n)]

/-- Terminal.py:231-233: a majestic determiner may change its owner or its lemma; the declension is then re-read -/
def majesticStep (rules : Rules) (lex : Lex) (t : Term) (table : Table) (pe : Int) (n : FV) :
    Except Crash (Term × List Row) :=
  if t.pos ≠ .N ∧ t.isMajestic then do
    let (t1, reread) ← checkMajestic rules lex t pe n
    if reread then
      match t1.tab with
      | none => throw Crash.keyError
      | some tb => match lookup tb rules with
        | none => throw Crash.keyError
        | some tbl => pure (t1, tbl.rows)
    else pure (t1, table.rows)
  else pure (t, table.rows)

/-- Terminal.py:234-235 -/
def ownStep (t : Term) (kv : KeyVals) : KeyVals :=
  match t.pOwn with | some o => kv.set Feat.own o | none => kv

/-- everything `decline` does for N, D, Pro before calling `bestMatch` on a table of ≠ 1 rows: the terminal
    (possibly with another lemma after a majestic substitution), the rows in force and the request -/
def prepareNDP (rules : Rules) (lex : Lex) (t : Term) (table : Table) (g n : FV) (setPerson : Bool) :
    Except Crash (Term × List Row × KeyVals) := do
  let pe ← reqPerson t setPerson
  let (t, rows) ← majesticStep rules lex t table pe n
  let kv := ownStep t (baseKeyVals setPerson pe g n)
  if t.pos = .Pro then do
    let (t, kv) ← proKeyVals t rows g n kv
    pure (t, rows, kv)
  else pure (t, rows, kv)

/-- the checks on a noun after its form was found (Terminal.py:271-276; `check_gender_lexicon`, `check_countable`) -/
def nounChecks (lex : Lex) (t : Term) (g n : FV) (form : Str) : Except Crash Out :=
  match t.lang with
  | .fr =>
    match lookup t.lemma lex with
    | none => throw Crash.keyError
    | some info => match lookup "N".toList info with
      | none => throw Crash.keyError
      | some entry => match lookup "g".toList entry with
        | none => pure (morphoOut t)                                   -- "genre absent du lexique"
        | some lg =>
          if lg.toFV ≠ FV.x ∧ lg.toFV ≠ g then pure (morphoOut t)      -- "genre différent de celui du lexique"
          else pure ⟨[form], t.warns⟩
  | .en =>
    if n = .str ['p'] then
      match lookup t.lemma lex with
      | none => throw Crash.keyError
      | some info => match lookup "N".toList info with
        | none => throw Crash.keyError
        | some entry => match lookup "cnt".toList entry with
          | none => throw Crash.keyError
          | some cnt => if cnt = LV.str "no".toList then pure (morphoOut t) else pure ⟨[form], t.warns⟩
    else pure ⟨[form], t.warns⟩

/-- `decline` for N, D, Pro (the `A`/`Adv` branch is `declineAdj…`) -/
def declineNDP (rules : Rules) (lex : Lex) (t : Term) (table : Table) (stem : Str) (setPerson : Bool) :
    Except Crash Out := do
  let g0 := t.getG
  let g := if (t.pos = .D ∨ t.pos = .N) ∧ g0 = .none then FV.str ['m'] else g0
  let n0 := t.getN
  let n := if (t.pos = .D ∨ t.pos = .N) ∧ n0 = .none then FV.str ['s'] else n0
  match table.rows with
  | [d] =>
    let form := stem ++ d.val
    if t.pos = .N then nounChecks lex t g n form else pure ⟨[form], t.warns⟩
  | _ => do
    let (t1, rows, kv) ← prepareNDP rules lex t table g n setPerson
    match bestMatch rows kv with
    | none => pure ⟨[bracket t1.lemma], t1.warns + 2⟩   -- morphoError in bestMatch, then in decline
    | some e =>
      match t1.stem with
      | none => throw Crash.attributeError
      | some st =>
        let form := st ++ e
        if t1.pos = .N then nounChecks lex t1 g n form else pure ⟨[form], t1.warns⟩

/-- the auxiliary lemmas of the periphrases (named so that proofs can refer to them) -/
def wMore : Str := "more".toList
def wMost : Str := "most".toList
def wPlus : Str := "plus".toList
def wLe : Str := "le".toList

/-- TerminalEn.py:31-39: the rows in which the comparative is looked up and the stem the ending is attached to: the
    terminal's own table and stem, or — adverb "without comparative" (`b1`) — the table of the homonymous adjective
    and the adjective's stem (the adverb's stem minus the ending of the adjective's table);
    `none`: there is no such adjective -/
def adjRowsEn (rules : Rules) (lex : Lex) (t : Term) (tb : Str) (table : Table) (stem : Str) :
    Except Crash (Option (List Row × Str)) :=
  if tb = "b1".toList then
    match lookup t.lemma lex with
    | none => throw Crash.typeError
    | some info => match lookup "A".toList info with
      | none => pure none                                   -- adverb without adjective
      | some aentry => match lookup "tab".toList aentry with
        | some (LV.str atab) => match lookup atab rules with
          | some atable =>
            pure (some (atable.rows, if atable.ending.length > 0 then dropRight stem atable.ending.length else stem))
          | none => throw Crash.keyError
        | _ => throw Crash.keyError
  else pure (some (table.rows, stem))

/-- `TerminalEn.decline_adj_adv` -/
def declineAdjEn (rules : Rules) (lex : Lex) (t : Term) (tb : Str) (table : Table) (stem : Str) :
    Except Crash Out :=
  match t.pF with
  | none => pure ⟨[t.lemma], t.warns⟩
  | some FV.none => pure ⟨[t.lemma], t.warns⟩
  | some (FV.bool false) => pure ⟨[t.lemma], t.warns⟩
  | some f =>
    if tb = "a1".toList then do
      let comp ← mkTerm rules lex .en .Adv (if f = .str "co".toList then wMore else wMost)
      pure ⟨[comp.lemma, t.lemma], t.warns + comp.warns⟩
    else do
      let rows? ← adjRowsEn rules lex t tb table stem
      match rows? with
      | none => pure ⟨[t.lemma], t.warns⟩
      | some (rows, st) =>
        match bestMatch rows [(Feat.f, f)] with
        | none => pure ⟨[bracket t.lemma], t.warns + 2⟩
        | some e => pure ⟨[st ++ e], t.warns⟩

/-- `specialFRcomp` -/
def specialFrComp (lemma : Str) : Option Str :=
  if lemma = "bon".toList then some "meilleur".toList
  else if lemma = "mauvais".toList then some "pire".toList
  else none

/-- TerminalFr.py:27-32 / 35-40: the comparative proper — `meilleur`/`pire` inflected for `bon`/`mauvais`, else
    `plus` followed by the adjective inflected; realizations and number of warnings of the auxiliary terminals -/
def frComp (sub : Pos → Str → FV → FV → Except Crash (Str × Nat)) (lemma : Str) (g n : FV) :
    Except Crash (List Str × Nat) :=
  match specialFrComp lemma with
  | some sp => do
    let (r, w) ← sub .A sp g n
    pure ([r], w)
  | none => do
    let (r1, w1) ← sub .Adv wPlus g n
    let (r2, w2) ← sub .A lemma g n
    pure ([r1, r2], w1 + w2)

/-- `TerminalFr.decline_adj_adv`; `sub pos lemma g n` realizes the auxiliary terminal `pos(lemma).g(g).n(n)`
    (`Adv("plus")` without options) and returns its realization and its warnings -/
def declineAdjFr (sub : Pos → Str → FV → FV → Except Crash (Str × Nat)) (t : Term) (table : Table) (stem : Str) :
    Except Crash Out :=
  match bestMatch table.rows [(Feat.g, t.getG), (Feat.n, t.getN)] with
  | none => pure ⟨[bracket t.lemma], t.warns + 2⟩
  | some e =>
    match t.pF with
    | none => pure ⟨[stem ++ e], t.warns⟩
    | some FV.none => pure ⟨[stem ++ e], t.warns⟩
    | some (FV.bool false) => pure ⟨[stem ++ e], t.warns⟩
    | some f =>
      if f = .str "co".toList then do
        let (rs, w) ← frComp sub t.lemma t.getG t.getN
        pure ⟨rs, t.warns + w⟩
      else if f = .str "su".toList then do
        let (r0, w0) ← sub .D wLe t.getG t.getN
        let (rs, w) ← frComp sub t.lemma t.getG t.getN
        pure ⟨r0 :: rs, t.warns + w0 + w⟩
      else pure ⟨[], t.warns⟩

/-- `Terminal.decline(setPerson)` -/
def declineGen (sub : Pos → Str → FV → FV → Except Crash (Str × Nat)) (rules : Rules) (lex : Lex) (t : Term)
    (tb : Str) (setPerson : Bool) : Except Crash Out :=
  match lookup tb rules with
  | none => throw Crash.keyError
  | some table =>
    match t.stem with
    | none => throw Crash.attributeError
    | some stem =>
      if t.pos = .A ∨ t.pos = .Adv then
        match t.lang with
        | .en => declineAdjEn rules lex t tb table stem
        | .fr => declineAdjFr sub t table stem
      else declineNDP rules lex t table stem setPerson

/-- `doFormat`'s `removeEmpty`: an empty realization is deleted while more than one token is left -/
def removeEmptyAux : List Str → Nat → List Str
  | [], _ => []
  | x :: r, len => if x = [] ∧ len > 1 then removeEmptyAux r (len - 1) else x :: removeEmptyAux r len
def removeEmpty (l : List Str) : List Str := removeEmptyAux l l.length

/-- `Terminal.real()` followed by `doFormat` (without `doElision`, see the header) -/
def realGen (sub : Pos → Str → FV → FV → Except Crash (Str × Nat)) (rules : Rules) (lex : Lex) (t : Term) :
    Except Crash Out := do
  let plain : Except Crash Out :=
    match t.real with
    | some r => pure ⟨[r], t.warns⟩
    | none => throw Crash.attributeError      -- `None.startswith` in detokenize
  let out ← (match t.pos with
    | .N | .A => (match t.tab with | some tb => declineGen sub rules lex t tb false | none => plain)
    | .Adv => (match t.tab with
        | some tb => declineGen sub rules lex t tb false
        | none => (match t.real with | some r => pure ⟨[r], t.warns⟩ | none => pure ⟨[t.lemma], t.warns⟩))
    | .D | .Pro => (match t.tab with | some tb => declineGen sub rules lex t tb true | none => plain))
  pure { out with toks := removeEmpty out.toks }

/-- realization of a terminal that carries no `f` (the auxiliary terminals of the French comparative) -/
def realBase (rules : Rules) (lex : Lex) (t : Term) : Except Crash Out :=
  realGen (fun _ _ _ _ => throw Crash.other) rules lex t

def fvToOV : FV → OV
  | .str v => .str v
  | .int i => .int i
  | .none => .none
  | .bool b => .bool b

/-- `insertReal(res, pos(lemma).g(g).n(n))` / `insertReal(res, Adv("plus"))` in French: the realization of the
    auxiliary terminal and the warnings it raised -/
def subFr (rules : Rules) (lex : Lex) (pos : Pos) (lemma : Str) (g n : FV) : Except Crash (Str × Nat) := do
  let t0 ← mkTerm rules lex .fr pos lemma
  let t1 ← (if pos = .Adv then pure t0 else applyOpts t0 [("g".toList, fvToOV g), ("n".toList, fvToOV n)])
  let out ← realBase rules lex t1
  match out.toks with
  | [r] => pure (r, out.warns)
  | _ => throw Crash.other      -- unreachable: a terminal without `f` yields one token

/-- `Terminal.real()` + `doFormat` -/
def realTerm (rules : Rules) (lex : Lex) (t : Term) : Except Crash Out :=
  realGen (subFr rules lex) rules lex t

/-- `detokenize` for a parentless terminal: tokens separated by a blank, none after a token ending in `-`, blank
    or `'`; one leading blank of a token is dropped; empty tokens add nothing -/
def stripLead (x : Str) : Str := match x with | ' ' :: r => r | _ => x
def endsGlue (x : Str) : Bool :=
  match x.getLast? with
  | some c => c = '-' ∨ c = ' ' ∨ c = '\''
  | none => false
def detok : List Str → Str
  | [] => []
  | [x] => stripLead x
  | x :: r =>
    let x' := stripLead x
    if endsGlue x' then x' ++ detok r
    else if x' ≠ [] then x' ++ ' ' :: detok r
    else detok r

/-- a request: constructor, lemma, option calls in order -/
structure Spec where
  lang : Lang
  pos : Pos
  lemma : Str
  opts : List (Str × OV)
  deriving Repr

/-- `pos(lemma).opt1(v1)…​.real()` with `lang` current; `rules`, `lex` those of `lang` -/
def realize (rules : Rules) (lex : Lex) (sp : Spec) : Except Crash Out := do
  let t0 ← mkTerm rules lex sp.lang sp.pos sp.lemma
  let t1 ← applyOpts t0 sp.opts
  realTerm rules lex t1

/-- the realized string `pos(lemma).opt1(v1)…​.realize()` -/
def realizeText (rules : Rules) (lex : Lex) (sp : Spec) : Except Crash Str := do
  let o ← realize rules lex sp
  pure (detok o.toks)

end Pyrealb.Decl
