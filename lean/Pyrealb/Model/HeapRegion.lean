import Pyrealb.Model.HeapLink
/-! # Regions of the store: the closure of a node = its connected tree

What Python's object graph reaches from a constituent: its children (`elements`/`dependents`), its `terminal`, its
`parentConst` (so the WHOLE tree the node belongs to), and the back references `cod` and `subject`.
`closure h x` computes that set (sorted by handle); it is closed under these edges BY CONSTRUCTION (the loop stops
on the decidable test `closedB`), see `Lemmas/HeapClone`.  `planLocal` is the locality test of a link plan used by
`HeapOps.linkR`: the modelled fragment consists of the link runs that only mention nodes of the closure of their
receiver (the correspondence checks run it on every node of every state: it has never failed). -/
namespace Pyrealb.Heap
open Pyrealb

/-- the nodes directly referenced by `x` -/
def nbrs (h : Heap) (x : Nat) : List Nat :=
  h.kids x ++ (h.node x).term.toList ++ (h.node x).parent.toList ++ (h.cod x).toList ++
    (match h.subject x with | some (some y) => [y] | _ => [])

/-- `S` is closed under the edges, and consists of existing nodes -/
def closedB (h : Heap) (S : List Nat) : Bool :=
  S.all (fun x => decide (x < h.n) && (nbrs h x).all (fun y => S.contains y))

def closureLoop : Nat → Heap → List Nat → Option (List Nat)
  | 0, h, S => if closedB h S then some S else none
  | fuel + 1, h, S =>
    if closedB h S then some S
    else closureLoop fuel h (S ++ (S.flatMap (nbrs h)).filter (fun y => !S.contains y))

/-- the connected tree of `x`, sorted by handle; `none`: a dangling reference (never in a reachable store) -/
def closure (h : Heap) (x : Nat) : Option (List Nat) :=
  match closureLoop h.n h [x] with
  | none => none
  | some S =>
    let C := (List.range h.n).filter (fun y => S.contains y)
    if closedB h C && C.contains x then some C else none

/-- the nodes an assignment mentions -/
def Act.nodes : Act → List Nat
  | .setPeng _ x y => [x, y]
  | .setTaux _ x y => [x, y]
  | .writeN _ y _ => [y]
  | .copyG _ t y => [t, y]
  | .fresh x _ => [x]
  | .setCod x y => [x, y]
  | .setSubject x y => x :: y.toList
  | .morphoError x => [x]
  | .guardHas o => [o]
  | .crash _ => []

/-- does the plan of a link run of `p` stay inside the connected tree of `p`? -/
def planLocal (h : Heap) (p : Nat) (acts : List Act) : Bool :=
  match closure h p with
  | none => false
  | some C => acts.all (fun a => a.nodes.all (fun y => C.contains y))

end Pyrealb.Heap
