import Pyrealb.Model.HeapRegion
import Pyrealb.Model.GetElems
/-! # Construction operations on the store and histories

`mkTerminal` (the lexicon look-up of `Terminal.setLemma` is NOT modelled: the initial own props and the initial
content of the `peng`/`taux` records are inputs), `mkPhrase` (`Phrase.__init__`, Phrase.py:6-29), `phraseAdd`
(`Phrase.add`, Phrase.py:77-114, with `addElement`, `removeElement` and the adjective re-ordering loop), `mkDep`
(`Dependent.__init__`, Dependent.py:7-39), `depAdd` (`Dependent.add/addDependent`), `opt` (the option methods made by
`makeOptionMethod`, Constituent.py:496-533, for pe, n, g, t, aux, pos, poss, ow), `typ` (`Model/Typ`).

A `str` child (turned into a `Q` by the code) is outside the fragment. -/
namespace Pyrealb.Heap
open Pyrealb Pyrealb.GetElems

/-- result of an operation: a value, a Python exception, or "outside the modelled fragment" -/
inductive R (α : Type) where
  | ok (a : α)
  | crash (c : Crash)
  | outside
  deriving Repr

def R.bind {α β} (x : R α) (f : α → R β) : R β :=
  match x with
  | .ok a => f a
  | .crash c => .crash c
  | .outside => .outside

instance : Monad R where
  pure := R.ok
  bind := R.bind

/-- an argument object: a node of the store or something that is not a Constituent -/
inductive Item where
  | node (x : Nat)
  | bad
  deriving DecidableEq, Repr

/-- `x.linkProperties()` as an operation -/
def linkR (h : Heap) (p : Nat) : R Heap :=
  match plan h p with
  | none => .outside
  | some acts =>
    if !planLocal h p acts then .outside      -- fragment: the run only mentions nodes of the tree of `p`
    else
    match exec h acts with
    | .error c => .crash c
    | .ok h' => .ok h'

/-! ### terminals -/

structure TermSpec where
  kind : Kind
  lang : Lang
  lemma : Str
  props : Dict := []            -- own props after construction
  pe : Val := .none             -- initial content of the `peng` record (when the kind has one)
  n : Val := .none
  g : Val := .none
  t : Val := .none              -- initial `taux["t"]` of a V
  aux : Option Val := none      -- initial `taux["aux"]` of a V (from the lexicon entry), when present
  gram0 : Val := .none
  ord : Bool := false
  warns : Nat := 0              -- warnings issued by the constructor (unknown lemma …)
  deriving Repr

/-- `Terminal(kind, lemma)` : returns the new store and the handle -/
def mkTerminal (h : Heap) (sp : TermSpec) : Heap × Nat :=
  let x := h.n
  let nd : Node := { kind := sp.kind, lang := sp.lang, lemma := sp.lemma, props := sp.props,
                     gram0 := sp.gram0, ord := sp.ord }
  let h1 : Heap := { h with n := x + 1, node := upd h.node x nd, warns := h.warns + sp.warns }
  let h2 : Heap :=
    if sp.kind.hasPengInit then
      { h1 with peng := upd h1.peng x (some (ownRec h1.nRec)),
                prec := upd h1.prec (ownRec h1.nRec) { pe := some sp.pe, n := some sp.n, g := some sp.g },
                nRec := h1.nRec + 1 }
    else h1
  let h3 : Heap :=
    if sp.kind = .V then
      { h2 with taux := upd h2.taux x (some h2.nTRec), trec := upd h2.trec h2.nTRec { t := some sp.t, aux := sp.aux },
                nTRec := h2.nTRec + 1 }
    else h2
  (h3, x)

/-! ### phrases -/

def setKids (h : Heap) (p : Nat) (l : List Nat) : Heap :=
  h.setNode p { h.node p with kids := l }
def setParent (h : Heap) (x : Nat) (par : Option Nat) : Heap :=
  h.setNode x { h.node x with parent := par }

/-- `l.insert(i, x)` for `0 ≤ i ≤ len l` -/
def insertAt (l : List Nat) (i : Nat) (x : Nat) : List Nat := l.take i ++ x :: l.drop i

/-- the list part of `Phrase.addElement(elem, position)` / `Dependent.addDependent` for a Constituent `elem` -/
def addElement (h : Heap) (p e : Nat) (pos : Option Int) : Heap :=
  let h := setParent h e (some p)
  let l := h.kids p
  match pos with
  | none => setKids h p (l ++ [e])
  | some i =>
    if 0 ≤ i ∧ i ≤ (l.length : Int) then setKids h p (insertAt l i.toNat e)
    else h.warn

/-- `Phrase.removeElement(position)` for a valid position -/
def removeElement (h : Heap) (p i : Nat) : Heap × Option Nat :=
  let l := h.kids p
  match l[i]? with
  | none => (h.warn, none)
  | some e => (setParent (setKids h p (l.eraseIdx i)) e none, some e)

def adjDefPos : Lang → Val
  | .en => .s (s "pre")
  | .fr => .s (s "post")

/-- `allAorN(elems, start, end)` -/
def allAorN (h : Heap) (l : List Nat) (a c : Nat) : Bool :=
  let lo := min a c
  let hi := max a c
  ((l.drop lo).take (hi + 1 - lo)).all (fun e => h.isA e [.A, .N])

/-- `self.addElement(self.removeElement(i), idx)` -/
def moveElement (h : Heap) (p i idx : Nat) : Heap :=
  match removeElement h p i with
  | (h1, some e1) => addElement h1 p e1 (some idx)
  | (h1, none) => h1

/-- one iteration of the re-ordering loop of `Phrase.add` (Phrase.py:101-113) -/
def reorderStep (h : Heap) (p i : Nat) : Heap :=
  match (h.kids p)[i]? with
  | none => h
  | some e =>
    if h.kind e = .A then
      match h.getIndex p [.N] with
      | none => h
      | some idx =>
        let pos := match lookup posKey (h.node e).props with
          | some v => v
          | none => adjDefPos (h.node p).lang
        if (pos.pyEq (.s (s "pre")) && i > idx) || (pos.pyEq (.s (s "post")) && i < idx) then
          if allAorN h (h.kids p) i idx then moveElement h p i idx
          else h
        else h
    else h

def reorderLoop (h : Heap) (p : Nat) : List Nat → Heap
  | [] => h
  | i :: is => reorderLoop (reorderStep h p i) p is

def reorder (h : Heap) (p : Nat) : Heap := reorderLoop h p (List.range (h.kids p).length)

/-- the re-linking of the ancestors after an `add` (Phrase.py:100-104, Dependent.py:94-98) -/
def relinkUp : Nat → Heap → Nat → R Heap
  | 0, _, _ => .outside                      -- a cycle of parentConst: the Python loop does not terminate
  | fuel + 1, h, x =>
    match (h.node x).parent with
    | none => .ok h
    | some q =>
      match linkR h q with
      | .ok h' => relinkUp fuel h' q
      | .crash c => .crash c
      | .outside => .outside

/-- `Phrase.add(constituent, position)` for a Constituent: insertion, `linkProperties`, `linkProperties` of every
    ancestor (`pc = self.parentConst; while pc is not None: pc.linkProperties(); pc = pc.parentConst`), then the
    adjective re-ordering -/
def phraseAdd1 (h : Heap) (p e : Nat) (pos : Option Int) : R Heap :=
  match linkR (addElement (setParent h e (some p)) p e pos) p with
  | .ok h2 =>
    match relinkUp (h2.n + 1) h2 p with
    | .ok h3 => .ok (reorder h3 p)
    | .crash c => .crash c
    | .outside => .outside
  | .crash c => .crash c
  | .outside => .outside

mutual
/-- `Phrase.add(constituent, position)` for any argument -/
def phraseAdd (h : Heap) (p : Nat) (pos : Option Int) : Arg Item → R Heap
  | .none => .ok h
  | .item (.node e) => phraseAdd1 h p e pos
  | .item .bad => .ok h.warn
  | .list [] => .ok h
  | .list [c] =>
    match c with
    | .none => .ok h
    | .item (.node e) => phraseAdd1 h p e pos
    | .item .bad => .ok h.warn
    | .list _ => .ok h.warn            -- `constituent = constituent[0]` is itself a list: "bad Constituent"
  | .list (c :: d :: r) => phraseAddAll h p pos (c :: d :: r)
def phraseAddAll (h : Heap) (p : Nat) (pos : Option Int) : List (Arg Item) → R Heap
  | [] => .ok h
  | c :: cs =>
    match phraseAdd h p pos c with
    | .ok h1 =>
      -- `position += len(self.elements) - nb` : the next element of the list goes after the ones just inserted
      phraseAddAll h1 p (pos.map (fun i => i + ((h1.kids p).length : Int) - ((h.kids p).length : Int))) cs
    | .crash e => .crash e
    | .outside => .outside
end

/-- the items of an already flattened argument list -/
def itemsOf : List (Arg Item) → List Item
  | [] => []
  | .item i :: r => i :: itemsOf r
  | _ :: r => itemsOf r

/-- the loop of `Phrase.__init__` over all elements but the last -/
def initElems (h : Heap) (p : Nat) : List Item → Heap
  | [] => h
  | .node e :: r => initElems (setKids (setParent h e (some p)) p (h.kids p ++ [e])) p r
  | .bad :: r => initElems h.warn p r

/-- `Phrase(constType, elements)` : `PhraseEn`/`PhraseFr` according to `lang` -/
def mkPhrase (h : Heap) (k : Kind) (lang : Lang) (args : List (Arg Item)) : R (Heap × Nat) :=
  let x := h.n
  let h1 : Heap := { h with n := x + 1, node := upd h.node x { kind := k, lang := lang } }
  let elements := if args.isEmpty then [] else itemsOf (getElems args)
  match elements.getLast? with
  | none => .ok (h1, x)
  | some last =>
    let h2 := initElems h1 x elements.dropLast
    match phraseAdd h2 x none (.item last) with
    | .ok h3 => .ok (h3, x)
    | .crash c => .crash c
    | .outside => .outside

/-! ### dependents -/

/-- `Dependent.add(dependent, position)` -/
def depAdd (h : Heap) (p : Nat) (pos : Option Int) : Arg Item → R Heap
  | .item (.node d) =>
    if (h.kind d).isDep then
      match linkR (addElement h p d pos) p with
      | .ok h2 => relinkUp (h2.n + 1) h2 p
      | .crash c => .crash c
      | .outside => .outside
    else .ok h.warn
  | _ => .ok h.warn

def initDeps (h : Heap) (p : Nat) : List Item → Heap
  | [] => h
  | .node d :: r =>
    if (h.kind d).isDep then initDeps (addElement h p d none) p r else initDeps h.warn p r
  | .bad :: r => initDeps h.warn p r

/-- `Dependent(params, deprel)` -/
def mkDep (h : Heap) (k : Kind) (lang : Lang) (params : List (Arg Item)) : R (Heap × Nat) :=
  match params with
  | [] => .outside                              -- a warning; the dummy Q("*terminal") is kept as head
  | .item (.node t) :: rest =>
    if !(h.kind t).isTerminal then .outside     -- "Dependent needs Terminal": the dummy Q("*terminal") stays
    else
      let x := h.n
      let h1 : Heap := { h with n := x + 1, node := upd h.node x { kind := k, lang := lang, term := some t } }
      let h2 := setParent h1 t (some x)
      let h3 : Heap := match h2.peng t with
        | some r => { h2 with peng := upd h2.peng x (some r) }
        | none => h2
      let h4 : Heap := if h3.kind t = .V then { h3 with taux := upd h3.taux x (h3.taux t) } else h3
      let ps := itemsOf (getElems rest)
      match ps.getLast? with
      | none => .ok (h4, x)
      | some last =>
        let h5 := initDeps h4 x ps.dropLast
        match depAdd h5 x none (.item last) with
        | .ok h6 => .ok (h6, x)
        | .crash c => .crash c
        | .outside => .outside
  | _ => .outside

/-! ### options -/

structure OptSpec where
  name : Str                 -- method name
  prop : Str                 -- property set
  valid : List Val
  emptyOk : Bool             -- `"" in validVals`
  allowed : List Kind        -- `allowedConsts` (never empty for the options modelled here)

def vs (x : String) : Val := .s (s x)

def optSpecs : List OptSpec := [
  { name := s "pe", prop := s "pe", valid := [.i 1, .i 2, .i 3, vs "1", vs "2", vs "3"], emptyOk := false,
    allowed := [.D, .Pro, .N, .NP, .A, .AP, .V, .VP, .S, .SP, .CP] },
  { name := s "n", prop := s "n", valid := [vs "s", vs "p", vs "x"], emptyOk := false,
    allowed := [.D, .Pro, .N, .NO, .NP, .A, .AP, .V, .VP, .S, .SP, .CP] },
  { name := s "g", prop := s "g", valid := [vs "m", vs "f", vs "n", vs "x"], emptyOk := false,
    allowed := [.D, .Pro, .N, .NP, .A, .AP, .V, .VP, .S, .SP, .CP] },
  { name := s "t", prop := s "t",
    valid := ["p", "i", "f", "ps", "c", "s", "si", "ip", "pr", "pp", "b", "b-to", "pc", "pq", "cp", "pa", "fa",
              "spa", "spq", "bp", "bp-to"].map vs, emptyOk := false, allowed := [.V, .VP, .S, .SP, .CP] },
  { name := s "aux", prop := s "aux", valid := [vs "av", vs "êt", vs "aê"], emptyOk := false,
    allowed := [.V, .VP, .S, .SP, .CP] },
  { name := s "pos", prop := s "pos", valid := [vs "post", vs "pre"], emptyOk := false,
    allowed := [.A, .Adv, .root, .subj, .det, .mod, .comp, .coord] },
  { name := s "poss", prop := s "poss", valid := [vs "", .b false, .b true], emptyOk := true, allowed := [.N, .Q] },
  { name := s "ow", prop := s "own", valid := [vs "s", vs "p", vs "x"], emptyOk := false, allowed := [.D, .Pro] }
]

/-- the method made by `makeOptionMethod(option, validVals, allowedConsts, optionName)` applied to `x`;
    `fuel` bounds the propagation through nested CPs -/
def optRun (sp : OptSpec) (val : Val) : Nat → Heap → Nat → Heap
  | 0, h, _ => h
  | fuel + 1, h, x =>
    if val == .none && !sp.emptyOk then h.warn
    else if h.kind x = .CP && sp.name != s "pos" then
      (h.kids x).foldl (fun acc e => if sp.allowed.contains (acc.kind e) then optRun sp val fuel acc e else acc) h
    else if h.kind x = .coord && sp.name != s "pos" then
      (h.kids x).foldl (fun acc d =>
        match (acc.node d).term with
        | some t => if sp.allowed.contains (acc.kind t) then optRun sp val fuel acc t else acc
        | none => acc) h
    else if sp.allowed.contains (h.kind x) || (h.kind x).isDep then
      if val == .none then h.setProp x sp.prop (.b true)
      else if !(val.pyIn sp.valid) then
        if (Val.b false).pyIn sp.valid then (h.warn).setProp x sp.prop (.b false) else h.warn
      else h.setProp x sp.prop val
    else h.warn

def opt (h : Heap) (x : Nat) (name : Str) (val : Val) : R Heap :=
  match optSpecs.find? (fun sp => sp.name == name) with
  | none => .outside
  | some sp => .ok (optRun sp val (h.n + 1) h x)

/-! ### typ -/

def typReceiverOk (k : Kind) : Bool := Gen.TypConsts.typReceivers.contains (s k.name)

def typOp (h : Heap) (x : Nat) (arg : Typ.Arg) : Heap :=
  let nd := h.node x
  let r := Typ.typ nd.lang (typReceiverOk nd.kind) nd.typ arg
  (h.setNode x { nd with typ := r.stored }).warn r.warns

/-! ### histories -/

inductive Op where
  | mkT (sp : TermSpec)
  | mkP (k : Kind) (lang : Lang) (args : List (Arg Item))
  | mkD (k : Kind) (lang : Lang) (params : List (Arg Item))
  | add (p : Nat) (arg : Arg Item) (pos : Option Int)
  | opt (x : Nat) (name : Str) (val : Val)
  | typ (x : Nat) (arg : Typ.Arg)
  deriving Repr

mutual
def argHandles : Arg Item → List Nat
  | .none => []
  | .item (.node x) => [x]
  | .item .bad => []
  | .list l => argsHandles l
def argsHandles : List (Arg Item) → List Nat
  | [] => []
  | a :: r => argHandles a ++ argsHandles r
end

/-- one operation of a history (`outside` also when a handle does not exist yet) -/
def runOp (h : Heap) : Op → R Heap
  | .mkT sp => .ok (mkTerminal h sp).1
  | .mkP k lang args =>
    if !k.isPhrase || (argsHandles args).any (· ≥ h.n) then .outside
    else match mkPhrase h k lang args with
      | .ok r => .ok r.1
      | .crash c => .crash c
      | .outside => .outside
  | .mkD k lang params =>
    if !k.isDep || (argsHandles params).any (· ≥ h.n) then .outside
    else match mkDep h k lang params with
      | .ok r => .ok r.1
      | .crash c => .crash c
      | .outside => .outside
  | .add p arg pos =>
    if p ≥ h.n || (argHandles arg).any (· ≥ h.n) then .outside
    else if (h.kind p).isPhrase then phraseAdd h p pos arg
    else if (h.kind p).isDep then depAdd h p pos arg
    else if pos.isSome then .crash .typeError      -- `Terminal.add(self, _)` takes one argument
    else .ok h.warn                                -- `Terminal.add` warns
  | .opt x name val => if x ≥ h.n then .outside else opt h x name val
  | .typ x arg => if x ≥ h.n then .outside else .ok (typOp h x arg)

/-- run a history from a store; stops at the first exception / construct outside the fragment -/
def runOps : Heap → List Op → R Heap
  | h, [] => .ok h
  | h, o :: os =>
    match runOp h o with
    | .ok h' => runOps h' os
    | .crash c => .crash c
    | .outside => .outside

end Pyrealb.Heap
