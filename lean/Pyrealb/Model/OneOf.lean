/-! Model of `utils.oneOf`, `utils.choice`, `utils.mix` (src/pyrealb/utils.py:13-82).

The random source is a parameter: every call carries `perm`, the content of `indices` right after
`random.shuffle(indices)` *would* run at that call (consulted only when the code shuffles), in Python
list order (`pop()` takes the last element).
-/
namespace Pyrealb.OneOf

/-- Python: `indices[0],indices[-1] = indices[-1],indices[0]`. -/
def swapFL : List Nat → List Nat
  | [] => []
  | [a] => [a]
  | a :: rest => rest.getLast! :: (rest.dropLast ++ [a])

/-- `idx = indices.pop()` : `(idx, indices afterwards)`; `none` = `IndexError: pop from empty list`. -/
def pop? (l : List Nat) : Option (Nat × List Nat) :=
  match l.getLast? with
  | none => none
  | some i => some (i, l.dropLast)

/-- the reshuffle of lines 44-50: `indices = perm; if indices[-1] == idx: swap first and last`. -/
def reshuffle (idx : Nat) (perm : List Nat) : List Nat :=
  match perm.getLast? with
  | none => perm
  | some j => if j = idx then swapFL perm else perm

/-- One call with `l ≥ 2` alternatives for one key. `mem = none`: key not yet in the dict. -/
def stepPy (mem : Option (List Nat)) (perm : List Nat) : Option (Nat × List Nat) :=
  match mem with
  | none => pop? perm
  | some indices =>
    match pop? indices with
    | none => none
    | some (idx, rest) =>
      if rest.length = 0 then some (idx, reshuffle idx perm) else some (idx, rest)

/-- the indices returned by successive calls on one key, given the shuffle outcome offered at each call -/
def runPy : Option (List Nat) → List (List Nat) → List (Option Nat)
  | _, [] => []
  | mem, p :: ps =>
    match stepPy mem p with
    | none => none :: runPy mem ps
    | some (i, m) => some i :: runPy (some m) ps

/-! ### the whole function: dict of memories, `l = 0`, `l = 1`, callables -/

/-- an alternative: a plain value (its position is its identity) or a callable -/
inductive Alt where
  | val | fn
  deriving DecidableEq, Repr

structure Call (κ : Type) where
  key   : κ            -- `repr(elems)`
  alts  : List Alt     -- the alternatives (only callable-ness matters to the control flow)
  perm  : List Nat     -- shuffle outcome offered to this call

/-- result of one call: the selected index (`none` = returns `None` for an empty list), the indices of the
    callables that were invoked, or `err` = an exception escaped -/
inductive Res where
  | ret (idx : Option Nat) (called : List Nat)
  | err
  deriving DecidableEq, Repr

abbrev Dict (κ : Type) := List (κ × List Nat)

def dget {κ} [DecidableEq κ] (d : Dict κ) (k : κ) : Option (List Nat) :=
  match d with
  | [] => none
  | (k', v) :: r => if k' = k then some v else dget r k

def dset {κ} [DecidableEq κ] (d : Dict κ) (k : κ) (v : List Nat) : Dict κ :=
  match d with
  | [] => [(k, v)]
  | (k', v') :: r => if k' = k then (k, v) :: r else (k', v') :: dset r k v

def calledOf (alts : List Alt) (i : Nat) : List Nat :=
  if alts[i]? = some Alt.fn then [i] else []

def oneOf {κ} [DecidableEq κ] (d : Dict κ) (c : Call κ) : Res × Dict κ :=
  let l := c.alts.length
  if l = 0 then (.ret none [], d)
  else if l = 1 then (.ret (some 0) (calledOf c.alts 0), d)
  else
    match stepPy (dget d c.key) c.perm with
    | none => (.err, d)
    | some (i, m) => (.ret (some i) (calledOf c.alts i), dset d c.key m)

def runAll {κ} [DecidableEq κ] : Dict κ → List (Call κ) → List Res
  | _, [] => []
  | d, c :: cs => (oneOf d c).1 :: runAll (oneOf d c).2 cs

/-- `choice`: `r` is what `random.choice` picks (an index `< l`). -/
def choice (alts : List Alt) (r : Nat) : Res :=
  let l := alts.length
  if l = 0 then .ret none []
  else if l = 1 then .ret (some 0) (calledOf alts 0)
  else if r < l then .ret (some r) (calledOf alts r) else .err

/-- `mix`: `perm` = outcome of `random.shuffle` on the copy. Returns the order of the results and
    the callables invoked, in order. -/
def mix (alts : List Alt) (perm : List Nat) : List Nat × List Nat :=
  (perm, perm.filter (fun i => alts[i]? = some Alt.fn))

end Pyrealb.OneOf
