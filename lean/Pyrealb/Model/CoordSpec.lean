import Pyrealb.Model.Coord
/-! Declarative specifications used by the C09 theorems: what the PROPERTY says a coordination is, stated on
    positions and on the set of members — no loop, no accumulator. -/
namespace Pyrealb.Coord
open Pyrealb

/-- the member as it stands, with a comma appended to its last token — unless the member already carries a comma
    of its own among its after-punctuation (reading fixed for C09: such a member IS separated by a comma) -/
def withComma (pt : Str → Str) (m : Member) : List Str :=
  if comma ∈ m.a.getD [] then alone pt m else appendLast (alone pt m) (pt comma)

/-- what position `i` (0-based) of `n` members contributes: the conjunction (if any) right before the last
    member; a comma after every member but the last (no conjunction) / but the last two (conjunction) -/
def pieceAt (pt : Str → Str) (ctoks : Option (List Str)) (n i : Nat) (m : Member) : List Str :=
  (if i + 1 = n then ctoks.getD [] else []) ++
  (if i + 2 < n ∨ (ctoks = none ∧ i + 1 < n) then withComma pt m else alone pt m)

def specFrom (pt : Str → Str) (ctoks : Option (List Str)) (n k : Nat) (ms : List Member) : List Str :=
  ((ms.zipIdx k).map (fun p => pieceAt pt ctoks n p.2 p.1)).flatten

/-- “the members in order separated by commas with the conjunction, if any, only before the last” -/
def specToks (pt : Str → Str) (ctoks : Option (List Str)) (ms : List Member) : List Str :=
  specFrom pt ctoks ms.length 0 ms

/-- “plural when two or more members are joined by and/et and otherwise only if some member is plural” -/
def SpecPlural (isAnd : Bool) (ms : List Member) : Prop :=
  (2 ≤ ms.length ∧ isAnd = true) ∨ ∃ m ∈ ms, m.n = some plural

/-- “the lowest person among its members” (third person when nobody states one) -/
def IsMinPerson (p : Nat) (ms : List Member) : Prop :=
  p ≤ 3 ∧ (∀ m ∈ ms, ∀ k, m.peN = some k → p ≤ k) ∧ (p = 3 ∨ ∃ m ∈ ms, m.peN = some p)

/-- “masculine as soon as one member is masculine” -/
def SpecMasc (ms : List Member) : Prop := ∃ m ∈ ms, m.g = some masc

/-- persons are 1, 2, 3 — given as a number or as a digit string (both are valid values of the option `pe`) -/
def okPe (m : Member) : Bool :=
  match m.pe with
  | none => true
  | some v => match v.nat? with
    | some k => decide (1 ≤ k ∧ k ≤ 3)
    | none => false

def ValidPe (ms : List Member) : Prop := ∀ m ∈ ms, okPe m = true

instance (b : Bool) (ms : List Member) : Decidable (SpecPlural b ms) := by unfold SpecPlural; infer_instance
instance (ms : List Member) : Decidable (SpecMasc ms) := by unfold SpecMasc; infer_instance
instance (ms : List Member) : Decidable (ValidPe ms) := by unfold ValidPe; infer_instance

theorem ValidPe.get {ms : List Member} (h : ValidPe ms) {m : Member} (hm : m ∈ ms) {k : Nat}
    (hk : m.peN = some k) : 1 ≤ k ∧ k ≤ 3 := by
  have := h m hm
  unfold okPe at this
  unfold Member.peN at hk
  cases hpe : m.pe with
  | none => rw [hpe] at hk; cases hk
  | some v =>
    rw [hpe] at hk this
    simp only [Option.bind_some] at hk
    simp only [hk] at this
    simpa using this

theorem ValidPe.parses {ms : List Member} (h : ValidPe ms) {m : Member} (hm : m ∈ ms) {v : PeVal}
    (hv : m.pe = some v) : ∃ k, v.nat? = some k := by
  have := h m hm
  unfold okPe at this
  rw [hv] at this
  simp only at this
  cases hn : v.nat? with
  | none => rw [hn] at this; cases this
  | some k => exact ⟨k, rfl⟩

/-- the conjunction is the language's `and` -/
def isAndCP (andC : Str) : Option Conj → Bool
  | none => false
  | some c => c.lemma == andC

end Pyrealb.Coord

/-! ### bare pronouns: the features a `Pro` terminal starts with (Terminal.setLemma) against its declension table -/
namespace Pyrealb.Coord
open Pyrealb Pyrealb.Gen.CoordConsts

/-- the value every row of a column agrees on (`none`: the rows differ, or the column is absent) -/
def uniform {α} [BEq α] : List (Option α) → Option α
  | some v :: rest => if rest.all (fun x => x == some v) then some v else none
  | _ => none

def defaultsOf (lang : Str) : Str × Str × Nat := if lang = ['f', 'r'] then defaultFr else defaultEn

/-- Terminal.setLemma: the person of a Pro is the one of its table when all rows agree on a person other than 3;
    the entry's own `pe` overrides it; otherwise the default -/
def effPe (e : ProEntry) : Nat :=
  match e.pe with
  | some p => p
  | none => match uniform (e.rows.map (·.1)) with
    | some p => if p ≠ 3 then p else (defaultsOf e.lang).2.2
    | none => (defaultsOf e.lang).2.2

def effN (e : ProEntry) : Str := e.n.getD (defaultsOf e.lang).2.1
def effG (e : ProEntry) : Str := e.g.getD (defaultsOf e.lang).1

/-- when the whole declension table of a pronoun has ONE person / number / gender (tonic forms: eux, them, nous …),
    the bare pronoun denotes it: the features the terminal starts with — those `findGenderNumberPerson` reads —
    must say the same (`x` in the table = unspecified) -/
def consistentPe (e : ProEntry) : Bool :=
  match uniform (e.rows.map (·.1)) with | some v => effPe e == v | none => true
def consistentN (e : ProEntry) : Bool :=
  match uniform (e.rows.map (·.2.1)) with | some v => v == ['x'] || effN e == v | none => true
def consistentG (e : ProEntry) : Bool :=
  match uniform (e.rows.map (·.2.2)) with | some v => v == ['x'] || effG e == v | none => true

end Pyrealb.Coord
