import Pyrealb.Model.Basic
/-! Model of `utils._getElems` (src/pyrealb/utils.py:91-97):

```python
def _getElems(es):
    res = []
    for e in es:
        if e is not None:
            if isinstance(e, (list,tuple)):res.extend([e0 for e0 in _getElems(e) if e0 is not None])
            else:res.append(e)
    return res
```
An argument is `None`, a list/tuple of arguments, or anything else (`item`: a Constituent, a `str`, `0`, `""` …:
only `None` is dropped). -/
namespace Pyrealb.GetElems

/-- one element of an argument list -/
inductive Arg (α : Type) where
  | none                         -- `None`
  | item (a : α)                 -- neither `None` nor a list/tuple
  | list (l : List (Arg α))      -- a `list` or a `tuple`
  deriving Repr

/-- `e is not None` -/
def Arg.notNone {α} : Arg α → Bool
  | .none => false
  | _ => true

mutual
/-- `_getElems(es)` -/
def getElems {α} : List (Arg α) → List (Arg α)
  | [] => []
  | e :: es => getElem e ++ getElems es
/-- the contribution of one loop iteration to `res` -/
def getElem {α} : Arg α → List (Arg α)
  | .none => []
  | .item a => [.item a]
  | .list l => (getElems l).filter Arg.notNone
end

mutual
/-- SPEC: the items in order of a left-to-right depth-first walk, `None` dropped -/
def flatten {α} : List (Arg α) → List α
  | [] => []
  | e :: es => flatten1 e ++ flatten es
def flatten1 {α} : Arg α → List α
  | .none => []
  | .item a => [a]
  | .list l => flatten l
end

end Pyrealb.GetElems
