import Pyrealb.Model.ClauseFrSpec
/-! # French clause model — constituent notation `S(subj, VP(V, comps…)).typ(..)`

Mirrors `Phrase.real` (Phrase.py:536-556) for an `S` with one `VP`: `pronominalizeChildren` at the S level,
`processTyp` = `passivate` (309-372) + `PhraseFr.passive_agree_auxiliary` (152-171), `PhraseFr.processTyp_verb`
(173-222: prog, mod, neg), `Phrase.processInt` (396-470) with `PhraseFr.move_object` (224-261) and
`passive_subject_par`; then the realization of the children: `VP.real` = `PhraseFr.pronominalize` (93-150) of the
flagged complements, conjugation of the verbs, `doPronounPlacement` on the flat list of the VP. -/
namespace Pyrealb.ClauseFr
open Pyrealb
open Pyrealb.Gen.ClauseFr

/-- what a `PP(P(prep), ·)` contains -/
inductive Inner where
  | np (a : NPA)
  | pro (p : ProT)
  deriving DecidableEq, Repr

/-- an element of `S.elements` / `VP.elements` -/
inductive El where
  | v (x : VT)
  | np (a : NPA)
  | pp (prep : Str) (inner : Inner) (pro : Bool)
  | pro (p : ProT)
  | q (l : Str)
  | pt (l : Str)
  /-- the VP, as an element of the S -/
  | vp
  deriving DecidableEq, Repr

def El.isV : El → Bool | .v _ => true | _ => false
def El.isVP : El → Bool | .vp => true | _ => false
def El.isPro : El → Bool | .pro _ => true | _ => false
def El.isPP : El → Bool | .pp _ _ _ => true | _ => false
def El.isNPorPro : El → Bool | .np _ => true | .pro _ => true | _ => false

def proTok (p : ProT) : Tok := .pro p ((proForm p).getD (bracket p.lemma))

def Inner.toks : Inner → List Tok
  | .np a => [.d a.id, .n a.id]
  | .pro p => [proTok p]

/-- realization of an element that is not a verb -/
def El.toks : El → List Tok
  | .np a => [.d a.id, .n a.id]
  | .pp prep inner _ => .p prep :: inner.toks
  | .pro p => [proTok p]
  | .q l => [.q l]
  | .pt l => [.p l]
  | .v _ => []
  | .vp => []

/-- `NonTerminalFr.passive_pronoun_subject` -/
def passivePronounSubject (p : ProT) : ProT :=
  if p.lemma = je then { lemma := moi, c := none, tn := true, pe := p.pe, n := p.n, g := p.g }
  else getTonicPro p none

def El.inner : El → Inner
  | .pro p => .pro p
  | .np a => .np a
  | _ => .np { id := 0, g := .m, n := .s, pro := false }

def El.gn : El → Gd × Nb
  | .pro p => (p.g, p.n)
  | .np a => (a.g, a.n)
  | _ => (.m, .s)

def El.pe : El → Nat
  | .pro p => p.pe
  | _ => 3

/-- `Phrase.passivate`, first part: the subject leaves the S, the first NP / Pro of the VP becomes the new subject, the
    old subject comes back as « par … » where the object was (or right after the first verb when there is no
    object). Result: `(new subject, S.elements, VP.elements, was there an object)` -/
def passiveSwap (sel vp : List El) : Option El × List El × List El × Bool :=
  let (subject, sel1) : Option El × List El := match sel with
    | .np a :: r => (some (.np a), r)
    | .pro p :: r => (some (.pro (passivePronounSubject p)), r)
    | _ => (none, sel)
  match firstIdx El.isNPorPro vp with
  | some objIdx =>
    let vp1 := vp.eraseIdx objIdx
    let r : El × Nat := match vp[objIdx]? with
      | some (.pro p) =>
        (.pro (getTonicPro p (some .nom)),
         if objIdx = 0 then (match firstIdx El.isV vp1 with | some k => k + 1 | none => 0) else objIdx)
      | some (.np a) => (if a.pro then .pro (lexPro (tonic 3 a.n a.g) .nom) else .np a, objIdx)
      | _ => (.q [], objIdx)
    let vp2 := match subject with
      | some s => pyInsert r.2 (.pp par s.inner false) vp1
      | none => vp1
    (some r.1, r.1 :: sel1, vp2, true)
  | none =>
    match subject with
    | some s =>
      let ns := lexPro luiStr .nom
      -- linkPengWithSubject("VP","V",newSubject): the first verb of the VP takes the new subject's peng
      let vi := firstIdx El.isV vp
      let vp1 := match vi with
        | some k => (match vp[k]? with
          | some (.v x) => vp.set k (.v { x with pe := ns.pe, n := ns.n, g := ns.g, vpshare := true })
          | _ => vp)
        | none => vp
      let pos := match vi with | some k => k + 1 | none => 0
      (some (.pro ns), .pro ns :: sel1, pyInsert pos (.pp par s.inner false) vp1, false)
    | none => (none, sel1, vp, false)

/-- `PhraseFr.passive_agree_auxiliary`: the first verb of the VP becomes « être » (« avoir » for être) + its participle -/
def passiveAux (newSubject : Option El) (withObj : Bool) (vp2 : List El) : Except Crash (List El) := do
  let etreLex ← auxLex etre
  let avoirLex ← auxLex avoir
  match firstIdx El.isV vp2 with
  | none => throw .attributeError
  | some vi =>
    match vp2[vi]? with
    | some (.v verbe) =>
      let auxLexNew := if verbe.lex.lemma = etre then avoirLex else etreLex
      -- aux.taux = verbe.taux ; aux.props = verbe.props : tense, `pat`, `aux`, `pe`/`n` options stay the verb's
      let aux0 : VT := { verbe with lex := auxLexNew }
      let aux1 : VT := match newSubject with
        | some ns => { aux0 with pe := ns.pe, n := ns.gn.2, g := ns.gn.1, vpshare := if withObj then false else aux0.vpshare }
        | none => { aux0 with pe := 3, n := .s, g := .m, vpshare := false }
      let aux2 : VT := if verbe.t = .ip then { aux1 with t := .s } else aux1
      let pp0 : VT := mkV verbe.lex .pp
      let pp : VT := match newSubject with
        | some ns => { pp0 with pg := some ns.gn.1, pn := some ns.gn.2 }
        | none => pp0
      pure (pyInsert (vi + 1) (.v pp) (pyInsert vi (.v aux2) (vp2.eraseIdx vi)))
    | _ => throw .attributeError

/-- `Phrase.passivate` + `PhraseFr.passive_agree_auxiliary` on `(S.elements, VP.elements)` -/
def passivatePhrase (sel vp : List El) : Except Crash (List El × List El) := do
  if ¬ sel.any El.isVP then return (sel, vp)
  let r := passiveSwap sel vp
  let vp3 ← passiveAux r.1 r.2.2.2 r.2.2.1
  return (r.2.1, vp3)

/-- number of consecutive `Pro` elements right before position `i` (the `while … isA("Pro") …: i -= 1` loops) -/
def prosBefore (l : List El) (i : Nat) : Nat :=
  go (l.take i).reverse
where
  go : List El → Nat
    | .pro _ :: r => go r + 1
    | _ => 0

/-- `prog` of `PhraseFr.processTyp_verb` -/
def progPhrase (vp : List El) : Except Crash (List El) :=
  match firstIdx El.isV vp with
  | none => .ok vp
  | some idxV =>
    match vp[idxV]? with
    | some (.v verb) => do
      let etreLex ← auxLex progAux
      let vp1 := vp.eraseIdx idxV
      let orig := verb.lex
      let verb' : VT := { verb.setLemma etreLex with isProg := true }
      let i1 := idxV - prosBefore vp1 idxV     -- i + 1
      let vp2 := pyInsert (i1 + 2) (.q deStr) (pyInsert (i1 + 1) (.q enTrain) (pyInsert i1 (.v verb') vp1))
      -- vp.addElement(V(origLemma).t("b"), idxV + 3): beyond the end is a "bad position" warning, nothing added
      if idxV + 3 ≤ vp2.length then pure (pyInsert (idxV + 3) (.v (mkV orig .b)) vp2) else pure vp2
    | _ => .ok vp

/-- `mod` of `PhraseFr.processTyp_verb` -/
def modPhrase (m : Str) (vp : List El) : Except Crash (List El) :=
  match firstIdx El.isV vp with
  | none => .ok vp
  | some idxV =>
    match vp[idxV]? with
    | some (.v v) => do
      let orig := v.lex
      let v1 : VT ← match modalLemma m with
        | some ml => do
          let lx ← auxLex ml
          pure { v.setLemma lx with cod := none }
        | none => pure v
      -- v.isMod = True ; the progressive flag moves to the new infinitive (`del v.isProg`)
      let wasProg := v1.isProg
      let v2 : VT := { v1 with isMod := true, isProg := false }
      let k := prosBefore vp idxV
      let vpA := vp.set idxV (.v v2)
      let vpB := if k ≠ 0 then pyInsert (idxV - k) (.v v2) (vpA.eraseIdx idxV) else vpA
      let newV : VT := { mkV orig .b v2.epe v2.en .m with ope := some v2.epe, on := some v2.en, isProg := wasProg }
      if idxV + 1 ≤ vpB.length then pure (pyInsert (idxV + 1) (.v newV) vpB) else pure vpB
    | _ => .ok vp

def negPhrase (w : Str) (vp : List El) : List El :=
  match firstIdx El.isV vp with
  | none => vp
  | some idxV =>
    match vp[idxV]? with
    | some (.v v) => vp.set idxV (.v { v with neg2 := some w })
    | _ => vp

def isSubjEl : El → Bool | .np _ => true | .pro _ => true | _ => false

/-- `PhraseFr.move_object(int_)` -/
def moveObjectPhrase (int : Str) (sel vp : List El) : Except Crash (List El × List El) :=
  match firstIdx isSubjEl sel with
  | none => .ok (sel, vp)
  | some si =>
    let hasVP := sel.any El.isVP
    let invert (pro : ProT) (sel' : List El) : Except Crash (List El × List El) :=
      if ¬ hasVP then .ok (sel', vp) else
      match firstIdx El.isV vp with
      | some vi =>
        (match vp[vi]? with
         | some (.v x) => .ok (sel', pyInsert (vi + 1) (.pro pro) (vp.set vi (.v { x with lier := true })))
         | _ => .ok (sel', vp))
      | none => .ok (sel', vp)
    match sel[si]? with
    | some (.pro p) =>
      if proLikeNoun.contains p.lemma then
        (if int = ['w','o','d'] ∨ int = wadStr then .ok (pyInsert si (.q estCeQue) sel, vp)
         else invert { lemma := moi, c := some .nom, tn := false, pe := 3, n := p.n, g := p.g } sel)
      else
        let estce : Except Crash Bool :=
          if p.pe = 1 ∧ p.n = .s then
            (if ¬ hasVP then .error .attributeError else
             match firstIdx El.isV vp with
             | some vi => (match vp[vi]? with
               | some (.v x) => .ok (x.t = .p ∧ x.epe = 1 ∧ ¬ academie.contains x.lex.lemma)
               | _ => .error .attributeError)
             | none => .error .attributeError)
          else .ok false
        match estce with
        | .error e => .error e
        | .ok true => .ok (pyInsert si (.q estCeQue) sel, vp)
        | .ok false => invert p (sel.eraseIdx si)
    | some (.np a) =>
      if int = ['w','o','d'] ∨ int = wadStr then .ok (pyInsert si (.q estCeQue) sel, vp)
      else invert { lemma := moi, c := some .nom, tn := false, pe := 3, n := a.n, g := a.g } sel
    | _ => .ok (sel, vp)

/-- `VP.setProp("pe",3)` of `wos/was`: reaches the first verb only while it shares the VP's `peng` -/
def wosFix (vp : List El) : List El :=
  match firstIdx El.isV vp with
  | some vi => (match vp[vi]? with
    | some (.v x) => if x.vpshare then vp.set vi (.v { x with pe := 3 }) else vp
    | _ => vp)
  | none => vp

/-- `Phrase.processInt`, what happens to the elements: `(S.elements, VP.elements, prefix, « par » in front?, what
    `.a(..)` appends)`; `dflt` is the prefix of the rules -/
def processIntPhraseCore (int : Str) (dflt : Str) (sel vp : List El) :
    Except Crash (List El × List El × Str × Bool × Str) :=
  let hasVP := sel.any El.isVP
  if intGroupMove.contains int then do
    let r ← moveObjectPhrase int sel vp
    pure (r.1, r.2, dflt, false, [])
  else if intGroupSubj.contains int then
    -- subjIdx = getIndex([...]) is never None; -1 < vbIdx deletes elements[-1]
    match firstIdx (fun e => e.isVP || e.isV) sel with
    | none => pure (sel, vp, dflt, false, [])   -- vbIdx = -1: `subjIdx < vbIdx` is false
    | some vb =>
      match firstIdx isSubjEl sel with
      | some si =>
        if si < vb then pure (sel.eraseIdx si, wosFix vp, dflt, false, []) else pure (sel, vp, dflt, false, [])
      | none =>
        -- subjIdx = -1 < vbIdx: `del self.elements[-1]` removes the LAST element
        pure (sel.dropLast, wosFix vp, dflt, false, [])
  else if intGroupObj.contains int then do
    let vpA : List El × Bool :=
      if hasVP then
        let a := match firstIdx El.isNPorPro vp with
          | some i => vp.eraseIdx i
          | none => vp
        match firstIdx El.isPP a with
        | some j => (match a[j]? with
          | some (.pp prep _ _) => if prep = par then (a.eraseIdx j, true) else (a, false)
          | _ => (a, false))
        | none => (a, false)
      else (vp, false)
    let r ← moveObjectPhrase int sel vpA.1
    pure (r.1, r.2, dflt, vpA.2, [])
  else if intGroupInd.contains int then do
    let vpA : List El × Str :=
      if hasVP then
        match firstIdx El.isPP vp with
        | some j => (match vp[j]? with
          | some (.pp prep _ _) =>
            if int = wheStr then (if prepsWhe.contains prep then vp.eraseIdx j else vp, dflt)
            else if int = whnStr then (if prepsWhn.contains prep then vp.eraseIdx j else vp, dflt)
            else if prepsAll.contains prep then
              (vp.eraseIdx j, prep ++ [' '] ++ (if int = woiStr then qui else quoi))
            else (vp, dflt)
          | _ => (vp, dflt))
        | none => (vp, dflt)
      else (vp, dflt)
    let r ← moveObjectPhrase int sel vpA.1
    pure (r.1, r.2, vpA.2, false, [])
  else if int = tagStr then pure (sel, vp, dflt, false, tagText)
  else pure (sel, vp, dflt, false, [])

/-- `Phrase.processInt`; returns `(S.elements, VP.elements, what `.a(..)` appends)` -/
def processIntPhrase (int : Str) (sel vp : List El) : Except Crash (List El × List El × Str) := do
  let dflt ← prefixOf int
  let r ← processIntPhraseCore int dflt sel vp
  let sel2 := El.q r.2.2.1 :: r.1
  let sel3 := if r.2.2.2.1 then
      (El.pt par) :: (if int = wadStr then (match sel2 with | .q _ :: r => El.q quoi :: r | l => l) else sel2)
    else sel2
  pure (sel3, r.2.1, r.2.2.2.2 ++ intPunct)

/-- `PhraseFr.pronominalize` for the flagged children of the VP, in order (`pronominalizeChildren`) -/
def pronominalizeVP (vp : List El) : List El :=
  go vp.length 0 vp
where
  /-- nearest verb before position `i`, stepping back over an auxiliary + participle pair -/
  verbBefore (l : List El) (i : Nat) : Option Nat :=
    match firstIdx El.isV ((l.take i).reverse) with
    | none => none
    | some k =>
      let idxV := i - 1 - k
      match l[idxV]? with
      | some (.v x) =>
        let prevV : Bool := match l[idxV - 1]? with | some e => e.isV | none => false
        if 1 ≤ idxV && x.t == Tense.pp && prevV then some (idxV - 1)
        else some idxV
      | _ => some idxV
  go : Nat → Nat → List El → List El
    | 0, _, l => l
    | fuel + 1, i, l =>
      match l[i]? with
      | none => l
      | some (.np a) =>
        if a.pro then
          match verbBefore l i with
          | some idxV =>
            let l1 := l.set i (.pro (tonicProOf a.g a.n .acc))
            let l2 := match l1[idxV]? with
              | some (.v x) => l1.set idxV (.v { x with cod := some (a.g, a.n) })
              | _ => l1
            go fuel (i + 1) l2
          | none => go fuel (i + 1) (l.set i (.pro (tonicProOf a.g a.n .nom)))
        else go fuel (i + 1) l
      | some (.pp prep inner true) =>
        let e : El :=
          if prep = aStr then
            (match inner with
             | .np a => .pro (tonicProOf a.g a.n .dat)
             | .pro p => .pro (getTonicPro p (some .dat)))
          else if prep = deStr then .pro { lemma := enStr, c := some .dat, tn := false, pe := 3, n := .s, g := .m }
          else if yPreps.contains prep then .pro { lemma := yStr, c := some .dat, tn := false, pe := 3, n := .s, g := .m }
          else
            (match inner with
             | .np a => .pp prep (.pro { lemma := tonic 3 a.n a.g, c := none, tn := true, pe := 3, n := a.n, g := a.g }) false
             | .pro p => .pp prep (.pro (getTonicPro p none)) false)
        go fuel (i + 1) (l.set i e)
      | some _ => go fuel (i + 1) l

/-- realization of the children of the VP; a `lier` verb in a compound tense takes the pronoun that follows it -/
def realVPToks (refl : Bool) : List El → Except Crash (List Tok)
  | [] => .ok []
  | .v x :: .pro p :: rest => do
    let r ← conjugate x refl (some (proTok p))
    if r.2 then do
      let more ← realVPToks refl rest
      pure (r.1 ++ more)
    else do
      let more ← realVPToks refl (.pro p :: rest)
      pure (r.1 ++ more)
  | .v x :: rest => do
    let r ← conjugate x refl none
    let more ← realVPToks refl rest
    pure (r.1 ++ more)
  | e :: rest => do
    let more ← realVPToks refl rest
    pure (e.toks ++ more)

structure Out where
  toks : List OutTok
  end_ : Str
  deriving DecidableEq, Repr

def compEl : Comp → El
  | .dir a => .np a
  | .pp prep a => .pp prep (.np { a with pro := false }) a.pro
  | .cl p => .pro p

/-- `(S.elements, VP.elements)` as constructed, after `S.pronominalizeChildren` (a flagged NP child of the S is the
    subject: it becomes the nominative pronoun) -/
def phraseElems (sp : Spec) : List El × List El :=
  let linked := sp.subj.isSome ∧ sp.t ≠ .ip
  let v : VT := { sp.verbT linked with vpshare := true }
  let sel0 : List El := (match sp.subj with
    | some (.pro vm pe n g) => [El.pro (SubjA.proT vm pe n g)]
    | some (.np a) => [El.np a]
    | none => []) ++ [El.vp]
  (sel0.map (fun e => match e with
    | .np a => if a.pro then El.pro (tonicProOf a.g a.n .nom) else e
    | _ => e),
   .v v :: sp.comps.map compEl)

/-- `if "pas" in types …: self.passivate()` on `(S.elements, VP.elements)` -/
def stagePas (sp : Spec) (s : List El × List El) : Except Crash (List El × List El) :=
  if sp.typ.pas then passivatePhrase s.1 s.2 else pure s

/-- `processVP(types, "prog", prog)` (needs a VP among the S elements) -/
def stageProg (sp : Spec) (s : List El × List El) : Except Crash (List El × List El) :=
  if sp.typ.prog ∧ s.1.any El.isVP then (progPhrase s.2).map (fun vp => (s.1, vp)) else pure s

/-- `processVP(types, "mod", mod)` -/
def stageMod (sp : Spec) (s : List El × List El) : Except Crash (List El × List El) :=
  match sp.typ.mod with
  | some m => if s.1.any El.isVP then (modPhrase m s.2).map (fun vp => (s.1, vp)) else pure s
  | none => pure s

/-- `processVP(types, "neg", process_neg)` -/
def stageNeg (sp : Spec) (s : List El × List El) : List El × List El :=
  match sp.typ.neg with
  | some nv => if s.1.any El.isVP then (s.1, negPhrase nv.word2 s.2) else s
  | none => s

/-- `Phrase.processTyp`: passive, then prog / mod / neg, then the interrogative; `(S.elements, VP.elements, what .a()
    appends)` -/
def phraseTyped (sp : Spec) : Except Crash (List El × List El × Str) := do
  let s1 ← stagePas sp (phraseElems sp)
  let s2 ← stageProg sp s1
  let s3 ← stageMod sp s2
  let s4 := stageNeg sp s3
  match sp.typ.int with
  | some i => processIntPhrase i s4.1 s4.2
  | none => pure (s4.1, s4.2, [])

/-- realization of a child of the S: the tokens of the VP, or the child's own -/
def selToks (vpToks : List Tok) : El → List Tok
  | .vp => vpToks
  | e => e.toks

/-- realization of the children of the S: the VP pronominalizes its flagged complements, conjugates, places the
    pronouns on ITS OWN flat list; the S only removes empty realizations -/
def phraseReal (refl : Bool) (sel vp : List El) : Except Crash (List Tok) := do
  let toks ← realVPToks refl (pronominalizeVP vp)
  let vpToks ← placePronouns refl (removeEmpty toks)
  pure (removeEmpty (sel.flatMap (selToks vpToks)))

/-- `S(subj, VP(V, comps…)).typ(typ).real()`: the flat list of terminals and what `.a(..)` appends to the last one -/
def phraseToks (sp : Spec) : Except Crash (List Tok × Str) := do
  let (sel, vp, endS) ← phraseTyped sp
  let toks ← phraseReal sp.typ.refl sel vp
  pure (toks, endS)

/-- the liaison step of `detokenize` (`-`, `-t-`) and the symbolic noun phrases -/
def finish (r : List Tok × Str) : Out :=
  let out := collapseNP (outToks (!r.2.isEmpty) r.1)
  { toks := out, end_ := if out.isEmpty then [] else r.2 }

def realizePhrase (sp : Spec) : Except Crash Out := do
  let r ← phraseToks sp
  pure (finish r)

end Pyrealb.ClauseFr
