import Pyrealb.Model.Basic
/-! # Conjugation — shared data types (`rules-*.json:conjugation`, verb lexicon entries), `Terminal.setLemma`
    for a verb, `morphoError`, and the option values the family ranges over.

API used by other families (C18 imports this file and `Model/ConjEn`, `Model/ConjFr`):

* `Conj.Row`, `Conj.Table`, `Conj.Rules` — shape of `rules[lang]["conjugation"]`; the generated data are
  `Pyrealb.Gen.ConjEn.tables`, `Pyrealb.Gen.ConjFr.tables : Conj.Rules`.
* `Conj.Verb` — the fields of a lexicon entry `lexicon[lang][lemma]["V"]` that the code reads.
* `Conj.Tense`, `Conj.Person`, `Conj.Num`, `Conj.Gender` — option values (`.t() .pe() .n() .g()`).
* `Conj.setLemma` — table id / stem computation (Terminal.py:119-155).
* `ConjEn.realize`, `ConjFr.realize` (in `Model/ConjEn`, `Model/ConjFr`) — `V(lemma).t(t).pe(pe).n(n)[.g(g)][.aux(a)].realize()`
  as `Except Crash Real` (`Real.text`, `Real.warns`).
-/
namespace Pyrealb.Conj
open Pyrealb

/-- decidable equality of results (`Except` has none in core); used by `decide` in `Props/C01` -/
instance instDecEqExcept {ε α} [DecidableEq ε] [DecidableEq α] : DecidableEq (Except ε α) := fun a b =>
  match a, b with
  | .ok x, .ok y => if h : x = y then isTrue (by rw [h]) else isFalse (by intro e; cases e; exact h rfl)
  | .error x, .error y => if h : x = y then isTrue (by rw [h]) else isFalse (by intro e; cases e; exact h rfl)
  | .ok _, .error _ => isFalse (by intro e; cases e)
  | .error _, .ok _ => isFalse (by intro e; cases e)

/-- value of `rules.conjugation[tab]["t"][tense]` -/
inductive Row where
  /-- JSON `null` -/
  | null
  /-- one string (the same ending for every person) -/
  | str (x : Str)
  /-- a JSON list; `none` = a `null` cell (the form does not exist) -/
  | list (l : List (Option Str))
  deriving DecidableEq, Repr, Inhabited

/-- one entry of `rules.conjugation` -/
structure Table where
  /-- the top-level keys of the JSON object, in order (`"ending"`, `"t"`, `"modèle"`, …) -/
  keys : List Str
  /-- `"ending"` -/
  ending : Str
  /-- the `"t"` dictionary, in JSON order (`[]` when the key `"t"` is absent) -/
  rows : List (Str × Row)
  deriving DecidableEq, Repr, Inhabited

/-- `rules[lang]["conjugation"]` : table id ↦ table -/
abbrev Rules := List (Str × Table)

/-- the fields of `lexicon[lang][lemma]["V"]` read by construction and conjugation -/
structure Verb where
  lemma : Str
  /-- `"tab"` -/
  tab : Str
  /-- `"aux"` (French: `av`, `êt`, `aê`); absent in English -/
  aux : Option Str := none
  /-- `"pat"` (French) -/
  pat : Option (List Str) := none
  /-- `"h": 1` — h aspiré (French; read by `doElision`) -/
  hAsp : Bool := false
  deriving DecidableEq, Repr, Inhabited

/-- the 21 values accepted by `.t()` (Constituent.py:542) -/
inductive Tense where
  | p | i | f | ps | c | s | si | ip | pr | pp | b | bTo
  | pc | pq | cp | pa | fa | spa | spq | bp | bpTo
  deriving DecidableEq, Repr, Inhabited

def Tense.all : List Tense :=
  [.p, .i, .f, .ps, .c, .s, .si, .ip, .pr, .pp, .b, .bTo, .pc, .pq, .cp, .pa, .fa, .spa, .spq, .bp, .bpTo]

/-- the Python string of a tense (key of the `"t"` dictionary) -/
def Tense.code : Tense → Str
  | .p => Pyrealb.s "p" | .i => Pyrealb.s "i" | .f => Pyrealb.s "f" | .ps => Pyrealb.s "ps" | .c => Pyrealb.s "c" | .s => Pyrealb.s "s" | .si => Pyrealb.s "si"
  | .ip => Pyrealb.s "ip" | .pr => Pyrealb.s "pr" | .pp => Pyrealb.s "pp" | .b => Pyrealb.s "b" | .bTo => Pyrealb.s "b-to"
  | .pc => Pyrealb.s "pc" | .pq => Pyrealb.s "pq" | .cp => Pyrealb.s "cp" | .pa => Pyrealb.s "pa" | .fa => Pyrealb.s "fa" | .spa => Pyrealb.s "spa"
  | .spq => Pyrealb.s "spq" | .bp => Pyrealb.s "bp" | .bpTo => Pyrealb.s "bp-to"

def Tense.ofCode? (x : Str) : Option Tense := Tense.all.find? (fun t => t.code = x)

inductive Person where | p1 | p2 | p3 deriving DecidableEq, Repr, Inhabited
inductive Num where | s | p deriving DecidableEq, Repr, Inhabited
inductive Gender where | m | f deriving DecidableEq, Repr, Inhabited

def Person.toNat : Person → Nat | .p1 => 1 | .p2 => 2 | .p3 => 3

/-- `pe - 1 + (3 if n == "p" else 0)` -/
def idx6 (pe : Person) (n : Num) : Nat := pe.toNat - 1 + (if n = .p then 3 else 0)

/-- `"t" in conjugationTable` -/
def Table.hasT (tb : Table) : Bool := tb.keys.contains (s "t")

/-- `conjugationTable["t"].get(code)` -/
def Table.row? (tb : Table) (code : Str) : Option Row := lookup code tb.rows

/-- `"t" in conjugationTable and t in conjugationTable["t"]` -/
def Table.hasRow (tb : Table) (code : Str) : Bool := tb.hasT && (tb.row? code).isSome

/-! ### Python subscripting of a row value -/

/-- `row[i]` for `i ≥ 0`: list → the cell; `str` → the one-character string; `None` → `TypeError` -/
def Row.at (r : Row) (i : Nat) : Except Crash (Option Str) :=
  match r with
  | .null => .error .typeError
  | .str x => match x[i]? with
    | some ch => .ok (some [ch])
    | none => .error .indexError
  | .list l => match l[i]? with
    | some cell => .ok cell
    | none => .error .indexError

/-- `stem + row` : needs a `str` (`None`/list → `TypeError`) -/
def Row.concat (stem : Str) (r : Row) : Except Crash Str :=
  match r with
  | .str x => .ok (stem ++ x)
  | _ => .error .typeError

/-! ### `Terminal.setLemma` for a verb (Terminal.py:119-155)

`V(lemma)`: the lexicon entry is looked up by the harness (the lexicons are not Lean data); `none` = the lemma
is not in the lexicon or has no `"V"` part. -/

/-- what construction leaves on the terminal -/
structure VState where
  lemma : Str
  /-- `self.tab` (`none` = `None`) -/
  tab : Option Str
  /-- `self.stem` (only read when `tab` is not `None`) -/
  stem : Str
  /-- number of warnings emitted by construction -/
  warns : Nat
  deriving DecidableEq, Repr

def setLemma (rules : Rules) (lemma : Str) (entry : Option Verb) : VState :=
  match entry with
  | none => { lemma := lemma, tab := none, stem := [], warns := 1 }         -- "not in lexicon"
  | some v =>
    match lookup v.tab rules with
    | some tb =>
      if endsWith lemma tb.ending then
        { lemma := lemma, tab := some v.tab, stem := dropRight lemma tb.ending.length, warns := 0 }
      else { lemma := lemma, tab := none, stem := [], warns := 1 }           -- "bad lexicon table"
    | none =>
      -- unknown table: `ending=None`, so `self.tab=None` and one warning "bad lexicon table" (commit 466e9e2)
      { lemma := lemma, tab := none, stem := [], warns := 1 }

/-! ### output of `conjugate` and of `realize` -/

/-- a terminal of the list returned by `conjugate`, as far as `doFormat`/`detokenize` read it -/
structure Tok where
  real : Str
  /-- `constType == "V"` (a `morphoError` turns the verb into a `Q`) -/
  isV : Bool := false
  /-- `constType == "Pro"` -/
  isPro : Bool := false
  /-- `getProp("lier")` -/
  lier : Bool := false
  /-- the lexicon says `"h": 1` for this token's lemma (French `isElidableFr`) -/
  hAsp : Bool := false
  deriving DecidableEq, Repr, Inhabited

/-- result of `conjugate`: the terminal list and the number of warnings emitted so far (construction included) -/
structure Out where
  toks : List Tok
  warns : Nat
  deriving DecidableEq, Repr

/-- result of `realize()` -/
structure Real where
  text : Str
  warns : Nat
  deriving DecidableEq, Repr

/-- `morphoError`: realization `[[lemma]]`, `constType = "Q"`, one warning -/
def morphoTok (lemma : Str) : Tok := { real := bracket lemma }

def morphoError (lemma : Str) (w : Nat) : Out := { toks := [morphoTok lemma], warns := w + 1 }

end Pyrealb.Conj
