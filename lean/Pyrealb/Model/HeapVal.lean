import Pyrealb.Model.Basic
/-! Python values that occur as option / flag values in the store model (`Model/Heap`) and in `typ`
    (`Model/Typ`).  Python `==` between `bool` and `int` is numeric (`True == 1`), which is what the
    validation `val not in allowedTypes[key]` of `Constituent.typ` uses. -/
namespace Pyrealb

/-- a Python value as far as the modelled code distinguishes them -/
inductive Val where
  | b (x : Bool)      -- `True` / `False`
  | s (x : Str)       -- a `str`
  | i (x : Int)       -- an `int`
  | none              -- `None`
  | other             -- any other object (list, dict, float …): equal to nothing, truthy
  deriving DecidableEq, Repr, Inhabited

namespace Val

/-- numeric reading of bool/int (`True == 1`, `False == 0`) -/
def num? : Val → Option Int
  | b true => some 1
  | b false => some 0
  | i n => some n
  | _ => Option.none

/-- Python `x == y` -/
def pyEq (x y : Val) : Bool :=
  match x, y with
  | s a, s c => a == c
  | none, none => true
  | other, _ => false
  | _, other => false
  | x, y => match x.num?, y.num? with
    | some a, some c => a == c
    | _, _ => false

/-- Python `x in [..]` on a list literal (identity or `==`; identity implies `==` for the values here) -/
def pyIn (x : Val) (l : List Val) : Bool := l.any (fun y => pyEq x y)

/-- Python `x is False` (identity with the singleton) -/
def isFalse : Val → Bool
  | b false => true
  | _ => false

/-- Python `x is True` -/
def isTrue : Val → Bool
  | b true => true
  | _ => false

/-- Python truthiness `bool(x)` -/
def truthy : Val → Bool
  | b x => x
  | s x => !x.isEmpty
  | i n => n != 0
  | none => false
  | other => true

/-- `isinstance(x, str)` -/
def isStr : Val → Bool
  | s _ => true
  | _ => false

/-- `isinstance(x, bool)` -/
def isBool : Val → Bool
  | b _ => true
  | _ => false

end Val

/-- a Python `dict` with `str` keys, in insertion order -/
abbrev Dict := List (Str × Val)

namespace Dict

/-- `key in d` -/
def has (d : Dict) (k : Str) : Bool := (lookup k d).isSome

/-- `d[k] = v` : an existing key keeps its position -/
def set : Dict → Str → Val → Dict
  | [], k, v => [(k, v)]
  | (k', v') :: r, k, v => if k' = k then (k, v) :: r else (k', v') :: set r k v

/-- `del d[k]` (keys of a dict are unique; absent ↦ unchanged — the modelled sites delete present keys only) -/
def del (d : Dict) (k : Str) : Dict := d.filter (fun kv => kv.1 != k)

/-- `d.update(e)` -/
def update (d e : Dict) : Dict := e.foldl (fun acc kv => set acc kv.1 kv.2) d

def keys (d : Dict) : List Str := d.map (·.1)

end Dict

/-! ### the reader idioms of a flag of the `typ` dictionary (inventory generated in `Gen/TypConsts`) -/

/-- how a source site tests a flag `K` of the dictionary `T` -/
inductive Idiom where
  | neFalse      -- `K in T and T[K] != False`
  | eqTrue       -- `K in T and T[K] == True`
  | isNotFalse   -- `K in T and T[K] is not False`
  | isTrue       -- `K in T and T[K] is True`
  | truthy       -- `K in T and T[K]`
  | getTruthy    -- `T.get(K)` used as a condition
  | guardedValue -- `T[K]` read under a guard of one of the kinds above on the same key (value use)
  | inOnly       -- `K in T` alone: distinguishes `False` from absent
  | getRaw       -- `T.get(K)` used as a value: distinguishes `False` from `None`
  | unguarded    -- `T[K]` without a recognised guard: `KeyError` when absent
  deriving DecidableEq, Repr, Inhabited

/-- a reader site: file, function, flag (`*` = a variable key), idiom -/
structure ReaderSite where
  file : String
  func : String
  key : String
  idiom : Idiom
  deriving DecidableEq, Repr

end Pyrealb
