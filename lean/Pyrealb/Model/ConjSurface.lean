import Pyrealb.Model.Conj
/-! # What `realize()` does to the terminal list returned by `conjugate` when the verb stands ALONE

`Terminal.real` → `doFormat(conjugate())` (Constituent.py:283-355; no option is set, the receiver is a `V`, so only
`removeEmpty` and `doElision` act) → `detokenize` (371-409; the receiver is not an `S`/`root`, so no capital and
no full stop).

Fragment: the French elision loop (ConstituentFr.py:51-132) is modelled for the *elidable-word* branch
(`le|la|je|me|te|se|de|ne|que|…` before a vowel or mute h). If the euphony branch (`ma|ta|sa|ce|beau|…`) or the
contraction table (`à+le`, `de+le`, `si+il`, …) would fire, the model answers `Crash.other` ("outside the modelled
fragment" — never equal to anything the implementation returns, so the correspondence check would report it);
C06 models those branches. The English `doElision` (a/an on a `D`, contractions only under `self.contraction`)
cannot act on `V`/`P`/`Q` tokens of a lone verb and is the identity here.

`\w` (Python, Unicode) is approximated by `isPyWord`: exact on ASCII, Latin-1 and Latin Extended-A/B — the
harness checks that every character of the lexicon verbs and of the conjugation tables is in that range. -/
namespace Pyrealb.Conj
open Pyrealb

/-- Python `\w` on the alphabet that occurs (ASCII, Latin-1 letters, Latin Extended-A/B) -/
def isPyWord (ch : Char) : Bool :=
  ch.isAlphanum || ch == '_' ||
  (0xC0 ≤ ch.toNat && ch.toNat ≤ 0x24F && ch.toNat != 0xD7 && ch.toNat != 0xF7) ||
  ch.toNat == 0xAA || ch.toNat == 0xB5 || ch.toNat == 0xBA

/-- `[\wàâéèêëîïôöùüç'-]` (French, `re.I`) = `[\w'-]` (English): the accented letters are `\w` already -/
def isWordish (ch : Char) : Bool := isPyWord ch || ch == '\'' || ch == '-'

/-- at a `<`: length of a match of `<[^>]+>` -/
def tagLen? (x : Str) : Option Nat :=
  match x with
  | '<' :: rest =>
    let body := rest.takeWhile (· != '>')
    if body.length = 0 then none
    else if body.length < rest.length then some (body.length + 2) else none
  | _ => none

/-- group 1 of `sepWordRE`: `(?:[^<\w'-]*(?:<[^>]+>)?)*`; returns (group 1, what follows) -/
def sepPrefix : Nat → Str → Str × Str
  | 0, x => ([], x)
  | fuel + 1, x =>
    let junk := x.takeWhile (fun ch => !(isWordish ch) && ch != '<')
    let rest := x.drop junk.length
    match tagLen? rest with
    | some k =>
      let (g, r) := sepPrefix fuel (rest.drop k)
      (junk ++ rest.take k ++ g, r)
    | none => (junk, rest)

/-- `sepWordRE().match(x)` : (group 1, group 2 — `none` when there is no word, group 3) -/
def sepWord (x : Str) : Str × Option Str × Str :=
  let (g1, rest) := sepPrefix (x.length + 1) x
  let w := rest.takeWhile isWordish
  if w.length = 0 then (g1, none, rest) else (g1, some w, rest.drop w.length)

def lowerAscii (x : Str) : Str := x.map Char.toLower

/-- `elidableWordFrRE` (full match, `re.I`) -/
def elidableWords : List Str :=
  [s "la", s "le", s "je", s "me", s "te", s "se", s "de", s "ne", s "que", s "puisque", s "lorsque",
   s "jusque", s "quoique"]
/-- `euphonieFrRE` -/
def euphonyWords : List Str :=
  [s "ma", s "ta", s "sa", s "ce", s "beau", s "fou", s "mou", s "nouveau", s "vieux"]
/-- keys of `contractionFrTable` -/
def contractionKeys : List Str :=
  [s "à+le", s "à+les", s "ça+a", s "de+le", s "de+les", s "de+des", s "de+autres", s "des+autres",
   s "si+il", s "si+ils"]

/-- `[aeiouyàâéèêëîïôöùü]` with `re.I` -/
def frVowels : Str := s "aeiouyàâéèêëîïôöùüAEIOUYÀÂÉÈÊËÎÏÔÖÙÜ"

/-- `isElidableFr(w2, lemma, pos)`; `hAsp` = the lexicon lookup of the token's lemma found `"h": 1` -/
def isElidableFr (w2 : Str) (hAsp : Bool) : Bool :=
  match w2 with
  | [] => false
  | ch :: _ => if frVowels.contains ch then true else if ch == 'h' || ch == 'H' then !hAsp else false

/-- `not re.match(r"^\s*\w", g3)` -/
def w3NoWords (g3 : Str) : Bool :=
  match g3.dropWhile Char.isWhitespace with
  | [] => true
  | ch :: _ => !(isPyWord ch)

/-- the `while i < last` loop of `ConstituentFr.doElision`, started at the head of the list;
    `prevLier` = `i > 0 and cList[i-1].getProp("lier")` -/
def elideLoopFr (prevLier : Bool) : List Tok → Except Crash (List Tok)
  | [] => .ok []
  | [a] => .ok [a]
  | a :: b :: rest =>
    if prevLier then do
      let r ← elideLoopFr a.lier (b :: rest)
      pure (a :: r)
    else
      match sepWord a.real, sepWord b.real with
      | (g1, some w1, g3), (_, some w2, _) =>
        if isElidableFr w2 b.hAsp && elidableWords.contains (lowerAscii w1) && w3NoWords g3 then do
          -- `cList[i].realization = m1[1] + w1[:-1] + "'" + m1[3]` ; `i += 2`
          let r ← elideLoopFr b.lier rest
          pure ({ a with real := g1 ++ w1.dropLast ++ s "'" ++ g3 } :: b :: r)
        else if isElidableFr w2 b.hAsp && euphonyWords.contains (lowerAscii w1) && w3NoWords g3 then
          .error .other                                   -- euphony: outside the modelled fragment
        else if contractionKeys.contains (w1 ++ s "+" ++ w2) && w3NoWords g3 then
          .error .other                                   -- contraction: outside the modelled fragment
        else do
          let r ← elideLoopFr a.lier (b :: rest)
          pure (a :: r)
      | _, _ => do
        let r ← elideLoopFr a.lier (b :: rest)
        pure (a :: r)

/-- `removeEmpty` of `doFormat`: delete empty realizations while more than one element is left -/
def removeEmpty : List Tok → List Tok
  | [] => []
  | [a] => [a]
  | a :: rest =>
    if a.real.length = 0 then removeEmpty rest
    else
      -- `a` is kept; the later ones are deleted while `len(cList) > 1`, which now always holds
      a :: rest.filter (fun t => t.real.length != 0)

/-- `ConstituentFr.check_for_t(terminals, i)` : (the `-t-` part, the possibly rewritten realization of `i`) -/
def checkForT (a b : Tok) : Str × Str :=
  if a.isV && b.isPro then
    let firstWord :=
      let pre := b.real.takeWhile (fun ch => !(isPyWord ch))
      pre ++ (b.real.drop pre.length).takeWhile isPyWord
    let endsNotDT := match a.real.getLast? with
      | some ch => ch != 'd' && ch != 't'
      | none => false
    if endsNotDT && [s "il", s "elle", s "on"].contains firstWord then (s "t-", a.real)
    else if a.real = s "peux" && b.real = s "je" then ([], s "puis")
    else ([], a.real)
  else ([], a.real)

def stripLeadingSpace (x : Str) : Str :=
  match x with
  | ' ' :: r => r
  | _ => x

/-- `detokenize` for a receiver that is a Terminal; `fr` selects `check_for_t` (the English one returns "") -/
def detok (fr : Bool) : List Tok → Str
  | [] => []
  | [a] => stripLeadingSpace a.real
  | a :: b :: rest =>
    let ra := stripLeadingSpace a.real
    let a' := { a with real := ra }
    let piece :=
      if a.lier then
        let (t, ra') := if fr then checkForT a' b else ([], ra)
        ra' ++ s "-" ++ t
      else match ra.getLast? with
        | some ch => if ch == '-' || ch == ' ' || ch == '\'' then ra else ra ++ s " "
        | none => []
    piece ++ detok fr (b :: rest)

/-- French: `detokenize(doFormat(toks))` -/
def surfaceFr (toks : List Tok) : Except Crash Str := do
  let l := removeEmpty toks
  let l' ← if l.length ≤ 1 then pure l else elideLoopFr false l
  pure (detok true l')

/-- English: `detokenize(doFormat(toks))` (`doElision` is the identity on `V`/`P`/`Q` tokens) -/
def surfaceEn (toks : List Tok) : Str := detok false (removeEmpty toks)

end Pyrealb.Conj
