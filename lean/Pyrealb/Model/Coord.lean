import Pyrealb.Model.Basic
import Pyrealb.Gen.CoordConsts
/-! Model of coordination (C09).

Mirrors, branch for branch:
* `Phrase.cpReal` / `Phrase.findGenderNumberPerson`            (src/pyrealb/Phrase.py)
* `Dependent.coordReal` / `Dependent.findGenderNumberPerson`   (src/pyrealb/Dependent.py)
* the `isA("CP")` / `isA("coord")` branches of `makeOptionMethod._method` (src/pyrealb/Constituent.py)
* how the record written by `cpReal`/`coordReal` reaches the verb: `Phrase.real` / `Dependent.real` realize the
  coordinations FIRST, then default the number to "s", then realize the verb, which reads the shared record.

Members are abstract: a member is its token list (realized alone, without its own `a` option), its constituent
type, the values `getProp("pe"|"n"|"g")` returns on it, and the content of its `props["a"]`.
The after-string of a punctuation mark (`getBeforeAfterString(mark)["b"]`) is the parameter `pt`.
-/
namespace Pyrealb.Coord
open Pyrealb Pyrealb.Gen.CoordConsts

/-- a Python value of the property `pe`: `1` or `"1"` (both are valid values of the option `pe`) -/
inductive PeVal where
  | int (k : Nat)
  | str (x : Str)
  deriving DecidableEq, Repr

/-- the shared `peng` record (absent key and `None` are both `none`: `getProp` does not distinguish them) -/
structure Rec where
  pe : Option PeVal := none
  n  : Option Str := none
  g  : Option Str := none
  deriving DecidableEq, Repr

/-- `int(pe)` (`none`: ValueError) -/
def PeVal.nat? : PeVal → Option Nat
  | .int k => some k
  | .str x => (String.ofList x).toNat?

structure Member where
  toks : List Str                 -- tokens of `member.real()` without the member's own `a` option
  alt  : List Str                 -- coord notation, nested coord: tokens of `Dependent.real()` (≠ `coordReal()`)
  kind : Str                      -- constType (CP notation) / constType of the terminal (coord notation)
  rel  : Str                      -- constType of the dependent (coord notation): subj, comp, mod, det, coord
  pe   : Option PeVal
  n    : Option Str
  g    : Option Str
  a    : Option (List Str)        -- `props["a"]` (`none`: key absent)
  deriving DecidableEq, Repr

/-- the person of the member as a number (`none`: not stated, or not a number) -/
def Member.peN (m : Member) : Option Nat := m.pe.bind PeVal.nat?

def Rec.peN (r : Rec) : Option Nat := r.pe.bind PeVal.nat?

def comma : Str := [',']
def plural : Str := ['p']
def sing : Str := ['s']
def masc : Str := ['m']

/-! ### formatting of one member -/

/-- `cList[-1].realization += x` (nothing to do for an empty phrase: `real()` returns `[]` before `doFormat`) -/
def appendLast : List Str → Str → List Str
  | [], _ => []
  | [t], x => [t ++ x]
  | t :: u :: r, x => t :: appendLast (u :: r) x

/-- `for a in self.props["a"]: wrapWith("", getBeforeAfterString(a)["b"])` : the string appended in the end -/
def afterOf (pt : Str → Str) : Option (List Str) → Str
  | none => []
  | some l => (l.map pt).flatten

/-- the member realized with `props["a"] = a` -/
def realWith (pt : Str → Str) (m : Member) (a : Option (List Str)) : List Str :=
  appendLast m.toks (afterOf pt a)

/-- the member realized as it stands -/
def alone (pt : Str → Str) (m : Member) : List Str := realWith pt m m.a

/-- both classes (since cb0ce1e): `if "a" not in e.props: e.props["a"] = [","]`
    `elif "," not in e.props["a"]: e.props["a"].append(",")` -/
def appendComma : Option (List Str) → Option (List Str)
  | none => some [comma]
  | some l => if comma ∈ l then some l else some (l ++ [comma])

/-- `removeEmpty` of `doFormat`: empty realizations are deleted as long as more than one token is left -/
def removeEmpty (l : List Str) : List Str :=
  let f := l.filter (fun t => t ≠ [])
  if f = [] then l.take 1 else f

/-! ### findGenderNumberPerson (same text in both classes; they differ in what `e` is) -/

structure Acc where
  g  : Option Str := none
  n  : Option Str := none
  pe : Nat := 3
  nb : Nat := 0
  deriving DecidableEq, Repr

/-- one iteration of the loop -/
def gnpStep (counted : List Str) (acc : Acc) (m : Member) : Except Crash Acc :=
  if m.kind ∈ counted then
    -- if g is None and propG is not None: g = propG ; if propG == "m": g = "m"
    let g1 := if acc.g = none ∧ m.g ≠ none then m.g else acc.g
    let g2 := if m.g = some masc then some masc else g1
    let n1 := if m.n = some plural then some plural else acc.n
    -- if propPe is not None and int(propPe) < pe: pe = int(propPe)
    match m.pe with
    | none => .ok { g := g2, n := n1, pe := acc.pe, nb := acc.nb + 1 }
    | some v =>
      match v.nat? with
      | none => .error Crash.valueError
      | some k => .ok { g := g2, n := n1, pe := if k < acc.pe then k else acc.pe, nb := acc.nb + 1 }
  else .ok acc

def gnpLoop (counted : List Str) : Acc → List Member → Except Crash Acc
  | acc, [] => .ok acc
  | acc, m :: ms =>
    match gnpStep counted acc m with
    | .error e => .error e
    | .ok acc' => gnpLoop counted acc' ms

/-- result of findGenderNumberPerson: `{"g":g,"n":n,"pe":pe}` -/
structure GNP where
  g  : Option Str
  n  : Option Str
  pe : Nat
  nb : Nat          -- number of members looked at (Dependent: `if nb==0: pe=None`)
  deriving DecidableEq, Repr

def findGNP (counted : List Str) (andCombination : Bool) (ms : List Member) : Except Crash GNP :=
  match gnpLoop counted {} ms with
  | .error e => .error e
  | .ok acc => .ok { g := acc.g, n := if acc.nb > 1 ∧ andCombination then some plural else acc.n, pe := acc.pe,
                     nb := acc.nb }

/-- `if gn["g"] is not None: setProp("g",…)`; same for `n`; `setProp("pe", gn["pe"])` -/
def writeGNP (r : Rec) (gn : GNP) : Rec :=
  { g := match gn.g with | none => r.g | some x => some x,
    n := match gn.n with | none => r.n | some x => some x,
    pe := some (.int gn.pe) }

/-- Dependent.coordReal: `if gn["pe"] is not None: self.setProp("pe",gn["pe"])` where pe is None when nb == 0 -/
def writeGNPdep (r : Rec) (gn : GNP) : Rec :=
  { g := match gn.g with | none => r.g | some x => some x,
    n := match gn.n with | none => r.n | some x => some x,
    pe := if gn.nb = 0 then r.pe else some (.int gn.pe) }

/-- the one-member branch: `setProp("g", e.getProp("g")); setProp("n", …); setProp("pe", pe if pe is not None else 3)` -/
def writeSingle (m : Member) : Rec :=
  { g := m.g, n := m.n, pe := some (match m.pe with | none => .int 3 | some p => p) }

structure Out where
  toks  : List Str
  peng : Rec
  warns : Nat := 0
  deriving DecidableEq, Repr

/-! ### Phrase.cpReal -/

/-- the `C` element (the first one of the phrase) -/
structure Conj where
  lemma : Str
  toks  : List Str
  deriving DecidableEq, Repr

/-- `for j in range(0,last)`: a comma for every member but the last when there is no conjunction, for every
    member but the last two when there is one (`j < last-1` ⇔ at least two members follow).  `cf` is the comma
    rule (`appendComma`); `always` is `idxC < 0` / `noConnect`. -/
def loopWith (cf : Option (List Str) → Option (List Str)) (pt : Str → Str) (always : Bool) : List Member → List Str
  | [] => []
  | [_] => []
  | m :: m' :: rest =>
    realWith pt m (if always || !rest.isEmpty then cf m.a else m.a) ++ loopWith cf pt always (m' :: rest)

def cpLoop (pt : Str → Str) (hasC : Bool) (ms : List Member) : List Str := loopWith appendComma pt (!hasC) ms

def lastToks (pt : Str → Str) : List Member → List Str
  | [] => []
  | [m] => alone pt m
  | _ :: m' :: rest => lastToks pt (m' :: rest)

/-- `Phrase.cpReal` on a CP whose members (elements other than the first `C`) are `ms`; `r0` is the record
    before the call, `andC` is `self.and_conj()` -/
def cpReal (pt : Str → Str) (andC : Str) (conj : Option Conj) (ms : List Member) (r0 : Rec) : Except Crash Out :=
  match ms with
  | [] => .ok { toks := [], peng := r0 }
  | [m] => .ok { toks := removeEmpty (alone pt m), peng := writeSingle m }
  | _ =>
    let res := cpLoop pt conj.isSome ms
      ++ (match conj with | none => [] | some c => c.toks)
      ++ lastToks pt ms
    -- andCombination = idxC >= 0 and self.elements[idxC].lemma == self.and_conj()   (since d0f069a: always resolved)
    let andComb := match conj with | none => false | some c => c.lemma == andC
    match findGNP cpCounted andComb ms with
    | .error e => .error e
    | .ok gn => .ok { toks := removeEmpty res, peng := writeGNP r0 gn }

/-! ### Dependent.coordReal -/

/-- the terminal of the `coord` -/
structure Term where
  kind  : Str        -- "C", "Q", …
  lemma : Str
  toks  : List Str
  deriving DecidableEq, Repr

/-- a member inside the loop: `dj.coordReal()` for a nested coord; a warning and NOTHING for a dependent whose
    relation differs from the first one's; `dj.real()` otherwise.  Returns (tokens, warnings). -/
def depInner (pt : Str → Str) (deprel : Str) (m : Member) (a : Option (List Str)) : List Str × Nat :=
  if m.rel = ['c','o','o','r','d'] then (realWith pt m a, 0)
  else if m.rel ≠ deprel ∧ deprel ≠ ['c','o','o','r','d'] then ([], 1)
  else (realWith pt m a, 0)

def depLoop (pt : Str → Str) (deprel : Str) (noConnect : Bool) : List Member → List Str × Nat
  | [] => ([], 0)
  | [_] => ([], 0)
  | m :: m' :: rest =>
    let r := depInner pt deprel m (if noConnect || !rest.isEmpty then appendComma m.a else m.a)
    let r' := depLoop pt deprel noConnect (m' :: rest)
    (r.1 ++ r'.1, r.2 + r'.2)

def lastMember : List Member → Option Member
  | [] => none
  | [m] => some m
  | _ :: m' :: rest => lastMember (m' :: rest)

def coordStr : Str := ['c','o','o','r','d']

/-- `Dependent.coordReal`; `andC` is `self.and_conj()` -/
def coordReal (pt : Str → Str) (andC : Str) (t : Term) (ms : List Member) (r0 : Rec) : Except Crash Out :=
  match ms with
  | [] => .ok { toks := [], peng := r0 }
  | [m] =>
    -- `res = dep.real()`: a nested coord is realized by the general `Dependent.real`, not by `coordReal`
    let toks := if m.rel = coordStr then appendLast m.alt (afterOf pt m.a) else alone pt m
    .ok { toks := removeEmpty toks, peng := writeSingle m }
  | first :: _ =>
    let deprel := first.rel
    let noConnect := t.lemma == []
    let lp := depLoop pt deprel noConnect ms
    match lastMember ms with
    | none => .ok { toks := [], peng := r0 }   -- unreachable (ms has two members or more)
    | some lastD =>
      if lastD.rel = coordStr then
        -- `res.extend(lastD.coordReal()); return self.doFormat(res)` : no resolution at all
        .ok { toks := removeEmpty (lp.1 ++ t.toks ++ alone pt lastD), peng := r0, warns := lp.2 }
      else
        let w1 := if lastD.rel ≠ deprel ∧ deprel ≠ coordStr then 1 else 0   -- warns, but realizes it
        let res := lp.1 ++ t.toks ++ alone pt lastD
        if t.kind = ['C'] ∨ t.kind = ['Q'] then
          -- a quoted string (possibly empty) does not combine the dependents by "and"
          match findGNP coordCounted (t.kind == ['C'] && t.lemma == andC) ms with
          | .error e => .error e
          | .ok gn => .ok { toks := removeEmpty res, peng := writeGNPdep r0 gn, warns := lp.2 + w1 }
        else
          .ok { toks := removeEmpty res, peng := r0, warns := lp.2 + w1 + 1 }

/-! ### the coordination as a subject (or sharing the subject's record): order of realization -/

/-- what `conjugate` reads: `pe = 3 if pe is None else int(pe)`; `n == "p"` or not.  (person, plural?) -/
def verbView (r : Rec) : Nat × Bool := (r.peN.getD 3, r.n == some plural)

structure SOut where
  toks : List Str        -- tokens of the coordination
  peng : Rec             -- the shared record when the verb is realized
  pe   : Nat             -- person / plural? the verb is conjugated with
  pl   : Bool
  warns : Nat := 0
  deriving DecidableEq, Repr

/-- `Phrase.real` / `Dependent.real` of the clause: `cpReals = [e.cpReal() …]` first, then
    `if self.getProp("n") is None: self.setProp("n","s")`, then the other children (the verb) are realized -/
def afterCoord (o : Out) : SOut :=
  let r : Rec := { o.peng with n := match o.peng.n with | none => some sing | some x => some x }
  { toks := o.toks, peng := r, pe := (verbView r).1, pl := (verbView r).2, warns := o.warns }

/-- `S(CP(…), VP(V …))`.  A CP built without any element never ran `linkProperties` and has no `peng`: since 3a576cc
    `S.linkProperties` then links nothing and the verb reads its own record `rV` (its defaults). -/
def sCP (pt : Str → Str) (andC : Str) (conj : Option Conj) (ms : List Member) (rV : Rec) : Except Crash SOut :=
  if conj.isNone ∧ ms.isEmpty then .ok (afterCoord { toks := [], peng := rV })
  else
    match cpReal pt andC conj ms {} with
    | .error e => .error e
    | .ok o => .ok (afterCoord o)

/-- `root(V …, coord(…))`: `Dependent.linkProperties` of the parent gives the coord the parent's record only when
    its first dependent is a `subj` (or `det`, or a `mod`/`comp` whose terminal is a V or an A); `r0` is that
    record (the verb's, or the subject's when the coord is an attribute); otherwise the coord keeps a record of
    its own and the verb reads `r0` unchanged. -/
def depShares : List Member → Bool
  | [] => false
  | f :: _ => f.rel = ['s','u','b','j'] || f.rel = ['d','e','t'] ||
      ((f.rel = ['m','o','d'] || f.rel = ['c','o','m','p']) && (f.kind = ['V'] || f.kind = ['A']))

def sDep (pt : Str → Str) (andC : Str) (t : Term) (ms : List Member) (r0 : Rec) : Except Crash SOut :=
  if depShares ms then
    match coordReal pt andC t ms r0 with
    | .error e => .error e
    | .ok o => .ok (afterCoord o)
  else
    match coordReal pt andC t ms {} with
    | .error e => .error e
    | .ok o => .ok (afterCoord { o with peng := r0 })

/-! ### option propagation (`makeOptionMethod._method`, branches `isA("CP")` and `isA("coord")`) -/

/-- `len(allowedConsts)==0 or e.isA(allowedConsts)` -/
def legal (allowed : List Str) (kind : Str) : Bool := allowed.isEmpty || allowed.contains kind

/-- `for e in self.elements: if legal: getattr(e,option)(val,True)` : the positions on which the method is called -/
def propagateFrom (allowed : List Str) (i : Nat) : List Str → List Nat
  | [] => []
  | k :: ks => if legal allowed k then i :: propagateFrom allowed (i + 1) ks else propagateFrom allowed (i + 1) ks

/-- the option method `name` called on a CP/coord whose elements (CP: `constType`; coord: `terminal.constType`)
    are `kinds`.  `none`: the option is one of the excluded ones (`cap`, `lier`, `pos`): nothing is propagated. -/
def propagate (noProp : List Str) (table : List (Str × List Str)) (name : Str) (kinds : List Str) : Option (List Nat) :=
  if noProp.contains name then none
  else match lookup name table with
    | none => none
    | some allowed => some (propagateFrom allowed 0 kinds)

end Pyrealb.Coord
