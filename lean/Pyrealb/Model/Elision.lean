import Pyrealb.Model.Basic
import Pyrealb.Gen.ElisionTables
/-! # Model of `ConstituentFr.doElision` / `ConstituentEn.doElision` on token lists

Mirrors `src/pyrealb/ConstituentFr.py:46-132` and `src/pyrealb/ConstituentEn.py:37-106` branch for branch,
including what looks wrong (the look-ahead on the *raw* realization, the case-sensitive contraction table, the `is not None` test on the wrong index).

* a token is what `doElision` reads of a `Terminal`: its realization (`None` possible), `constType`, the
  `lier` property, `getProp("n") == "s"`, its language (`isFr()`; since /repo commit ab31145 only words of the
  list's own language are rewritten), and the answer of the lexicon to the aspirated-h question asked by
  `isElidableFr` (`hW`: asked with the first word `w2`; `hR`: asked with the raw realization in the look-ahead;
  they coincide whenever the lemma is a `str`);
* the regular expressions are total functions on `List Char`; `\w`, `\s` and lower-casing are ASCII plus the
  recorded facts of `Gen.Elision` for the finite alphabet;
* what raises in Python is `Except Crash`.
-/
namespace Pyrealb.Elision
open Pyrealb Pyrealb.Gen.Elision

instance exceptDecEq {α : Type} [DecidableEq α] : DecidableEq (Except Crash α) := fun a b =>
  match a, b with
  | .ok x, .ok y => if h : x = y then isTrue (by rw [h]) else isFalse (by intro e; cases e; exact h rfl)
  | .error x, .error y => if h : x = y then isTrue (by rw [h]) else isFalse (by intro e; cases e; exact h rfl)
  | .ok _, .error _ => isFalse (by intro e; cases e)
  | .error _, .ok _ => isFalse (by intro e; cases e)

inductive Lang where
  | fr | en
  deriving DecidableEq, Repr

/-! ## characters -/

/-- Python `\w` (str pattern) on the alphabet -/
def isW (c : Char) : Bool := c.isAlphanum || c == '_' || wordNonAscii.contains c

/-- Python `\s` / `str.isspace` on the alphabet -/
def isSp (c : Char) : Bool :=
  c == ' ' || (9 ≤ c.toNat && c.toNat ≤ 13) || (28 ≤ c.toNat && c.toNat ≤ 31) || spaceNonAscii.contains c

/-- `str.lower` of one character on the alphabet -/
def lowerC (c : Char) : Char :=
  if c.isUpper then c.toLower else
    match lowerPairs.lookup c with
    | some d => d
    | none => c

def lower (x : Str) : Str := x.map lowerC

/-- the word class `[\w…'-]` of `sepWordREC` -/
def isWd (ℓ : Lang) (c : Char) : Bool :=
  isW c || (match ℓ with | .fr => sepFrExtra.contains c | .en => sepEnExtra.contains c)

/-! ## `sepWordREC` : `((?:[^<\w…'-]*(?:<[^>]+>)?)*)([\w…'-]+)?(.*)` -/

/-- `[^>]+>` can match right after a `<` -/
def tagOK : Str → Bool
  | [] => false
  | c :: cs => c != '>' && cs.contains '>'

inductive Sk where
  | out | tag

/-- length of group 1: runs of non-word characters other than `<`, and complete tags `<…>` -/
def skipLen (wd : Char → Bool) : Sk → Str → Nat
  | .out, [] => 0
  | .out, c :: cs =>
    if c == '<' then (if tagOK cs then 1 + skipLen wd .tag cs else 0)
    else if wd c then 0 else 1 + skipLen wd .out cs
  | .tag, [] => 0
  | .tag, c :: cs => if c == '>' then 1 + skipLen wd .out cs else 1 + skipLen wd .tag cs

structure Sep where
  pre : Str
  word : Option Str
  rest : Str
  deriving DecidableEq, Repr

/-- `sepWordREC.match(x)` : groups 1, 2, 3 (`.` does not match a newline) -/
def sepWord (ℓ : Lang) (x : Str) : Sep :=
  let k := skipLen (isWd ℓ) .out x
  let tl := x.drop k
  let w := tl.takeWhile (isWd ℓ)
  { pre := x.take k,
    word := if w.isEmpty then none else some w,
    rest := (tl.dropWhile (isWd ℓ)).takeWhile (· != '\n') }

/-- `str.strip()` -/
def strip (x : Str) : Str := ((x.dropWhile isSp).reverse.dropWhile isSp).reverse

/-- `w3NoWords = not re.match(r"^\s*\w", rest)` -/
def noWords (r : Str) : Bool :=
  match r.dropWhile isSp with
  | [] => true
  | c :: _ => !isW c

/-! ## tokens -/

inductive HFlag where
  | mute    -- the lexicon does not mark an aspirated h (or the word is unknown): elide
  | aspire  -- `"h": 1`
  | crash   -- (before /repo commit fa11862: lemma not a `str` and word unknown: `lemma.lower()` raised AttributeError;
            --  no longer produced by the lexicon lookup — kept as an unreachable input value)
  deriving DecidableEq, Repr

structure Tok where
  real : Option Str
  ct : Str
  lier : Bool
  sg : Bool
  hW : HFlag
  hR : HFlag
  /-- `isFr()` (`isEn()` is its negation: two languages) -/
  fr : Bool
  deriving DecidableEq, Repr

def Tok.setReal (t : Tok) (x : Str) : Tok := { t with real := some x }

structure View where
  pre : Str
  w : Str
  rest : Str
  deriving DecidableEq, Repr

/-- the first word of a token, when it has one -/
def view (ℓ : Lang) (t : Tok) : Option View :=
  match t.real with
  | none => none
  | some x =>
    let m := sepWord ℓ x
    match m.word with
    | none => none
    | some w => some ⟨m.pre, w, m.rest⟩

/-! ## French -/

/-- `re.match(r"^[aeiouyàâéèêëîïôöùü]", x, re.I)` on the first character -/
def isVowelFr (c : Char) : Bool := vowelsFr.contains (lowerC c)

/-- the lexicon part of `isElidableFr` for an h-initial word -/
def hAnswer : HFlag → Except Crash Bool
  | .mute => .ok true
  | .aspire => .ok false
  | .crash => .error .attributeError

/-- `isElidableFr(realization, lemma, pos)` with the lexicon's answer abstracted to `h` -/
def elidableNext (x : Str) (h : HFlag) : Except Crash Bool :=
  match x with
  | [] => .ok false
  | c :: _ =>
    if isVowelFr c then .ok true
    else if lowerC c == 'h' then hAnswer h
    else .ok false

/-- `true` iff the call returned `True` -/
def isOkTrue : Except Crash Bool → Bool
  | .ok b => b
  | .error _ => false

/-- `elidableWordFrRE.match(w)` -/
def isElidableWord (w : Str) : Bool := elidableFr.contains (lower w)
/-- `euphonieFrRE.match(w)` -/
def isEuphonic (w : Str) : Bool := euphonicFr.contains (lower w)
/-- `re.match(r"ce", w1, re.I)` -/
def ceMatch (w : Str) : Bool := lower (w.take 2) == ['c', 'e']
/-- `re.match(r"(^est$)|(^étai)|(^a$)", w2, re.I)` -/
def ceVerb (w : Str) : Bool :=
  ceVerbFr.any (fun (p : Str × Bool) => if p.2 then lower w == p.1 else lower (w.take p.1.length) == p.1)
/-- `w2 in ["et", "ou", "où", "aujourd'hui"]` (case-sensitive) -/
def euphExc (w : Str) : Bool := euphExceptionsFr.contains w
/-- `contractionFrTable.get(w1 + "+" + w2)` -/
def contrFr (w1 w2 : Str) : Option Str := lookup (w1 ++ '+' :: w2) contractionFrTable

/-- `m[1] + new + m[3]` -/
def View.rebuild (v : View) (new : Str) : Str := v.pre ++ new ++ v.rest

/-- `str.isupper()` of one character on the alphabet -/
def isUpperPy (c : Char) : Bool := c.isUpper || (lowerPairs.lookup c).isSome

/-- `str.upper` of one character on the alphabet -/
def upperC (c : Char) : Char :=
  if c.isLower then c.toUpper else
    match lowerPairs.find? (fun p => p.2 == c) with
    | some p => p.1
    | none => c

/-- `str.capitalize()` -/
def capitalizePy : Str → Str
  | [] => []
  | c :: r => upperC c :: lower r

/-- `w1[0].isupper()` -/
def headUpper : Str → Bool
  | [] => false
  | c :: _ => isUpperPy c

/-- `euph = euphonieFrTable[w1.lower()]; if w1[0].isupper(): euph = euph.capitalize()` (commit 5847d2f) -/
def euphForm (w1 : Str) : Option Str :=
  match lookup (lower w1) euphonieFrTable with
  | none => none
  | some v => some (if headUpper w1 then capitalizePy v else v)

/-- what one iteration does: `keep`: nothing, `i += 1`; `one a`: token `i` becomes `a`, `i += 1` (elision, euphony:
    since commit 534aec1 the next pair is no longer skipped); `two a b`: both tokens rewritten, `i += 2`
    (contraction, look-ahead elision of the article) -/
inductive ActFr where
  | keep
  | one (a : Tok)
  | two (a b : Tok)

/-- the body of the loop once both first words are known (`v1`, `v2`) and `isElidableFr(w2, …)` returned `e2` -/
def stepFrCore (t1 t2 : Tok) (t3 : Option Tok) (v1 v2 : View) (e2 : Bool) : Except Crash ActFr :=
  let nw := noWords v1.rest
  if e2 && isElidableWord v1.w && nw then
    .ok (.one (t1.setReal (v1.rebuild (v1.w.dropLast ++ ['\'']))))
  else if e2 && isEuphonic v1.w && nw && t1.sg then
    if ceMatch v1.w && ceVerb v2.w then
      .ok (.one (t1.setReal (v1.rebuild (v1.w.dropLast ++ ['\'']))))
    else if !euphExc v2.w then
      match euphForm v1.w with
      | none => .error .keyError     -- `euphonieFrTable[w1.lower()]` (unreachable while the table has every word of the regex)
      | some v => .ok (.one (t1.setReal (v1.rebuild v)))
    else .ok .keep                   -- elisionFound = True: no contraction is tried
  else
    match (if nw && t2.fr then contrFr v1.w v2.w else none) with     -- `… and cList[i + 1].isFr()`
    | none => .ok .keep
    | some c =>
      let contract : ActFr :=
        .two (t1.setReal (v1.rebuild c)) (t2.setReal (v2.pre ++ strip v2.rest))
      if isElidableWord v2.w && t2.ct != ['D', 'T'] then
        match t3 with
        | none => .ok contract
        | some t3 =>
          match t3.real with
          | none => .error .typeError
          | some x3 =>
            match elidableNext x3 t3.hR with     -- the RAW realization of the third token
            | .error e => .error e
            | .ok true => .ok (.two t1 (t2.setReal (v2.rebuild (v2.w.dropLast ++ ['\'']))))
            | .ok false => .ok contract
      else .ok contract

/-- What one iteration of the `while` does with the pair at `i`, `i+1` (`t3` is the token at `i+2`). -/
def stepFr (t1 t2 : Tok) (t3 : Option Tok) : Except Crash ActFr :=
  if !t1.fr then .ok .keep else        -- `if not cList[i].isFr(): i += 1; continue`
  match t1.real with
  | none => .ok .keep                  -- m1 = None
  | some _ =>
    match view .fr t1 with
    | none => .ok .keep                -- m1.group(2) is None
    | some v1 =>
      match t2.real with
      | none => .error .typeError      -- the guard tests `cList[i].realization`, not `cList[i+1]`
      | some _ =>
        match view .fr t2 with
        | none => .ok .keep
        | some v2 =>
          match elidableNext v2.w t2.hW with
          | .error e => .error e
          | .ok e2 => stepFrCore t1 t2 t3 v1 v2 e2

/-- the `while i < last` loop from index `i` on; `pl` = `i > 0 and cList[i-1].getProp("lier")` -/
def goFr : Bool → List Tok → Except Crash (List Tok)
  | _, [] => .ok []
  | _, [t] => .ok [t]
  | pl, t1 :: t2 :: rest =>
    if pl then
      match goFr t1.lier (t2 :: rest) with
      | .error e => .error e
      | .ok l => .ok (t1 :: l)
    else
      match stepFr t1 t2 rest.head? with
      | .error e => .error e
      | .ok .keep =>
        match goFr t1.lier (t2 :: rest) with
        | .error e => .error e
        | .ok l => .ok (t1 :: l)
      | .ok (.one a) =>
        match goFr t1.lier (t2 :: rest) with
        | .error e => .error e
        | .ok l => .ok (a :: l)
      | .ok (.two a b) =>
        match goFr t2.lier rest with
        | .error e => .error e
        | .ok l => .ok (a :: b :: l)

def doElisionFr (toks : List Tok) : Except Crash (List Tok) := goFr false toks

/-! ## English -/

/-- case-insensitive prefix test `re.match("^" + p, w, re.I)` for a lower-case literal `p` -/
def startsCI (w p : Str) : Bool := lower (w.take p.length) == p

/-- `acronymRE = ^[A-Z]+$` -/
def isAcronym (w : Str) : Bool := !w.isEmpty && w.all Char.isUpper

/-- the condition of ConstituentEn.py:86-92 -/
def anRule (w : Str) : Bool :=
  (match w with | [] => false | c :: _ => anFirstEn.contains (lowerC c)) ||
  ((startsCI w ['e'] && !notEEn.any (startsCI w)) ||
   (startsCI w ['o'] && !notOEn.any (startsCI w)) ||
   (startsCI w ['u'] && !uLikeYouEn.any (startsCI w)) ||
   hAnEn.any (startsCI w) ||
   isAcronym w)

def contrEn (w1 w2 : Str) : Option Str := lookup (w1 ++ '+' :: w2) contractionEnTable

inductive ActEn where
  | keep                     -- i += 1
  | one (a : Tok)            -- token i rewritten, i += 1   ("cannot")
  | two (a b : Tok)          -- tokens i, i+1 rewritten, i += 2

/-- `(w1 == "a" or w1 == "A") and cList[i].isA("D") and cList[i].isEn()` -/
def isArtA (t : Tok) (w : Str) : Bool := (w == ['a'] || w == ['A']) && t.ct == ['D'] && !t.fr

def stepEnCore (contr : Bool) (t1 t2 : Tok) (v1 v2 : View) : ActEn :=
  if isArtA t1 v1.w then
    if anRule v2.w then .two (t1.setReal (v1.rebuild (v1.w ++ ['n']))) t2
    else .keep
  else if contr then
    if v1.w == ['c', 'a', 'n', 'n', 'o', 't'] then
      .one (t1.setReal (v1.rebuild ['c', 'a', 'n', '\'', 't']))
    else
      match contrEn v1.w v2.w with
      | none => .keep
      | some c => .two (t1.setReal (v1.rebuild c)) (t2.setReal (v2.pre ++ strip v2.rest))
  else .keep

def stepEn (contr : Bool) (t1 t2 : Tok) : Except Crash ActEn :=
  match t1.real with
  | none => .error .typeError          -- no `is not None` guard in English
  | some _ =>
    match view .en t1 with
    | none => .ok .keep
    | some v1 =>
      match t2.real with
      | none => .error .typeError
      | some _ =>
        match view .en t2 with
        | none => .ok .keep
        | some v2 => .ok (stepEnCore contr t1 t2 v1 v2)

def goEn (contr : Bool) : List Tok → Except Crash (List Tok)
  | [] => .ok []
  | [t] => .ok [t]
  | t1 :: t2 :: rest =>
    match stepEn contr t1 t2 with
    | .error e => .error e
    | .ok .keep =>
      match goEn contr (t2 :: rest) with
      | .error e => .error e
      | .ok l => .ok (t1 :: l)
    | .ok (.one a) =>
      match goEn contr (t2 :: rest) with
      | .error e => .error e
      | .ok l => .ok (a :: l)
    | .ok (.two a b) =>
      match goEn contr rest with
      | .error e => .error e
      | .ok l => .ok (a :: b :: l)

def doElisionEn (contr : Bool) (toks : List Tok) : Except Crash (List Tok) := goEn contr toks

/-- `self.doElision(cList)`; `contr` = `hasattr(self,"contraction") and self.contraction == True` (English only) -/
def doElision (ℓ : Lang) (contr : Bool) (toks : List Tok) : Except Crash (List Tok) :=
  match ℓ with
  | .fr => doElisionFr toks
  | .en => doElisionEn contr toks

/-! ## The property, as a decidable predicate on token lists (used by the driver's `settled` op and by Props/C06)

Declarative: clauses on adjacent pairs, independent of the control flow of `doElision`. -/

/-- “begins with a vowel or a mute h”, the lexicon's `h` flag read exactly as `isElidableFr` reads it -/
def vowelOrMuteH (w : Str) (t : Tok) : Bool := isOkTrue (elidableNext w t.hW)

/-- an elidable word with its last letter replaced by an apostrophe: l', j', m', t', s', d', n', qu', … -/
def isElidedForm (w : Str) : Bool := elidableFr.any (fun b => lower w == b.dropLast ++ ['\''])

/-- the prevocalic forms that exist only by euphony (values of the table whose key is not a possessive:
    cet, bel, fol, mol, nouvel, vieil — `mon/ton/son` are also the ordinary masculine forms) -/
def prevocalicOnly : List Str :=
  (euphonieFrTable.filter (fun p => p.2 != p.1.dropLast ++ ['o', 'n'])).map (·.2)

def isPrevocalicOnly (w : Str) : Bool := prevocalicOnly.contains (lower w)

/-- the property's own constants (not lifted from the code): `à`, `de` ; `le`, `les` -/
def aDe : List Str := [['à'], ['d', 'e']]
def leLes : List Str := [['l', 'e'], ['l', 'e', 's']]

/-- the French clauses, on the two adjacent words: `w1` (a French word, of a token whose number is singular iff
    `sg`), `w2`, `V` = `w2` begins with a vowel or a mute h, `isD` = the second token is a determiner, `fr2` = the
    second token is French too (a contraction merges two French words) -/
def clausesFr (w1 : Str) (sg : Bool) (w2 : Str) (V : Bool) (isD : Bool) (fr2 : Bool) : Bool :=
  -- F1: no elidable word stands unelided before a vowel or mute h
  !(isElidableWord w1 && V)
  -- F2: an elided form only before a vowel or mute h
  && (!isElidedForm w1 || V)
  -- F3: no pair of the code's contraction table survives
  && (!fr2 || (contrFr w1 w2).isNone)
  -- F3': à/de never stand before the article le/les (whatever the capitals)
  && !(aDe.contains (lower w1) && leLes.contains (lower w2) && isD && fr2)
  -- F4: ma/ta/sa/ce/beau/… singular before a vowel or mute h (other than et/ou/où/aujourd'hui) does not survive
  && !(isEuphonic w1 && sg && V && !euphExc w2)
  -- F5: cet/bel/fol/mol/nouvel/vieil only before a vowel or mute h other than et/ou/où/aujourd'hui
  && (!isPrevocalicOnly w1 || (V && !euphExc w2))

/-- French: two adjacent tokens whose first words are adjacent in the text (nothing but punctuation follows `w1`
    in its token), the first one a French word, satisfy the clauses -/
def pairOKFr (t1 t2 : Tok) : Bool :=
  match view .fr t1, view .fr t2 with
  | some v1, some v2 =>
    !t1.fr || !noWords v1.rest || clausesFr v1.w t1.sg v2.w (vowelOrMuteH v2.w t2) (t2.ct == ['D']) t2.fr
  | _, _ => true

/-- English clause: the English determiner is `an` exactly before the words selected by `anRule` -/
def pairOKEn (t1 t2 : Tok) : Bool :=
  match view .en t1, view .en t2 with
  | some v1, some v2 =>
    (!(t1.ct == ['D'] && !t1.fr && (v1.w == ['a'] || v1.w == ['A'])) || !anRule v2.w)
    && (!(t1.ct == ['D'] && !t1.fr && (v1.w == ['a', 'n'] || v1.w == ['A', 'n'])) || anRule v2.w)
  | _, _ => true

def pairOK : Lang → Tok → Tok → Bool
  | .fr => pairOKFr
  | .en => pairOKEn

/-- every adjacent pair is settled; in French a pair whose left neighbour is `lier`-ed is exempt (the code's
    documented exemption: “ignore if the preceding word is lié to this one”) -/
def settledFrom (ℓ : Lang) : Bool → List Tok → Bool
  | _, [] => true
  | _, [_] => true
  | pl, t1 :: t2 :: rest => ((ℓ == .fr && pl) || pairOK ℓ t1 t2) && settledFrom ℓ t1.lier (t2 :: rest)

def settled (ℓ : Lang) (toks : List Tok) : Bool := settledFrom ℓ false toks

/-- the text view: empty realizations contribute nothing to the text (`removeEmpty`, `detokenize`) -/
def dropEmpty (toks : List Tok) : List Tok := toks.filter (fun t => t.real != some [])

end Pyrealb.Elision
