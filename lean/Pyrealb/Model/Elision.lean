import Pyrealb.Model.Basic
import Pyrealb.Gen.ElisionTables
/-! # Model of `ConstituentFr.doElision` / `ConstituentEn.doElision` on token lists

Mirrors `src/pyrealb/ConstituentFr.py:46-132` and `src/pyrealb/ConstituentEn.py:37-106` branch for branch,
including what looks wrong (case-insensitive regex + case-sensitive dict, the `i += 2` after every rewrite,
the look-ahead on the *raw* realization, the `is not None` test on the wrong index).

* a token is what `doElision` reads of a `Terminal`: its realization (`None` possible), `constType`, the
  `lier` property, `getProp("n") == "s"`, and the answer of the lexicon to the aspirated-h question asked by
  `isElidableFr` (`hW`: asked with the first word `w2`; `hR`: asked with the raw realization in the look-ahead;
  they coincide whenever the lemma is a `str`);
* the regular expressions are total functions on `List Char`; `\w`, `\s` and lower-casing are ASCII plus the
  recorded facts of `Gen.Elision` for the finite alphabet;
* what raises in Python is `Except Crash`.
-/
namespace Pyrealb.Elision
open Pyrealb Pyrealb.Gen.Elision

inductive Lang where
  | fr | en
  deriving DecidableEq, Repr

/-! ## characters -/

/-- Python `\w` (str pattern) on the alphabet -/
def isW (c : Char) : Bool := c.isAlphanum || c == '_' || wordNonAscii.contains c

/-- Python `\s` / `str.isspace` on the alphabet -/
def isSp (c : Char) : Bool :=
  c == ' ' || (9 ≤ c.toNat && c.toNat ≤ 13) || (28 ≤ c.toNat && c.toNat ≤ 31) || spaceNonAscii.contains c

/-- `str.lower` of one character on the alphabet -/
def lowerC (c : Char) : Char :=
  if c.isUpper then c.toLower else
    match lowerPairs.lookup c with
    | some d => d
    | none => c

def lower (x : Str) : Str := x.map lowerC

/-- the word class `[\w…'-]` of `sepWordREC` -/
def isWd (ℓ : Lang) (c : Char) : Bool :=
  isW c || (match ℓ with | .fr => sepFrExtra.contains c | .en => sepEnExtra.contains c)

/-! ## `sepWordREC` : `((?:[^<\w…'-]*(?:<[^>]+>)?)*)([\w…'-]+)?(.*)` -/

/-- `[^>]+>` can match right after a `<` -/
def tagOK : Str → Bool
  | [] => false
  | c :: cs => c != '>' && cs.contains '>'

inductive Sk where
  | out | tag

/-- length of group 1: runs of non-word characters other than `<`, and complete tags `<…>` -/
def skipLen (wd : Char → Bool) : Sk → Str → Nat
  | .out, [] => 0
  | .out, c :: cs =>
    if c == '<' then (if tagOK cs then 1 + skipLen wd .tag cs else 0)
    else if wd c then 0 else 1 + skipLen wd .out cs
  | .tag, [] => 0
  | .tag, c :: cs => if c == '>' then 1 + skipLen wd .out cs else 1 + skipLen wd .tag cs

structure Sep where
  pre : Str
  word : Option Str
  rest : Str
  deriving DecidableEq, Repr

/-- `sepWordREC.match(x)` : groups 1, 2, 3 (`.` does not match a newline) -/
def sepWord (ℓ : Lang) (x : Str) : Sep :=
  let k := skipLen (isWd ℓ) .out x
  let tl := x.drop k
  let w := tl.takeWhile (isWd ℓ)
  { pre := x.take k,
    word := if w.isEmpty then none else some w,
    rest := (tl.dropWhile (isWd ℓ)).takeWhile (· != '\n') }

/-- `str.strip()` -/
def strip (x : Str) : Str := ((x.dropWhile isSp).reverse.dropWhile isSp).reverse

/-- `w3NoWords = not re.match(r"^\s*\w", rest)` -/
def noWords (r : Str) : Bool :=
  match r.dropWhile isSp with
  | [] => true
  | c :: _ => !isW c

/-! ## tokens -/

inductive HFlag where
  | mute    -- the lexicon does not mark an aspirated h (or the word is unknown): elide
  | aspire  -- `"h": 1`
  | crash   -- the lemma is not a `str` and the word is unknown: `lemma.lower()` raises AttributeError
  deriving DecidableEq, Repr

structure Tok where
  real : Option Str
  ct : Str
  lier : Bool
  sg : Bool
  hW : HFlag
  hR : HFlag
  deriving DecidableEq, Repr

def Tok.setReal (t : Tok) (x : Str) : Tok := { t with real := some x }

/-! ## French -/

/-- `re.match(r"^[aeiouyàâéèêëîïôöùü]", x, re.I)` on the first character -/
def isVowelFr (c : Char) : Bool := vowelsFr.contains (lowerC c)

/-- `isElidableFr(realization, lemma, pos)` with the lexicon's answer abstracted to `h` -/
def elidableNext (x : Str) (h : HFlag) : Except Crash Bool :=
  match x with
  | [] => .ok false
  | c :: _ =>
    if isVowelFr c then .ok true
    else if lowerC c == 'h' then
      match h with
      | .mute => .ok true
      | .aspire => .ok false
      | .crash => .error .attributeError
    else .ok false

/-- `elidableWordFrRE.match(w)` -/
def isElidableWord (w : Str) : Bool := elidableFr.contains (lower w)
/-- `euphonieFrRE.match(w)` -/
def isEuphonic (w : Str) : Bool := euphonicFr.contains (lower w)
/-- `re.match(r"ce", w1, re.I)` -/
def ceMatch (w : Str) : Bool := lower (w.take 2) == ['c', 'e']
/-- `re.match(r"(^est$)|(^étai)|(^a$)", w2, re.I)` -/
def ceVerb (w : Str) : Bool :=
  ceVerbFr.any (fun (p : Str × Bool) => if p.2 then lower w == p.1 else lower (w.take p.1.length) == p.1)
/-- `w2 in ["et", "ou", "où", "aujourd'hui"]` (case-sensitive) -/
def euphExc (w : Str) : Bool := euphExceptionsFr.contains w
/-- `contractionFrTable.get(w1 + "+" + w2)` -/
def contrFr (w1 w2 : Str) : Option Str := lookup (w1 ++ '+' :: w2) contractionFrTable

/-- `m[1] + w[:-1] + "'" + m[3]` -/
def elideReal (m : Sep) (w : Str) : Str := m.pre ++ w.dropLast ++ '\'' :: m.rest

/-- What one iteration of the `while` does with the pair at `i`, `i+1` (`t3` is the token at `i+2`):
    `none`: nothing, `i += 1`; `some (a, b)`: the two tokens become `a`, `b` and `i += 2`. -/
def stepFr (t1 t2 : Tok) (t3 : Option Tok) : Except Crash (Option (Tok × Tok)) :=
  match t1.real with
  | none => .ok none
  | some x1 =>
    let m1 := sepWord .fr x1
    match m1.word with
    | none => .ok none
    | some w1 =>
      match t2.real with
      | none => .error .typeError      -- the guard tests `cList[i].realization`, not `cList[i+1]`
      | some x2 =>
        let m2 := sepWord .fr x2
        match m2.word with
        | none => .ok none
        | some w2 =>
          let nw := noWords m1.rest
          match elidableNext w2 t2.hW with
          | .error e => .error e
          | .ok e2 =>
            if e2 && isElidableWord w1 && nw then
              .ok (some (t1.setReal (elideReal m1 w1), t2))
            else if e2 && isEuphonic w1 && nw && t1.sg then
              if ceMatch w1 && ceVerb w2 then
                .ok (some (t1.setReal (elideReal m1 w1), t2))
              else if !euphExc w2 then
                match lookup w1 euphonieFrTable with
                | none => .error .keyError     -- the regex is case-insensitive, the dict is not
                | some v => .ok (some (t1.setReal (m1.pre ++ v ++ m1.rest), t2))
              else .ok (some (t1, t2))         -- elisionFound = True all the same
            else
              match (if nw then contrFr w1 w2 else none) with
              | none => .ok none
              | some c =>
                let contract : Option (Tok × Tok) :=
                  some (t1.setReal (m1.pre ++ c ++ m1.rest), t2.setReal (m2.pre ++ strip m2.rest))
                if isElidableWord w2 && t2.ct != ['D', 'T'] then
                  match t3 with
                  | none => .ok contract
                  | some t3 =>
                    match t3.real with
                    | none => .error .typeError
                    | some x3 =>
                      match elidableNext x3 t3.hR with
                      | .error e => .error e
                      | .ok true => .ok (some (t1, t2.setReal (elideReal m2 w2)))
                      | .ok false => .ok contract
                else .ok contract

/-- the `while i < last` loop from index `i` on; `pl` = `i > 0 and cList[i-1].getProp("lier")` -/
def goFr : Bool → List Tok → Except Crash (List Tok)
  | _, [] => .ok []
  | _, [t] => .ok [t]
  | pl, t1 :: t2 :: rest =>
    if pl then
      match goFr t1.lier (t2 :: rest) with
      | .error e => .error e
      | .ok l => .ok (t1 :: l)
    else
      match stepFr t1 t2 rest.head? with
      | .error e => .error e
      | .ok none =>
        match goFr t1.lier (t2 :: rest) with
        | .error e => .error e
        | .ok l => .ok (t1 :: l)
      | .ok (some (a, b)) =>
        match goFr t2.lier rest with
        | .error e => .error e
        | .ok l => .ok (a :: b :: l)

def doElisionFr (toks : List Tok) : Except Crash (List Tok) := goFr false toks

/-! ## English -/

/-- case-insensitive prefix test `re.match("^" + p, w, re.I)` for a lower-case literal `p` -/
def startsCI (w p : Str) : Bool := lower (w.take p.length) == p

/-- `acronymRE = ^[A-Z]+$` -/
def isAcronym (w : Str) : Bool := !w.isEmpty && w.all Char.isUpper

/-- the condition of ConstituentEn.py:86-92 -/
def anRule (w : Str) : Bool :=
  (match w with | [] => false | c :: _ => anFirstEn.contains (lowerC c)) ||
  ((startsCI w ['e'] && !notEEn.any (startsCI w)) ||
   (startsCI w ['o'] && !notOEn.any (startsCI w)) ||
   (startsCI w ['u'] && !uLikeYouEn.any (startsCI w)) ||
   hAnEn.any (startsCI w) ||
   isAcronym w)

def contrEn (w1 w2 : Str) : Option Str := lookup (w1 ++ '+' :: w2) contractionEnTable

inductive ActEn where
  | keep                     -- i += 1
  | one (a : Tok)            -- token i rewritten, i += 1   ("cannot")
  | two (a b : Tok)          -- tokens i, i+1 rewritten, i += 2

def stepEn (contr : Bool) (t1 t2 : Tok) : Except Crash ActEn :=
  match t1.real with
  | none => .error .typeError
  | some x1 =>
    let m1 := sepWord .en x1
    match m1.word with
    | none => .ok .keep
    | some w1 =>
      match t2.real with
      | none => .error .typeError
      | some x2 =>
        let m2 := sepWord .en x2
        match m2.word with
        | none => .ok .keep
        | some w2 =>
          if (w1 == ['a'] || w1 == ['A']) && t1.ct == ['D'] then
            if anRule w2 then .ok (.two (t1.setReal (m1.pre ++ w1 ++ 'n' :: m1.rest)) t2)
            else .ok .keep
          else if contr then
            if w1 == ['c', 'a', 'n', 'n', 'o', 't'] then
              .ok (.one (t1.setReal (m1.pre ++ ['c', 'a', 'n', '\'', 't'] ++ m1.rest)))
            else
              match contrEn w1 w2 with
              | none => .ok .keep
              | some c => .ok (.two (t1.setReal (m1.pre ++ c ++ m1.rest)) (t2.setReal (m2.pre ++ strip m2.rest)))
          else .ok .keep

def goEn (contr : Bool) : List Tok → Except Crash (List Tok)
  | [] => .ok []
  | [t] => .ok [t]
  | t1 :: t2 :: rest =>
    match stepEn contr t1 t2 with
    | .error e => .error e
    | .ok .keep =>
      match goEn contr (t2 :: rest) with
      | .error e => .error e
      | .ok l => .ok (t1 :: l)
    | .ok (.one a) =>
      match goEn contr (t2 :: rest) with
      | .error e => .error e
      | .ok l => .ok (a :: l)
    | .ok (.two a b) =>
      match goEn contr rest with
      | .error e => .error e
      | .ok l => .ok (a :: b :: l)

def doElisionEn (contr : Bool) (toks : List Tok) : Except Crash (List Tok) := goEn contr toks

/-- `self.doElision(cList)`; `contr` = `hasattr(self,"contraction") and self.contraction == True` (English only) -/
def doElision (ℓ : Lang) (contr : Bool) (toks : List Tok) : Except Crash (List Tok) :=
  match ℓ with
  | .fr => doElisionFr toks
  | .en => doElisionEn contr toks

/-! ## The property, as a decidable predicate on token lists (used by the driver's `settled` op and by Props/C06)

Declarative: clauses on adjacent pairs, independent of the control flow of `doElision`. -/

structure View where
  pre : Str
  w : Str
  rest : Str
  deriving DecidableEq, Repr

/-- the first word of a token, when it has one -/
def view (ℓ : Lang) (t : Tok) : Option View :=
  match t.real with
  | none => none
  | some x =>
    let m := sepWord ℓ x
    match m.word with
    | none => none
    | some w => some ⟨m.pre, w, m.rest⟩

/-- “begins with a vowel or a mute h”, the lexicon's `h` flag read exactly as `isElidableFr` reads it -/
def vowelOrMuteH (w : Str) (t : Tok) : Bool :=
  match elidableNext w t.hW with
  | .ok b => b
  | .error _ => false

/-- an elidable word with its last letter replaced by an apostrophe: l', j', m', t', s', d', n', qu', … -/
def isElidedForm (w : Str) : Bool := elidableFr.any (fun b => lower w == b.dropLast ++ ['\''])

/-- the prevocalic forms that exist only by euphony (values of the table whose key is not a possessive:
    cet, bel, fol, mol, nouvel, vieil — `mon/ton/son` are also the ordinary masculine forms) -/
def prevocalicOnly : List Str :=
  (euphonieFrTable.filter (fun p => p.2 != p.1.dropLast ++ ['o', 'n'])).map (·.2)

def isPrevocalicOnly (w : Str) : Bool := prevocalicOnly.contains (lower w)

/-- French clauses for two adjacent tokens whose first words are adjacent in the text -/
def pairOKFr (t1 t2 : Tok) : Bool :=
  match view .fr t1, view .fr t2 with
  | some v1, some v2 =>
    !noWords v1.rest ||
    (let V := vowelOrMuteH v2.w t2
     -- F1: no elidable word stands unelided before a vowel or mute h
     !(isElidableWord v1.w && V)
     -- F2: an elided form only before a vowel or mute h
     && (!isElidedForm v1.w || V)
     -- F3: no pair of the contraction table survives (à/de + le/les …)
     && (contrFr v1.w v2.w).isNone
     -- F4: ma/ta/sa/ce/beau/… singular before a vowel or mute h (other than et/ou/où/aujourd'hui) does not survive
     && !(isEuphonic v1.w && t1.sg && V && !euphExc v2.w)
     -- F5: cet/bel/fol/mol/nouvel/vieil only before a vowel or mute h other than et/ou/où/aujourd'hui
     && (!isPrevocalicOnly v1.w || (V && !euphExc v2.w)))
  | _, _ => true

/-- English clause: the determiner is `an` exactly before the words selected by `anRule` -/
def pairOKEn (t1 t2 : Tok) : Bool :=
  match view .en t1, view .en t2 with
  | some v1, some v2 =>
    (!(t1.ct == ['D'] && (v1.w == ['a'] || v1.w == ['A'])) || !anRule v2.w)
    && (!(t1.ct == ['D'] && (v1.w == ['a', 'n'] || v1.w == ['A', 'n'])) || anRule v2.w)
  | _, _ => true

def pairOK : Lang → Tok → Tok → Bool
  | .fr => pairOKFr
  | .en => pairOKEn

/-- every adjacent pair is settled; in French a pair whose left neighbour is `lier`-ed is exempt (the code's
    documented exemption: “ignore if the preceding word is lié to this one”) -/
def settledFrom (ℓ : Lang) : Bool → List Tok → Bool
  | _, [] => true
  | _, [_] => true
  | pl, t1 :: t2 :: rest => ((ℓ == .fr && pl) || pairOK ℓ t1 t2) && settledFrom ℓ t1.lier (t2 :: rest)

def settled (ℓ : Lang) (toks : List Tok) : Bool := settledFrom ℓ false toks

/-- the text view: empty realizations contribute nothing to the text (`removeEmpty`, `detokenize`) -/
def dropEmpty (toks : List Tok) : List Tok := toks.filter (fun t => t.real != some [])

end Pyrealb.Elision
