import Pyrealb.Gen.OptionTable
/-! Model of the warning / exception discipline (`Constituent.warn`, `PyrealbException`,
    `Constituent.exceptionOnWarning`: src/pyrealb/Constituent.py:481-490) and of the generic option setter
    `makeOptionMethod` (Constituent.py:496-533), over the option table regenerated from the source. -/
namespace Pyrealb.Total
open Pyrealb.Gen.OptionTable

/-! ### the warning discipline -/

/-- one observable step of building or realizing: it may emit a warning, or raise some other exception -/
inductive Ev where
  | quiet | warn | crash
  deriving DecidableEq, Repr

/-- how a run ends -/
inductive End where
  | returned (warnings : Nat)     -- a string / the constituent is returned, `warnings` lines on stderr
  | pyrealbException              -- raised by `warn` because `exceptionOnWarning` is set
  | otherException                -- anything else escaping
  deriving DecidableEq, Repr

/-- A computation is a deterministic machine: in state `σ` it performs one step and continues, or stops.
    `exceptionOnWarning` is read by `warn` ONLY (the machine itself does not depend on the flag). -/
structure Machine (σ : Type) where
  step : σ → Option (Ev × σ)

/-- `fuel`-bounded run; `flag` = `Constituent.exceptionOnWarning` -/
def run {σ} (m : Machine σ) (flag : Bool) : Nat → σ → Nat → End
  | 0, _, w => .returned w
  | fuel + 1, s, w =>
    match m.step s with
    | none => .returned w
    | some (.quiet, s') => run m flag fuel s' w
    | some (.warn, s') => if flag then .pyrealbException else run m flag fuel s' (w + 1)
    | some (.crash, _) => .otherException

/-! ### the generic option setter -/

/-- what one call `x.opt(val)` does on a constituent of type `ct` (not a CP / coord: those propagate) -/
inductive OptOutcome where
  | set (v : Lit)          -- `self.setProp(optionName, v)`
  | setTrue                -- called without value where `""` is valid: `val = True`
  | warnNoValue            -- "no value for option"
  | warnIgnoredKeep        -- "ignored value for option", prop untouched
  | warnIgnoredFalse       -- "ignored value for option", prop := False
  | warnBadConst           -- "bad const for option"
  | propagate              -- CP / coord: applied to the members (see `Model/Coord`)
  deriving DecidableEq, Repr

def propagates (ct : String) (o : OptSpec) : Bool :=
  (ct = "CP" || ct = "coord") && !(noPropagate.contains o.name)

def receiverOK (ct : String) (o : OptSpec) : Bool :=
  o.allowed.isEmpty || o.allowed.contains ct || deprels.contains ct

/-- `val = none` is a call without argument -/
def applyOption (o : OptSpec) (ct : String) (val : Option Lit) : OptOutcome :=
  if val = none ∧ ¬ o.valid.contains (.str "") then .warnNoValue
  else if propagates ct o then .propagate
  else if receiverOK ct o then
    match val with
    | none => .setTrue
    | some v =>
      if o.valid.contains v then .set v
      else if o.valid.contains (.bool false) then .warnIgnoredFalse else .warnIgnoredKeep
  else .warnBadConst

def OptOutcome.warns : OptOutcome → Bool
  | .set _ | .setTrue | .propagate => false
  | _ => true

end Pyrealb.Total
