import Pyrealb.Model.ClauseFrPhrase
/-! # French clause model — dependency notation `root(V, subj(..), comp(..)…).typ(..)`

Mirrors `Dependent.real` (Dependent.py:453-495): `pronominalizeChildren` (`DependentFr.pronominalize`, 67-101) BEFORE
`processTyp` (the constituent notation pronominalizes the complements AFTER it); `Dependent.passivate` (220-268) +
`DependentFr.passive_agree_auxiliary` (35-53); `DependentFr.processTyp_verb` (103-136); `Dependent.processTypInt`
(296-365) with `DependentFr.move_object` (138-177); pre/post ordering of the dependents; conjugation of the root
verb (the compound-tense branch takes the first dependent whose terminal is a `Pro`); `doPronounPlacement` on the
flat list of the WHOLE clause (the constituent notation runs it on the VP only). -/
namespace Pyrealb.ClauseFr
open Pyrealb
open Pyrealb.Gen.ClauseFr

inductive Rel where | subj | comp | mod | det | pre | post
  deriving DecidableEq, Repr

/-- the terminal of a dependent together with what hangs below it -/
inductive DTerm where
  | v (x : VT)
  /-- `N` with its `det(D)` -/
  | np (a : NPA)
  /-- `P` with one dependent -/
  | pp (prep : Str) (inner : Inner)
  | pro (p : ProT)
  | q (l : Str)
  | pt (l : Str)
  deriving DecidableEq, Repr

structure Dep where
  rel : Rel
  t : DTerm
  pro : Bool := false
  /-- built on a `P` terminal: the Dependent object has no `peng` attribute -/
  nopeng : Bool := false
  /-- identity of the dependent's `peng` record -/
  pid : Int := -5
  deriving DecidableEq, Repr

def DTerm.isPro : DTerm → Bool | .pro _ => true | _ => false
def DTerm.isNorPro : DTerm → Bool | .pro _ => true | .np _ => true | _ => false
def DTerm.isP : DTerm → Bool | .pp _ _ => true | .pt _ => true | _ => false

def Dep.isPre (d : Dep) : Bool := d.rel = .subj || d.rel = .det || d.rel = .pre

/-- `DependentFr.pronominalize` for every flagged dependent, in order; returns the dependents and the `cod` the root
    verb receives (gender, number, identity) from the LAST pronominalized direct object -/
def pronominalizeDeps : List Dep → Option (Gd × Nb × Int) → List Dep × Option (Gd × Nb × Int)
  | [], cod => ([], cod)
  | d :: rest, cod =>
    if d.pro ∧ ¬ d.t.isPro then
      match d.rel, d.t with
      | .subj, .np a =>
        let r := pronominalizeDeps rest cod
        ({ d with t := .pro (tonicProOf a.g a.n .nom) } :: r.1, r.2)
      | _, .pp prep (.np a) =>
        let d' : Dep :=
          if prep = aStr then { d with t := .pro (tonicProOf a.g a.n .dat), nopeng := true }
          else if prep = deStr then { d with t := .pro { lemma := enStr, c := some .dat, tn := false, pe := 3, n := .s, g := .m }, nopeng := true }
          else if yPrepsDep.contains prep then { d with t := .pro { lemma := yStr, c := some .dat, tn := false, pe := 3, n := .s, g := .m }, nopeng := true }
          else
            -- `pro = self.getTonicPro("nom")` on a dependent without peng: Pro("moi").c("nom"), then the peng of the noun
            { d with t := .pp prep (.pro { lemma := moi, c := some .nom, tn := false, pe := 3, n := a.n, g := a.g }) }
        let r := pronominalizeDeps rest cod
        (d' :: r.1, r.2)
      | _, .np a =>
        let r := pronominalizeDeps rest (some (a.g, a.n, d.pid))
        ({ d with t := .pro (tonicProOf a.g a.n .acc) } :: r.1, r.2)
      | _, _ =>
        let r := pronominalizeDeps rest cod
        (d :: r.1, r.2)
    else
      let r := pronominalizeDeps rest cod
      (d :: r.1, r.2)

/-- `subject = self.passive_pronoun_subject(subject)`: the result is dropped, but `getTonicPro` mutates in place a
    pronoun that already has `.c()`/`.tn()`; `Pro("je")` gives a new object, so the subject stays nominative -/
def depPassiveSubject : DTerm → DTerm
  | .pro p => if p.lemma = je then .pro p else .pro (getTonicPro p none)
  | t => t

def DTerm.inner : DTerm → Inner
  | .pro p => .pro p
  | .np a => .np a
  | _ => .np { id := 0, g := .m, n := .s, pro := false }

/-- `Dependent.passivate`, the dependents: the object becomes the subject, the subject an agent « par … » at the end;
    returns person, number, gender and identity of the new subject -/
def passivateDepObj (deps : List Dep) : Except Crash (Option (Nat × Nb × Gd × Int) × List Dep) :=
  let si := firstIdx (fun (d : Dep) => d.rel = .subj) deps
  let oi := firstIdx (fun (d : Dep) => d.rel = .comp && d.t.isNorPro) deps
  let parDep (sd : Dep) : Dep := { rel := .comp, t := .pp par (depPassiveSubject sd.t).inner }
  match oi with
  | some i =>
    match deps[i]? with
    | some o =>
      let ot : DTerm := match o.t with
        | .pro p => .pro (getTonicPro p (some .nom))
        | t => t
      let png : Nat × Nb × Gd := match ot with
        | .pro p => (p.pe, p.n, p.g)
        | .np a => (3, a.n, a.g)
        | _ => (3, .s, .m)
      let l1 := deps.set i { o with rel := .subj, t := ot }
      let l2 := match si with
        | some j => (match l1[j]? with
          | some sd => l1.eraseIdx j ++ [parDep sd]
          | none => l1)
        | none => l1
      -- `self.terminal.peng = obj.peng`: a dependent built on a preposition has no `peng`
      if o.nopeng then throw .attributeError
      else pure (some (png.1, png.2.1, png.2.2, o.pid), l2)
    | none => pure (none, deps)
  | none =>
    match si with
    | some j =>
      match deps[j]? with
      | some sd =>
        let ns := lexPro luiStr .nom
        pure (some (ns.pe, ns.n, ns.g, -2), deps.eraseIdx j ++ [{ rel := .pre, t := .pro ns }, parDep sd])
      | none => pure (none, deps)
    | none => pure (none, deps)

/-- `Dependent.passivate` + `DependentFr.passive_agree_auxiliary` -/
def passivateDep (v : VT) (deps : List Dep) : Except Crash (VT × List Dep) := do
  let etreLex ← auxLex etre
  let avoirLex ← auxLex avoir
  let r ← passivateDepObj deps
  let v1 := v.setLemma (if v.lex.lemma = etre then avoirLex else etreLex)
  -- `if self.getProp("t") == "ip": self.t("s")` sets the Dependent's props; the terminal's own props["t"] still wins
  let pp0 : VT := mkV v.lex .pp
  let vv : VT × VT := match r.1 with
    | some (pe, n, g, pid) => ({ v1 with pe := pe, n := n, g := g, pid := pid }, { pp0 with pe := pe, n := n, g := g, shared := true })
    | none => (v1, pp0)
  let ci := (firstIdx (fun (d : Dep) => d.rel = .comp || d.rel = .mod) r.2).getD 0
  pure (vv.1, pyInsert ci { rel := .post, t := .v vv.2 } r.2)

/-- `DependentFr.move_object(int_)` -/
def moveObjectDep (int : Str) (v : VT) (deps : List Dep) : VT × List Dep :=
  match firstIdx (fun (d : Dep) => d.rel = .subj) deps with
  | none => (v, deps)
  | some si =>
    let invert (p : ProT) (l : List Dep) : VT × List Dep :=
      ({ v with lier := true }, { rel := .post, t := .pro p } :: l)
    let estce : VT × List Dep := (v, { rel := .det, t := .q estCeQue } :: deps)
    match deps[si]? with
    | some sd =>
      match sd.t with
      | .pro p =>
        if proLikeNounDep.contains p.lemma then
          (if int = ['w','o','d'] ∨ int = wadStr then estce
           else invert { lemma := moi, c := some .nom, tn := false, pe := 3, n := p.n, g := p.g } deps)
        else if p.pe = 1 ∧ p.n = .s ∧ v.t = .p ∧ v.epe = 1 ∧ ¬ academieDep.contains v.lex.lemma then estce
        else invert p (deps.eraseIdx si)
      | .np a =>
        if int = ['w','o','d'] ∨ int = wadStr then estce
        else invert { lemma := moi, c := some .nom, tn := false, pe := 3, n := a.n, g := a.g } deps
      | _ => (v, deps)
    | none => (v, deps)

/-- `Dependent.processTypInt`, what happens to the root verb and its dependents:
    `(verb, dependents, « par » in front?, what `.a(..)` appends, prefix override)` -/
def processIntDepCore (int : Str) (v : VT) (deps : List Dep) : Except Crash (VT × List Dep × Bool × Str × Option Str) :=
  if intGroupMove.contains int then
    let r := moveObjectDep int v deps
    pure (r.1, r.2, false, [], none)
  else if intGroupSubj.contains int then
    match firstIdx (fun (d : Dep) => d.rel = .subj) deps with
    | some i =>
      -- self.terminal.setProp("n","s"); setProp("pe",3): props of the verb AND the peng it shares
      let v' : VT := { v with n := .s, pe := 3, on := some .s, ope := some 3,
                              cod := if v.codpid = v.pid then v.cod.map (fun c => (c.1, Nb.s)) else v.cod }
      let deps' := (deps.eraseIdx i).map (fun d => match d.t with
        | .v x => if x.shared then { d with t := .v { x with n := .s, pe := 3 } } else d
        | _ => d)
      pure (v', deps', false, [], none)
    | none => pure (v, deps, false, [], none)
  else if intGroupObj.contains int then
    let a := match firstIdx (fun (d : Dep) => d.rel = .comp && d.t.isNorPro) deps with
      | some i => deps.eraseIdx i
      | none => deps
    let bp : List Dep × Bool :=
      match firstIdx (fun (d : Dep) => d.rel = .comp && (match d.t with | .pp prep _ => prep == par | .pt l => l == par | _ => false)) a with
      | some j => (a.eraseIdx j, true)
      | none => (a, false)
    let r := moveObjectDep int v bp.1
    pure (r.1, r.2, bp.2, [], none)
  else if intGroupInd.contains int then
    -- before commit 38d9ad6 `preposition_list()` existed on PhraseFr only (`Gen.depHasPrepositionList = false`)
    if deps.any (fun d => (d.rel = .comp || d.rel = .mod) && d.t.isP) ∧ ¬ depHasPrepositionList then throw .attributeError
    else
      -- the loop looks at EVERY comp/mod dependent with a preposition and removes the first one that qualifies
      -- (the constituent notation only looks at the first PP of the VP)
      let qualifies (d : Dep) : Bool :=
        (d.rel = .comp || d.rel = .mod) && (match d.t with
          | .pp prep _ => if int = wheStr then prepsWhe.contains prep else if int = whnStr then prepsWhn.contains prep
                          else prepsAll.contains prep
          | .pt prep => if int = wheStr then prepsWhe.contains prep else if int = whnStr then prepsWhn.contains prep
                        else prepsAll.contains prep
          | _ => false)
      let dp : List Dep × Option Str := match firstIdx qualifies deps with
        | some i =>
          let prep : Str := match deps[i]? with
            | some d => (match d.t with | .pp p _ => p | .pt p => p | _ => [])
            | none => []
          (deps.eraseIdx i,
           if int = wheStr ∨ int = whnStr then none else some (prep ++ [' '] ++ (if int = woiStr then qui else quoi)))
        | none => (deps, none)
      let r := moveObjectDep int v dp.1
      pure (r.1, r.2, false, [], dp.2)
  else if int = tagStr then pure (v, deps, false, tagText, none)
  else pure (v, deps, false, [], none)

/-- `Dependent.processTypInt` -/
def processIntDep (int : Str) (v : VT) (deps : List Dep) : Except Crash (VT × List Dep × Str) := do
  let dflt ← prefixOf int
  let r ← processIntDepCore int v deps
  let deps2 : List Dep := { rel := .pre, t := .q (r.2.2.2.2.getD dflt) } :: r.2.1
  let deps3 : List Dep := if r.2.2.1 then
      { rel := .pre, t := .pt par } ::
        (if int = wadStr then (match deps2 with | d :: r => { d with t := .q quoi } :: r | l => l) else deps2)
    else deps2
  pure (r.1, deps3, r.2.2.2.1 ++ intPunct)

/-- realization of a dependent that is not the root verb -/
def Dep.toks (refl : Bool) (d : Dep) : Except Crash (List Tok) :=
  match d.t with
  | .v x => do
    let r ← conjugate x refl none
    pure r.1
  | .np a => .ok [.d a.id, .n a.id]
  | .pp prep inner => .ok (.p prep :: inner.toks)
  | .pro p => .ok [proTok p]
  | .q l => .ok [.q l]
  | .pt l => .ok [.p l]

def compDep : Comp → Dep
  | .dir a => { rel := .comp, t := .np a, pro := a.pro }
  | .pp prep a => { rel := .comp, t := .pp prep (.np a), pro := a.pro }
  | .cl p => { rel := .comp, t := .pro p }

/-- numbers the dependents (identity of their `peng` record) -/
def withPids : Nat → List Dep → List Dep
  | _, [] => []
  | k, d :: r => { d with pid := (k : Int) } :: withPids (k + 1) r

/-- `subj(..)` -/
def subjDeps (sp : Spec) : List Dep := match sp.subj with
  | some (.pro vm pe n g) => [{ rel := .subj, t := .pro (SubjA.proT vm pe n g) }]
  | some (.np a) => [{ rel := .subj, t := .np a, pro := a.pro }]
  | none => []

/-- the root verb and its dependents as constructed, after `pronominalizeChildren` -/
def depElems (sp : Spec) : VT × List Dep :=
  let v0 : VT := { sp.verbT sp.subj.isSome with vpshare := true }
  let r := pronominalizeDeps (withPids 0 (subjDeps sp ++ sp.comps.map compDep)) none
  (match r.2 with
   | some (g, n, pid) => { v0 with cod := some (g, n), codpid := pid }
   | none => v0, r.1)

/-- `processTyp`, passive -/
def depStagePas (sp : Spec) (s : VT × List Dep) : Except Crash (VT × List Dep) :=
  if sp.typ.pas then passivateDep s.1 s.2 else pure s

/-- `processTyp_verb`, progressive: the root becomes « être », « en train », « de » and the infinitive follow it -/
def depStageProg (sp : Spec) (s : VT × List Dep) : Except Crash (VT × List Dep) :=
  if sp.typ.prog then do
    let etreLex ← auxLex progAux
    let orig := s.1.lex
    pure ({ s.1.setLemma etreLex with isProg := true },
          [{ rel := .post, t := .q enTrain }, { rel := .post, t := .q deStr }, { rel := .post, t := .v (mkV orig .b) }] ++ s.2)
  else pure s

/-- `processTyp_verb`, modality: the root becomes the modal verb, the infinitive follows it -/
def depStageMod (sp : Spec) (s : VT × List Dep) : Except Crash (VT × List Dep) :=
  match sp.typ.mod with
  | some m => do
    let orig := s.1.lex
    let va : VT ← match modalLemma m with
      | some ml => do
        let lx ← auxLex ml
        pure (s.1.setLemma lx)
      | none => pure s.1
    let newV : VT := { mkV orig .b with isProg := va.isProg }
    pure ({ va with isMod := true, isProg := false }, { rel := .post, t := .v newV } :: s.2)
  | none => pure s

/-- `processTyp_verb`, negation: `neg2` on the root verb -/
def depStageNeg (sp : Spec) (s : VT × List Dep) : VT × List Dep :=
  match sp.typ.neg with
  | some nv => ({ s.1 with neg2 := some nv.word2 }, s.2)
  | none => s

/-- `Dependent.processTyp` -/
def depTyped (sp : Spec) : Except Crash (VT × List Dep × Str) := do
  let s2 ← depStagePas sp (depElems sp)
  let s3 ← depStageProg sp s2
  let s4 ← depStageMod sp s3
  let s5 := depStageNeg sp s4
  match sp.typ.int with
  | some i => processIntDep i s5.1 s5.2
  | none => pure (s5.1, s5.2, [])

/-- the first dependent (in realization order) whose terminal is a `Pro`: what the compound branch of a `lier` root
    verb puts between the auxiliary and the participle -/
def depNextPro (ordered : List Dep) : Option Tok :=
  match firstIdx (fun (d : Dep) => d.t.isPro) ordered with
  | some i => (match ordered[i]? with
    | some d => (match d.t with | .pro p => some (proTok p) | _ => none)
    | none => none)
  | none => none

/-- the dependents that are still realized once the compound branch of a `lier` root verb has consumed (`used`)
    the first `Pro` dependent -/
def depConsumed (used : Bool) (pres posts : List Dep) : List Dep × List Dep :=
  if used then
    match firstIdx (fun (d : Dep) => d.t.isPro) (pres ++ posts) with
    | some i => if i < pres.length then (pres.eraseIdx i, posts) else (pres, posts.eraseIdx (i - pres.length))
    | none => (pres, posts)
  else (pres, posts)

/-- morphoError turns the root terminal into a Q: `isReflexive` of the verbs realized AFTER it no longer finds a
    dependent "with a terminal V" carrying `typ`, and doFormat no longer calls doPronounPlacement -/
def rootIsVToks : List Tok → Bool
  | [.qv _ _] => false
  | _ => true

/-- realization of the root: dependents with position "pre" first (stable), the terminal after the last of them, the
    others after; `doPronounPlacement` on the flat list of the WHOLE clause -/
def depReal (refl : Bool) (v6 : VT) (deps6 : List Dep) : Except Crash (List Tok) := do
  let pres := deps6.filter Dep.isPre
  let posts := deps6.filter (fun d => !d.isPre)
  -- the root verb: the compound branch of a `lier` verb takes the first dependent whose terminal is a Pro
  let rv ← conjugate v6 refl (depNextPro (pres ++ posts))
  let pp := depConsumed rv.2 pres posts
  let rootIsV : Bool := rootIsVToks rv.1
  let preToks ← pp.1.mapM (Dep.toks refl)
  let postToks ← pp.2.mapM (Dep.toks (refl && rootIsV))
  let all := removeEmpty (preToks.flatten ++ rv.1 ++ postToks.flatten)
  if rootIsV then placePronouns refl all else pure all

/-- `root(V, subj(..), comp(..)…).typ(typ).real()`: the flat list of terminals and what `.a(..)` appends -/
def depToks (sp : Spec) : Except Crash (List Tok × Str) := do
  let (v, deps, endS) ← depTyped sp
  let toks ← depReal sp.typ.refl v deps
  pure (toks, endS)

def realizeDep (sp : Spec) : Except Crash Out := do
  let r ← depToks sp
  pure (finish r)

end Pyrealb.ClauseFr
