import Pyrealb.Model.Basic
import Pyrealb.Gen.ClauseEnConsts
/-! # English clause transformations — symbolic model (both notations)

Mirrors, branch for branch, on the clause fragment `S(subj, VP(V, obj?, PP*))` / `root(V, subj, comp*)`:
`NonTerminalEn.affixHopping` (NonTerminalEn.py:41-125), `PhraseEn.processTyp_verb/move_object/tag_question`
(PhraseEn.py:71-185), `Phrase.passivate/processInt/processTyp` (Phrase.py:307-478), `DependentEn.processTyp_verb/
move_object/tag_question` (DependentEn.py:42-136), `Dependent.passivate/processTypInt/processTyp/real` (Dependent.py:220-495).

The result is a list of *groups* of symbolic tokens (a group = one formatting level: the VP, the tag, a plain
constituent).  Lexical items are symbolic: the main verb is one of the lemmas the code compares it with, or `other`;
noun phrases are opaque (`NPArg.id`).  `Model/ClauseEnSurf` composes this with conjugation, pronoun declension and
`ConstituentEn.doElision` (contraction) to obtain the surface words. -/
namespace Pyrealb.ClauseEn
open Pyrealb

inductive Num | s | p deriving DecidableEq, Repr, Inhabited
inductive Gender | m | f | n | x deriving DecidableEq, Repr, Inhabited
inductive Pe | p1 | p2 | p3 deriving DecidableEq, Repr, Inhabited
/-- the four finite tenses of a clause -/
inductive Tense | p | ps | f | c deriving DecidableEq, Repr, Inhabited
/-- what a `V` terminal is asked to realize (`.t(..)`) -/
inductive VForm | p | ps | b | pp | pr deriving DecidableEq, Repr, Inhabited
inductive Mod | poss | perm | nece | obli | will deriving DecidableEq, Repr, Inhabited
inductive Int | yon | wos | wod | woi | was | wad | wai | whe | why | whn | how | muc | tag
  deriving DecidableEq, Repr, Inhabited

/-- the sentence-type flags (`typ`), after `Constituent.typ` validation -/
structure Typ where
  neg : Bool := false
  pas : Bool := false
  perf : Bool := false
  prog : Bool := false
  contr : Bool := false
  exc : Bool := false
  mod : Option Mod := none
  int : Option Int := none
  deriving DecidableEq, Repr, Inhabited

/-- the verb lemma, as far as the code can tell lemmas apart: the closed list it compares with, or any other verb -/
inductive VLemma | be | have | do_ | can | will | shall | may | must | other
  deriving DecidableEq, Repr, Inhabited

def VLemma.name : VLemma → String
  | .be => "be" | .have => "have" | .do_ => "do" | .can => "can" | .will => "will" | .shall => "shall"
  | .may => "may" | .must => "must" | .other => "*"

def VLemma.all : List VLemma := [.be, .have, .do_, .can, .will, .shall, .may, .must, .other]

def VLemma.ofString (x : String) : VLemma :=
  match VLemma.all.find? (fun l => l.name == x) with
  | some l => l
  | none => .other

def Mod.name : Mod → String
  | .poss => "poss" | .perm => "perm" | .nece => "nece" | .obli => "obli" | .will => "will"

def Int.name : Int → String
  | .yon => "yon" | .wos => "wos" | .wod => "wod" | .woi => "woi" | .was => "was" | .wad => "wad" | .wai => "wai"
  | .whe => "whe" | .why => "why" | .whn => "whn" | .how => "how" | .muc => "muc" | .tag => "tag"

def VForm.name : VForm → String
  | .p => "p" | .ps => "ps" | .b => "b" | .pp => "pp" | .pr => "pr"

def VForm.ofString (x : String) : VForm :=
  if x == "pp" then .pp else if x == "pr" then .pr else if x == "p" then .p else if x == "ps" then .ps else .b

/-! ### constants read from the generated tables (`rules-en.json: compound`, `negMod`, the literal lists) -/

def auxOfKey (k : String) : VLemma := VLemma.ofString ((Gen.ClauseEn.compoundAux.lookup k).getD "")
def partOfKey (k : String) : VForm := VForm.ofString ((Gen.ClauseEn.compoundPart.lookup k).getD "")
def auxOfMod (m : Mod) : VLemma := auxOfKey m.name
def futureAux : VLemma := auxOfKey "future"
def perfAux : VLemma := auxOfKey "perfect"
def perfPart : VForm := partOfKey "perfect"
def progAux : VLemma := auxOfKey "continuous"
def progPart : VForm := partOfKey "continuous"
def pasAux : VLemma := auxOfKey "passive"
def pasPart : VForm := partOfKey "passive"
/-- `vAux in negMod` -/
def inNegMod (l : VLemma) : Bool := (Gen.ClauseEn.negMod.lookup l.name).isSome
/-- `interro not in ["wos","was","tag"]` -/
def intNeedsDo (i : Int) : Bool := !(Gen.ClauseEn.noDoInt.contains i.name)
def tagSelfAuxPh (l : String) : Bool := Gen.ClauseEn.tagAuxPhrase.contains l
def tagSelfAuxDep (l : String) : Bool := Gen.ClauseEn.tagAuxDep.contains l
def aloneDep (l : String) : Bool := Gen.ClauseEn.moveObjectAloneDep.contains l
def humanGender (g : Gender) : Bool :=
  Gen.ClauseEn.passiveHumanGenders.contains (match g with | .m => "m" | .f => "f" | .n => "n" | .x => "x")
def intPrefix (i : Int) : Str := s ((Gen.ClauseEn.intPrefix.lookup i.name).getD "")

/-! ### arguments and tokens -/

structure Agr where
  pe : Pe
  n : Num
  deriving DecidableEq, Repr, Inhabited

/-- a `V`'s own fresh `peng` (`defaultProps`) -/
def Agr.dflt : Agr := ⟨.p3, .s⟩

/-- `NP(D(det), N(noun).n(n))` / `subj|comp(N(noun).n(n), det(D(det)))`; `id` stands for the two lexical items -/
structure NPArg where
  id : Nat
  n : Num
  g : Gender
  deriving DecidableEq, Repr, Inhabited

/-- `Pro("I"|"me").pe(pe).n(n).g(g)` -/
structure ProArg where
  pe : Pe
  n : Num
  g : Gender
  deriving DecidableEq, Repr, Inhabited

inductive Arg | np (a : NPArg) | pro (a : ProArg)
  deriving DecidableEq, Repr, Inhabited

/-- how an argument occurs in the output -/
inductive ArgTok
  | np (a : NPArg)
  | proI (a : ProArg)        -- `Pro("I").pe.n.g` (subject pronoun, as written)
  | proMe (a : ProArg)       -- `Pro("me").pe.n.g` (object pronoun, as written)
  | proTonic (a : ProArg)    -- `passive_pronoun_subject`: `Pro("me").tn("").g.n.pe`
  | proNom (a : ProArg)      -- `getTonicPro("nom")` of `Pro("me").pe.n.g`
  | it                       -- `Pro("it").c("nom")`
  | proOfNP (a : NPArg)      -- `NP.clone().pro()` → nominative pronoun (tag question)
  deriving DecidableEq, Repr, Inhabited

/-- whose `peng` a verb token reads when it is conjugated -/
inductive AgrRef
  | shared            -- the `peng` record of the clause verb (`v_peng`), resolved when the clause is finished
  | fixed (a : Agr)
  deriving DecidableEq, Repr, Inhabited

inductive Tok
  | verb (l : VLemma) (f : VForm) (r : AgrRef)   -- `V(l).t(f)`
  | cannot                                       -- `Q("cannot")`
  | not_                                         -- `Adv("not")`
  | to_                                          -- `P("to")` (infinitive marker)
  | q (text : Str)                               -- `Q(prefix)`
  | prep (p : Str)                               -- `P(p)`
  | arg (a : ArgTok)
  deriving DecidableEq, Repr, Inhabited

/-- constituent types that occur -/
inductive CT | NP | Pro | V | Q | Adv | P | PP | VP
  deriving DecidableEq, Repr, Inhabited

def ArgTok.ct : ArgTok → CT
  | .np _ => .NP
  | _ => .Pro

def Tok.ct : Tok → CT
  | .verb .. => .V | .cannot => .Q | .not_ => .Adv | .to_ => .P | .q _ => .Q | .prep _ => .P | .arg a => a.ct

/-- the lemma a test `terminal.lemma in [...]` sees -/
def Tok.lemmaName : Tok → String
  | .verb l _ _ => l.name | .cannot => "cannot" | .not_ => "not" | .to_ => "to" | _ => ""

/-- what a formatting level is: an ordinary constituent / word, the main VP, the tag added by `tag_question` -/
inductive GrpKind | plain | vp | tag deriving DecidableEq, Repr, Inhabited

/-- one formatting level: its tokens, whether contraction is active inside, whether `.a(",")` was applied to it -/
structure Grp where
  kind : GrpKind := .plain
  contr : Bool
  toks : List Tok
  comma : Bool
  deriving DecidableEq, Repr, Inhabited

/-- result of the transformations of one notation -/
structure Out where
  grps : List Grp
  warn : Nat := 0
  /-- the contents of `v_peng` when the first verb was conjugated (already substituted in `grps`) -/
  agr : Agr := Agr.dflt
  deriving DecidableEq, Repr, Inhabited

def Out.flat (o : Out) : List Tok := o.grps.flatMap (·.toks)
/-- the clause proper: everything but the tag -/
def Out.main (o : Out) : List Tok := (o.grps.filter (fun g => g.kind != .tag)).flatMap (·.toks)

/-- the clause specification (fragment G restricted to what C04 quantifies over) -/
structure Spec where
  subj : Arg
  verb : VLemma
  t : Tense
  obj : Option Arg
  pps : List (Str × NPArg)
  deriving DecidableEq, Repr, Inhabited

/-! ### list helpers (Python list operations used by the code) -/

def findIdx {α} (p : α → Bool) : List α → Option Nat
  | [] => none
  | a :: r => if p a then some 0 else (findIdx p r).map (· + 1)

def removeAt {α} : List α → Nat → List α
  | [], _ => []
  | _ :: r, 0 => r
  | a :: r, k + 1 => a :: removeAt r k

/-- `list.insert(k, x)` for `0 ≤ k ≤ len` -/
def insertAt {α} : List α → Nat → α → List α
  | l, 0, x => x :: l
  | [], _ + 1, x => [x]
  | a :: r, k + 1, x => a :: insertAt r k x

def setAt {α} : List α → Nat → α → List α
  | [], _, _ => []
  | _ :: r, 0, x => x :: r
  | a :: r, k + 1, x => a :: setAt r k x

/-! ### NonTerminalEn.affixHopping -/

/-- the tense `affixHopping` receives: the clause tense, or `b` (only from a tag built on a non-finite `currV`) -/
inductive AT | p | ps | f | c | b deriving DecidableEq, Repr, Inhabited

def AT.ofTense : Tense → AT | .p => .p | .ps => .ps | .f => .f | .c => .c
def AT.ofForm : VForm → AT | .p => .p | .ps => .ps | _ => .b

/-- auxiliaries placed before the verb, each with the affix it imposes on its successor (lines 61-83) -/
def auxChain (v : VLemma) (t : AT) (ty : Typ) : List (VLemma × VForm) :=
  let isFuture := t == .f || t == .c
  let modal : List (VLemma × VForm) :=
    match ty.mod with
    | some m => [(auxOfMod m, .b)]
    | none => if isFuture then [(futureAux, .b)] else []
  if ty.perf || ty.prog || ty.pas then
    modal ++ (if ty.perf then [(perfAux, perfPart)] else [])
          ++ (if ty.prog then [(progAux, progPart)] else [])
          ++ (if ty.pas then [(pasAux, pasPart)] else [])
  else
    match ty.int with
    | some i =>
      if modal.isEmpty && v != .be && v != .have then
        -- `t not in ["pp","pr","b-to","b"]` after f/c were rewritten to p/ps
        if intNeedsDo i then (if t != .b then [(.do_, .b)] else []) else []
      else modal
    | none => modal

/-- tense of the first verb: `f`/`c` were rewritten to `p`/`ps` (the auxiliary `will` carries them) -/
def firstForm : AT → VForm
  | .p => .p | .ps => .ps | .f => .p | .c => .ps | .b => .b

def affixHopping (v : VLemma) (t : AT) (ty : Typ) (first : AgrRef) : List Tok :=
  let chain := auxChain v t ty
  let lemmas := chain.map (·.1) ++ [v]
  let vAux := lemmas.headD v
  let t' := firstForm t
  let rest : List Tok := (lemmas.drop 1).zip (chain.map (·.2)) |>.map (fun lf => Tok.verb lf.1 lf.2 (.fixed Agr.dflt))
  let head : List Tok :=
    if ty.neg then
      if t' == .b then [.not_, .to_, .verb vAux .b (.fixed Agr.dflt)]
      else if inNegMod vAux then
        (if vAux == .can && t' == .p then [.cannot] else [.verb vAux t' first, .not_])
      else if vAux == .be || (vAux == .have && v != .have) then [.verb vAux t' first, .not_]
      else [.verb .do_ t' first, .not_] ++ (if vAux != .do_ then [.verb vAux .b (.fixed Agr.dflt)] else [])
    else [.verb vAux t' first]
  head ++ rest

/-! ### agreement features of an argument's `peng` -/

def agrOfArg : Arg → Agr
  | .np a => ⟨.p3, a.n⟩
  | .pro a => ⟨a.pe, a.n⟩

def genderOfArg : Arg → Gender
  | .np a => a.g
  | .pro a => a.g

/-- which tonic word `Pro("me").pe.n.g` realizes as (first best match of table `pn2`) -/
inductive TonicWord | me | you | her | him | it | us | them deriving DecidableEq, Repr, Inhabited

def tonicWord (a : ProArg) : TonicWord :=
  match a.pe, a.n, a.g with
  | .p2, _, _ => .you
  | .p1, .s, _ => .me
  | .p1, .p, _ => .us
  | .p3, .p, _ => .them
  | .p3, .s, .f => .her
  | .p3, .s, .x => .her
  | .p3, .s, .m => .him
  | .p3, .s, .n => .it

/-- `peng` of the new `Pro(word)` made by `getTonicPro("nom")`, before it is realized (lexicon defaults + the person
    of a table whose rows all carry the same person) -/
def staleAgr (a : ProArg) : Agr :=
  match tonicWord a with
  | .us => ⟨.p1, .s⟩
  | .you => ⟨.p2, .s⟩
  | _ => ⟨.p3, .s⟩

/-- the same record after `decline` copied the features of the first row of the table into it -/
def freshAgr (a : ProArg) : Agr :=
  match tonicWord a with
  | .us => ⟨.p1, .p⟩
  | .you => ⟨.p2, .s⟩
  | .them => ⟨.p3, .p⟩
  | _ => ⟨.p3, .s⟩

def ArgTok.pe : ArgTok → Pe
  | .proI a => a.pe | .proMe a => a.pe | .proTonic a => a.pe
  | .proNom a => (staleAgr a).pe
  | _ => .p3

/-! ### constituent notation -/

inductive PNode
  | arg (a : ArgTok)
  | word (t : Tok)
  | v0                              -- the clause verb, before affix hopping
  | pp (prep : Str) (a : ArgTok)
  | vp                              -- the (main) VP inside S
  | tag (ts : List Tok)             -- the VP added by `tag_question`
  deriving DecidableEq, Repr, Inhabited

def PNode.ct : PNode → CT
  | .arg a => a.ct | .word t => t.ct | .v0 => .V | .pp .. => .PP | .vp => .VP | .tag _ => .VP

structure PState where
  sEl : List PNode
  vpEl : List PNode
  agr : Agr            -- contents of the record `v_peng` (shared by the subject, the VP and the first verb)
  g : Gender
  vpComma : Bool := false
  /-- the promoted pronoun whose `decline` will overwrite `v_peng` when it is realized (phrase notation) -/
  pending : Option Agr := none
  deriving Repr, Inhabited

def argTokOfSubj : Arg → ArgTok
  | .np a => .np a
  | .pro a => .proI a

def argTokOfObj : Arg → ArgTok
  | .np a => .np a
  | .pro a => .proMe a

def initPh (sp : Spec) : PState :=
  { sEl := [.arg (argTokOfSubj sp.subj), .vp]
    vpEl := [.v0] ++ (match sp.obj with | some o => [.arg (argTokOfObj o)] | none => [])
              ++ sp.pps.map (fun pa => .pp pa.1 (.np pa.2))
    agr := agrOfArg sp.subj
    g := genderOfArg sp.subj }

def isNPPro (c : CT) : Bool := c == .NP || c == .Pro

/-- `NonTerminalEn.passive_pronoun_subject` / a nominal subject stays -/
def demote : ArgTok → ArgTok
  | .proI a => .proTonic a
  | a => a

/-- `Phrase.passivate` (Phrase.py:307-364) on `S` -/
def passivatePh (st : PState) : PState :=
  let (subject, sEl1) : Option ArgTok × List PNode :=
    match st.sEl with
    | .arg a :: rest => (some (demote a), rest)
    | l => (none, l)
  match findIdx (fun n => isNPPro n.ct) st.vpEl with
  | some i =>
    let obj := st.vpEl.getD i .v0
    let vp1 := removeAt st.vpEl i
    let (newSubj, agr, g, pend) : ArgTok × Agr × Gender × Option Agr :=
      match obj with
      | .arg (.proMe a) => (.proNom a, staleAgr a, .n, some (freshAgr a))
      | .arg (.np a) => (.np a, ⟨.p3, a.n⟩, a.g, none)
      | .arg a => (a, st.agr, st.g, none)
      | _ => (.it, st.agr, st.g, none)
    let vp2 := match subject with
      | some sj => insertAt vp1 i (.pp (s "by") sj)
      | none => vp1
    { st with sEl := .arg newSubj :: sEl1, vpEl := vp2, agr := agr, g := g, pending := pend }
  | none =>
    match subject with
    | some sj =>
      let vIdx := (findIdx (fun n => n.ct == .V) st.vpEl).getD 0
      { st with sEl := .arg .it :: sEl1, vpEl := insertAt st.vpEl (vIdx + 1) (.pp (s "by") sj),
                agr := ⟨.p3, .s⟩, g := .n, pending := none }
    | none => st

/-- `PhraseEn.processTyp_verb` (PhraseEn.py:71-96) -/
def processTypVerbPh (words : List Tok) (st : PState) : PState :=
  match findIdx (fun n => n.ct == .V) st.vpEl with
  | some i =>
    { st with vpEl := st.vpEl.take i ++ words.map .word ++ st.vpEl.drop (i + 1) }
  | none => st

/-- `PhraseEn.move_object` (PhraseEn.py:98-105): pops element 0 of the VP when the VP has a V somewhere -/
def moveObjectPh (st : PState) : PState :=
  match findIdx (fun n => n.ct == .V) st.vpEl with
  | some i =>
    let k := if Gen.ClauseEn.moveObjectPopsIndex0 then 0 else i
    match st.vpEl[k]? with
    | some x => { st with vpEl := removeAt st.vpEl k, sEl := x :: st.sEl }
    | none => st
  | none => st

def isSubjCT (c : CT) : Bool := c == .NP || c == .Pro
def isVerbCT (c : CT) : Bool := c == .VP || c == .V

/-- `PhraseEn.tag_question` (PhraseEn.py:128-185) -/
def tagQuestionPh (ty : Typ) (st : PState) : Except Crash PState :=
  match st.vpEl.find? (fun n => n.ct == .V) with
  | some (.word (.verb l f r)) =>
    let aux : VLemma :=
      match ty.mod with
      | some m => auxOfMod m
      | none => if tagSelfAuxPh l.name then l else .do_
    let neg := ty.neg
    let (pe, n, g) : Pe × Num × Gender :=
      match r with
      | .shared => (st.agr.pe, st.agr.n, st.g)
      | .fixed a => (a.pe, a.n, .n)
    let dfltPro : ArgTok := .proI ⟨pe, n, g⟩
    let subjIdx := findIdx (fun n => isSubjCT n.ct) st.sEl
    let vbIdx := findIdx (fun n => isVerbCT n.ct) st.sEl
    let (pro, pe') : ArgTok × Pe :=
      match subjIdx, vbIdx with
      | some si, some vi =>
        if si < vi then
          match st.sEl.getD si .vp with
          | .arg (.np a) => (.proOfNP a, pe)
          | .arg a => if a.pe == .p1 && aux == .be && f == .p && !neg then (dfltPro, .p2) else (a, pe)
          | _ => (dfltPro, pe)
        else (dfltPro, pe)
      | _, _ => (dfltPro, pe)
    let tagAgr : AgrRef := .fixed ⟨pe', n⟩
    let toks : List Tok :=
      if aux == .have && !neg then
        affixHopping .have (AT.ofForm f) { contr := true } tagAgr ++ [.not_, .arg pro]
      else
        affixHopping aux (AT.ofForm f) { neg := !neg, contr := true } tagAgr ++ [.arg pro]
    .ok { st with vpComma := true, sEl := st.sEl ++ [.tag toks] }
  | _ => .ok st                     -- `currV` is None: no tag question (PhraseEn.py: `else: return`)

def whomOrWhat (i : Int) : Str := if i == .woi then s "whom" else s "what"

/-- `Phrase.processInt` (Phrase.py:400-468); returns the state (the punctuation is added by the renderer) -/
def processIntPh (ty : Typ) (i : Int) (st : PState) : Except Crash PState :=
  let addPrefix (pre : Str) (st : PState) : PState := { st with sEl := .word (.q pre) :: st.sEl }
  match i with
  | .yon => .ok (moveObjectPh st)
  | .how | .why | .muc => .ok (addPrefix (intPrefix i) (moveObjectPh st))
  | .wos | .was =>
    let subjIdx := findIdx (fun n => isSubjCT n.ct) st.sEl
    let vbIdx := findIdx (fun n => isVerbCT n.ct) st.sEl
    let st1 : PState :=
      match vbIdx with
      | some vi =>
        -- `subjIdx < vbIdx` with -1 for "not found"
        let lt : Bool := match subjIdx with | some si => decide (si < vi) | none => true
        if lt then
          -- v = self.elements[vbIdx]; v.setProp("pe",3): the VP shares `v_peng`
          let agr := if st.sEl.getD vi .v0 == .vp then { st.agr with pe := .p3 } else st.agr
          let sEl := match subjIdx with
            | some si => removeAt st.sEl si
            | none => st.sEl.dropLast           -- `del self.elements[-1]`
          { st with sEl := sEl, agr := agr, pending := none }
        else st
      | none => st
    .ok (addPrefix (intPrefix i) st1)
  | .wod | .wad =>
    let (cmp, st1) : Option PNode × PState :=
      match findIdx (fun n => isSubjCT n.ct) st.vpEl with
      | some k => (st.vpEl[k]?, { st with vpEl := removeAt st.vpEl k })
      | none => (none, st)
    let human : Bool :=
      Gen.ClauseEn.phraseHumanObjectGetsIntValue && i == .wod &&
        (match cmp with
         | some (.arg (.np a)) => humanGender a.g
         | some (.arg (.proMe a)) => humanGender a.g
         | _ => false)
    let pre := if human then s "whom" else intPrefix i
    .ok (addPrefix pre (moveObjectPh st1))
  | .woi | .wai | .whe | .whn =>
    let (pre, st1) : Str × PState :=
      match findIdx (fun n => n.ct == .PP) st.vpEl with
      | some k =>
        match st.vpEl.getD k .v0 with
        | .pp prep _ =>
          let p := prep.str
          if i == .whe then
            (intPrefix i, if Gen.ClauseEn.prepositionsWhe.contains p then { st with vpEl := removeAt st.vpEl k } else st)
          else if i == .whn then
            (intPrefix i, if Gen.ClauseEn.prepositionsWhn.contains p then { st with vpEl := removeAt st.vpEl k } else st)
          else if Gen.ClauseEn.prepositionsAll.contains p then
            (prep ++ s " " ++ whomOrWhat i, { st with vpEl := removeAt st.vpEl k })
          else (intPrefix i, st)
        | _ => (intPrefix i, st)
      | none => (intPrefix i, st)
    .ok (addPrefix pre (moveObjectPh st1))
  | .tag => do
    let st1 ← tagQuestionPh ty st
    pure (addPrefix (intPrefix .tag) st1)

def flatVP : List PNode → List Tok
  | [] => []
  | .arg a :: r => .arg a :: flatVP r
  | .word t :: r => t :: flatVP r
  | .pp p a :: r => .prep p :: .arg a :: flatVP r
  | .v0 :: r => flatVP r
  | .vp :: r => flatVP r
  | .tag ts :: r => ts ++ flatVP r

/-- resolve the agreement reference of the verb tokens -/
def Tok.resolve (a : Agr) : Tok → Tok
  | .verb l f .shared => .verb l f (.fixed a)
  | t => t

/-- the value of `v_peng` when the first `shared` verb is conjugated: a promoted pronoun realized before it has
    refreshed the record -/
def agrAtVerb (pending : Option Agr) (stale : Agr) (toks : List Tok) : Agr :=
  match pending with
  | none => stale
  | some fresh =>
    let iPro := findIdx (fun t => match t with | .arg (.proNom _) => true | _ => false) toks
    let iV := findIdx (fun t => match t with | .verb _ _ .shared => true | _ => false) toks
    match iPro, iV with
    | some a, some b => if a < b then fresh else stale
    | _, _ => stale

def grpsPh (ty : Typ) (st : PState) : List Grp :=
  st.sEl.map (fun n =>
    match n with
    | .vp => ⟨.vp, ty.contr, flatVP st.vpEl, st.vpComma⟩
    | .tag ts => ⟨.tag, true, ts, false⟩
    | n => ⟨.plain, false, flatVP [n], false⟩)

/-- `Phrase.processTyp` then linearisation (`Phrase.real`), for the words `ws` that affixHopping returned -/
def realizePhraseW (sp : Spec) (ty : Typ) (ws : List Tok) : Except Crash Out := do
  let st0 := initPh sp
  let st1 := if ty.pas then passivatePh st0 else st0
  let st2 := processTypVerbPh ws st1
  let st3 ← match ty.int with
    | some i => processIntPh ty i st2
    | none => pure st2
  let grps := grpsPh ty st3
  let a := agrAtVerb st3.pending st3.agr (grps.flatMap (·.toks))
  pure { grps := grps.map (fun g => { g with toks := g.toks.map (Tok.resolve a) }), agr := a }

/-- the words of the clause verb: `self.affixHopping(v, vp.getProp("t"), getRules()["compound"], types)` -/
def clauseWords (sp : Spec) (ty : Typ) : List Tok := affixHopping sp.verb (AT.ofTense sp.t) ty .shared

def realizePhrase (sp : Spec) (ty : Typ) : Except Crash Out := realizePhraseW sp ty (clauseWords sp ty)

/-! ### dependency notation -/

inductive DRel | subj | comp | mod | pre deriving DecidableEq, Repr, Inhabited

inductive DHead
  | arg (a : ArgTok)                 -- terminal N (with its det) or Pro
  | pp (prep : Str) (a : ArgTok)     -- terminal P with one nominal dependent
  | word (t : Tok)                   -- terminal of a `*pre*` dependent
  | tag (ts : List Tok)              -- the `comp(V(aux), …)` added by `tag_question`
  deriving DecidableEq, Repr, Inhabited

structure DNode where
  rel : DRel
  head : DHead
  posPost : Bool := false
  comma : Bool := false
  deriving DecidableEq, Repr, Inhabited

def DHead.ct : DHead → CT
  | .arg a => a.ct        -- NP stands for terminal N here
  | .pp .. => .P
  | .word t => t.ct
  | .tag _ => .V

inductive DTerm | v0 | tok (t : Tok) deriving DecidableEq, Repr, Inhabited

structure DState where
  term : DTerm
  deps : List DNode
  agr : Agr
  g : Gender
  termComma : Bool := false
  warn : Nat := 0
  deriving Repr, Inhabited

def initDep (sp : Spec) : DState :=
  { term := .v0
    deps := [⟨.subj, .arg (argTokOfSubj sp.subj), false, false⟩]
              ++ (match sp.obj with | some o => [⟨.comp, .arg (argTokOfObj o), false, false⟩] | none => [])
              ++ sp.pps.map (fun pa => ⟨.comp, .pp pa.1 (.np pa.2), false, false⟩)
    agr := agrOfArg sp.subj
    g := genderOfArg sp.subj }

def DNode.isPre (d : DNode) : Bool := !d.posPost && (d.rel == .subj || d.rel == .pre)

/-- `Dependent.passivate` (Dependent.py:220-268) -/
def passivateDep (st : DState) : DState :=
  let subjIdx := findIdx (fun d => d.rel == .subj) st.deps
  let objIdx := findIdx (fun d => d.rel == .comp && isNPPro d.head.ct) st.deps
  let byNode (sj : DNode) : DNode := ⟨.comp, (match sj.head with | .arg a => .pp (s "by") a | h => h), false, false⟩
  match objIdx with
  | some i =>
    let obj := st.deps.getD i default
    let (head', agr, g) : DHead × Agr × Gender :=
      match obj.head with
      | .arg (.proMe a) => (.arg (.proNom a), ⟨a.pe, a.n⟩, a.g)      -- `self.terminal.peng = obj.peng`: the old record
      | .arg (.np a) => (.arg (.np a), ⟨.p3, a.n⟩, a.g)
      | h => (h, st.agr, st.g)
    let deps1 := setAt st.deps i { obj with rel := .subj, head := head' }
    let deps2 := match subjIdx with
      | some j => removeAt deps1 j ++ [byNode (deps1.getD j default)]
      | none => deps1
    { st with deps := deps2, agr := agr, g := g }
  | none =>
    match subjIdx with
    | some j =>
      -- `self.peng = obj.peng` changes the root's record, not the terminal's: the verb keeps the old subject's
      let sj := st.deps.getD j default
      { st with deps := removeAt st.deps j ++ [⟨.pre, .arg .it, false, false⟩, byNode sj] }
    | none => st

/-- `DependentEn.processTyp_verb` (DependentEn.py:42-55) -/
def processTypVerbDep (words : List Tok) (st : DState) : DState :=
  match words.getLast? with
  | some last => { st with term := .tok last, deps := st.deps ++ words.dropLast.map (fun w => ⟨.pre, .word w, false, false⟩) }
  | none => st

def DTerm.lemmaName : DTerm → String
  | .v0 => ""
  | .tok t => t.lemmaName

/-- `DependentEn.move_object` (DependentEn.py:57-67) -/
def moveObjectDep (st : DState) : DState :=
  match findIdx (fun d => d.rel == .pre) st.deps with
  | some i =>
    let aux := (st.deps.getD i default).head
    { st with deps := ⟨.pre, aux, false, false⟩ :: removeAt st.deps i }
  | none =>
    if aloneDep st.term.lemmaName then
      match findIdx (fun d => d.rel == .subj) st.deps with
      | some j => { st with deps := setAt st.deps j { st.deps.getD j default with posPost := true } }
      | none => st
    else st

/-- `DependentEn.tag_question` (DependentEn.py:69-136) -/
def tagQuestionDep (ty : Typ) (st : DState) : DState :=
  let vIdx := findIdx (fun d => d.head.ct == .V && d.isPre) st.deps
  let currV : Tok :=
    match vIdx with
    | some k => (match (st.deps.getD k default).head with | .word t => t | _ => .not_)
    | none => (match st.term with | .tok t => t | .v0 => .not_)
  let aux : VLemma :=
    match ty.mod with
    | some m => auxOfMod m
    | none => if tagSelfAuxDep currV.lemmaName then VLemma.ofString currV.lemmaName else .do_
  let neg := ty.neg
  -- pe, t, n, g of currV
  let (pe, n, g, t) : Pe × Num × Gender × Option VForm :=
    match currV with
    | .verb _ f .shared => (st.agr.pe, st.agr.n, st.g, some f)
    | .verb _ f (.fixed a) => (a.pe, a.n, .n, some f)
    | _ => (st.agr.pe, st.agr.n, st.g, none)       -- Q("cannot") carries `v_peng` but no tense
  let warn := if t.isNone then 1 else 0             -- `.t(None)`: warning, the tense stays the default "p"
  let f : VForm := t.getD .p
  let dfltPro : ArgTok := .proI ⟨pe, n, g⟩
  let (pro, tagAgr) : ArgTok × Agr :=
    match findIdx (fun d => d.rel == .subj) st.deps with
    | some si =>
      match (st.deps.getD si default).head with
      | .arg (.np a) => (.proOfNP a, ⟨.p3, a.n⟩)
      | .arg a =>
        -- `subject.getProp("pe") == 1 and aux == "be" and t == "p" and not neg`: the default pronoun is kept
        if a.pe == .p1 && aux == .be && t == some .p && !neg then (dfltPro, ⟨pe, n⟩)
        else (a, match a with
                 | .proI b => ⟨b.pe, b.n⟩
                 | .proNom b => staleAgr b
                 | a => ⟨a.pe, .s⟩)
      | _ => (.it, ⟨.p3, .s⟩)
    | none => (.it, ⟨.p3, .s⟩)
  -- the comma goes to the last `post` dependent, or to currV when there is none
  let lastPost : Option Nat :=
    (findIdx (fun d => !d.isPre) st.deps.reverse).map (fun k => st.deps.length - 1 - k)
  let st1 : DState :=
    match lastPost with
    | some k => { st with deps := setAt st.deps k { st.deps.getD k default with comma := true } }
    | none =>
      match vIdx with
      | some k => { st with deps := setAt st.deps k { st.deps.getD k default with comma := true } }
      | none => { st with termComma := true }
  let toks : List Tok :=
    if aux == .have && !neg then
      affixHopping .have (AT.ofForm f) { contr := true } (.fixed tagAgr) ++ [.not_, .arg pro]
    else
      affixHopping aux (AT.ofForm f) { neg := !neg, contr := true } (.fixed tagAgr) ++ [.arg pro]
  { st1 with deps := st1.deps ++ [⟨.comp, .tag toks, false, false⟩], warn := st1.warn + warn }

/-- the loop of Dependent.py:336-352 once `preposition_list` exists: index and prefix of the first prepositional
    dependent whose preposition qualifies -/
def findPPDep (i : Int) : List DNode → Nat → Option (Nat × Str)
  | [], _ => none
  | d :: r, k =>
    match d.head with
    | .pp prep _ =>
      if (d.rel == .comp || d.rel == .mod) then
        let p := prep.str
        if i == .whe then (if Gen.ClauseEn.prepositionsWhe.contains p then some (k, intPrefix i) else findPPDep i r (k + 1))
        else if i == .whn then (if Gen.ClauseEn.prepositionsWhn.contains p then some (k, intPrefix i) else findPPDep i r (k + 1))
        else if Gen.ClauseEn.prepositionsAll.contains p then some (k, prep ++ s " " ++ whomOrWhat i)
        else findPPDep i r (k + 1)
      else findPPDep i r (k + 1)
    | _ => findPPDep i r (k + 1)

/-- `Dependent.processTypInt` (Dependent.py:299-365) -/
def processIntDep (ty : Typ) (i : Int) (st : DState) : Except Crash DState :=
  let addPrefix (pre : Str) (st : DState) : DState := { st with deps := ⟨.pre, .word (.q pre), false, false⟩ :: st.deps }
  match i with
  | .yon => .ok (moveObjectDep st)
  | .how | .why | .muc => .ok (addPrefix (intPrefix i) (moveObjectDep st))
  | .wos | .was =>
    let st1 : DState :=
      match findIdx (fun d => d.rel == .subj) st.deps with
      | some j =>
        -- `self.terminal.setProp("n","s"); self.terminal.setProp("pe",3)`: reaches `v_peng` only when the
        -- terminal is the first word of the verb group
        let agr := match st.term with
          | .tok (.verb _ _ .shared) => ⟨.p3, .s⟩
          | .tok .cannot => ⟨.p3, .s⟩
          | _ => st.agr
        { st with deps := removeAt st.deps j, agr := agr }
      | none => st
    .ok (addPrefix (intPrefix i) st1)
  | .wod | .wad =>
    let (cmp, st1) : Option DNode × DState :=
      match findIdx (fun d => d.rel == .comp && isNPPro d.head.ct) st.deps with
      | some k => (st.deps[k]?, { st with deps := removeAt st.deps k })
      | none => (none, st)
    let human : Bool :=
      Gen.ClauseEn.depHumanObjectGetsIntValue && i == .wod &&
        (match cmp with
         | some ⟨_, .arg (.np a), _, _⟩ => humanGender a.g
         | some ⟨_, .arg (.proMe a), _, _⟩ => humanGender a.g
         | _ => false)
    let pre := if human then s "whom" else intPrefix i
    .ok (addPrefix pre (moveObjectDep st1))
  | .woi | .wai | .whe | .whn =>
    let isPP (d : DNode) : Bool := (d.rel == .comp || d.rel == .mod) && d.head.ct == .P
    if st.deps.any isPP && !Gen.ClauseEn.depHasPrepositionList then
      .error .attributeError           -- `self.preposition_list()` does not exist on DependentEn
    else
      -- (reached only without prepositional dependent, or once `preposition_list` exists: then the first
      --  dependent whose preposition qualifies is removed)
      let (pre, st1) : Str × DState :=
        match findPPDep i st.deps 0 with
        | some (k, pre) => (pre, { st with deps := removeAt st.deps k })
        | none => (intPrefix i, st)
      .ok (addPrefix pre (moveObjectDep st1))
  | .tag => .ok (addPrefix (intPrefix .tag) (tagQuestionDep ty st))

def grpOfNode (d : DNode) : Grp :=
  match d.head with
  | .arg a => ⟨.plain, false, [.arg a], d.comma⟩
  | .pp p a => ⟨.plain, false, [.prep p, .arg a], d.comma⟩
  | .word t => ⟨.plain, false, [t], d.comma⟩
  | .tag ts => ⟨.tag, true, ts, d.comma⟩

/-- `Dependent.real` (Dependent.py:453-495): `pre` dependents (stable), the terminal, the `post` dependents -/
def grpsDep (st : DState) : List Grp :=
  let pres := st.deps.filter (·.isPre)
  let posts := st.deps.filter (fun d => !d.isPre)
  let term : List Grp := match st.term with
    | .tok t => [⟨.plain, false, [t], st.termComma⟩]
    | .v0 => []
  pres.map grpOfNode ++ term ++ posts.map grpOfNode

def realizeDepW (sp : Spec) (ty : Typ) (ws : List Tok) : Except Crash Out := do
  let st0 := initDep sp
  let st1 := if ty.pas then passivateDep st0 else st0
  let st2 := processTypVerbDep ws st1
  let st3 ← match ty.int with
    | some i => processIntDep ty i st2
    | none => pure st2
  pure { grps := (grpsDep st3).map (fun g => { g with toks := g.toks.map (Tok.resolve st3.agr) }), warn := st3.warn,
         agr := st3.agr }

def realizeDep (sp : Spec) (ty : Typ) : Except Crash Out := realizeDepW sp ty (clauseWords sp ty)

end Pyrealb.ClauseEn
