import Pyrealb.Model.NumberLang
/-! Specification side of C16 (hand-written, **independent of the repository**: imports neither the model of
`Number.py` nor the generated tables): what a sequence of English / French number words *denotes*, the ordinal
form of each number word, the canonical Roman numeral, and the reading of a digit string with grouping and
decimal signs.  The property theorems say that what the model of the code produces is read back by these
functions as the number that was given. -/
namespace Pyrealb.NumberSpec
open Pyrealb Pyrealb.Number

/-! ### the numeral systems -/

/-- what one word contributes -/
inductive Mean where
  | small (n : Nat)      -- a number below 100: `twenty-one`, `quatre-vingt-dix-sept`
  | hundred              -- `hundred`, `cent`, `cents`
  | and_                 -- `and`, `et`
  | scale (k : Nat)      -- 1000^k : `thousand` (k = 1), `million` (k = 2) ...
  | minus                -- `minus`, `moins`
  deriving DecidableEq, Repr

def atomsEn : List (Str × Nat) :=
  [(s "zero", 0), (s "one", 1), (s "two", 2), (s "three", 3), (s "four", 4), (s "five", 5), (s "six", 6),
   (s "seven", 7), (s "eight", 8), (s "nine", 9), (s "ten", 10), (s "eleven", 11), (s "twelve", 12),
   (s "thirteen", 13), (s "fourteen", 14), (s "fifteen", 15), (s "sixteen", 16), (s "seventeen", 17),
   (s "eighteen", 18), (s "nineteen", 19), (s "twenty", 20), (s "thirty", 30), (s "forty", 40), (s "fifty", 50),
   (s "sixty", 60), (s "seventy", 70), (s "eighty", 80), (s "ninety", 90)]

def atomsFr : List (Str × Nat) :=
  [(s "zéro", 0), (s "un", 1), (s "deux", 2), (s "trois", 3), (s "quatre", 4), (s "cinq", 5), (s "six", 6),
   (s "sept", 7), (s "huit", 8), (s "neuf", 9), (s "dix", 10), (s "onze", 11), (s "douze", 12), (s "treize", 13),
   (s "quatorze", 14), (s "quinze", 15), (s "seize", 16), (s "vingt", 20), (s "vingts", 20), (s "trente", 30),
   (s "quarante", 40), (s "cinquante", 50), (s "soixante", 60)]

def scalesEn : List (Str × Nat) :=
  [(s "thousand", 1), (s "million", 2), (s "billion", 3), (s "trillion", 4), (s "quadrillion", 5),
   (s "quintillion", 6)]

/-- French, short scale with `milliard` for 10^9 (the scale the library documents, after the Guide Antidote) -/
def scalesFr : List (Str × Nat) :=
  [(s "mille", 1), (s "million", 2), (s "millions", 2), (s "milliard", 3), (s "milliards", 3),
   (s "trillion", 4), (s "trillions", 4), (s "quatrillion", 5), (s "quatrillions", 5), (s "quadrillion", 5),
   (s "quadrillions", 5), (s "quintillion", 6), (s "quintillions", 6)]

/-- a hyphenated compound: the values of its pieces are added, except `quatre-vingt` = 4 × 20 -/
def compound (atoms : List (Str × Nat)) (acc : Nat) : List Str → Option Nat
  | [] => some acc
  | p :: ps =>
    match lookup p atoms with
    | none => none
    | some v => compound atoms (if acc = 4 ∧ v = 20 then 80 else acc + v) ps

/-- `c` is the character `g` -/
def eqChar (g : Char) (c : Char) : Bool := c == g

/-- pieces of a word between hyphens (no empty piece: `a--b`, `-a` are not number words) -/
def hyphenPieces (w : Str) : Option (List Str) :=
  let ps := splitKeep (eqChar '-') w
  if ps.all (fun p => !p.isEmpty) then some ps else none

/-- the vocabulary of a numeral system -/
structure Vocab where
  atoms : List (Str × Nat)      -- words for numbers below 100 that combine with hyphens
  scales : List (Str × Nat)     -- word ↦ k, for 1000^k
  hundreds : List Str
  ands : List Str
  minuses : List Str

def classify (V : Vocab) (w : Str) : Option Mean :=
  if V.hundreds.contains w then some .hundred
  else if V.ands.contains w then some .and_
  else if V.minuses.contains w then some .minus
  else match lookup w V.scales with
    | some k => some (.scale k)
    | none => match hyphenPieces w with
      | some (p :: ps) => (compound V.atoms 0 (p :: ps)).map .small
      | _ => none

/-- **the English and the French numeral systems** -/
def vocab : Lang → Vocab
  | .en => ⟨atomsEn, scalesEn, [s "hundred"], [s "and"], [s "minus"]⟩
  | .fr => ⟨atomsFr, scalesFr, [s "cent", s "cents"], [s "et"], [s "moins"]⟩

/-- evaluation state: the value of the current group (below 1000) and the total of the closed groups -/
abbrev St := Nat × Nat

def step (st : St) : Mean → Option St
  | .small n => some (st.1 + n, st.2)
  | .hundred => some ((if st.1 = 0 then 1 else st.1) * 100, st.2)
  | .and_ => some st
  | .scale k => some (0, st.2 + (if st.1 = 0 then 1 else st.1) * 1000 ^ k)
  | .minus => none

def evalFrom (V : Vocab) (st : St) : List Str → Option St
  | [] => some st
  | w :: ws => (classify V w).bind (fun m => (step st m).bind (fun st' => evalFrom V st' ws))

def evalNat (V : Vocab) (ws : List Str) : Option Nat :=
  match ws with
  | [] => none
  | _ => (evalFrom V (0, 0) ws).map (fun st => st.1 + st.2)

/-- the number a text denotes in the numeral system `V` (total function; `none` = not a number) -/
def evalV (V : Vocab) (x : Str) : Option Int :=
  match words x with
  | [] => none
  | w :: ws =>
    if classify V w = some .minus then (evalNat V ws).map (fun n => - Int.ofNat n)
    else (evalNat V (w :: ws)).map (fun n => Int.ofNat n)

/-- **the number a text denotes** in English / in French -/
def eval (ℓ : Lang) (x : Str) : Option Int := evalV (vocab ℓ) x

/-! ### ordinals: the ordinal form of each word that can end a cardinal -/

def ordWordsEn : List (Str × Str) :=
  [(s "one", s "first"), (s "two", s "second"), (s "three", s "third"), (s "four", s "fourth"),
   (s "five", s "fifth"), (s "six", s "sixth"), (s "seven", s "seventh"), (s "eight", s "eighth"),
   (s "nine", s "ninth"), (s "ten", s "tenth"), (s "eleven", s "eleventh"), (s "twelve", s "twelfth"),
   (s "thirteen", s "thirteenth"), (s "fourteen", s "fourteenth"), (s "fifteen", s "fifteenth"),
   (s "sixteen", s "sixteenth"), (s "seventeen", s "seventeenth"), (s "eighteen", s "eighteenth"),
   (s "nineteen", s "nineteenth"), (s "twenty", s "twentieth"), (s "thirty", s "thirtieth"),
   (s "forty", s "fortieth"), (s "fifty", s "fiftieth"), (s "sixty", s "sixtieth"), (s "seventy", s "seventieth"),
   (s "eighty", s "eightieth"), (s "ninety", s "ninetieth"), (s "hundred", s "hundredth"),
   (s "thousand", s "thousandth"), (s "million", s "millionth"), (s "billion", s "billionth"),
   (s "trillion", s "trillionth"), (s "quadrillion", s "quadrillionth"), (s "quatrillion", s "quatrillionth"),
   (s "quintillion", s "quintillionth")]

/-- French: `-ième` on the word without its final `e` and without the plural `s` of `vingts`, `cents`,
    `millions` …; `cinquième`, `neuvième`; `unième` in compounds (`premier` is for the number 1 only). -/
def ordWordsFr : List (Str × Str) :=
  [(s "un", s "unième"), (s "deux", s "deuxième"), (s "trois", s "troisième"), (s "quatre", s "quatrième"),
   (s "cinq", s "cinquième"), (s "six", s "sixième"), (s "sept", s "septième"), (s "huit", s "huitième"),
   (s "neuf", s "neuvième"), (s "dix", s "dixième"), (s "onze", s "onzième"), (s "douze", s "douzième"),
   (s "treize", s "treizième"), (s "quatorze", s "quatorzième"), (s "quinze", s "quinzième"),
   (s "seize", s "seizième"), (s "vingt", s "vingtième"), (s "vingts", s "vingtième"), (s "trente", s "trentième"),
   (s "quarante", s "quarantième"), (s "cinquante", s "cinquantième"), (s "soixante", s "soixantième"),
   (s "cent", s "centième"), (s "cents", s "centième"), (s "mille", s "millième"),
   (s "million", s "millionième"), (s "millions", s "millionième"), (s "milliard", s "milliardième"),
   (s "milliards", s "milliardième"), (s "trillion", s "trillionième"), (s "trillions", s "trillionième"),
   (s "quatrillion", s "quatrillionième"), (s "quatrillions", s "quatrillionième"),
   (s "quintillion", s "quintillionième"), (s "quintillions", s "quintillionième")]

/-- a character that separates number words inside a spelling -/
def isSep (c : Char) : Bool := c = ' ' || c = '-'

/-- (everything up to and including the last separator, the last word) -/
def splitLast (x : Str) : Str × Str := tailSplit (fun c => !isSep c) x

/-- **the ordinal ending rule**: the last word of the cardinal takes its ordinal form; French 1 is
    `premier` / `première`. `none`: the text does not end with a number word. -/
def ordRule (ℓ : Lang) (g : Gender) (x : Str) : Option Str :=
  match ℓ with
  | .en => let (pre, w) := splitLast x; (lookup w ordWordsEn).map (fun o => pre ++ o)
  | .fr =>
    if x = s "un" then some (if g = .f then s "première" else s "premier")
    else let (pre, w) := splitLast x; (lookup w ordWordsFr).map (fun o => pre ++ o)

/-! ### Roman numerals: the canonical numeral (one standard group per decimal digit), and the value of a numeral -/

def romanOnes : List Str := [s "", s "I", s "II", s "III", s "IV", s "V", s "VI", s "VII", s "VIII", s "IX"]
def romanTens : List Str := [s "", s "X", s "XX", s "XXX", s "XL", s "L", s "LX", s "LXX", s "LXXX", s "XC"]
def romanHundreds : List Str := [s "", s "C", s "CC", s "CCC", s "CD", s "D", s "DC", s "DCC", s "DCCC", s "CM"]
def romanThousands : List Str := [s "", s "M", s "MM", s "MMM"]

/-- the canonical Roman numeral of `1 ≤ n ≤ 3999`: thousands, hundreds, tens, units, each written with the
    standard group of its digit (subtractive `IV`, `IX`, `XL`, `XC`, `CD`, `CM`) -/
def romanCanon (n : Nat) : Str :=
  romanThousands.getD (n / 1000) [] ++ romanHundreds.getD (n / 100 % 10) [] ++ romanTens.getD (n / 10 % 10) []
    ++ romanOnes.getD (n % 10) []

def romanDigit (c : Char) : Option Nat :=
  if c = 'I' then some 1 else if c = 'V' then some 5 else if c = 'X' then some 10 else if c = 'L' then some 50
  else if c = 'C' then some 100 else if c = 'D' then some 500 else if c = 'M' then some 1000 else none

/-- value of a numeral: a symbol smaller than its successor is subtracted -/
def romanValue : Str → Option Nat
  | [] => some 0
  | [c] => romanDigit c
  | c :: d :: r =>
    match romanDigit c, romanDigit d, romanValue (d :: r) with
    | some a, some b, some v => if a < b then (if a ≤ v then some (v - a) else none) else some (v + a)
    | _, _, _ => none

/-! ### digit strings -/

def digitVal (c : Char) : Option Nat :=
  if '0' ≤ c ∧ c ≤ '9' then some (c.toNat - '0'.toNat) else none

def natOfDigits (acc : Nat) : Str → Option Nat
  | [] => some acc
  | c :: cs => match digitVal c with
    | some d => natOfDigits (acc * 10 + d) cs
    | none => none

/-- an unsigned integer written with the grouping sign `g`: first group of 1 to 3 digits, then groups of exactly
    3 digits -/
def parseGrouped (g : Char) (x : Str) : Option Nat :=
  match splitKeep (eqChar g) x with
  | [] => none
  | first :: rest =>
    if 1 ≤ first.length ∧ first.length ≤ 3 ∧ rest.all (fun p => p.length == 3) then
      natOfDigits 0 (first ++ rest.flatten)
    else none

/-- a decimal number as sign, integer mantissa and number of decimals: `(neg, q, p)` is `± q / 10^p` -/
structure Dec where
  neg : Bool
  q : Nat
  p : Nat
  deriving DecidableEq, Repr

/-- **reading a formatted number** with grouping sign `g` and decimal sign `d`: optional `-`, grouped integer
    part, and, after `d`, at least one decimal -/
def parseNumber (g d : Char) (x : Str) : Option Dec :=
  let neg := x.head? == some '-'
  let body := if neg then x.drop 1 else x
  match splitKeep (eqChar d) body with
  | [ip] => (parseGrouped g ip).map (fun n => ⟨neg, n, 0⟩)
  | [ip, fp] =>
    if fp.isEmpty then none else
    match parseGrouped g ip, natOfDigits 0 fp with
    | some n, some f => some ⟨neg, n * 10 ^ fp.length + f, fp.length⟩
    | _, _ => none
  | _ => none

/-- the grouping and decimal signs of the two languages -/
def groupSign : Lang → Char
  | .en => ','
  | .fr => '\u00a0'     -- no-break space
def decimalSign : Lang → Char
  | .en => '.'
  | .fr => ','

/-- `q` is `m / 10^k` rounded to `p` decimals, to nearest, ties to even -/
def IsRounded (m k p q : Nat) : Prop :=
  let a := m * 10 ^ p
  let b := q * 10 ^ k
  2 * (a - b) ≤ 10 ^ k ∧ 2 * (b - a) ≤ 10 ^ k ∧ ((2 * (a - b) = 10 ^ k ∨ 2 * (b - a) = 10 ^ k) → q % 2 = 0)

end Pyrealb.NumberSpec
