import Pyrealb.Model.DeclTable
/-! # `Terminal.bestMatch` (src/pyrealb/Terminal.py:185-201), loop for loop

```python
bestMatch=(0,None)
for d in declension:
    nbMatches=0
    for key,val in keyVals.items():
        if key in d:
            if key=="pe" and d[key]!=val: nbMatches=0; break
            if d[key]==val: nbMatches+=2
            elif d[key]=="x": nbMatches+=1
    if nbMatches>bestMatch[0]: bestMatch=(nbMatches,d["val"])
if bestMatch[0]==0: self.morphoError(...); return None
return bestMatch[1]
```
The warning raised on `None` is added by the callers in `Model/Decl.lean`.

The second half of the file is the *declarative* reading of the same thing (`score`, `FirstMax`), written without
reference to the loops; `Props/C02.lean` proves the two equal for all row lists and requests. -/
namespace Pyrealb.Decl

/-- the request: Python dict `keyVals` in insertion order -/
abbrev KeyVals := List (Feat × FV)

/-- `keyVals[k] = v` (update in place, or append) -/
def KeyVals.set : KeyVals → Feat → FV → KeyVals
  | [], k, v => [(k, v)]
  | (k', v') :: r, k, v => if k' = k then (k, v) :: r else (k', v') :: KeyVals.set r k v

/-- `del keyVals[k]` (the callers guard against an absent key) -/
def KeyVals.del (kv : KeyVals) (k : Feat) : KeyVals := kv.filter (fun p => p.1 ≠ k)

/-- `keyVals[k]` -/
def KeyVals.get (kv : KeyVals) (k : Feat) : Option FV :=
  match kv.find? (fun p => p.1 = k) with
  | some p => some p.2
  | none => none

/-- the inner `for key,val in keyVals.items()` loop with its `break`; `acc` is `nbMatches` -/
def scoreLoop (row : Row) : KeyVals → Nat → Nat
  | [], acc => acc
  | (k, v) :: rest, acc =>
    match row.get k with
    | none => scoreLoop row rest acc
    | some w =>
      if k = Feat.pe ∧ w ≠ v then 0
      else if w = v then scoreLoop row rest (acc + 2)
      else if w = FV.x then scoreLoop row rest (acc + 1)
      else scoreLoop row rest acc

/-- the outer `for d in declension` loop; the accumulator is Python's `bestMatch` pair -/
def bestLoop (kv : KeyVals) : List Row → Nat × Option Str → Nat × Option Str
  | [], b => b
  | d :: ds, b =>
    if scoreLoop d kv 0 > b.1 then bestLoop kv ds (scoreLoop d kv 0, some d.val) else bestLoop kv ds b

/-- `Terminal.bestMatch(_, declension, keyVals)`; `none` is Python's `None` -/
def bestMatch (rows : List Row) (kv : KeyVals) : Option Str :=
  let b := bestLoop kv rows (0, none)
  if b.1 = 0 then none else b.2

/-! ## Declarative reading -/

/-- the row carries `pe`, the request asks for a person, and not for the one the row carries -/
def peClash (row : Row) (kv : KeyVals) : Prop :=
  ∃ p ∈ kv, p.1 = Feat.pe ∧ row.get Feat.pe ≠ none ∧ row.get Feat.pe ≠ some p.2

instance (row : Row) (kv : KeyVals) : Decidable (peClash row kv) := by unfold peClash; infer_instance

/-- what one requested feature contributes: 2 if the row carries it with the same value, 1 if the row carries
    it with the wildcard `x`, 0 otherwise -/
def entryScore (row : Row) (p : Feat × FV) : Nat :=
  match row.get p.1 with
  | none => 0
  | some w => if w = p.2 then 2 else if w = FV.x then 1 else 0

/-- the score of a row: 0 altogether when the person differs, else the sum of the contributions -/
def score (row : Row) (kv : KeyVals) : Nat :=
  if peClash row kv then 0 else (kv.map (entryScore row)).sum

/-- `r` is the first row of `rows` with maximal, positive score -/
def FirstMax (sc : Row → Nat) (rows : List Row) (r : Row) : Prop :=
  ∃ pre post, rows = pre ++ r :: post ∧ 0 < sc r ∧ (∀ p ∈ pre, sc p < sc r) ∧ (∀ q ∈ post, sc q ≤ sc r)

/-- a row is *compatible* with a request when it shares at least one feature with it and contradicts none:
    every requested feature the row carries has the requested value, or the wildcard `x` (never for `pe`).
    (No reference to scores.) -/
def Agrees (row : Row) (p : Feat × FV) : Prop :=
  ∃ w, row.get p.1 = some w ∧ (w = p.2 ∨ (w = FV.x ∧ p.1 ≠ Feat.pe))

def Compatible (row : Row) (kv : KeyVals) : Prop :=
  (∃ p ∈ kv, Agrees row p) ∧ (∀ p ∈ kv, ∀ w, row.get p.1 = some w → (w = p.2 ∨ (w = FV.x ∧ p.1 ≠ Feat.pe)))

/-- the row carries every requested feature with exactly the requested value -/
def Exact (row : Row) (kv : KeyVals) : Prop := ∀ p ∈ kv, row.get p.1 = some p.2

instance (row : Row) (kv : KeyVals) : Decidable (Exact row kv) := by unfold Exact; infer_instance

end Pyrealb.Decl
