import Pyrealb.Model.Basic
/-! # Model of pyrealb's date realization (property C17)

Mirrors, branch for branch,
* `Terminal.dateFormat` (src/pyrealb/Terminal.py): the `[x]` placeholder interpreter `interpret`, the relative-time
  branch, the natural-time simplification, the final join;
* `Constituent.dOpt` / `Constituent.nat` / `Constituent.parseDateString` (src/pyrealb/Constituent.py) for a `DT`;
* the `DT` branch of `Terminal.setLemma` (construction and defaults);
* `datetime.date.toordinal` / `weekday` of CPython (`_ymd2ord`, `_days_before_year`, `_days_before_month`).

Tables (`DateRules`) are parameters; the shipped ones are in `Model/DateTables` (from `Gen/DateRules`).
Python partiality is explicit (`Except Crash`): `fmts[fields]` → `KeyError`,
`{…}[m[2]]` → `KeyError`, list subscripts → `IndexError`.  What depends on the wall clock
(`datetime.datetime.today()`) is the explicit outcome `Out.today`. -/
namespace Pyrealb.Date

/-! ## decimal text -/

/-- Python `str(n)` for `n ≥ 0` -/
def dec (n : Nat) : Str := Nat.toDigits 10 n
/-- Python `str(i)` for an `int` -/
def pyInt (i : Int) : Str := if i < 0 then '-' :: dec i.natAbs else dec i.natAbs
/-- Python `f"{n:02}"` for `n ≥ 0` -/
def pad2 (n : Nat) : Str := if n < 10 then '0' :: dec n else dec n

/-! ## proleptic Gregorian calendar (CPython `Lib/_pydatetime.py`) -/

structure Date where
  year : Nat
  month : Nat
  day : Nat
  deriving DecidableEq, Repr

structure DateTime extends Date where
  hour : Nat
  minute : Nat
  second : Nat
  deriving DecidableEq, Repr

/-- `_is_leap` -/
def isLeap (y : Nat) : Bool := y % 4 == 0 && (y % 100 != 0 || y % 400 == 0)

/-- `_days_before_year(year)` -/
def daysBeforeYear (year : Nat) : Nat :=
  (year - 1) * 365 + (year - 1) / 4 - (year - 1) / 100 + (year - 1) / 400

/-- `_DAYS_IN_MONTH` / `_days_in_month` -/
def daysInMonth (y m : Nat) : Nat :=
  if m = 2 then (if isLeap y then 29 else 28)
  else if m = 4 ∨ m = 6 ∨ m = 9 ∨ m = 11 then 30 else 31

/-- `_DAYS_BEFORE_MONTH[month]` -/
def daysBeforeMonthTbl : Nat → Nat
  | 1 => 0 | 2 => 31 | 3 => 59 | 4 => 90 | 5 => 120 | 6 => 151
  | 7 => 181 | 8 => 212 | 9 => 243 | 10 => 273 | 11 => 304 | 12 => 334 | _ => 0

/-- `_days_before_month(year, month)` -/
def daysBeforeMonth (y m : Nat) : Nat :=
  daysBeforeMonthTbl m + (if 2 < m ∧ isLeap y then 1 else 0)

/-- what `datetime.datetime(y, m, d, …)` accepts (`MINYEAR = 1`, `MAXYEAR = 9999`) -/
def Date.valid (d : Date) : Bool :=
  1 ≤ d.year && d.year ≤ 9999 && 1 ≤ d.month && d.month ≤ 12 && 1 ≤ d.day && d.day ≤ daysInMonth d.year d.month

def DateTime.valid (d : DateTime) : Bool :=
  d.toDate.valid && d.hour < 24 && d.minute < 60 && d.second < 60

/-- `date.toordinal()` = `_ymd2ord(year, month, day)` -/
def toordinal (d : Date) : Nat := daysBeforeYear d.year + daysBeforeMonth d.year d.month + d.day

/-- `date.weekday()` : Monday = 0 -/
def weekday (d : Date) : Nat := (toordinal d + 6) % 7

/-- the calendar successor of a day (used by the specification only) -/
def Date.next (d : Date) : Date :=
  if d.day < daysInMonth d.year d.month then { d with day := d.day + 1 }
  else if d.month < 12 then { d with month := d.month + 1, day := 1 }
  else { year := d.year + 1, month := 1, day := 1 }

/-! ## the rule tables of one language (`getRules(lang)["date"]`) -/

structure DateRules where
  /-- `["format"]["natural"]` -/
  natural : List (Str × Str)
  /-- `["format"]["non_natural"]` -/
  nonNatural : List (Str × Str)
  /-- `["format"]["relative_time"]` -/
  relative : List (Str × Str)
  /-- `["text"]["weekday"]` -/
  weekday : List Str
  /-- `["text"]["month"]` (keys are `str(month)`) -/
  month : List (Str × Str)
  /-- `["text"]["meridiem"]` (absent from the French rules) -/
  meridiem : Option (List Str)

/-! ## the format scanner: `fmtRE = (.*?)\[(.+?)]|(.+$)` with `finditer` (formats contain no newline) -/

/-- one match object: `pre` is `m[1]` and `key = some m[2]`; for the second alternative `pre` is `m[3]`, `key = none` -/
structure Match where
  pre : Str
  key : Option Str
  deriving DecidableEq, Repr

/-- split at the first `c`: (before, after) -/
def splitAt1 (c : Char) : Str → Option (Str × Str)
  | [] => none
  | x :: xs => if x = c then some ([], xs) else
      match splitAt1 c xs with
      | some (a, b) => some (x :: a, b)
      | none => none

/-- first alternative at the current position: the lazy `(.*?)` stops at the first `[` after which `(.+?)]` can
    match, i.e. one arbitrary character, then lazily up to the first `]`.  If the first `[` has no such `]`, no
    later one has.  Result: (m[1], m[2], remaining text). -/
def scanBracket (x : Str) : Option (Str × Str × Str) :=
  match splitAt1 '[' x with
  | none => none
  | some (pre, after) =>
    match after with
    | [] => none
    | c :: t =>
      match splitAt1 ']' t with
      | none => none
      | some (k, rest) => some (pre, c :: k, rest)

def matchesF : Nat → Str → List Match
  | 0, _ => []
  | f + 1, x =>
    if x = [] then [] else
    match scanBracket x with
    | some (pre, key, rest) => ⟨pre, some key⟩ :: matchesF f rest
    | none => [⟨x, none⟩]

/-- `list(fmtRE.finditer(fmt))` -/
def matchesOf (fmt : Str) : List Match := matchesF (fmt.length + 1) fmt

/-- the keys between brackets that `interpret` looks up, in order -/
def placeholders (fmt : Str) : List Str := (matchesOf fmt).filterMap (·.key)

/-! ## the placeholder dictionary of `interpret` -/

inductive Ph where
  | Y | F | M0 | M | d0 | d | l | A | h | H0 | H | m0 | m | s0 | s
  deriving DecidableEq, Repr

def phTable : List (Str × Ph) :=
  [(['Y'], .Y), (['F'], .F), (['M','0'], .M0), (['M'], .M), (['d','0'], .d0), (['d'], .d), (['l'], .l), (['A'], .A),
   (['h'], .h), (['H','0'], .H0), (['H'], .H), (['m','0'], .m0), (['m'], .m), (['s','0'], .s0), (['s'], .s)]

def getIdx (l : List Str) (i : Nat) : Except Crash Str :=
  match l[i]? with
  | some x => .ok x
  | none => .error .indexError

def getKey {α} (k : Str) (l : List (Str × α)) : Except Crash α :=
  match lookup k l with
  | some x => .ok x
  | none => .error .keyError

/-- `dateRule["text"]["weekday"][(dateObj.weekday()+1)%7]` -/
def weekdayName (r : DateRules) (d : Date) : Except Crash Str := getIdx r.weekday ((weekday d + 1) % 7)

/-- the lambda of each placeholder, called -/
def value (r : DateRules) (dt : DateTime) : Ph → Except Crash Str
  | .Y => .ok (dec dt.year)
  | .F => getKey (dec dt.month) r.month
  | .M0 => .ok (pad2 dt.month)
  | .M => .ok (dec dt.month)
  | .d0 => .ok (pad2 dt.day)
  | .d => .ok (dec dt.day)
  | .l => weekdayName r dt.toDate
  | .A => match r.meridiem with
          | none => .error .keyError
          | some l => getIdx l (if dt.hour < 12 then 0 else 1)
  | .h => .ok (dec (if dt.hour % 12 = 0 then 12 else dt.hour % 12))   -- `str(dateObj.hour%12 or 12)`
  | .H0 => .ok (pad2 dt.hour)
  | .H => .ok (dec dt.hour)
  | .m0 => .ok (pad2 dt.minute)
  | .m => .ok (dec dt.minute)
  | .s0 => .ok (pad2 dt.second)
  | .s => .ok (dec dt.second)

/-- the `for m in fmtRE.finditer(fmt)` loop; `res` is the accumulator -/
def render (r : DateRules) (dt : DateTime) : List Match → Str → Except Crash Str
  | [], res => .ok res
  | ⟨pre, none⟩ :: ms, res => render r dt ms (res ++ pre)
  | ⟨pre, some k⟩ :: ms, res =>
    match getKey k phTable with
    | .error e => .error e
    | .ok ph =>
      match value r dt ph with
      | .error e => .error e
      | .ok v => render r dt ms (res ++ (pre ++ v))

/-- `fmt[idx:]` for `idx = fmt.find("[")`, `none` when `idx < 0` -/
def dropToBracket : Str → Option Str
  | [] => none
  | c :: cs => if c = '[' then some (c :: cs) else dropToBracket cs

/-- the `det:False` treatment: `idx=fmt.find("[")`; `fmt[idx:]` if `idx>=0`, else `fmt[fmt.find(" ")+1:]`
    (without a space `find` is −1 and the whole format is kept) -/
def dropDet (fmt : Str) : Str :=
  match dropToBracket fmt with
  | some x => x
  | none =>
    match splitAt1 ' ' fmt with
    | some (_, rest) => rest
    | none => fmt

/-- the format selected by `interpret(fields)` after the `det` treatment -/
def selectFmt (r : DateRules) (nat det : Bool) (fields : Str) : Except Crash Str :=
  match getKey fields (if nat then r.natural else r.nonNatural) with
  | .error e => .error e
  | .ok fmt => .ok (if !det then dropDet fmt else fmt)

/-- the local function `interpret(fields)` of `dateFormat` -/
def interpret (r : DateRules) (dt : DateTime) (nat det : Bool) (fields : Str) : Except Crash Str :=
  if fields = [] then .ok [] else
  match selectFmt r nat det fields with
  | .error e => .error e
  | .ok fmt => render r dt (matchesOf fmt) []

/-! ## options -/

/-- `dOpts["rtime"]`: `False`, or a datetime; `today` stands for `datetime.datetime.today()` -/
inductive RTime where
  | off | today | at (d : DateTime)
  deriving DecidableEq, Repr

structure DOpts where
  year : Bool
  month : Bool
  date : Bool
  day : Bool
  hour : Bool
  minute : Bool
  second : Bool
  nat : Bool
  det : Bool
  rtime : RTime
  deriving DecidableEq, Repr

/-- defaults set by `Terminal.setLemma` for a `DT` -/
def DOpts.default : DOpts :=
  { year := true, month := true, date := true, day := true, hour := true, minute := true, second := true,
    nat := true, det := true, rtime := .off }

/-- `sep.join(field for field in names if dOpts[field])` -/
def joinSel (sep : Char) : List (Str × Bool) → Str
  | [] => []
  | (n, b) :: rest =>
    let r := joinSel sep rest
    if b then (if r = [] then n else n ++ sep :: r) else r

def kYear : Str := ['y','e','a','r']
def kMonth : Str := ['m','o','n','t','h']
def kDate : Str := ['d','a','t','e']
def kDay : Str := ['d','a','y']
def kHour : Str := ['h','o','u','r']
def kMinute : Str := ['m','i','n','u','t','e']
def kSecond : Str := ['s','e','c','o','n','d']
def kNat : Str := ['n','a','t']
def kDet : Str := ['d','e','t']
def kRtime : Str := ['r','t','i','m','e']
def kHMS : Str := kHour ++ ':' :: kMinute ++ ':' :: kSecond
def kHM : Str := kHour ++ ':' :: kMinute
def k0h : Str := ['0','h']
def k12h : Str := ['1','2','h']

/-- `"-".join(field for field in ["year","month","date","day"] if dOpts[field])` -/
def dateKey (o : DOpts) : Str := joinSel '-' [(kYear, o.year), (kMonth, o.month), (kDate, o.date), (kDay, o.day)]

/-- `":".join(field for field in ["hour","minute","second"] if dOpts[field])` -/
def timeKey0 (o : DOpts) : Str := joinSel ':' [(kHour, o.hour), (kMinute, o.minute), (kSecond, o.second)]

/-- `timeFields` after the natural-time simplification -/
def timeKey (dt : DateTime) (o : DOpts) : Str :=
  let tf := timeKey0 o
  if o.nat then
    if tf = kHMS then
      if dt.minute = 0 ∧ dt.second = 0 then
        if dt.hour = 0 then k0h else if dt.hour = 12 then k12h else kHour
      else if dt.second = 0 then kHM else tf
    else if tf = kHM then
      if dt.minute = 0 then kHour else tf
    else tf
  else tf

/-! ## relative time -/

def replaceF (pat sub : Str) : Nat → Str → Str
  | 0, x => x
  | _, [] => []
  | f + 1, c :: cs =>
    if startsWith (c :: cs) pat then sub ++ replaceF pat sub f ((c :: cs).drop pat.length)
    else c :: replaceF pat sub f cs

/-- `x.replace(pat, sub)` for a non-empty `pat` -/
def replaceAll (pat sub x : Str) : Str := replaceF pat sub x.length x

/-- the `isinstance(dOpts["rtime"], datetime.datetime)` branch, as a function of `diffDays` and of
    `dateObj.weekday()` (the weekday name is an argument of `.replace`, hence evaluated whether or not the
    template contains `[l]`) -/
def relativeCore (r : DateRules) (diff : Int) (wd : Nat) : Except Crash Str :=
  match lookup (pyInt diff) r.relative with
  | some t =>
    match getIdx r.weekday ((wd + 1) % 7) with
    | .error e => .error e
    | .ok w => .ok (replaceAll ['[','l',']'] w t)
  | none =>
    match getKey (if diff < 0 then ['-'] else ['+']) r.relative with
    | .error e => .error e
    | .ok t => .ok (replaceAll ['[','x',']'] (dec diff.natAbs) t)

def relative (r : DateRules) (d ref : Date) : Except Crash Str :=
  relativeCore r ((toordinal d : Int) - (toordinal ref : Int)) (weekday d)

/-- `" ".join(s for s in [dateS,timeS] if len(s)>0)` -/
def joinParts (a b : Str) : Str := if a = [] then b else if b = [] then a else a ++ ' ' :: b

/-- `Terminal.dateFormat(dateObj, dOpts)` with `dOpts["rtime"]` already resolved to an optional reference day -/
def dateFormat (r : DateRules) (dt : DateTime) (o : DOpts) (ref : Option Date) : Except Crash Str :=
  match (match ref with
         | some rd => relative r dt.toDate rd
         | none => interpret r dt o.nat o.det (dateKey o)) with
  | .error e => .error e
  | .ok dateS =>
    match interpret r dt o.nat o.det (timeKey dt o) with
    | .error e => .error e
    | .ok timeS => .ok (joinParts dateS timeS)

/-! ## `Constituent.parseDateString` (ASCII digits; Unicode `\d` is outside the model) -/

def isDigit (c : Char) : Bool := '0' ≤ c && c ≤ '9'
def digitVal (c : Char) : Nat := c.toNat - '0'.toNat
def num2 (a b : Char) : Nat := digitVal a * 10 + digitVal b

/-- `none` = the warning "bad parameter" and `datetime.datetime.today()` -/
def parseDateString (x : Str) : Option DateTime :=
  match x with
  | y1 :: y2 :: y3 :: y4 :: '-' :: m1 :: m2 :: '-' :: d1 :: d2 :: rest =>
    if isDigit y1 && isDigit y2 && isDigit y3 && isDigit y4 && isDigit m1 && isDigit m2 && isDigit d1 && isDigit d2 then
      let date : Date := ⟨num2 y1 y2 * 100 + num2 y3 y4, num2 m1 m2, num2 d1 d2⟩
      let full : DateTime :=
        match rest with
        | sep :: h1 :: h2 :: ':' :: n1 :: n2 :: ':' :: s1 :: s2 :: _ =>
          if (sep = 'T' || sep = ' ') && isDigit h1 && isDigit h2 && isDigit n1 && isDigit n2 && isDigit s1 && isDigit s2 then
            { date with hour := num2 h1 h2, minute := num2 n1 n2, second := num2 s1 s2 }
          else { date with hour := 0, minute := 0, second := 0 }
        | _ => { date with hour := 0, minute := 0, second := 0 }
      if full.valid then some full else none   -- `ValueError` of the constructor is caught: warning + today
    else none
  | _ => none

/-! ## `DT(lemma)`, `.dOpt({...})`, `.nat(v)` -/

/-- a Python argument value, as far as the code distinguishes -/
inductive Val where
  | bool (b : Bool) | str (x : Str) | dt (d : DateTime) | other
  deriving Repr

/-- the `date` attribute of a `DT`: `today` stands for `datetime.datetime.today()` -/
inductive When where
  | today | at (d : DateTime)
  deriving DecidableEq, Repr

structure DT where
  date : When
  opts : DOpts
  /-- number of warnings written so far -/
  warnings : Nat
  deriving Repr

/-- `DT(lemma)` : `Terminal.setLemma`, branch `terminalType=="DT"`; `none` = `None` or `""` -/
def DT.make : Option Val → DT
  | none => ⟨.today, .default, 0⟩
  | some (.str x) =>
    if x = [] then ⟨.today, .default, 0⟩ else
    match parseDateString x with
    | some d => ⟨.at d, .default, 0⟩
    | none => ⟨.today, .default, 1⟩
  | some (.dt d) => ⟨.at d, .default, 0⟩
  | some _ => ⟨.today, .default, 1⟩

def allowedKeys : List Str := [kYear, kMonth, kDate, kDay, kHour, kMinute, kSecond, kNat, kDet, kRtime]

def setBool (o : DOpts) (k : Str) (b : Bool) : DOpts :=
  if k = kYear then { o with year := b } else if k = kMonth then { o with month := b }
  else if k = kDate then { o with date := b } else if k = kDay then { o with day := b }
  else if k = kHour then { o with hour := b } else if k = kMinute then { o with minute := b }
  else if k = kSecond then { o with second := b } else if k = kNat then { o with nat := b }
  else if k = kDet then { o with det := b } else o

/-- the `for key,val in dOptions.items()` loop of `Constituent.dOpt` (DT branch); a `return self.warn(…)` ends it -/
def dOptLoop (t : DT) : List (Str × Val) → DT
  | [] => t
  | (k, v) :: rest =>
    if k ∈ allowedKeys then
      if k = kRtime then
        match v with
        | .bool b => dOptLoop { t with opts := { t.opts with rtime := if b then .today else .off } } rest
        | .str x =>
          match parseDateString x with
          | some d => dOptLoop { t with opts := { t.opts with rtime := .at d } } rest
          | none => dOptLoop { t with opts := { t.opts with rtime := .today }, warnings := t.warnings + 1 } rest
        | .dt d => dOptLoop { t with opts := { t.opts with rtime := .at d } } rest
        | .other => { t with warnings := t.warnings + 1 }
      else
        match v with
        | .bool b => dOptLoop { t with opts := setBool t.opts k b } rest
        | _ => { t with warnings := t.warnings + 1 }
    else { t with warnings := t.warnings + 1 }

inductive Call where
  /-- `.dOpt(x)`; `none` = `x` is not a dict -/
  | dOpt (items : Option (List (Str × Val)))
  /-- `.nat(v)` -/
  | nat (v : Val)
  deriving Repr

def DT.call (t : DT) : Call → DT
  | .dOpt none => { t with warnings := t.warnings + 1 }
  | .dOpt (some items) => dOptLoop t items
  | .nat (.bool b) => { t with opts := { t.opts with nat := b } }
  | .nat _ => { t with warnings := t.warnings + 1 }

/-- outcome of `realize()` -/
inductive Out where
  | text (x : Str)
  | crash (c : Crash)
  /-- the text depends on `datetime.datetime.today()` -/
  | today
  deriving DecidableEq, Repr

/-- `DT.realize()` for a lone `DT` (`real()` → `dateFormat`; `doFormat`/`detokenize` leave a single terminal
    without formatting options unchanged, its realization never starts with a space) -/
def DT.realize (r : DateRules) (t : DT) : Out :=
  match t.date with
  | .today => .today
  | .at d =>
    match t.opts.rtime with
    | .today => .today
    | .off => match dateFormat r d t.opts none with
              | .ok x => .text x
              | .error c => .crash c
    | .at rd => match dateFormat r d t.opts (some rd.toDate) with
                | .ok x => .text x
                | .error c => .crash c

/-- the whole API expression `DT(lemma).c1(…).c2(…)….realize()` : (outcome, number of warnings) -/
def run (r : DateRules) (lemma : Option Val) (calls : List Call) : Out × Nat :=
  let t := calls.foldl DT.call (DT.make lemma)
  (t.realize r, t.warnings)

/-! ## option histories on one `DT` object with realizations in between

`Terminal.real()` recomputes `self.realization = self.dateFormat(self.date, self.getProp("dOpt"))` at every call:
nothing of an earlier realization survives.  The language of a `DT` is that of its class (`TerminalEn` / `TerminalFr`,
chosen at construction from the `lang` argument or the then-current language): the rules used are
`getRules(self.lang())`, whatever language is current when it is realized. -/

inductive Step where
  | call (c : Call)
  /-- `d.realize()`, or the realization of a sentence that contains `d` -/
  | realize
  deriving Repr

/-- the outcomes of the `realize` steps, in order, and the final object -/
def runHist (r : DateRules) (t : DT) : List Step → List Out × DT
  | [] => ([], t)
  | .call c :: rest => runHist r (t.call c) rest
  | .realize :: rest =>
    let (outs, t') := runHist r t rest
    (t.realize r :: outs, t')

end Pyrealb.Date
