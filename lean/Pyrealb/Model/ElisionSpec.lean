import Pyrealb.Model.Elision
/-! Hypotheses of the C06 theorems, as decidable predicates on the INPUT token list of one `doElision` call
    (they are also evaluated by the harness on every captured real call). -/
namespace Pyrealb.Elision
open Pyrealb Pyrealb.Gen.Elision

/-- `TokWF`: the realization is a string, the lexicon answered the aspirated-h question (no AttributeError path),
    and it gave the same answer for the first word and for the raw realization (true whenever the lemma is a `str`) -/
def tokWF (t : Tok) : Bool := t.real.isSome && t.hW != .crash && t.hR == t.hW

def TokWF (toks : List Tok) : Prop := ∀ t ∈ toks, tokWF t = true

/-- the “backward” clauses F2, F5 (an elided or prevocalic-only form stands only where it may): a precondition on the
    input of a pass — fresh terminals never carry such forms, settled sub-lists satisfy it -/
def bwdPairFr (t1 t2 : Tok) : Bool :=
  match view .fr t1, view .fr t2 with
  | some v1, some v2 =>
    !t1.fr || !noWords v1.rest ||
      ((!isElidedForm v1.w || vowelOrMuteH v2.w t2) &&
       (!isPrevocalicOnly v1.w || (vowelOrMuteH v2.w t2 && !euphExc v2.w)))
  | _, _ => true

def bwdFromFr : Bool → List Tok → Bool
  | _, [] => true
  | _, [_] => true
  | pl, t1 :: t2 :: rest => (pl || bwdPairFr t1 t2) && bwdFromFr t1.lier (t2 :: rest)

/-- side conditions on a window `t1 t2 (t3)` of the input (weakest found; each one is necessary: see the
    `_refuted` witnesses of Props/C06) -/
def tameWinFr (t1 t2 : Tok) (t3 : Option Tok) : Bool :=
  match view .fr t1, view .fr t2 with
  | some v1, some v2 =>
    let nw := noWords v1.rest
    -- (nothing is asked of a window whose first word is not French: the loop skips it)
    !t1.fr ||
    -- (T1, T3 were needed before /repo commits 534aec1, 5847d2f: skip after an elision, KeyError on capitals)
    -- T5: à/de + le/les are written in lower case
    ((!(aDe.contains (lower v1.w) && leLes.contains (lower v2.w) && t2.fr) || (aDe.contains v1.w && leLes.contains v2.w))
    -- T2: the second token of a contractable pair is a single word (nothing is left of it)
    && (!(nw && t2.fr && (contrFr v1.w v2.w).isSome) || (view .fr (t2.setReal (v2.pre ++ strip v2.rest))).isNone)
    -- T4: the result of contracting `t2 t3` does not form a new contractable pair with `t1`
    && (match t3 with
        | some t3 =>
          (match view .fr t3 with
           | some v3 => (match contrFr v2.w v3.w with
                         | some c => !(t2.fr && t3.fr) || (contrFr v1.w c).isNone
                         | none => true)
           | none => true)
        | none => true))
  | _, _ => true

def tameFromFr : Bool → List Tok → Bool
  | _, [] => true
  | _, [_] => true
  | pl, t1 :: t2 :: rest => (pl || tameWinFr t1 t2 rest.head?) && tameFromFr t1.lier (t2 :: rest)

/-- the first word of the token is not an elided / prevocalic-only form (it needs no licensing word to its right) -/
def freshTok (t : Tok) : Bool :=
  match view .fr t with
  | some v => !isElidedForm v.w && !isPrevocalicOnly v.w
  | none => true

/-- the last token of the list is fresh -/
def LastFresh (l : List Tok) : Prop := ∀ t, l.getLast? = some t → freshTok t = true

/-- English: stale `an`, and the pair jumped after `a -> an` / a contraction -/
def bwdPairEn (t1 t2 : Tok) : Bool :=
  match view .en t1, view .en t2 with
  | some v1, some v2 => !(t1.ct == ['D'] && !t1.fr && (v1.w == ['a', 'n'] || v1.w == ['A', 'n'])) || anRule v2.w
  | _, _ => true

def bwdFromEn : List Tok → Bool
  | [] => true
  | [_] => true
  | t1 :: t2 :: rest => bwdPairEn t1 t2 && bwdFromEn (t2 :: rest)

def tameWinEn (contr : Bool) (t1 t2 : Tok) (t3 : Option Tok) : Bool :=
  match view .en t1, view .en t2 with
  | some v1, some v2 =>
    -- the pair jumped after a -> an is already settled
    (!(isArtA t1 v1.w && anRule v2.w) || (match t3 with | some t3 => pairOKEn t2 t3 | none => true))
    -- the second token of a contracted pair is a single word (nothing is left of it)
    && (!(contr && !isArtA t1 v1.w && v1.w != ['c', 'a', 'n', 'n', 'o', 't'] && (contrEn v1.w v2.w).isSome) ||
          (view .en (t2.setReal (v2.pre ++ strip v2.rest))).isNone)
  | _, _ => true

def tameFromEn (contr : Bool) : List Tok → Bool
  | [] => true
  | [_] => true
  | t1 :: t2 :: rest => tameWinEn contr t1 t2 rest.head? && tameFromEn contr (t2 :: rest)

end Pyrealb.Elision
