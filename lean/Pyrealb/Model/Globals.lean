/-! Model of pyrealb's process-global state and of the footprint of every public operation on it
    (src/pyrealb/Lexicon.py, utils.py:13, Constituent.py:73-87).

    `R` is the (opaque) content of one resource — a lexicon or a rule table —, `E` the type of expressions.
    The realizer itself is a PARAMETER `render : Lang → Res R → E → T`: the text as a function of exactly the
    things the property allows it to depend on. That library code writes no other global is what
    `Props/C14.writes_allowed_tbl` establishes on the write inventory regenerated from the source on every run;
    that it READS nothing else is the assumption `A_reads`, monitored by the history-vs-fresh correspondence. -/
namespace Pyrealb.Globals

inductive Lang where
  | en | fr
  deriving DecidableEq, Repr

/-- the four resources held by the module-global `Lexicon` instance -/
structure Res (R : Type) where
  lexEn : R
  lexFr : R
  rulesEn : R
  rulesFr : R

/-- the components of the global state -/
structure State (R : Type) where
  lang : Lang                       -- `__lexicon.lang`
  res : Res R
  pengNO : Nat                      -- `Constituent.pengNO`
  tauxNO : Nat                      -- `Constituent.tauxNO`
  oneOfMem : List (Nat × List Nat)  -- `pyrealb_oneOf_dict`

/-- `Lexicon.__init__`: `self.lang = "en"` -/
def init {R} (r : Res R) : State R := { lang := .en, res := r, pengNO := 0, tauxNO := 0, oneOfMem := [] }

/-- public operations; `E` = expressions (building, realizing, warning about, cloning, serializing them) -/
inductive Op (R E : Type) where
  | loadEn | loadFr
  | loadOther                      -- `load("xx")`: warns (a warning is realized by the library itself), no switch
  | build (e : E)                  -- constructors + options: allocate shared records (counters)
  | realize (e : E)
  | warn (e : E)
  | clone (e : E) | toJSON (e : E) | fromJSON (e : E) | toSource (e : E)
  | oneOf (key : Nat) (mem : List Nat)   -- the new memory for `key` (C20 models its content)
  | lexAdd (l : Option Lang) (f : R → R)     -- addToLexicon / updateLexicon with `lang=l` (`none` = current)

def Op.isManagement {R E} : Op R E → Bool
  | .lexAdd _ _ => true
  | _ => false

def setMem (d : List (Nat × List Nat)) (k : Nat) (v : List Nat) : List (Nat × List Nat) :=
  (k, v) :: d.filter (fun p => p.1 ≠ k)

def updLex {R} (r : Res R) (l : Lang) (f : R → R) : Res R :=
  match l with
  | .en => { r with lexEn := f r.lexEn }
  | .fr => { r with lexFr := f r.lexFr }

/-- what an operation returns that the user can see: a text, or nothing -/
inductive Out (T : Type) where
  | none
  | text (t : T)
  deriving DecidableEq

/-- `cost e` / `costT e`: how many shared records building or transforming `e` allocates (only their number is
    global: `Constituent.pengNO`, `tauxNO`). -/
structure Params (R E T : Type) where
  render : Lang → Res R → E → T
  cost : E → Nat
  costT : E → Nat

def step {R E T} (P : Params R E T) (st : State R) : Op R E → State R × Out T
  | .loadEn => ({ st with lang := .en }, .none)
  | .loadFr => ({ st with lang := .fr }, .none)
  | .loadOther => ({ st with pengNO := st.pengNO + 1 }, .none)        -- `Q(lang).warn(...)`
  | .build e => ({ st with pengNO := st.pengNO + P.cost e, tauxNO := st.tauxNO + P.costT e }, .none)
  | .realize e => ({ st with pengNO := st.pengNO + P.cost e, tauxNO := st.tauxNO + P.costT e },
                   .text (P.render st.lang st.res e))
  | .warn e => ({ st with pengNO := st.pengNO + P.cost e, tauxNO := st.tauxNO + P.costT e }, .none)
  | .clone _ => (st, .none)
  | .toJSON _ => (st, .none)
  | .fromJSON e => ({ st with pengNO := st.pengNO + P.cost e, tauxNO := st.tauxNO + P.costT e }, .none)
  | .toSource _ => (st, .none)
  | .oneOf k m => ({ st with oneOfMem := setMem st.oneOfMem k m }, .none)
  | .lexAdd l f => ({ st with res := updLex st.res (l.getD st.lang) f }, .none)

def run {R E T} (P : Params R E T) (st : State R) : List (Op R E) → State R
  | [] => st
  | o :: os => run P (step P st o).1 os

/-- the language current after a history: the last `loadEn`/`loadFr`, else the initial one -/
def lastLang {R E} (l0 : Lang) : List (Op R E) → Lang
  | [] => l0
  | .loadEn :: os => lastLang .en os
  | .loadFr :: os => lastLang .fr os
  | _ :: os => lastLang l0 os

/-- global-state components, as named in the write inventory -/
inductive Comp where
  | lang | lexicon | counters | oneOfMem
  deriving DecidableEq, Repr

end Pyrealb.Globals
