import Pyrealb.Model.Heap
/-! # `linkProperties` as a list of assignments

`plan h p` mirrors, branch for branch, `Phrase.linkProperties` (Phrase.py:127-238) with the language helpers
`link_DAV_properties`, `check_determiner_cnt`, `link_subj_obj_subordinate`, `linkAttributes`,
`should_try_another_subject`, `check_coordinated_object` of PhraseEn.py / PhraseFr.py, `linkPengWithSubject`
(Phrase.py:240-250), and `Dependent.linkProperties` (Dependent.py:114-189) with the helpers of DependentEn.py /
DependentFr.py.  It reads the TREE (kinds, lemmas, own props, child lists, `parent`, `subject`, `taux` records) and
returns the assignments to `peng`/`taux`/`cod`/`subject` in program order; `Heap.exec` performs them.

FRAGMENT.  `none` = outside the modelled fragment:
* a Phrase with a Dependent child or a Dependent with a non-Dependent child / without terminal;
* a `mod`/`comp` dependent whose terminal is a relative pronoun of `relative_pronouns_propagate`
  (`setPengRecursive`).
Everything else of the two functions is mirrored, for every kind of Phrase (NP, VP, PP, AP, AdvP, CP, S, SP) and of
Dependent (root, subj, det, mod, comp, coord). -/
namespace Pyrealb.Heap
open Pyrealb

def findIdxFrom (p : Nat → Bool) : List Nat → Nat → Option Nat
  | [], _ => none
  | x :: r, i => if p x then some i else findIdxFrom p r (i + 1)

namespace Heap

/-- `Phrase.getIndex(constTypes, start)` : `none` = -1 -/
def getIndex (h : Heap) (p : Nat) (ks : List Kind) (start : Nat := 0) : Option Nat :=
  findIdxFrom (fun x => h.isA x ks) ((h.kids p).drop start) start

/-- `getConst` of a Terminal (itself or None) or of a Phrase (first child of one of the kinds) -/
def getConst (h : Heap) (x : Nat) (ks : List Kind) : Option Nat :=
  if (h.kind x).isTerminal then (if h.isA x ks then some x else none)
  else match h.getIndex x ks with
    | some i => (h.kids x)[i]?
    | none => none

/-- `Constituent.getFromPath`; a path element is (kinds, contains-the-empty-string = optional) -/
def getFromPath (h : Heap) : Nat → List (List Kind × Bool) → Option Nat
  | x, [] => some x
  | x, (ks, optional) :: rest =>
    match h.getConst x ks with
    | none => if optional && !rest.isEmpty then getFromPath h x rest else none
    | some c => getFromPath h c rest

def lemmaOf (h : Heap) (x : Nat) : Str := (h.node x).lemma
def parentOf (h : Heap) (x : Nat) : Option Nat := (h.node x).parent
def hasProp (h : Heap) (x : Nat) (k : Str) : Bool := (lookup k (h.node x).props).isSome

/-- `NO.grammaticalNumber()` (Terminal.py:162-170, TerminalEn.py:12, TerminalFr.py:9) -/
def gramNumber (h : Heap) (e : Nat) : Val :=
  match lookup nKey (h.node e).props with
  | some v => v
  | none => if (h.node e).ord then .s ['s'] else (h.node e).gram0

end Heap

def possKey : Str := s "poss"
def cntKey : Str := s "cnt"
def ownKey : Str := s "own"
def cKey : Str := s "c"
def posKey : Str := s "pos"
def ppVal : Val := .s (s "pp")
def ipVal : Val := .s (s "ip")
def copulasFr : List Str := [s "être", s "paraître", s "sembler", s "devenir", s "rester"]
def relProsEn : List Str := [s "that", s "who", s "which"]
def relProsFr : List Str := [s "qui", s "que", s "dont", s "où", s "lequel", s "auquel", s "duquel"]
def relPropagateEn : List Str := [s "that", s "who", s "which"]
def relPropagateFr : List Str := [s "qui", s "que", s "lequel", s "auquel", s "duquel"]

/-- a plan under construction: `none` = outside the fragment -/
abbrev Plan := Option (List Act)

def isPP (h : Heap) (e : Nat) : Bool := h.kind e = .V && h.getProp e Heap.tKey == ppVal

/-- `Phrase.linkPengWithSubject(phrase, terminal, subject)` on `self` (Phrase.py; `if not hasattr(subject,"peng"): return None`
    is rendered by non-strict assignments: every call site is behind a test that the subject has a `peng`); the subject's record is `src`
    (Python reads `dyn.peng`).  Returns the assignments and `pt`. -/
def linkPengWithSubject (h : Heap) (self : Nat) (phrase terminal : Kind) (subject : Nat) (dyn : Nat) :
    List Act × Option Nat :=
  if h.kind subject = .Pro && lookup cKey (h.node subject).props == some (.s (s "gen")) then ([], none)
  else match h.getFromPath self [([phrase], false), ([terminal], false)] with
    | some pt =>
      match h.parentOf pt with
      | some pp => ([.setPeng false pp dyn, .setPeng false pt dyn], some pt)
      | none => ([.crash .attributeError], some pt)
    | none =>
      match h.getFromPath self [([terminal], false)] with
      | some pt => ([.setPeng false pt dyn], some pt)
      | none => ([], none)

/-- `PhraseFr.linkAttributes(vpv, vpcp, subject)` (PhraseFr.py:41-70); the English one is `pass` -/
def linkAttributes (h : Heap) (lang : Lang) (vpv : Nat) (vpcp : Option Nat) (subject : Nat) (dyn : Nat) :
    List Act :=
  match lang with
  | .en => []
  | .fr =>
    if copulasFr.contains (h.lemmaOf vpv) then
      match vpcp with
      | some cp =>
        (h.kids cp).flatMap (fun e =>
          if h.kind e = .A then [.setPeng true e dyn]
          else if isPP h e then [.setPeng true e dyn]
          else if h.kind e = .AP then (linkPengWithSubject h e .AP .A subject dyn).1
          else if h.kind e = .VP then
            match h.getConst e [.V] with
            | some v => if h.getProp v Heap.tKey == ppVal then [.setPeng true v dyn] else []
            | none => []
          else [])
      | none =>
        match h.parentOf vpv with
        | none => [.crash .attributeError]
        | some vp =>
          let (acts, attrib) := linkPengWithSubject h vp .AP .A subject dyn
          match attrib with
          | some _ => acts
          | none =>
            let elems := h.kids vp
            match elems.idxOf? vpv with
            | none => acts ++ [.crash .other]
            | some vpvIdx =>
              acts ++ ((elems.drop (vpvIdx + 1)).flatMap (fun e =>
                if isPP h e then [.setPeng true e dyn] else []))
    else []

/-- `link_DAV_properties(e)` of PhraseEn (PhraseEn.py:8-19) / PhraseFr (PhraseFr.py:8-19) on an NP whose record
    is the head's (`src = slot head`, Python reads `self.peng`, `dyn = self`) -/
def linkDAV (h : Heap) (lang : Lang) (self : Nat) (e : Nat) : Plan :=
  match lang with
  | .en =>
    if h.kind e = .D && h.lemmaOf e = s "no" then some [.writeN true self (.s ['p'])]
    else if h.kind e = .A || (h.kind e = .D && !h.hasProp e ownKey) then some [.setPeng true e self]
    else some []
  | .fr =>
    if h.kind e = .A && h.lemmaOf e = s "quelques" then some [.writeN true self (.s ['p'])]
    else if h.kind e = .A || h.kind e = .D then some [.setPeng true e self]
    else if isPP h e then some [.setPeng true e self]
    else some []

/-- concatenation of partial plans -/
def Plan.cat (ps : List Plan) : Plan :=
  ps.foldr (fun p acc => match p, acc with
    | some a, some c => some (a ++ c)
    | _, _ => none) (some [])

/-- the head index of an NP (Phrase.py:134-140) -/
def npHeadIndex (h : Heap) (p : Nat) : Nat :=
  let els := h.kids p
  let hi := (h.getIndex p [.NP, .N]).getD 0
  match els[hi]? with
  | some e0 =>
    if h.kind e0 = .N && (h.getProp e0 possKey).truthy then
      match findIdxFrom (fun x => h.kind x = .N && h.getProp x possKey == Val.none) (els.drop (hi + 1)) (hi + 1) with
      | some i => i
      | none => hi
    else hi
  | none => hi

/-- `link_subj_obj_subordinate(pro, v, subject)` (PhraseEn.py:26-29, PhraseFr.py:24-40) on the NP `p` -/
def linkSubjObjSubordinate (h : Heap) (lang : Lang) (p : Nat) (pro v : Nat) (subject : Option Nat) :
    List Act :=
  let vpcp := h.getFromPath p [([.VP], false), ([.CP], false)]
  match lang with
  | .en =>
    if relProsEn.contains (h.lemmaOf pro) && (subject == none || subject == some pro) then
      [.setPeng true v p] ++ linkAttributes h .en v vpcp p p
    else []
  | .fr =>
    let lem := h.lemmaOf pro
    if (lem = s "qui" || lem = s "lequel") && subject == some pro then
      [.setPeng true v p] ++ (if lem = s "lequel" then [.setPeng true pro p] else [])
        ++ linkAttributes h .fr v vpcp p p
    else if lem = s "duquel" || lem = s "auquel" then [.setPeng true pro p]
    else if lem = s "que" then
      [.setCod v p] ++
        (if h.lemmaOf v = s "avoir" then
          match h.parentOf v with
          | none => [.crash .attributeError]
          | some vp =>
            match h.getIndex vp [.V] with
            | none => []      -- idx = -1 : `elements[0]` is looked at; not reachable (v is a V child of vp)
            | some idx =>
              match (h.kids vp)[idx + 1]? with
              | some nxt => if isPP h nxt then [.setCod nxt p] else []
              | none => []
        else [])
    else []

/-- NP branch of `Phrase.linkProperties` (Phrase.py:131-169) -/
def planNP (h : Heap) (p : Nat) : Plan :=
  let lang := (h.node p).lang
  let els := h.kids p
  let hi := npHeadIndex h p
  match els[hi]? with
  | none => some []
  | some hd =>
    let perChild : List Plan := els.zipIdx.map (fun (e, i) =>
      if i = hi then some []
      else if h.kind e = .NO && i < hi then
        some [.writeN true p (h.gramNumber e), .copyG true e p]
      else if h.isA e [.D, .A, .V] then
        Plan.cat [linkDAV h lang p e,
          some (if h.kind e = .D && lang = .en && h.lemmaOf e = s "a" && h.getProp hd cntKey == .s (s "no")
                then [.morphoError e] else [])]
      else if h.kind e = .CP then
        some ([.setPeng true e p] ++
          (h.kids e).flatMap (fun el => if h.isA el [.A, .NO] then [.setPeng true el p] else []))
      else if h.isA e [.AP, .AdvP] then
        Plan.cat ((h.kids e).map (fun el => linkDAV h lang p el))
      else some [])
    let rel : List Act :=
      match h.getFromPath p [([.S, .SP], false), ([.Pro], false)] with
      | none => []
      | some pro =>
        match h.parentOf pro with
        | none => [.crash .attributeError]
        | some sp =>
          match h.getFromPath sp [([.VP], false), ([.V], false)] with
          | none => []
          | some v =>
            -- `getattr(pro.parentConst,"subject",None)`: a missing attribute reads as None
            linkSubjObjSubordinate h lang p pro v (match h.subject sp with | none => none | some subject => subject)
    Plan.cat ([some [.guardHas hd, .setPeng true p hd]] ++ perChild ++ [some rel])

/-- VP branch (Phrase.py:170-176): `if hasattr(head_elem,"peng"): self.peng = head_elem.peng` -/
def planVP (h : Heap) (p : Nat) : Plan :=
  let hi := (h.getIndex p [.VP, .V]).getD 0
  match (h.kids p)[hi]? with
  | none => some []
  | some hd => some [.setPeng false p hd, .setTaux false p hd]

/-- AdvP / PP / AP branch (Phrase.py:176-179) -/
def planXP (h : Heap) (p : Nat) (termKind : Kind) : Plan :=
  let hi := (h.getIndex p [h.kind p, termKind]).getD 0
  match (h.kids p)[hi]? with
  | none => some []
  | some hd => some [.setPeng false p hd]

/-- `should_try_another_subject(lemma, iSubj)` (PhraseEn.py / PhraseFr.py, since fd8fe7a) -/
def shouldTryAnotherSubject (h : Heap) (lang : Lang) (p : Nat) (lem : Str) (iSubj : Nat) : Bool :=
  -- `any(e.isA("NP","N","CP","Pro") for e in self.elements[iSubj+1:])`
  let another := ((h.kids p).drop (iSubj + 1)).any (fun x => h.isA x [.NP, .N, .CP, .Pro])
  match lang with
  | .en => lem = s "that" || ((lem = s "which" || lem = s "who" || lem = s "whom") && another)
  | .fr => lem = s "que" || lem = s "où" || lem = s "dont" ||
      ((lem = s "qui" || lem = s "lequel") && iSubj > 0 &&
        (match (h.kids p)[iSubj - 1]? with
         | some e => h.kind e = .P
         | none => false)) ||
      ((lem = s "auquel" || lem = s "duquel") && another)

/-- S / SP branch (Phrase.py:190-235) -/
def planS (h : Heap) (p : Nat) : Plan :=
  let lang := (h.node p).lang
  let els := h.kids p
  let subjKinds : List Kind := [.NP, .N, .CP, .Pro]
  let vpv := h.getFromPath p [([.VP], true), ([.V], false)]
  let pre : List Act := match vpv with
    | some v => [.setTaux true p v]
    | none => []
  if (match vpv with | some v => h.getProp v Heap.tKey == ipVal | none => false) then some pre
  else
    let pre := pre ++ [.setSubject p none]
    match h.getIndex p subjKinds with
    | none => some pre
    | some iSubj =>
      match els[iSubj]? with
      | none => some pre
      | some subject0 =>
        -- determine the subject
        let chosen : Option (Nat × List Act) :=
          if h.kind p = .SP && h.kind subject0 = .Pro then
            if shouldTryAnotherSubject h lang p (h.lemmaOf subject0) iSubj then
              match findIdxFrom (fun x => h.isA x subjKinds) (els.drop (iSubj + 1)) (iSubj + 1) with
              | some j =>
                match els[j]? with
                | some sj => some (sj, [.setSubject p (some sj)])
                | none => none
              | none => none
            else some (subject0, [.setSubject p (some subject0)])
          else some (subject0, [])
        match chosen with
        | none => some pre
        | some (subject, sacts) =>
          let (lacts, vpv2) := linkPengWithSubject h p .VP .V subject subject
          let tail : List Act :=
            match vpv2 with
            | some v =>
              [.setTaux true p v] ++
                linkAttributes h lang v (h.getFromPath p [([.VP], false), ([.CP], false)]) subject subject
            | none =>
              let cvs : List Act :=
                -- every CP other than the subject that contains a VP: each phrase element is linked to the subject,
                -- and the attributes of its verb too
                els.flatMap (fun cp =>
                  if h.kind cp = .CP && cp != subject && (h.getConst cp [.VP]).isSome then
                    (h.kids cp).flatMap (fun e =>
                      if (h.kind e).isPhrase then
                        let (la, v) := linkPengWithSubject h e .VP .V subject subject
                        la ++ (match v with
                          | some v => linkAttributes h lang v (h.getFromPath e [([.CP], false)]) subject subject
                          | none => [])
                      else [])
                  else [])
              let cco : List Act :=
                match lang with
                | .en => []
                | .fr =>
                  match h.getConst p [.CP], h.getConst p [.SP] with
                  | some cp, some sp =>
                    match h.getConst sp [.Pro] with
                    | some sppro =>
                      if h.lemmaOf sppro = s "que" then
                        match h.getFromPath sp [([.VP], true), ([.V], false)] with
                        | some v => [.setCod v cp]
                        | none => []
                      else []
                    | none => []
                  | _, _ => []
              cvs ++ cco
          some (pre ++ sacts ++ [.guardHas subject, .setPeng true p subject] ++ lacts ++ tail)

/-- `Phrase.linkProperties` -/
def planPhrase (h : Heap) (p : Nat) : Plan :=
  let els := h.kids p
  if els.isEmpty then some []
  else if els.any (fun e => (h.kind e).isDep) then none
  else match h.kind p with
    | .NP => planNP h p
    | .VP => planVP h p
    | .AdvP => planXP h p .Adv
    | .PP => planXP h p .P
    | .AP => planXP h p .A
    | .CP => some [.fresh p true]
    | .S | .SP => planS h p
    | _ => none

/-! ### Dependents -/

/-- `Dependent.findIndex(test, start=0)` -/
def depFindIndex (h : Heap) (p : Nat) (test : Nat → Bool) : Option Nat :=
  findIdxFrom (fun d =>
    (h.kind d = .coord && (match (h.kids d).head? with | some d0 => test d0 | none => false)) || test d)
    (h.kids p) 0

def termKindIs (h : Heap) (d : Nat) (ks : List Kind) : Bool :=
  match (h.node d).term with
  | some t => h.isA t ks
  | none => false

def termLemma (h : Heap) (d : Nat) : Str :=
  match (h.node d).term with
  | some t => h.lemmaOf t
  | none => []

/-- the contribution of one dependent `dep` to `Dependent.linkProperties` of `p`; returns the assignments -/
def planDepStep (h : Heap) (p headTerm : Nat) (dep : Nat) : Option (List Act) :=
  let lang := (h.node p).lang
  match (h.node dep).term with
  | none => none
  | some depTerm =>
    match h.kind dep with
    | .subj =>
      if h.kind headTerm = .V then some [.setPeng true headTerm dep] else some []
    | .det =>
      if h.kind depTerm = .D then
        some ([.setPeng false depTerm p] ++
          (if lang = .en && h.lemmaOf depTerm = s "a" && h.getProp headTerm cntKey == .s (s "no")
           then [.morphoError depTerm] else []))
      else if h.kind depTerm = .NO then
        some ([.setPeng true depTerm headTerm, .writeN true depTerm (h.gramNumber depTerm)])
      else some ([])
    | .mod | .comp =>
      if h.kind depTerm = .A || isPP h depTerm then
        let la : List Act :=
          match lang with
          | .en => []
          | .fr =>
            if copulasFr.contains (h.lemmaOf headTerm) then
              match depFindIndex h p (fun d0 => h.kind d0 = .subj && termKindIs h d0 [.N, .Pro]) with
              | some iSubj =>
                match (h.kids p)[iSubj]? with
                | some sd => [.setPeng true depTerm sd]
                | none => []
              | none => []
            else []
        some ([.setPeng false depTerm p] ++ la)
      else if h.kind depTerm = .V then
        let rels := match lang with | .en => relProsEn | .fr => relProsFr
        let iRel := depFindIndex h dep (fun dI => h.isA dI [.subj, .comp, .mod] && termKindIs h dI [.Pro] &&
                                                   rels.contains (termLemma h dI))
        let a1 : List Act :=
          match iRel with
          | some i =>
            (match (h.kids dep)[i]? with
             | some dr => if h.kind dr = .subj then [.setPeng true depTerm p] else []
             | none => []) ++
            (match lang with
             | .en => []
             | .fr =>
               [.setCod depTerm headTerm] ++
                 (if h.lemmaOf depTerm = s "avoir" then
                   match depFindIndex h dep (fun dI => h.kind dI = .comp && termKindIs h dI [.V] &&
                        (match (h.node dI).term with | some t => h.getProp t Heap.tKey == ppVal | none => false)) with
                   | some iVerb =>
                     match (h.kids dep)[iVerb]? with
                     | some dv => (match (h.node dv).term with | some t => [.setCod t headTerm] | none => [])
                     | none => []
                   | none => []
                 else []))
          | none => []
        let a2 : List Act :=
          match lang with
          | .en => []
          | .fr => if h.getProp depTerm Heap.tKey == ppVal then [.setPeng true depTerm p] else []
        some (a1 ++ a2)
      else if h.kind depTerm = .Pro &&
          (match lang with | .en => relPropagateEn | .fr => relPropagateFr).contains (h.lemmaOf depTerm) then none
      else some ([])
    | .root => some ([])
    | .coord =>
      match (h.kids dep).head? with
      | none => some ([])
      | some firstDep =>
        if h.kind firstDep = .subj then some ([.setPeng true dep p])
        else if h.kind firstDep = .det then some ([.setPeng true dep headTerm])
        else if h.isA firstDep [.mod, .comp] && termKindIs h firstDep [.V, .A] then
          some ([.setPeng false dep headTerm] ++
            (h.kids dep).flatMap (fun dI =>
              [.setPeng false dI headTerm] ++
                (match (h.node dI).term with
                 | some t => [.setPeng false t headTerm]
                 | none => [.crash .attributeError])))
        else some ([])
    | _ => none

def planDepLoop (h : Heap) (p headTerm : Nat) : List Nat → Plan
  | [] => some []
  | dep :: rest =>
    match planDepStep h p headTerm dep with
    | none => none
    | some acts =>
      match planDepLoop h p headTerm rest with
      | none => none
      | some more => some (acts ++ more)

/-- `Dependent.linkProperties` -/
def planDep (h : Heap) (p : Nat) : Plan :=
  let deps := h.kids p
  if deps.isEmpty then some []
  else if deps.any (fun d => !(h.kind d).isDep) then none
  else match (h.node p).term with
    | none => none
    | some headTerm =>
      match planDepLoop h p headTerm deps with
      | none => none
      | some acts =>
        some ((if h.kind p = .coord then [.fresh p true, .setPeng true headTerm p] else []) ++ acts)

/-- `x.linkProperties()` -/
def plan (h : Heap) (p : Nat) : Plan :=
  if (h.kind p).isPhrase then planPhrase h p
  else if (h.kind p).isDep then planDep h p
  else none

/-- run `linkProperties` on `p`: `none` = outside the fragment -/
def link (h : Heap) (p : Nat) : Option (Except Crash Heap) :=
  match plan h p with
  | none => none
  | some acts => some (exec h acts)

end Pyrealb.Heap
