import Pyrealb.Model.ElisionSpec
/-! The abstract realization fold of a French tree, as far as elision is concerned:

      real(leaf ts)        = ts
      real(node id cs)     = format id (doElisionFr (place id (concat (map real cs))))

  (`Phrase.real` / `Dependent.real`: the children's terminal lists are concatenated, `doFormat` removes empty
  tokens and places the clitic pronouns — `place` —, calls `doElision`, then wraps the first / last token with
  punctuation, tags, capitals — `format`.)  `place` and `format` are parameters: the theorems of Props/C06 hold for
  ANY functions satisfying `PlaceOK` / `FormatOK`.  The relation also collects the inputs of every `doElision`
  call of the fold (`ins`) and the leaves (`lvs`), on which the side conditions are stated. -/
namespace Pyrealb.Elision
open Pyrealb

inductive Tree where
  | leaf (toks : List Tok)
  | node (id : Nat) (children : List Tree)

mutual
/-- `Real place format t out ins lvs cats`: the tree `t` realizes as the token list `out`; `ins` = the inputs of the
    `doElision` calls, `lvs` = the leaves, `cats` = (node, concatenated children) handed to `place` -/
inductive Real (place format : Nat → List Tok → List Tok) :
    Tree → List Tok → List (List Tok) → List (List Tok) → List (Nat × List Tok) → Prop
  | leaf (ts : List Tok) : Real place format (.leaf ts) ts [] [ts] []
  | node (id : Nat) (cs : List Tree) (cat out : List Tok) (ins lvs : List (List Tok)) (cats : List (Nat × List Tok)) :
      RealAll place format cs cat ins lvs cats → doElisionFr (place id cat) = .ok out →
      Real place format (.node id cs) (format id out) (place id cat :: ins) lvs ((id, cat) :: cats)
/-- the concatenation of the realizations of a list of children -/
inductive RealAll (place format : Nat → List Tok → List Tok) :
    List Tree → List Tok → List (List Tok) → List (List Tok) → List (Nat × List Tok) → Prop
  | nil : RealAll place format [] [] [] [] []
  | cons (c : Tree) (cs : List Tree) (a b : List Tok) (i1 i2 l1 l2 : List (List Tok)) (c1 c2 : List (Nat × List Tok)) :
      Real place format c a i1 l1 c1 → RealAll place format cs b i2 l2 c2 →
      RealAll place format (c :: cs) (a ++ b) (i1 ++ i2) (l1 ++ l2) (c1 ++ c2)
end

/-- what `format` may do to a token: anything that keeps its first word, whether other words follow it in the
    token, and the fields `doElision` reads (prefixing / suffixing material that `sepWordREC` skips) -/
def SameView (t t' : Tok) : Prop :=
  t'.ct = t.ct ∧ t'.lier = t.lier ∧ t'.sg = t.sg ∧ t'.hW = t.hW ∧ t'.hR = t.hR ∧ t'.real.isSome = t.real.isSome ∧
  t'.fr = t.fr ∧
  (match view .fr t, view .fr t' with
   | none, none => True
   | some v, some v' => v'.w = v.w ∧ noWords v'.rest = noWords v.rest
   | _, _ => False)

inductive All2 (R : Tok → Tok → Prop) : List Tok → List Tok → Prop
  | nil : All2 R [] []
  | cons {a b : Tok} {l l' : List Tok} : R a b → All2 R l l' → All2 R (a :: l) (b :: l')

/-- the invariant of a realized sub-tree: well-formed, settled, last token fresh -/
def InvOut (l : List Tok) : Prop := TokWF l ∧ settled .fr l = true ∧ LastFresh l
/-- the precondition of a pass: well-formed, no stale elided form, last token fresh -/
def InvIn (l : List Tok) : Prop := TokWF l ∧ bwdFromFr false l = true ∧ LastFresh l

/-- `place` may insert, delete and permute tokens but never separates a token that a lower level elided /
    contracted from the word that licenses it (and what it inserts is well-formed and fresh) -/
def PlaceOK (place : Nat → List Tok → List Tok) : Prop := ∀ id l, InvIn l → InvIn (place id l)

/-- the same, only at the lists actually handed to `place` in a given fold -/
def PlaceOKAt (place : Nat → List Tok → List Tok) (cats : List (Nat × List Tok)) : Prop :=
  ∀ p ∈ cats, InvIn p.2 → InvIn (place p.1 p.2)

/-- `format` only prefixes / suffixes material that `sepWordREC` skips -/
def FormatOK (format : Nat → List Tok → List Tok) : Prop := ∀ id l, All2 SameView l (format id l)

end Pyrealb.Elision
