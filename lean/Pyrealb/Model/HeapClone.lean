import Pyrealb.Model.HeapOps
/-! # `clone` and caller-owned argument objects (C13)

`Constituent.clone` is `copy.deepcopy(self)` (Constituent.py:449-451): everything reachable from the receiver is copied
ONCE (deepcopy's memo), so the whole connected tree — `parentConst` is an attribute like the others — is duplicated,
the sharing of `peng`/`taux` records and the back references `cod`/`subject` inside the copy are preserved, and no
pointer leads from the copy to the original.  `cloneRegion h C` copies the nodes `C` (a closed set, sorted by handle) to
the fresh handles `h.n, h.n+1, …` (in the order of `C`) and the records they point to to fresh records.

Caller-owned objects (`Cell`): the dict given to `typ` / `dOpt` / `tag`, the list given to a constructor or to `add`.
The operations READ the cell and work on a copy (`typ`: `types=dict(types)`, Constituent.py; `tag`: `dict(attrs)`; `dOpt`:
key by key; constructors: `_getElems` builds a new list; `add(list,pos)` iterates): the store holds values, never a
reference to a cell, and no operation writes a cell. -/
namespace Pyrealb.Heap
open Pyrealb Pyrealb.GetElems

/-- position of `y` in `C` (`C.length` when absent) -/
def idxIn (C : List Nat) (y : Nat) : Nat := C.idxOf y

/-- distinct records pointed to by the nodes of `C`, in order of first occurrence -/
def recsOf (f : Nat → Option Nat) (C : List Nat) : List Nat := (C.filterMap f).eraseDups

structure CloneMaps where
  C : List Nat          -- the copied nodes
  R : List Nat          -- the copied peng records
  T : List Nat          -- the copied taux records
  base : Nat            -- first fresh handle
  rbase : Nat
  tbase : Nat

def CloneMaps.ρ (m : CloneMaps) (y : Nat) : Nat := m.base + idxIn m.C y
def CloneMaps.σ (m : CloneMaps) (r : Nat) : Nat := ownRec (m.rbase + idxIn m.R r)
def CloneMaps.τ (m : CloneMaps) (r : Nat) : Nat := m.tbase + idxIn m.T r

def cloneMaps (h : Heap) (C : List Nat) : CloneMaps :=
  { C := C, R := recsOf h.peng C, T := recsOf h.taux C, base := h.n, rbase := h.nRec, tbase := h.nTRec }

/-- the copy of one node -/
def mapNode (m : CloneMaps) (nd : Node) : Node :=
  { nd with kids := nd.kids.map m.ρ, term := nd.term.map m.ρ, parent := nd.parent.map m.ρ }

/-- deep copy of the region `C` -/
def cloneRegion (h : Heap) (C : List Nat) : Heap :=
  let m := cloneMaps h C
  let inN (i : Nat) : Option Nat := if m.base ≤ i then C[i - m.base]? else none
  let inR (i : Nat) : Option Nat := if i % 2 = 0 ∧ m.rbase ≤ i / 2 then m.R[i / 2 - m.rbase]? else none
  let inT (i : Nat) : Option Nat := if m.tbase ≤ i then m.T[i - m.tbase]? else none
  { h with
    n := h.n + C.length
    node := fun i => match inN i with | some x => mapNode m (h.node x) | none => h.node i
    peng := fun i => match inN i with | some x => (h.peng x).map m.σ | none => h.peng i
    taux := fun i => match inN i with | some x => (h.taux x).map m.τ | none => h.taux i
    cod := fun i => match inN i with | some x => (h.cod x).map m.ρ | none => h.cod i
    subject := fun i => match inN i with | some x => (h.subject x).map (Option.map m.ρ) | none => h.subject i
    prec := fun i => match inR i with | some r => h.prec r | none => h.prec i
    trec := fun i => match inT i with | some r => h.trec r | none => h.trec i
    nRec := h.nRec + m.R.length
    nTRec := h.nTRec + m.T.length }

/-- `x.clone()` : the new store and the handle of the copy of `x` -/
def clone (h : Heap) (x : Nat) : R (Heap × Nat) :=
  match closure h x with
  | none => .outside
  | some C => .ok (cloneRegion h C, (cloneMaps h C).ρ x)

/-! ### caller-owned argument objects -/

inductive Cell where
  | dict (d : Dict)                 -- a `dict` (typ / dOpt / tag attributes)
  | list (l : List (Arg Item))      -- a `list` of children (constructor / add)
  deriving Repr

/-- a store together with the caller's objects -/
structure World where
  heap : Heap := {}
  cells : List Cell := []
  deriving Inhabited

/-- operations whose argument is a caller-owned object (by index) -/
inductive COp where
  | op (o : Op)                                   -- an operation without caller object
  | clone (x : Nat)
  | typC (x : Nat) (a : Nat)                      -- `x.typ(cell a)`
  | mkPC (k : Kind) (lang : Lang) (a : Nat)       -- `Phrase(*cell a)` / `Phrase(cell a)`
  | addC (p : Nat) (a : Nat) (pos : Option Int)   -- `p.add(cell a, pos)`
  | newCell (c : Cell)                            -- the caller creates an object
  | mutCell (a : Nat) (c : Cell)                  -- the caller mutates its object
  deriving Repr

/-- one step; the cells are read, never written by the library (`mutCell` is the caller's own doing) -/
def runCOp (w : World) : COp → R World
  | .op o => match runOp w.heap o with
    | .ok h => .ok { w with heap := h }
    | .crash c => .crash c
    | .outside => .outside
  | .clone x => if x ≥ w.heap.n then .outside else
    match clone w.heap x with
    | .ok r => .ok { w with heap := r.1 }
    | .crash c => .crash c
    | .outside => .outside
  | .typC x a =>
    match w.cells[a]? with
    | some (.dict d) => (match runOp w.heap (.typ x (.dict d)) with
      | .ok h => .ok { w with heap := h } | .crash c => .crash c | .outside => .outside)
    | _ => .outside
  | .mkPC k lang a =>
    match w.cells[a]? with
    | some (.list l) => (match runOp w.heap (.mkP k lang [.list l]) with
      | .ok h => .ok { w with heap := h } | .crash c => .crash c | .outside => .outside)
    | _ => .outside
  | .addC p a pos =>
    match w.cells[a]? with
    | some (.list l) => (match runOp w.heap (.add p (.list l) pos) with
      | .ok h => .ok { w with heap := h } | .crash c => .crash c | .outside => .outside)
    | _ => .outside
  | .newCell c => .ok { w with cells := w.cells ++ [c] }
  | .mutCell a c => if a < w.cells.length then .ok { w with cells := w.cells.set a c } else .outside

def runCOps : World → List COp → R World
  | w, [] => .ok w
  | w, o :: os =>
    match runCOp w o with
    | .ok w' => runCOps w' os
    | .crash c => .crash c
    | .outside => .outside

/-- is the step an action of the library (as opposed to the caller creating / mutating its own object)? -/
def COp.isLibrary : COp → Bool
  | .newCell _ => false
  | .mutCell _ _ => false
  | _ => true

end Pyrealb.Heap
