import Pyrealb.Model.Basic
import Pyrealb.Gen.OptionTable
/-! # Expression trees of pyrealb with their option STATE (`props`) and option call HISTORY (`optSource`)

Mirrors, for what serialization reads and writes:
* `Constituent.__init__` (props, optSource), `setProp`, `addOptSource`, `tag`, `dOpt`, `nat`, `maje`, `typ`,
  `makeOptionMethod`, `makeOptionListMethod`                       (Constituent.py)
* `Terminal.__init__/setLemma` (lexicon-derived props, `NO`/`DT` defaults, numbers written in letters)  (Terminal.py:29-154)
* `Phrase.__init__/addElement/add` (children, position, adjective re-ordering)       (Phrase.py:6-112)
* `Dependent.__init__/addDependent/add`                                              (Dependent.py:7-110)
`peng`/`taux` sharing and realization are NOT modelled: the abstraction compared by the C12 theorems is the tree
with kinds, lemmata, languages, lexicon entries used and `props` (assumption A_abs: it determines the realization;
checked on the implementation by the direct oracle of harness/props/C12.py).

The lexicons are a parameter (`Env`): what `getLemma(lemma, lang)` returns. Warnings are counted
(second component); an expression "built without warnings" is one whose count is 0. -/
namespace Pyrealb.Expr
open Pyrealb

inductive Lang where
  | en | fr
  deriving DecidableEq, Repr, Inhabited

def Lang.code : Lang → Str
  | .en => s "en"
  | .fr => s "fr"

/-- atomic Python values that occur as lemma, option value, or inside `typ`/`dOpt`/tag attributes;
    `dt` is a `datetime.datetime` (microsecond 0) -/
inductive Atom where
  | none
  | bool (b : Bool)
  | int (i : Int)
  | str (x : Str)
  | dt (y mo d h mi sec : Nat)
  deriving DecidableEq, Repr, Inhabited

/-- Python `==` between atoms (`True == 1`, `False == 0`) : what `val in validVals` uses -/
def Atom.pyEq : Atom → Atom → Bool
  | .bool a, .int i => (if a then (1 : Int) else 0) = i
  | .int i, .bool a => (if a then (1 : Int) else 0) = i
  | a, b => a = b

def Atom.isBool : Atom → Bool
  | .bool _ => true
  | _ => false

/-- `isinstance(x, int)` : a Python bool is an int -/
def Atom.isInt : Atom → Bool
  | .bool _ => true
  | .int _ => true
  | _ => false

/-- values of props and arguments of option calls -/
inductive PVal where
  | atom (a : Atom)
  | dict (d : List (Str × Atom))                      -- `typ`, `dOpt`, tag attributes
  | list (l : List Atom)                              -- `a`, `b`, `ba`, `en`; lexicon `pat`
  | tags (l : List (Str × List (Str × Atom)))         -- `tag` : `[[name, attrs], …]`
  deriving DecidableEq, Repr, Inhabited

/-- one entry of `optSource` -/
inductive Call where
  | opt (name : Str) (arg : PVal)                      -- `.name(repr(arg))`
  | tag2 (name : Str) (attrs : List (Str × Atom))      -- `.tag("name",str(attrs))`
  deriving DecidableEq, Repr, Inhabited

/-- what `Terminal.setLemma` reads in the lexicon entry `lexicon[lemma][kind]` (items in file order) and in the
    declension table: `tabPe` = person of a pronoun whose table has a single person ≠ 3, `plural` = table in
    `noun_always_plural()`; `id` identifies the entry (table, stem: what realization uses) -/
structure LexInfo where
  items : List (Str × PVal)
  tabPe : Option Int
  plural : Bool
  /-- the table of the entry is missing from the rules, or the lemma does not end with the table's ending:
      `bad lexicon table` is warned (the props are set nevertheless) -/
  warn : Bool
  id : Str
  deriving DecidableEq, Repr, Inhabited

/-- the lexicons as seen by `setLemma`: `getLemma(lemma, self.lang())[kind]` — the lexicon (and rules) of the language
    of the Terminal object (since the repair 8586a6a; before it, the lexicon of the CURRENT language was consulted) -/
structure Env where
  lex : Lang → Str → Str → Option LexInfo
  /-- `getLemma(lemma, self.lang())["value"]` of a number written in letters, and whether the entry is also an
      adjective (ordinal) -/
  noWord : Lang → Str → Option (Int × Bool)

structure Node where
  kind : Str
  lang : Lang
  props : List (Str × PVal)
  hist : List Call
  deriving DecidableEq, Repr, Inhabited

inductive Expr where
  | term (n : Node) (lemma : Atom) (info : Option LexInfo)
  | phr (n : Node) (elems : List Expr)
  | dep (n : Node) (t : Expr) (deps : List Expr)
  deriving Repr, Inhabited

def Expr.node : Expr → Node
  | .term n _ _ => n
  | .phr n _ => n
  | .dep n _ _ => n

def Expr.setNode (n : Node) : Expr → Expr
  | .term _ l i => .term n l i
  | .phr _ es => .phr n es
  | .dep _ t ds => .dep n t ds

abbrev Expr.kind (e : Expr) : Str := e.node.kind
abbrev Expr.lang (e : Expr) : Lang := e.node.lang
abbrev Expr.props (e : Expr) : List (Str × PVal) := e.node.props

/-! ### tables (generated from the source) -/

def litAtom : Gen.OptionTable.Lit → Atom
  | .str x => .str x.toList
  | .int n => .int n
  | .bool b => .bool b

structure Spec where
  name : Str
  valid : List Atom
  allowed : List Str
  prop : Str
  deriving Repr, DecidableEq

def specOf (o : Gen.OptionTable.OptSpec) : Spec :=
  { name := o.name.toList, valid := o.valid.map litAtom, allowed := o.allowed.map String.toList, prop := o.prop.toList }

def specs : List Spec := Gen.OptionTable.options.map specOf
def listMethods : List Str := Gen.OptionTable.optionListMethods.map String.toList
def deprels : List Str := Gen.OptionTable.deprels.map String.toList
def noPropagate : List Str := Gen.OptionTable.noPropagate.map String.toList
def typAllowed : List (Str × List Atom) := Gen.OptionTable.typAllowed.map (fun p => (p.1.toList, p.2.map litAtom))
def typKinds : List Str := Gen.OptionTable.typKinds.map String.toList
def dOptKeysDT : List Str := Gen.OptionTable.dOptKeysDT.map String.toList
def dOptKeysNO : List Str := Gen.OptionTable.dOptKeysNO.map String.toList
def natKinds : List Str := Gen.OptionTable.natKinds.map String.toList
def majeKinds : List Str := Gen.OptionTable.majeKinds.map String.toList
def dOptDefaultDT : List (Str × Atom) := Gen.OptionTable.dOptDefaultDT.map (fun p => (p.1.toList, litAtom p.2))
def dOptDefaultNO : List (Str × Atom) := Gen.OptionTable.dOptDefaultNO.map (fun p => (p.1.toList, litAtom p.2))
def lexKinds : List Str := Gen.OptionTable.lexKinds.map String.toList

def findSpec (name : Str) : Option Spec := specs.find? (fun sp => sp.name = name)

/-! ### dictionaries with Python's insertion order -/

/-- `d[k] = v` -/
def setKey {α} (k : Str) (v : α) : List (Str × α) → List (Str × α)
  | [] => [(k, v)]
  | (k', v') :: r => if k' = k then (k, v) :: r else (k', v') :: setKey k v r

/-- `del d[k]` -/
def delKey {α} (k : Str) : List (Str × α) → List (Str × α)
  | [] => []
  | (k', v') :: r => if k' = k then r else (k', v') :: delKey k r

/-- `d.update(u)` -/
def updateDict {α} (d u : List (Str × α)) : List (Str × α) :=
  u.foldl (fun acc kv => setKey kv.1 kv.2 acc) d

def Node.setProp (n : Node) (k : Str) (v : PVal) : Node := { n with props := setKey k v n.props }
def Node.addHist (n : Node) (c : Call) : Node := { n with hist := n.hist ++ [c] }

def Expr.setProp (e : Expr) (k : Str) (v : PVal) : Expr := e.setNode (e.node.setProp k v)
def Expr.addHist (e : Expr) (c : Call) : Expr := e.setNode (e.node.addHist c)

/-! ### `makeOptionMethod` (Constituent.py:503-540) -/

/-- the part after the CP/coord propagation: lines 524-538 -/
def optLocal (sp : Spec) (val : Option Atom) (prog : Bool) (e : Expr) : Expr × Nat :=
  if sp.allowed.isEmpty || sp.allowed.contains e.kind || deprels.contains e.kind then
    match val with
    | none =>
      -- `"" in validVals` was established by the caller ; `val = True`
      let e1 := e.setProp sp.prop (.atom (.bool true))
      (if prog then e1 else e1.addHist (.opt sp.name (.atom (.bool true))), 0)
    | some v =>
      if sp.valid.any (fun x => x.pyEq v) then
        let e1 := e.setProp sp.prop (.atom v)
        (if prog then e1 else e1.addHist (.opt sp.name (.atom v)), 0)
      else if sp.valid.any (fun x => x.pyEq (.bool false)) then
        let e1 := e.setProp sp.prop (.atom (.bool false))
        (if prog then e1 else e1.addHist (.opt sp.name (.atom (.bool false))), 1)
      else (e, 1)
  else (e, 1)

mutual
/-- `getattr(e, option)(val, prog)` -/
def optM (sp : Spec) (val : Option Atom) (prog : Bool) : Expr → Expr × Nat
  | .term n l i =>
    if val.isNone && !(sp.valid.contains (.str [])) then (.term n l i, 1)
    else optLocal sp val prog (.term n l i)
  | .phr n es =>
    if val.isNone && !(sp.valid.contains (.str [])) then (.phr n es, 1)
    else if n.kind = s "CP" && !(noPropagate.contains sp.name) then
      -- the source records the method name (since repair b0f13e0), the children get the option without source
      let n1 := if prog then n else n.addHist (.opt sp.name (.atom (val.getD .none)))
      let r := optElems sp val es
      (.phr n1 r.1, r.2)
    else optLocal sp val prog (.phr n es)
  | .dep n t ds =>
    if val.isNone && !(sp.valid.contains (.str [])) then (.dep n t ds, 1)
    else if n.kind = s "coord" && !(noPropagate.contains sp.name) then
      let n1 := if prog then n else n.addHist (.opt sp.name (.atom (val.getD .none)))
      let r := optDeps sp val ds
      (.dep n1 t r.1, r.2)
    else optLocal sp val prog (.dep n t ds)
/-- `for e in self.elements: if len(allowedConsts)==0 or e.isA(allowedConsts): getattr(e,option)(val,True)` -/
def optElems (sp : Spec) (val : Option Atom) : List Expr → List Expr × Nat
  | [] => ([], 0)
  | c :: r =>
    let r1 := if sp.allowed.isEmpty || sp.allowed.contains c.kind then optM sp val true c else (c, 0)
    let r2 := optElems sp val r
    (r1.1 :: r2.1, r1.2 + r2.2)
/-- `for e in self.dependents: if … e.terminal.isA(allowedConsts): getattr(e.terminal, option)(val, True)` -/
def optDeps (sp : Spec) (val : Option Atom) : List Expr → List Expr × Nat
  | [] => ([], 0)
  | .dep n t ds :: r =>
    let r1 := if sp.allowed.isEmpty || sp.allowed.contains t.kind then optM sp val true t else (t, 0)
    let r2 := optDeps sp val r
    (.dep n r1.1 ds :: r2.1, r1.2 + r2.2)
  | c :: r =>
    let r2 := optDeps sp val r
    (c :: r2.1, r2.2)
end

/-! ### the other option methods -/

/-- `self.props[option]` of a list option (`[]` when absent) -/
def curList (k : Str) (e : Expr) : List Atom :=
  match lookup k e.props with
  | some (.list l) => l
  | _ => []

/-- `self.props["tag"]` (`[]` when absent) -/
def curTags (e : Expr) : List (Str × List (Str × Atom)) :=
  match lookup (s "tag") e.props with
  | some (.tags l) => l
  | _ => []

/-- `makeOptionListMethod` : `a`, `b`, `ba`, `en` -/
def listM (name : Str) (v : Atom) (e : Expr) : Expr × Nat :=
  ((e.setProp name (.list (curList name e ++ [v]))).addHist (.opt name (.atom v)), 0)

/-- `tag(name, attrs=None)` (Constituent.py:150-158) -/
def tagM (name : Atom) (attrs : Option (List (Str × Atom))) (e : Expr) : Expr × Nat :=
  let nm := match name with
    | .str x => x
    | _ => []
  let ats := attrs.getD []
  let e1 := if ats.isEmpty then e.addHist (.opt (s "tag") (.atom name)) else e.addHist (.tag2 nm ats)
  (e1.setProp (s "tag") (.tags (curTags e ++ [(nm, ats)])), 0)

def isDigit (c : Char) : Bool := '0' ≤ c && c ≤ '9'
def digitVal (c : Char) : Nat := c.toNat - '0'.toNat
def natOfDigits (l : Str) : Nat := l.foldl (fun acc c => acc * 10 + digitVal c) 0

/-- `parseDateString` for strings matching `(\d{4}-\d{2}-\d{2})([T ](\d{2}:\d{2}:\d{2}))?` (prefix match);
    `none` = the warning branch (the ranges a `datetime` accepts are NOT modelled: the harness uses valid dates) -/
def parseDate (x : Str) : Option Atom :=
  match x with
  | y1 :: y2 :: y3 :: y4 :: '-' :: m1 :: m2 :: '-' :: d1 :: d2 :: rest =>
    if [y1, y2, y3, y4, m1, m2, d1, d2].all isDigit then
      let y := natOfDigits [y1, y2, y3, y4]
      let mo := natOfDigits [m1, m2]
      let d := natOfDigits [d1, d2]
      match rest with
      | sep :: h1 :: h2 :: ':' :: i1 :: i2 :: ':' :: s1 :: s2 :: _ =>
        if (sep = 'T' || sep = ' ') && [h1, h2, i1, i2, s1, s2].all isDigit then
          some (.dt y mo d (natOfDigits [h1, h2]) (natOfDigits [i1, i2]) (natOfDigits [s1, s2]))
        else some (.dt y mo d 0 0 0)
      | _ => some (.dt y mo d 0 0 0)
    else none
  | _ => none

def getDOpt (e : Expr) : List (Str × Atom) :=
  match lookup (s "dOpt") e.props with
  | some (.dict d) => d
  | _ => []

/-- the loop of `dOpt` over the items of its argument: stops at the first refused item (`return self.warn(…)`),
    keeping what was already stored -/
def dOptLoop (isDT : Bool) : List (Str × Atom) → List (Str × Atom) → List (Str × Atom) × Nat
  | [], acc => (acc, 0)
  | (k, v) :: r, acc =>
    if isDT then
      if dOptKeysDT.contains k then
        if k = s "rtime" then
          match v with
          | .bool false => dOptLoop isDT r (setKey k v acc)
          | .bool true => (acc, 1)      -- `datetime.today()` : outside the model (never generated)
          | .str x =>
            match parseDate x with
            | some d => dOptLoop isDT r (setKey k d acc)
            | none => (acc, 1)
          | .dt .. => dOptLoop isDT r (setKey k v acc)
          | _ => (acc, 1)
        else if v.isBool then dOptLoop isDT r (setKey k v acc)
        else (acc, 1)
      else (acc, 1)
    else
      if dOptKeysNO.contains k then
        if k = s "mprecision" then
          if v.isInt then dOptLoop isDT r (setKey k v acc) else (acc, 1)
        else if v.isBool then dOptLoop isDT r (setKey k v acc)
        else (acc, 1)
      else (acc, 1)

/-- `dOpt(dOptions)` (Constituent.py:178-222) : the source is recorded BEFORE any validation -/
def dOptM (arg : PVal) (e : Expr) : Expr × Nat :=
  let e1 := e.addHist (.opt (s "dOpt") arg)
  match arg with
  | .dict d =>
    if e.kind = s "DT" || e.kind = s "NO" then
      let r := dOptLoop (e.kind = s "DT") d (getDOpt e1)
      (e1.setProp (s "dOpt") (.dict r.1), r.2)
    else (e1, 1)
  | _ => (e1, 1)

/-- `nat(isNat=True)` (Constituent.py:225-233) -/
def natM (arg : Option Atom) (e : Expr) : Expr × Nat :=
  if natKinds.contains e.kind then
    let e1 := e.setProp (s "dOpt") (.dict (getDOpt e))
    match arg.getD (.bool true) with
    | .bool b => ((e1.setProp (s "dOpt") (.dict (setKey (s "nat") (.bool b) (getDOpt e)))).addHist (.opt (s "nat") (.atom (.bool b))), 0)
    | _ => (e1, 1)
  else (e, 1)

/-- `maje(isMaje)` (Constituent.py:237-245) -/
def majeM (arg : Atom) (e : Expr) : Expr × Nat :=
  if majeKinds.contains e.kind then
    match arg with
    | .bool b => ((e.setProp (s "maje") (.atom (.bool b))).addHist (.opt (s "maje") (.atom (.bool b))), 0)
    | _ => (e, 1)
  else (e, 1)

/-- the validation loop of `typ` over a copy of the items; returns the dictionary with the refused keys deleted -/
def typLoop (fr : Bool) : List (Str × Atom) → List (Str × Atom) → List (Str × Atom) × Nat
  | [], types => (types, 0)
  | (k, v) :: r, types =>
    match lookup k typAllowed with
    | none => let x := typLoop fr r types; (x.1, x.2 + 1)           -- unknown type: warning, the key stays
    | some vals =>
      if k = s "neg" && fr then
        -- ConstituentFr.validate_neg_option: also accepts a string; returns True
        match v with
        | .str _ => typLoop fr r types
        | .bool _ => typLoop fr r types
        | _ => let x := typLoop fr r (delKey k types); (x.1, x.2 + 1)
      else if vals.any (fun x => x.pyEq v) then
        -- a numeric flag value (0, 1) is stored as the boolean it is equal to (repair 6301216)
        match v with
        | .int i => typLoop fr r (setKey k (.bool (i != 0)) types)
        | _ => typLoop fr r types
      else let x := typLoop fr r (delKey k types); (x.1, x.2 + 1)

/-- `typ(types)` (Constituent.py:247-282) -/
def typM (arg : PVal) (e : Expr) : Expr × Nat :=
  match arg with
  | .dict d =>
    if typKinds.contains e.kind then
      let r := typLoop (e.lang = .fr) d d
      let e1 := e.addHist (.opt (s "typ") (.dict r.1))
      let new := match lookup (s "typ") e.props with
        | some (.dict old) => updateDict old r.1
        | _ => r.1
      (e1.setProp (s "typ") (.dict new), r.2)
    else (e, 1)
  | _ => (e, 1)

/-- the names `hasattr(constituent, name)` answers True for, among the keys that occur in `props` -/
def methodNames : List Str :=
  specs.map (·.name) ++ listMethods ++ [s "tag", s "typ", s "dOpt", s "nat", s "maje"]

/-- `getattr(e, name)(*args)` for literal arguments; `none` = `AttributeError` (no such method).
    Argument shapes that never occur are counted as a warning (documented restriction). -/
def callMethod (name : Str) (args : List PVal) (e : Expr) : Option (Expr × Nat) :=
  match findSpec name with
  | some sp =>
    match args with
    | [] => some (optM sp none false e)
    | [.atom .none] => some (optM sp none false e)
    | [.atom a] => some (optM sp (some a) false e)
    | _ => some (e, 1)
  | none =>
    if listMethods.contains name then
      match args with
      | [.atom a] => some (listM name a e)
      | _ => some (e, 1)
    else if name = s "tag" then
      match args with
      | [.atom a] => some (tagM a none e)
      | [.atom a, .atom .none] => some (tagM a none e)
      | [.atom a, .dict d] => some (tagM a (some d) e)
      | _ => some (e, 1)
    else if name = s "typ" then
      match args with
      | [v] => some (typM v e)
      | _ => some (e, 1)
    else if name = s "dOpt" then
      match args with
      | [v] => some (dOptM v e)
      | _ => some (e, 1)
    else if name = s "nat" then
      match args with
      | [] => some (natM none e)
      | [.atom a] => some (natM (some a) e)
      | _ => some (e, 1)
    else if name = s "maje" then
      match args with
      | [.atom a] => some (majeM a e)
      | _ => some (e, 1)
    else none

/-! ### constructors -/

/-- `lemma.replace("œ","oe").replace("æ","ae")` -/
def normLemma : Str → Str
  | [] => []
  | c :: r => if c = 'œ' then 'o' :: 'e' :: normLemma r else if c = 'æ' then 'a' :: 'e' :: normLemma r else c :: normLemma r

/-- the props `setLemma` derives from the lexicon entry: `setProp(key,info,True)` stores everything except
    `pe,n,g,t,aux` (kept in `peng`/`taux`); at `tab`, a single-person pronoun table gives `pe`, an always-plural
    noun table gives `n` -/
def initProps (info : LexInfo) : List (Str × PVal) :=
  info.items.foldl (fun acc kv =>
    if kv.1 = s "tab" then
      let acc1 := match info.tabPe with
        | some pe => setKey (s "pe") (.atom (.int pe)) acc
        | none => acc
      if info.plural then setKey (s "n") (.atom (.str (s "p"))) acc1 else acc1
    else if [s "pe", s "n", s "g", s "t", s "aux"].contains kv.1 then acc
    else setKey kv.1 kv.2 acc) []

/-- the lemma shapes of a `NO` given as a string that the model covers: `[-+]?[0-9]+(\.[0-9]*)?`
    (the code's regex also admits `, ` separators and exponents, whose conversion can raise: not generated) -/
def noShape (x : Str) : Bool :=
  let y := match x with
    | '-' :: r => r
    | '+' :: r => r
    | r => r
  let ip := y.takeWhile isDigit
  let rest := y.dropWhile isDigit
  !ip.isEmpty && (rest.isEmpty || (rest.head? = some '.' && (rest.drop 1).all isDigit))

/-- `Terminal(kind, lemma)` as an object of language `lang` (the current language is not consulted) -/
def mkTerm (env : Env) (lang : Lang) (kind : Str) (lemma0 : Atom) : Expr × Nat :=
  let lemma := match lemma0 with
    | .str x => Atom.str (normLemma x)
    | a => a
  let n : Node := { kind := kind, lang := lang, props := [], hist := [] }
  if kind = s "DT" then
    let n1 := { n with props := [(s "dOpt", PVal.dict dOptDefaultDT)] }
    match lemma with
    | .str x =>
      if x.isEmpty then (.term n1 lemma none, 1)    -- today's date: outside the model
      else match parseDate x with
        | some _ => (.term n1 lemma none, 0)
        | none => (.term n1 lemma none, 1)
    | .dt .. => (.term n1 lemma none, 0)
    | _ => (.term n1 lemma none, 1)
  else if kind = s "NO" then
    match lemma with
    | .str x =>
      match env.noWord lang x with
      | some (v, isOrd) =>
        let key := if isOrd then s "ord" else s "nat"
        -- the ordinal is recorded as `.dOpt({'ord': True})` (there is no `.ord()` method; repair bf17f90)
        let call := if isOrd then Call.opt (s "dOpt") (.dict [(key, .bool true)]) else Call.opt key (.atom (.bool true))
        (.term { n with props := [(s "dOpt", .dict [(key, .bool true)])], hist := [call] } (.int v) none, 0)
      | none =>
        let n1 := { n with props := [(s "dOpt", PVal.dict dOptDefaultNO)] }
        if noShape x then (.term n1 lemma none, 0) else (.term n1 (.int 0) none, 1)
    | .int _ => (.term { n with props := [(s "dOpt", PVal.dict dOptDefaultNO)] } lemma none, 0)
    | _ => (.term { n with props := [(s "dOpt", PVal.dict dOptDefaultNO)] } (.int 0) none, 1)
  else if kind = s "Q" then
    match lemma with
    | .str _ => (.term n lemma none, 0)
    | _ => (.term n lemma none, 1)                    -- `str(lemma)` of a non-string: outside the model
  else if lexKinds.contains kind then
    match lemma with
    | .str x =>
      match env.lex lang kind x with
      | some info => (.term { n with props := initProps info } lemma (some info), if info.warn then 1 else 0)
      | none => (.term n lemma none, 1)
    | _ => (.term n lemma none, 1)
  else (.term n lemma none, 1)

/-- `self.getIndex("N")` -/
def idxN (es : List Expr) : Option Nat := es.findIdx? (fun e => e.kind = s "N")

def adjDefPos : Lang → Str
  | .en => s "pre"
  | .fr => s "post"

def adjPos (lang : Lang) (e : Expr) : PVal :=
  match lookup (s "pos") e.props with
  | some v => v
  | none => .atom (.str (adjDefPos lang))

def allAorN (es : List Expr) (i j : Nat) : Bool :=
  let a := min i j
  let b := max i j
  ((es.drop a).take (b - a + 1)).all (fun e => e.kind = s "A" || e.kind = s "N")

/-- one iteration of the loop of `Phrase.add` that moves a misplaced adjective next to the first noun -/
def reorderStep (lang : Lang) (es : List Expr) (i : Nat) : List Expr :=
  match es[i]? with
  | none => es
  | some e =>
    if e.kind = s "A" then
      match idxN es with
      | none => es
      | some idx =>
        let pos := adjPos lang e
        if (pos = .atom (.str (s "pre")) && idx < i) || (pos = .atom (.str (s "post")) && i < idx) then
          if allAorN es i idx then (es.eraseIdx i).insertIdx idx e else es
        else es
    else es

def reorder (lang : Lang) (es : List Expr) : List Expr :=
  (List.range es.length).foldl (reorderStep lang) es

/-- `Phrase.addElement` + the re-ordering of `Phrase.add`; `pos = none` appends -/
def addElems (lang : Lang) (es : List Expr) (c : Expr) (pos : Option Int) : List Expr × Nat :=
  match pos with
  | none => (reorder lang (es ++ [c]), 0)
  | some p =>
    if 0 ≤ p ∧ p.toNat ≤ es.length then (reorder lang (es.insertIdx p.toNat c), 0)
    else (reorder lang es, 1)

/-- `Phrase(kind, elems)` : all but the last child appended as given, the last one through `add` -/
def mkPhr (kind : Str) (lang : Lang) (es : List Expr) : Expr × Nat :=
  let n : Node := { kind := kind, lang := lang, props := [], hist := [] }
  match es.getLast? with
  | none => (.phr n [], 0)
  | some c =>
    let r := addElems lang es.dropLast c none
    (.phr n r.1, r.2)

def isDep : Expr → Bool
  | .dep .. => true
  | _ => false

/-- `Dependent(params, kind)` with a Terminal first parameter -/
def mkDep (kind : Str) (lang : Lang) (t : Expr) (ds : List Expr) : Expr × Nat :=
  let n : Node := { kind := kind, lang := lang, props := [], hist := [] }
  (.dep n t (ds.filter isDep), (ds.filter (fun d => !isDep d)).length)

/-- `x.add(c, pos)` -/
def addM (c : Expr) (pos : Option Int) : Expr → Expr × Nat
  | .term n l i => (.term n l i, 1)
  | .phr n es =>
    let r := addElems n.lang es c pos
    (.phr n r.1, r.2)
  | .dep n t ds =>
    if isDep c then
      match pos with
      | none => (.dep n t (ds ++ [c]), 0)
      | some p => if 0 ≤ p ∧ p.toNat ≤ ds.length then (.dep n t (ds.insertIdx p.toNat c), 0) else (.dep n t ds, 1)
    else (.dep n t ds, 1)

/-! ### construction programs: the Python expressions that build a constituent -/

/-- what evaluating a printed source can raise -/
inductive RouteErr where
  | typeError | syntaxError | nameError | attributeError | notAConstituent | valueError
  deriving DecidableEq, Repr, Inhabited

/-- `lang` of a constructor node = the language of the object it builds (its `lang=` argument, else the current language) -/
inductive Prog where
  | lit (x : Str)                                          -- a bare string (child of a phrase, head of a dependent)
  | term (kind : Str) (lemma : Atom) (lang : Lang)
  | phr (kind : Str) (lang : Lang) (elems : List Prog)
  | dep (kind : Str) (lang : Lang) (t : Prog) (deps : List Prog)
  | call (recv : Prog) (name : Str) (args : List PVal)     -- `recv.name(*args)`
  | add (recv : Prog) (arg : Prog) (pos : Option Int)      -- `recv.add(arg[, pos])`
  | raiseName (recv : Prog) (name : Str)                   -- `recv.name(… an unbound name …)` : NameError after `recv.name`
  deriving Repr, Inhabited

mutual
/-- evaluation; `ctx` = language of the enclosing constructor (a bare string becomes `Q(x)` there) -/
def build (env : Env) (ctx : Lang) : Prog → Except RouteErr (Expr × Nat)
  | .lit x => .ok (mkTerm env ctx (s "Q") (.str x))
  | .term k l lang => .ok (mkTerm env lang k l)
  | .phr k lang ps =>
    match buildList env lang ps with
    | .error e => .error e
    | .ok (es, w) => let r := mkPhr k lang es; .ok (r.1, w + r.2)
  | .dep k lang t ps =>
    match build env lang t with
    | .error e => .error e
    | .ok (te, w1) =>
      match buildList env lang ps with
      | .error e => .error e
      | .ok (es, w2) => let r := mkDep k lang te es; .ok (r.1, w1 + w2 + r.2)
  | .call r name args =>
    match build env ctx r with
    | .error e => .error e
    | .ok (e, w) =>
      match callMethod name args e with
      | none => .error .attributeError
      | some (e1, w1) => .ok (e1, w + w1)
  | .add r a pos =>
    match build env ctx r with
    | .error e => .error e
    | .ok (e, w) =>
      match build env e.lang a with
      | .error err => .error err
      | .ok (c, w1) => let x := addM c pos e; .ok (x.1, w + w1 + x.2)
  | .raiseName r name =>
    match build env ctx r with
    | .error e => .error e
    | .ok (e, _) => if (callMethod name [] e).isSome || name = s "add" then .error .nameError else .error .attributeError
def buildList (env : Env) (ctx : Lang) : List Prog → Except RouteErr (List Expr × Nat)
  | [] => .ok ([], 0)
  | p :: r =>
    match build env ctx p with
    | .error e => .error e
    | .ok (e, w) =>
      match buildList env ctx r with
      | .error err => .error err
      | .ok (es, w') => .ok (e :: es, w + w')
end

end Pyrealb.Expr
