import Pyrealb.Model.ClauseFrPlace
/-! # French clause model — clause specifications (DESIGN §4, fragment G restricted to what C05 speaks about)

A specification is rendered by the harness into BOTH notations by its own trivial mapping
(`S(subj, VP(V, comps…)).typ(..)` and `root(V, subj(..), comp(..)…).typ(..)`); the two pipelines of the model
(`ClauseFrPhrase`, `ClauseFrDep`) start from the same record. -/
namespace Pyrealb.ClauseFr
open Pyrealb
open Pyrealb.Gen.ClauseFr

/-- an opaque noun phrase `NP(D("le"), N(noun))`: identity, gender, number, `.pro()` flag -/
structure NPA where
  id : Nat
  g : Gd
  n : Nb
  pro : Bool
  deriving DecidableEq, Repr

/-- subject: `Pro("je").pe(pe).n(n).g(g)` (`viaMoi = false`) or `Pro("moi").c("nom").pe(pe).n(n).g(g)`, or a noun phrase -/
inductive SubjA where
  | pro (viaMoi : Bool) (pe : Nat) (n : Nb) (g : Gd)
  | np (a : NPA)
  deriving DecidableEq, Repr

/-- a complement of the verb, in the order given -/
inductive Comp where
  /-- direct object noun phrase (possibly `.pro()`) -/
  | dir (a : NPA)
  /-- `PP(P(prep), NP)`; `a.pro` = the PP is pronominalized -/
  | pp (prep : Str) (a : NPA)
  /-- a clitic given as a pronoun: `Pro("moi").c(c).pe(..).n(..).g(..)`, `Pro("y")`, `Pro("en")` -/
  | cl (p : ProT)
  deriving DecidableEq, Repr

inductive NegV where
  | yes
  | word (w : Str)
  deriving DecidableEq, Repr

/-- the sentence-type flags of `.typ({...})` that French reads -/
structure Typ where
  neg : Option NegV := none
  pas : Bool := false
  prog : Bool := false
  refl : Bool := false
  mod : Option Str := none
  int : Option Str := none
  deriving DecidableEq, Repr

structure Spec where
  subj : Option SubjA
  verb : VerbLex
  t : Tense
  /-- `.pe(..)` / `.n(..)` on the verb itself (imperatives) -/
  vpe : Option Nat := none
  vn : Option Nb := none
  comps : List Comp
  typ : Typ
  deriving DecidableEq, Repr

/-- `process_neg`: `if neg == True: neg = "pas"` -/
def NegV.word2 : NegV → Str
  | .yes => pas
  | .word w => w

def SubjA.peng : SubjA → Nat × Nb × Gd
  | .pro _ pe n g => (pe, n, g)
  | .np a => (3, a.n, a.g)

def SubjA.proT (viaMoi : Bool) (pe : Nat) (n : Nb) (g : Gd) : ProT :=
  if viaMoi then { lemma := moi, c := some .nom, tn := false, pe := pe, n := n, g := g }
  else { lemma := je, c := none, tn := false, pe := pe, n := n, g := g }

/-- the verb terminal as constructed: `V(lemma).t(t)[.pe(..)][.n(..)]`, linked to the subject's `peng` when there is
    one (`linked`) -/
def Spec.verbT (sp : Spec) (linked : Bool) : VT :=
  let base : Nat × Nb × Gd := match sp.subj with
    | some s => if linked then s.peng else (3, .s, .m)
    | none => (3, .s, .m)
  let pe := if linked then base.1 else sp.vpe.getD base.1
  let n := if linked then base.2.1 else sp.vn.getD base.2.1
  { mkV sp.verb sp.t pe n base.2.2 with ope := sp.vpe, on := sp.vn }

/-- `rules["verb_option"]["modalityVerb"]`: first key that starts with the value of `mod` -/
def modalLemma (m : Str) : Option Str :=
  (modalityVerb.find? (fun kv => startsWith kv.1 m)).map (·.2)

def prefixOf (int : Str) : Except Crash Str :=
  match lookup int intPrefix with
  | some p => .ok p
  | none => .error .keyError

def luiStr : Str := ['l','u','i']
def aStr : Str := ['à']
def deStr : Str := ['d','e']
def estCeQue : Str := "est-ce que".toList
def enTrain : Str := "en train".toList
def quoi : Str := ['q','u','o','i']
def qui : Str := ['q','u','i']
def tagStr : Str := ['t','a','g']
def wadStr : Str := ['w','a','d']
def woiStr : Str := ['w','o','i']
def wheStr : Str := ['w','h','e']
def whnStr : Str := ['w','h','n']
def tagText : Str := ", n'est-ce pas".toList

/-- first index of an element satisfying `p` (Python `getIndex`, `-1` ↦ `none`) -/
def firstIdx {α} (p : α → Bool) : List α → Option Nat
  | [] => none
  | a :: r => if p a then some 0 else (firstIdx p r).map (· + 1)

end Pyrealb.ClauseFr
