/-! Shared conventions of the pyrealb models.

* Text is `Str = List Char` (a Python `str` is a sequence of code points).
* Python partiality is explicit: a model step that can raise returns `Except Crash α`.
* Warnings are a second output (`Out`).
-/
namespace Pyrealb

abbrev Str := List Char

@[inline] def s (x : String) : Str := x.toList
@[inline] def Str.str (x : Str) : String := String.ofList x

/-- The exception classes the modelled code can raise (the correspondence check compares these). -/
inductive Crash where
  | keyError | indexError | attributeError | typeError | valueError | other
  deriving DecidableEq, Repr, Inhabited

def Crash.name : Crash → String
  | .keyError => "KeyError" | .indexError => "IndexError" | .attributeError => "AttributeError"
  | .typeError => "TypeError" | .valueError => "ValueError" | .other => "Exception"

/-- `x.endswith(suf)` -/
def endsWith (x suf : Str) : Bool := suf.length ≤ x.length && x.drop (x.length - suf.length) == suf

/-- `x.startswith(pre)` -/
def startsWith (x pre : Str) : Bool := x.take pre.length == pre

/-- `x[:len(x)-k]` for `0 ≤ k`. (Python `x[:-k]` for `k > 0`; for `k = 0` the code guards.) -/
def dropRight (x : Str) (k : Nat) : Str := x.take (x.length - k)

/-- `sep.join(parts)` -/
def joinWith (sep : Str) : List Str → Str
  | [] => []
  | [a] => a
  | a :: rest => a ++ sep ++ joinWith sep rest

/-- `[[lemma]]` -/
def bracket (lemma : Str) : Str := s "[[" ++ lemma ++ s "]]"

/-- association-list lookup (Python dict with insertion order) -/
def lookup {α} (k : Str) : List (Str × α) → Option α
  | [] => none
  | (k', v) :: r => if k' = k then some v else lookup k r

end Pyrealb
