import Pyrealb.Model.Basic
/-! Shared by the model of `Number.py` and by the specification of C16: the two languages, the grammatical
gender, Python's `str.isspace`, and splitting a text at the characters that satisfy a predicate. -/
namespace Pyrealb.Number
open Pyrealb

inductive Lang where
  | en | fr
  deriving DecidableEq, Repr, Inhabited

inductive Gender where
  | m | f | n | x
  deriving DecidableEq, Repr, Inhabited

/-- results of model steps (`Except Crash _`) can be compared -/
instance decEqExcept {ε α : Type} [DecidableEq ε] [DecidableEq α] : DecidableEq (Except ε α)
  | .ok a, .ok b => if h : a = b then isTrue (by rw [h]) else isFalse (fun h' => h (Except.ok.inj h'))
  | .error a, .error b => if h : a = b then isTrue (by rw [h]) else isFalse (fun h' => h (Except.error.inj h'))
  | .ok _, .error _ => isFalse (fun h => by cases h)
  | .error _, .ok _ => isFalse (fun h => by cases h)

/-- Python `str.isspace` (the characters `str.strip()` and `str.split()` treat as white space) -/
def isPySpace (c : Char) : Bool :=
  c = ' ' || (9 ≤ c.toNat && c.toNat ≤ 13) || (28 ≤ c.toNat && c.toNat ≤ 31) || c.toNat = 0x85 || c.toNat = 0xa0
  || c.toNat = 0x1680 || (0x2000 ≤ c.toNat && c.toNat ≤ 0x200a) || c.toNat = 0x2028 || c.toNat = 0x2029
  || c.toNat = 0x202f || c.toNat = 0x205f || c.toNat = 0x3000

/-- the pieces of `x` between the characters that satisfy `p`, empty pieces kept (`x.split(c)`) -/
def splitKeep (p : Char → Bool) : Str → List Str
  | [] => [[]]
  | a :: r =>
    if p a then [] :: splitKeep p r
    else match splitKeep p r with
      | w :: ws => (a :: w) :: ws
      | [] => [[a]]

/-- `x.split()` : the maximal runs of non-space characters -/
def words (x : Str) : List Str := (splitKeep isPySpace x).filter (fun w => !w.isEmpty)

/-- `x` cut before its longest suffix of characters that satisfy `p`: (the rest, that suffix) -/
def tailSplit (p : Char → Bool) (x : Str) : Str × Str :=
  let w := (x.reverse.takeWhile p).reverse
  (x.take (x.length - w.length), w)

end Pyrealb.Number
